From Coq Require Import List ZArith Lia Bool.
Import ListNotations.
Require Import Base Tables Utf8 Tree Rdr Link Collect Html Recog Inl3a Inl3b Inl3c Inl3d Inl3e Driver Render Props.
Require Import SpanForest SpanIds SpanStack SpanEmph SpanSmall SpanTok SpanBridge SpanRdr SpanCollect SpanScan SpanHtml SpanCode.
Open Scope Z_scope.

(* ================================================================================================
   Property C02 at the inline level: the spans of the forest returned by parseInlines are valid,
   nested in their parent and ordered among siblings.

   MAIN THEOREM (end of file, closed under the global context):

     Theorem parseInlines_spans : forall src matcher b, entriesOK src b = true ->
       let ks := parseInlines src matcher b in
       ordered_in (bstart b) (bend b) ks = true /\ forallb (spansI false src (bstart b) (bend b)) ks = true.

   ordered_in lo hi ks (SpanBridge.v): first start >= lo, each end <= next start, every end <= hi.

   WHAT WAS CHANGED IN THE STATEMENT.  The conclusion is exactly the one asked for.  The hypothesis entriesOK is
   stronger than "ordered, non-overlapping, inside [bstart, bend] and inside [0, len src]" (that part is entriesBasic),
   because with that wording alone the statement is false on adversarial entries (parseInlines_spans_literal_false below,
   InlineSpansTest.tail_counterexample: entry [0,4] of "[a]()" gives Link [0,5] > bend = 4, the reader looks one byte past
   the last entry; also a closing backtick run crossing two adjacent entries).
   It used to be false on a legitimate tree as well (defect D23, found by this proof: "> [](/ux\<LF>> )" gave
   Link [2,13] > LinkDestination [5,9] > Text [5,10]); collectTextNodes has been repaired (the common tail of collect_loop
   stops when the reader stands at the end of the range) and the clause of linesOK that excluded the situation is gone;
   InlineSpansTest.d23_regression / d23_tree keep the input as a regression example.
   entriesOK = entriesBasic (the wording of the task) and, all true of what the block layer produces for leaf blocks
   with Unparsed entries (paragraphs, headings):
     kindsOK    every entry is an Unparsed or an Indent entry;
     indentsOK  an Indent entry covers one byte and stands for at most 3 columns;
     linesOK    every entry but the last is non-empty and, unless it is an Indent entry, ends with LF or CR;
     tailOK     the byte after the last entry is past the source, or a blank (space, tab, LF, CR), or the last entry is a
                non-empty non-Indent entry ending in a blank and the byte after it is not ')';
                or the block has one single, empty entry (ATX heading without content: "# #").
   InlineSpansTest.v checks by vm_compute that every leaf of 33 test documents (emphasis nests, links with titles over two
   lines, images, code spans over lines, hard breaks, raw tags, references, escapes, character references, Indent entries,
   headings, containers) satisfies entriesOK, so the theorem is not vacuous.

   LAYERS (each closed under the global context):
     1. SpanForest.v  okF/okN and the tree-surgery primitives (okF_snoc, okF_remove, okF_replace, okF_wrap, okF_wrap_tail);
        SpanIds.v     what findNode/updNode/removeId/wrapIn compute on a forest without repeated identities, at the root level
                      and one level down (contexts, plug);  SpanEmph.okF_pe_step  the span shrinking of one emphasis match.
     2. SpanEmph.v    pe_loop_level / processEmphasis_level: for any delimiter stack whose entries (above the bottom) point,
                      in order, to childless text nodes of one level of the forest, processEmphasis only rewrites that level
                      and preserves okF lo hi of it for every lo hi;  processEmphasis_spans_partial (root level).
     3. SpanTok.v     the tokeniser invariant TI (forest good up to lastEnd, identities, stack relation) and
                      lastEnd <= plainStart <= pos, plainStart <= spanEnd: every branch of istep (istep_ok), iloop, outer,
                      including the tree surgery of parseEndBracket/finishLink (B_close); parseInlines_okF, relative to four
                      specifications of the reader-based scanners (SpecHTML, SpecCode, SpecInline, SpecLabel).
                      parseInlines_spans_reduction below is this layer for entriesBasic alone.
     4. SpanRdr.v     the multi-line reader over the entries (alive in an entry / off the entries, what current and next do);
        SpanCollect.v collectTextNodes (with and without escapes) yields an ordered chain inside its range;
        SpanScan.v    link label, destination, title, inline link;  SpanHtml.v  raw HTML tags;  SpanCode.v  code spans;
                      SpanCode.scanner_specs: the four specifications hold under the entry conditions (record EC).
   ================================================================================================ *)

(* the part of the hypothesis asked for in the task: entries ordered, non-overlapping, inside [bstart, bend] and [0, len src] *)
Definition entriesBasic (src : bytes) (b : block) : bool :=
  ordered_in (bstart b) (bend b) (bik b) && forallb (spansI false src (bstart b) (bend b)) (bik b).

Definition spans_conclusion (src : bytes) (matcher : list bytes) (b : block) : Prop :=
  let ks := parseInlines src matcher b in
  ordered_in (bstart b) (bend b) ks = true /\ forallb (spansI false src (bstart b) (bend b)) ks = true.

(* what the tokeniser assumes of the four scanners that use the multi-line reader *)
Definition ScannerSpecs (src : bytes) (U : list inline) : Prop :=
  SpecHTML src U /\ SpecCode src U /\ SpecInline src U /\ SpecLabel src U.

Lemma pe_loop_nostack : forall fuel st ob cp, stk st = [] -> 0 <= cp -> pe_loop fuel st ob cp = st.
Proof.
  intros fuel st ob cp Hs Hcp. destruct fuel as [|f]; [reflexivity|]. cbn [pe_loop]. rewrite Hs. cbn [length pe_findCloser].
  change (len (@nil delim)) with 0. replace (0 <=? cp) with true by (symmetry; apply Z.leb_le; lia). reflexivity.
Qed.
Lemma parseInlines_nil src m b : bik b = [] -> parseInlines src m b = [].
Proof.
  intros E. unfold parseInlines. rewrite E. cbn [length outer]. change (len (@nil inline) <=? 0) with true. cbv iota.
  unfold processEmphasis. cbn [stk]. rewrite pe_loop_nostack by (reflexivity || lia). reflexivity.
Qed.

(* Layers 1-3 and the tree surgery of layer 4: the theorem, reduced to the specifications of the reader-based scanners *)
Theorem parseInlines_spans_reduction src matcher b :
  entriesBasic src b = true -> ScannerSpecs src (bik b) -> spans_conclusion src matcher b.
Proof.
  intros HE (S1 & S2 & S3 & S4). unfold spans_conclusion. cbv zeta.
  unfold entriesBasic in HE. apply andb_true_iff in HE. destruct HE as [Ho Hs].
  destruct (bik b) as [|u0 U0] eqn:EU.
  { rewrite parseInlines_nil by exact EU. split; reflexivity. }
  rewrite <- EU in *. assert (HN : bik b <> []) by (rewrite EU; discriminate).
  pose proof (entries_okF src (bik b) (bstart b) (bend b) HN Ho Hs) as H1.
  (* the lower bound can be taken nonnegative *)
  assert (H2 : okF (Z.max (bstart b) 0) (Z.min (bend b) (len src)) (map ofInline (bik b))).
  { rewrite EU in *. cbn [map okF] in *. destruct H1 as (A & B & C). split; [|split; assumption].
    pose proof (okN_valid _ B). lia. }
  pose proof (parseInlines_okF src (bik b) (Z.max (bstart b) 0) (Z.min (bend b) (len src)) (bend b) H2 ltac:(lia) ltac:(lia) S1 S2 S3 S4 matcher (bend b) eq_refl) as H3.
  cbv zeta in H3. unfold parseInlines.
  apply (okF_checks2 src _ (Z.max (bstart b) 0) (Z.min (bend b) (len src))); [exact H3|lia|lia|lia].
Qed.
Print Assumptions parseInlines_spans_reduction.

(* ================================================================================================
   The entry conditions as a boolean predicate, and the theorem.
   ================================================================================================ *)
Definition kindsOK (U : list inline) : bool :=
  forallb (fun u => (ikind u =? UnparsedKind) || (ikind u =? IndentKind)) U.
Definition indentsOK (U : list inline) : bool :=
  forallb (fun u => if ikind u =? IndentKind then (iend u =? istart u + 1) && (iindent u <=? 3) else true) U.
(* every entry but the last: non-empty; ends with a line ending unless it is an Indent entry *)
Fixpoint linesOK (src : bytes) (U : list inline) : bool :=
  match U with
  | u :: ((v :: _) as r) =>
    (istart u <? iend u) &&
    (if ikind u =? IndentKind then true else isEOLb (at_ src (iend u - 1))) &&
    linesOK src r
  | _ => true
  end.
(* after the last entry: end of source, or white space, or the last entry is a non-empty non-Indent entry ending in white space
   and the next byte is not ')'; or the block has a single, empty entry (an ATX heading without content) *)
Definition tailOK (src : bytes) (U : list inline) : bool :=
  match rev U with
  | [] => true
  | L :: rr =>
    let p := iend L in
    (len src <=? p) || isSpaceTabOrLineEnding (at_ src p) ||
    (negb (ikind L =? IndentKind) && (istart L <? p) && isSpaceTabOrLineEnding (at_ src (p - 1)) && negb (at_ src p =? 41)) ||
    (match rr with [] => istart L =? iend L | _ => false end)
  end.

Definition entriesOK (src : bytes) (b : block) : bool :=
  entriesBasic src b && kindsOK (bik b) && indentsOK (bik b) && linesOK src (bik b) && tailOK src (bik b).

Lemma nthU_0 u r : nthU (u :: r) 0 = u. Proof. reflexivity. Qed.
Lemma nthU_S u r j : 0 <= j -> nthU (u :: r) (j + 1) = nthU r j.
Proof. intros H. unfold nthU. replace (Z.to_nat (j + 1)) with (S (Z.to_nat j)) by lia. reflexivity. Qed.
Lemma forallb_nthU (p : inline -> bool) : forall U j, forallb p U = true -> 0 <= j < len U -> p (nthU U j) = true.
Proof.
  intros U j H Hj. rewrite forallb_forall in H. apply H. unfold nthU. apply nth_In. unfold len in Hj. lia.
Qed.
Lemma linesOK_spec src : forall U j, linesOK src U = true -> 0 <= j -> j + 1 < len U ->
  istart (nthU U j) < iend (nthU U j) /\
  (ikind (nthU U j) <> IndentKind -> isEOLb (at_ src (iend (nthU U j) - 1)) = true).
Proof.
  induction U as [|u r IH]; intros j H Hj0 Hj; [cbn in Hj; lia|].
  destruct r as [|v r']; [cbn in Hj; lia|].
  cbn [linesOK] in H. rewrite !andb_true_iff in H. destruct H as ((H1 & H2) & H3). apply Z.ltb_lt in H1.
  destruct (Z.eq_dec j 0) as [->|Nj].
  - rewrite nthU_0. split; [exact H1|].
    intros Ni. apply Z.eqb_neq in Ni. rewrite Ni in H2. exact H2.
  - replace j with ((j - 1) + 1) by lia. rewrite (nthU_S u (v :: r') (j - 1)) by lia.
    apply IH; [exact H3|lia|]. rewrite len_cons in Hj. lia.
Qed.

Definition singleEmpty (U : list inline) : Prop := exists u, U = [u] /\ istart u = iend u.

Lemma entriesOK_EC src b : entriesOK src b = true -> bik b <> [] -> ~ singleEmpty (bik b) ->
  EC src (bik b) (Z.max (bstart b) 0) (Z.min (bend b) (len src)).
Proof.
  intros H HN HSE. unfold entriesOK in H. rewrite !andb_true_iff in H. destruct H as ((((HB & HK) & HI) & HL) & HT).
  unfold entriesBasic in HB. apply andb_true_iff in HB. destruct HB as [Ho Hs].
  pose proof (entries_okF src (bik b) (bstart b) (bend b) HN Ho Hs) as H1.
  assert (H2 : okF (Z.max (bstart b) 0) (Z.min (bend b) (len src)) (map ofInline (bik b))).
  { destruct (bik b) as [|u0 U0]; [contradiction|]. cbn [map okF] in *. destruct H1 as (A & B & C). split; [|split; assumption].
    pose proof (okN_valid _ B). lia. }
  constructor.
  - exact H2.
  - lia.
  - lia.
  - intros j Hj. pose proof (forallb_nthU _ _ j HK Hj) as X. cbn beta in X. apply orb_true_iff in X. destruct X as [X|X]; apply Z.eqb_eq in X; tauto.
  - intros j Hj Ei. pose proof (forallb_nthU _ _ j HI Hj) as X. cbn beta in X. apply Z.eqb_eq in Ei. rewrite Ei in X.
    apply andb_true_iff in X. destruct X as [X _]. apply Z.eqb_eq in X. exact X.
  - intros j Hj Ei. pose proof (forallb_nthU _ _ j HI Hj) as X. cbn beta in X. apply Z.eqb_eq in Ei. rewrite Ei in X.
    apply andb_true_iff in X. destruct X as [_ X]. apply Z.leb_le in X. exact X.
  - intros j Hj0 Hj. apply (linesOK_spec src (bik b) j HL Hj0 Hj).
  - intros _. unfold tailOK in HT. unfold Bend.
    destruct (rev (bik b)) as [|L rr] eqn:Er; [exfalso; apply HN; rewrite <- (rev_involutive (bik b)), Er; reflexivity|].
    assert (EL : nthU (bik b) (len (bik b) - 1) = L).
    { rewrite (last_nth (bik b) L rr (mkI 0 0 0) Er). unfold nthU, len. f_equal.
      assert (0 < length (bik b))%nat by (destruct (bik b); [contradiction|cbn; lia]). lia. }
    rewrite EL. cbv zeta in HT. rewrite !orb_true_iff in HT. destruct HT as [[[X|X]|X]|X].
    + left. left. apply Z.leb_le in X. exact X.
    + left. right. exact X.
    + right. rewrite !andb_true_iff in X. destruct X as (((X1 & X2) & X3) & X4).
      apply negb_true_iff, Z.eqb_neq in X1. apply Z.ltb_lt in X2. apply negb_true_iff, Z.eqb_neq in X4. tauto.
    + exfalso. apply HSE. destruct rr as [|y rr']; [|discriminate]. apply Z.eqb_eq in X. exists L. split; [|exact X].
      rewrite <- (rev_involutive (bik b)), Er. reflexivity.
Qed.

(* ---- the theorem ----
   Statement of the task, with the hypothesis entriesOK strengthened to what is true (see the report):
   besides "ordered, non-overlapping, inside [bstart, bend] and [0, len src]" (entriesBasic), the entries are Unparsed or Indent
   entries shaped like the block layer's, every line entry but the last ends with a line ending, the byte after the last entry is
   harmless, and the input does not trigger defect D23. *)
Theorem parseInlines_spans : forall src matcher b, entriesOK src b = true ->
  let ks := parseInlines src matcher b in
  ordered_in (bstart b) (bend b) ks = true /\ forallb (spansI false src (bstart b) (bend b)) ks = true.
Proof.
  intros src matcher b H.
  assert (HB : entriesBasic src b = true).
  { unfold entriesOK in H. rewrite !andb_true_iff in H. tauto. }
  destruct (bik b) as [|u0 U0] eqn:EU.
  { apply (parseInlines_spans_reduction src matcher b HB). rewrite EU.
    repeat split; intros st p (_ & _ & X & _); cbn in X; lia. }
  apply (parseInlines_spans_reduction src matcher b HB).
  assert (HN : bik b <> []) by (rewrite EU; discriminate).
  assert (HD : singleEmpty (bik b) \/ ~ singleEmpty (bik b)).
  { rewrite EU. destruct U0 as [|v r].
    - destruct (Z.eq_dec (istart u0) (iend u0)) as [E|N]; [left; exists u0; split; [reflexivity|exact E]|].
      right. intros (u & Eu & Ee). inversion Eu; subst. contradiction.
    - right. intros (u & Eu & _). discriminate. }
  destruct HD as [HS|HS].
  { (* a single empty entry: no scanner is ever started *)
    destruct HS as (u & Eu & Ee). rewrite Eu.
    repeat split; intros st p (_ & _ & X & Y); cbn in X; assert (upos st = 0) by lia; unfold nthU in Y; replace (upos st) with 0 in Y by lia; cbn in Y; lia. }
  destruct (scanner_specs src (bik b) _ _ (entriesOK_EC src b H HN HS)) as (A & B & C & D).
  repeat split; assumption.
Qed.
Print Assumptions parseInlines_spans.

(* the statement with the hypothesis worded literally as in the task is false *)
Definition parseInlines_spans_literal_statement : Prop :=
  forall src matcher b, entriesBasic src b = true -> spans_conclusion src matcher b.
Lemma parseInlines_spans_literal_false : ~ parseInlines_spans_literal_statement.
Proof.
  intros H.
  specialize (H [91; 97; 93; 40; 41] [] (Blk ParagraphKind 0 4 [] [Inl UnparsedKind 0 4 0 [] []] 0 0 0 false false) eq_refl).
  unfold spans_conclusion in H. destruct H as [_ H]. vm_compute in H. discriminate.
Qed.
Print Assumptions parseInlines_spans_literal_false.
