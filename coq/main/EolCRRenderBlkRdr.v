From Coq Require Import List ZArith Lia Bool.
Import ListNotations.
Require Import Base Tree Rdr Link ShapesBase.
Require ShapesR ExRdr.
Open Scope Z_scope.

(* ================================================================================================
   T61 (block half), part 1: the multi-line reader over the entries of a paragraph that are LINES
   (boolean form gL: every entry is a non-empty Unparsed or Indent span inside the source; an Unparsed entry that is
   not the last one ends with a line ending byte; an Indent entry is one byte, not a line ending, and the next entry
   starts right after it).  On such a list a step of the reader from a byte that is not a line ending moves by at most
   one position; hence the span that parseLinkDestination reports is a contiguous piece of the source without line ending.
   ================================================================================================ *)

Definition eolb (c : Z) : bool := (c =? 10) || (c =? 13).
Definition ukind (i : inline) : bool := (ikind i =? UnparsedKind) || (ikind i =? IndentKind).
Fixpoint gL (src : bytes) (sp : list inline) : bool :=
  match sp with
  | [] => true
  | i :: r =>
    (0 <=? istart i) && (istart i <? iend i) && (iend i <=? len src) && ukind i &&
    (if ikind i =? IndentKind
     then (iend i =? istart i + 1) && negb (eolb (at_ src (istart i))) && match r with [] => true | j :: _ => istart j =? iend i end
     else match r with [] => true | _ :: _ => eolb (at_ src (iend i - 1)) end) &&
    gL src r
  end.

Lemma gL_cons src i r : gL src (i :: r) = true ->
  0 <= istart i /\ istart i < iend i /\ iend i <= len src /\ (ikind i = UnparsedKind \/ ikind i = IndentKind) /\
  (ikind i = IndentKind -> iend i = istart i + 1 /\ eolb (at_ src (istart i)) = false /\ (forall j r', r = j :: r' -> istart j = iend i)) /\
  (ikind i <> IndentKind -> r <> [] -> eolb (at_ src (iend i - 1)) = true) /\
  gL src r = true.
Proof.
  cbn [gL]. intros H. apply andb_true_iff in H. destruct H as [H H6]. apply andb_true_iff in H. destruct H as [H H5].
  apply andb_true_iff in H. destruct H as [H H4]. apply andb_true_iff in H. destruct H as [H H3]. apply andb_true_iff in H. destruct H as [H1 H2].
  apply Z.leb_le in H1, H3. apply Z.ltb_lt in H2.
  split; [exact H1|]. split; [exact H2|]. split; [exact H3|]. split.
  { unfold ukind in H4. apply orb_true_iff in H4. destruct H4 as [A|A]; apply Z.eqb_eq in A; [left|right]; exact A. }
  split; [|split; [|exact H6]].
  - intros E. apply Z.eqb_eq in E. rewrite E in H5. apply andb_true_iff in H5. destruct H5 as [H5 C]. apply andb_true_iff in H5. destruct H5 as [A B].
    apply Z.eqb_eq in A. apply negb_true_iff in B. split; [exact A|]. split; [exact B|]. intros j r' ->. apply Z.eqb_eq in C. exact C.
  - intros E Hr. apply Z.eqb_neq in E. rewrite E in H5. destruct r; [congruence|exact H5].
Qed.
Lemma gL_tail src i r : gL src (i :: r) = true -> gL src r = true.
Proof. intros H. apply gL_cons in H. tauto. Qed.
Lemma gL_app_r src : forall pre l, gL src (pre ++ l) = true -> gL src l = true.
Proof. induction pre as [|x pre IH]; intros l H; [exact H|]. apply IH. apply (gL_tail src x). exact H. Qed.
Lemma gL_skipn src n : forall l, gL src l = true -> gL src (skipn n l) = true.
Proof. intros l H. rewrite <- (firstn_skipn n l) in H. apply gL_app_r in H. exact H. Qed.
Lemma gL_from src l a : gL src l = true -> gL src (from_ l a) = true.
Proof. apply gL_skipn. Qed.

Lemma nextSpan_gL src j r : gL src (j :: r) = true -> nextSpan (j :: r) = Some (j, j :: r).
Proof.
  intros H. apply gL_cons in H. destruct H as (_ & _ & _ & Hk & _). cbn [nextSpan].
  destruct Hk as [E|E]; rewrite E; reflexivity.
Qed.

Notation InNode := ShapesR.InNode.
Notation withSpans := ShapesR.withSpans.

Lemma next_unfold r node rest : curNode r = (Some node, withSpans r (node :: rest)) ->
  next r =
    if (ikind node =? IndentKind) && (r_vpos r <? iindent node) then
      (true, {| r_src := r_src r; r_spans := node :: rest; r_pos := r_pos r; r_vpos := r_vpos r + 1; r_prev := r_pos r |})
    else if negb (ikind node =? IndentKind) && (r_pos r + 1 <? iend node) then
      (true, {| r_src := r_src r; r_spans := node :: rest; r_pos := r_pos r + 1;
                r_vpos := (if at_ (r_src r) (r_pos r + 1) =? 0 then (if at_ (r_src r) (r_pos r) =? 0 then (r_vpos r + 1) mod 3 else 0) else r_vpos r);
                r_prev := r_pos r |})
    else match nextSpan rest with
         | Some (i, sp) => (true, {| r_src := r_src r; r_spans := sp; r_pos := istart i;
                                     r_vpos := computeNullVirtualPosition (r_src r) (istart i); r_prev := r_pos r |})
         | None => (false, {| r_src := r_src r; r_spans := []; r_pos := r_pos r + 1; r_vpos := r_vpos r; r_prev := r_pos r |})
         end.
Proof. intros E. unfold next. rewrite E. reflexivity. Qed.

Section Rdr.
  Variable src : bytes.
  Definition RL (r : reader) : Prop := r_src r = src /\ gL src (r_spans r) = true.
  Definition nE (p : Z) : Prop := eolb (at_ src p) = false.

  Lemma RL_curNode r : RL r -> RL (snd (curNode r)).
  Proof.
    intros (A & B). destruct (ShapesR.curNode_cases r) as [E|(pre & n & rest & E1 & E & E3)]; rewrite E; cbn [snd]; split; cbn; try assumption.
    - reflexivity.
    - rewrite E1 in B. apply gL_app_r in B. exact B.
  Qed.
  Lemma RL_current r : RL r -> RL (snd (current r)).
  Proof. intros H. destruct (ShapesR.current_snd r) as [E|E]; rewrite E; [exact H|apply RL_curNode, H]. Qed.

  Lemma next_facts r : RL r ->
    RL (snd (next r)) /\
    (nE (r_pos r) -> r_pos r <= r_pos (snd (next r)) <= r_pos r + 1) /\
    (fst (next r) = true -> InNode (snd (next r))) /\
    (InNode r -> r_prev (snd (next r)) = r_pos r /\ 0 <= r_pos r < len src).
  Proof.
    intros (Hs & Hg). destruct (ShapesR.curNode_cases r) as [E|(pre & n & rest & E1 & E & E3)].
    - assert (En : next r = (false, withSpans r [])) by (unfold next; rewrite E; reflexivity).
      rewrite En. cbn [fst snd]. split; [split; [exact Hs|reflexivity]|]. split; [intros _; cbn; lia|]. split; [discriminate|].
      intros (node & Hn). rewrite E in Hn. discriminate.
    - rewrite E1 in Hg. apply gL_app_r in Hg. pose proof (gL_cons _ _ _ Hg) as (G1 & G2 & G3 & G4 & G5 & G6 & G7).
      pose proof (ShapesR.spanHas_range _ _ E3) as (R1 & R2 & R3).
      rewrite (next_unfold r n rest E).
      destruct (Z.eqb_spec (ikind n) IndentKind) as [Ek|Ek]; cbn [andb negb].
      + destruct (G5 Ek) as (I1 & I2 & I3).
        destruct (r_vpos r <? iindent n).
        * cbn [fst snd]. split; [split; [exact Hs|exact Hg]|]. split; [intros _; cbn; lia|]. split.
          { intros _. exists n. rewrite (ShapesR.curNode_head n rest); [reflexivity|reflexivity|exact E3]. }
          intros _. cbn. lia.
        * destruct rest as [|v rest'].
          { cbn [nextSpan fst snd]. split; [split; [exact Hs|reflexivity]|]. split; [intros _; cbn; lia|]. split; [discriminate|]. intros _. cbn. lia. }
          rewrite (nextSpan_gL src v rest' G7). cbn [fst snd].
          pose proof (gL_cons _ _ _ G7) as (V1 & V2 & _).
          split; [split; [exact Hs|exact G7]|]. split; [intros _; cbn; rewrite (I3 v rest' eq_refl); lia|]. split.
          { intros _. exists v. rewrite (ShapesR.curNode_head v rest'); [reflexivity|reflexivity|]. cbn [r_pos]. apply ShapesR.spanHas_intro; lia. }
          intros _. cbn. lia.
      + destruct (Z.ltb_spec (r_pos r + 1) (iend n)) as [L|L].
        * cbn [fst snd]. split; [split; [exact Hs|exact Hg]|]. split; [intros _; cbn; lia|]. split.
          { intros _. exists n. rewrite (ShapesR.curNode_head n rest); [reflexivity|reflexivity|]. cbn [r_pos]. apply ShapesR.spanHas_intro; lia. }
          intros _. cbn. lia.
        * destruct rest as [|v rest'].
          { cbn [nextSpan fst snd]. split; [split; [exact Hs|reflexivity]|]. split; [intros _; cbn; lia|]. split; [discriminate|]. intros _. cbn. lia. }
          rewrite (nextSpan_gL src v rest' G7). cbn [fst snd].
          pose proof (gL_cons _ _ _ G7) as (V1 & V2 & _).
          split; [split; [exact Hs|exact G7]|]. split.
          { intros Hne. exfalso. unfold nE in Hne. specialize (G6 Ek ltac:(discriminate)).
            replace (iend n - 1) with (r_pos r) in G6 by lia. congruence. }
          split.
          { intros _. exists v. rewrite (ShapesR.curNode_head v rest'); [reflexivity|reflexivity|]. cbn [r_pos]. apply ShapesR.spanHas_intro; lia. }
          intros _. cbn. lia.
  Qed.
  Lemma RL_next r : RL r -> RL (snd (next r)).
  Proof. intros H. apply (next_facts r H). Qed.

  (* the byte the reader reports is not a line ending: neither is the source byte *)
  Lemma cur_real r : RL r -> eolb (fst (current r)) = false -> nE (r_pos r).
  Proof.
    intros (Hs & Hg). unfold nE, current. rewrite Hs.
    destruct (Z.leb_spec (len src) (r_pos r)) as [L|L]; [intros _; rewrite at_beyond by lia; reflexivity|].
    destruct (ShapesR.curNode_cases r) as [E|(pre & n & rest & E1 & E & E3)]; rewrite E; cbn [okind].
    - change (0 =? IndentKind) with false. cbv iota.
      destruct (Z.eqb_spec (at_ src (r_pos r)) 0) as [E0|E0]; cbn [fst]; [intros _; rewrite E0; reflexivity|tauto].
    - destruct (Z.eqb_spec (ikind n) IndentKind) as [Ek|Ek].
      + intros _. rewrite E1 in Hg. apply gL_app_r in Hg. pose proof (gL_cons _ _ _ Hg) as (_ & _ & _ & _ & G5 & _).
        destruct (G5 Ek) as (I1 & I2 & _). pose proof (ShapesR.spanHas_range _ _ E3) as (R1 & R2 & R3).
        replace (r_pos r) with (istart n) by lia. exact I2.
      + destruct (Z.eqb_spec (at_ src (r_pos r)) 0) as [E0|E0]; cbn [fst]; [intros _; rewrite E0; reflexivity|tauto].
  Qed.
  Lemma cur_nz r : fst (current r) <> 0 -> r_pos r < len (r_src r).
  Proof. unfold current. destruct (Z.leb_spec (len (r_src r)) (r_pos r)) as [L|L]; [cbn [fst]; congruence|intros _; exact L]. Qed.
  Lemma cur_pos r : r_pos (snd (current r)) = r_pos r.
  Proof. apply (ShapesR.current_fields r). Qed.

  (* one step from a byte that is not a line ending *)
  Lemma step_ne rr start : RL rr -> start <= r_pos rr -> r_pos rr < len src -> (forall p, start <= p < r_pos rr -> nE p) -> nE (r_pos rr) ->
    RL (snd (next rr)) /\ start <= r_pos (snd (next rr)) /\ r_pos (snd (next rr)) <= len src /\ (forall p, start <= p < r_pos (snd (next rr)) -> nE p).
  Proof.
    intros HR Hs Hl Hseg Hn. destruct (next_facts rr HR) as (A & B & _). specialize (B Hn).
    split; [exact A|]. split; [lia|]. split; [lia|]. intros p Hp.
    destruct (Z.eq_dec p (r_pos rr)) as [->|Np]; [exact Hn|apply Hseg; lia].
  Qed.

  Lemma spanValid_null : spanValid nullSpan = false. Proof. reflexivity. Qed.

  (* ---- the angle form ---- *)
  Lemma ld_angle_ne : forall fuel r start, RL r -> start <= r_pos r -> (forall p, start <= p <= r_pos r -> nE p) ->
    spanValid (fst (fst (ld_angle fuel r start))) = true ->
    fst (fst (fst (ld_angle fuel r start))) = start /\ snd (fst (fst (ld_angle fuel r start))) <= len src /\
    (forall p, start <= p < snd (fst (fst (ld_angle fuel r start))) -> nE p).
  Proof.
    induction fuel as [|f IH]; intros r start HR Hs Hseg; [cbn [ld_angle fst]; rewrite spanValid_null; discriminate|]. cbn [ld_angle].
    destruct (next_facts r HR) as (H1 & Hp1 & Hin1 & _). specialize (Hp1 (Hseg (r_pos r) ltac:(lia))).
    destruct (next r) as [ok r1]. cbn [fst snd] in H1, Hp1, Hin1. destruct ok; cbn [negb]; [|cbn [fst]; rewrite spanValid_null; discriminate].
    specialize (Hin1 eq_refl).
    pose proof (RL_current r1 H1) as H2. pose proof (cur_real r1 H1) as Hc. pose proof (ShapesR.InNode_current r1 Hin1) as Hin2.
    pose proof (cur_pos r1) as Ep2.
    destruct (current r1) as [c r2]. cbn [fst snd] in H2, Hc, Hin2, Ep2.
    destruct ((c =? 13) || (c =? 10)) eqn:Ee; [cbn [fst]; rewrite spanValid_null; discriminate|].
    assert (Hn1 : nE (r_pos r1)) by (apply Hc; unfold eolb; rewrite orb_comm; exact Ee).
    assert (Hseg2 : forall p, start <= p <= r_pos r2 -> nE p).
    { intros p Hp. rewrite Ep2 in Hp. destruct (Z.eq_dec p (r_pos r1)) as [->|Np]; [exact Hn1|apply Hseg; lia]. }
    destruct (c =? 92).
    - destruct (next_facts r2 H2) as (H3 & Hp3 & Hin3 & _). specialize (Hp3 ltac:(rewrite Ep2; exact Hn1)).
      destruct (next r2) as [ok2 r3]. cbn [fst snd] in H3, Hp3, Hin3. destruct ok2; cbn [negb]; [|cbn [fst]; rewrite spanValid_null; discriminate].
      pose proof (RL_current r3 H3) as H4. pose proof (cur_real r3 H3) as Hc3. pose proof (cur_pos r3) as Ep4.
      destruct (current r3) as [c2 r4]. cbn [fst snd] in H4, Hc3, Ep4.
      destruct ((c2 =? 10) || (c2 =? 13)) eqn:Ee2; [cbn [fst]; rewrite spanValid_null; discriminate|].
      apply IH; [exact H4|lia|]. intros p Hp. rewrite Ep4 in Hp.
      destruct (Z.eq_dec p (r_pos r3)) as [->|Np]; [apply Hc3; exact Ee2|apply Hseg2; lia].
    - destruct (c =? 62).
      + destruct (next_facts r2 H2) as (_ & _ & _ & Hpv). specialize (Hpv Hin2).
        destruct (next r2) as [ok3 r3]. cbn [fst snd] in Hpv |- *. intros _. destruct Hpv as [Hpv Hb]. rewrite Hpv.
        split; [reflexivity|]. split; [lia|]. intros p Hp. apply Hseg2. lia.
      + apply IH; [exact H2|lia|exact Hseg2].
  Qed.

  (* ---- the bare form ---- *)
  Lemma notctl c : isASCIIControl c || (c =? 32) = false -> eolb c = false /\ c <> 0.
  Proof.
    unfold isASCIIControl, eolb. intros H. apply orb_false_iff in H. destruct H as [H _]. apply orb_false_iff in H. destruct H as [H _].
    apply Z.leb_gt in H. split; [|lia].
    destruct (Z.eqb_spec c 10); [lia|]. destruct (Z.eqb_spec c 13); [lia|]. reflexivity.
  Qed.

  Lemma ld_bare_ne : forall fuel r paren start, RL r -> start <= r_pos r -> r_pos r <= len src -> (forall p, start <= p < r_pos r -> nE p) ->
    start <= r_pos (ld_bare fuel r paren) /\ r_pos (ld_bare fuel r paren) <= len src /\
    (forall p, start <= p < r_pos (ld_bare fuel r paren) -> nE p).
  Proof.
    induction fuel as [|f IH]; intros r paren start HR Hs Hl Hseg; [cbn [ld_bare]; tauto|]. cbn [ld_bare].
    pose proof (RL_current r HR) as H1. pose proof (cur_real r HR) as Hc. pose proof (cur_nz r) as Hz. pose proof (cur_pos r) as Ep1.
    destruct HR as (Hsrc & _). rewrite Hsrc in Hz.
    destruct (current r) as [c r1]. cbn [fst snd] in H1, Hc, Hz, Ep1.
    destruct (isASCIIControl c || (c =? 32)) eqn:Ectl; [rewrite Ep1; tauto|].
    destruct (notctl c Ectl) as [Ne Nz]. specialize (Hc Ne). specialize (Hz Nz).
    assert (Hgo : forall paren', let '(ok, r2) := next r1 in
              start <= r_pos (if ok then ld_bare f r2 paren' else r2) /\ r_pos (if ok then ld_bare f r2 paren' else r2) <= len src /\
              (forall p, start <= p < r_pos (if ok then ld_bare f r2 paren' else r2) -> nE p)).
    { intros paren'. destruct (step_ne r1 start H1 ltac:(lia) ltac:(lia) ltac:(rewrite Ep1; exact Hseg) ltac:(rewrite Ep1; exact Hc)) as (A & B & C & D).
      destruct (next r1) as [ok r2]. cbn [snd] in A, B, C, D. destruct ok; [apply IH; assumption|tauto]. }
    destruct (c =? 92).
    - destruct (step_ne r1 start H1 ltac:(lia) ltac:(lia) ltac:(rewrite Ep1; exact Hseg) ltac:(rewrite Ep1; exact Hc)) as (A & B & C & D).
      destruct (next r1) as [ok r2]. cbn [snd] in A, B, C, D. destruct ok; cbn [negb]; [|tauto].
      pose proof (RL_current r2 A) as H3. pose proof (cur_real r2 A) as Hc3. pose proof (cur_nz r2) as Hz3. pose proof (cur_pos r2) as Ep3.
      destruct A as (Hsrc2 & _). rewrite Hsrc2 in Hz3.
      destruct (current r2) as [c2 r3]. cbn [fst snd] in H3, Hc3, Hz3, Ep3.
      destruct (isASCIIControl c2 || (c2 =? 32)) eqn:Ectl2; [rewrite Ep3; tauto|].
      destruct (notctl c2 Ectl2) as [Ne2 Nz2]. specialize (Hc3 Ne2). specialize (Hz3 Nz2).
      destruct (step_ne r3 start H3 ltac:(lia) ltac:(lia) ltac:(rewrite Ep3; exact D) ltac:(rewrite Ep3; exact Hc3)) as (A4 & B4 & C4 & D4).
      destruct (next r3) as [ok2 r4]. cbn [snd] in A4, B4, C4, D4. destruct ok2; [apply IH; assumption|tauto].
    - destruct (c =? 40).
      { pose proof (Hgo (paren + 1)) as G. destruct (next r1) as [ok r2]. destruct ok; exact G. }
      destruct (c =? 41).
      { destruct (paren - 1 <? 0); [rewrite Ep1; tauto|]. pose proof (Hgo (paren - 1)) as G. destruct (next r1) as [ok r2]. destruct ok; exact G. }
      pose proof (Hgo paren) as G. destruct (next r1) as [ok r2]. destruct ok; exact G.
  Qed.

  (* ---- parseLinkDestination: the reported span is inside the source and holds no line ending ---- *)
  Lemma pld_ne fuel r : RL r -> spanValid (fst (fst (parseLinkDestination fuel r))) = true ->
    snd (fst (fst (parseLinkDestination fuel r))) <= len src /\
    (forall p, fst (fst (fst (parseLinkDestination fuel r))) <= p < snd (fst (fst (parseLinkDestination fuel r))) -> nE p).
  Proof.
    intros HR. unfold parseLinkDestination.
    pose proof (RL_current r HR) as H0. pose proof (cur_real r HR) as Hc. pose proof (cur_nz r) as Hz. pose proof (cur_pos r) as Ep.
    destruct HR as (Hsrc & _). rewrite Hsrc in Hz.
    destruct (current r) as [c r0]. cbn [fst snd] in H0, Hc, Hz, Ep.
    destruct (Z.eqb_spec c 60) as [E60|N60].
    - intros Hv. assert (Hn : nE (r_pos r0)) by (rewrite Ep; apply Hc; rewrite E60; reflexivity).
      destruct (ld_angle_ne fuel r0 (r_pos r0) H0 ltac:(lia) ltac:(intros p Hp; replace p with (r_pos r0) by lia; exact Hn) Hv) as (A & B & C).
      split; [exact B|]. intros p Hp. rewrite A in Hp. apply C, Hp.
    - destruct (negb (isASCIIControl c) && negb (c =? 32) && negb (c =? 41)) eqn:Eb; [|cbn [fst]; rewrite spanValid_null; discriminate].
      cbn [fst snd]. intros _.
      assert (Nz : c <> 0).
      { intros ->. cbn in Eb. discriminate. }
      specialize (Hz Nz).
      destruct (ld_bare_ne fuel r0 0 (r_pos r0) H0 ltac:(lia) ltac:(lia) ltac:(intros p Hp; lia)) as (A & B & C).
      split; [exact B|exact C].
  Qed.

  Lemma RL_newReader sp pos : gL src sp = true -> RL (newReader src sp pos).
  Proof. intros H. split; [reflexivity|exact H]. Qed.

  (* the scanners keep RL (ExRdr: whatever current and next keep) *)
  Lemma RL_skipLinkSpace fuel r : RL r -> RL (snd (skipLinkSpace fuel r)). Proof. apply (ExRdr.P_skipLinkSpace RL RL_current RL_next). Qed.
  Lemma RL_parseLinkLabel fuel r : RL r -> RL (snd (parseLinkLabel fuel r)). Proof. apply (ExRdr.P_parseLinkLabel RL RL_current RL_next). Qed.
  Lemma RL_parseLinkDestination fuel r : RL r -> RL (snd (parseLinkDestination fuel r)). Proof. apply (ExRdr.P_parseLinkDestination RL RL_current RL_next). Qed.
  Lemma RL_parseLinkTitle fuel r : RL r -> RL (snd (parseLinkTitle fuel r)). Proof. apply (ExRdr.P_parseLinkTitle RL RL_current RL_next). Qed.
  Lemma RL_readEOL fuel r : RL r -> RL (snd (readEOL fuel r)). Proof. apply (ExRdr.P_readEOL RL RL_current RL_next). Qed.
End Rdr.

Print Assumptions pld_ne.
