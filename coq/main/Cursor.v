From Coq Require Import List ZArith Lia Bool.
Import ListNotations.
Require Import Base Tree Rdr Link Collect Html Recog LP Rec16 Rec17 Rec18.
Open Scope Z_scope.

(* ---- column arithmetic of the line cursor ---- *)
Definition ts (c : Z) : Z := (c + 4) - (c + 4) mod 4.          (* next tab stop after column c *)
Lemma ts_gt c : c < ts c <= c + 4.
Proof. unfold ts. pose proof (Z.mod_pos_bound (c + 4) 4 ltac:(lia)). lia. Qed.
Lemma ts_same c m : c <= m < ts c -> ts m = ts c.
Proof.
  unfold ts. intros Hm. pose proof (Z.div_mod (c + 4) 4 ltac:(lia)) as Hd. pose proof (Z.mod_pos_bound (c + 4) 4 ltac:(lia)) as Hb.
  assert (Hq : (m + 4) / 4 = (c + 4) / 4).
  { symmetry. apply (Z.div_unique (m + 4) 4 ((c + 4) / 4) (m + 4 - 4 * ((c + 4) / 4))); lia. }
  pose proof (Z.div_mod (m + 4) 4 ltac:(lia)) as Hd2. rewrite Hq in Hd2. lia.
Qed.
Lemma columnWidth_nil c : columnWidth c [] = 0. Proof. unfold columnWidth. cbn. lia. Qed.
Lemma columnWidth_sp c w : columnWidth c (32 :: w) = 1 + columnWidth (c + 1) w.
Proof. unfold columnWidth. cbn [columnEnd]. change (32 =? 9) with false. change (32 <? 128) with true. cbn iota. lia. Qed.
Lemma columnWidth_tab c w : columnWidth c (9 :: w) = (ts c - c) + columnWidth (ts c) w.
Proof. unfold columnWidth. cbn [columnEnd]. change (9 =? 9) with true. cbn iota. fold (ts c). lia. Qed.
Lemma columnEnd_ge : forall w c, c <= columnEnd c w.
Proof.
  induction w as [|x w IH]; intros c; [cbn; lia|]. cbn [columnEnd].
  destruct (x =? 9); [pose proof (ts_gt c); fold (ts c); specialize (IH (ts c)); lia|].
  destruct (x <? 128); [specialize (IH (c + 1)); lia|apply IH].
Qed.
Lemma columnWidth_nonneg c w : 0 <= columnWidth c w.
Proof. unfold columnWidth. pose proof (columnEnd_ge w c). lia. Qed.

(* the leading white space of the rest of the line, and its width *)
Definition wsRun (p : lp) : bytes := upto (rest p) (indentLength (rest p)).
Definition wsWidth (p : lp) : Z := columnWidth (col p) (wsRun p).
(* the tab remainder agrees with the column *)
Definition Itab (p : lp) : Prop :=
  0 <= li p /\ (li p < len (line p) -> at_ (line p) (li p) = 9 -> tabRem p = ts (col p) - col p).

Lemma computeTabRem_spec ln i cl : 0 <= i -> i < len ln -> at_ ln i = 9 -> computeTabRem ln i cl = ts cl - cl.
Proof.
  intros Hi Hl Ha. unfold computeTabRem. replace (i <? len ln) with true by (symmetry; apply Z.ltb_lt; lia).
  rewrite Ha. cbn [Z.eqb Pos.eqb andb]. rewrite columnWidth_tab, columnWidth_nil. lia.
Qed.
Lemma Itab_cursor p i cl : 0 <= i -> Itab (withCursor p i cl (computeTabRem (line p) i cl)).
Proof. intros Hi. split; [exact Hi|]. cbn. intros Hl Ha. apply computeTabRem_spec; assumption. Qed.

Lemma rest_cons p : 0 <= li p -> li p < len (line p) -> rest p = at_ (line p) (li p) :: from_ (line p) (li p + 1).
Proof. intros H0 Hl. unfold rest. apply from_cons; assumption. Qed.
Lemma rest_nil p : len (line p) <= li p -> rest p = [].
Proof. intros H. unfold rest. apply from_nil. exact H. Qed.
Lemma upto_cons {A} (x : A) l n : 0 <= n -> upto (x :: l) (1 + n) = x :: upto l n.
Proof. intros Hn. unfold upto. replace (Z.to_nat (1 + n)) with (S (Z.to_nat n)) by lia. reflexivity. Qed.
Lemma indentLength_nonneg l : 0 <= indentLength l.
Proof. induction l as [|c r IH]; [cbn; lia|]. cbn [indentLength]. destruct (isSpTab c); lia. Qed.

Lemma wsRun_step p : 0 <= li p -> li p < len (line p) -> isSpTab (at_ (line p) (li p)) = true ->
  wsRun p = at_ (line p) (li p) :: upto (from_ (line p) (li p + 1)) (indentLength (from_ (line p) (li p + 1))).
Proof.
  intros H0 Hl Hs. unfold wsRun. rewrite (rest_cons p H0 Hl). cbn [indentLength]. rewrite Hs.
  apply upto_cons. apply indentLength_nonneg.
Qed.
Lemma wsRun_stop p : 0 <= li p -> (len (line p) <= li p \/ isSpTab (at_ (line p) (li p)) = false) -> wsRun p = [].
Proof.
  intros H0 [Hl|Hs]; unfold wsRun; [rewrite rest_nil by exact Hl; reflexivity|].
  destruct (Z.lt_ge_cases (li p) (len (line p))) as [L|L]; [|rewrite rest_nil by exact L; reflexivity].
  rewrite (rest_cons p H0 L). cbn [indentLength]. rewrite Hs. reflexivity.
Qed.

(* consuming at most the width of the leading white space never reaches panic site 3, and keeps Itab *)
Lemma consumeIndent_loop_ok : forall fuel p n, Itab p -> n <= wsWidth p ->
  panicked (consumeIndent_loop fuel p n) = panicked p /\ Itab (consumeIndent_loop fuel p n).
Proof.
  induction fuel as [|f IH]; intros p n Hi Hn; [split; [reflexivity|exact Hi]|]. cbn [consumeIndent_loop].
  destruct (Z.leb_spec n 0) as [L0|L0]; [split; [reflexivity|exact Hi]|]. cbv zeta.
  set (p0 := if state p =? stOpening then withState p stOpenMatched else p).
  assert (E0 : li p0 = li p /\ col p0 = col p /\ tabRem p0 = tabRem p /\ line p0 = line p /\ panicked p0 = panicked p)
    by (unfold p0; destruct (_ =? _); repeat split).
  destruct E0 as (El & Ec & Et & Eln & Ep). rewrite El, Ec, Et, Eln.
  destruct Hi as [Hi0 Hit].
  destruct (Z.ltb_spec (li p) (len (line p))) as [Ll|Ll]; cbn [andb].
  - destruct (Z.eqb_spec (at_ (line p) (li p)) 32) as [E32|N32].
    + (* a space *)
      assert (Hw : wsWidth p = 1 + columnWidth (col p + 1) (upto (from_ (line p) (li p + 1)) (indentLength (from_ (line p) (li p + 1))))).
      { unfold wsWidth. rewrite (wsRun_step p Hi0 Ll) by (rewrite E32; reflexivity). rewrite E32. apply columnWidth_sp. }
      set (p1 := withCursor p0 (li p + 1) (col p + 1) (computeTabRem (line p) (li p + 1) (col p + 1))).
      assert (I1 : Itab p1) by (unfold p1; rewrite <- Eln; apply Itab_cursor; lia).
      assert (W1 : n - 1 <= wsWidth p1).
      { unfold wsWidth, wsRun, rest, p1. cbn [col li line withCursor setLP]. rewrite Eln. lia. }
      destruct (IH p1 (n - 1) I1 W1) as [A B]. split; [rewrite A; unfold p1; cbn; exact Ep|exact B].
    + destruct (Z.eqb_spec (at_ (line p) (li p)) 9) as [E9|N9].
      * (* a tab *)
        pose proof (Hit Ll E9) as Etr.
        assert (Hw : wsWidth p = (ts (col p) - col p) + columnWidth (ts (col p)) (upto (from_ (line p) (li p + 1)) (indentLength (from_ (line p) (li p + 1))))).
        { unfold wsWidth. rewrite (wsRun_step p Hi0 Ll) by (rewrite E9; reflexivity). rewrite E9. apply columnWidth_tab. }
        destruct (Z.ltb_spec n (tabRem p)) as [Lp|Lp].
        -- (* part of the tab *)
           split; [cbn; exact Ep|]. unfold Itab. cbn [li col tabRem line withCursor setLP]. split; [exact Hi0|].
           intros _ _. rewrite Etr in *. rewrite (ts_same (col p) (col p + n)) by lia. lia.
        -- set (p1 := withCursor p0 (li p + 1) (col p + tabRem p) (computeTabRem (line p) (li p + 1) (col p + tabRem p))).
           assert (I1 : Itab p1) by (unfold p1; rewrite <- Eln; apply Itab_cursor; lia).
           assert (W1 : n - tabRem p <= wsWidth p1).
           { unfold wsWidth, wsRun, rest, p1. cbn [col li line withCursor setLP]. rewrite Eln, Etr.
             replace (col p + (ts (col p) - col p)) with (ts (col p)) by lia. lia. }
           destruct (IH p1 (n - tabRem p) I1 W1) as [A B]. split; [rewrite A; unfold p1; cbn; exact Ep|exact B].
      * (* not white space: the run is empty, so n <= 0 *)
        exfalso. unfold wsWidth in Hn. rewrite (wsRun_stop p Hi0) in Hn.
        { rewrite columnWidth_nil in Hn. lia. }
        right. unfold isSpTab. apply orb_false_iff. split; apply Z.eqb_neq; assumption.
  - exfalso. unfold wsWidth in Hn. rewrite (wsRun_stop p Hi0 (or_introl Ll)) in Hn. rewrite columnWidth_nil in Hn. lia.
Qed.

Lemma indent_eq p : Itab p -> indent p = wsWidth p.
Proof.
  intros [H0 Ht]. unfold indent.
  destruct (Z.leb_spec (len (line p)) (li p)) as [L|L].
  { unfold wsWidth. rewrite (wsRun_stop p H0 (or_introl L)). rewrite columnWidth_nil. reflexivity. }
  cbv zeta. destruct (Z.eqb_spec (at_ (line p) (li p)) 32) as [E|N].
  { unfold wsWidth. rewrite (wsRun_step p H0 L) by (rewrite E; reflexivity). rewrite E, columnWidth_sp. reflexivity. }
  destruct (Z.eqb_spec (at_ (line p) (li p)) 9) as [E9|N9].
  { unfold wsWidth. rewrite (wsRun_step p H0 L) by (rewrite E9; reflexivity). rewrite E9, columnWidth_tab.
    rewrite (Ht L E9). replace (col p + (ts (col p) - col p)) with (ts (col p)) by lia. reflexivity. }
  unfold wsWidth. rewrite (wsRun_stop p H0); [rewrite columnWidth_nil; reflexivity|].
  right. unfold isSpTab. apply orb_false_iff. split; apply Z.eqb_neq; assumption.
Qed.

Lemma consumeIndent_ok p n : Itab p -> n <= indent p -> panicked (consumeIndent p n) = panicked p /\ Itab (consumeIndent p n).
Proof. intros Hi Hn. apply consumeIndent_loop_ok; [exact Hi|]. rewrite <- indent_eq by exact Hi. exact Hn. Qed.
Lemma indent_nonneg p : Itab p -> 0 <= indent p.
Proof. intros Hi. rewrite indent_eq by exact Hi. apply columnWidth_nonneg. Qed.
Lemma tabRem_le_indent p : Itab p -> li p < len (line p) -> at_ (line p) (li p) = 9 -> tabRem p <= indent p.
Proof.
  intros Hi L E9. pose proof Hi as [H0 Ht]. rewrite indent_eq by exact Hi. unfold wsWidth.
  rewrite (wsRun_step p H0 L) by (rewrite E9; reflexivity). rewrite E9, columnWidth_tab, (Ht L E9).
  pose proof (columnWidth_nonneg (ts (col p)) (upto (from_ (line p) (li p + 1)) (indentLength (from_ (line p) (li p + 1))))). lia.
Qed.

(* Itab is kept by the other cursor operations *)
Lemma Itab_opened p : Itab p -> Itab (if state p =? stOpening then withState p stOpenMatched else p).
Proof. intros H. destruct (_ =? _); exact H. Qed.
Lemma Itab_advance p n : Itab p -> Itab (advance p n).
Proof.
  intros Hi. unfold advance. destruct (Z.ltb_spec n 0); [exact Hi|]. destruct (n =? 0); [exact Hi|]. cbv zeta.
  set (p0 := if state p =? stOpening then withState p stOpenMatched else p).
  assert (I0 : Itab p0) by (apply Itab_opened, Hi).
  destruct (_ <? _); [exact I0|]. apply Itab_cursor. destruct I0 as [A _]. lia.
Qed.
Lemma Itab_consumeLine p : Itab p -> Itab (consumeLine p).
Proof.
  intros Hi. unfold consumeLine. cbv zeta. pose proof (Itab_advance p (len (line p) - li p) Hi) as H1.
  destruct (_ || _); [exact H1|]. destruct (_ =? stDescending); exact H1.
Qed.
Print Assumptions consumeIndent_ok.
