From Coq Require Import List ZArith Lia Bool.
Import ListNotations.
Require Import Base Tree LP Rules Starts Driver L2CC L2Bnd L2BndS BSDef BSTree BSLine10 BlockSpans LADef LAPad.
Require Import EolCRLFSimLeDefs EolCRLFSimStream EolCRLFSimCtDef EolGenCtDef EolGenCtStream.
Open Scope Z_scope.

(* Interface for the two-run simulation, for EVERY input (no hypothesis on '['): the stream invariant SJx of EolGenCtStream and the
   line-entry conditions with the argument order  st children ls s ns.  Compared with EolCRLFSimCt.v: the hypotheses ~ In 91 are gone;
   X_nil needs PadF (buf s) instead (the invariant la of T21 is threaded inside SJx / LEy and lives on padded buffers). *)
Definition LEy (st : Z) (ch : list block) (ls : Z) (s : bpst) (ns : bool) : Prop := LEx st ls s ns ch.

Lemma LEy_basic : forall st ch ls s ns, LEy st ch ls s ns -> 0 <= ls <= len (buf s) /\ bi s = lineEnd (buf s) ls.
Proof. intros st ch ls s ns (A & B & _). split; assumption. Qed.

Lemma X_step : forall st ch ls s ns, LEy st ch ls s ns ->
  exists ns', SJx s (fst (fst (processLine st ch ls (upto (buf s) (bi s))))) ns' /\
    (makeRoot (fst (fst (processLine st ch ls (upto (buf s) (bi s))))) s = None ->
     LEy (snd (fst (processLine st ch ls (upto (buf s) (bi s))))) (fst (fst (processLine st ch ls (upto (buf s) (bi s))))) (bi s)
         {| buf := buf s; bi := lineEnd (buf s) (bi s); boff := boff s; bline := bline s; pending := pending s |} ns').
Proof.
  intros st ch ls s ns HL. pose proof (SJx_step st ch ls s ns HL) as H.
  destruct (processLine st ch ls (upto (buf s) (bi s))) as [[ch' st'] pn]. cbn [fst snd]. exact H.
Qed.

Lemma X_make : forall s ch ns r s1, SJx s ch ns -> makeRoot ch s = Some (r, s1) ->
  (forall b rest, ch = b :: rest -> isOpen b = false -> leB (bend b) b = true /\ geL (bend b) rest = true) /\ SJx s1 (pending s1) ns.
Proof.
  intros s ch ns r s1 HS Hm. pose proof (SJx_KX _ _ _ HS) as HK.
  destruct (SJx_makeRoot_full _ _ _ _ _ HS Hm) as (_ & _ & H3). split; [|exact H3].
  intros b rest -> Eo. split; [eapply KX_U; eassumption|eapply KX_L; eassumption].
Qed.

Lemma X_nil : forall s, PadF (buf s) -> bi s = lineEnd (buf s) 0 -> LEy 0 [] 0 s true.
Proof. intros s Hpf Hb. apply LEx_nil; assumption. Qed.

Lemma X_next : forall s ns, SJx s (pending s) ns -> 0 <= bi s <= len (buf s) -> pending s <> [] ->
  makeRoot (pending s) s = None ->
  LEy 0 (pending s) (bi s) {| buf := buf s; bi := lineEnd (buf s) (bi s); boff := boff s; bline := bline s; pending := pending s |} ns.
Proof. intros s ns HS _ _ _. exact (LEx_next s ns HS). Qed.

Lemma X_init : forall input, SJx {| buf := pad input; bi := 0; boff := 0; bline := 1; pending := [] |} [] true.
Proof. exact SJx_init. Qed.

(* what SJx gives at any time: the padded buffer, and the containment of every pending / current root child *)
Lemma SJx_PadF s ch ns : SJx s ch ns -> PadF (buf s).
Proof. intros (_ & _ & _ & H & _). exact H. Qed.
Lemma SJx_le s ch ns : SJx s ch ns -> leL (bi s) ch = true.
Proof.
  intros H. destruct (SJx_KX _ _ _ H) as [_ Hc]. unfold leL. apply forallb_forall. intros x Hx. apply ct_leB. eapply allP_In; eassumption.
Qed.

Print Assumptions LEy_basic. Print Assumptions X_step. Print Assumptions X_make. Print Assumptions X_nil. Print Assumptions X_next. Print Assumptions X_init.
Print Assumptions SJx_le.
