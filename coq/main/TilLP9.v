From Coq Require Import List ZArith Lia Bool.
Import ListNotations.
Require Import Base Tree Rdr Link Collect Html Recog LP Rules Starts Driver Render L2Kind L2CC GramDefs GramTree GramLP GramLP2 GramLP3 GramLP4
  Rec17 Rec18 BSOrph BSClose BSLine1 BSLine2 BSLine3 BSLine4 BSLine5 BSLine7 TilBase TilDefs TilLP1 TilLP2 TilLP3 TilLP4 TilLP5 TilLP6 TilLP7 TilLP8.
Require L2Kind2.
Open Scope Z_scope.

(* ================= openNewBlocks: the end of the input and the other lines ================= *)

Section WithOcp.
  Hypothesis HOP : OcpPara.
  Hypothesis HOS : OcpSetext.

  Lemma FF_eof p : TI p -> len (line p) = 0 ->
    FF (withCont (withRoot p (match closeBlock (bheight (root p)) (source p) (root p) (lineStart p) with b :: _ => b | [] => root p end)) None).
  Proof.
    intros (A & B & C) Hl.
    assert (Els : lineStart p = len (source p)) by (pose proof (EV_len p B); lia).
    assert (Hli : li p = 0) by (destruct B as (_ & _ & B3 & _); lia).
    assert (Hcur : cur p = len (source p)) by (unfold cur; lia).
    destruct (bheight_S (root p)) as (n & En). rewrite En.
    assert (Ho : isOpen (root p) = true) by (destruct A as (_ & _ & C0); eapply so_open; exact C0).
    assert (Kr : bkind (root p) = documentKind) by (apply A).
    cbn [closeBlock]. rewrite Ho. cbn [negb]. cbv zeta. rewrite bkind_set_bend, Kr.
    change (documentKind =? ListKind) with false. change (documentKind =? IndentedCodeBlockKind) with false.
    change ((documentKind =? ParagraphKind) || (documentKind =? SetextHeadingKind)) with false. cbv iota.
    assert (Elb : lastBlock (set_bend (root p) (lineStart p)) = lastBlock (root p)) by (destruct (root p); reflexivity).
    rewrite Elb.
    pose proof (TT_T0 p C) as C0. destruct C as (CA & CB1 & CB2 & CD & CE & CF).
    destruct (lastBlock (root p)) as [c|] eqn:El.
    - assert (Ht : top p = Some c) by (unfold top; rewrite <- lastBlock_lastL; exact El).
      set (L := closeBlock n (source p) c (lineStart p)).
      set (p' := withCont (withRoot p (set_lastBlocks (set_bend (root p) (lineStart p)) L)) None).
      assert (Ek : bkids (root p') = removelast (bkids (root p)) ++ L).
      { unfold p'. cbn [root withCont withRoot setLP]. unfold set_lastBlocks. rewrite bkids_set_bkids. destruct (root p); reflexivity. }
      destruct (isOpen c) eqn:Hoc.
      + (* the last root child is closed now *)
        assert (Hn : exists n', n = S n').
        { pose proof (bheight_kid' (root p) c (lastBlock_In _ _ El)) as Hk. destruct (bheight_S c) as (k & Ekc). rewrite En, Ekc in Hk.
          destruct n as [|n']; [lia|exists n'; reflexivity]. }
        destruct Hn as (n' & ->).
        pose proof (CL_top_ls_fuel HOP p c n' B C0 Ht Hoc) as (K1 & K2 & K3 & K4). fold L in K1, K2, K3, K4.
        assert (Etop : top p' = lastL L) by (unfold top; rewrite Ek; apply lastL_app, K4).
        unfold FF, TA, TC, TS. rewrite Etop, Ek. change (source p') with (source p). repeat split.
        * intros x Hx Hb. apply in_app_or in Hx. destruct Hx as [Hx|Hx]; [apply CA; [apply removelast_In, Hx|exact Hb]|apply K1, Hx].
        * intros x Hx. rewrite removelast_app_nonnil in Hx by exact K4. apply in_app_or in Hx.
          destruct Hx as [Hx|Hx]; [apply CF, Hx|apply K2, removelast_In, Hx].
        * intros x Hx Hox. rewrite (K2 x (lastL_In _ _ Hx)) in Hox. discriminate.
        * intros x Hx _. rewrite <- Els. apply K3, Hx.
        * intros x Hx Hox. rewrite (K2 x (lastL_In _ _ Hx)) in Hox. discriminate.
      + (* it was closed already *)
        assert (EL : L = [c]) by (apply closeBlock_closed; unfold isOpen in Hoc; apply Z.ltb_ge in Hoc; exact Hoc).
        assert (Ek' : bkids (root p') = bkids (root p)) by (rewrite Ek, EL; symmetry; apply lastBlock_kids, El).
        assert (Ed : cdepth p = O).
        { destruct (cdepth p) as [|d] eqn:Ed; [reflexivity|exfalso].
          destruct (GI_top1 p A ltac:(lia)) as (c' & Hc' & Ho'). rewrite Ht in Hc'. inversion Hc'; subst c'. congruence. }
        unfold FF, TA, TC, TS, top. rewrite Ek'. change (source p') with (source p). fold (top p). repeat split.
        * exact CA.
        * exact CF.
        * exact CE.
        * intros x Hx Hox. rewrite <- Hcur. apply (CB2 Ed x Hx Hox).
        * intros x Hx Hox. rewrite Ht in Hx. inversion Hx; subst x. congruence.
    - (* no root child *)
      assert (Ek : bkids (set_bend (root p) (lineStart p)) = []).
      { unfold lastBlock in El. destruct (root p) as [K s e bk ik a nn ch l lb]. cbn [set_bend bkids] in *.
        destruct (rev bk) as [|x t] eqn:Er; [|discriminate]. rewrite <- (rev_involutive bk), Er. reflexivity. }
      unfold FF, TA, TC, TS, top. cbn [root withCont withRoot setLP]. rewrite Ek. repeat split; intros x Hx; first [discriminate Hx|destruct Hx].
  Qed.

  Lemma TJ_openNewBlocks p am : TJ p -> len (line p) <> 0 ->
    TJ (snd (openNewBlocks p am)) /\
    (fst (openNewBlocks p am) = false -> li (snd (openNewBlocks p am)) = len (line (snd (openNewBlocks p am)))).
  Proof.
    intros H Hl. unfold openNewBlocks. apply Z.eqb_neq in Hl. rewrite Hl.
    destruct (TJ_opening_loop HOP HOS (S (length (line p))) p H) as [H1 L1].
    destruct (opening_loop (S (length (line p))) p) as [ht p1]. cbn [fst snd] in *.
    destruct am; cbn [fst snd]; [split; assumption|].
    destruct (TJ_deferredClose HOP p1 H1) as (H2 & E1 & E2). split; [exact H2|]. intros E. rewrite E1, E2. apply L1, E.
  Qed.
End WithOcp.
