From Coq Require Import List ZArith Lia Bool String Ascii.
Import ListNotations.
Require Import Base Tree Rdr Link Collect Html Recog LP Rules Starts Driver Render Inl3e GramDefs.
Open Scope Z_scope.

Fixpoint s2b (s : string) : bytes :=
  match s with EmptyString => [] | String a r => (let z := Z.of_N (N_of_ascii a) in if z =? 124 then 10 else z) :: s2b r end.

Definition chk (s : string) : bool * bool * Z * Z :=
  let r := parseBlocks (s2b s) in
  (forallb (fun x => gramBlocks (rb_blk x)) (fst r), forallb (fun x => gb (rb_blk x)) (fst r), snd r, len (fst r)).
Definition chkF (s : string) : bool :=
  forallb (fun x => gramBlocks (rb_blk x)) (fst (parseFull (s2b s))).

(* intermediate children lists of the line loop *)
Fixpoint lineStates (fuel : nat) (st : Z) (children : list block) (lineStart0 : Z) (s : bpst) (acc : bool) : bool :=
  match fuel with
  | O => acc
  | S f =>
    let '(children', st', pn) := processLine st children lineStart0 (upto (buf s) (bi s)) in
    let acc := acc && gbL children' in
    if negb (pn =? 0) then false else
    if bi s =? len (buf s) then (if lineStart0 =? bi s then acc else
       lineStates f st' children' (bi s) {| buf := buf s; bi := lineEnd (buf s) (bi s); boff := boff s; bline := bline s; pending := pending s |} acc)
    else
      lineStates f st' children' (bi s) {| buf := buf s; bi := lineEnd (buf s) (bi s); boff := boff s; bline := bline s; pending := pending s |} acc
  end.
Definition chkL (s : string) : bool :=
  let b := s2b s in
  lineStates (S (S (List.length b))) 0 [] 0 {| buf := b; bi := lineEnd b 0; boff := 0; bline := 1; pending := [] |} true.

Open Scope string_scope.
Definition tests : list string := [
  "- a|- b|";
  "- a||- b|";
  "- a|***|- b|";
  "1. a|2. b|";
  "1. a|1) b|- c|+ d|";
  "- a|  - b|  - c||  - d|- e|";
  "- a|  1. x|  2. y||     z|- e|";
  "[foo]: /url|[bar]: /u2 'title'|[baz]: <u3> (t|t)|para|";
  "[foo]: /url 'title|broken|";
  "Title|=====|Sub|---|# h1|###### h6|####### h7|";
  "[foo]: /u|===|";
  "para|[foo]: /u|===|";
  "> - a|> - b|>|> - c|";
  "- |  a|-|- b|";
  "* * *|- - -|_ _ _|";
  "-   a||    code|| b|";
  "1. a|   - b|     - c|        1. d|";
  "- a|> q|- b|";
  "```|code|```|- x|  ```|  y|";
  "- [foo]: /u|  [bar]: /v|  ===|- x|";
  "- a|- b||- c||||- d|";
  "10) a|11) b|";
  "<div>|x|</div>||- <p>|x|";
  "- a|  b|  ===|";
  "- # h|- h|  -|";
  "   -    a|        b|";
  "- a||  b||- c|";
  "-|+|*|1.|2)|";
  "- - - a|    - b|";
  "> 1. a|> 2. b|>|> 3. c||"
].
Close Scope string_scope.
Time Eval vm_compute in map chk tests.
Time Eval vm_compute in map chkF tests.
Time Eval vm_compute in map chkL tests.
