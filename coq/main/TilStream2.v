From Coq Require Import List ZArith Lia Bool.
Import ListNotations.
Require Import Base Tables Utf8 Tree Rdr Link Collect Html Recog LP Rules Starts Driver Render L2Kind L2CC L2Bnd L2BndS GramDefs GramTree GramLP4 GramBlocks
  Rec17 Rec18 Cursor C01a C01b Props BSDef BSRdr BSTree BSShift BSLine10 BlockSpans StreamFuel
  TilBase TilDefs TilLP2 TilLP6 TilLP12 TilShift TilStream.
Open Scope Z_scope.

(* ================= lineLoop, skipLoop, NextBlock, the whole run (relative to the paragraph-closing facts) ================= *)

Section Run.
  Hypothesis HOP : OcpPara.
  Hypothesis HOS : OcpSetext.
  Variable input : bytes.
  Notation BK := (BK input).
  Notation okT := (okT input).

  Lemma bndL_end H ns ch c : bndL H ns ch = true -> In c ch -> bend c <= H \/ bend c < 0.
  Proof. intros Hb Hc. unfold bndL in Hb. rewrite forallb_forall in Hb. destruct (bnd_end _ _ _ (Hb c Hc)); [right|left]; assumption. Qed.

  Lemma lineLoop_ok : forall fuel st ch ls s ns pre rest, BK s pre rest ->
    0 <= ls <= len (buf s) -> bi s = lineEnd (buf s) ls -> LBd (buf s) ls ->
    bndL ls ns ch = true -> (ns = false -> ls = len (buf s)) -> ccF ch = true -> kidsOK ls ch -> gbL ch = true ->
    KS (buf s) ls ch -> (forall c, lastL ch = Some c -> isOpen c = true) ->
    okT pre rest (lineLoop fuel st ch ls s).
  Proof.
    induction fuel as [|f IH]; intros st ch ls s ns pre rest HB Hls Hbi HLs Hc Hn Hcc Hk Hg HK Hlo; [exact I|]. cbn [lineLoop].
    destruct (lineEnd_spec (buf s) ls Hls) as [A B]. rewrite <- Hbi in A, B.
    set (ln := from_ (upto (buf s) (bi s)) ls).
    destruct (line_of (buf s) ls (bi s) ltac:(lia) ltac:(lia)) as [Ll _]. fold ln in Ll.
    set (ns' := if ns then hasByteSuffixEOL ln else false).
    assert (Hc' : bndL (bi s) ns' ch = true).
    { unfold ns'. destruct ns.
      - pose proof (bndL_mono ls (bi s) ch ltac:(lia) Hc) as Hm. destruct (hasByteSuffixEOL ln); [exact Hm|apply bndL_weaken, Hm].
      - rewrite (Hn eq_refl) in *. replace (bi s) with (len (buf s)) by lia. exact Hc. }
    assert (Hn' : ns' = false -> bi s = len (buf s)).
    { unfold ns'. destruct ns; [|intros _; rewrite (Hn eq_refl) in *; lia].
      intros Ee. destruct (Z.lt_ge_cases (bi s) (len (buf s))) as [Lt|Ge]; [|lia].
      exfalso. rewrite Hbi in Lt. pose proof (line_hasEOL (buf s) ls Hls Lt) as Hh. rewrite <- Hbi in Hh. fold ln in Hh. congruence. }
    pose proof (bnd_processLine (bi s) ns' st ch ls (upto (buf s) (bi s)) ltac:(lia) ltac:(lia) ltac:(fold ln; lia)
                  ltac:(rewrite len_upto by lia; lia) ltac:(unfold ns'; fold ln; destruct ns; [tauto|discriminate]) Hc') as H1.
    pose proof (sp_processLine (bi s) ns' st ch ls (upto (buf s) (bi s)) ltac:(lia) ltac:(lia) ltac:(fold ln; lia)
                  ltac:(rewrite len_upto by lia; lia) ltac:(unfold ns'; fold ln; destruct ns; [tauto|discriminate]) Hc' Hcc Hk) as H2.
    pose proof (cc_processLine st ch ls (upto (buf s) (bi s)) Hcc) as H3.
    pose proof (gb_processLine st ch ls (upto (buf s) (bi s)) Hcc Hg) as H4.
    (* the tiling invariant through the line *)
    assert (HLb : LBd (buf s) (bi s)) by (rewrite Hbi; apply lineEnd_LBd, Hls).
    assert (H5 : KS (buf s) (bi s) (fst (fst (processLine st ch ls (upto (buf s) (bi s)))))).
    { apply KS_of_KOut; [lia|exact HLb| |].
      - apply (processLine_K HOP HOS); [exact Hcc|exact Hg|rewrite len_upto by lia; lia| |].
        + apply good_upto_of; [lia|apply LBd_good, HLs].
        + apply KIn_of_KS; [lia|lia|exact HK|exact Hlo|]. intros c Hcin. destruct (bndL_end _ _ _ c Hc Hcin); lia.
      - intros c Hcin. destruct (bndL_end _ _ _ c H1 Hcin); lia. }
    destruct (processLine st ch ls (upto (buf s) (bi s))) as [[ch' st'] pn]. cbn [fst] in H1, H2, H3, H4, H5.
    destruct (Z.eqb_spec pn 0) as [Epn|Npn]; cbn [negb]; [|exact Npn].
    assert (HS : SJ s ch' ns').
    { split; [split; [lia|split; [exact H1|exact Hn']]|split; [exact H3|exact H2]]. }
    destruct (makeRoot ch' s) as [[r s']|] eqn:Em.
    - apply (makeRoot_ok input s ch' ns' pre rest r s' HB HS H4 HLb H5 Em).
    - apply (IH st' ch' (bi s) _ ns' pre rest); cbn [buf bi]; try assumption; try lia; try reflexivity.
      intros c Hcl. destruct (makeRoot_None _ _ Em) as [E|(c0 & t & E & Ho)]; [subst ch'; discriminate Hcl|]. subst ch'.
      destruct t as [|x t'].
      + cbn in Hcl. inversion Hcl; subst c. exact Ho.
      + exfalso. destruct H5 as (_ & KB & _). rewrite (KB c0) in Ho; [discriminate|].
        change (removelast (c0 :: x :: t')) with (c0 :: removelast (x :: t')). left. reflexivity.
  Qed.

  Lemma KS_nil b m : KS b m [].
  Proof. repeat split; intros c Hc; first [discriminate Hc|destruct Hc]. Qed.

  Lemma okT_shift pre g0 rest0 rest x : rest = g0 ++ rest0 -> forallb blk g0 = true ->
    okT (pre ++ g0) rest0 x -> okT pre rest x.
  Proof.
    intros Er Hg H. destruct x as [r s'|s'| |site]; cbn [TilStream.okT] in *; try exact I; try exact H.
    - destruct H as (g & r1 & r2 & E & Hb & S1 & S2 & S3 & S4 & S5 & S6). exists (g0 ++ g), r1, r2.
      rewrite len_app in S1. split; [rewrite Er, E, app_assoc; reflexivity|]. split; [rewrite forallb_app, Hg, Hb; reflexivity|].
      split; [rewrite len_app; lia|]. split; [exact S2|]. split; [exact S3|]. split; [rewrite app_assoc; exact S4|].
      split; [|exact S6]. replace (pre ++ (g0 ++ g) ++ r1) with ((pre ++ g0) ++ g ++ r1); [exact S5|].
      rewrite <- !app_assoc. reflexivity.
    - rewrite Er, forallb_app, Hg, H. reflexivity.
  Qed.
End Run.
