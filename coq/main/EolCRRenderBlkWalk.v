From Coq Require Import List ZArith Lia Bool.
Import ListNotations.
Require Import Base Tables Utf8 Tree Rdr Link Collect Html Recog LP Rules Starts Driver.
Require Import Leaf3e RdrBound BSRdr BSOrph ShEnv ShLine1 ExRdr ExOcp ExInv2 EolCRRenderBlkRdr EolCRRenderBlkOcp.
Require L2Kind2 L2Bnd BSLine1.
Open Scope Z_scope.

(* ================================================================================================
   T61 (block half), part 3: inv4 through the line machine (ExInv2 / DefSpansWalk with inv4 / invN in the place of inv2 / invX).
   ================================================================================================ *)
Notation ckind := L2Kind2.ckind.
Notation st_open := L2Kind2.st_open.
Notation same_tree := L2Kind2.same_tree.

Section Walk.
  Variables src Bf : bytes.
  Hypothesis Hsub : forall s e, 0 <= s -> e <= len src -> e <= len Bf /\ sub Bf s e = sub src s e.
  Notation inv4 := (inv4 src Bf).
  Notation inv4L := (inv4L src Bf).
  Notation C0 := (ExInv2.C0 src).

  Ltac sc0 :=
    repeat match goal with
    | |- C0 (advance _ _) => apply C0_advance
    | |- C0 (consumeLine _) => apply C0_consumeLine
    | |- C0 (consumeIndent _ _) => apply C0_consumeIndent
    | |- C0 (updCont _ _) => apply C0_updCont
    | |- C0 (withCont _ _) => apply C0_withCont
    | |- C0 (withState _ _) => apply C0_withState
    | |- C0 (withRoot _ _) => apply C0_withRoot
    | |- C0 (closeLastChildAt _ _ _) => apply C0_closeLastChildAt
    | |- C0 (openBlock_up _ _ _) => apply C0_openBlock_up
    | |- C0 (openBlock _ _) => apply C0_openBlock
    | |- C0 (endBlock _) => apply C0_endBlock
    | |- C0 (collectInline _ _ _) => apply C0_collectInline
    | |- C0 (if state ?p =? stOpening then withState ?p stOpenMatched else ?p) => apply C0_opened
    end;
    try assumption.

  (* ---- the invariant on the parser state ---- *)
  Definition invP4 (p : lp) : Prop := inv4 (root p) = true.
  Lemma invP4_same p p' : same_tree p p' -> invP4 p -> invP4 p'.
  Proof. intros [E1 _]. unfold invP4. rewrite E1. tauto. Qed.
  Lemma invP4_advance p n : invP4 p -> invP4 (advance p n). Proof. apply invP4_same, L2Kind2.same_advance. Qed.
  Lemma invP4_consumeLine p : invP4 p -> invP4 (consumeLine p). Proof. apply invP4_same, L2Kind2.same_consumeLine. Qed.
  Lemma invP4_consumeIndent p n : invP4 p -> invP4 (consumeIndent p n). Proof. apply invP4_same, L2Kind2.same_consumeIndent. Qed.
  Lemma invP4_opened p : invP4 p -> invP4 (if state p =? stOpening then withState p stOpenMatched else p).
  Proof. apply invP4_same, L2Kind2.same_opened. Qed.
  Lemma invP4_withCont p c : invP4 p -> invP4 (withCont p c). Proof. exact (fun H => H). Qed.
  Lemma invP4_withState p s : invP4 p -> invP4 (withState p s). Proof. exact (fun H => H). Qed.
  Lemma invP4_updCont p f : invP4 p -> (forall b, inv4 b = true -> inv4 (f b) = true) -> invP4 (updCont p f).
  Proof. intros H Hf. unfold invP4, updCont. cbn. apply inv4_updAt; assumption. Qed.
  Lemma invP4_updCont_at p f : invP4 p ->
    (forall b, getAt (cdepth p) (root p) = Some b -> inv4 b = true -> inv4 (f b) = true) -> invP4 (updCont p f).
  Proof. intros H Hf. unfold invP4, updCont. cbn. apply inv4_updAt_at; assumption. Qed.

  Lemma invP4_closeLastChildAt p d e : source p = src -> 0 <= e -> invP4 p -> invP4 (closeLastChildAt p d e).
  Proof.
    intros Hs He H. unfold invP4, closeLastChildAt. cbn. apply inv4_updAt; [|assumption].
    intros b Hb. destruct (lastBlock b) as [c|] eqn:El; [|assumption].
    apply inv4_set_lastBlocks; [assumption|]. rewrite Hs. apply (N_closeBlock src Bf Hsub); [exact He|]. eapply inv4_lastBlock; eassumption.
  Qed.
  Lemma invP4_openBlock_up : forall fuel p kind, C0 p -> invP4 p -> invP4 (openBlock_up fuel p kind).
  Proof.
    induction fuel as [|f IH]; intros p kind Hc H; [assumption|]. cbn [openBlock_up].
    destruct (canContain _ _); [assumption|]. destruct (cdepth p); [assumption|].
    destruct (C0_pos src p Hc) as (A & B & S).
    apply IH; [sc0|]. apply invP4_withCont, invP4_closeLastChildAt; assumption.
  Qed.
  Lemma invP4_openBlock p kind : kind <> LinkReferenceDefinitionKind -> C0 p -> invP4 p -> invP4 (openBlock p kind).
  Proof.
    intros Hk Hc H. unfold openBlock. destruct (_ || _); [assumption|]. cbv zeta.
    apply invP4_withCont. apply invP4_updCont.
    - set (q := openBlock_up _ _ kind). assert (Hq : C0 q) by (unfold q; sc0).
      destruct (C0_pos src q Hq) as (A & B & S). apply invP4_closeLastChildAt; [exact S|exact A|].
      apply invP4_openBlock_up; [sc0|]. apply invP4_opened, H.
    - intros b Hb. apply inv4_set_bkids; [assumption|]. rewrite inv4L_app. apply inv4_parts in Hb. destruct Hb as (_ & _ & Hb). rewrite Hb.
      cbn [EolCRRenderBlkOcp.inv4L forallb]. rewrite inv4_newBlock by exact Hk. reflexivity.
  Qed.
  Lemma invP4_endBlock p : C0 p -> invP4 p -> invP4 (endBlock p).
  Proof.
    intros Hc H. unfold endBlock. destruct (_ || _); [assumption|]. cbv zeta.
    set (q := if state p =? stOpening then withState p stOpenMatched else p). assert (Hq : C0 q) by (unfold q; sc0).
    destruct (cdepth q) eqn:Ed; [exact (invP4_opened p H)|].
    destruct (C0_pos src q Hq) as (A & B & S). apply invP4_withCont, invP4_closeLastChildAt; [exact S|exact B|]. apply invP4_opened, H.
  Qed.

  (* adding an entry to a container that is neither a paragraph nor a definition *)
  Lemma invP4_collectInline p kind n K : invP4 p -> ckind p K -> isPSb K = false -> K <> LinkReferenceDefinitionKind ->
    invP4 (collectInline p kind n).
  Proof.
    intros H Hc Hp Hr. unfold collectInline. destruct (_ =? stDescendTerminated); [assumption|]. cbv zeta.
    set (p0 := if state p =? stOpening then withState p stOpenMatched else p).
    assert (H0 : invP4 p0) by (apply invP4_opened, H).
    assert (C0' : ckind p0 K) by (eapply L2Kind2.ckind_same; [apply L2Kind2.same_opened|exact Hc]).
    assert (Hadd : forall q, invP4 q -> ckind q K -> forall g, invP4 (updCont q (fun b => set_bik b (g b)))).
    { intros q Hq Cq g. apply invP4_updCont_at; [exact Hq|]. intros b Hb Hi. pose proof (Cq b Hb) as Eb.
      apply inv4_set_bik_free; [rewrite Eb; exact Hp|rewrite Eb; exact Hr|exact Hi]. }
    set (p1 := if 0 <? indent p0 then _ else p0).
    assert (H1 : invP4 p1 /\ ckind p1 K).
    { unfold p1. destruct (0 <? indent p0); [|tauto]. split.
      - apply (Hadd (advance p0 _)); [apply invP4_advance, H0|]. eapply L2Kind2.ckind_same; [apply L2Kind2.same_advance|exact C0'].
      - apply L2Kind2.ckind_updCont; [intros b; apply L2Kind2.bkind_set_bik|]. eapply L2Kind2.ckind_same; [apply L2Kind2.same_advance|exact C0']. }
    destruct H1 as [H1 C1].
    apply (Hadd (advance p1 n)); [apply invP4_advance, H1|]. eapply L2Kind2.ckind_same; [apply L2Kind2.same_advance|exact C1].
  Qed.

  (* ---- match rules ---- *)
  Lemma invP4_matchRule p : invP4 p -> invP4 (snd (matchRule p)).
  Proof.
    intros H. unfold matchRule. cbv zeta.
    destruct (_ || _); [assumption|].
    destruct (_ =? ListItemKind).
    { unfold matchListItem. destruct (isRestBlank p); [destruct (negb _); [assumption|apply invP4_consumeIndent, H]|].
      destruct (_ <=? _); [apply invP4_consumeIndent, H|assumption]. }
    destruct (_ =? BlockQuoteKind).
    { unfold matchBlockQuote. cbv zeta. destruct (_ <=? _); [assumption|]. destruct (negb _); [assumption|]. cbn [snd].
      unfold eatQuoteMarker. cbv zeta. destruct (0 <? _); repeat first [apply invP4_consumeIndent|apply invP4_advance]; assumption. }
    destruct (_ =? FencedCodeBlockKind).
    { unfold matchFenced. cbv zeta. destruct (if _ <? _ then _ else false); cbn [snd]; [apply invP4_consumeLine|apply invP4_consumeIndent]; assumption. }
    destruct (_ =? IndentedCodeBlockKind).
    { unfold matchIndented. cbv zeta. destruct (_ <? _); [destruct (negb _)|]; cbn [snd]; try apply invP4_consumeIndent; assumption. }
    destruct (Z.eqb_spec (containerKind p) HTMLBlockKind) as [Eh|Eh].
    { unfold matchHTML. destruct (htmlEnd _ _); [|assumption]. destruct (isRestBlank _); [assumption|]. cbn [snd]. apply invP4_consumeLine.
      apply (invP4_collectInline _ _ _ HTMLBlockKind); [assumption|rewrite <- Eh; apply L2Kind2.ckind_self|reflexivity|discriminate]. }
    assumption.
  Qed.

  (* ---- composite steps: the bounds invariant of L2Bnd supplies the cursor facts ---- *)
  Variable H : Z.
  Hypothesis H0 : 0 <= H.
  Variable ns : bool.
  Definition SP (p : lp) : Prop := L2Bnd.bndP H ns p /\ source p = src.
  Lemma SP_C0 p : SP p -> C0 p.
  Proof. intros ((_ & A & B & _) & S). split; [split; assumption|exact S]. Qed.
  Lemma src_of p q : envOf q = envOf p -> source q = source p. Proof. intros E. apply (env_parts _ _ E). Qed.

  Lemma invP4_descend_loop : forall fuel p d, SP p -> invP4 p -> invP4 (snd (descend_loop fuel p d)).
  Proof.
    induction fuel as [|f IH]; intros p d Hs Hi; [assumption|]. cbn [descend_loop]. cbv zeta.
    destruct (getAt (S d) (root p)) as [c|]; [|assumption].
    destruct (negb (isOpen c)); [assumption|]. destruct (negb (hasMatch _)); [assumption|].
    set (q := withState (withCont p (Some (S d))) stDescending).
    assert (Hq : SP q) by exact Hs.
    pose proof (invP4_matchRule q Hi) as H2.
    pose proof (L2Bnd.bndP_matchRule H ns q (proj1 Hq)) as B2.
    pose proof (src_of _ _ (env_matchRule q)) as S2.
    destruct (matchRule q) as [ok p2]. cbn [snd] in H2, B2, S2.
    assert (Hs2 : SP p2) by (split; [exact B2|rewrite S2; exact (proj2 Hq)]).
    destruct (state p2 =? stDescendTerminated).
    { cbn [snd]. destruct (C0_pos src p2 (SP_C0 p2 Hs2)) as (A & B & S). apply invP4_withCont, invP4_closeLastChildAt; assumption. }
    destruct (negb ok); [assumption|]. apply IH; assumption.
  Qed.

  (* ---- block starts ---- *)
  Ltac chain Hc Hi :=
    repeat match goal with
    | |- invP4 (consumeLine _) => apply invP4_consumeLine
    | |- invP4 (endBlock _) => apply invP4_endBlock; [sc0|]
    | |- invP4 (advance _ _) => apply invP4_advance
    | |- invP4 (consumeIndent _ _) => apply invP4_consumeIndent
    | |- invP4 (openBlock _ _) => apply invP4_openBlock; [discriminate|sc0|]
    | |- invP4 (updCont _ _) => apply invP4_updCont; [|intros ? ?; rewrite ?inv4_set_bn, ?inv4_set_bchar, ?inv4_set_bindent; assumption]
    end;
    try exact Hi.

  Lemma invP4_startBlockQuote p : C0 p -> invP4 p -> invP4 (startBlockQuote p).
  Proof. intros Hc Hi. unfold startBlockQuote. cbv zeta. destruct (_ <=? _); [assumption|]. destruct (negb _); [assumption|].
         destruct (0 <? _); chain Hc Hi. Qed.
  Lemma invP4_startATX p : C0 p -> st_open p -> invP4 p -> invP4 (startATX p).
  Proof.
    intros Hc Hs Hi. unfold startATX. cbv zeta. destruct (_ <=? _); [assumption|].
    destruct (parseATXHeading _) as [[level cs] ce]. destruct (level <? 1); [assumption|].
    apply invP4_endBlock; [sc0|]. apply invP4_consumeLine.
    apply (invP4_collectInline _ _ _ ATXHeadingKind); [chain Hc Hi| |reflexivity|discriminate].
    eapply L2Kind2.ckind_same; [apply L2Kind2.same_advance|]. apply L2Kind2.ckind_updCont; [intros b; destruct b; reflexivity|].
    apply L2Kind2.ckind_openBlock, L2Kind2.st_open_consumeIndent, Hs.
  Qed.
  Lemma invP4_startFenced p : C0 p -> st_open p -> invP4 p -> invP4 (startFenced p).
  Proof.
    intros Hc Hs Hi. unfold startFenced. cbv zeta. destruct (_ <=? _); [assumption|].
    destruct (parseCodeFence _) as [[[fc fnn] is_] ie]. destruct (fnn =? 0); [assumption|].
    apply invP4_consumeLine. destruct (spanValid _); [|chain Hc Hi].
    apply (invP4_collectInline _ _ _ FencedCodeBlockKind); [chain Hc Hi| |reflexivity|discriminate].
    eapply L2Kind2.ckind_same; [apply L2Kind2.same_advance|].
    apply L2Kind2.ckind_updCont; [intros b; destruct b; reflexivity|]. apply L2Kind2.ckind_updCont; [intros b; destruct b; reflexivity|].
    apply L2Kind2.ckind_openBlock, L2Kind2.st_open_consumeIndent, Hs.
  Qed.
  Lemma invP4_startHTML p : C0 p -> st_open p -> invP4 p -> invP4 (startHTML p).
  Proof.
    intros Hc Hs Hi. unfold startHTML. cbv zeta. destruct (_ <=? _); [assumption|]. destruct (negb _); [assumption|].
    destruct (_ <? 0); [assumption|]. destruct (negb _ && _); [assumption|]. destruct (htmlEnd _ _); [|chain Hc Hi].
    apply invP4_endBlock; [sc0|]. apply invP4_consumeLine.
    apply (invP4_collectInline _ _ _ HTMLBlockKind); [chain Hc Hi| |reflexivity|discriminate].
    apply L2Kind2.ckind_updCont; [intros b; destruct b; reflexivity|]. apply L2Kind2.ckind_openBlock, Hs.
  Qed.
  Lemma set_bkind_same x : set_bkind x (bkind x) = x. Proof. destruct x; reflexivity. Qed.
  Lemma invP4_startSetext p : C0 p -> invP4 p -> invP4 (startSetext p).
  Proof.
    intros Hc Hi. unfold startSetext. cbv zeta. destruct (negb (containerKind p =? ParagraphKind)) eqn:Ek; [assumption|].
    do 2 (match goal with |- invP4 (if ?c then _ else _) => destruct c end; [assumption|]).
    destruct (containerHasParagraphContent p) eqn:PC; cbn [negb]; [|assumption].
    apply invP4_endBlock; [sc0|]. apply invP4_consumeLine. apply invP4_updCont_at; [assumption|].
    intros b Hb Hib. rewrite inv4_set_bn. apply negb_false_iff, Z.eqb_eq in Ek.
    pose proof (L2Kind2.ckind_self p b Hb) as Eb. rewrite Ek in Eb.
    assert (HP : lpok src (bik b) = true).
    { unfold containerHasParagraphContent in PC. rewrite Ek in PC. change (negb (ParagraphKind =? ParagraphKind)) with false in PC. cbv iota zeta in PC.
      unfold contBlock in PC. rewrite Hb in PC. rewrite <- (lpok_of_para src b Eb). rewrite <- (proj2 Hc). exact PC. }
    apply inv4_parts in Hib. destruct Hib as (A & B & C). destruct b as [K s e bk ik a n c l lb]. cbn [bkind bik] in *. subst K.
    cbn [set_bkind]. apply inv4_mk; [| |exact C].
    - unfold locQ4 in *. cbn [bend bkind bik bstart] in *. change (isPSb SetextHeadingKind) with true. change (isPSb ParagraphKind) with true in A.
      destruct (e <? 0); [|reflexivity]. cbn [andb negb orb] in *. apply andb_true_iff in A. destruct A as [A _]. rewrite A, HP. reflexivity.
    - reflexivity.
  Qed.
  Lemma invP4_startThematic p : C0 p -> invP4 p -> invP4 (startThematic p).
  Proof. intros Hc Hi. unfold startThematic. cbv zeta. destruct (_ <=? _); [assumption|]. destruct (_ <? 0); [assumption|]. chain Hc Hi. Qed.
  Lemma invP4_startListItem p : C0 p -> invP4 p -> invP4 (startListItem p).
  Proof.
    intros Hc Hi. unfold startListItem. cbv zeta. destruct (_ <=? _); [assumption|].
    destruct (parseListMarker _) as [[delim n] mend]. destruct (_ || _); [assumption|]. destruct (_ && _); [assumption|].
    match goal with |- context [endBlock ?X] => assert (H1 : invP4 (endBlock X) /\ C0 (endBlock X)) end.
    { destruct (negb _ || negb _); (split; [chain Hc Hi|sc0]). }
    destruct H1 as [H1 Hc1].
    match goal with |- context [endBlock ?X] => set (q := endBlock X) in * end.
    destruct (isRestBlank q); [chain Hc1 H1|].
    destruct (indent q <? 1); [chain Hc1 H1|]. destruct (4 <? indent q); chain Hc1 H1.
  Qed.
  Lemma invP4_startIndented p : C0 p -> invP4 p -> invP4 (startIndented p).
  Proof. intros Hc Hi. unfold startIndented. destruct (_ || _ || _); [assumption|]. chain Hc Hi. Qed.

  Definition startOK2 (f : lp -> lp) : Prop := forall p, C0 p -> st_open p -> invP4 p -> invP4 (f p).
  Lemma blockStarts_ok2 : Forall startOK2 blockStarts.
  Proof.
    unfold blockStarts. repeat constructor; intros p Hc Hs Hi;
      [apply invP4_startBlockQuote|apply invP4_startATX|apply invP4_startFenced|apply invP4_startHTML
      |apply invP4_startSetext|apply invP4_startThematic|apply invP4_startListItem|apply invP4_startIndented]; assumption.
  Qed.
  Lemma invP4_tryStarts : forall fs p, Forall startOK2 fs -> Forall (L2Bnd.startOKb H ns) fs -> (forall f, In f fs -> forall q, envOf (f q) = envOf q) ->
    SP p -> invP4 p -> invP4 (snd (tryStarts fs p)).
  Proof.
    induction fs as [|f r IH]; intros p Hfs Hbs He Hs Hi; [assumption|]. cbn [tryStarts]. cbv zeta.
    inversion Hfs as [|? ? Hf Hr]; subst. inversion Hbs as [|? ? Hbf Hbr]; subst.
    assert (Hs0 : SP (withState p stOpening)) by exact Hs.
    assert (H1 : invP4 (f (withState p stOpening))) by (apply Hf; [apply SP_C0, Hs0|left; reflexivity|exact Hi]).
    destruct (_ || _); [assumption|]. apply IH; [assumption|assumption|intros g Hg; apply He; right; exact Hg| |assumption].
    split; [apply Hbf, Hs0|]. rewrite (src_of _ _ (He f (or_introl eq_refl) _)). exact (proj2 Hs).
  Qed.
  Lemma SP_tryStarts p : SP p -> SP (snd (tryStarts blockStarts p)).
  Proof.
    intros [A B]. split; [apply (L2Bnd.bndP_tryStarts H ns); [apply L2Bnd.blockStarts_okb; exact H0|exact A]|].
    rewrite (src_of _ _ (env_tryStarts blockStarts p env_blockStarts)). exact B.
  Qed.
  Lemma invP4_opening_loop : forall fuel p, SP p -> invP4 p -> invP4 (snd (opening_loop fuel p)).
  Proof.
    induction fuel as [|f IH]; intros p Hs Hi; [assumption|]. cbn [opening_loop].
    destruct (_ || _); [|assumption].
    pose proof (invP4_tryStarts blockStarts p blockStarts_ok2 (L2Bnd.blockStarts_okb H H0 ns) env_blockStarts Hs Hi) as H1.
    pose proof (SP_tryStarts p Hs) as Hs1.
    destruct (tryStarts blockStarts p) as [[|] p1]; cbn [snd] in H1, Hs1.
    - destruct (_ =? stLineConsumed); [assumption|apply IH; assumption].
    - assumption.
  Qed.
  Lemma SP_opening_loop fuel p : SP p -> SP (snd (opening_loop fuel p)).
  Proof.
    intros [A B]. split; [apply (L2Bnd.bndP_opening_loop H H0 ns), A|]. rewrite (src_of _ _ (env_opening_loop fuel p)). exact B.
  Qed.
  Lemma invP4_deferredClose p : C0 p -> invP4 p -> invP4 (deferredClose p).
  Proof.
    intros Hc Hi. unfold deferredClose. cbv zeta. destruct (_ && _); [assumption|].
    destruct (C0_pos src p Hc) as (A & B & S). apply invP4_closeLastChildAt; assumption.
  Qed.
  Lemma invP4_openNewBlocks p am : SP p -> invP4 p -> invP4 (snd (openNewBlocks p am)).
  Proof.
    intros Hs Hi. unfold openNewBlocks. destruct (_ =? 0).
    - cbn [snd]. unfold invP4. cbn. destruct (C0_pos src p (SP_C0 p Hs)) as (A & B & S). rewrite S.
      pose proof (N_closeBlock src Bf Hsub (lineStart p) A (bheight (root p)) (root p) Hi) as Hc.
      destruct (closeBlock _ _ _ _) as [|b r]; [assumption|]. cbn in Hc. apply andb_true_iff in Hc. tauto.
    - pose proof (invP4_opening_loop (S (length (line p))) p Hs Hi) as H1.
      pose proof (SP_opening_loop (S (length (line p))) p Hs) as Hs1.
      destruct (opening_loop _ p) as [ht p1]. cbn [snd] in H1, Hs1.
      destruct am; cbn [snd]; [assumption|apply invP4_deferredClose; [apply SP_C0, Hs1|exact H1]].
  Qed.
End Walk.

(* ================================================================ the half that is carried from line to line *)
Section Cross.
  Variable Bf : bytes.
Fixpoint invN (b : block) : bool :=
  match b with Blk K s e bk ik a n c l lb => locN Bf (Blk K s e bk ik a n c l lb) && forallb invN bk end.
Definition invNL (l : list block) : bool := forallb invN l.
Lemma invN_eq b : invN b = locN Bf b && invNL (bkids b). Proof. destruct b; reflexivity. Qed.
Lemma invN_parts b : invN b = true -> locN Bf b = true /\ invNL (bkids b) = true. Proof. rewrite invN_eq. apply andb_true_iff. Qed.
Lemma invN_of_inv4 src : forall b, inv4 src Bf b = true -> invN b = true.
Proof.
  fix IH 1. intros [K s e bk ik a n c l lb] H. cbn [inv4] in H. apply andb_true_iff in H. destruct H as [H Hk].
  apply andb_true_iff in H. destruct H as [_ Hx]. cbn [invN]. rewrite Hx. cbn [andb]. clear Hx.
  induction bk as [|x r IHr]; [reflexivity|]. cbn [forallb] in *. apply andb_true_iff in Hk. destruct Hk as [A B']. rewrite (IH x A), (IHr B'). reflexivity.
Qed.
Lemma invNL_of_inv4L src l : inv4L src Bf l = true -> invNL l = true.
Proof. unfold inv4L, invNL. rewrite !forallb_forall. intros H x Hx. apply (invN_of_inv4 src), H, Hx. Qed.

Lemma invN_set_bkids b ks : invN b = true -> invNL ks = true -> invN (set_bkids b ks) = true.
Proof. intros H Hk. apply invN_parts in H. destruct H as [A _]. destruct b. rewrite invN_eq. cbn [set_bkids bkids]. rewrite Hk, andb_true_r. exact A. Qed.
Lemma invN_set_bik b ik' : bkind b <> LinkReferenceDefinitionKind -> invN b = true -> invN (set_bik b ik') = true.
Proof.
  intros Hr H. apply invN_parts in H. destruct H as [_ C]. destruct b as [K s e bk ik a n c l lb]. cbn [bkind] in Hr.
  rewrite invN_eq. cbn [set_bik bkids]. cbn [bkids] in C. rewrite C, andb_true_r. unfold locN. cbn [bkind]. apply Z.eqb_neq in Hr. rewrite Hr. reflexivity.
Qed.
Lemma invNL_app a b : invNL (a ++ b) = invNL a && invNL b. Proof. apply forallb_app. Qed.
Lemma invN_lastBlock b c : invN b = true -> lastBlock b = Some c -> invN c = true.
Proof.
  intros H Hl. apply invN_parts in H. destruct H as [_ H]. unfold invNL in H. rewrite forallb_forall in H. apply H. eapply lastBlock_In. exact Hl.
Qed.
Lemma invN_set_lastBlocks b repl : invN b = true -> invNL repl = true -> invN (set_lastBlocks b repl) = true.
Proof.
  intros H Hr. unfold set_lastBlocks. apply invN_set_bkids; [assumption|].
  rewrite invNL_app, Hr, andb_true_r. apply invN_parts in H. destruct H as [_ H]. revert H. apply forallb_sub. intros x. apply removelast_In.
Qed.
Lemma invN_updAt_at f : forall d b, invN b = true ->
  (forall x, getAt d b = Some x -> invN x = true -> invN (f x) = true) -> invN (updAt d f b) = true.
Proof.
  induction d as [|d IH]; intros b H Hf; [apply Hf; [reflexivity|assumption]|]. cbn [updAt].
  destruct (lastBlock b) as [c|] eqn:El; [|assumption].
  apply invN_set_lastBlocks; [assumption|]. unfold invNL. cbn [forallb]. rewrite andb_true_r.
  apply IH; [eapply invN_lastBlock; eassumption|]. intros x Hx. apply Hf. cbn [getAt]. rewrite El. exact Hx.
Qed.

Definition invNP (p : lp) : Prop := invN (root p) = true.
Lemma invNP_same p p' : same_tree p p' -> invNP p -> invNP p'.
Proof. intros [E1 _]. unfold invNP. rewrite E1. tauto. Qed.
Lemma invNP_updCont_at p f : invNP p ->
  (forall b, getAt (cdepth p) (root p) = Some b -> invN b = true -> invN (f b) = true) -> invNP (updCont p f).
Proof. intros H Hf. unfold invNP, updCont. cbn. apply invN_updAt_at; assumption. Qed.
(* appending entries to a container that is not a definition *)
Lemma invNP_addik q g : invNP q -> containerKind q <> LinkReferenceDefinitionKind -> invNP (updCont q (fun b => set_bik b (g b))).
Proof.
  intros Hq Nk. apply invNP_updCont_at; [exact Hq|]. intros b Hb Hi. apply invN_set_bik; [|exact Hi].
  rewrite (L2Kind2.ckind_self q b Hb). exact Nk.
Qed.
Lemma containerKind_addik q g : containerKind (updCont q (fun b => set_bik b (g b))) = containerKind q.
Proof. apply L2Kind2.containerKind_updCont. intros b. apply L2Kind2.bkind_set_bik. Qed.

Lemma invNP_go q : invNP q -> containerKind q <> LinkReferenceDefinitionKind ->
  invNP (let k := containerKind q in
        let inlineKind := if isCode k then TextKind else if k =? HTMLBlockKind then RawHTMLKind else UnparsedKind in
        let q' := updCont q (fun b => set_bik b (bik b ++ [mkI inlineKind (lineStart q + li q) (lineStart q + len (line q))])) in
        if isCode k && negb (hasByteSuffixEOL (line q')) then
          updCont q' (fun b => set_bik b (bik b ++ [mkI SoftLineBreakKind (lineStart q' + len (line q')) (lineStart q' + len (line q'))]))
        else q').
Proof.
  intros Hq Nk. cbv zeta.
  set (q' := updCont q _).
  assert (Hq' : invNP q') by (apply (invNP_addik q (fun b => bik b ++ [_])); assumption).
  assert (Kq' : containerKind q' = containerKind q) by (apply (containerKind_addik q (fun b => bik b ++ [_]))).
  destruct (isCode (containerKind q) && negb _); [|exact Hq'].
  apply (invNP_addik q' (fun b => bik b ++ [_])); [exact Hq'|rewrite Kq'; exact Nk].
Qed.

End Cross.

Section Line.
  Variables src Bf : bytes.
  Hypothesis Hsub : forall s e, 0 <= s -> e <= len src -> e <= len Bf /\ sub Bf s e = sub src s e.
  Variable H : Z.
  Hypothesis H0 : 0 <= H.
  Variable ns : bool.

  Lemma inv4_setLastBlankUpTo v : forall d rt, inv4 src Bf rt = true -> inv4 src Bf (setLastBlankUpTo d v rt) = true.
  Proof.
    induction d as [|d IH]; intros rt Hr; cbn [setLastBlankUpTo].
    - cbn [updAt]. rewrite inv4_set_blast. assumption.
    - apply IH. apply inv4_updAt; [intros b Hb; rewrite inv4_set_blast; assumption|assumption].
  Qed.

  Lemma N_addLineText p : C0 src p -> invP4 src Bf p -> (acceptsLines (containerKind p) = false -> st_open p) -> invNP Bf (addLineText p).
  Proof.
    intros Hc Hi Hst. unfold addLineText. cbv zeta.
    set (p1 := if isRestBlank p then _ else p).
    assert (H1 : invP4 src Bf p1).
    { unfold p1. destruct (isRestBlank p); [|assumption]. apply invP4_updCont; [assumption|].
      intros b Hb. destruct (lastBlock b) as [c|] eqn:El; [|assumption].
      apply inv4_set_lastBlocks; [assumption|]. cbn. rewrite inv4_set_blast, andb_true_r. eapply inv4_lastBlock; eassumption. }
    assert (C1 : C0 src p1) by (unfold p1; destruct (isRestBlank p); [apply C0_updCont|]; exact Hc).
    assert (K1 : containerKind p1 = containerKind p).
    { unfold p1. destruct (isRestBlank p); [|reflexivity]. apply L2Kind2.containerKind_updCont.
      intros b. destruct (lastBlock b); [destruct b; reflexivity|reflexivity]. }
    assert (S1 : state p1 = state p) by (unfold p1; destruct (isRestBlank p); reflexivity).
    set (p2 := withRoot p1 _).
    assert (H2 : invP4 src Bf p2) by (unfold p2, invP4; cbn; apply inv4_setLastBlankUpTo; exact H1).
    assert (C2 : C0 src p2) by (unfold p2; apply C0_withRoot; exact C1).
    assert (K2 : containerKind p2 = containerKind p).
    { rewrite <- K1. unfold containerKind, contBlock, p2, cdepth. cbn [root container withRoot setLP]. fold (cdepth p1).
      match goal with |- bkind (match getAt ?k (setLastBlankUpTo ?d ?v ?r) with _ => _ end) = _ =>
        pose proof (L2Kind2.kindAt_setLastBlankUpTo v d k r) as E end.
      destruct (getAt (cdepth p1) (setLastBlankUpTo _ _ _)); destruct (getAt (cdepth p1) (root p1)); cbn in E; try congruence; reflexivity. }
    assert (S2 : state p2 = state p) by exact S1.
    change (bkind (contBlock p1)) with (containerKind p1). rewrite K1.
    assert (X2 : invNP Bf p2) by (apply (invN_of_inv4 Bf src), H2).
    destruct (acceptsLines (containerKind p)) eqn:Ea.
    - assert (N2 : containerKind p2 <> LinkReferenceDefinitionKind) by (rewrite K2; apply L2Kind2.acceptsLines_notref, Ea).
      apply invNP_go.
      + match goal with |- invNP _ (if ?c then _ else _) => destruct c end; [|exact X2].
        eapply invNP_same; [apply L2Kind2.same_consumeIndent|]. apply (invNP_addik Bf p2 (fun b => bik b ++ [_])); assumption.
      + match goal with |- containerKind (if ?c then _ else _) <> _ => destruct c end; [|exact N2].
        rewrite (L2Kind2.containerKind_same _ _ (L2Kind2.same_consumeIndent _ _)), (containerKind_addik p2 (fun b => bik b ++ [_])). exact N2.
    - match goal with |- invNP _ (if ?c then _ else _) => destruct c end; [|exact X2].
      assert (So : st_open p2) by (unfold L2Kind2.st_open; rewrite S2; exact (Hst eq_refl)).
      apply invNP_go.
      + eapply invNP_same; [apply L2Kind2.same_consumeIndent|]. apply (invN_of_inv4 Bf src). apply (invP4_openBlock src Bf Hsub); [discriminate|exact C2|exact H2].
      + apply (L2Kind2.ckind_notref _ ParagraphKind); [|discriminate].
        eapply L2Kind2.ckind_same; [apply L2Kind2.same_consumeIndent|]. apply L2Kind2.ckind_openBlock, So.
  Qed.

  Theorem N_processLine st children ls : 0 <= ls -> ls + len (from_ src ls) = H -> len src <= H ->
    (ns = true -> hasByteSuffixEOL (from_ src ls) = true) -> L2Bnd.bndL H ns children = true ->
    inv4L src Bf children = true -> invNL Bf (fst (fst (processLine st children ls src))) = true.
  Proof.
    intros Hls Hhi Hsrc Hns Hb Hi. unfold processLine. cbv zeta.
    set (p0 := resetLP st children ls src).
    assert (Hs0 : SP src H ns p0).
    { split; [|reflexivity]. unfold L2Bnd.bndP, p0, resetLP. cbn [root lineStart li line source].
      assert (Hlen : 0 <= len (from_ src ls)) by (unfold len; lia).
      refine (conj _ (conj Hls (conj (conj (Z.le_refl 0) Hlen) (conj Hhi (conj Hsrc Hns))))).
      cbn [L2Bnd.bnd forallb]. change (-1 <? 0) with true. change (documentKind =? LinkReferenceDefinitionKind) with false. cbn [orb andb]. exact Hb. }
    assert (Hi0 : invP4 src Bf p0) by (unfold invP4, p0; cbn; exact Hi).
    pose proof (invP4_descend_loop src Bf Hsub H ns (bheight (root p0)) p0 O Hs0 Hi0) as H1.
    assert (Hs1 : SP src H ns (snd (descend_loop (bheight (root p0)) p0 O))).
    { split; [apply (L2Bnd.bndP_descend_loop H H0 ns), Hs0|]. rewrite (src_of _ _ (env_descend_loop _ p0 O)). reflexivity. }
    fold (descendOpenBlocks p0) in H1, Hs1.
    destruct (descendOpenBlocks p0) as [am p1]. cbn [snd] in H1, Hs1.
    set (R2 := if negb (state p1 =? stDescendTerminated) then openNewBlocks p1 am else (false, p1)).
    assert (H2 : invP4 src Bf (snd R2) /\ SP src H ns (snd R2) /\ (fst R2 = true -> L2Kind2.goodSt (snd R2))).
    { unfold R2. destruct (negb _).
      - split; [apply (invP4_openNewBlocks src Bf Hsub H H0 ns); assumption|]. split; [|apply L2Kind2.openNewBlocks_good].
        split; [apply (L2Bnd.bndP_openNewBlocks H H0 ns), Hs1|]. rewrite (src_of _ _ (env_openNewBlocks p1 am)). exact (proj2 Hs1).
      - split; [assumption|split; [assumption|cbn; discriminate]]. }
    destruct R2 as [ht p2]. cbn [fst snd] in H2. destruct H2 as (H2 & Hs2 & G2). cbn [fst].
    assert (H3 : invNP Bf (if ht then addLineText p2 else p2)).
    { destruct ht; [apply N_addLineText; [apply (SP_C0 src H ns), Hs2|exact H2|exact (G2 eq_refl)]|apply (invN_of_inv4 Bf src), H2]. }
    unfold invNP in H3. apply invN_parts in H3. destruct H3 as [_ H3].
    destruct (if ht then addLineText p2 else p2); exact H3.
  Qed.
End Line.

Print Assumptions N_processLine.
