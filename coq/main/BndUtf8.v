From Coq Require Import List ZArith Lia Bool.
Import ListNotations.
Require Import Base Tables Utf8 Tree Recog Driver Props.
Require Import ShapesBase BlockShapesNul BndDefs.
Open Scope Z_scope.

(* ================================================================== *)
(* BndUtf8: what validity of the input gives.                           *)
(*   adjF prev l : no byte of l that follows an ASCII byte (a byte      *)
(*   < 128; `prev` is the byte before l) is a continuation byte.        *)
(*   A valid UTF-8 string has adjF 0; the property survives NUL padding *)
(*   (pad), cutting out a factor at a position whose byte is no         *)
(*   continuation byte, and filling the NUL triples (fillNulls).        *)
(* ================================================================== *)

Fixpoint adjF (prev : Z) (l : bytes) : Prop :=
  match l with [] => True | b :: r => (prev < 128 -> isCont b = false) /\ adjF b r end.

Lemma adjF_weaken : forall l a b, (b < 128 -> a < 128) -> adjF a l -> adjF b l.
Proof. destruct l as [|c r]; intros a b H A; [exact I|]. destruct A as [A1 A2]. split; [intros X; apply A1, H, X|exact A2]. Qed.

Definition lastOr (prev : Z) (l : bytes) : Z := match rev l with c :: _ => c | [] => prev end.
Lemma lastOr_cons prev b r : lastOr prev (b :: r) = lastOr b r.
Proof.
  unfold lastOr. cbn [rev]. destruct (rev r) as [|c t] eqn:E; [reflexivity|]. reflexivity.
Qed.
Lemma adjF_app : forall a prev b, adjF prev (a ++ b) <-> adjF prev a /\ adjF (lastOr prev a) b.
Proof.
  induction a as [|c r IH]; intros prev b; [cbn; tauto|]. cbn [app adjF]. rewrite IH, lastOr_cons. tauto.
Qed.

Lemma adjF_at : forall l prev, adjF prev l -> forall p, 1 <= p -> at_ l (p - 1) < 128 -> p < len l -> isCont (at_ l p) = false.
Proof.
  induction l as [|b r IH]; intros prev H p Hp Ha Hl; [rewrite at_nil; reflexivity|].
  destruct H as [H1 H2]. rewrite len_cons in Hl. rewrite at_S' by lia.
  destruct (Z.eq_dec p 1) as [->|N].
  - replace (1 - 1) with 0 in * by lia. rewrite at_0 in Ha. destruct r as [|c t]; [rewrite at_nil; reflexivity|].
    rewrite at_0. apply H2, Ha.
  - rewrite at_S' in Ha by lia. apply (IH b H2 (p - 1)); [lia|exact Ha|lia].
Qed.
Lemma adjF_first l prev : adjF prev l -> prev < 128 -> isCont (at_ l 0) = false.
Proof. destruct l as [|b r]; [intros; rewrite at_nil; reflexivity|]. intros [H _] Hp. rewrite at_0. apply H, Hp. Qed.

Lemma adjF_asciiOK l : adjF 0 l -> asciiOK l /\ boundary_ok l 0 = true.
Proof.
  intros H. split.
  - intros p Hp Ha. unfold boundary_ok. destruct (Z.ltb_spec p (len l)) as [L|L]; [|reflexivity].
    rewrite (adjF_at l 0 H p Hp Ha L). reflexivity.
  - unfold boundary_ok. destruct (Z.ltb_spec 0 (len l)) as [L|L]; [|reflexivity]. rewrite (adjF_first l 0 H) by lia. reflexivity.
Qed.

(* ---- factors ---- *)
Lemma adjF_upto : forall l prev n, adjF prev l -> adjF prev (upto l n).
Proof.
  induction l as [|b r IH]; intros prev n H; [rewrite upto_nil; exact I|].
  destruct (Z.le_gt_cases n 0) as [L|L]; [rewrite upto_le0 by lia; exact I|]. rewrite upto_cons' by lia.
  destruct H as [H1 H2]. split; [exact H1|apply IH, H2].
Qed.
Lemma adjF_from : forall l prev n, 0 <= n -> adjF prev l -> isCont (at_ l n) = false -> adjF 0 (from_ l n).
Proof.
  induction l as [|b r IH]; intros prev n Hn H Hc; [rewrite from_nil; exact I|].
  destruct H as [H1 H2].
  destruct (Z.eq_dec n 0) as [->|N].
  - rewrite from_0. rewrite at_0 in Hc. split; [intros _; exact Hc|exact H2].
  - rewrite from_cons' by lia. rewrite at_S' in Hc by lia. apply (IH b); [lia|exact H2|exact Hc].
Qed.

(* ---- NUL padding ---- *)
Lemma isCont_0 : isCont 0 = false. Proof. reflexivity. Qed.
Lemma adjF_pad : forall l prev, adjF prev l -> adjF prev (pad l).
Proof.
  induction l as [|b r IH]; intros prev H; [exact I|]. destruct H as [H1 H2].
  change (pad (b :: r)) with ((if b =? 0 then [0; 0; 0] else [b]) ++ pad r).
  destruct (Z.eqb_spec b 0) as [E|E].
  - subst b. cbn [app adjF]. repeat split; try (intros _; reflexivity). apply IH, H2.
  - cbn [app adjF]. split; [exact H1|apply IH, H2].
Qed.

(* ---- filling the NUL triples ---- *)
Lemma fillNulls_cons b r : b <> 0 -> fillNulls (b :: r) = b :: fillNulls r.
Proof. intros H. unfold fillNulls. cbn [fill_aux]. destruct (Z.eqb_spec b 0); [contradiction|reflexivity]. Qed.
Lemma fillNulls_tri r : fillNulls (0 :: 0 :: 0 :: r) = 239 :: 191 :: 189 :: fillNulls r.
Proof. reflexivity. Qed.
Lemma adjF_fill : forall l, tri l -> forall prev, adjF prev l -> adjF prev (fillNulls l).
Proof.
  induction 1 as [|b r Hb Ht IH|r Ht IH]; intros prev H.
  - exact I.
  - rewrite fillNulls_cons by exact Hb. destruct H as [H1 H2]. split; [exact H1|apply IH, H2].
  - rewrite fillNulls_tri. destruct H as (_ & _ & _ & H). cbn [adjF]. repeat split; try (intros _; reflexivity); try (intros X; lia).
    apply IH. eapply adjF_weaken; [|exact H]. intros X. lia.
Qed.
Lemma len_fillNulls : forall l, tri l -> len (fillNulls l) = len l.
Proof.
  induction 1 as [|b r Hb Ht IH|r Ht IH]; [reflexivity| |].
  - rewrite fillNulls_cons by exact Hb. rewrite !len_cons, IH. reflexivity.
  - rewrite fillNulls_tri. rewrite !len_cons, IH. reflexivity.
Qed.
(* the byte of the filled source at a position that is not the second or third byte of a NUL triple *)
Lemma fill_at : forall l, tri l -> forall p, 0 <= p < len l -> (at_ l p <> 0 \/ p = 0 \/ at_ l (p - 1) <> 0) ->
  isCont (at_ l p) = false -> isCont (at_ (fillNulls l) p) = false.
Proof.
  induction 1 as [|b r Hb Ht IH|r Ht IH]; intros p Hp Hz Hc.
  - unfold len in Hp. cbn in Hp. lia.
  - rewrite fillNulls_cons by exact Hb. rewrite len_cons in Hp.
    destruct (Z.eq_dec p 0) as [->|N]; [rewrite at_0 in *; exact Hc|].
    rewrite at_S' in * by lia. apply IH; [lia| |exact Hc].
    destruct Hz as [Hz|[Hz|Hz]]; [left; exact Hz|lia|].
    destruct (Z.eq_dec p 1) as [->|N1]; [right; left; reflexivity|right; right]. rewrite at_S' in Hz by lia. exact Hz.
  - rewrite fillNulls_tri. rewrite !len_cons in Hp.
    destruct (Z.eq_dec p 0) as [->|N0]; [reflexivity|].
    destruct (Z.eq_dec p 1) as [->|N1].
    { exfalso. destruct Hz as [Hz|[Hz|Hz]]; [apply Hz; reflexivity|lia|apply Hz; reflexivity]. }
    destruct (Z.eq_dec p 2) as [->|N2].
    { exfalso. destruct Hz as [Hz|[Hz|Hz]]; [apply Hz; reflexivity|lia|apply Hz; reflexivity]. }
    rewrite (at_S' 239) by lia. rewrite (at_S' 191) by lia. rewrite (at_S' 189) by lia.
    rewrite (at_S' 0 _ p) in Hc, Hz by lia. rewrite (at_S' 0 _ (p - 1)) in Hc, Hz by lia. rewrite (at_S' 0 _ (p - 1 - 1)) in Hc, Hz by lia.
    apply IH; [lia| |exact Hc].
    destruct Hz as [Hz|[Hz|Hz]]; [left; exact Hz|lia|].
    destruct (Z.eq_dec p 3) as [->|N3]; [right; left; reflexivity|right; right].
    rewrite (at_S' 0 _ (p - 1)) in Hz by lia. rewrite (at_S' 0 _ (p - 1 - 1)) in Hz by lia. rewrite (at_S' 0 _ (p - 1 - 1 - 1)) in Hz by lia.
    replace (p - 1 - 1 - 1 - 1) with (p - 1 - 1 - 1 - 1) by lia. exact Hz.
Qed.

(* ---- a valid string ---- *)
Lemma adjF_hi b r prev : 128 <= b -> (prev < 128 -> isCont b = false) -> adjF b r -> adjF prev (b :: r).
Proof. intros _ H1 H2. split; assumption. Qed.

Lemma cont_range b : isCont b = true -> 128 <= b.
Proof. unfold isCont. intros H. apply andb_true_iff in H. destruct H as [H _]. apply Z.leb_le in H. exact H. Qed.
Lemma notcont_hi b : 192 <= b -> isCont b = false.
Proof. intros H. unfold isCont. destruct (Z.leb_spec 128 b), (Z.leb_spec b 191); try reflexivity; lia. Qed.
Lemma notcont_lo b : b < 128 -> isCont b = false.
Proof. intros H. unfold isCont. destruct (Z.leb_spec 128 b); try reflexivity; lia. Qed.

Lemma from_S {A} (x : A) l : from_ (x :: l) 1 = l. Proof. reflexivity. Qed.

Lemma valid8_adjF : forall fuel s, (length s < fuel)%nat -> valid8 fuel s = true -> forall prev, adjF prev s.
Proof.
  induction fuel as [|f IH]; intros s Hl H prev; [lia|].
  destruct s as [|b0 r]; [exact I|]. cbn [valid8] in H.
  destruct (decodeRune (b0 :: r)) as [rn w] eqn:Ed.
  destruct ((rn =? RuneError) && (w =? 1)) eqn:Ebad; [discriminate|].
  cbn [length] in Hl.
  unfold decodeRune in Ed.
  destruct (Z.ltb_spec b0 128) as [L0|L0].
  { inversion Ed; subst. rewrite from_S in H. split; [intros _; apply notcont_lo, L0|]. apply IH; [lia|exact H]. }
  assert (Hbad : (RuneError =? RuneError) && (1 =? 1) = true) by reflexivity.
  destruct ((194 <=? b0) && (b0 <=? 223)) eqn:E2.
  { apply andb_true_iff in E2. destruct E2 as [A1 A2]. apply Z.leb_le in A1, A2.
    destruct r as [|b1 r1]; [inversion Ed; subst; congruence|].
    destruct (isCont b1) eqn:Ec; [|inversion Ed; subst; congruence]. inversion Ed; subst.
    replace (from_ (b0 :: b1 :: r1) 2) with r1 in H by reflexivity.
    split; [intros _; apply notcont_hi; lia|]. split; [intros X; lia|]. apply IH; [cbn [length] in Hl; lia|exact H]. }
  destruct ((224 <=? b0) && (b0 <=? 239)) eqn:E3.
  { apply andb_true_iff in E3. destruct E3 as [A1 A2]. apply Z.leb_le in A1, A2.
    destruct r as [|b1 [|b2 r2]]; try (inversion Ed; subst; congruence).
    cbv zeta in Ed.
    destruct (((if b0 =? 224 then 160 else 128) <=? b1) && (b1 <=? (if b0 =? 237 then 159 else 191)) && isCont b2) eqn:Ec;
      [|inversion Ed; subst; congruence]. inversion Ed; subst.
    apply andb_true_iff in Ec. destruct Ec as [Ec C2]. apply andb_true_iff in Ec. destruct Ec as [C1 C1'].
    apply Z.leb_le in C1. assert (H1 : 128 <= b1) by (destruct (b0 =? 224); lia). apply cont_range in C2.
    replace (from_ (b0 :: b1 :: b2 :: r2) 3) with r2 in H by reflexivity.
    split; [intros _; apply notcont_hi; lia|]. split; [intros X; lia|]. split; [intros X; lia|].
    apply IH; [cbn [length] in Hl; lia|exact H]. }
  destruct ((240 <=? b0) && (b0 <=? 244)) eqn:E4.
  { apply andb_true_iff in E4. destruct E4 as [A1 A2]. apply Z.leb_le in A1, A2.
    destruct r as [|b1 [|b2 [|b3 r3]]]; try (inversion Ed; subst; congruence).
    cbv zeta in Ed.
    destruct (((if b0 =? 240 then 144 else 128) <=? b1) && (b1 <=? (if b0 =? 244 then 143 else 191)) && isCont b2 && isCont b3) eqn:Ec;
      [|inversion Ed; subst; congruence]. inversion Ed; subst.
    apply andb_true_iff in Ec. destruct Ec as [Ec C3]. apply andb_true_iff in Ec. destruct Ec as [Ec C2]. apply andb_true_iff in Ec. destruct Ec as [C1 C1'].
    apply Z.leb_le in C1. assert (H1 : 128 <= b1) by (destruct (b0 =? 240); lia). apply cont_range in C2. apply cont_range in C3.
    replace (from_ (b0 :: b1 :: b2 :: b3 :: r3) 4) with r3 in H by reflexivity.
    split; [intros _; apply notcont_hi; lia|]. split; [intros X; lia|]. split; [intros X; lia|]. split; [intros X; lia|].
    apply IH; [cbn [length] in Hl; lia|exact H]. }
  inversion Ed; subst. congruence.
Qed.

Theorem valid_adjF input : validUtf8 input = true -> adjF 0 input.
Proof. intros H. apply (valid8_adjF (S (length input)) input); [lia|exact H]. Qed.
Theorem valid_pad_adjF input : validUtf8 input = true -> adjF 0 (pad input).
Proof. intros H. apply adjF_pad, valid_adjF, H. Qed.
Print Assumptions valid_pad_adjF.
