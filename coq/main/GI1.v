From Coq Require Import List ZArith Lia Bool.
Import ListNotations.
Require Import Base Tree Inl3a Render Props PEProof GI0.
Open Scope Z_scope.

(* ================================================================== *)
(* GI1: the predicates carried through the inline parser.              *)
(*   gk tw n   : the node grammar (Props.gramI) on parse-time nodes,   *)
(*               plus: link-part tails and everything below a          *)
(*               non-container node carry identity 0                   *)
(*   nl n      : no Link node reachable through containers             *)
(*   idb b n   : identities in [0, b)                                  *)
(*   lvs X H n : where the delimiter-stack identities may sit          *)
(*   er n      : erasure of spans (what span updates cannot change)    *)
(* tw = true additionally accepts a lone LinkTitle as a link tail.     *)
(* ================================================================== *)

Definition cont (k : Z) : bool := (k =? EmphasisKind) || (k =? StrongKind) || (k =? LinkKind) || (k =? ImageKind).
Definition isLI (k : Z) : bool := (k =? LinkKind) || (k =? ImageKind).
Definition phr (n : pn) : bool := phrasing (pkind n).

Fixpoint zid (n : pn) : bool := match n with PN id _ _ _ _ _ ks => (id =? 0) && forallb zid ks end.

Definition txk (k : Z) : bool := (k =? TextKind) || (k =? SoftLineBreakKind) || (k =? IndentKind).
Definition lpk (k : Z) : bool :=
  (k =? TextKind) || (k =? CharacterReferenceKind) || (k =? SoftLineBreakKind) || (k =? IndentKind) || (k =? RawHTMLKind).
Definition leafKids (k : Z) (ks : list pn) : bool :=
  if k =? CodeSpanKind then forallb (fun c => txk (pkind c)) ks
  else if isLinkPart k || (k =? InfoStringKind) || (k =? AutolinkKind) || (k =? HTMLTagKind) then
    forallb (fun c => lpk (pkind c) && (len (pkids c) =? 0)) ks
  else len ks =? 0.

Fixpoint nl (n : pn) : bool :=
  match n with PN _ k _ _ _ _ ks => if k =? LinkKind then false else if cont k then forallb nl ks else true end.

Definition tailShape (tw : bool) (t : list pn) : bool :=
  match t with
  | [x] => ((pkind x =? LinkLabelKind) || (pkind x =? LinkDestinationKind) || (tw && (pkind x =? LinkTitleKind))) && (pid x =? 0)
  | [x; y] => (pkind x =? LinkDestinationKind) && (pkind y =? LinkTitleKind) && (pid x =? 0) && (pid y =? 0)
  | _ => false
  end.
Fixpoint bodyTail (tw : bool) (l : list pn) : bool :=
  match l with [] => true | x :: r => if phr x then bodyTail tw r else tailShape tw (x :: r) end.
Definition lvlG (tw : bool) (k : Z) (rf : bytes) (l : list pn) : bool :=
  if isLI k then bodyTail tw l && ((len rf =? 0) || forallb phr l) && (negb (k =? LinkKind) || forallb nl l)
  else forallb phr l.

Fixpoint gk (tw : bool) (n : pn) : bool :=
  match n with PN _ k _ _ _ rf ks =>
    negb (k =? UnparsedKind) &&
    (if cont k then lvlG tw k rf ks && forallb (gk tw) ks else leafKids k ks && forallb zid ks)
  end.

Fixpoint idb (b : Z) (n : pn) : bool :=
  match n with PN id _ _ _ _ _ ks => (0 <=? id) && (id <? b) && forallb (idb b) ks end.

Definition lpb (X H is : list Z) : bool := nilb (fl H is) || (nilb (fl X is) && eqbL (fl H is) H).
Fixpoint lvs (X H : list Z) (n : pn) : bool :=
  match n with PN _ k _ _ _ _ ks =>
    if cont k then nilb (fl X (ids ks)) && lpb X H (ids ks) && forallb (lvs X H) ks else true
  end.

Fixpoint er (n : pn) : pn := match n with PN id k _ _ _ r ks => PN id k 0 0 0 r (map er ks) end.

(* ---------------------------------------------------------------- unfolding lemmas *)
Lemma gk_eq tw n : gk tw n = negb (pkind n =? UnparsedKind) &&
  (if cont (pkind n) then lvlG tw (pkind n) (pref n) (pkids n) && forallb (gk tw) (pkids n)
   else leafKids (pkind n) (pkids n) && forallb zid (pkids n)).
Proof. destruct n; reflexivity. Qed.
Lemma lvs_eq X H n : lvs X H n =
  if cont (pkind n) then nilb (fl X (ids (pkids n))) && lpb X H (ids (pkids n)) && forallb (lvs X H) (pkids n) else true.
Proof. destruct n; reflexivity. Qed.
Lemma idb_eq b n : idb b n = (0 <=? pid n) && (pid n <? b) && forallb (idb b) (pkids n).
Proof. destruct n; reflexivity. Qed.
Lemma nl_eq n : nl n = if pkind n =? LinkKind then false else if cont (pkind n) then forallb nl (pkids n) else true.
Proof. destruct n; reflexivity. Qed.
Lemma zid_eq n : zid n = (pid n =? 0) && forallb zid (pkids n).
Proof. destruct n; reflexivity. Qed.

Lemma pid_setKids n ks : pid (setKids n ks) = pid n. Proof. destruct n; reflexivity. Qed.
Lemma pkind_setKids n ks : pkind (setKids n ks) = pkind n. Proof. destruct n; reflexivity. Qed.
Lemma pref_setKids n ks : pref (setKids n ks) = pref n. Proof. destruct n; reflexivity. Qed.
Lemma pkids_setKids n ks : pkids (setKids n ks) = ks. Proof. destruct n; reflexivity. Qed.
Lemma setKids_same n : setKids n (pkids n) = n. Proof. destruct n; reflexivity. Qed.

(* ---------------------------------------------------------------- kinds *)
Lemma cont_cases k : cont k = true -> k = EmphasisKind \/ k = StrongKind \/ k = LinkKind \/ k = ImageKind.
Proof.
  unfold cont. intros H. repeat (apply orb_true_iff in H; destruct H as [H|H]); apply Z.eqb_eq in H; tauto.
Qed.
Lemma cont_phrasing k : cont k = true -> phrasing k = true.
Proof. intros H. destruct (cont_cases k H) as [-> | [-> | [-> | ->]]]; reflexivity. Qed.
Lemma isLI_cont k : isLI k = true -> cont k = true.
Proof. unfold isLI, cont. intros H. apply orb_true_iff in H. destruct H as [H|H]; rewrite H; rewrite ?orb_true_r; reflexivity. Qed.
Lemma cont_notUnparsed k : cont k = true -> negb (k =? UnparsedKind) = true.
Proof. intros H. destruct (cont_cases k H) as [-> | [-> | [-> | ->]]]; reflexivity. Qed.
Lemma phrasing_notLinkPart k : phrasing k = true -> isLinkPart k = false.
Proof.
  unfold phrasing, isLinkPart. intros H.
  destruct (Z.eqb_spec k LinkLabelKind) as [-> |]; [discriminate|].
  destruct (Z.eqb_spec k LinkTitleKind) as [-> |]; [discriminate|].
  destruct (Z.eqb_spec k LinkDestinationKind) as [-> |]; [discriminate|]. reflexivity.
Qed.

(* ---------------------------------------------------------------- forallb helpers *)
Lemma forallb_map_ext {A B} (P : B -> bool) (Q : A -> bool) (f : A -> B) l :
  (forall x, In x l -> P (f x) = Q x) -> forallb P (map f l) = forallb Q l.
Proof.
  induction l as [|x l IH]; intros H; [reflexivity|]. cbn [map forallb].
  rewrite (H x (or_introl eq_refl)). f_equal. apply IH. intros y Hy. apply H. right. exact Hy.
Qed.
Lemma forallb_imp {A} (P Q : A -> bool) l : (forall x, In x l -> P x = true -> Q x = true) -> forallb P l = true -> forallb Q l = true.
Proof.
  intros H Hp. rewrite forallb_forall in *. intros x Hx. apply H; [exact Hx|apply Hp, Hx].
Qed.

(* ---------------------------------------------------------------- zero-identity forests *)
Lemma zid_ids0 l : forallb zid l = true -> forall x, In x (ids l) -> x = 0.
Proof.
  intros H x Hx. unfold ids in Hx. apply in_map_iff in Hx. destruct Hx as (n & <- & Hn).
  rewrite forallb_forall in H. specialize (H n Hn). rewrite zid_eq in H. apply andb_true_iff in H. destruct H as [H _].
  apply Z.eqb_eq in H. exact H.
Qed.

(* updNode, wrapIn, removeId with a nonzero identity do nothing on zero-identity forests *)
Lemma hasId_zid id l : id <> 0 -> forallb zid l = true -> hasId id l = false.
Proof. intros Hid H. apply hasId_false. intros Hi. apply Hid. symmetry. symmetry. apply (zid_ids0 l H id Hi). Qed.

Lemma map_id_in {A} (f : A -> A) l : (forall x, In x l -> f x = x) -> map f l = l.
Proof. induction l as [|x l IH]; intros H; [reflexivity|]. cbn. rewrite (H x (or_introl eq_refl)). f_equal. apply IH. intros y Hy. apply H. right. exact Hy. Qed.

Lemma updNode_zid id g : id <> 0 -> forall fuel l, forallb zid l = true -> updNode fuel id g l = l.
Proof.
  intros Hid. induction fuel as [|f IH]; intros l H; [reflexivity|]. cbn [updNode].
  apply map_id_in. intros n Hn. rewrite forallb_forall in H. specialize (H n Hn). rewrite zid_eq in H.
  apply andb_true_iff in H. destruct H as [H0 Hk]. apply Z.eqb_eq in H0.
  destruct (Z.eqb_spec (pid n) id) as [E|E]; [congruence|]. rewrite (IH _ Hk). apply setKids_same.
Qed.
Lemma wrapIn_zid newId kind id endId es : id <> 0 -> forall fuel pe l, forallb zid l = true ->
  wrapIn fuel newId kind id endId es pe l = l.
Proof.
  intros Hid. induction fuel as [|f IH]; intros pe0 l H; [reflexivity|]. cbn [wrapIn].
  rewrite (hasId_zid id l Hid H).
  apply map_id_in. intros n Hn. rewrite forallb_forall in H. specialize (H n Hn). rewrite zid_eq in H.
  apply andb_true_iff in H. destruct H as [_ Hk]. rewrite (IH _ _ Hk). apply setKids_same.
Qed.
Lemma removeId_zid id : id <> 0 -> forall fuel l, forallb zid l = true -> removeId fuel id l = l.
Proof.
  intros Hid. induction fuel as [|f IH]; intros l H; [reflexivity|]. cbn [removeId].
  rewrite (hasId_zid id l Hid H).
  apply map_id_in. intros n Hn. rewrite forallb_forall in H. specialize (H n Hn). rewrite zid_eq in H.
  apply andb_true_iff in H. destruct H as [_ Hk]. rewrite (IH _ Hk). apply setKids_same.
Qed.

(* ---------------------------------------------------------------- fresh identities *)
Lemma idb_ids b l : forallb (idb b) l = true -> forall x, In x (ids l) -> 0 <= x < b.
Proof.
  intros H x Hx. unfold ids in Hx. apply in_map_iff in Hx. destruct Hx as (n & <- & Hn).
  rewrite forallb_forall in H. specialize (H n Hn). rewrite idb_eq in H.
  apply andb_true_iff in H. destruct H as [H _]. apply andb_true_iff in H. destruct H as [H1 H2].
  apply Z.leb_le in H1. apply Z.ltb_lt in H2. lia.
Qed.
Lemma idb_kids b n : idb b n = true -> forallb (idb b) (pkids n) = true.
Proof. rewrite idb_eq. intros H. apply andb_true_iff in H. tauto. Qed.
Lemma idb_mono b b' : b <= b' -> forall n, idb b n = true -> idb b' n = true.
Proof.
  intros Hb. fix IH 1. intros [id k s e ind r ks] H. cbn [idb] in *.
  apply andb_true_iff in H. destruct H as [H Hk]. apply andb_true_iff in H. destruct H as [H1 H2].
  rewrite H1. apply Z.ltb_lt in H2. replace (id <? b') with true by (symmetry; apply Z.ltb_lt; lia). cbn [andb].
  induction ks as [|x l IHl]; [reflexivity|]. cbn [forallb] in *. apply andb_true_iff in Hk. destruct Hk as [Hx Hl].
  rewrite (IH x Hx). apply IHl, Hl.
Qed.
Lemma idbF_mono b b' l : b <= b' -> forallb (idb b) l = true -> forallb (idb b') l = true.
Proof. intros Hb. apply forallb_imp. intros x _. apply idb_mono, Hb. Qed.

Lemma updNode_fresh b id g : b <= id -> forall fuel l, forallb (idb b) l = true -> updNode fuel id g l = l.
Proof.
  intros Hb. induction fuel as [|f IH]; intros l H; [reflexivity|]. cbn [updNode].
  apply map_id_in. intros n Hn. rewrite forallb_forall in H. specialize (H n Hn).
  pose proof (idb_kids b n H) as Hk. rewrite idb_eq in H.
  apply andb_true_iff in H. destruct H as [H _]. apply andb_true_iff in H. destruct H as [_ H2]. apply Z.ltb_lt in H2.
  destruct (Z.eqb_spec (pid n) id) as [E|E]; [lia|]. rewrite (IH _ Hk). apply setKids_same.
Qed.

(* ---------------------------------------------------------------- erasure *)
Lemma pid_er n : pid (er n) = pid n. Proof. destruct n; reflexivity. Qed.
Lemma pkind_er n : pkind (er n) = pkind n. Proof. destruct n; reflexivity. Qed.
Lemma pref_er n : pref (er n) = pref n. Proof. destruct n; reflexivity. Qed.
Lemma pkids_er n : pkids (er n) = map er (pkids n). Proof. destruct n; reflexivity. Qed.
Lemma ids_er l : ids (map er l) = ids l.
Proof. unfold ids. rewrite map_map. apply map_ext. intros n. apply pid_er. Qed.
Lemma phr_er n : phr (er n) = phr n. Proof. unfold phr. rewrite pkind_er. reflexivity. Qed.

Lemma zid_er : forall n, zid (er n) = zid n.
Proof.
  fix IH 1. intros [id k s e ind r ks]. cbn [er zid]. f_equal.
  induction ks as [|x l IHl]; [reflexivity|]. cbn [map forallb]. rewrite (IH x), IHl. reflexivity.
Qed.
Lemma nl_er : forall n, nl (er n) = nl n.
Proof.
  fix IH 1. intros [id k s e ind r ks]. cbn [er nl]. destruct (k =? LinkKind); [reflexivity|]. destruct (cont k); [|reflexivity].
  induction ks as [|x l IHl]; [reflexivity|]. cbn [map forallb]. rewrite (IH x), IHl. reflexivity.
Qed.
Lemma idb_er b : forall n, idb b (er n) = idb b n.
Proof.
  fix IH 1. intros [id k s e ind r ks]. cbn [er idb]. f_equal.
  induction ks as [|x l IHl]; [reflexivity|]. cbn [map forallb]. rewrite (IH x), IHl. reflexivity.
Qed.
Lemma lvs_er X H : forall n, lvs X H (er n) = lvs X H n.
Proof.
  fix IH 1. intros [id k s e ind r ks]. cbn [er lvs]. destruct (cont k); [|reflexivity].
  rewrite ids_er. f_equal.
  induction ks as [|x l IHl]; [reflexivity|]. cbn [map forallb]. rewrite (IH x), IHl. reflexivity.
Qed.

(* level functions see only identity and kind of the elements, and (monotonically) their nl *)
Definition hd2 (n : pn) : Z * Z := (pid n, pkind n).
Lemma tailShape_hd tw l l' : map hd2 l = map hd2 l' -> tailShape tw l = tailShape tw l'.
Proof.
  intros E. destruct l as [|x [|y [|z l]]], l' as [|x' [|y' [|z' l']]]; cbn in E; try discriminate; try reflexivity.
  - inversion E. cbn. congruence.
  - inversion E. cbn. congruence.
Qed.
Lemma bodyTail_hd tw : forall l l', map hd2 l = map hd2 l' -> bodyTail tw l = bodyTail tw l'.
Proof.
  induction l as [|x l IH]; intros [|x' l'] E; cbn in E; try discriminate; [reflexivity|].
  cbn [bodyTail]. pose proof E as E0. inversion E as [[E1 E2 E4]]. unfold phr. rewrite E2.
  destruct (phrasing (pkind x')); [apply IH; exact E4|].
  apply tailShape_hd. exact E0.
Qed.
Lemma forallb_phr_hd l l' : map hd2 l = map hd2 l' -> forallb phr l = forallb phr l'.
Proof.
  revert l'. induction l as [|x l IH]; intros [|x' l'] E; cbn in E; try discriminate; [reflexivity|].
  inversion E as [[E1 E2 E4]]. cbn [forallb]. unfold phr at 1 3. rewrite E2. f_equal. apply IH, E4.
Qed.
Lemma lvlG_hd tw k rf l l' : map hd2 l = map hd2 l' -> (forallb nl l = true -> forallb nl l' = true) ->
  lvlG tw k rf l = true -> lvlG tw k rf l' = true.
Proof.
  intros E Hn. unfold lvlG. rewrite (bodyTail_hd tw l l' E), (forallb_phr_hd l l' E).
  destruct (isLI k); [|tauto]. intros H. apply andb_true_iff in H. destruct H as [H H3]. rewrite H. cbn [andb].
  destruct (negb (k =? LinkKind)); [reflexivity|]. cbn [orb] in *. apply Hn, H3.
Qed.
Lemma ids_hd l l' : map hd2 l = map hd2 l' -> ids l = ids l'.
Proof.
  revert l'. induction l as [|x l IH]; intros [|x' l'] E; cbn in E; try discriminate; [reflexivity|].
  inversion E as [[E1 E2 E4]]. cbn. f_equal; [exact E1|apply IH, E4].
Qed.
Lemma hd2_er l : map hd2 (map er l) = map hd2 l.
Proof. rewrite map_map. apply map_ext. intros n. unfold hd2. rewrite pid_er, pkind_er. reflexivity. Qed.
Lemma nlF_er l : forallb nl (map er l) = forallb nl l.
Proof. apply forallb_map_ext. intros x _. apply nl_er. Qed.
Lemma lvlG_er tw k rf l : lvlG tw k rf (map er l) = lvlG tw k rf l.
Proof.
  unfold lvlG. rewrite (bodyTail_hd tw _ _ (hd2_er l)), (forallb_phr_hd _ _ (hd2_er l)), nlF_er. reflexivity.
Qed.

Lemma leafKids_er k ks : leafKids k (map er ks) = leafKids k ks.
Proof.
  unfold leafKids. destruct (k =? CodeSpanKind).
  - apply forallb_map_ext. intros x _. rewrite pkind_er. reflexivity.
  - destruct (_ || _ || _ || _).
    + apply forallb_map_ext. intros x _. rewrite pkind_er, pkids_er. unfold len. rewrite map_length. reflexivity.
    + unfold len. rewrite map_length. reflexivity.
Qed.
Lemma gk_er tw : forall n, gk tw (er n) = gk tw n.
Proof.
  fix IH 1. intros [id k s e ind r ks]. cbn [er gk]. f_equal. destruct (cont k).
  - rewrite lvlG_er. f_equal.
    induction ks as [|x l IHl]; [reflexivity|]. cbn [map forallb]. rewrite (IH x), IHl. reflexivity.
  - rewrite leafKids_er. f_equal. apply forallb_map_ext. intros x _. apply zid_er.
Qed.

(* predicates on forests are functions of the erased forest *)
Lemma erF_forallb (P : pn -> bool) : (forall n, P (er n) = P n) -> forall l l', map er l = map er l' -> forallb P l = forallb P l'.
Proof.
  intros HP l l' E. rewrite <- (forallb_map_ext P P er l) by (intros; apply HP).
  rewrite <- (forallb_map_ext P P er l') by (intros; apply HP). rewrite E. reflexivity.
Qed.
Lemma erF_ids l l' : map er l = map er l' -> ids l = ids l'.
Proof. intros E. rewrite <- (ids_er l), <- (ids_er l'), E. reflexivity. Qed.

(* span-only updates do not change the erased forest *)
Lemma updNode_er id g : (forall n, er (g n) = er n) -> forall fuel l, map er (updNode fuel id g l) = map er l.
Proof.
  intros Hg. induction fuel as [|f IH]; intros l; [reflexivity|]. cbn [updNode]. rewrite map_map.
  apply map_ext. intros n. destruct (pid n =? id); [apply Hg|].
  destruct n as [i k s e ind r ks]. cbn [setKids pkids er]. rewrite IH. reflexivity.
Qed.
Lemma er_setSpan n s e : er (setSpan n s e) = er n. Proof. destruct n; reflexivity. Qed.
