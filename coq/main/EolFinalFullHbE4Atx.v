(* T63-F1 (D2).  Copy of En3Atx.v over the invariant EolFinalFullHbE4Tree.en = En3Tree.en plus one clause (lastX): the last entry of a
   PARAGRAPH holds a byte that is not space / tab / line ending, and once the paragraph is closed it ends at the end of the block.
   Changes w.r.t. En3Atx.v: module names; the places that build or use that clause; closing lemmas take "a paragraph is open -> e = lineStart". *)
From Coq Require Import List ZArith Lia Bool.
Import ListNotations.
Require Import Base Recog Rec17 RecBounds.
Require Import ShapesBase EntBase EolFinalFullHbE4Tree.
Open Scope Z_scope.

(* What follows the content of an ATX heading (parseATXHeading line = (level, cs, ce)): the content is empty, or the byte at ce
   is a blank / line ending, or the byte before it is a blank and the byte at ce is a '#' of the closing sequence (the
   escaped-blank case), or ce is the end of a line without line ending. *)
Lemma sptab_stle c : isSpTab c = true -> isSTLEz c.
Proof. unfold isSpTab, isSTLEz. intros H. apply orb_true_iff in H. destruct H as [H|H]; apply Z.eqb_eq in H; lia. Qed.
Lemma eolb_stle c : (c =? 13) || (c =? 10) = true -> isSTLEz c /\ isEOLz c.
Proof. unfold isSTLEz, isEOLz. intros H. apply orb_true_iff in H. destruct H as [H|H]; apply Z.eqb_eq in H; lia. Qed.

Lemma scanBack_tail line start : 0 <= start -> forall fuel e, e <= Z.of_nat fuel -> start <= e ->
  let r := atx_scanBack fuel line start e in
  start <= fst r <= e /\ (fst r < e -> isSTLEz (at_ line (fst r))) /\ (fst r = e -> e <= start \/ ~ isEOLz (at_ line (e - 1))) /\
  (snd r = true -> start < fst r /\ at_ line (fst r - 1) = 35).
Proof.
  intros H0. induction fuel as [|f IH]; intros e Hf He; cbv zeta.
  { cbn [atx_scanBack fst snd]. split; [lia|]. split; [lia|]. split; [intros _; left; lia|discriminate]. }
  cbn [atx_scanBack]. destruct (Z.leb_spec e start) as [L|L].
  { cbn [fst snd]. split; [lia|]. split; [lia|]. split; [intros _; left; lia|discriminate]. }
  cbv zeta.
  assert (Hrec : isSTLEz (at_ line (e - 1)) ->
            let r := atx_scanBack f line start (e - 1) in
            start <= fst r <= e /\ (fst r < e -> isSTLEz (at_ line (fst r))) /\ (fst r = e -> e <= start \/ ~ isEOLz (at_ line (e - 1))) /\
            (snd r = true -> start < fst r /\ at_ line (fst r - 1) = 35)).
  { intros Hc. cbv zeta. destruct (IH (e - 1) ltac:(lia) ltac:(lia)) as (A & B & C & D). split; [lia|]. split; [|split; [intros; lia|exact D]].
    intros _. destruct (Z.eq_dec (fst (atx_scanBack f line start (e - 1))) (e - 1)) as [E|N]; [rewrite E; exact Hc|apply B; lia]. }
  destruct ((at_ line (e - 1) =? 13) || (at_ line (e - 1) =? 10)) eqn:Ee.
  { apply Hrec. exact (proj1 (eolb_stle _ Ee)). }
  destruct (isSpTab (at_ line (e - 1))) eqn:Es.
  { destruct (isEndEscaped _).
    - cbn [fst snd]. split; [lia|]. split; [lia|]. split; [|discriminate]. intros _. right. intros [X|X]; rewrite X in Ee; discriminate.
    - apply Hrec. exact (sptab_stle _ Es). }
  destruct (Z.eqb_spec (at_ line (e - 1)) 35) as [E35|N35]; cbn [fst snd].
  - split; [lia|]. split; [lia|]. split; [|intros _; split; [lia|exact E35]]. intros _. right. intros [X|X]; rewrite X in Ee; discriminate.
  - split; [lia|]. split; [lia|]. split; [|discriminate]. intros _. right. intros [X|X]; rewrite X in Ee; discriminate.
Qed.

Lemma trailing_spec line start : forall fuel i,
  let r := atx_trailing fuel line start i in
  (snd r = 1 -> fst r = start) /\
  (snd r = 2 -> start < fst r <= i + 1 /\ isSpTab (at_ line (fst r - 1)) = true /\ (fst r <= i -> at_ line (fst r) = 35)) /\
  (snd r = 0 \/ snd r = 1 \/ snd r = 2).
Proof.
  induction fuel as [|f IH]; intros i; cbv zeta; [cbn; split; [reflexivity|split; [discriminate|tauto]]|]. cbn [atx_trailing].
  destruct (Z.ltb_spec i start); [cbn; split; [reflexivity|split; [discriminate|tauto]]|]. cbv zeta.
  destruct (Z.eqb_spec (at_ line i) 35) as [E|N].
  - destruct (IH (i - 1)) as (A & B & C). split; [exact A|split; [|exact C]]. intros H2. destruct (B H2) as (B1 & B2 & B3). split; [lia|split; [exact B2|]].
    intros Hle. destruct (Z.eq_dec (fst (atx_trailing f line start (i - 1))) i) as [Eq|Ne]; [rewrite Eq; exact E|apply B3; lia].
  - destruct (isSpTab (at_ line i)) eqn:Es; cbn [fst snd].
    + split; [discriminate|split; [|tauto]]. intros _. split; [lia|]. replace (i + 1 - 1) with i by lia. split; [exact Es|intros; lia].
    + split; [discriminate|split; [discriminate|tauto]].
Qed.

Lemma trim_spec line start : forall fuel e, start <= e ->
  let r := atx_trim fuel line start e in start <= r <= e /\ (r < e -> isSpTab (at_ line r) = true).
Proof.
  induction fuel as [|f IH]; intros e He; cbv zeta; [cbn; split; [lia|intros; lia]|]. cbn [atx_trim].
  destruct (Z.leb_spec e start); [split; [lia|intros; lia]|]. cbv zeta.
  destruct (negb (isSpTab (at_ line (e - 1))) || _) eqn:Ec; [split; [lia|intros; lia]|].
  apply orb_false_iff in Ec. destruct Ec as [Ec _]. apply negb_false_iff in Ec.
  destruct (IH (e - 1) ltac:(lia)) as [A B]. split; [lia|]. intros _.
  destruct (Z.eq_dec (atx_trim f line start (e - 1)) (e - 1)) as [Eq|Ne]; [rewrite Eq; exact Ec|apply B; lia].
Qed.

Lemma atx_tail l lv cs ce : parseATXHeading l = (lv, cs, ce) -> 1 <= lv ->
  cs = ce \/
  (ce < len l /\ (isSTLEz (at_ l ce) \/ (isSTLEz (at_ l (ce - 1)) /\ at_ l ce <> 41))) \/
  (ce = len l /\ ~ isEOLz (at_ l (len l - 1))).
Proof.
  unfold parseATXHeading. cbv zeta. intros H Hlv.
  set (fuel := S (length l)) in H. assert (Hfu : len l <= Z.of_nat fuel) by (unfold fuel, len; lia). clearbody fuel.
  destruct (Rec17.countWhile_spec (fun c => c =? 35) l) as (C1 & _ & _). remember (countWhile (fun c => c =? 35) l) as level eqn:Elv.
  destruct ((level =? 0) || (6 <? level)); [injection H as <- <- <-; lia|].
  destruct ((len l <=? level) || (at_ l level =? 10) || (at_ l level =? 13)); [injection H as <- <- <-; left; reflexivity|].
  destruct (negb (isSpTab (at_ l level))) eqn:Esp; [injection H as <- <- <-; lia|].
  assert (Hlt : level < len l).
  { apply negb_false_iff in Esp. unfold at_ in Esp. destruct (level <? 0); [discriminate|].
    destruct (Z.lt_ge_cases level (len l)); [assumption|]. rewrite nth_overflow in Esp by (unfold len in *; lia). discriminate. }
  destruct (Rec17.countWhile_spec isSpTab (from_ l (level + 1))) as (D1 & _ & _). rewrite Rec17.len_from in D1 by lia.
  remember (countWhile isSpTab (from_ l (level + 1))) as k eqn:Ek. remember (level + 1 + k) as start eqn:Est.
  assert (Hst : 0 <= start <= len l) by lia.
  pose proof (scanBack_tail l start ltac:(lia) fuel (len l) ltac:(lia) ltac:(lia)) as S1. cbv zeta in S1.
  destruct (atx_scanBack fuel l start (len l)) as [e1 hit]. cbn [fst snd] in S1. destruct S1 as (A & B & C & D).
  assert (T1 : start = e1 \/ (e1 < len l /\ isSTLEz (at_ l e1)) \/ (e1 = len l /\ ~ isEOLz (at_ l (len l - 1)))).
  { destruct (Z.eq_dec e1 (len l)) as [E|N]; [|right; left; split; [lia|apply B; lia]].
    destruct (C E) as [X|X]; [left; lia|right; right; split; [exact E|exact X]]. }
  assert (Fin1 : start = e1 \/ (e1 < len l /\ (isSTLEz (at_ l e1) \/ (isSTLEz (at_ l (e1 - 1)) /\ at_ l e1 <> 41))) \/ (e1 = len l /\ ~ isEOLz (at_ l (len l - 1))))
    by (destruct T1 as [X|[[X1 X2]|X]]; [left; exact X|right; left; split; [exact X1|left; exact X2]|right; right; exact X]).
  destruct hit; cbn [negb] in H; [|injection H as <- <- <-; exact Fin1].
  destruct (D eq_refl) as [D1' D2'].
  pose proof (trailing_spec l start fuel (e1 - 1)) as T2. cbv zeta in T2.
  destruct (atx_trailing fuel l start (e1 - 1)) as [e2 mode]. cbn [fst snd] in T2. destruct T2 as (M1 & M2 & M3).
  destruct (Z.eqb_spec mode 0) as [E0|N0]; [injection H as <- <- <-; exact Fin1|].
  injection H as <- <- <-.
  destruct M3 as [X|[X|X]]; [contradiction| |].
  - rewrite (M1 X). left. destruct (trim_spec l start fuel start ltac:(lia)) as [R1 _]. cbv zeta in R1. apply Z.le_antisymm; apply R1.
  - destruct (M2 X) as (N1 & N2 & N3).
    assert (Hlt2 : e2 <= e1 - 1).
    { destruct (Z.eq_dec e2 e1) as [Eq|Ne]; [|lia]. rewrite Eq, D2' in N2. discriminate. }
    destruct (trim_spec l start fuel e2 ltac:(lia)) as [R1 R2]. cbv zeta in R1, R2.
    set (r := atx_trim fuel l start e2) in *.
    destruct (Z.eq_dec r e2) as [Eq|Ne].
    + right. left. split; [lia|]. right. rewrite Eq. split; [apply sptab_stle, N2|rewrite (N3 ltac:(lia)); discriminate].
    + right. left. split; [lia|]. left. apply sptab_stle, R2. lia.
Qed.
