(* T63-F1 (D2).  Copy of En3LP8.v over the invariant EolFinalFullHbE4Tree.en = En3Tree.en plus one clause (lastX): the last entry of a
   PARAGRAPH holds a byte that is not space / tab / line ending, and once the paragraph is closed it ends at the end of the block.
   Changes w.r.t. En3LP8.v: module names; the places that build or use that clause; closing lemmas take "a paragraph is open -> e = lineStart". *)
From Coq Require Import List ZArith Lia Bool.
Import ListNotations.
Require Import Base Tree Rdr Link Collect Html Recog LP Rules Starts Driver L2Kind L2CC BSDef BSRdr BSTree BSOcp BSOrph BSClose BSLine1 BSLine2 BSLine3 BSLine4 BSLine5 BSLine7 BSLine8 BSErase BSLine9 BSLine10
  GramTree GramLP GramLP2 Cursor CursorX NoPanic12 Rec16 ShDef ShRdr ShClose ShEnv ShLine1 ShLine2 ShFresh ShStarts2.
Require L2Kind2.
Require Import ShapesBase EntBase EntOcpDefs EntOcp EolFinalFullHbE4Tree EntCur EolFinalFullHbE4Par EolFinalFullHbE4LP1 EolFinalFullHbE4LP2 EolFinalFullHbE4LP3 EolFinalFullHbE4LP4 EolFinalFullHbE4LP5 EolFinalFullHbE4LP6 EolFinalFullHbE4LP7.
Open Scope Z_scope.

(* En3* (T46): at the end of the line the invariant is read against the start of the NEXT line: either the open paragraph got
   the text of this line (EolFinalFullHbE4LP7.text_para / text_new, exactness of its last entry), or no paragraph is open (en_quiet). *)

(* ================================================================================================
   T28, part 11: one line.  B is the whole buffer, [ls, H) the line being processed.
   ================================================================================================ *)
Lemma en_kids B M r : en B M r -> allP (en B M) (bkids r).
Proof. rewrite en_eq. tauto. Qed.

Theorem ent_processLine B H st children ls :
  0 <= ls -> ls <= H -> H <= len B -> (ls = 0 \/ isEOLz (at_ B (ls - 1)) \/ ls = len B) -> lineOK B ls H ->
  ccF children = true -> kidsOK ls children -> allP (en B ls) children -> closedL (removelast children) ->
  allP (en B H) (fst (fst (processLine st children ls (upto B H)))) /\
  closedL (removelast (fst (fst (processLine st children ls (upto B H))))).
Proof.
  intros Hls HlH HB Hprev Hline Hcc [Ha Hch] Hen Hrl. unfold processLine. cbv zeta.
  set (src := upto B H).
  assert (Hsl : len src = H) by (unfold src; rewrite ShapesBase.len_upto; lia).
  assert (Hll : len (from_ src ls) = H - ls) by (rewrite ShapesBase.len_from by lia; lia).
  set (p0 := resetLP st children ls src).
  assert (Hroot : sp ls (root p0)).
  { cbn [p0 resetLP root sp]. repeat split; try lia; try discriminate; assumption. }
  assert (HB0 : BP p0).
  { split; [split; [exact Hls|cbn [p0 resetLP li line]; lia]|]. split; [unfold Mc; cbn [p0 resetLP li lineStart]; replace (ls + 0) with ls by lia; exact Hroot|]. split.
    - intros j x Hj Ex. change (cdepth p0) with O in Hj. replace j with O in Ex by lia. cbn in Ex. inversion Ex; subst x. cbn. lia.
    - unfold ccP, wf, cdepth. cbn [p0 resetLP root container]. split; [reflexivity|split; [exact Hcc|eexists; reflexivity]]. }
  assert (HE0 : EP B p0).
  { split; [|split; [|split; [apply HB0|split; [split|]]]].
    - unfold envB. cbn [p0 resetLP source lineStart line]. rewrite Hll. replace (ls + (H - ls)) with H by lia.
      split; [reflexivity|]. split; [reflexivity|]. split; [lia|]. split; [lia|]. split; [exact Hprev|exact Hline].
    - split; [exact Hls|cbn [p0 resetLP li line]; lia].
    - split; [cbn [p0 resetLP li]; lia|]. cbn [p0 resetLP li line tabRem col]. intros Hl Ha'. apply computeTabRem_spec; [lia|exact Hl|exact Ha'].
    - apply HB0.
    - cbn [p0 resetLP root lineStart en]. split; [|exact Hen]. apply ikOK_free; [repeat split; discriminate|intros; lia|intros _; apply noU_nil|intros; lia|exact Hrl|apply xk_nil]. }
  assert (Hc0 : clean p0) by (intros i Hi; cbn [p0 resetLP li] in Hi; lia).
  assert (Hn0 : paraNB p0) by (intros E; cbn in E; discriminate).
  assert (Hfin : forall r, en B H r -> allP (en B H) (bkids r) /\ closedL (removelast (bkids r))).
  { intros r Hr. split; [apply en_kids, Hr|apply (en_kids_struct B H r Hr)]. }
  destruct (descend_ent B (bheight (root p0)) p0 O HE0 Hc0 eq_refl Hn0) as [D1 D2].
  { intros x Ex. cbn [getAt] in Ex. injection Ex as <-. apply Nat.le_refl. }
  { intros _ E. cbn in E. discriminate. }
  pose proof (env_descend_loop (bheight (root p0)) p0 O) as De.
  fold (descendOpenBlocks p0) in D1, D2, De. destruct (descendOpenBlocks p0) as [am p1]. cbn [fst snd] in D1, D2, De.
  assert (E1 : lineStart p1 = ls /\ line p1 = from_ src ls).
  { destruct (env_parts _ _ De) as (_ & X1 & X2). rewrite X1, X2. split; reflexivity. }
  destruct E1 as [E1 E1'].
  assert (HM : ls <= H) by lia.
  destruct (Z.eqb_spec (state p1) stDescendTerminated) as [Et|Et]; cbn [negb].
  { cbn [fst]. apply Hfin. assert (D2' : ~ ppT (root p1)) by (destruct D2 as [[_ D2]|(_ & _ & _ & _ & D2)]; [exact D2|apply D2, Et]).
    destruct D1 as (_ & _ & _ & _ & X). rewrite E1 in X. apply (en_quiet B ls H (root p1) HM X D2'). }
  destruct D2 as [[D2 _]|(D2 & D3 & D4 & D5 & _)]; [contradiction|].
  destruct (openNewBlocks_ent B p1 am D1 D2 D4 D5) as (N1 & N2 & N3).
  pose proof (L2Kind2.openNewBlocks_good p1 am) as NG.
  pose proof (env_openNewBlocks p1 am) as Ne.
  destruct (openNewBlocks p1 am) as [ht p2]. cbn [fst snd] in *.
  assert (E2 : lineStart p2 = ls /\ line p2 = from_ src ls).
  { destruct (env_parts _ _ Ne) as (_ & X1 & X2). rewrite X1, X2. tauto. }
  destruct E2 as [E2 E2'].
  destruct ht.
  - destruct (N2 eq_refl) as (X1 & X2 & X3).
    pose proof (addLineText_ent B p2 X1 X2 X3 (NG eq_refl)) as Hf. rewrite E2, E2', Hll in Hf. replace (ls + (H - ls)) with H in Hf by lia.
    apply Hfin, Hf.
  - rewrite E1 in N1. apply Hfin. apply (en_quiet B ls H (root p2) HM N1 (N3 eq_refl)).
Qed.
