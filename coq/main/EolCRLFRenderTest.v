From Coq Require Import List ZArith Lia Bool String Ascii.
Import ListNotations.
Require Import Base Tree Driver Inl3e Render BSTest EolCRLFDefs EolCRLFRenderDefs EolCRRenderTest EolCRRenderTest3 EolCRLFFullTest.
Open Scope Z_scope.

(* ====================================================================================================
   C14, CRLF clause, renderer: experiments (vm_compute) that fix the exact statement before proving it.
   EolCRLFRenderDefs.RCb a b : b is a with a CR inserted before some of the LF bytes of a (decides RC: EolCRLFRender.RCb_sound / RCb_complete);
   normCrlf deletes every CR that is followed by LF, delCR deletes every CR.
   Documents: the 23 + 5 documents of the CR-clause renderer tests, the 39 documents of EolCRLFFullTest, and 5 documents whose
   attribute values receive CR / LF bytes from numeric character references.  Configurations: softBreak 0 / 1 / 2, ignoreRaw,
   filterOn (one tag / every tag), safe mode (ignoreRaw and filterOn).
   ==================================================================================================== *)
Definition beq (a b : bytes) : bool := EolBounded.beqL Z.eqb a b.

Definition c4 := {| softBreak := 0; ignoreRaw := true; filterOn := true; filterP := fun n => Utf8.bytes_eqb n [115;99;114;105;112;116] |}.
Definition c5 := {| softBreak := 0; ignoreRaw := false; filterOn := true; filterP := fun _ => true |}.
Definition cfgs6 := [c0;c1;c2;c3;c4;c5].
Definition tstC (d : bytes) : list bool := map (fun c => RCb (renderDoc c d) (renderDoc c (crlf d))) cfgs6.
Definition tstN (d : bytes) : list bool := map (fun c => beq (normCrlf (renderDoc c (crlf d))) (normCrlf (renderDoc c d))) cfgs6.
Definition tstN1 (d : bytes) : list bool := map (fun c => beq (normCrlf (renderDoc c (crlf d))) (renderDoc c d)) cfgs6.
Definition tstD (d : bytes) : list bool := map (fun c => beq (delCR (renderDoc c (crlf d))) (delCR (renderDoc c d))) cfgs6.
Definition hasCR (d : bytes) : list bool := map (fun c => existsb (Z.eqb 13) (renderDoc c d)) cfgs6.
(* number of CR inserted *)
Definition ins (d : bytes) : list Z := map (fun c => len (renderDoc c (crlf d)) - len (renderDoc c d)) cfgs6.
Definition okIn (d : bytes) : bool := nocr d && lim d.

Open Scope string_scope.
(* entities that decode to CR / LF inside attribute values *)
Definition f1 := bs ("[x](/u ""a&#13;" ++ nl ++ "b"") [y](/v 'c&#13;&#10;d" ++ nl ++ "e')" ++ nl).
Definition f2 := bs ("[r]: /u 'a&#13;" ++ nl ++ "b'" ++ nl ++ nl ++ "[r] ![i" ++ nl ++ "j][r]" ++ nl).
Definition f3 := bs ("~~~ a&#13;b" ++ nl ++ "x" ++ nl ++ "~~~" ++ nl ++ "``` &#10;z q" ++ nl ++ "```" ++ nl).
Definition f4 := bs ("&#13;" ++ nl ++ "text &#xD;" ++ nl ++ "<a title=""&#13;" ++ nl ++ """>" ++ nl).
Definition f5 := bs ("<a@b.c> <http://x/&#13;> [l](/d&#13;e)" ++ nl).
Definition fdocs := [f1;f2;f3;f4;f5]%list.
Definition rdocs := (docs ++ [e1;e2;e3;e4;e5] ++ allDocs)%list.
Close Scope string_scope.

Eval vm_compute in map okIn rdocs.
Eval vm_compute in map okIn fdocs.
Eval vm_compute in map tstC rdocs.
Eval vm_compute in map tstC fdocs.
Eval vm_compute in map ins rdocs.
Eval vm_compute in map tstN rdocs.
Eval vm_compute in map tstN fdocs.
Eval vm_compute in map tstN1 fdocs.
Eval vm_compute in map tstD fdocs.
Eval vm_compute in map hasCR fdocs.
Eval vm_compute in map hasCR rdocs.

(* recorded outcomes *)
Definition alld := (rdocs ++ fdocs)%list.
Lemma alld_hyp : forallb okIn alld = true. Proof. vm_compute. reflexivity. Qed.
Lemma renderDoc_crlf_tested : forallb (fun d => forallb (fun b => b) (tstC d)) alld = true. Proof. vm_compute. reflexivity. Qed.
Lemma renderDoc_crlf_delCR_tested : forallb (fun d => forallb (fun b => b) (tstD d)) alld = true. Proof. vm_compute. reflexivity. Qed.
(* normCrlf on both sides: true on all of rdocs, false on f1 and f2 (a decoded CR in front of a copied line ending) *)
Lemma normCrlf_rdocs_tested : forallb (fun d => forallb (fun b => b) (tstN d)) rdocs = true. Proof. vm_compute. reflexivity. Qed.
Lemma normCrlf_fdocs_outcome : map (fun d => forallb (fun b => b) (tstN d)) fdocs = [false; false; true; true; true]. Proof. vm_compute. reflexivity. Qed.
(* the outputs really differ: number of CR inserted in the default configuration *)
Eval vm_compute in map (fun d => len (renderDoc c0 (crlf d)) - len (renderDoc c0 d)) alld.
Print Assumptions renderDoc_crlf_tested.
