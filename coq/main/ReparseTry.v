From Coq Require Import List ZArith Lia Bool.
Import ListNotations.
Require Import Base Tree Rdr Link Collect Html Recog LP Rules Starts Driver L2Kind2 L2CC GramTree GramLP GramLP2 TDefs TOcp StreamFuel BSLine1
  ReparseSwap ReparseOpen ReparseStarts.
Open Scope Z_scope.

(* T50 continuation, file 4: one pass of tryStarts on p and on sw p. *)
Lemma withState_self p : withState p (state p) = p. Proof. destruct p; reflexivity. Qed.
Lemma ts_noop f r p : state p = stOpening -> f p = p -> tryStarts (f :: r) p = tryStarts r p.
Proof.
  intros Hs Hf. assert (E : withState p stOpening = p) by (rewrite <- Hs; apply withState_self).
  cbn [tryStarts]. cbv zeta. rewrite E, Hf, Hs. reflexivity.
Qed.
Lemma ts_same f r p q : f (withState q stOpening) = f (withState p stOpening) -> tryStarts (f :: r) q = tryStarts (f :: r) p.
Proof. intros H. cbn [tryStarts]. cbv zeta. rewrite H. reflexivity. Qed.
Lemma ts_nil p : tryStarts [] p = (false, p). Proof. reflexivity. Qed.

Definition retag (level : Z) (b : block) : block := set_bn (set_bkind b SetextHeadingKind) level.
Lemma startSetext_cases p : containerKind p = ParagraphKind ->
  startSetext p = p \/ exists level, startSetext p = endBlock (consumeLine (updCont p (retag level))).
Proof.
  intros Hk. unfold startSetext. rewrite Hk. change (ParagraphKind =? ParagraphKind) with true. cbn [negb]. cbv zeta.
  destruct (codeBlockIndentLimit <=? indent p); [left; reflexivity|].
  destruct (parseSetextHeadingUnderline (bytesAfterIndent p) =? 0); [left; reflexivity|].
  destruct (negb (containerHasParagraphContent p)); [left; reflexivity|]. right. eexists. reflexivity.
Qed.

(* a '<' line on which the HTML start was refused: no later start fires *)
Lemma excl_html p : htmlBlocked p -> startSetext p = p /\ startThematic p = p /\ startListItem p = p /\ startIndented p = p.
Proof.
  intros (_ & Hi & Hp & _). destruct (prefix60 _ Hp) as [r Er].
  assert (Hi' : (codeBlockIndentLimit <=? indent p) = false) by (apply Z.leb_gt; exact Hi).
  repeat split.
  - unfold startSetext. destruct (negb (containerKind p =? ParagraphKind)); [reflexivity|]. cbv zeta. rewrite Hi', Er, setext60. reflexivity.
  - unfold startThematic. cbv zeta. rewrite Hi', Er, thematic60. reflexivity.
  - unfold startListItem. cbv zeta. rewrite Hi', Er, marker60. reflexivity.
  - unfold startIndented. replace (indent p <? codeBlockIndentLimit) with true by (symmetry; apply Z.ltb_lt; exact Hi). reflexivity.
Qed.
Lemma excl_item p : itemBlocked p -> startIndented p = p.
Proof.
  intros (_ & _ & Hi). unfold startIndented. replace (indent p <? codeBlockIndentLimit) with true by (symmetry; apply Z.ltb_lt; exact Hi). reflexivity.
Qed.

Section Try.
  Variables (src : bytes) (T : Z) (c : block) (L : list block).
  Hypothesis HL : L = closeBlock (bheight (root0 [c])) src c T.
  Hypothesis Lne : L <> [].
  Hypothesis Lcl : Forall closedB L.
  Notation RO := (ReparseOpen.RO src T c).
  Notation sw := (ReparseOpen.sw L).
  Notation scen := (ReparseStarts.scen c).

  (* no start fired on p although one may fire on sw p: the line continues a paragraph *)
  Definition blockedP (p : lp) : Prop :=
    containerKind p = ParagraphKind \/ (tipKind p = ParagraphKind /\ isRestBlank p = false).

  Inductive TSres (p0 : lp) : Prop :=
  | TSsame : tryStarts blockStarts (sw p0) = tryStarts blockStarts p0 -> TSres p0
  | TSnone : tryStarts blockStarts p0 = (false, p0) -> tryStarts blockStarts (sw p0) = (false, sw p0) -> TSres p0
  | TSblocked : tryStarts blockStarts p0 = (false, p0) -> blockedP p0 -> TSres p0
  | TSsetext level : containerKind p0 = ParagraphKind ->
      tryStarts blockStarts p0 = tryStarts [startSetext; startThematic; startListItem; startIndented] p0 ->
      startSetext p0 = endBlock (consumeLine (updCont p0 (retag level))) -> TSres p0
  | TSitem : itemTouch p0 -> tryStarts blockStarts p0 = tryStarts [startListItem; startIndented] p0 -> TSres p0.

  Lemma blank_not60 p : hasBytePrefix (bytesAfterIndent p) [60] = true -> isRestBlank p = false.
  Proof.
    intros H. destruct (prefix60 _ H) as [r Er]. clear H. unfold isRestBlank, bytesAfterIndent in *.
    induction (rest p) as [|x l IH]; [discriminate|]. cbn [trimLeftSpTab] in Er. unfold isBlankLine. cbn [forallb].
    destruct (isSpTab x) eqn:Ex.
    - specialize (IH Er). unfold isBlankLine in IH. rewrite IH. apply andb_false_r.
    - inversion Er; subst. reflexivity.
  Qed.

  Lemma tryStarts_sim d p0 : RO d p0 -> state p0 = stOpening -> scen d ->
    (containerKind p0 = documentKind \/ containerKind p0 = ParagraphKind \/ containerKind p0 = ListKind) -> TSres p0.
  Proof.
    intros HR Hst Hd Hck.
    assert (Hso : st_open p0) by (left; exact Hst).
    assert (Hst' : state (sw p0) = stOpening) by exact Hst.
    assert (WS : withState p0 stOpening = p0) by (rewrite <- Hst; apply withState_self).
    assert (WS' : withState (sw p0) stOpening = sw p0) by (rewrite <- Hst'; apply withState_self).
    unfold blockStarts.
    (* block quote *)
    destruct (sim_BQ src T c L HL Lne Lcl d p0 HR Hso Hd) as [[A1 B1]|E1].
    2:{ apply TSsame; unfold blockStarts. apply ts_same. rewrite WS, WS'. exact E1. }
    (* ATX *)
    destruct (sim_ATX src T c L HL Lne Lcl d p0 HR Hso Hd) as [[A2 B2]|E2].
    2:{ apply TSsame; unfold blockStarts. rewrite (ts_noop _ _ p0 Hst A1), (ts_noop _ _ (sw p0) Hst' B1).
        apply ts_same. rewrite WS, WS'. exact E2. }
    (* fenced *)
    destruct (sim_Fenced src T c L HL Lne Lcl d p0 HR Hso Hd) as [[A3 B3]|E3].
    2:{ apply TSsame; unfold blockStarts. rewrite (ts_noop _ _ p0 Hst A1), (ts_noop _ _ (sw p0) Hst' B1), (ts_noop _ _ p0 Hst A2), (ts_noop _ _ (sw p0) Hst' B2).
        apply ts_same. rewrite WS, WS'. exact E3. }
    (* HTML *)
    destruct (sim_HTML src T c L HL Lne Lcl d p0 HR Hso Hd) as [[A4 B4]|[E4|X4]].
    2:{ apply TSsame; unfold blockStarts. rewrite (ts_noop _ _ p0 Hst A1), (ts_noop _ _ (sw p0) Hst' B1), (ts_noop _ _ p0 Hst A2), (ts_noop _ _ (sw p0) Hst' B2),
          (ts_noop _ _ p0 Hst A3), (ts_noop _ _ (sw p0) Hst' B3).
        apply ts_same. rewrite WS, WS'. exact E4. }
    2:{ destruct (excl_html p0 X4) as (X5 & X6 & X7 & X8). destruct X4 as (A4 & Hi & Hp & Hk).
        apply TSblocked.
        - unfold blockStarts. rewrite (ts_noop _ _ p0 Hst A1), (ts_noop _ _ p0 Hst A2), (ts_noop _ _ p0 Hst A3), (ts_noop _ _ p0 Hst A4),
            (ts_noop _ _ p0 Hst X5), (ts_noop _ _ p0 Hst X6), (ts_noop _ _ p0 Hst X7), (ts_noop _ _ p0 Hst X8). reflexivity.
        - destruct Hk as [Hk|Hk]; [left; exact Hk|right; split; [exact Hk|apply blank_not60, Hp]]. }
    assert (Pre4 : tryStarts [startBlockQuote; startATX; startFenced; startHTML; startSetext; startThematic; startListItem; startIndented] p0 =
                   tryStarts [startSetext; startThematic; startListItem; startIndented] p0).
    { rewrite (ts_noop _ _ p0 Hst A1), (ts_noop _ _ p0 Hst A2), (ts_noop _ _ p0 Hst A3), (ts_noop _ _ p0 Hst A4). reflexivity. }
    assert (Pre4' : tryStarts [startBlockQuote; startATX; startFenced; startHTML; startSetext; startThematic; startListItem; startIndented] (sw p0) =
                   tryStarts [startThematic; startListItem; startIndented] (sw p0)).
    { rewrite (ts_noop _ _ (sw p0) Hst' B1), (ts_noop _ _ (sw p0) Hst' B2), (ts_noop _ _ (sw p0) Hst' B3), (ts_noop _ _ (sw p0) Hst' B4),
        (ts_noop _ _ (sw p0) Hst' (sim_Setext_sw L p0)). reflexivity. }
    (* setext *)
    assert (HS : startSetext p0 = p0 \/ exists level, containerKind p0 = ParagraphKind /\ startSetext p0 = endBlock (consumeLine (updCont p0 (retag level)))).
    { destruct (Z.eq_dec (containerKind p0) ParagraphKind) as [Ek|Nk].
      - destruct (startSetext_cases p0 Ek) as [H|[lv H]]; [left; exact H|right; exists lv; split; assumption].
      - left. apply (sim_Setext_np L p0 Nk). }
    destruct HS as [A5|(lv & Ek & E5)].
    2:{ apply (TSsetext p0 lv Ek); [unfold blockStarts; exact Pre4|exact E5]. }
    (* thematic break *)
    destruct (sim_Thematic src T c L HL Lne Lcl d p0 HR Hso Hd) as [[A6 B6]|E6].
    2:{ apply TSsame; unfold blockStarts. rewrite Pre4, Pre4', (ts_noop _ _ p0 Hst A5).
        apply ts_same. rewrite WS, WS'. exact E6. }
    (* list item *)
    destruct (sim_ListItem src T c L HL Lne Lcl d p0 HR Hso Hd Hck) as [[A7 B7]|[E7|[X7|X7]]].
    2:{ apply TSsame; unfold blockStarts. rewrite Pre4, Pre4', (ts_noop _ _ p0 Hst A5), (ts_noop _ _ p0 Hst A6), (ts_noop _ _ (sw p0) Hst' B6).
        apply ts_same. rewrite WS, WS'. exact E7. }
    2:{ pose proof (excl_item p0 X7) as X8. destruct X7 as (A7 & Hk & _). apply TSblocked; [|left; exact Hk]. unfold blockStarts.
        rewrite Pre4, (ts_noop _ _ p0 Hst A5), (ts_noop _ _ p0 Hst A6), (ts_noop _ _ p0 Hst A7), (ts_noop _ _ p0 Hst X8). reflexivity. }
    2:{ apply (TSitem p0 X7). unfold blockStarts. rewrite Pre4, (ts_noop _ _ p0 Hst A5), (ts_noop _ _ p0 Hst A6). reflexivity. }
    (* indented code *)
    destruct (sim_Indented src T c L HL Lne Lcl d p0 HR Hso Hd) as [[A8 B8]|[E8|X8]].
    - apply TSnone; unfold blockStarts.
      + rewrite Pre4, (ts_noop _ _ p0 Hst A5), (ts_noop _ _ p0 Hst A6), (ts_noop _ _ p0 Hst A7), (ts_noop _ _ p0 Hst A8). reflexivity.
      + rewrite Pre4', (ts_noop _ _ (sw p0) Hst' B6), (ts_noop _ _ (sw p0) Hst' B7), (ts_noop _ _ (sw p0) Hst' B8). reflexivity.
    - apply TSsame; unfold blockStarts. rewrite Pre4, Pre4', (ts_noop _ _ p0 Hst A5), (ts_noop _ _ p0 Hst A6), (ts_noop _ _ (sw p0) Hst' B6),
        (ts_noop _ _ p0 Hst A7), (ts_noop _ _ (sw p0) Hst' B7).
      apply ts_same. rewrite WS, WS'. exact E8.
    - destruct X8 as (A8 & Hb & Ht). apply TSblocked; [|right; split; assumption]. unfold blockStarts.
      rewrite Pre4, (ts_noop _ _ p0 Hst A5), (ts_noop _ _ p0 Hst A6), (ts_noop _ _ p0 Hst A7), (ts_noop _ _ p0 Hst A8). reflexivity.
  Qed.
End Try.
