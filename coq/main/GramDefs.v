From Coq Require Import List ZArith Lia Bool.
Import ListNotations.
Require Import Base Tree Rdr Link Collect Html Recog LP Rules Starts Driver Render.
Open Scope Z_scope.

(* ---- the public checker: block-level clauses (a)-(f) of the node grammar (Props.gramB) ---- *)
Definition nilb {A} (l : list A) : bool := match l with [] => true | _ :: _ => false end.
Definition refIk (ik : list inline) : bool :=
  match ik with
  | [l; d] => (ikind l =? LinkLabelKind) && (ikind d =? LinkDestinationKind)
  | [l; d; t] => (ikind l =? LinkLabelKind) && (ikind d =? LinkDestinationKind) && (ikind t =? LinkTitleKind)
  | _ => false
  end.
Definition notMarkerItem (c : block) : bool := negb ((bkind c =? ListMarkerKind) || (bkind c =? ListItemKind)).
Definition itemKids (bk : list block) : bool :=
  match bk with m :: rest => (bkind m =? ListMarkerKind) && forallb notMarkerItem rest | [] => false end.

Definition gramLoc (b : block) : bool :=
  let k := bkind b in
  if k =? ListItemKind then itemKids (bkids b)                                                      (* (a) *)
  else if (k =? ListMarkerKind) || (k =? ThematicBreakKind) then nilb (bkids b) && nilb (bik b)     (* (b) *)
  else if k =? LinkReferenceDefinitionKind then nilb (bkids b) && refIk (bik b)                     (* (c) *)
  else if k =? ListKind then
    forallb (fun c => Bool.eqb (isOrdered c) (isOrdered b)) (bkids b) &&                            (* (d) *)
    (if isOpen b then true else forallb (fun c => Bool.eqb (isTightList c) (isTightList b)) (bkids b))   (* (e), closed lists *)
  else if k =? ATXHeadingKind then (1 <=? bn b) && (bn b <=? 6)                                     (* (f) *)
  else if k =? SetextHeadingKind then (1 <=? bn b) && (bn b <=? 2)
  else true.

Fixpoint gramBlocks (b : block) : bool :=
  match b with Blk k s e bk ik a n c l lb => gramLoc (Blk k s e bk ik a n c l lb) && forallb gramBlocks bk end.

(* ---- the invariant carried through the line machine.  Stronger than gramBlocks: the children of a list are list
   items with exactly the list's delimiter; a list that is not loose has no loose item (open or closed); a loose list
   that is closed has only loose items. ---- *)
Definition gbLocK (K : Z) (ks : list block) (ik : list inline) (op : bool) (n ch : Z) (lo : bool) : bool :=
  if K =? ListItemKind then itemKids ks
  else if (K =? ListMarkerKind) || (K =? ThematicBreakKind) then nilb ks && nilb ik
  else if K =? LinkReferenceDefinitionKind then nilb ks && refIk ik
  else if K =? ListKind then
    forallb (fun c => (bkind c =? ListItemKind) && (bchar c =? ch)) ks &&
    (if lo then op || forallb bloose ks else forallb (fun c => negb (bloose c)) ks)
  else if K =? ATXHeadingKind then (1 <=? n) && (n <=? 6)
  else if K =? SetextHeadingKind then (1 <=? n) && (n <=? 2)
  else true.
Definition gbLoc (b : block) : bool := gbLocK (bkind b) (bkids b) (bik b) (isOpen b) (bn b) (bchar b) (bloose b).
Fixpoint gb (b : block) : bool :=
  match b with Blk k s e bk ik a n c l lb => gbLoc (Blk k s e bk ik a n c l lb) && forallb gb bk end.
Definition gbL (l : list block) : bool := forallb gb l.
