From Coq Require Import List ZArith Lia Bool.
Import ListNotations.
Require Import LADef LAPad ShDef BSTree.
Require Import Base Tree Rdr Link Collect Html Recog LP Rules Starts Driver Rec16 Rec17 Rec18 L2CC L2BndS StreamFuel LA11 LA13
  EolCRDefs EolCRBytes EolCRLFDefs EolCRLFSimBytes EolCRLFSimTree EolCRLFSimLeDefs EolCRLFSimStream EolCRLFSimLP EolCRLFSimRun
  EolCRLFGenHyp EolCRLFGenLP EolCRLFGenLine.
Require EntBase EntTree.
Open Scope Z_scope.

(* C14 (ii), CRLF clause, inputs WITH '[': the stream layer (generalisation of EolCRLFSimRun.v). *)
Section GenRun.
  Context {O : OcpHyp}.

  (* T28's entry invariant gives the entry predicate for every block *)
  Lemma en_peB B ls bi0 : 0 <= ls -> ls <= bi0 -> bi0 <= len B -> forall b, EntTree.en B ls b -> leB ls b = true -> peB O (upto B bi0) true b.
  Proof.
    intros H0 Hl Hb. fix IH 1. intros [K s e bk ik a n c l lb] H Hle. cbn [EntTree.en] in H. destruct H as ((Hps & _ & Hns & _) & Hkids).
    cbn [leB] in Hle. apply andb_true_iff in Hle. destruct Hle as [Hle Hlk]. apply andb_true_iff in Hle. destruct Hle as [Hle _].
    apply andb_true_iff in Hle. destruct Hle as [_ Hee]. apply Z.leb_le in Hee.
    split.
    - split; [intros Ho _; apply Hns, Ho|]. intros Hp. cbn [bkind bik] in Hp |- *.
      assert (HPS : EntTree.isPS K).
      { unfold isParaK in Hp. apply orb_true_iff in Hp. destruct Hp as [Hp|Hp]; apply Z.eqb_eq in Hp; [left|right]; exact Hp. }
      destruct (Hps HPS) as (Hli & _).
      assert (Hbd : EntTree.bound ls e <= ls) by (unfold EntTree.bound; destruct (Z.ltb_spec e 0); lia).
      assert (Hlu : len (upto B bi0) = bi0) by (apply len_upto; lia).
      apply (PEc_lines O (upto B bi0) (EntTree.bound ls e) ik); [|lia].
      apply (EntBase.lines_agree B (upto B bi0) bi0); [apply EntBase.agreeTo_upto, Hb|lia|exact Hlu|exact Hb|exact Hli].
    - clear Hps Hns. induction bk as [|x r IHr]; [exact I|]. destruct Hkids as [A B0]. cbn [forallb] in Hlk. apply andb_true_iff in Hlk. destruct Hlk as [L1 L2].
      split; [apply IH; assumption|apply IHr; assumption].
  Qed.
  Lemma en_peL B ls bi0 ch : 0 <= ls -> ls <= bi0 -> bi0 <= len B -> allP (EntTree.en B ls) ch -> leL ls ch = true -> allQ (peB O (upto B bi0) true) ch.
  Proof.
    intros H0 Hl Hb. induction ch as [|x r IH]; intros H Hle; [exact I|]. destruct H as [A B0]. cbn [leL forallb] in Hle. apply andb_true_iff in Hle. destruct Hle as [L1 L2].
    split; [apply (en_peB B ls bi0 H0 Hl Hb); assumption|apply IH; assumption].
  Qed.
  Lemma crlf_len_split B n : len (crlf B) = len (crlf (upto B n)) + len (crlf (from_ B n)).
  Proof. rewrite <- (firstn_skipn (Z.to_nat n) B) at 1. fold (upto B n). fold (from_ B n). rewrite crlf_app, len_app'. reflexivity. Qed.
  Lemma LIM_upto B n : LIM B -> LIM (upto B n).
  Proof. unfold LIM. intros H. pose proof (crlf_len_split B n). pose proof (len_nonneg (crlf (from_ B n))). lia. Qed.
  Lemma LIM_from B n : LIM B -> LIM (from_ B n).
  Proof. unfold LIM. intros H. pose proof (crlf_len_split B n). pose proof (len_nonneg (crlf (upto B n))). lia. Qed.

  (* one processLine step of lineLoop on the two buffers *)
  Lemma sim_line_g st ch ls s : ~ In 13 (buf s) -> LIM (buf s) -> 0 <= ls <= len (buf s) -> bi s = lineEnd (buf s) ls ->
    forallb nnB ch = true -> leL ls ch = true -> ccF ch = true -> allP (EntTree.en (buf s) ls) ch ->
    leL (bi s) (fst (fst (processLine st ch ls (upto (buf s) (bi s))))) = true ->
    processLine st (map (phiB (buf s)) ch) (phiP (buf s) ls) (upto (crlf (buf s)) (phiP (buf s) (bi s))) =
      (map (phiB (buf s)) (fst (fst (processLine st ch ls (upto (buf s) (bi s))))),
       snd (fst (processLine st ch ls (upto (buf s) (bi s)))), snd (processLine st ch ls (upto (buf s) (bi s)))) /\
    forallb nnB (fst (fst (processLine st ch ls (upto (buf s) (bi s))))) = true /\ ls <= bi s <= len (buf s).
  Proof.
    intros S13 HL Hls Hbi Hnn Hle Hcc Hla Hle'. set (B := buf s) in *.
    destruct (lineEnd_bounds_no13 B ls S13 Hls) as [A1 A2]. rewrite <- Hbi in A1, A2.
    set (src := upto B (bi s)) in *.
    assert (Hl : len src = bi s) by (apply len_upto; lia).
    assert (Eline : from_ src ls = sub B ls (lineEnd B ls)).
    { unfold src, sub. rewrite Hbi. apply ShDef.from_upto. lia. }
    assert (Lok : EolCRLFSimBytes.lineOK (from_ src ls)) by (rewrite Eline; apply line_lineOK; [exact S13|lia]).
    assert (S13s : ~ In 13 src) by (apply notIn_upto, S13).
    assert (HLs : LIM src) by (apply LIM_upto, HL).
    assert (Hpe : allQ (peB O src true) ch) by (apply (en_peL B ls (bi s)); [lia|lia|lia|exact Hla|exact Hle]).
    destruct (CG_processLine (O:=O) st ch ls src S13s HLs ltac:(lia) Lok Hnn Hcc Hpe) as [E Hn'].
    subst src. rewrite <- (upto_crlf_phiP B (bi s)) in E by lia.
    rewrite (map_phiB_upto B (bi s) ls ch A1 Hle), (phiP_upto B (bi s) ls A1) in E.
    rewrite (map_phiB_upto B (bi s) (bi s) _ ltac:(lia) Hle') in E.
    split; [exact E|]. split; [exact Hn'|lia].
  Qed.
End GenRun.

Section RunG.
  Context {O : OcpHyp}.
  (* the single-run containment invariant of the EolCRLFSimCt files: abstract interface *)
  Variable SJx : bpst -> list block -> bool -> Prop.
  Variable LEx : Z -> list block -> Z -> bpst -> bool -> Prop.
  Hypothesis LEx_basic : forall st ch ls s ns, LEx st ch ls s ns -> 0 <= ls <= len (buf s) /\ bi s = lineEnd (buf s) ls.
  Hypothesis X_step : forall st ch ls s ns, LEx st ch ls s ns ->
    exists ns', SJx s (fst (fst (processLine st ch ls (upto (buf s) (bi s))))) ns' /\
      (makeRoot (fst (fst (processLine st ch ls (upto (buf s) (bi s))))) s = None ->
       LEx (snd (fst (processLine st ch ls (upto (buf s) (bi s))))) (fst (fst (processLine st ch ls (upto (buf s) (bi s))))) (bi s)
           {| buf := buf s; bi := lineEnd (buf s) (bi s); boff := boff s; bline := bline s; pending := pending s |} ns').
  Hypothesis X_la : forall st ch ls s ns, LEx st ch ls s ns -> allP (EntTree.en (buf s) ls) ch /\ ccF ch = true.
  Hypothesis X_le : forall s ch ns, SJx s ch ns -> leL (bi s) ch = true.
  Hypothesis X_make : forall s ch ns r s1, SJx s ch ns -> makeRoot ch s = Some (r, s1) ->
    (forall b rest, ch = b :: rest -> isOpen b = false -> leB (bend b) b = true /\ geL (bend b) rest = true) /\ SJx s1 (pending s1) ns.

  Definition InvS (s : bpst) : Prop :=
    ~ In 13 (buf s) /\ LIM (buf s) /\ 0 <= bi s <= len (buf s) /\ forallb nnB (pending s) = true /\ leL (bi s) (pending s) = true /\ GoodBi s /\
    exists ns, SJx s (pending s) ns.
  Definition Post (x y : nb) : Prop :=
    match x with
    | NBBlock r s1 => (exists B, PadF B /\ rb_src r = fillNulls (upto B (bend (rb_blk r))) /\ y = NBBlock (rootQ B (rb_line r - 1) r) (stQ s1)) /\ InvS s1
    | NBEof _ => exists t, y = NBEof t
    | NBStuck => y = NBStuck
    | NBPanic k => y = NBPanic k
    end.

  Lemma sim_lineLoop : forall fuel st ch ls s s' ns, LEx st ch ls s ns -> SQ s s' -> ~ In 13 (buf s) -> LIM (buf s) ->
    forallb nnB ch = true -> leL ls ch = true -> PadF (buf s) ->
    Post (lineLoop fuel st ch ls s) (lineLoop fuel st (map (phiB (buf s)) ch) (phiP (buf s) ls) s').
  Proof.
    induction fuel as [|f IH]; intros st ch ls s s' ns HL HQ S13 S91 Hnn Hle HP; [reflexivity|]. cbn [lineLoop].
    destruct (LEx_basic _ _ _ _ _ HL) as [Hls Hbi].
    destruct (X_step _ _ _ _ _ HL) as (ns' & HS & HN). destruct (X_la _ _ _ _ _ HL) as [Hla Hcc]. pose proof (X_le _ _ _ HS) as Hle'.
    destruct (sim_line_g (O:=O) st ch ls s S13 S91 Hls Hbi Hnn Hle Hcc Hla Hle') as (E & Hn' & Hb).
    pose proof HQ as (Q1 & Q2 & Q3 & Q4).
    assert (E' : processLine st (map (phiB (buf s)) ch) (phiP (buf s) ls) (upto (buf s') (bi s')) =
                 (map (phiB (buf s)) (fst (fst (processLine st ch ls (upto (buf s) (bi s))))),
                  snd (fst (processLine st ch ls (upto (buf s) (bi s)))), snd (processLine st ch ls (upto (buf s) (bi s)))))
      by (rewrite Q1, Q2; exact E).
    rewrite E'. clear E E'.
    destruct (processLine st ch ls (upto (buf s) (bi s))) as [[ch' st'] pn]. cbn [fst snd] in *.
    destruct (negb (pn =? 0)); [reflexivity|].
    destruct (makeRoot ch' s) as [[r s1]|] eqn:Em.
    - destruct (X_make _ _ _ _ _ HS Em) as [HUL HS1].
      assert (Hgb : GoodBi s).
      { unfold GoodBi. destruct (lineEnd_spec (buf s) ls Hls) as [_ Hsp]. rewrite <- Hbi in Hsp.
        destruct (Z.eq_dec (bi s) (len (buf s))) as [Eq|Nq]; [right; left; exact Eq|]. right. right.
        destruct (Hsp ltac:(lia)) as [_ He]. unfold isEOLb in He. apply orb_true_iff in He. destruct He as [He|He]; apply Z.eqb_eq in He; [exact He|].
        exfalso. apply S13. apply (at_In' _ _ _ He). discriminate. }
      destruct (sim_makeRoot ch' s s' r s1 HQ S13 ltac:(lia) Hle' Hgb HUL Em) as (Em' & N1 & L1 & B1 & Eb & El & Es & Hg1).
      rewrite Em'. cbn [Post]. split; [exists (buf s); split; [exact HP|split; [exact Es|rewrite El; reflexivity]]|].
      split; [rewrite Eb; apply notIn_from, S13|]. split; [rewrite Eb; apply LIM_from, S91|]. split; [exact B1|]. split; [exact N1|]. split; [exact L1|].
      split; [exact Hg1|]. exists ns'. exact HS1.
    - rewrite (sim_makeRoot_none ch' s s' Em).
      set (s2 := {| buf := buf s; bi := lineEnd (buf s) (bi s); boff := boff s; bline := bline s; pending := pending s |}).
      set (s2' := {| buf := buf s'; bi := lineEnd (buf s') (bi s'); boff := boff s'; bline := bline s'; pending := pending s' |}).
      replace (bi s') with (phiP (buf s) (bi s)) at 1 by (symmetry; exact Q2). fold s2'.
      apply (IH st' ch' (bi s) s2 s2' ns'); [apply HN; reflexivity| |exact S13|exact S91|exact Hn'|exact Hle'|exact HP].
      unfold SQ, s2, s2'. cbn [buf bi boff bline]. rewrite Q1, Q2. split; [reflexivity|]. split; [apply lineEnd_crlf; [exact S13|lia]|]. split; assumption.
  Qed.

  Hypothesis X_nil : forall s, PadF (buf s) -> bi s = lineEnd (buf s) 0 -> LEx 0 [] 0 s true.
  Hypothesis X_next : forall s ns, SJx s (pending s) ns -> 0 <= bi s <= len (buf s) -> pending s <> [] ->
    makeRoot (pending s) s = None ->
    LEx 0 (pending s) (bi s) {| buf := buf s; bi := lineEnd (buf s) (bi s); boff := boff s; bline := bline s; pending := pending s |} ns.

  Lemma sim_skipLoop : forall fuel s s', SQ s s' -> bi s = 0 -> ~ In 13 (buf s) -> LIM (buf s) -> PadF (buf s) ->
    Post (skipLoop fuel s) (skipLoop fuel s').
  Proof.
    induction fuel as [|f IH]; intros s s' HQ Hb0 S13 S91 HP; [reflexivity|]. cbn [skipLoop]. cbv zeta.
    pose proof HQ as (Q1 & Q2 & Q3 & Q4). set (B := buf s) in *.
    assert (Eb' : bi s' = 0) by (rewrite Q2, Hb0; apply phiP_0).
    assert (Ee : lineEnd (buf s') (bi s') = phiP B (lineEnd B 0)).
    { rewrite Q1, Eb'. rewrite <- (phiP_0 B) at 1. apply lineEnd_crlf; [exact S13|lia]. }
    rewrite Ee, Eb', Hb0. set (e := lineEnd B 0) in *.
    pose proof (len_nonneg B) as HlB.
    destruct (lineEnd_bounds_no13 B 0 S13 ltac:(lia)) as [E0 E1]. fold e in E0, E1.
    assert (Ec : (0 <? phiP B e) = (0 <? e)) by (rewrite <- (phiP_0 B) at 1; apply phiP_ltb).
    rewrite Ec. destruct (Z.ltb_spec 0 e) as [Lt|Ge]; cbn [negb]; [|eexists; reflexivity].
    rewrite Q1, (isBlankLine_upto_crlf B e E0).
    destruct (isBlankLine (upto B e)).
    - (* a blank line is skipped *)
      destruct (lineEnd_cases B 0 S13 ltac:(lia)) as [[_ Hend]|(body & rest' & EB & Hbody & Hend)]; fold e in Hend.
      + (* last line, no line ending: the buffers are used up *)
        assert (F1 : from_ B e = []) by (rewrite Hend; apply Rec16.from_nil; lia).
        assert (F2 : from_ (crlf B) (phiP B e) = []) by (rewrite (from_crlf_phiP B e E0), F1; reflexivity).
        rewrite F1, F2. destruct f as [|f]; [reflexivity|]. cbn [skipLoop buf bi]. cbv zeta.
        change (lineEnd [] 0) with 0. cbn [Z.ltb negb]. change (0 <? 0) with false. cbn [negb]. eexists; reflexivity.
      + change (from_ B 0) with B in EB. assert (Ee2 : e = len body + 1) by lia.
        assert (Eu : upto B e = body ++ [10]).
        { rewrite EB. replace (body ++ 10 :: rest') with ((body ++ [10]) ++ rest') by (rewrite <- app_assoc; reflexivity).
          apply upto_app_all. rewrite len_app'. unfold len at 2. cbn [length]. lia. }
        assert (Ec10 : phiP B e - e = 1).
        { rewrite <- (count10_upto_phiP B e E0), Eu, count10_app, (count10_noEol body Hbody). reflexivity. }
        apply IH.
        * unfold SQ. cbn [buf bi boff bline]. split; [apply from_crlf_phiP, E0|]. split; [symmetry; apply phiP_0|].
          split; [rewrite Q3, (unpadded_upto_crlf B e E0); lia|rewrite Q4; reflexivity].
        * reflexivity.
        * cbn [buf]. apply notIn_from, S13.
        * cbn [buf]. apply LIM_from, S91.
        * cbn [buf]. apply (PadF_cut B e HP ltac:(lia)). right. right.
          rewrite EB, Ee2. replace (len body + 1 - 1) with (len body) by lia. rewrite at_app_r by lia. rewrite Z.sub_diag. cbn. discriminate.
    - (* the first line of a block *)
      set (s2 := {| buf := B; bi := e; boff := boff s; bline := bline s; pending := pending s |}).
      set (s2' := {| buf := crlf B; bi := phiP B e; boff := boff s'; bline := bline s'; pending := pending s' |}).
      assert (HL : LEx 0 [] 0 s2 true) by (apply X_nil; [exact HP|reflexivity]).
      pose proof (sim_lineLoop f 0 [] 0 s2 s2' true HL) as Hs. cbn [buf bline map] in Hs. rewrite phiP_0 in Hs.
      apply Hs; try assumption; try reflexivity. unfold SQ, s2, s2'. cbn [buf bi boff bline]. repeat split; assumption.
  Qed.

  Lemma sim_nextBlock fuel s : InvS s -> PadF (buf s) -> Post (nextBlock fuel s) (nextBlock fuel (stQ s)).
  Proof.
    intros (S13 & S91 & Hbi & Hnn & Hle & Hgb & ns & HS) HP. unfold nextBlock.
    assert (HQ : SQ s (stQ s)) by (unfold SQ, stQ; cbn [buf bi boff bline]; repeat split).
    change (pending (stQ s)) with (map (phiB (buf s)) (pending s)).
    destruct (makeRoot (pending s) s) as [[r s1]|] eqn:Em.
    - destruct (X_make _ _ _ _ _ HS Em) as [HUL HS1].
      destruct (sim_makeRoot (pending s) s (stQ s) r s1 HQ S13 Hbi Hle Hgb HUL Em) as (Em' & N1 & L1 & B1 & Eb & El & Es & Hg1).
      rewrite Em'. cbn [Post]. split; [exists (buf s); split; [exact HP|split; [exact Es|rewrite El; reflexivity]]|].
      split; [rewrite Eb; apply notIn_from, S13|]. split; [rewrite Eb; apply LIM_from, S91|]. split; [exact B1|]. split; [exact N1|]. split; [exact L1|].
      split; [exact Hg1|]. exists ns. exact HS1.
    - rewrite (sim_makeRoot_none (pending s) s (stQ s) Em).
      destruct (pending s) as [|b0 rest] eqn:Ep; cbn [map].
      + (* skip blank lines *)
        change (buf (stQ s)) with (crlf (buf s)). change (bi (stQ s)) with (phiP (buf s) (bi s)).
        change (boff (stQ s)) with (boff s + (bline s - 1)). change (bline (stQ s)) with (bline s).
        assert (S13u : ~ In 13 (upto (buf s) (bi s))) by (apply notIn_upto, S13).
        apply sim_skipLoop.
        * unfold SQ. cbn [buf bi boff bline]. destruct Hbi as [Hb0 Hb1]. split; [apply from_crlf_phiP, Hb0|]. split; [symmetry; apply phiP_0|].
          split; [|rewrite (lineCount_upto_crlf _ _ S13 Hb0); reflexivity].
          rewrite (unpadded_upto_crlf _ _ Hb0), (lineCount_count10 _ S13u), (count10_upto_phiP _ _ Hb0). lia.
        * reflexivity.
        * cbn [buf]. apply notIn_from, S13.
        * cbn [buf]. apply LIM_from, S91.
        * cbn [buf]. apply (PadF_cut _ _ HP Hbi). destruct Hgb as [G|[G|G]]; [left; exact G|right; left; exact G|right; right; rewrite G; discriminate].
      + assert (HL : LEx 0 (b0 :: rest) (bi s) {| buf := buf s; bi := lineEnd (buf s) (bi s); boff := boff s; bline := bline s; pending := b0 :: rest |} ns).
        { rewrite <- Ep in Em, HS. pose proof (X_next s ns HS Hbi ltac:(rewrite Ep; discriminate) Em) as HL. rewrite Ep in HL. exact HL. }
        refine (sim_lineLoop fuel 0 (b0 :: rest) (bi s) {| buf := buf s; bi := lineEnd (buf s) (bi s); boff := boff s; bline := bline s; pending := b0 :: rest |} _ ns HL _ S13 S91 Hnn Hle HP).
        unfold SQ. cbn [buf bi boff bline stQ]. split; [reflexivity|]. split; [apply lineEnd_crlf; [exact S13|lia]|]. split; reflexivity.
  Qed.
End RunG.
