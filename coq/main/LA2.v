From Coq Require Import List ZArith Lia Bool.
Import ListNotations.
Require Import Base Tree Rdr Link Collect LP Rules Rec17 Rec18 L2Kind L2CC BSDef BSRdr BSTree BSOrph BSClose BSLine1 BSLine2 LADef LA1.
Open Scope Z_scope.

(* ===== closing a block keeps "lines accounted" =====
   The link-reference-definition extraction (onCloseParagraph) enters as a hypothesis on the source (OcpLoopSpec);
   it is discharged in LAOcp*.v. *)

Definition ocpRun (src : bytes) (b1 : block) (first : inline) : list block :=
  ocp_loop (S (length (bik b1))) (2 * length src + 10)%nat src b1 None (newReader src (bik b1) (istart first)) [].

Definition OcpLoopSpec (src : bytes) : Prop :=
  forall e b1 first rest, bkids b1 = [] -> bend b1 = e -> isParaK (bkind b1) = true -> e <= len src -> bnd0 src e ->
    0 <= bstart b1 <= e -> tileS src (bstart b1) e (map ispan (bik b1)) -> Forall (eok src (bkind b1)) (bik b1) -> indOK (bik b1) ->
    bik b1 = first :: rest ->
    allQ (la src e) (ocpRun src b1 first) /\ tchain src false (bstart b1) e (ocpRun src b1 first).

(* ---- heights ---- *)
Lemma fold_max_In (l : list block) x : In x l -> (bheight x <= fold_right (fun c acc => Nat.max (bheight c) acc) O l)%nat.
Proof. induction l as [|y l IH]; [intros []|]. cbn [fold_right]. intros [->|H]; [lia|specialize (IH H); lia]. Qed.
Lemma bheight_kid' b x : In x (bkids b) -> (bheight x < bheight b)%nat.
Proof. destruct b as [K s e bk ik a n c l lb]. cbn [bkids bheight]. intros H. pose proof (fold_max_In bk x H). lia. Qed.
Lemma bheight_last b c : lastBlock b = Some c -> (bheight c < bheight b)%nat.
Proof. intros H. apply bheight_kid'. eapply lastBlock_In; exact H. Qed.
Lemma bheight_set_bloose b v : bheight (set_bloose b v) = bheight b. Proof. destruct b; reflexivity. Qed.
Lemma bheight_set_bend b v : bheight (set_bend b v) = bheight b. Proof. destruct b; reflexivity. Qed.
Lemma bheight_pos b : (1 <= bheight b)%nat. Proof. destruct b. cbn [bheight]. lia. Qed.
Lemma bheight_getAt : forall d b x, getAt d b = Some x -> (bheight x + d <= bheight b)%nat.
Proof.
  induction d as [|d IH]; intros b x H; [inversion H; subst; lia|]. cbn [getAt] in H.
  destruct (lastBlock b) as [c|] eqn:El; [|discriminate]. specialize (IH c x H). pose proof (bheight_last b c El). lia.
Qed.

(* ---- chains of closed blocks ---- *)
Lemma tchain_op src op op' lo hi l : (forall c, In c l -> 0 <= bend c) -> tchain src op lo hi l -> tchain src op' lo hi l.
Proof.
  revert lo. induction l as [|c r IH]; intros lo Hc H; [exact H|]. destruct H as (A & B & C). split; [exact A|]. split; [exact B|].
  destruct (Z.ltb_spec (bend c) 0) as [L|L]; [specialize (Hc c (or_introl eq_refl)); lia|].
  destruct C as [C1 C2]. split; [exact C1|]. apply IH; [intros x Hx; apply Hc; right; exact Hx|exact C2].
Qed.
Lemma tchain_false_closed src lo hi l : tchain src false lo hi l -> forall c, In c l -> 0 <= bend c.
Proof. apply tchain_closed_kids. Qed.
Lemma tchain_hi src op lo hi hi' l : tchain src op lo hi l -> hi <= hi' -> NT src hi hi' -> tchain src op lo hi' l.
Proof.
  revert lo. induction l as [|c r IH]; intros lo H A B; cbn [tchain] in *.
  - destruct H. split; [lia|eapply NT_app; eassumption].
  - destruct H as (H1 & H2 & H3). split; [exact H1|]. split; [exact H2|].
    destruct (bend c <? 0); [exact H3|]. destruct H3 as [H3 H4]. split; [exact H3|]. apply IH; assumption.
Qed.
Lemma tchain_one src op lo hi c : lo <= bstart c -> NT src lo (bstart c) -> bstart c <= bend c -> bend c <= hi -> NT src (bend c) hi -> 0 <= bend c ->
  tchain src op lo hi [c].
Proof.
  intros A B C D E F. cbn [tchain]. split; [exact A|]. split; [exact B|]. destruct (Z.ltb_spec (bend c) 0); [lia|]. repeat split; assumption.
Qed.

(* ---- blank text ---- *)
Lemma forallb_at (p : Z -> bool) (l : bytes) j : forallb p l = true -> 0 <= j < len l -> p (at_ l j) = true.
Proof.
  revert j. induction l as [|c r IH]; intros j H Hj; [unfold len in Hj; cbn in Hj; lia|]. cbn [forallb] in H. apply andb_true_iff in H. destruct H as [H1 H2].
  rewrite len_cons in Hj. destruct (Z.eq_dec j 0) as [->|N]; [exact H1|]. replace j with ((j - 1) + 1) by lia. rewrite at_consS by lia. apply IH; [exact H2|lia].
Qed.
Lemma ws_not_tx c : isSpaceTabOrLineEnding c = true -> tx c = false.
Proof.
  unfold isSpaceTabOrLineEnding. rewrite !orb_true_iff. intros [[[H|H]|H]|H]; apply Z.eqb_eq in H; subst c; reflexivity.
Qed.
Lemma len_sub (src : bytes) s e : 0 <= s <= e -> e <= len src -> len (sub src s e) = e - s.
Proof.
  intros A B. unfold sub. pose proof (len_from src s ltac:(lia)) as Lf.
  destruct (split_at (from_ src s) (e - s) ltac:(lia)) as [_ L]. exact L.
Qed.
Lemma at_sub (src : bytes) s e j : 0 <= s <= e -> e <= len src -> 0 <= j < e - s -> at_ (sub src s e) j = at_ src (s + j).
Proof.
  intros A B C. unfold sub. pose proof (len_from src s ltac:(lia)) as Lf. rewrite at_upto by lia. apply at_from; lia.
Qed.
Lemma blank_NT src s e : 0 <= s <= e -> e <= len src -> isBlankLine (sub src s e) = true -> NT src s e.
Proof.
  intros A B H q Hq. unfold isBlankLine in H. pose proof (forallb_at _ _ (q - s) H ltac:(rewrite len_sub by lia; lia)) as Hw.
  rewrite at_sub in Hw by lia. replace (s + (q - s)) with q in Hw by lia. apply ws_not_tx, Hw.
Qed.

(* ---- onCloseIndented drops entries that need no cover ---- *)
Definition dropOK (src : bytes) (c : inline) : Prop :=
  iend c - istart c = 0 \/ isBlankLine (sub src (istart c) (iend c)) = true.
Lemma trim_spec src : forall rk, exists t, rk = t ++ trimBlankTail src rk /\ Forall (dropOK src) t.
Proof.
  induction rk as [|c r IH]; [exists []; split; [reflexivity|constructor]|]. cbn [trimBlankTail].
  destruct ((ikind c =? TextKind) && isBlankLine (sub src (istart c) (iend c))) eqn:E.
  - destruct IH as (t & E1 & E2). exists (c :: t). split; [cbn [app]; rewrite <- E1; reflexivity|].
    constructor; [right; apply andb_true_iff in E; tauto|exact E2].
  - exists []. split; [reflexivity|constructor].
Qed.
Lemma onCloseIndented_spec src b : exists tail, bik b = bik (onCloseIndented src b) ++ tail /\ Forall (dropOK src) tail.
Proof.
  unfold onCloseIndented. cbv zeta. set (ik0 := match rev (bik b) with last :: prev :: r => _ | _ => bik b end).
  assert (H0 : exists t0, bik b = ik0 ++ t0 /\ Forall (dropOK src) t0).
  { unfold ik0. destruct (rev (bik b)) as [|last [|prev r]] eqn:Er; try (exists []; rewrite app_nil_r; split; [reflexivity|constructor]).
    destruct (_ && _ && _ && _) eqn:E; [|exists []; rewrite app_nil_r; split; [reflexivity|constructor]].
    exists [last]. split.
    - rewrite <- (rev_involutive (bik b)), Er. cbn [rev]. rewrite <- !app_assoc. reflexivity.
    - constructor; [|constructor]. left. apply andb_true_iff in E. destruct E as [E _]. apply andb_true_iff in E. destruct E as [E _].
      apply andb_true_iff in E. destruct E as [_ E]. apply Z.eqb_eq in E. exact E. }
  destruct H0 as (t0 & E0 & F0). destruct (trim_spec src (rev ik0)) as (t & E1 & F1).
  destruct b as [K s e bk ik a n c l lb]. cbn [bik set_bik] in *.
  exists (rev t ++ t0). split.
  - rewrite E0 at 1. rewrite app_assoc. f_equal. rewrite <- (rev_involutive ik0) at 1. rewrite E1 at 1. rewrite rev_app_distr. reflexivity.
  - apply Forall_app. split; [apply Forall_rev, F1|exact F0].
Qed.

Lemma tileS_allNT src lo hi l : tileS src lo hi l -> (forall se, In se l -> NT src (fst se) (snd se)) -> NT src lo hi.
Proof.
  revert lo. induction l as [|se r IH]; intros lo H Hn; [apply H|]. destruct H as (A & B & C & D).
  eapply NT_app; [exact B|]. eapply NT_app; [apply Hn; left; reflexivity|]. apply IH; [exact D|intros x Hx; apply Hn; right; exact Hx].
Qed.
Lemma tileS_drop_tail src lo hi a t : 0 <= lo -> hi <= len src -> tileS src lo hi (map ispan (a ++ t)) -> Forall (dropOK src) t ->
  tileS src lo hi (map ispan a).
Proof.
  intros H0 Hh H Ht. rewrite map_app in H. apply tileS_app in H. destruct H as [H1 H2].
  pose proof (tileS_le _ _ _ _ H1) as L1. pose proof (tileS_le _ _ _ _ H2) as L2.
  eapply tileS_hi; [exact H1|exact L2|]. apply (tileS_allNT _ _ _ _ H2).
  intros se Hse. apply in_map_iff in Hse. destruct Hse as (c & <- & Hc). rewrite Forall_forall in Ht.
  pose proof (tileS_In _ _ _ _ (ispan c) H2 ltac:(apply in_map; exact Hc)) as (B1 & B2 & B3). cbn [ispan fst snd] in *.
  destruct (Ht c Hc) as [Hz|Hb]; [apply NT_empty; lia|apply blank_NT; [lia|lia|exact Hb]].
Qed.

(* ---- field lemmas ---- *)
Lemma hiOf_closed M b : 0 <= bend b -> hiOf M b = bend b.
Proof. intros H. unfold hiOf. destruct (Z.ltb_spec (bend b) 0); [lia|reflexivity]. Qed.
Lemma hiOf_open M b : bend b < 0 -> hiOf M b = M.
Proof. intros H. unfold hiOf. destruct (Z.ltb_spec (bend b) 0); [reflexivity|lia]. Qed.
Lemma body_ext src M b b' : bkind b' = bkind b -> bstart b' = bstart b -> hiOf M b' = hiOf M b -> bik b' = bik b ->
  (bend b' < 0 -> bend b < 0) ->
  (isContK (bkind b) = true -> tchain src (bend b <? 0) (bstart b) (hiOf M b) (bkids b) -> tchain src (bend b' <? 0) (bstart b) (hiOf M b) (bkids b')) ->
  body src M b -> body src M b'.
Proof.
  intros E1 E2 E3 E4 E6 E5. unfold body. rewrite E1, E2, E3, E4. unfold isContK in E5.
  destruct (isLeafK (bkind b)); [tauto|]. destruct (bkind b =? ListMarkerKind); [tauto|].
  destruct (bkind b =? LinkReferenceDefinitionKind); [tauto|]. intros [Ht Hik]. split; [apply E5; [reflexivity|exact Ht]|exact Hik].
Qed.

(* a closed leaf-like block (no block children) built from its parts *)
Lemma la_leaf_closed src M x : bkids x = [] -> 0 <= bstart x -> bstart x <= bend x -> bend x <= M -> bnd0 src (bend x) -> body src M x -> la src M x.
Proof. intros Hk A B C Hb D. rewrite la_eq, Hk. split; [lia|]. split; [right; split; [lia|exact Hb]|]. split; [intros; lia|]. split; [exact D|exact I]. Qed.

(* ---- onCloseParagraph on a closed paragraph ---- *)
Lemma la_onCloseParagraph src (HO : OcpLoopSpec src) e b1 : bkids b1 = [] -> bend b1 = e -> bkind b1 = ParagraphKind -> e <= len src -> bnd0 src e ->
  0 <= bstart b1 <= e -> tileS src (bstart b1) e (map ispan (bik b1)) -> Forall (eok src (bkind b1)) (bik b1) -> indOK (bik b1) ->
  allQ (la src e) (onCloseParagraph src b1) /\ tchain src false (bstart b1) e (onCloseParagraph src b1).
Proof.
  intros Hk He HK Hl Hbd H0 Ht Hf Hio. unfold onCloseParagraph. destruct (bik b1) as [|first rest] eqn:Eb.
  - split.
    + split; [|exact I]. apply la_leaf_closed; [exact Hk|lia|lia|lia|rewrite He; exact Hbd|]. rewrite body_leaf by (rewrite HK; reflexivity).
      rewrite hiOf_closed by lia. rewrite He, Eb. split; [exact Ht|split; [constructor|intros _; exact I]].
    + apply tchain_one; try lia; try (apply NT_empty; lia).
  - cbv zeta. rewrite HK. change (ParagraphKind =? SetextHeadingKind) with false. cbv iota. rewrite <- Eb.
    apply (HO e b1 first rest); try assumption; try (rewrite Eb; assumption). rewrite HK. reflexivity.
Qed.

(* ---- closeBlock ---- *)
Lemma fold_max_map g (l : list block) : (forall x, bheight (g x) = bheight x) ->
  fold_right (fun c acc => Nat.max (bheight c) acc) O (map g l) = fold_right (fun c acc => Nat.max (bheight c) acc) O l.
Proof. intros Hg. induction l as [|x l IH]; [reflexivity|]. cbn [map fold_right]. rewrite Hg, IH. reflexivity. Qed.
Lemma bheight_onCloseList b : bheight (onCloseList b) = bheight b.
Proof.
  unfold onCloseList. cbv zeta. destruct (bloose b || _); [|reflexivity]. destruct b as [K s e bk ik a n c l lb].
  cbn [set_bloose set_bkids bkids bheight]. rewrite fold_max_map; [reflexivity|intros x; apply bheight_set_bloose].
Qed.
Lemma la_onCloseList src M b : la src M b ->
  la src M (onCloseList b) /\ bstart (onCloseList b) = bstart b /\ bend (onCloseList b) = bend b /\ bkind (onCloseList b) = bkind b.
Proof.
  intros H. unfold onCloseList. cbv zeta. destruct (bloose b || _); [|tauto].
  rewrite bstart_set_bkids, bend_set_bkids, bkind_set_bkids, bstart_set_bloose, bend_set_bloose, bkind_set_bloose. split; [|tauto].
  pose proof H as H'. rewrite la_eq in H'. destruct H' as (A & B & S4 & C & E).
  apply la_set_bkids; [apply la_set_bloose; exact H| |].
  - apply allQ_map. eapply allQ_impl; [|exact E]. intros x Hx. apply la_set_bloose. exact Hx.
  - rewrite bkind_set_bloose. intros Ek. unfold hiOf. rewrite bend_set_bloose, bstart_set_bloose.
    apply tchain_map; [intros x; split; [apply bstart_set_bloose|apply bend_set_bloose]|].
    rewrite body_cont in C by exact Ek. apply C.
Qed.

Section Close.
  Variable src : bytes.
  Hypothesis HO : OcpLoopSpec src.
  Variable e : Z.
  Hypothesis Hel : e <= len src.
  Hypothesis Hbe : bnd0 src e.

  (* the result of closing an open block b: closed blocks that tile [bstart b, e) *)
  Definition closed_ok (b : block) (L : list block) : Prop := allQ (la src e) L /\ tchain src false (bstart b) e L.

  (* one level: x1 already carries the end e; its last child is closed by CB *)
  Lemma closeLast_ok (CB : block -> list block) x1 :
    bend x1 = e -> 0 <= bstart x1 <= e -> cc x1 = true -> bkind x1 <> SetextHeadingKind -> allQ (la src e) (bkids x1) ->
    (isContK (bkind x1) = true -> tchain src true (bstart x1) e (bkids x1) /\ bik x1 = []) ->
    (isContK (bkind x1) = false -> body src e x1) ->
    (forall c, lastBlock x1 = Some c -> bend c < 0 -> closed_ok c (CB c)) ->
    (forall c, lastBlock x1 = Some c -> 0 <= bend c -> CB c = [c]) ->
    let y := match lastBlock x1 with Some c => set_lastBlocks x1 (CB c) | None => x1 end in
    la src e y /\ bstart y = bstart x1 /\ bend y = e.
  Proof.
    intros He H0 Hcc HK Hkids Hch Hbody Hopen Hclosed y.
    assert (He0 : 0 <= e) by lia.
    assert (Eop : (bend x1 <? 0) = false) by (apply Z.ltb_ge; lia).
    assert (Base : (isContK (bkind x1) = true -> tchain src false (bstart x1) e (bkids x1)) -> la src e x1).
    { intros Hc. rewrite la_eq. split; [lia|]. split; [right; split; [lia|rewrite He; exact Hbe]|]. split; [intros; lia|]. split; [|exact Hkids].
      destruct (isContK (bkind x1)) eqn:Ek; [|apply Hbody; reflexivity].
      rewrite body_cont by exact Ek. rewrite Eop, hiOf_closed by lia. rewrite He. split; [apply Hc; reflexivity|apply Hch; reflexivity]. }
    unfold y. destruct (lastBlock x1) as [c|] eqn:El.
    2:{ split; [|split; [reflexivity|exact He]]. apply Base. intros Ek. destruct (Hch Ek) as [Hch' _]. clear Hch. rename Hch' into Hch.
        unfold lastBlock in El. destruct (rev (bkids x1)) as [|z t] eqn:Er; [|discriminate].
        assert (En : bkids x1 = []) by (rewrite <- (rev_involutive (bkids x1)), Er; reflexivity). rewrite En in *. exact Hch. }
    rewrite bstart_set_lastBlocks, bend_set_lastBlocks. split; [|split; [reflexivity|exact He]].
    pose proof (lastBlock_split x1 c El) as Es.
    assert (Hc_la : la src e c) by (eapply allQ_In; [exact Hkids|eapply lastBlock_In; exact El]).
    destruct (isContK (bkind x1)) eqn:Ek.
    - destruct (Hch eq_refl) as [Hch' Hik]. clear Hch. rename Hch' into Hch. rewrite Es in Hch.
      destruct (tchain_split src true e _ _ [c] ltac:(discriminate) Hch) as (mid & M1 & M2 & M3 & M4).
      cbn [tchain] in M2. destruct M2 as (P1 & P2 & P3).
      assert (HL : allQ (la src e) (CB c) /\ tchain src false mid e (CB c)).
      { destruct (Z.ltb_spec (bend c) 0) as [L|L].
        - destruct (Hopen c eq_refl L) as [Q1 Q2]. split; [exact Q1|]. eapply tchain_lo; eassumption.
        - rewrite (Hclosed c eq_refl L). split; [split; [exact Hc_la|exact I]|]. destruct P3 as [P3 [P4 P5]].
          apply tchain_one; assumption. }
      destruct HL as [HL1 HL2].
      assert (Hpre : forall x, In x (removelast (bkids x1)) -> 0 <= bend x) by (intros x Hx; apply M4, Hx).
      unfold set_lastBlocks. rewrite la_eq, bstart_set_bkids, bend_set_bkids, bkind_set_bkids, bkids_set_bkids.
      split; [lia|]. split; [right; split; [lia|rewrite He; exact Hbe]|]. split; [intros; lia|]. split.
      + rewrite body_set_bkids_cont by exact Ek. rewrite Eop, hiOf_closed by lia. rewrite He. split; [apply M3; exact HL2|exact Hik].
      + rewrite Es in Hkids. apply allQ_app in Hkids. apply allQ_app. tauto.
    - pose proof (leaf_no_kids x1 Hcc Ek) as En. rewrite En in Es. destruct (removelast []); discriminate.
  Qed.

  Lemma la_closeBlock : forall fuel b, cc b = true -> la src e b -> bend b < 0 -> (bheight b <= fuel)%nat ->
    closed_ok b (closeBlock fuel src b e).
  Proof.
    induction fuel as [|f IH]; intros b Hcc Hb Ho Hh; [pose proof (bheight_pos b); lia|].
    cbn [closeBlock]. unfold isOpen. destruct (Z.ltb_spec (bend b) 0) as [_|G]; [|lia]. cbn [negb]. cbv zeta.
    pose proof Hb as Hb'. rewrite la_eq in Hb'. destruct Hb' as (A & _ & S4 & C & E). specialize (S4 Ho).
    assert (Eop : (bend b <? 0) = true) by (apply Z.ltb_lt; exact Ho).
    assert (Ccont : isContK (bkind b) = true -> tchain src true (bstart b) e (bkids b)).
    { intros Ek. rewrite body_cont in C by exact Ek. rewrite Eop, hiOf_open in C by exact Ho. apply C. }
    assert (Cik : isContK (bkind b) = true -> bik b = []).
    { intros Ek. rewrite body_cont in C by exact Ek. apply C. }
    assert (Cleaf : isLeafK (bkind b) = true -> tileS src (bstart b) e (map ispan (bik b)) /\ Forall (eok src (bkind b)) (bik b) /\ (isParaK (bkind b) = true -> indOK (bik b))).
    { intros Ek. rewrite body_leaf in C by exact Ek. rewrite hiOf_open in C by exact Ho. exact C. }
    set (b1 := set_bend b e).
    assert (F : bend b1 = e /\ bstart b1 = bstart b /\ bkind b1 = bkind b /\ bkids b1 = bkids b /\ bik b1 = bik b /\ cc b1 = true /\ bheight b1 = bheight b).
    { unfold b1. rewrite bend_set_bend, bstart_set_bend, bkind_set_bend, bk_set_bend, bik_set_bend, cc_set_bend, bheight_set_bend. tauto. }
    destruct F as (F1 & F2 & F3 & F4 & F5 & F6 & F7).
    assert (HCB : forall x1, (bheight x1 <= S f)%nat -> cc x1 = true ->
              (forall c, lastBlock x1 = Some c -> bend c < 0 -> la src e c -> closed_ok c (closeBlock f src c e)) /\
              (forall c, lastBlock x1 = Some c -> 0 <= bend c -> closeBlock f src c e = [c])).
    { intros x1 Hx Cx. split.
      - intros c El Oc Lc. apply IH; [eapply cc_lastBlock; eassumption|exact Lc|exact Oc|pose proof (bheight_last x1 c El); lia].
      - intros c _ Oc. apply closeBlock_closed, Oc. }
    assert (Fin : forall y, la src e y -> bstart y = bstart b -> bend y = e -> closed_ok b [y]).
    { intros y Ly By Ey. split; [split; [exact Ly|exact I]|]. apply tchain_one; rewrite ?By, ?Ey; try lia; apply NT_empty; lia. }
    assert (Hbody1 : isContK (bkind b) = false -> body src e b1).
    { intros Ek. apply (body_ext src e b b1); try assumption.
      - rewrite hiOf_closed by lia. rewrite hiOf_open by exact Ho. exact F1.
      - lia.
      - intros Ek'. congruence. }
    assert (Hbody1' : isContK (bkind b) = false -> body src e b).
    { intros _. exact C. }
    rewrite F3.
    destruct (Z.eqb_spec (bkind b) ListKind) as [EL|NL].
    { destruct (cc_onCloseList _ F6) as [C1 K1]. destruct (la_onCloseList src e b Hb) as (_ & _ & _ & _).
      set (x1 := onCloseList b1).
      assert (Ek : isContK (bkind b) = true) by (rewrite EL; reflexivity).
      (* onCloseList on b1: either b1 itself or loose flags set *)
      assert (X : bend x1 = e /\ bstart x1 = bstart b /\ bkind x1 = bkind b /\ allQ (la src e) (bkids x1) /\
                  tchain src true (bstart x1) e (bkids x1) /\ (bheight x1 <= S f)%nat).
      { unfold x1, onCloseList. cbv zeta. destruct (bloose b1 || _).
        - rewrite bend_set_bkids, bstart_set_bkids, bkind_set_bkids, bkids_set_bkids, bend_set_bloose, bstart_set_bloose, bkind_set_bloose.
          split; [exact F1|]. split; [exact F2|]. split; [exact F3|]. split; [|split].
          + rewrite F4. apply allQ_map. eapply allQ_impl; [|exact E]. intros x Hx. apply la_set_bloose. exact Hx.
          + rewrite F2, F4. apply tchain_map; [intros x; split; [apply bstart_set_bloose|apply bend_set_bloose]|].
            apply Ccont, Ek.
          + pose proof (bheight_onCloseList b1) as Hh1. unfold onCloseList in Hh1. cbv zeta in Hh1.
            destruct b1 as [K1' s1 e1 bk1 ik1 a1 n1 c1 l1 lb1]. cbn [set_bloose set_bkids bkids bheight] in *.
            rewrite fold_max_map by (intros x; apply bheight_set_bloose). lia.
        - split; [exact F1|]. split; [exact F2|]. split; [exact F3|]. split; [rewrite F4; exact E|]. split; [|lia].
          rewrite F2, F4. apply Ccont, Ek. }
      destruct X as (X1 & X2 & X3 & X4 & X5 & X6).
      assert (X7 : bik x1 = []).
      { assert (Eo : forall y, bik (onCloseList y) = bik y) by (intros y; unfold onCloseList; cbv zeta; destruct (bloose y || _); destruct y; reflexivity).
        unfold x1. rewrite Eo, F5. apply Cik, Ek. }
      destruct (HCB x1 X6 C1) as [HC1 HC2].
      destruct (closeLast_ok (fun c => closeBlock f src c e) x1 X1 ltac:(lia) C1 ltac:(rewrite X3; exact S4) X4 ltac:(intros _; split; [exact X5|exact X7])
                  ltac:(rewrite X3, Ek; discriminate)) as (D1 & D2 & D3).
      { intros c El Oc. apply HC1; [exact El|exact Oc|]. eapply allQ_In; [exact X4|eapply lastBlock_In; exact El]. }
      { exact HC2. }
      apply Fin; [exact D1|congruence|exact D3]. }
    destruct (Z.eqb_spec (bkind b) IndentedCodeBlockKind) as [EI|NI].
    { set (x1 := onCloseIndented src b1).
      assert (Ek : isContK (bkind b) = false) by (rewrite EI; reflexivity).
      pose proof (leaf_no_kids b Hcc Ek) as Hnk.
      destruct (onCloseIndented_spec src b1) as (tail & Et & Ft). fold x1 in Et.
      assert (X : bend x1 = e /\ bstart x1 = bstart b /\ bkind x1 = bkind b /\ bkids x1 = []).
      { unfold x1, onCloseIndented. cbv zeta. rewrite bend_set_bik, bstart_set_bik, bkind_set_bik, bk_set_bik. rewrite F4, Hnk. tauto. }
      destruct X as (X1 & X2 & X3 & X4).
      assert (Lx : la src e x1).
      { apply la_leaf_closed; [exact X4|lia|lia|lia|rewrite X1; exact Hbe|]. rewrite body_leaf by (rewrite X3, EI; reflexivity).
        rewrite hiOf_closed by lia. rewrite X1, X2, X3. destruct (Cleaf ltac:(rewrite EI; reflexivity)) as (C1 & C2 & _).
        rewrite <- F5, Et in C1, C2. split; [eapply tileS_drop_tail; [| |exact C1|exact Ft]; lia|].
        split; [apply Forall_app in C2; tauto|]. rewrite EI. intros Hp. discriminate Hp. }
      assert (Ey : match lastBlock x1 with Some c => set_lastBlocks x1 (closeBlock f src c e) | None => x1 end = x1).
      { unfold lastBlock. rewrite X4. reflexivity. }
      rewrite Ey. apply Fin; [exact Lx|exact X2|exact X1]. }
    destruct ((bkind b =? ParagraphKind) || (bkind b =? SetextHeadingKind)) eqn:Ep.
    { assert (HK : bkind b = ParagraphKind).
      { apply orb_true_iff in Ep. destruct Ep as [Ep|Ep]; apply Z.eqb_eq in Ep; [exact Ep|contradiction]. }
      assert (Ek : isContK (bkind b) = false) by (rewrite HK; reflexivity).
      destruct (Cleaf ltac:(rewrite HK; reflexivity)) as (C1 & C2 & C3).
      unfold closed_ok. rewrite <- F2. apply la_onCloseParagraph; try assumption.
      - rewrite F4. apply leaf_no_kids; assumption.
      - congruence.
      - lia.
      - rewrite F2, F5. exact C1.
      - rewrite F3, F5. exact C2.
      - rewrite F5. apply C3. rewrite HK. reflexivity. }
    destruct (HCB b1 ltac:(lia) F6) as [HC1 HC2].
    destruct (closeLast_ok (fun c => closeBlock f src c e) b1 F1 ltac:(lia) F6 ltac:(rewrite F3; exact S4) ltac:(rewrite F4; exact E)) as (D1 & D2 & D3).
    { rewrite F3, F2, F4, F5. intros Ek. split; [apply Ccont, Ek|apply Cik, Ek]. }
    { rewrite F3. exact Hbody1. }
    { intros c El Oc. apply HC1; [exact El|exact Oc|]. eapply allQ_In; [exact E|]. rewrite <- F4. eapply lastBlock_In; exact El. }
    { exact HC2. }
    apply Fin; [exact D1|congruence|exact D3].
  Qed.
End Close.
