From Coq Require Import List ZArith Lia Bool.
Import ListNotations.
Require Import Base Tables Utf8 Tree Rdr Link Collect Html Recog Inl3a Inl3b Inl3c Inl3d Inl3e Driver.
Require Import ShapesBase ShapesR ShapesComp3 GI6 GramInline.
Require Import IFBase IFLink IFHtml IFCode IFCollect IFTitle IFGram IFSmall IFTokDef IFFrame IFTokRf IFTokLoop IFTokFuel IFLabel IFTokTf.
Require Import PEProof IFTree IFPe IFTk1 IFTk2 IFTk4 IFTk5 IFEmpty.
Open Scope Z_scope.

(* ================================================================================================================
   InlineFuel.v -- property C04, inline layer: the inline parser never runs out of fuel.
   This file states the main results; the proofs are in IF*.v.

   VOCABULARY
     spW src sp      (IFBase)  executable: every span has 0 <= start <= end <= len src, the list is sorted.  Implied by ShapesR.spOK.
     PL src r        (IFBase)  the reader r reads src over a span list satisfying spW (no condition on its position).
     nu src r        (IFBase)  the potential of r: ShapesR.mu while r is inside a span, 0 when it is outside every span.
                               Every successful `next` lowers it; nu (newReader src sp p) <= len src + ibudget sp.
     entOK src U     (IFTitle) executable: spW src U and ibudget U <= len src + 9   (fits the model's reader fuel 2 * len src + 10).
     ind1 U          (IFTokTf) executable: every Indent entry is one byte wide (the block layer creates them as [p, p+1)).
   ================================================================================================================ *)

(* ------------------------------------------------------------------------------------------------ (1) reader loops
   For every scanner X of Link.v / Html.v / Collect.v / Inl3b.v / Inl3d.v:
       X_fuel : PL src r -> nu src r < f1 -> nu src r < f2 -> X f1 r = X f2 r.
   The list (each is a Lemma/Theorem of the named file, closed under the global context):
     IFLink   : sls_loop_fuel skipLinkSpace_fuel sst_fuel(skipSpacesAndTabs) readEOL_fuel ll_skip_fuel ll_body_fuel parseLinkLabel_fuel
                ld_angle_fuel ld_bare_fuel parseLinkDestination_fuel lt_loop_fuel parseLinkTitle_fuel
     IFHtml   : tagName_loop_fuel parseHTMLTagName_fuel attrName_loop_fuel untilQuote_fuel unquoted_loop_fuel parseHTMLAttribute_fuel
                openTag_loop_fuel parseHTMLOpenTag_fuel parseHTMLClosingTag_fuel ht_pi_fuel ht_until_fuel ht_comment_fuel ht_cdata_fuel
                parseHTMLTag_fuel
     IFCode   : cs_open_fuel cs_run_fuel cs_close_fuel parseCodeSpan_fuel
     IFCollect: skipSameNode_fuel collect_loop_fuel collectTextNodes_fuel tlr_skip_fuel tlr_loop_fuel transformLinkReferenceSpan_fuel
     IFSmall  : runEnd_fuel eolRun_fuel skipSpTab_fuel nulRunBack_fuel lfl_fuel pe_findCloser_fuel pe_findOpener_fuel dl_run_fuel em_labels_fuel
                startCond7_fuel (the block layer's use of the tag scanner)
   Four of them, as examples, restated here: *)
Theorem C04_parseLinkTitle src f1 f2 r : PL src r -> nu src r < Z.of_nat f1 -> nu src r < Z.of_nat f2 ->
  parseLinkTitle f1 r = parseLinkTitle f2 r.
Proof. apply parseLinkTitle_fuel. Qed.
Theorem C04_parseHTMLTag src f1 f2 r : PL src r -> nu src r < Z.of_nat f1 -> nu src r < Z.of_nat f2 ->
  parseHTMLTag f1 r = parseHTMLTag f2 r.
Proof. apply parseHTMLTag_fuel. Qed.
Theorem C04_collectTextNodes src f1 f2 sp p e tk esc : spW src sp = true ->
  len src + ibudget sp < Z.of_nat f1 -> len src + ibudget sp < Z.of_nat f2 ->
  collectTextNodes f1 (newReader src sp p) e tk esc = collectTextNodes f2 (newReader src sp p) e tk esc.
Proof. apply collectTextNodes_new_fuel. Qed.
Theorem C04_parseInlineLink src f1 f2 (st : ist) start : isrc st = src -> spW src (unpFrom st) = true ->
  len src + ibudget (unpFrom st) < Z.of_nat f1 -> len src + ibudget (unpFrom st) < Z.of_nat f2 ->
  parseInlineLink f1 st start = parseInlineLink f2 st start.
Proof. apply parseInlineLink_fuel. Qed.
(* the potential of a fresh reader, wherever it is placed *)
Theorem C04_fresh_reader src sp pos : spW src sp = true -> nu src (newReader src sp pos) <= len src + ibudget sp.
Proof. apply nu_new. Qed.

(* GI6.titleNeedsDestFor (a valid title span from parseInlineLink implies a valid destination span) for EVERY src and every
   entry list that passes entOK; in particular for T11's spOK + budget. *)
Theorem C04_titleNeedsDest src U : entOK src U = true -> titleNeedsDestFor src U.
Proof. apply titleNeedsDestFor_entOK. Qed.
Theorem C04_titleNeedsDest_spOK src U : spOK src U = true -> ibudget U <= len src + 9 -> titleNeedsDestFor src U.
Proof. apply titleNeedsDestFor_spOK. Qed.
(* the conditional clause of GramInline.v, discharged under the executable entry condition *)
Theorem C04_gramI src matcher b :
  forallb (L2Kind2.ek (bkind b)) (bik b) = true -> isCode (bkind b) = false -> bkind b <> LinkReferenceDefinitionKind ->
  entOK src (bik b) = true ->
  forallb (fun i => Props.phrasing (ikind i) && Props.gramI false i) (parseInlines src matcher b) = true.
Proof. apply parseInlines_gramI_entOK. Qed.
Theorem C04_gramI_doc input : entOKDoc input ->
  forallb (fun r => leavesOK (Props.gramI false) (rb_blk r)) (fst (parseFull input)) = true.
Proof. apply parseFull_gramI_entOK. Qed.

(* ------------------------------------------------------------------------------------------------ (2) code spans, the tokeniser loop *)
Theorem C04_parseCodeSpan src f1 f2 (st : ist) start : isrc st = src -> spW src (unpFrom st) = true ->
  len src + ibudget (unpFrom st) < Z.of_nat f1 -> len src + ibudget (unpFrom st) < Z.of_nat f2 ->
  parseCodeSpan f1 st start = parseCodeSpan f2 st start.
Proof. apply parseCodeSpan_fuel. Qed.
(* every step of the tokeniser loop moves the position forward (K: the loop invariant of IFTokLoop) *)
Theorem C04_istep_progress src U rf tf st pos ps : spOK src U = true -> len src + ibudget U < Z.of_nat rf ->
  K src U st pos -> upos st < len U -> pos < spanEnd st ->
  pos < snd (fst (istepF rf tf st pos ps)) /\ K src U (fst (fst (istepF rf tf st pos ps))) (snd (fst (istepF rf tf st pos ps))).
Proof. intros. apply istepF_prog; assumption. Qed.
Theorem C04_iloop src U rf tf f1 f2 st pos ps : spOK src U = true -> len src + ibudget U < Z.of_nat rf ->
  K src U st pos -> len src - pos < Z.of_nat f1 -> len src - pos < Z.of_nat f2 ->
  iloopF rf tf f1 st pos ps = iloopF rf tf f2 st pos ps.
Proof. intros. apply (iloopF_fuel src U); assumption. Qed.

(* ------------------------------------------------------------------------------------------------ (4) the composite
   parseInlinesF rf tf lf ofu is parseInlines with its fuels as parameters (IFTokDef; IFFrame.parseInlinesF_model: at the model's
   fuels it IS parseInlines).  processEmphasis keeps its own fuel (goal (3), see the report). *)
Theorem C04_parseInlines_fuel_independent src matcher b rf1 rf2 tf1 tf2 lf1 lf2 of1 of2 :
  spOK src (bik b) = true -> ind1 (bik b) = true ->
  len src + ibudget (bik b) < Z.of_nat rf1 -> len src + ibudget (bik b) < Z.of_nat rf2 ->
  len src + ibudget (bik b) < Z.of_nat tf1 -> len src + ibudget (bik b) < Z.of_nat tf2 ->
  len src < Z.of_nat lf1 -> len src < Z.of_nat lf2 ->
  len (bik b) < Z.of_nat of1 -> len (bik b) < Z.of_nat of2 ->
  parseInlinesF rf1 tf1 lf1 of1 src matcher b = parseInlinesF rf2 tf2 lf2 of2 src matcher b.
Proof.
  intros HOK HI R1 R2 T1 T2 L1 L2 O1 O2.
  rewrite (parseInlinesF_tf src (bik b) (spOK_spW _ _ HOK) HI rf1 R1 tf1 tf2 T1 T2 lf1 of1 matcher b eq_refl).
  apply parseInlinesF_fuel; assumption.
Qed.
(* the model's own fuels are adequate when the entries also satisfy T11's budget condition: surplus fuel changes nothing *)
Theorem C04_parseInlines_fuel_adequate src matcher b rf tf lf ofu :
  spOK src (bik b) = true -> ind1 (bik b) = true -> ibudget (bik b) <= len src + 9 ->
  (2 * length src + 10 <= rf)%nat -> (2 * length src + 10 <= tf)%nat -> (S (length src) <= lf)%nat -> (S (length (bik b)) <= ofu)%nat ->
  parseInlinesF rf tf lf ofu src matcher b = parseInlines src matcher b.
Proof.
  intros HOK HI HB R T L O. rewrite <- parseInlinesF_model. unfold len in *.
  apply C04_parseInlines_fuel_independent; try assumption; unfold len; lia.
Qed.

(* ------------------------------------------------------------------------------------------------ (3) processEmphasis
   TI st   (IFPe)  the forest / stack invariant: positive node identities are unique and below nid, the delimiters on the stack
                   carry positive identities below nid, and the nodes they name start at a non-negative offset.
   Phi st sb       the measure: for every delimiter at or above the stack bottom, 1 + the remaining length of its node.
   processEmphasisF pf is processEmphasis with its fuel as a parameter. *)
Theorem C04_processEmphasis_step sb st ob cp st' ob' cp' : Inv sb (stk st) ob cp -> TI st ->
  pe_step st ob cp = Some (st', ob', cp') ->
  Inv sb (stk st') ob' cp' /\ TI st' /\ Mono st st' /\ Phi st' cp' < Phi st cp.
Proof. apply pe_step_inv. Qed.
Theorem C04_processEmphasis_fuel pf1 pf2 st sb : 0 <= sb -> TI st -> Phi st sb < Z.of_nat pf1 -> Phi st sb < Z.of_nat pf2 ->
  processEmphasisF pf1 st sb = processEmphasisF pf2 st sb.
Proof. apply processEmphasis_fuel. Qed.
(* the model's fuel is adequate whenever the remaining delimiter lengths on the stack add up to at most len src *)
Theorem C04_processEmphasis_adequate pf st sb : 0 <= sb -> TI st -> sumW st (stk st) <= len (isrc st) ->
  (4 * (length (stk st) + length (isrc st)) + 8 <= pf)%nat -> processEmphasisF pf st sb = processEmphasis st sb.
Proof. apply processEmphasis_adequate. Qed.

(* ------------------------------------------------------------------------------------------------ (4) the composite, all fuels
   parseInlinesG rf tf pf lf ofu (IFTk5) is parseInlines with EVERY fuel of the inline parser as a parameter (reader loops rf, label
   normalisation tf, processEmphasis pf, tokeniser loop lf, entry loop ofu).  The invariant TI and the bound on the load of the
   delimiter stack are carried through the whole tokeniser (IFTk1..IFTk5), so that every call of processEmphasis meets the
   hypotheses of (3). *)
Theorem C04_parseInlines_all_fuels src matcher b rf tf pf lf ofu :
  spOK src (bik b) = true -> ind1 (bik b) = true -> ibudget (bik b) <= len src + 9 ->
  (2 * length src + 10 <= rf)%nat -> (2 * length src + 10 <= tf)%nat -> (8 * length src + 8 <= pf)%nat ->
  (S (length src) <= lf)%nat -> (S (length (bik b)) <= ofu)%nat ->
  parseInlinesG rf tf pf lf ofu src matcher b = parseInlines src matcher b.
Proof.
  intros HOK HI HB R T P L O.
  rewrite <- (C04_parseInlines_fuel_adequate src matcher b rf tf lf ofu HOK HI HB R T L O).
  unfold parseInlinesG, parseInlinesF.
  assert (Hrf : len src + ibudget (bik b) < Z.of_nat rf) by (unfold len in *; lia).
  assert (HO0 : OI src (bik b) (st0 src matcher b)).
  { split; [reflexivity|]. split; [reflexivity|]. split; [cbn; lia|]. split.
    - split; [split; [intros x _; cbn; lia|intros h []]|]. split; [cbn; lia|]. split; intros d [].
    - unfold load, Sb. cbn [stk st0 sumW upos]. unfold len at 1. cbn [length].
      destruct (Z.ltb_spec 0 (len (bik b))) as [Lt|Lt]; [|pose proof (ShapesBase.len_nonneg src); lia].
      destruct (IFTokAux.spOK_In src (bik b) _ HOK (IFTokAux.nth_In_Z (bik b) 0 (mkI 0 0 0) ltac:(lia))) as (A & _). cbn in A |- *. lia. }
  destruct (outerG_eq src (bik b) HOK rf tf pf Hrf P lf ofu (st0 src matcher b) HO0) as [E1 (Es & Eu & Hu & TK & HL)].
  rewrite E1. set (stF := outerF rf tf lf ofu (st0 src matcher b)) in *.
  pose proof (Sb_le src (bik b) HOK rf pf P stF Hu) as HS. unfold load in HL.
  rewrite (processEmphasis_adequate pf stF 0); [reflexivity|lia|eapply TKb_TI; exact TK|rewrite Es; lia|rewrite Es; unfold len in *; lia].
Qed.

(* the entry list of an empty ATX heading (one EMPTY Unparsed entry; spOK asks for non-empty spans, so the theorem above does not
   cover it): nothing is ever scanned, every fuel will do *)
Theorem C04_parseInlines_all_fuels_empty src matcher b s rf tf pf lf ofu : bik b = [mkI UnparsedKind s s] -> (1 <= ofu)%nat ->
  parseInlinesG rf tf pf lf ofu src matcher b = parseInlines src matcher b.
Proof. apply empty_entry. Qed.

Print Assumptions C04_parseLinkTitle.
Print Assumptions C04_parseHTMLTag.
Print Assumptions C04_collectTextNodes.
Print Assumptions C04_parseInlineLink.
Print Assumptions C04_fresh_reader.
Print Assumptions C04_titleNeedsDest.
Print Assumptions C04_titleNeedsDest_spOK.
Print Assumptions C04_gramI.
Print Assumptions C04_gramI_doc.
Print Assumptions C04_parseCodeSpan.
Print Assumptions C04_istep_progress.
Print Assumptions C04_iloop.
Print Assumptions C04_parseInlines_fuel_independent.
Print Assumptions C04_parseInlines_fuel_adequate.
Print Assumptions C04_processEmphasis_step.
Print Assumptions C04_processEmphasis_fuel.
Print Assumptions C04_processEmphasis_adequate.
Print Assumptions C04_parseInlines_all_fuels.
Print Assumptions C04_parseInlines_all_fuels_empty.
