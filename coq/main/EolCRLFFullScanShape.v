From Coq Require Import List ZArith Lia Bool.
Import ListNotations.
Require Import Base Tables Utf8 Tree Rdr Link Collect Html Recog Inl3a ShapesBase ShapesR Leaf3e RdrBound IFBase IFLink IFCollect IFTokAux IFLabel.
Open Scope Z_scope.

(* (S3), third part: the shape of the nodes that collectTextNodes (no escapes) collects over a well-formed span list whose
   Indent entries are one byte wide: every node is a NON-EMPTY node of the text kind, or an Indent entry of the span list.
   This strengthens the invariant J / Good of IFLabel.collect_asc by a Forall over the accumulator. *)
Section Shape.
  Variable src : bytes.
  Variable S0 : list inline.
  Hypothesis HS0 : spW src S0 = true.
  Hypothesis Hind : forall i, In i S0 -> ikind i = IndentKind -> iend i = istart i + 1.
  Variable tk : Z.
  Notation J := (J src S0).

  Definition Qn (u : inline) : Prop := (ikind u = tk /\ istart u < iend u) \/ (In u S0 /\ ikind u = IndentKind).
  Lemma Qn_mk a b : a < b -> Qn (mkI tk a b).
  Proof. intros L. left. cbn [mkI ikind istart iend]. split; [reflexivity|exact L]. Qed.
  Lemma Forall_snoc {A} (Q : A -> Prop) l x : Forall Q l -> Q x -> Forall Q (l ++ [x]).
  Proof. intros H1 H2. apply Forall_app. split; [exact H1|]. constructor; [exact H2|constructor]. Qed.

  Lemma collect_shape : forall f r e ps acc, J r ps acc -> Forall Qn acc -> nu src r < Z.of_nat f ->
    Forall Qn (fst (collect_loop f r e tk false ps acc)).
  Proof.
    induction f as [|f IH]; intros r e ps acc HJ HQ Hf.
    { destruct HJ as (HP & _). pose proof (nu_nonneg src r HP). lia. }
    pose proof HJ as (HP & HSuf & Hlen & Hacc & Hends & Hps0 & Hps & H6 & Hbud).
    assert (Hdone : Forall Qn (fst (acc, ps))) by exact HQ.
    rewrite collect_noesc_S. destruct (e <=? r_pos r); [exact Hdone|].
    pose proof (curNode_Suf r) as HcS. pose proof (pos_curNode r) as Hcp. pose proof (nu_curNode src r) as Hcn.
    pose proof (PL_curNode src r HP) as HP0. pose proof (curNode_idem r) as Hidem.
    assert (Hprev0 : r_prev (snd (curNode r)) = r_prev r) by (destruct (curNode_fields r) as (_ & _ & _ & D); exact D).
    destruct (curNode_cases r) as [Ec|(pre & n & rest & Epre & Ec & Eh)]; rewrite Ec in *; cbn [fst snd okind] in *.
    - change (0 =? IndentKind) with false. cbv iota. destruct (e <=? _); [exact Hdone|].
      destruct (next (withSpans r [])) as [ok r1] eqn:En.
      destruct ok; cbn [negb]; [|exact Hdone].
      exfalso. destruct (next_true _ _ En) as (node & rest & Ec' & _). rewrite Hidem in Ec'. discriminate.
    - set (r0 := withSpans r (n :: rest)) in *.
      assert (Hn0 : In n S0) by (eapply Suf_In; [exact HSuf|]; rewrite Epre; apply in_or_app; right; left; reflexivity).
      destruct (spW_In src S0 n HS0 Hn0) as (N1 & N2 & N3).
      pose proof (spanHas_range _ _ Eh) as (R1 & R2 & R3).
      assert (HSuf0 : Suf (n :: rest) S0) by (eapply Suf_trans; [exact HcS|exact HSuf]).
      destruct (Z.eqb_spec (ikind n) IndentKind) as [Ek|Ek].
      + (* an Indent entry: copy it *)
        pose proof (Hind n Hn0 Ek) as Hn1. cbv zeta.
        assert (Ec0 : curNode r0 = (Some n, withSpans r0 (n :: rest))) by (rewrite Hidem; reflexivity).
        destruct (skipSameNode_res src (S f) r0 n rest HP0 Ec0 (fun _ => Hn1) ltac:(lia)) as (K1 & K2 & K3).
        pose proof (skipSameNode_prog src (S f) r0 n HP0) as (K4 & _).
        pose proof (skipSameNode_lt src f r0 n n HP0 ltac:(rewrite Ec0; reflexivity)) as K5.
        set (r1 := skipSameNode (S f) r0 n) in *.
        set (acc1 := if ps <? r_pos r0 then acc ++ [mkI tk ps (r_prev r0 + 1)] else acc).
        assert (Hacc1 : spW src acc1 = true /\ (forall x, In x acc1 -> iend x <= istart n) /\ ibudget acc1 = ibudget acc /\ Forall Qn acc1).
        { unfold acc1. destruct (Z.ltb_spec ps (r_pos r0)) as [L|L].
          - destruct (H6 ltac:(lia)) as [P1 P2]. split; [|split; [|split]].
            + apply spW_snoc; cbn [mkI istart iend]; try lia; [exact Hacc|]. intros y Hy. exact (Hends y Hy).
            + intros x Hx. apply in_app_or in Hx. destruct Hx as [Hx|[<-|[]]]; [specialize (Hends x Hx); lia|cbn [mkI iend]; lia].
            + rewrite ibudget_app, ibudget_mkI. lia.
            + apply Forall_snoc; [exact HQ|apply Qn_mk; lia].
          - split; [exact Hacc|]. split; [|split; [reflexivity|exact HQ]]. intros x Hx. specialize (Hends x Hx). lia. }
        destruct Hacc1 as (A1 & A2 & A3 & A4).
        assert (HJ' : J r1 (r_pos r1) (acc1 ++ [n])).
        { unfold IFLabel.J. split; [exact K4|]. split; [eapply Suf_trans; [exact K1|]; eapply Suf_trans; [apply Suf_cons|exact HSuf0]|].
          split; [exact K3|]. split; [apply spW_snoc; assumption|]. split.
          { intros x Hx. apply in_app_or in Hx. destruct Hx as [Hx|[<-|[]]]; [specialize (A2 x Hx); lia|lia]. }
          split; [lia|]. split; [lia|]. split; [intros; lia|].
          rewrite ibudget_app, A3. pose proof (ibudget_Suf _ _ K1) as B1. pose proof (ibudget_Suf _ _ HcS) as B2.
          unfold r0 in B2. cbn [withSpans r_spans] in B2.
          assert (B3 : ibudget [n] + ibudget rest = ibudget (n :: rest)) by (cbn [ibudget]; lia). lia. }
        apply IH; [exact HJ'| |lia]. apply Forall_snoc; [exact A4|]. right. split; [exact Hn0|exact Ek].
      + (* a text entry: one step *)
        destruct (e <=? _); [exact Hdone|].
        destruct (next r0) as [ok r1] eqn:En. destruct ok; cbn [negb]; [|exact Hdone].
        destruct (next_ok_facts src r0 r1 HP0 En) as (m & Em & F1 & F2 & F3 & F4 & F5 & F6).
        rewrite Hidem in Em. cbn [fst] in Em. inversion Em; subst m. specialize (F6 Ek).
        pose proof (next_W src r0 HP0) as W. rewrite En in W. cbn [fst snd] in W. destruct W as (W1 & _ & _ & W4 & _). specialize (W4 eq_refl).
        assert (HSuf1 : Suf (r_spans r1) S0) by (eapply Suf_trans; [exact F2|exact HSuf0]).
        pose proof (ibudget_Suf _ _ F2) as B1. pose proof (ibudget_Suf _ _ HcS) as B2. unfold r0 in B1, B2. cbn [withSpans r_spans] in B1, B2.
        destruct (jumped r1) eqn:Ej.
        * unfold jumped in Ej. apply andb_true_iff in Ej. destruct Ej as [_ Ej]. apply Z.ltb_lt in Ej.
          assert (Hacc' : spW src (if ps <=? r_prev r1 then acc ++ [mkI tk ps (r_prev r1 + 1)] else acc) = true /\
                          (forall x, In x (if ps <=? r_prev r1 then acc ++ [mkI tk ps (r_prev r1 + 1)] else acc) -> iend x <= r_pos r1) /\
                          ibudget (if ps <=? r_prev r1 then acc ++ [mkI tk ps (r_prev r1 + 1)] else acc) = ibudget acc /\
                          Forall Qn (if ps <=? r_prev r1 then acc ++ [mkI tk ps (r_prev r1 + 1)] else acc)).
          { destruct (Z.leb_spec ps (r_prev r1)) as [L|L].
            - split; [|split; [|split]].
              + apply spW_snoc; cbn [mkI istart iend]; try lia; [exact Hacc|]. intros y Hy. exact (Hends y Hy).
              + intros x Hx. apply in_app_or in Hx. destruct Hx as [Hx|[<-|[]]]; [specialize (Hends x Hx); lia|cbn [mkI iend]; lia].
              + rewrite ibudget_app, ibudget_mkI. lia.
              + apply Forall_snoc; [exact HQ|apply Qn_mk; lia].
            - split; [exact Hacc|]. split; [|split; [reflexivity|exact HQ]]. intros x Hx. specialize (Hends x Hx). lia. }
          destruct Hacc' as (A1 & A2 & A3 & A4).
          apply IH; [|exact A4|lia].
          unfold IFLabel.J. split; [exact W1|]. split; [exact HSuf1|]. split; [exact F3|].
          split; [exact A1|]. split; [exact A2|]. split; [lia|]. split; [lia|]. split; [intros; lia|]. lia.
        * apply IH; [|exact HQ|lia]. unfold IFLabel.J. split; [exact W1|]. split; [exact HSuf1|]. split; [exact F3|]. split; [exact Hacc|].
          split; [exact Hends|]. split; [lia|]. split; [lia|]. split; [intros _; lia|]. lia.
  Qed.

  Theorem collectTextNodes_shape f p e : 0 <= p <= len src -> e <= len src -> len src + ibudget S0 < Z.of_nat f ->
    Forall (fun u => (ikind u = tk /\ istart u < iend u) \/ (In u S0 /\ ikind u = IndentKind))
           (collectTextNodes f (newReader src S0 p) e tk false).
  Proof.
    intros Hp He Hf. unfold collectTextNodes. pose proof (nu_new src S0 p HS0) as Hn.
    assert (HJ : J (newReader src S0 p) p []).
    { unfold IFLabel.J. cbn [newReader r_pos r_spans r_prev ibudget]. split; [apply PL_new, HS0|]. split; [apply Suf_refl|]. split; [lia|].
      split; [reflexivity|]. split; [intros x []|]. split; [lia|]. split; [lia|]. split; [intros; lia|]. lia. }
    pose proof (collect_shape f (newReader src S0 p) e p [] HJ (Forall_nil _) ltac:(lia)) as G.
    cbn [newReader r_pos]. destruct (collect_loop f (newReader src S0 p) e tk false p []) as [acc ps]. cbn [fst] in G.
    destruct (Z.ltb_spec ps e) as [L|L]; [|exact G].
    apply Forall_snoc; [exact G|apply Qn_mk; exact L].
  Qed.
End Shape.
Print Assumptions collectTextNodes_shape.
