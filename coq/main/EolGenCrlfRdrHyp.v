From Coq Require Import List ZArith Lia Bool.
Import ListNotations.
Require Import Base Tree Rdr LP LADef EntBase ShapesR IFBase EolCRLFDefs EolCRLFSimBytes EolCRLFSimTree EolCRLFGenHyp.
Require EolGenCrlfRdrDefs EolGenCrlfRdrMain EolGenCrlfRdrCor EolGenCrlfRdrOut.
Open Scope Z_scope.

(* the interface record of EolCRLFGenHyp.v, instantiated *)
Lemma LIM_limit R ik : LIM R -> EolGenCrlfRdrDefs.PEc R ik -> len (crlf R) + ibudget ik < 999.
Proof.
  unfold LIM. intros HL HP. destruct (EolGenCrlfRdrDefs.PEc_entOK R ik HP) as [_ Hb].
  pose proof (len_crlf R) as H1. pose proof (count10_nonneg R) as H2. lia.
Qed.

Definition ocpHyp : OcpHyp.
Proof.
  refine {| PEc := EolGenCrlfRdrDefs.PEc; PEc_nil := EolGenCrlfRdrDefs.PEc_nil; PEc_orphan := EolGenCrlfRdrDefs.PEc_orphan;
            PEc_lines := EolGenCrlfRdrCor.PEc_lines; H_ocp2 := _; H_nn := _; H_out := _ |}.
  - intros R b R13 HL _ HP _. apply (EolGenCrlfRdrMain.ocp_crlf R R13 b (LIM_limit R _ HL HP) HP).
  - intros R b _ HP Hn. apply EolGenCrlfRdrOut.onCloseParagraph_nn; assumption.
  - intros R b y _ HP He Hy. destruct (EolGenCrlfRdrOut.onCloseParagraph_out R b y HP He Hy) as (A & B & _). split; [exact A|exact B].
Defined.
Print Assumptions ocpHyp.
