From Coq Require Import List ZArith Lia Bool.
Import ListNotations.
Require Import Base Tables Utf8 Tree Rdr Link Collect Html Recog Inl3a Inl3b Inl3c Inl3d ShapesBase ShapesR IFBase IFLink IFHtml
  EolCRBytes EolCRLFDefs EolCRLFSimBytes EolCRLFSimStream
  EolGenCrlfRdrDefs EolGenCrlfRdrStep EolGenCrlfRdrNext EolGenCrlfRdrLink EolGenCrlfRdrLink2 EolGenCrlfRdrLink3 EolGenCrlfRdrColl
  EolCRLFFullHtml1 EolCRLFFullHtml2 EolCRLFFullHtml3 EolCRLFFullHtml4.
Open Scope Z_scope.

(* C14 (ii), CRLF clause: parseHTMLTag (Inl3d.v) commutes with the map crlf. *)

Section HtmlSim5.
  Variable R : bytes.
  Variable Eb : Z.
  Hypothesis R13 : ~ In 13 R.
  Notation P := (phiP R).
  Notation R' := (crlf R).
  Notation F := (phiI R).
  Notation RR := (RR R Eb).
  Notation RM := (RM R Eb).
  Notation SPI := (SPI R Eb).
  Notation W := (W R Eb).
  Notation mapS := (mapS R).

  Ltac neb := repeat first [apply Forall_nil | apply Forall_cons; [split; discriminate|]].

  Lemma letter_ne10 c : isASCIILetter c = true -> c <> 10.
  Proof. intros H ->. discriminate H. Qed.

  Theorem parseHTMLTag_sim f f' r r' : RR r r' -> nu R r < Z.of_nat f -> nu R' r' < Z.of_nat f' ->
    parseHTMLTag f' r' = mapS (parseHTMLTag f r).
  Proof.
    intros H Hn Hn'. unfold parseHTMLTag.
    destruct (RR_current R Eb r r' H) as [Ecu H0]. change (if cur r =? 10 then 13 else cur r) with (m13 (cur r)) in Ecu.
    rewrite Ecu, m13_eqb by discriminate. destruct (Z.eqb_spec (cur r) 60) as [E60|N60]; cbn [negb]; [|reflexivity].
    pose proof (nu_current R r) as N0. pose proof (nu_current R' r') as N0'.
    assert (C0 : cur (snd (current r)) = 60) by (rewrite cur_current; exact E60).
    destruct (next (snd (current r))) as [ok r1] eqn:En. destruct (next (snd (current r'))) as [ok' r1'] eqn:En'.
    destruct (nextE_RR R Eb _ _ _ _ _ _ H0 ltac:(rewrite C0; discriminate) En En') as (-> & H1 & _ & [U1 _] & [U1' _]).
    rewrite (jumped_sim R Eb r1 r1' H1). destruct (negb ok || jumped r1); [reflexivity|].
    destruct (RR_current R Eb r1 r1' H1) as [Ecu1 H1c]. change (if cur r1 =? 10 then 13 else cur r1) with (m13 (cur r1)) in Ecu1.
    rewrite Ecu1.
    pose proof (nu_current R r1) as N1. pose proof (nu_current R' r1') as N1'. pose proof (cur_current r1) as C1.
    rewrite (RR_pos R Eb _ _ H).
    remember (cur r1) as c eqn:Dc. remember (snd (current r1)) as q1 eqn:Dq. remember (snd (current r1')) as q1' eqn:Dq'.
    clear Dc Dq Dq' Ecu1.
    rewrite !m13_eqb by discriminate.
    destruct (Z.eqb_spec c 63) as [E63|N63].
    { (* processing instruction *)
      destruct (next q1) as [ok2 r2] eqn:En2. destruct (next q1') as [ok2' r2'] eqn:En2'.
      destruct (nextE_RR R Eb _ _ _ _ _ _ H1c ltac:(rewrite C1, E63; discriminate) En2 En2') as (-> & H2 & _ & [V1 _] & [V1' _]).
      destruct ok2; cbn [negb]; [|reflexivity]. apply (ht_pi_sim R Eb R13); [left; exact H2|reflexivity|lia|lia]. }
    destruct (Z.eqb_spec c 33) as [E33|N33].
    { destruct (next q1) as [ok2 r2] eqn:En2. destruct (next q1') as [ok2' r2'] eqn:En2'.
      destruct (nextE_RR R Eb _ _ _ _ _ _ H1c ltac:(rewrite C1, E33; discriminate) En2 En2') as (-> & H2 & _ & [V1 _] & [V1' _]).
      rewrite (jumped_sim R Eb r2 r2' H2). destruct (negb ok2 || jumped r2); [reflexivity|].
      destruct (rnb_sim R Eb r2 r2' H2) as [Er H3].
      pose proof (next_rnb r2) as Sn. pose proof (next_rnb r2') as Sn'.
      pose proof (nextNok_rnb 6 r2) as Sk. pose proof (nextNok_rnb 6 r2') as Sk'.
      pose proof (nu_remaining R r2) as Nr. pose proof (nu_remaining R' r2') as Nr'.
      destruct (remainingNodeBytes r2) as [rem r3] eqn:Erm. destruct (remainingNodeBytes r2') as [rem' r3'] eqn:Erm'.
      cbn [fst snd] in Er, H3, Sn, Sn', Sk, Sk', Nr, Nr'. subst rem'.
      rewrite crlf_head_test.
      destruct ((0 <? len rem) && isASCIILetter (at_ rem 0)) eqn:Ed.
      { (* declaration *)
        apply andb_true_iff in Ed. destruct Ed as [Ed1 Ed2].
        assert (Hp : hasBytePrefix (fst (remainingNodeBytes r2)) [at_ rem 0] = true).
        { rewrite Erm. cbn [fst]. destruct rem as [|x t]; [discriminate Ed1|]. cbn [hasBytePrefix]. change (at_ (x :: t) 0) with x.
          rewrite Z.eqb_refl. destruct t; reflexivity. }
        destruct (pre_last R Eb r2 r2' _ [] H2 (letter_ne10 _ Ed2) Hp) as [N10 _].
        rewrite Sn, Sn'. destruct (next r2) as [ok3 r4] eqn:En3. destruct (next r2') as [ok3' r4'] eqn:En3'.
        destruct (nextE_RR R Eb _ _ _ _ _ _ H2 N10 En3 En3') as (_ & H4 & _ & [X1 _] & [X1' _]). cbn [snd].
        pose proof (ht_until_sim R Eb R13 f' f r4 r4' 62 (or_introl H4) ltac:(discriminate) ltac:(discriminate) ltac:(lia) ltac:(lia)) as Hu.
        destruct (ht_until f r4 62) as [r5|]; destruct (ht_until f' r4' 62) as [r5'|]; cbn [SimO] in Hu; try contradiction; [|reflexivity].
        destruct Hu as [H5 C5]. unfold EolGenCrlfRdrLink3.mapS. cbn [fst snd]. f_equal.
        apply (pos_succ R Eb); [exact H5|rewrite C5; discriminate|rewrite C5; discriminate]. }
      assert (B2 : noEolB [45;45]) by neb. assert (B7 : noEolB [91;67;68;65;84;65;91]) by neb.
      rewrite (hasBytePrefix_crlf rem _ B2), (hasBytePrefix_crlf rem _ B7).
      destruct (hasBytePrefix rem [45;45]) eqn:E2.
      { (* comment *)
        assert (Hp : hasBytePrefix (fst (remainingNodeBytes r2)) [45;45] = true) by (rewrite Erm; exact E2).
        destruct (pre_step R Eb r2 r2' 45 45 [] H2 ltac:(discriminate) Hp) as (r4 & r4' & En3 & En3' & H4 & Hp4 & X2 & X2').
        destruct (pre_last R Eb r4 r4' 45 [] H4 ltac:(discriminate) Hp4) as [N10 _].
        rewrite Sn, Sn', En3, En3'. cbn [snd].
        destruct (next r4) as [ok4 r5] eqn:En4. destruct (next r4') as [ok4' r5'] eqn:En4'.
        destruct (nextE_RR R Eb _ _ _ _ _ _ H4 N10 En4 En4') as (-> & H5 & _ & [Y1 _] & [Y1' _]).
        rewrite (jumped_sim R Eb r5 r5' H5). destruct (negb ok4 || jumped r5); [reflexivity|].
        destruct (rnb_sim R Eb r5 r5' H5) as [Er5 H6].
        pose proof (nu_remaining R r5) as Nr5. pose proof (nu_remaining R' r5') as Nr5'.
        destruct (remainingNodeBytes r5) as [ts r6]. destruct (remainingNodeBytes r5') as [ts' r6'].
        cbn [fst snd] in Er5, H6, Nr5, Nr5'. subst ts'.
        assert (B1 : noEolB [62]) by neb. assert (B1b : noEolB [45;62]) by neb.
        rewrite (hasBytePrefix_crlf ts _ B1), (hasBytePrefix_crlf ts _ B1b).
        destruct (hasBytePrefix ts [62] || hasBytePrefix ts [45;62]); [reflexivity|].
        apply (ht_comment_sim R Eb); [left; exact H6|reflexivity|lia|lia]. }
      destruct (hasBytePrefix rem [91;67;68;65;84;65;91]) eqn:E7; [|reflexivity].
      { (* CDATA *)
        assert (Hp : hasBytePrefix (fst (remainingNodeBytes r2)) [91;67;68;65;84;65;91] = true) by (rewrite Erm; exact E7).
        assert (Hne : Forall (fun c : Z => c <> 10) [91;67;68;65;84;65;91]) by (repeat (constructor; [discriminate|]); constructor).
        pose proof (nextNok_sim R Eb [91;67;68;65;84;65;91] r2 r2' H2 Hne Hp) as Hk.
        change (length [91;67;68;65;84;65;91]) with 7%nat in Hk. rewrite Sk, Sk'.
        destruct (RR_PL R Eb _ _ H2) as [Q2 Q2'].
        destruct (nextNok 7 r2) as [r4|] eqn:Ek; destruct (nextNok 7 r2') as [r4'|] eqn:Ek'; cbn [SimO] in Hk; try contradiction; [|reflexivity].
        pose proof (prog_nu R _ _ (nextNok_prog R 7 r2 r4 Q2 Ek)) as G4. pose proof (prog_nu R' _ _ (nextNok_prog R' 7 r2' r4' Q2' Ek')) as G4'.
        apply (ht_cdata_sim R Eb); [left; exact Hk|reflexivity|lia|lia]. } }
    destruct (Z.eqb_spec c 47) as [E47|N47].
    { destruct (parseHTMLClosingTag_sim R Eb R13 f f' q1 q1' H1c ltac:(lia) ltac:(lia)) as [Ee _].
      destruct (parseHTMLClosingTag f q1) as [e rx]. destruct (parseHTMLClosingTag f' q1') as [e' rx']. cbn [fst] in Ee. subst e'.
      rewrite phiP_sign. destruct (e <? 0); reflexivity. }
    destruct (parseHTMLOpenTag_sim R Eb R13 f f' q1 q1' H1c ltac:(lia) ltac:(lia)) as [Ee _].
    destruct (parseHTMLOpenTag f q1) as [e rx]. destruct (parseHTMLOpenTag f' q1') as [e' rx']. cbn [fst] in Ee. subst e'.
    rewrite phiP_sign. destruct (e <? 0); reflexivity.
  Qed.
End HtmlSim5.

Check parseHTMLTag_sim.
Print Assumptions parseHTMLTag_sim.

(* the theorem can be called on fresh readers placed anywhere (in particular on a '<' byte) *)
Corollary parseHTMLTag_sim_new R Eb sp pos f f' : ~ In 13 R -> SPI R Eb sp ->
  nu R (newReader R sp pos) < Z.of_nat f -> nu (crlf R) (newReader (crlf R) (map (phiI R) sp) (phiP R pos)) < Z.of_nat f' ->
  parseHTMLTag f' (newReader (crlf R) (map (phiI R) sp) (phiP R pos)) = mapS R (parseHTMLTag f (newReader R sp pos)).
Proof. intros R13 G Hn Hn'. apply (parseHTMLTag_sim R Eb R13); [apply RR_new; exact G|exact Hn|exact Hn']. Qed.
Print Assumptions parseHTMLTag_sim_new.
