From Coq Require Import List ZArith Lia Bool.
Import ListNotations.
Require Import Base Tables Utf8 Tree Rdr Link Collect Html Recog LP Rules Starts Driver.
Require Import Leaf3e RdrBound BSRdr BSRdr2 BSOrph ExRdr.
Require ShapesR.
Open Scope Z_scope.

(* ================================================================================================
   T52, part 3 (ExOcp): the invariant that gives the spans of the label / destination / title entries of a link
   reference definition block, and its proof for onCloseParagraph / closeBlock.
     locX b  (kept over the whole run): a definition block with a non-negative start has start <= end and every entry of
             it lies inside [start, end] with start <= end of the entry;
     locQ b  (established at the start of every line, kept until the last close of the line): the entries of an open
             paragraph are sorted, non-empty, non-negative and end inside the source; an open setext heading (it exists
             only inside startSetext) moreover keeps paragraph content when its definitions are taken out (so that the
             "orphan" block of onCloseParagraph is never used, BSOrph).
   ================================================================================================ *)

Definition isPSb (k : Z) : bool := (k =? ParagraphKind) || (k =? SetextHeadingKind).
Fixpoint sortedSb (l : list inline) : bool :=
  match l with [] => true | i :: r => forallb (fun j => iend i <=? istart j) r && sortedSb r end.
Definition spLb (L : Z) (u : inline) : bool := (0 <=? istart u) && (istart u <? iend u) && (iend u <=? L).
Definition gB (L : Z) (ik : list inline) : bool := sortedSb ik && forallb (spLb L) ik.
Definition paraOf (ik : list inline) : block := Blk ParagraphKind 0 0 [] ik 0 0 0 false false.
Definition lpok (src : bytes) (ik : list inline) : bool := lastIsPara (onCloseParagraph src (paraOf ik)).
Definition locQ (src : bytes) (b : block) : bool :=
  negb ((bend b <? 0) && isPSb (bkind b)) ||
  (gB (len src) (bik b) && (negb (bkind b =? SetextHeadingKind) || lpok src (bik b))).
Definition inE (s e : Z) (u : inline) : bool := (s <=? istart u) && (istart u <=? iend u) && (iend u <=? e).
Definition locX (b : block) : bool :=
  negb (bkind b =? LinkReferenceDefinitionKind) || negb (0 <=? bstart b) ||
  ((bstart b <=? bend b) && forallb (inE (bstart b) (bend b)) (bik b)).

Lemma sortedSb_spec l : sortedSb l = true -> sortedS l.
Proof.
  induction l as [|i r IH]; [exact (fun _ => I)|]. cbn [sortedSb sortedS]. intros H. apply andb_true_iff in H. destruct H as [A B].
  split; [|apply IH, B]. intros j Hj. rewrite forallb_forall in A. apply Z.leb_le, A, Hj.
Qed.
Lemma spLb_spec L u : spLb L u = true -> spL L u.
Proof.
  unfold spLb, spL. intros H. apply andb_true_iff in H. destruct H as [H C]. apply andb_true_iff in H. destruct H as [A B].
  apply Z.leb_le in A, C. apply Z.ltb_lt in B. lia.
Qed.
Lemma gB_spec L ik : gB L ik = true -> sortedS ik /\ Forall (spL L) ik.
Proof.
  unfold gB. intros H. apply andb_true_iff in H. destruct H as [A B]. split; [apply sortedSb_spec, A|].
  apply Forall_forall. intros u Hu. rewrite forallb_forall in B. apply spLb_spec, B, Hu.
Qed.
Lemma sortedSb_skipn : forall n l, sortedSb l = true -> sortedSb (skipn n l) = true.
Proof.
  induction n as [|n IH]; intros l H; [exact H|]. destruct l as [|x l]; [reflexivity|]. cbn [skipn]. apply IH.
  cbn [sortedSb] in H. apply andb_true_iff in H. tauto.
Qed.

Lemma R_newReader src first rest : gB (len src) (first :: rest) = true -> R (newReader src (first :: rest) (istart first)).
Proof.
  intros H. apply gB_spec in H. destruct H as [Hs Hf].
  assert (Hh : spanHas first (istart first) = true) by (eapply spL_has; exact (Forall_inv Hf)).
  assert (Hc : fst (curNode (newReader src (first :: rest) (istart first))) <> None).
  { rewrite (ShapesR.curNode_head first rest (newReader src (first :: rest) (istart first)) eq_refl Hh). discriminate. }
  split; [split; [exact Hs|right; exact Hc]|]. split; [exact Hf|left; exact Hc].
Qed.

Section X.
  Variable src : bytes.

  Fixpoint inv2 (b : block) : bool :=
    match b with Blk K s e bk ik a n c l lb =>
      locQ src (Blk K s e bk ik a n c l lb) && locX (Blk K s e bk ik a n c l lb) && forallb inv2 bk end.
  Definition inv2L (l : list block) : bool := forallb inv2 l.
  Lemma inv2_eq b : inv2 b = locQ src b && locX b && inv2L (bkids b). Proof. destruct b; reflexivity. Qed.
  Lemma inv2_parts b : inv2 b = true -> locQ src b = true /\ locX b = true /\ inv2L (bkids b) = true.
  Proof. rewrite inv2_eq. intros H. apply andb_true_iff in H. destruct H as [H C]. apply andb_true_iff in H. tauto. Qed.
  Lemma inv2_mk b : locQ src b = true -> locX b = true -> inv2L (bkids b) = true -> inv2 b = true.
  Proof. intros A B C. rewrite inv2_eq, A, B, C. reflexivity. Qed.
  Lemma inv2L_app a b : inv2L (a ++ b) = inv2L a && inv2L b. Proof. apply forallb_app. Qed.
  Lemma inv2L_snoc l x : inv2L l = true -> inv2 x = true -> inv2L (l ++ [x]) = true.
  Proof. intros A B. rewrite inv2L_app, A. cbn. rewrite B. reflexivity. Qed.

  Lemma isPS_notref k : isPSb k = true -> (k =? LinkReferenceDefinitionKind) = false.
  Proof. unfold isPSb. intros H. apply orb_true_iff in H. destruct H as [H|H]; apply Z.eqb_eq in H; subst; reflexivity. Qed.

  (* a closed paragraph / heading, whatever its entries *)
  Lemma inv2_closedPS b : 0 <= bend b -> isPSb (bkind b) = true -> inv2L (bkids b) = true -> inv2 b = true.
  Proof.
    intros He Hk Hc. apply inv2_mk; [| |exact Hc].
    - unfold locQ. destruct (Z.ltb_spec (bend b) 0); [lia|reflexivity].
    - unfold locX. rewrite (isPS_notref _ Hk). reflexivity.
  Qed.
  Lemma cut_fields orig pos ik : bkids (set_bik (set_bstart orig pos) ik) = bkids orig /\ bend (set_bik (set_bstart orig pos) ik) = bend orig /\
    bkind (set_bik (set_bstart orig pos) ik) = bkind orig.
  Proof. destruct orig; repeat split. Qed.
  Lemma inv2_cut orig pos ik : 0 <= bend orig -> isPSb (bkind orig) = true -> inv2L (bkids orig) = true ->
    inv2 (set_bik (set_bstart orig pos) ik) = true.
  Proof.
    intros A B C. destruct (cut_fields orig pos ik) as (E1 & E2 & E3). apply inv2_closedPS; [rewrite E2; exact A|rewrite E3; exact B|rewrite E1; exact C].
  Qed.
  Lemma inE_intro s e u : s <= istart u -> istart u <= iend u -> iend u <= e -> inE s e u = true.
  Proof. intros A B C. unfold inE. apply andb_true_iff. split; [apply andb_true_iff; split|]; apply Z.leb_le; assumption. Qed.
  Lemma inv2_refDef s d kids : (0 <= s -> s <= d /\ forallb (inE s d) kids = true) -> inv2 (refDefBlock s d kids) = true.
  Proof.
    intros H. unfold refDefBlock. apply inv2_mk; [unfold locQ; cbn [bkind]; change (isPSb LinkReferenceDefinitionKind) with false; rewrite andb_false_r; reflexivity| |reflexivity]. unfold locX. cbn [bkind bstart bend bik].
    change (LinkReferenceDefinitionKind =? LinkReferenceDefinitionKind) with true. cbn [negb orb].
    destruct (Z.leb_spec 0 s) as [L|L]; [|reflexivity]. destruct (H L) as [A B]. cbn [negb orb]. rewrite B, andb_true_r. apply Z.leb_le, A.
  Qed.

  Lemma X_ocp : forall fuel rfuel orig r result, rfuel <> O -> R r -> 0 <= bend orig -> isPSb (bkind orig) = true ->
    inv2L (bkids orig) = true -> inv2L result = true -> inv2L (ocp_loop fuel rfuel src orig None r result) = true.
  Proof.
    induction fuel as [|f IH]; intros rfuel orig r result Hrf HR He Hk Hc Hres.
    { cbn [ocp_loop]. apply inv2L_snoc; [exact Hres|apply inv2_closedPS; assumption]. }
    assert (Hkeep : inv2L (result ++ [orig]) = true) by (apply inv2L_snoc; [exact Hres|apply inv2_closedPS; assumption]).
    cbn [ocp_loop]. cbv zeta.
    pose proof (parseLinkLabel_T rfuel r HR) as HL. pose proof (R_parseLinkLabel rfuel r HR) as HR1.
    destruct (parseLinkLabel rfuel r) as [[lspan linner] r1]. cbn [fst snd] in HL, HR1.
    destruct (negb (spanValid lspan)) eqn:Ev; [exact Hkeep|]. apply negb_false_iff in Ev.
    destruct (HL Ev) as (Es & L1 & L2 & L3 & L4). clear HL.
    assert (Hs0 : 0 <= fst lspan).
    { unfold spanValid in Ev. apply andb_true_iff in Ev. destruct Ev as [Ev _]. apply andb_true_iff in Ev. destruct Ev as [Ev _]. apply Z.leb_le, Ev. }
    set (s := fst lspan) in *.
    pose proof (fun x => T_current x r1) as HT2. pose proof (R_current r1 HR1) as HR2.
    destruct (current r1) as [c r2]. cbn [fst snd] in *.
    destruct (Z.eqb_spec c 58) as [E58|N58]; cbn [negb]; [|exact Hkeep].
    assert (TL1 : T (snd lspan) r1) by (destruct L4 as [A|A]; [exact A|lia]).
    pose proof (HT2 _ TL1) as TL2. clear HT2.
    pose proof (T_next _ _ TL2) as TL3. pose proof (R_next r2 HR2) as HR3.
    destruct (next r2) as [ok3 r3]. cbn [snd] in *.
    pose proof (T_skipLinkSpace _ rfuel _ TL3) as TL4. pose proof (R_skipLinkSpace rfuel r3 HR3) as HR4.
    destruct (skipLinkSpace rfuel r3) as [ok r4]. cbn [snd] in *. destruct (negb ok); [exact Hkeep|].
    pose proof (T_parseLinkDestination _ rfuel _ TL4) as TL5. pose proof (R_parseLinkDestination rfuel r4 HR4) as HR5.
    pose proof (parseLinkDestination_T rfuel r4 HR4) as HD.
    destruct (parseLinkDestination rfuel r4) as [[dspan dtext] r5]. cbn [fst snd] in *.
    destruct (negb (spanValid dspan)) eqn:Evd; [exact Hkeep|]. apply negb_false_iff in Evd.
    destruct (HD Evd) as (Ed & TD5). clear HD.
    assert (Hdv : fst dspan <= snd dspan).
    { unfold spanValid in Evd. apply andb_true_iff in Evd. destruct Evd as [_ Evd]. apply Z.leb_le, Evd. }
    assert (Hds : s <= fst dspan) by (destruct TL4 as (_ & A & _); lia).
    pose proof (readEOL_T rfuel r5 HR5) as HE. pose proof (R_readEOL rfuel r5 HR5) as HR6.
    pose proof (T_readEOL _ rfuel _ TL5) as TL6. pose proof (T_readEOL _ rfuel _ TD5) as TD6.
    destruct (readEOL rfuel r5) as [destEOL r6]. cbn [fst snd] in *.
    (* what a negative destEOL means *)
    assert (Hneg : destEOL < 0 -> fst (skipLinkSpace rfuel (snd (current r6))) = true).
    { intros Hn. destruct HE as [(_ & ra & Era & N0 & Ns)|HB].
      - destruct rfuel as [|rf]; [contradiction|]. rewrite Era. apply sls_true; assumption.
      - specialize (HB _ TL5). lia. }
    assert (Hpos : 0 <= destEOL -> snd lspan <= destEOL /\ snd dspan <= destEOL).
    { intros Hp. destruct HE as [(E1 & _)|HB]; [lia|]. split; apply HB; assumption. }
    clear HE.
    pose proof (T_current _ _ TL6) as TL7. pose proof (T_current _ _ TD6) as TD7. pose proof (R_current r6 HR6) as HR7.
    destruct (current r6) as [c6 r7]. cbn [fst snd] in *.
    destruct (_ && _ && _); [exact Hkeep|].
    set (labelInline := Inl LinkLabelKind _ _ 0 _ _). set (destInline := Inl LinkDestinationKind _ _ 0 [] _).
    assert (H2 : 0 <= destEOL -> inv2L (result ++ [refDefBlock s destEOL [labelInline; destInline]]) = true).
    { intros Hp. destruct (Hpos Hp) as [P1 P2]. apply inv2L_snoc; [exact Hres|]. apply inv2_refDef. intros _. split; [lia|].
      cbn [forallb]. unfold labelInline, destInline. rewrite !inE_intro; cbn [istart iend]; first [lia|reflexivity]. }
    pose proof (T_skipLinkSpace _ rfuel _ TL7) as TL8. pose proof (T_skipLinkSpace _ rfuel _ TD7) as TD8.
    pose proof (R_skipLinkSpace rfuel r7 HR7) as HR8.
    destruct (skipLinkSpace rfuel r7) as [ok2 r8]. cbn [fst snd] in *.
    destruct ok2; cbn [negb].
    2:{ apply H2. destruct (Z.lt_ge_cases destEOL 0) as [Ln|Ln]; [specialize (Hneg Ln); discriminate|exact Ln]. }
    pose proof (T_parseLinkTitle _ rfuel _ TL8) as TL9. pose proof (T_parseLinkTitle _ rfuel _ TD8) as TD9.
    pose proof (R_parseLinkTitle rfuel r8 HR8) as HR9. pose proof (parseLinkTitle_T rfuel r8 HR8) as HTi.
    destruct (parseLinkTitle rfuel r8) as [[tspan ttext] r9]. cbn [fst snd] in *.
    assert (Hcut : forall pos ik', inv2 (set_bik (set_bstart orig pos) ik') = true) by (intros; apply inv2_cut; assumption).
    assert (Hcut' : forall pos ik', let o := set_bik (set_bstart orig pos) ik' in 0 <= bend o /\ isPSb (bkind o) = true /\ inv2L (bkids o) = true).
    { intros pos ik' o. destruct (cut_fields orig pos ik') as (E1 & E2 & E3). fold o in E1, E2, E3. rewrite E1, E2, E3. tauto. }
    destruct (negb (spanValid tspan)) eqn:Evt.
    { destruct (Z.ltb_spec destEOL 0) as [Ln|Ln]; [exact Hkeep|].
      destruct (nodeIndexForPosition (bik orig) (r_pos r6) <? 0); [apply H2, Ln|].
      destruct (Hcut' (r_pos r6) (from_ (bik orig) (nodeIndexForPosition (bik orig) (r_pos r6)))) as (C1 & C2 & C3).
      apply IH; try assumption. apply H2, Ln. }
    apply negb_false_iff in Evt. destruct (HTi Evt) as (Et & TT9). clear HTi.
    assert (Htv : fst tspan <= snd tspan).
    { unfold spanValid in Evt. apply andb_true_iff in Evt. destruct Evt as [_ Evt]. apply Z.leb_le, Evt. }
    assert (Hts : s <= fst tspan) by (destruct TL8 as (_ & A & _); lia).
    pose proof (readEOL_T rfuel r9 HR9) as HE2. pose proof (R_readEOL rfuel r9 HR9) as HR10.
    destruct (readEOL rfuel r9) as [titleEOL r10]. cbn [fst snd] in *.
    destruct (Z.ltb_spec titleEOL 0) as [Lt|Lt].
    { destruct (Z.ltb_spec destEOL 0) as [Ln|Ln]; [exact Hkeep|].
      destruct (nodeIndexForPosition (bik orig) (r_pos r6) <? 0); [apply H2, Ln|].
      rewrite app_assoc. apply inv2L_snoc; [apply H2, Ln|apply Hcut]. }
    set (titleInline := Inl LinkTitleKind _ _ 0 [] _).
    assert (H3 : inv2L (result ++ [refDefBlock s titleEOL [labelInline; destInline; titleInline]]) = true).
    { destruct HE2 as [(E1 & _)|HB]; [lia|]. pose proof (HB _ TL9) as P1. pose proof (HB _ TD9) as P2. pose proof (HB _ TT9) as P3.
      apply inv2L_snoc; [exact Hres|]. apply inv2_refDef. intros _. split; [lia|].
      cbn [forallb]. unfold labelInline, destInline, titleInline. rewrite !inE_intro; cbn [istart iend]; first [lia|reflexivity]. }
    destruct (nodeIndexForPosition (bik orig) (r_pos r10) <? 0); [exact H3|].
    destruct (Hcut' (r_pos r10) (from_ (bik orig) (nodeIndexForPosition (bik orig) (r_pos r10)))) as (C1 & C2 & C3).
    apply IH; assumption.
  Qed.
End X.

Section Close.
  Variable src : bytes.
  Notation inv2 := (inv2 src).
  Notation inv2L := (inv2L src).

  Lemma X_onCloseParagraph orig : 0 <= bend orig -> isPSb (bkind orig) = true -> inv2L (bkids orig) = true ->
    gB (len src) (bik orig) = true -> (bkind orig = SetextHeadingKind -> lpok src (bik orig) = true) ->
    inv2L (onCloseParagraph src orig) = true.
  Proof.
    intros He Hk Hc Hg Hl. unfold onCloseParagraph. destruct (bik orig) as [|first rest] eqn:Eb.
    - cbn [inv2L forallb]. rewrite (inv2_closedPS src orig He Hk Hc). reflexivity.
    - cbv zeta. assert (Hrf : (2 * length src + 10)%nat <> O) by lia.
      pose proof (R_newReader src first rest Hg) as HR.
      destruct (Z.eqb_spec (bkind orig) SetextHeadingKind) as [Ek|Ek].
      + rewrite (ocp_orphan_irrel _ _ src (paraOf (first :: rest)) orig _ _ [] []).
        * apply X_ocp; try assumption. reflexivity.
        * cbn [paraOf bik]. symmetry. exact Eb.
        * specialize (Hl Ek). unfold lpok, onCloseParagraph in Hl. cbn [paraOf bik bkind] in Hl.
          change (ParagraphKind =? SetextHeadingKind) with false in Hl. cbv iota zeta in Hl. exact Hl.
      + apply X_ocp; try assumption. reflexivity.
  Qed.

  (* ---- setters ---- *)
  Lemma inv2_set_bn b v : inv2 (set_bn b v) = inv2 b. Proof. destruct b; reflexivity. Qed.
  Lemma inv2_set_bchar b v : inv2 (set_bchar b v) = inv2 b. Proof. destruct b; reflexivity. Qed.
  Lemma inv2_set_bindent b v : inv2 (set_bindent b v) = inv2 b. Proof. destruct b; reflexivity. Qed.
  Lemma inv2_set_bloose b v : inv2 (set_bloose b v) = inv2 b. Proof. destruct b; reflexivity. Qed.
  Lemma inv2_set_blast b v : inv2 (set_blast b v) = inv2 b. Proof. destruct b; reflexivity. Qed.
  Lemma inv2_set_bkids b ks : inv2 b = true -> inv2L ks = true -> inv2 (set_bkids b ks) = true.
  Proof.
    intros H Hk. apply inv2_parts in H. destruct H as (A & B & _). destruct b as [K s e bk ik a n c l lb].
    cbn [set_bkids]. rewrite inv2_eq. cbn [bkids]. rewrite Hk, andb_true_r. apply andb_true_iff. split; [exact A|exact B].
  Qed.
  Lemma inv2_set_bend_open b e : bend b < 0 -> 0 <= e -> inv2 b = true -> inv2 (set_bend b e) = true.
  Proof.
    intros Ho He H. apply inv2_parts in H. destruct H as (A & B & C). destruct b as [K s e0 bk ik a n c l lb]. cbn [bend] in Ho.
    cbn [set_bend]. apply inv2_mk; [| |exact C].
    - unfold locQ. cbn [bend]. destruct (Z.ltb_spec e 0); [lia|reflexivity].
    - unfold locX in *. cbn [bkind bstart bend bik] in *. destruct (K =? LinkReferenceDefinitionKind); [|reflexivity]. cbn [negb orb] in *.
      destruct (Z.leb_spec 0 s) as [L|L]; [|reflexivity]. cbn [negb orb] in B. apply andb_true_iff in B. destruct B as [B _]. apply Z.leb_le in B. lia.
  Qed.
  Lemma inv2_set_bik_free b ik' : isPSb (bkind b) = false -> bkind b <> LinkReferenceDefinitionKind -> inv2 b = true -> inv2 (set_bik b ik') = true.
  Proof.
    intros Hp Hr H. apply inv2_parts in H. destruct H as (_ & _ & C). destruct b as [K s e bk ik a n c l lb]. cbn [bkind] in *.
    cbn [set_bik]. apply inv2_mk; [| |exact C].
    - unfold locQ. cbn [bkind]. rewrite Hp, andb_false_r. reflexivity.
    - unfold locX. cbn [bkind]. apply Z.eqb_neq in Hr. rewrite Hr. reflexivity.
  Qed.
  Lemma inv2_newBlock k s : k <> LinkReferenceDefinitionKind -> inv2 (newBlock k s) = true.
  Proof.
    intros Hr. unfold newBlock. apply inv2_mk; [| |reflexivity].
    - unfold locQ. cbn [bend bkind bik]. unfold gB. cbn [sortedSb forallb andb]. destruct (Z.eqb_spec k SetextHeadingKind); [|rewrite orb_true_r; reflexivity].
      subst k. apply orb_true_r.
    - unfold locX. cbn [bkind]. apply Z.eqb_neq in Hr. rewrite Hr. reflexivity.
  Qed.

  Lemma forallb_sub {A} (p : A -> bool) l l' : (forall x, In x l' -> In x l) -> forallb p l = true -> forallb p l' = true.
  Proof. intros Hs H. rewrite forallb_forall in *. auto. Qed.
  Lemma removelast_In {A} (l : list A) x : In x (removelast l) -> In x l.
  Proof.
    induction l as [|y l IH]; [intros []|]. destruct l as [|z l]; [intros []|].
    change (removelast (y :: z :: l)) with (y :: removelast (z :: l)). intros [->|H]; [left; reflexivity|right; apply IH, H].
  Qed.
  Lemma inv2L_removelast l : inv2L l = true -> inv2L (removelast l) = true.
  Proof. apply forallb_sub. intros x. apply removelast_In. Qed.
  Lemma lastBlock_In b c : lastBlock b = Some c -> In c (bkids b).
  Proof.
    unfold lastBlock. intros H. destruct (rev (bkids b)) as [|x r] eqn:Er; [discriminate|]. inversion H; subst.
    apply in_rev. rewrite Er. left. reflexivity.
  Qed.
  Lemma inv2_lastBlock b c : inv2 b = true -> lastBlock b = Some c -> inv2 c = true.
  Proof.
    intros H Hl. apply inv2_parts in H. destruct H as (_ & _ & H). unfold ExOcp.inv2L in H. rewrite forallb_forall in H.
    apply H. eapply lastBlock_In. exact Hl.
  Qed.
  Lemma inv2_set_lastBlocks b repl : inv2 b = true -> inv2L repl = true -> inv2 (set_lastBlocks b repl) = true.
  Proof.
    intros H Hr. unfold set_lastBlocks. apply inv2_set_bkids; [assumption|].
    rewrite inv2L_app, Hr, andb_true_r. apply inv2L_removelast. apply inv2_parts in H. tauto.
  Qed.
  Lemma inv2_updAt_at f : forall d b, inv2 b = true ->
    (forall x, getAt d b = Some x -> inv2 x = true -> inv2 (f x) = true) -> inv2 (updAt d f b) = true.
  Proof.
    induction d as [|d IH]; intros b H Hf; [apply Hf; [reflexivity|assumption]|]. cbn [updAt].
    destruct (lastBlock b) as [c|] eqn:El; [|assumption].
    apply inv2_set_lastBlocks; [assumption|]. unfold ExOcp.inv2L. cbn [forallb]. rewrite andb_true_r.
    apply IH; [eapply inv2_lastBlock; eassumption|]. intros x Hx. apply Hf. cbn [getAt]. rewrite El. exact Hx.
  Qed.
  Lemma inv2_updAt f : (forall b, inv2 b = true -> inv2 (f b) = true) -> forall d b, inv2 b = true -> inv2 (updAt d f b) = true.
  Proof. intros Hf d b H. apply inv2_updAt_at; [exact H|]. intros x _. apply Hf. Qed.

  Lemma inv2_onCloseList b : inv2 b = true -> inv2 (onCloseList b) = true.
  Proof.
    intros H. unfold onCloseList. cbv zeta. destruct (bloose b || _); [|assumption].
    apply inv2_set_bkids; [rewrite inv2_set_bloose; assumption|].
    apply inv2_parts in H. destruct H as (_ & _ & H). unfold ExOcp.inv2L in *. rewrite forallb_forall in *.
    intros x Hx. apply in_map_iff in Hx. destruct Hx as (y & <- & Hy). rewrite inv2_set_bloose. apply H, Hy.
  Qed.

  Lemma X_closeBlock e : 0 <= e -> forall fuel b, inv2 b = true -> inv2L (closeBlock fuel src b e) = true.
  Proof.
    intros He. induction fuel as [|f IH]; intros b H; [cbn; rewrite H; reflexivity|]. cbn [closeBlock].
    destruct (isOpen b) eqn:Eo; cbn [negb]; [|cbn; rewrite H; reflexivity]. cbv zeta.
    unfold isOpen in Eo. apply Z.ltb_lt in Eo.
    assert (Hcl : forall x, inv2 x = true ->
              inv2 (match lastBlock x with Some c => set_lastBlocks x (closeBlock f src c e) | None => x end) = true).
    { intros x Hx. destruct (lastBlock x) as [c|] eqn:El; [|assumption].
      apply inv2_set_lastBlocks; [assumption|]. apply IH. eapply inv2_lastBlock; eassumption. }
    assert (H1 : inv2 (set_bend b e) = true) by (apply inv2_set_bend_open; assumption).
    assert (Ek : bkind (set_bend b e) = bkind b) by (destruct b; reflexivity). rewrite Ek.
    destruct (Z.eqb_spec (bkind b) ListKind) as [EL|NL].
    { cbn [ExOcp.inv2L forallb]. rewrite Hcl; [reflexivity|]. apply inv2_onCloseList. assumption. }
    destruct (Z.eqb_spec (bkind b) IndentedCodeBlockKind) as [EI|NI].
    { cbn [ExOcp.inv2L forallb]. rewrite Hcl; [reflexivity|]. unfold onCloseIndented. apply inv2_set_bik_free; [rewrite Ek, EI; reflexivity|rewrite Ek, EI; discriminate|exact H1]. }
    destruct ((bkind b =? ParagraphKind) || (bkind b =? SetextHeadingKind)) eqn:Ep.
    { pose proof H as H'. apply inv2_parts in H'. destruct H' as (A & _ & C). unfold locQ in A.
      destruct (Z.ltb_spec (bend b) 0) as [_|]; [|lia]. change ((bkind b =? ParagraphKind) || (bkind b =? SetextHeadingKind)) with (isPSb (bkind b)) in Ep.
      rewrite Ep in A. cbn [andb negb orb] in A. apply andb_true_iff in A. destruct A as [A1 A2].
      apply X_onCloseParagraph.
      - destruct b; cbn [set_bend bend]. exact He.
      - rewrite Ek. exact Ep.
      - destruct b; cbn [set_bend bkids] in *. exact C.
      - destruct b; cbn [set_bend bik] in *. exact A1.
      - rewrite Ek. intros E. replace (bik (set_bend b e)) with (bik b) by (destruct b; reflexivity).
        rewrite E in A2. cbn in A2. exact A2. }
    cbn [ExOcp.inv2L forallb]. rewrite Hcl; [reflexivity|assumption].
  Qed.
End Close.

Print Assumptions X_closeBlock.
