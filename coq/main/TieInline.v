From Coq Require Import List ZArith Lia Bool.
Import ListNotations.
Require Import Base Tree Html LP Rules Link Inl3a Render.
Require GenConsts GenClassify.
Open Scope Z_scope.

(* Tie: constants of the inline layer (delimiter stack, emphasis buckets, label limit). *)
Lemma tie_inline :
  GenConsts.c_parseLinkLabel_maxChars = maxChars /\
  GenConsts.c_inlineDelimiterStar = tStar /\ GenConsts.c_inlineDelimiterUnderscore = tUnder /\ GenConsts.c_inlineDelimiterLink = tLink /\
  GenConsts.c_inlineDelimiterImage = tImage /\ GenConsts.c_activeFlag = fActive /\ GenConsts.c_openerFlag = fOpener /\ GenConsts.c_closerFlag = fCloser /\
  GenConsts.c_openersBottomCount = 14.
Proof. repeat split; reflexivity. Qed.
Print Assumptions tie_inline.
