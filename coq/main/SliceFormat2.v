(* SliceFormat2.v -- property C20, clause 2 (formatter round trip) for documents made of SEVERAL blocks (task T67).

   A document is a list abs of blocks (ablk):  AP t  one-line paragraph,  AH n t  ATX heading of level n,  ATB ch  thematic break
   spelled ch ch ch,  AC n ls  fenced code block (n backticks, code lines ls).
   docIn abs = the canonical input (docIn_spelled): the blocks, texts written with a backslash before every punctuation byte,
   separated by ONE blank line;  docOut abs = what the formatter prints (docOut_spelled): texts re-escaped by SliceFormat.fesc,
   "***" for a thematic break that starts the document and "---" otherwise, each followed by an EXTRA blank line (two blank lines
   before the next block), code fenced by fenceLen ls backticks (= the model's codeFenceLength: 1 + the longest run of backticks
   standing alone on a line after up to three spaces, at least 3), a final newline after the last block.

   MAIN THEOREM  C20_blocks : filterOn c = false -> Forall blockClass abs ->
        formatDoc (docIn abs) = docOut abs /\
        renderDoc c (formatDoc (docIn abs)) = renderDoc c (docIn abs) /\
        formatDoc (formatDoc (docIn abs)) = formatDoc (docIn abs)
   blockClass:  AP t: wfText t;  AH n t: 1 <= n <= 6 and wfText t;  ATB ch: ch in - * _ ;  AC n ls: codeClass n ls =
   n >= 3, code lines free of LF, CR, NUL and TAB, none beginning (after up to three spaces) with n or more backticks.
   Any number of blocks in any order, any lengths.  (SliceParas.v: the same for paragraphs only, C20_paras_*, on parasDoc.)
   The semantic form (formatDoc_blocks, C20_blocks_preserves_render, C20_blocks_idempotent over validA) allows TABs in code as long
   as fmtSafe ls holds: no code line closes the fence the formatter chooses.  fmtSafe_noTab: code without TAB is always safe.

   FINDING (C20_code_refuted, found by vm_compute): with TABs the equations are FALSE on the SliceCode class.  For the code lines
   "```<TAB>", "z" inside a four-backtick fence the formatter chooses a three-backtick fence, because codeFenceLength (format.go)
   treats a TAB after the run as "not fence-like", while the parser accepts trailing tabs after a closing fence; the formatted text
   re-parses as an empty code block, a paragraph "z" and another empty code block.
   Route: SliceDocs.v (generic sequence of blocks: allBlocks_docs, parseFull_docs, formatDoc_docs, renderDoc_docs over blockOK),
   SliceParas.v (paragraphs), SliceBlocks.v (thematic breaks, headings incl. the tokeniser on a span without line ending, code),
   sections 7 here (cfl state machine vs. the parser's closing test). *)
From Coq Require Import List ZArith Lia Bool.
Import ListNotations.
Require Import Base Tables Utf8 Tree Rdr Link Collect Html Recog LP Rules Starts Driver Inl3a Inl3b Inl3c Inl3d Inl3e Render Fmt Entry
  SliceBase SlicePara SliceText SliceCode SliceTok SliceLine SliceFormat SliceReparse SliceDocs SliceParas SliceBlocks.
Open Scope Z_scope.

(* ---------------------------------------------------------------------------------------------- *)
(* 1. documents: a sequence of blocks                                                              *)
(* ---------------------------------------------------------------------------------------------- *)
Inductive ablk :=
| AP (t : bytes)                       (* one-line paragraph with text t *)
| AH (n : nat) (t : bytes)             (* ATX heading of level n with text t *)
| ATB (ch : Z)                         (* thematic break spelled ch ch ch *)
| AC (n : nat) (ls : list bytes).      (* fenced code block: fence of n backticks, code lines ls *)

(* the chosen output fence is not closed by a code line (see C20_code_refuted for what happens otherwise) *)
Definition fmtSafe (ls : list bytes) : Prop := Forall (fun l => closes (fenceLenZ ls) l = false) ls.
Definition validA (a : ablk) : Prop :=
  match a with
  | AP t => wfText t
  | AH n t => (1 <= n <= 6)%nat /\ wfText t
  | ATB ch => isTbChar ch
  | AC n ls => codeOK n ls /\ fmtSafe ls
  end.

(* the canonical input spelling and the formatter's spelling of one block *)
Definition inFull (a : ablk) (k : nat) : bfull :=
  match a with
  | AP t => paraFull (tline t) t k
  | AH n t => headFull (headLine n (esc t)) n (len (esc t)) t k
  | ATB ch => tbFull ch k
  | AC n ls => codeFull n ls k
  end.
Definition outFull (first : bool) (a : ablk) (k : nat) : bfull :=
  match a with
  | AP t => paraFull (fesc t ++ [10]) t k
  | AH n t => headFull (headLine n (fesc t)) n (len (fesc t)) t k
  | ATB _ => tbFull (if first then 42 else 45) k
  | AC _ ls => codeFull (fenceLen ls) ls k
  end.
Definition isTB (a : ablk) : bool := match a with ATB _ => true | _ => false end.

(* input: one blank line between blocks; output: one blank line, two after a thematic break (one if it ends the document) *)
Fixpoint inL (abs : list ablk) : list bfull :=
  match abs with [] => [] | a :: r => inFull a (match r with [] => 0 | _ => 1 end) :: inL r end.
Fixpoint outL (first : bool) (abs : list ablk) : list bfull :=
  match abs with
  | [] => []
  | a :: r => outFull first a ((match r with [] => 0 | _ => 1 end) + (if isTB a then 1 else 0)) :: outL false r
  end.
Definition docIn (abs : list ablk) : bytes := docOf (map bf_b (inL abs)).
Definition docOut (abs : list ablk) : bytes := docOf (map bf_b (outL true abs)).

Lemma esc_hash_flag t : noRawHash (markE isASCIIPunctuation t) = true.
Proof. induction t as [|c r IH]; [reflexivity|]. cbn [markE map noRawHash forallb fst snd]. fold (markE isASCIIPunctuation r). fold (noRawHash (markE isASCIIPunctuation r)).
  rewrite IH, andb_true_r. destruct (Z.eqb_spec c 35) as [->|]; reflexivity. Qed.
Lemma fesc_hash_flag : forall t d, noRawHash (markF d t) = true.
Proof. induction t as [|c r IH]; intros d; [reflexivity|]. cbn [markF noRawHash forallb fst snd]. fold (noRawHash (markF (nextD d c) r)).
  rewrite IH, andb_true_r. destruct (Z.eqb_spec c 35) as [->|]; reflexivity. Qed.

Section Valid.
Variable c : cfg.
Hypothesis Hc : filterOn c = false.

Lemma inFull_ok a k : validA a -> fullOK c (inFull a k).
Proof.
  destruct a as [t|n t|ch|n ls]; cbn [validA inFull].
  - intros Hw. apply (para_ok c _ t k Hc (paraLine_esc t Hw)).
  - intros [Hn Hw]. apply okText_iff_wfText in Hw.
    pose proof (head_ok c (headLine n (esc t)) n t k (markE isASCIIPunctuation t) Hc) as H.
    rewrite <- genEsc_markE in H. change (genEsc isASCIIPunctuation t) with (esc t) in H. apply H; try reflexivity.
    + apply plainOf_markE.
    + apply (okTextE_markE isASCIIPunctuation eq_refl). apply okText_punct. exact Hw.
    + apply cover_punct.
    + apply esc_hash_flag.
    + exact Hn.
    + apply okText_ne. exact Hw.
    + apply (okText_ascii t true Hw).
  - intros Hch. apply (tb_ok c ch k Hc Hch).
  - intros [Hok _]. apply (code_ok c n ls k Hc Hok).
Qed.
Lemma outFull_ok first a k : validA a -> fullOK c (outFull first a k).
Proof.
  destruct a as [t|n t|ch|n ls]; cbn [validA outFull].
  - intros Hw. apply (para_ok c _ t k Hc (paraLine_fesc t Hw)).
  - intros [Hn Hw]. apply okText_iff_wfText in Hw.
    pose proof (head_ok c (headLine n (fesc t)) n t k (markF 0 t) Hc) as H.
    rewrite genEscM_markF in H. fold (fesc t) in H. apply H; try reflexivity.
    + apply plainOf_markF.
    + apply okText_markF. exact Hw.
    + apply cover_markF.
    + apply fesc_hash_flag.
    + exact Hn.
    + apply okText_ne. exact Hw.
    + apply (okText_ascii t true Hw).
  - intros _. apply (tb_ok c _ k Hc). destruct first; [right; left; reflexivity|left; reflexivity].
  - intros [(Hn & Heol & Hnul & _) Hsafe]. apply (code_ok c _ ls k Hc). pose proof (fenceLenZ_ge3 ls) as H3.
    split; [unfold fenceLen; lia|]. split; [exact Heol|]. split; [exact Hnul|]. unfold fenceLen. rewrite Z2Nat.id by lia. exact Hsafe.
Qed.
End Valid.

(* ---------------------------------------------------------------------------------------------- *)
(* 2. lists of blocks                                                                              *)
(* ---------------------------------------------------------------------------------------------- *)
Lemma noNul_docOf l : Forall (fun b => noNul (bx b)) l -> noNul (docOf l).
Proof.
  induction 1 as [|b r Hb Hr IH]; [constructor|]. cbn [docOf]. apply noNul_app; [exact Hb|]. apply noNul_app; [|exact IH].
  apply Forall_forall. intros x Hx. apply repeat_spec in Hx. lia.
Qed.
Lemma noNul_hashes n : noNul (hashes n).
Proof. apply Forall_forall. intros x Hx. apply repeat_spec in Hx. lia. Qed.
Lemma esc_noNul' t : wfText t -> noNul (esc t).
Proof. intros Hw. apply okText_iff_wfText in Hw. apply textBytes_noNul, esc_bytes. exact (okText_bytes t true Hw). Qed.
Lemma fesc_noNul' t : wfText t -> noNul (fesc t).
Proof. intros Hw. apply okText_iff_wfText in Hw. apply textBytes_noNul. apply (fescD_bytes t 0 (okText_bytes t true Hw)). Qed.
Lemma noNul_headLine n g : noNul g -> noNul (headLine n g).
Proof. intros H. unfold headLine. apply noNul_app; [apply noNul_hashes|]. constructor; [lia|]. apply noNul_app; [exact H|constructor; [lia|constructor]]. Qed.
Lemma noNul_tbSrc ch : isTbChar ch -> noNul (tbSrc ch).
Proof. intros [-> | [-> | ->]]; repeat constructor; lia. Qed.

Lemma in_noNul a k : validA a -> noNul (bx (bf_b (inFull a k))).
Proof.
  destruct a as [t|n t|ch|n ls]; cbn [validA inFull].
  - intros Hw. cbn. unfold tline. apply noNul_app; [apply esc_noNul'; exact Hw|constructor; [lia|constructor]].
  - intros [_ Hw]. cbn. apply noNul_headLine, esc_noNul'. exact Hw.
  - intros Hch. cbn. apply noNul_tbSrc. exact Hch.
  - intros [(_ & _ & Hn & _) _]. cbn. apply noNul_codeDoc. exact Hn.
Qed.
Lemma out_noNul first a k : validA a -> noNul (bx (bf_b (outFull first a k))).
Proof.
  destruct a as [t|n t|ch|n ls]; cbn [validA outFull].
  - intros Hw. cbn. apply noNul_app; [apply fesc_noNul'; exact Hw|constructor; [lia|constructor]].
  - intros [_ Hw]. cbn. apply noNul_headLine, fesc_noNul'. exact Hw.
  - intros _. cbn. apply noNul_tbSrc. destruct first; [right; left; reflexivity|left; reflexivity].
  - intros [(_ & _ & Hn & _) _]. cbn. apply noNul_codeDoc. exact Hn.
Qed.

Lemma piece_in_out a k first k' : bf_piece (inFull a k) = bf_piece (outFull first a k').
Proof. destruct a; reflexivity. Qed.
Lemma html_in_out a k first k' : bf_html (inFull a k) = bf_html (outFull first a k').
Proof. destruct a; reflexivity. Qed.

Lemma pieces_in_out : forall abs first hw, piecesOf (inL abs) hw = piecesOf (outL first abs) hw.
Proof.
  induction abs as [|a r IH]; intros first hw; [reflexivity|]. cbn [inL outL piecesOf].
  rewrite (piece_in_out a _ first ((match r with [] => 0 | _ => 1 end) + (if isTB a then 1 else 0))). f_equal. apply IH.
Qed.
Lemma htmls_in_out : forall abs first, map bf_html (inL abs) = map bf_html (outL first abs).
Proof.
  induction abs as [|a r IH]; intros first; [reflexivity|]. cbn [inL outL map].
  rewrite (html_in_out a _ first ((match r with [] => 0 | _ => 1 end) + (if isTB a then 1 else 0))). f_equal. apply IH.
Qed.

Lemma piece_out a hw k : bf_piece (outFull (negb hw) a k) hw =
  (if hw then [10] else []) ++ bx (bf_b (outFull (negb hw) a k)) ++ (if isTB a then [10] else []).
Proof.
  destruct a as [t|n t|ch|n ls]; cbn [outFull isTB].
  - cbn. rewrite app_nil_r. reflexivity.
  - cbn [headFull bf_piece bf_b headB bx]. unfold headLine. rewrite app_nil_r. reflexivity.
  - destruct hw; reflexivity.
  - cbn. rewrite app_nil_r. reflexivity.
Qed.

Lemma pieces_out : forall abs hw, abs <> [] ->
  piecesOf (outL (negb hw) abs) hw = (if hw then [10] else []) ++ docOf (map bf_b (outL (negb hw) abs)).
Proof.
  induction abs as [|a r IH]; intros hw Hne; [contradiction|]. cbn [outL piecesOf map docOf].
  rewrite piece_out. destruct r as [|a2 r'].
  - cbn [outL piecesOf map docOf Nat.add]. rewrite !app_nil_r. destruct (isTB a); cbn [repeat bk]; rewrite <- ?app_assoc;
      destruct a; cbn [outFull bf_b tbFull paraFull headFull codeFull tbB paraB headB codeB bk repeat]; rewrite ?app_nil_r; reflexivity.
  - change false with (negb true) at 1. rewrite (IH true ltac:(discriminate)). change (negb true) with false.
    set (D := docOf (map bf_b (outL false (a2 :: r')))).
    assert (Hk : bk (bf_b (outFull (negb hw) a (1 + (if isTB a then 1 else 0)))) = (1 + (if isTB a then 1 else 0))%nat) by (destruct a; reflexivity).
    rewrite Hk. rewrite <- !app_assoc. f_equal. f_equal. destruct (isTB a); reflexivity.
Qed.

Lemma wellSep_inL : forall abs, wellSep (map bf_b (inL abs)).
Proof.
  induction abs as [|a r IH]; [exact I|]. cbn [inL map wellSep]. split; [|exact IH].
  destruct r; [intros H; contradiction|intros _; destruct a; cbn; lia].
Qed.
Lemma wellSep_outL : forall abs first, wellSep (map bf_b (outL first abs)).
Proof.
  induction abs as [|a r IH]; intros first; [exact I|]. cbn [outL map wellSep]. split; [|apply IH].
  destruct r; [intros H; contradiction|intros _; destruct a; cbn; lia].
Qed.

(* ---------------------------------------------------------------------------------------------- *)
(* 3. C20, clause 2, for documents made of several blocks                                          *)
(* ---------------------------------------------------------------------------------------------- *)
Section Main.
Variable c : cfg.
Hypothesis Hc : filterOn c = false.
Variable abs : list ablk.
Hypothesis Hv : Forall validA abs.

Lemma inL_ok : Forall (fullOK c) (inL abs).
Proof. clear -Hc Hv. induction abs as [|a r IH]; [constructor|]. apply Forall_cons_iff in Hv. destruct Hv as [Ha Hr]. cbn [inL]. constructor; [apply (inFull_ok c Hc a _ Ha)|apply IH; exact Hr]. Qed.
Lemma outL_ok first : Forall (fullOK c) (outL first abs).
Proof. clear -Hc Hv. revert first. induction abs as [|a r IH]; intros first; [constructor|]. apply Forall_cons_iff in Hv. destruct Hv as [Ha Hr]. cbn [outL]. constructor; [apply (outFull_ok c Hc first a _ Ha)|apply IH; exact Hr]. Qed.
Lemma inL_noNul : noNul (docOf (map bf_b (inL abs))).
Proof.
  apply noNul_docOf. clear -Hv. induction abs as [|a r IH]; [constructor|]. apply Forall_cons_iff in Hv. destruct Hv as [Ha Hr].
  cbn [inL map]. constructor; [apply (in_noNul a _ Ha)|apply IH; exact Hr].
Qed.
Lemma outL_noNul first : noNul (docOf (map bf_b (outL first abs))).
Proof.
  apply noNul_docOf. clear -Hv. revert first. induction abs as [|a r IH]; intros first; [constructor|]. apply Forall_cons_iff in Hv. destruct Hv as [Ha Hr].
  cbn [outL map]. constructor; [apply (out_noNul first a _ Ha)|apply IH; exact Hr].
Qed.

(* what the formatter prints *)
Theorem formatDoc_blocks : formatDoc (docIn abs) = docOut abs.
Proof.
  unfold docIn. rewrite (formatDoc_docs c (inL abs) inL_ok (wellSep_inL abs) inL_noNul).
  rewrite (pieces_in_out abs true false). destruct abs as [|a r] eqn:E; [reflexivity|].
  change true with (negb false) at 1. rewrite pieces_out by discriminate. reflexivity.
Qed.
Theorem renderDoc_blocks_in : renderDoc c (docIn abs) = joinBlocks (map bf_html (inL abs)).
Proof. unfold docIn. apply (renderDoc_docs c (inL abs) inL_ok (wellSep_inL abs) inL_noNul). Qed.
Theorem renderDoc_blocks_out : renderDoc c (docOut abs) = joinBlocks (map bf_html (inL abs)).
Proof. unfold docOut. rewrite (renderDoc_docs c (outL true abs) (outL_ok true) (wellSep_outL abs true) (outL_noNul true)). rewrite <- htmls_in_out. reflexivity. Qed.
Theorem formatDoc_blocks_out : formatDoc (docOut abs) = docOut abs.
Proof.
  unfold docOut at 1. rewrite (formatDoc_docs c (outL true abs) (outL_ok true) (wellSep_outL abs true) (outL_noNul true)).
  destruct abs as [|a r] eqn:E; [reflexivity|]. change true with (negb false) at 1. rewrite pieces_out by discriminate. reflexivity.
Qed.

Theorem C20_blocks_preserves_render : renderDoc c (formatDoc (docIn abs)) = renderDoc c (docIn abs).
Proof. rewrite formatDoc_blocks, renderDoc_blocks_out, renderDoc_blocks_in. reflexivity. Qed.
Theorem C20_blocks_idempotent : formatDoc (formatDoc (docIn abs)) = formatDoc (docIn abs).
Proof. rewrite formatDoc_blocks. apply formatDoc_blocks_out. Qed.
End Main.
Print Assumptions formatDoc_blocks.
Print Assumptions C20_blocks_preserves_render.
Print Assumptions C20_blocks_idempotent.

(* ---------------------------------------------------------------------------------------------- *)
(* 4. the documents, spelled out                                                                   *)
(* ---------------------------------------------------------------------------------------------- *)
Definition srcIn (a : ablk) : bytes :=
  match a with
  | AP t => esc t ++ [10]
  | AH n t => repeat 35 n ++ 32 :: esc t ++ [10]
  | ATB ch => [ch; ch; ch; 10]
  | AC n ls => repeat 96 n ++ [10] ++ concat (map (fun l => l ++ [10]) ls) ++ repeat 96 n ++ [10]
  end.
Fixpoint joinBlank (xs : list bytes) : bytes := match xs with [] => [] | x :: r => match r with [] => x | _ => x ++ 10 :: joinBlank r end end.
Lemma docIn_spelled abs : docIn abs = joinBlank (map srcIn abs).
Proof.
  unfold docIn. induction abs as [|a r IH]; [reflexivity|]. cbn [inL map docOf joinBlank]. rewrite IH.
  assert (Hs : forall k, bx (bf_b (inFull a k)) = srcIn a) by (intros k; destruct a; reflexivity).
  assert (Hk : forall k, bk (bf_b (inFull a k)) = k) by (intros k; destruct a; reflexivity).
  rewrite Hs, Hk. destruct r as [|a2 r']; [cbn [repeat app map joinBlank]; rewrite app_nil_r; reflexivity|]. reflexivity.
Qed.
(* the formatter's output: text re-escaped by fesc; "***" for a thematic break that starts the document and "---" otherwise,
   followed by an extra blank line; a fence of fenceLen ls backticks (one more than the longest fence-like run in the code, at least 3) *)
Definition srcOut (first : bool) (a : ablk) : bytes :=
  match a with
  | AP t => fesc t ++ [10]
  | AH n t => repeat 35 n ++ 32 :: fesc t ++ [10]
  | ATB _ => (if first then [42; 42; 42; 10] else [45; 45; 45; 10])
  | AC _ ls => repeat 96 (fenceLen ls) ++ [10] ++ concat (map (fun l => l ++ [10]) ls) ++ repeat 96 (fenceLen ls) ++ [10]
  end.
Fixpoint joinOut (first : bool) (abs : list ablk) : bytes :=
  match abs with
  | [] => []
  | a :: r => srcOut first a ++ (if isTB a then [10] else []) ++ match r with [] => [] | _ => 10 :: joinOut false r end
  end.
Lemma docOut_spelled abs : docOut abs = joinOut true abs.
Proof.
  unfold docOut. generalize true. induction abs as [|a r IH]; intros first; [reflexivity|]. cbn [outL map docOf joinOut]. rewrite IH.
  assert (Hs : forall k, bx (bf_b (outFull first a k)) = srcOut first a) by (intros k; destruct a; try reflexivity; destruct first; reflexivity).
  assert (Hk : forall k, bk (bf_b (outFull first a k)) = k) by (intros k; destruct a; reflexivity).
  rewrite Hs, Hk. destruct r as [|a2 r']; destruct (isTB a); cbn [Nat.add repeat app outL map docOf]; rewrite ?app_nil_r; reflexivity.
Qed.

(* a simple sufficient condition for fmtSafe: no code line has three or more backticks after up to three leading spaces *)
Lemma fmtSafe_suff ls : Forall (fun l => countWhile (fun c => c =? 96) (stripSp 3 l) < 3) ls -> fmtSafe ls.
Proof.
  intros H. unfold fmtSafe. eapply Forall_impl; [|exact H]. intros l Hl. cbv beta in Hl. apply noFenceLine_closes. unfold noFenceLine.
  pose proof (fenceLenZ_ge3 ls). lia.
Qed.

(* ---------------------------------------------------------------------------------------------- *)
(* 5. a finding: the formatter's fence length ignores a TAB after a run of backticks                *)
(* ---------------------------------------------------------------------------------------------- *)
(* Without fmtSafe the two equations FAIL on the class of SliceCode (C06_code_verbatim): for the code lines  "```<TAB>" , "z"
   fenced by four backticks, codeFenceLength treats the tab as "not a fence" and chooses three backticks, but the parser accepts
   trailing tabs after a closing fence: the formatted text is an empty code block, a paragraph "z" and another empty code block. *)
Definition C20_code_statement : Prop := forall c n ls, filterOn c = false -> codeOK n ls ->
  renderDoc c (formatDoc (docIn [AC n ls])) = renderDoc c (docIn [AC n ls]) /\
  formatDoc (formatDoc (docIn [AC n ls])) = formatDoc (docIn [AC n ls]).
Definition badCode : list bytes := [[96; 96; 96; 9]; [122]].
Lemma badCode_ok : codeOK 4 badCode.
Proof.
  split; [lia|]. split; [repeat constructor; lia|]. split; [repeat constructor; lia|].
  repeat constructor; apply noFenceLine_closes; unfold noFenceLine; cbn; lia.
Qed.
Theorem C20_code_refuted : ~ C20_code_statement.
Proof.
  intros H. destruct (H c0 4%nat badCode eq_refl badCode_ok) as [H1 _]. revert H1. vm_compute. discriminate.
Qed.
Example C20_code_refuted_idem : formatDoc (formatDoc (docIn [AC 4 badCode])) <> formatDoc (docIn [AC 4 badCode]).
Proof. vm_compute. discriminate. Qed.
Example badCode_not_safe : ~ fmtSafe badCode.
Proof. intros H. inversion H as [|? ? H1 _]. revert H1. vm_compute. discriminate. Qed.
Print Assumptions C20_code_refuted.

(* ---------------------------------------------------------------------------------------------- *)
(* 6. examples                                                                                     *)
(* ---------------------------------------------------------------------------------------------- *)
Definition exDoc : list ablk :=
  [ATB 95; AP [49;46;32;97]; AH 2 [120;32;35;32;43]; AC 4 [[96;96;96]; []; [32;32;60;38;62]]; ATB 42; AP [43]; AC 3 []].
Example exDoc_valid : Forall validA exDoc.
Proof.
  assert (W : forall t, okText true t = true -> wfText t) by (intros t H; apply okText_iff_wfText; exact H).
  unfold exDoc. constructor; [right; right; reflexivity|]. constructor; [apply W; reflexivity|].
  constructor; [split; [lia|apply W; reflexivity]|].
  constructor.
  { split.
    - split; [lia|]. split; [repeat constructor; lia|]. split; [repeat constructor; lia|]. repeat constructor; vm_compute; reflexivity.
    - unfold fmtSafe. repeat constructor; vm_compute; reflexivity. }
  constructor; [right; left; reflexivity|]. constructor; [apply W; reflexivity|].
  constructor; [|constructor].
  split; [split; [lia|]; split; [constructor|]; split; constructor|constructor].
Qed.
Example exDoc_out : formatDoc (docIn exDoc) = docOut exDoc /\
  renderDoc c0 (formatDoc (docIn exDoc)) = renderDoc c0 (docIn exDoc) /\ formatDoc (formatDoc (docIn exDoc)) = formatDoc (docIn exDoc).
Proof. vm_compute. repeat split. Qed.

(* ---------------------------------------------------------------------------------------------- *)
(* 7. code without TABs is always safe                                                             *)
(* ---------------------------------------------------------------------------------------------- *)
(* a line that can close a fence: up to three spaces, r backticks, then only spaces *)
Definition lineRun (l : bytes) (r : nat) : Prop := exists k j, (k <= 3)%nat /\ (1 <= r)%nat /\ l = repeat 32 k ++ repeat 96 r ++ repeat 32 j.

(* ---- the formatter's state machine on such a line ---- *)
Lemma cfl_spaces : forall j i mf, i + Z.of_nat j < 4 -> fold_left (cfl_text 96) (repeat 32 j) ((-1), i, mf) = ((-1), i + Z.of_nat j, mf).
Proof.
  induction j as [|j IH]; intros i mf H; [cbn; rewrite Z.add_0_r; reflexivity|]. cbn [repeat fold_left]. unfold cfl_text at 2.
  change (32 =? 32) with true. cbv iota. change (-1 =? -1) with true. cbv iota. destruct (Z.leb_spec 4 (i + 1)); [lia|].
  rewrite IH by lia. f_equal. f_equal. lia.
Qed.
Lemma cfl_ticks_pos : forall r s i mf, 1 <= s -> fold_left (cfl_text 96) (repeat 96 r) (s, i, mf) = (s + Z.of_nat r, i, mf).
Proof.
  induction r as [|r IH]; intros s i mf H; [cbn; rewrite Z.add_0_r; reflexivity|]. cbn [repeat fold_left]. unfold cfl_text at 2.
  change (96 =? 32) with false. change (96 =? 10) with false. change (96 =? 96) with true. cbv iota.
  destruct (Z.ltb_spec s 0); [lia|]. destruct (Z.ltb_spec 0 s); [|lia]. rewrite IH by lia. f_equal. f_equal. lia.
Qed.
Lemma cfl_ticks r i mf : (1 <= r)%nat -> fold_left (cfl_text 96) (repeat 96 r) ((-1), i, mf) = (Z.of_nat r, i, mf).
Proof.
  intros H. destruct r as [|r]; [lia|]. cbn [repeat fold_left]. unfold cfl_text at 2.
  change (96 =? 32) with false. change (96 =? 10) with false. change (96 =? 96) with true. cbv iota. change (-1 <? 0) with true. cbv iota.
  rewrite cfl_ticks_pos by lia. f_equal. f_equal. lia.
Qed.
Lemma cfl_trail : forall j s i mf, 1 <= s -> fold_left (cfl_text 96) (repeat 32 j) (s, i, mf) = (s, i, mf).
Proof.
  induction j as [|j IH]; intros s i mf H; [reflexivity|]. cbn [repeat fold_left]. unfold cfl_text at 2.
  change (32 =? 32) with true. cbv iota. destruct (Z.eqb_spec s (-1)); [lia|]. apply IH. exact H.
Qed.
Lemma cfl_line_end l st : exists M, fold_left (cfl_text 96) (l ++ [10]) st = ((-1), 0, M).
Proof.
  rewrite fold_left_app. cbn [fold_left]. destruct (fold_left (cfl_text 96) l st) as [[s i] mf]. unfold cfl_text.
  change (10 =? 32) with false. change (10 =? 10) with true. cbv iota. eexists. reflexivity.
Qed.
Lemma cfl_lineRun l r mf : lineRun l r -> exists M, fold_left (cfl_text 96) (l ++ [10]) ((-1), 0, mf) = ((-1), 0, M) /\ Z.of_nat r <= M /\ mf <= M.
Proof.
  intros (k & j & Hk & Hr & ->). rewrite <- !app_assoc. rewrite !fold_left_app.
  rewrite cfl_spaces by lia. rewrite cfl_ticks by exact Hr. rewrite cfl_trail by lia. cbn [fold_left]. unfold cfl_text.
  change (10 =? 32) with false. change (10 =? 10) with true. cbv iota. eexists. split; [reflexivity|]. destruct (Z.ltb_spec mf (Z.of_nat r)); lia.
Qed.
Lemma cflLines_runs : forall ls mf, exists M, cflLines ls ((-1), 0, mf) = ((-1), 0, M) /\ mf <= M /\
  forall l r, In l ls -> lineRun l r -> Z.of_nat r <= M.
Proof.
  induction ls as [|l0 ls IH]; intros mf.
  - exists mf. split; [reflexivity|]. split; [lia|]. intros l r [].
  - unfold cflLines. cbn [fold_left]. fold (cflLines ls).
    destruct (cfl_line_end l0 ((-1), 0, mf)) as (M0 & E0). rewrite E0.
    pose proof (cfl_fold_mf (l0 ++ [10]) ((-1), 0, mf)) as Hm. rewrite E0 in Hm. cbv beta iota in Hm.
    destruct (IH M0) as (M & EM & HM & Hruns). exists M. split; [exact EM|]. split; [lia|].
    intros l r [<-|Hin] Hrun.
    + destruct (cfl_lineRun l0 r mf Hrun) as (M1 & E1 & H1 & _). rewrite E0 in E1. inversion E1; subst. lia.
    + apply (Hruns l r Hin Hrun).
Qed.

(* ---- the parser's closing test on a line without TAB ---- *)
Lemma firstNonWs_range : forall l i, firstNonWs l i = -1 \/ (i <= firstNonWs l i < i + len l).
Proof.
  induction l as [|c r IH]; intros i; [left; reflexivity|]. cbn [firstNonWs]. rewrite sl_len_cons. pose proof (sl_len_nonneg r).
  destruct (isSpaceTabOrLineEnding c); [|right; lia]. destruct (IH (i + 1)) as [E|E]; [left; exact E|right; lia].
Qed.
Lemma firstNonWs_neg : forall l i, 0 <= i -> firstNonWs l i < 0 -> Forall (fun c => isSpaceTabOrLineEnding c = true) l.
Proof.
  induction l as [|c r IH]; intros i Hi H; [constructor|]. cbn [firstNonWs] in H. destruct (isSpaceTabOrLineEnding c) eqn:E; [|lia].
  constructor; [exact E|apply (IH (i + 1)); [lia|exact H]].
Qed.
Lemma trimEndWs_ge : forall f line start e, start <= e -> start <= trimEndWs f line start e.
Proof.
  induction f as [|f IH]; intros line start e H; [exact H|]. cbn [trimEndWs]. destruct (Z.leb_spec e start); [lia|].
  destruct (isSpaceTabOrLineEnding (at_ line (e - 1))); [apply IH; lia|lia].
Qed.
Lemma cw_split : forall s, exists r w, s = repeat 96 r ++ w /\ countWhile (fun c => c =? 96) s = Z.of_nat r.
Proof.
  induction s as [|c t IH]; [exists O, []; split; reflexivity|]. cbn [countWhile]. destruct (Z.eqb_spec c 96) as [->|N].
  - destruct IH as (r & w & -> & E). exists (S r), w. split; [reflexivity|]. rewrite E. lia.
  - exists O, (c :: t). split; reflexivity.
Qed.

(* if parseCodeFence recognises a fence of backticks without info string, the line is backticks followed by white space *)
Lemma pcf_closing s fc fnn is ie : parseCodeFence s = (fc, fnn, is, ie) -> 0 < fnn -> spanValid (is, ie) = false -> fc = 96 ->
  exists r w, s = repeat 96 r ++ w /\ fnn = Z.of_nat r /\ Forall (fun c => isSpaceTabOrLineEnding c = true) w.
Proof.
  unfold parseCodeFence. destruct s as [|c0 t]; [intros H; inversion H; lia|].
  destruct ((len (c0 :: t) <? 3) || negb ((c0 =? 96) || (c0 =? 126))); [intros H; inversion H; lia|].
  destruct (countWhile (fun c => c =? c0) (c0 :: t) <? 3) eqn:E3; [intros H; inversion H; lia|].
  set (n := countWhile (fun c => c =? c0) (c0 :: t)).
  destruct (Z.ltb_spec (firstNonWs (from_ (c0 :: t) n) n) 0) as [Hneg|Hpos].
  - intros H Hp _ Hfc. inversion H; subst fc fnn is ie. subst c0.
    destruct (cw_split (96 :: t)) as (r & w & Es & Ec). exists r, w. split; [exact Es|]. fold n in Ec. split; [exact Ec|].
    assert (Hfrom : from_ (96 :: t) n = w).
    { rewrite Es, Ec. replace (Z.of_nat r) with (len (repeat 96 r)) by (unfold len; rewrite repeat_length; reflexivity). apply sl_from_app_len. }
    rewrite Hfrom in Hneg. apply (firstNonWs_neg w n); [rewrite Ec; lia|exact Hneg].
  - destruct ((c0 =? 96) && existsb _ _); [intros H; inversion H; lia|].
    assert (Hn0 : 0 <= n) by (apply Z.ltb_ge in E3; lia).
    assert (Hnl : n <= len (c0 :: t)).
    { unfold n. generalize (c0 :: t). intros l. induction l as [|x l IHl]; [cbn; lia|].
      cbn [countWhile]. rewrite sl_len_cons. destruct (x =? c0); [lia|pose proof (sl_len_nonneg l); lia]. }
    assert (Hlf : len (from_ (c0 :: t) n) = len (c0 :: t) - n).
    { unfold from_, len. rewrite skipn_length. unfold len in Hnl. lia. }
    remember (firstNonWs (from_ (c0 :: t) n) n) as is0 eqn:Eis.
    assert (His : 0 <= is0 < len (c0 :: t)).
    { destruct (firstNonWs_range (from_ (c0 :: t) n) n) as [E|E]; rewrite <- Eis in E; lia. }
    pose proof (trimEndWs_ge (S (length (c0 :: t))) (c0 :: t) is0 (len (c0 :: t)) ltac:(lia)) as Hge.
    remember (trimEndWs (S (length (c0 :: t))) (c0 :: t) is0 (len (c0 :: t))) as ie0 eqn:Eie.
    intros H Hp Hsv _. inversion H; subst fc fnn is ie. exfalso.
    unfold spanValid in Hsv. unfold fst, snd in Hsv.
    assert (H1 : (0 <=? is0) = true) by (apply Z.leb_le; lia). assert (H2 : (0 <=? ie0) = true) by (apply Z.leb_le; lia).
    assert (H3 : (is0 <=? ie0) = true) by (apply Z.leb_le; lia). rewrite H1, H2, H3 in Hsv. discriminate Hsv.
Qed.

Lemma stripSp_split : forall k l, exists j, (j <= k)%nat /\ l = repeat 32 j ++ stripSp k l.
Proof.
  induction k as [|k IH]; intros l; [exists O; split; [lia|reflexivity]|]. destruct l as [|c r]; [exists O; split; [lia|reflexivity]|].
  cbn [stripSp]. destruct (Z.eqb_spec c 32) as [->|N]; [|exists O; split; [lia|reflexivity]].
  destruct (IH r) as (j & Hj & E). exists (S j). split; [lia|]. cbn [repeat app]. rewrite <- E. reflexivity.
Qed.

Lemma closes_lineRun m l : noEolB l -> ~ In 9 l -> closes m l = true -> exists r, lineRun l r /\ m <= Z.of_nat r.
Proof.
  intros Heol Htab Hcl. unfold closes, fenceClose in Hcl.
  destruct (Z.ltb_spec (indent (curOf (l ++ [10]))) codeBlockIndentLimit) as [Hi|_]; [|discriminate Hcl].
  rewrite (indent_small_strip (curOf (l ++ [10])) eq_refl eq_refl eq_refl Hi) in Hcl. change (line (curOf (l ++ [10]))) with (l ++ [10]) in Hcl.
  rewrite stripSp_app in Hcl.
  destruct (parseCodeFence (stripSp 3 l ++ [10])) as [[[fc fnn] is] ie] eqn:Ep.
  apply andb_true_iff in Hcl. destruct Hcl as [Hcl Hm]. apply andb_true_iff in Hcl. destruct Hcl as [Hcl Hfc].
  apply andb_true_iff in Hcl. destruct Hcl as [Hp Hsv]. apply Z.ltb_lt in Hp. apply negb_true_iff in Hsv. apply Z.eqb_eq in Hfc. apply Z.leb_le in Hm.
  destruct (pcf_closing _ fc fnn is ie Ep Hp Hsv Hfc) as (r & w' & Es & Ef & Hw).
  destruct (stripSp_split 3 l) as (k & Hk & El).
  (* w' ends with the LF *)
  assert (Hw' : exists w, w' = w ++ [10] /\ stripSp 3 l = repeat 96 r ++ w).
  { destruct (exists_last (l := w')) as (w & z & Ew).
    - intros ->. rewrite app_nil_r in Es. exfalso.
      assert (H10 : In 10 (repeat 96 r)) by (rewrite <- Es; apply in_or_app; right; left; reflexivity). apply repeat_spec in H10. lia.
    - subst w'. rewrite app_assoc in Es. apply app_inj_tail in Es. destruct Es as [E1 E2]. subst z. exists w. split; [reflexivity|exact E1]. }
  destruct Hw' as (w & -> & Es0).
  assert (Hws : w = repeat 32 (length w)).
  { apply Forall_app in Hw. destruct Hw as [Hw _].
    assert (Hin : forall x, In x w -> In x l) by (intros x Hx; rewrite El, Es0; apply in_or_app; right; apply in_or_app; right; exact Hx).
    clear -Hw Hin Heol Htab. induction w as [|x w IH]; [reflexivity|]. apply Forall_cons_iff in Hw. destruct Hw as [Hx Hw].
    cbn [length repeat]. f_equal; [|apply IH; [exact Hw|intros y Hy; apply Hin; right; exact Hy]].
    assert (Hxl : In x l) by (apply Hin; left; reflexivity). unfold noEolB in Heol. rewrite Forall_forall in Heol. specialize (Heol x Hxl).
    unfold isSpaceTabOrLineEnding in Hx. destruct (Z.eqb_spec x 32) as [->|]; [reflexivity|]. destruct (Z.eqb_spec x 9) as [->|]; [contradiction|].
    destruct (Z.eqb_spec x 10); [lia|]. destruct (Z.eqb_spec x 13); [lia|]. discriminate Hx. }
  exists r. split; [|lia]. exists k, (length w). split; [exact Hk|]. split; [lia|]. rewrite El at 1. rewrite Es0, Hws at 1. reflexivity.
Qed.

Theorem fmtSafe_noTab ls : Forall noEolB ls -> Forall (fun l => ~ In 9 l) ls -> fmtSafe ls.
Proof.
  intros Heol Htab. unfold fmtSafe. apply Forall_forall. intros l Hl.
  destruct (closes (fenceLenZ ls) l) eqn:Ec; [|reflexivity]. exfalso.
  rewrite Forall_forall in Heol, Htab.
  destruct (closes_lineRun (fenceLenZ ls) l (Heol l Hl) (Htab l Hl) Ec) as (r & Hrun & Hm).
  destruct (cflLines_runs ls 2) as (M & EM & _ & Hruns). specialize (Hruns l r Hl Hrun).
  unfold fenceLenZ in Hm. rewrite EM in Hm. lia.
Qed.
Print Assumptions fmtSafe_noTab.

(* the class of (c) in syntactic form: code lines free of LF, CR, NUL and TAB, fenced by n >= 3 backticks, none of which
   begins (after up to three spaces) with n or more backticks *)
Definition codeClass (n : nat) (ls : list bytes) : Prop :=
  (3 <= n)%nat /\ Forall (fun l => Forall (fun c => c <> 10 /\ c <> 13 /\ c <> 0 /\ c <> 9) l) ls /\
  Forall (fun l => countWhile (fun c => c =? 96) (stripSp 3 l) < Z.of_nat n) ls.
Lemma codeClass_valid n ls : codeClass n ls -> validA (AC n ls).
Proof.
  intros (Hn & Hb & Hf).
  assert (Heol : Forall noEolB ls).
  { eapply Forall_impl; [|exact Hb]. intros l Hl. eapply Forall_impl; [|exact Hl]. cbv beta. intros c Hc. lia. }
  assert (Hnul : Forall noNul ls).
  { eapply Forall_impl; [|exact Hb]. intros l Hl. eapply Forall_impl; [|exact Hl]. cbv beta. intros c Hc. lia. }
  split.
  - split; [exact Hn|]. split; [exact Heol|]. split; [exact Hnul|]. eapply Forall_impl; [|exact Hf]. intros l Hl. apply noFenceLine_closes. exact Hl.
  - apply fmtSafe_noTab; [exact Heol|]. eapply Forall_impl; [|exact Hb]. intros l Hl H9. rewrite Forall_forall in Hl. specialize (Hl 9 H9). lia.
Qed.

(* the class of documents in syntactic form *)
Definition blockClass (a : ablk) : Prop :=
  match a with
  | AP t => wfText t
  | AH n t => (1 <= n <= 6)%nat /\ wfText t
  | ATB ch => ch = 45 \/ ch = 42 \/ ch = 95
  | AC n ls => codeClass n ls
  end.
Lemma blockClass_valid a : blockClass a -> validA a.
Proof. destruct a as [t|n t|ch|n ls]; cbn [blockClass validA]; [tauto|tauto|intros H; exact H|apply codeClass_valid]. Qed.

Theorem C20_blocks abs c : filterOn c = false -> Forall blockClass abs ->
  formatDoc (docIn abs) = docOut abs /\
  renderDoc c (formatDoc (docIn abs)) = renderDoc c (docIn abs) /\
  formatDoc (formatDoc (docIn abs)) = formatDoc (docIn abs).
Proof.
  intros Hc H. assert (Hv : Forall validA abs) by (eapply Forall_impl; [|exact H]; apply blockClass_valid).
  split; [apply (formatDoc_blocks c Hc abs Hv)|]. split; [apply (C20_blocks_preserves_render c Hc abs Hv)|apply (C20_blocks_idempotent c Hc abs Hv)].
Qed.
Print Assumptions C20_blocks.
