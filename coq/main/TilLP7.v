From Coq Require Import List ZArith Lia Bool.
Import ListNotations.
Require Import Base Tree Rdr Link Collect Html Recog LP Rules Starts Driver Render L2Kind L2CC GramDefs GramTree GramLP GramLP2 GramLP3 GramLP4
  Rec17 Rec18 BSOrph BSClose BSLine1 BSLine2 BSLine3 BSLine4 BSLine5 BSLine7 TilBase TilDefs TilLP1 TilLP2 TilLP3 TilLP4 TilLP5 TilLP6.
Require L2Kind2.
Open Scope Z_scope.

(* ================= the list item start; all starts; openNewBlocks ================= *)

Lemma fr_endBlock p : fr p (endBlock p).
Proof.
  unfold endBlock. destruct (_ || _); [apply fr_fields; reflexivity|]. cbv zeta.
  eapply fr_trans; [apply fr_opened|]. destruct (cdepth _); apply fr_fields; reflexivity.
Qed.

(* a loud container with a child *)
Definition QQ (q : lp) : Prop := TI q /\ loud q /\ LCI q /\ exists y, getAt (S (cdepth q)) (root q) = Some y.
Lemma QQ_TJ q : QQ q -> TJ q /\ LCI q.
Proof. intros (A & B & C & D). split; [split; [exact A|apply RN_has_child; [apply A|exact D]]|exact C]. Qed.
Lemma QQ_same q q' : same_tree q q' -> TI q' -> LCI q' -> QQ q -> QQ q'.
Proof.
  intros Hs HT HL (A & B & C & (y & Hy)). split; [exact HT|]. split; [eapply loud_same; eassumption|]. split; [exact HL|].
  destruct Hs as [E1 E2]. exists y. unfold cdepth. rewrite E1, E2. exact Hy.
Qed.
Lemma QQ_consumeIndent q n : QQ q -> QQ (consumeIndent q n).
Proof.
  intros H. pose proof H as (A & B & C & D). apply (QQ_same q); [apply same_consumeIndent|apply TI_consumeIndent, A| |exact H].
  apply (LCI_step q); [apply sstep_consumeIndent|apply fr_cstep, cstep_consumeIndent|apply A|exact C].
Qed.
Lemma QQ_consumeLine q : QQ q -> QQ (consumeLine q).
Proof.
  intros H. pose proof H as (A & B & C & D). apply (QQ_same q); [apply same_consumeLine|apply TI_consumeLine; assumption| |exact H].
  intros _. apply li_after_consumeLine, A.
Qed.
Lemma QQ_bindent q v : QQ q -> QQ (updCont q (fun b => set_bindent b v)).
Proof.
  intros (A & B & C & (y & Hy)). split; [apply TI_updCont_bindent, A|]. split; [apply loud_updCont; [intros x; destruct x; reflexivity|exact B]|].
  split; [exact C|]. exists y. change (cdepth (updCont q _)) with (cdepth q). rewrite root_updCont, getAt_S_updAt.
  rewrite getAt_S_last in Hy. destruct (getAt (cdepth q) (root q)) as [x|]; [|discriminate]. rewrite <- Hy. destruct x; reflexivity.
Qed.

Section WithOcp.
  Hypothesis HOP : OcpPara.
  Hypothesis HOS : OcpSetext.

  Lemma sOK_startListItem : startOKt startListItem.
  Proof.
    intros p Es H. pose proof (keep p Es H) as Hkeep. destruct H as [H _].
    assert (Hs : st_open p) by (left; exact Es).
    unfold startListItem. cbv zeta. destruct (_ <=? _); [exact Hkeep|].
    destruct (parseListMarker _) as [[delim n] mend]. destruct (_ || _); [exact Hkeep|]. destruct (_ && _); [exact Hkeep|].
    clear Hkeep.
    set (p1 := consumeIndent p (indent p)).
    assert (H1 : TI p1) by (apply TI_consumeIndent, H). assert (S1 : st_open p1) by (apply st_open_consumeIndent, Hs).
    set (cdelim := if (containerKind p1 =? ListKind) || (containerKind p1 =? ListItemKind) then bchar (contBlock p1) else 0).
    set (p2 := if negb (containerKind p1 =? ListKind) || negb (cdelim =? delim) then _ else p1).
    assert (H2 : TI p2 /\ st_open p2 /\ containerKind p2 = ListKind /\ bchar (contBlock p2) = delim).
    { unfold p2. destruct (negb (containerKind p1 =? ListKind) || negb (cdelim =? delim)) eqn:Ec.
      - assert (Hq : GI (updCont (openBlock p1 ListKind) (fun b => set_bchar b delim))).
        { apply GI_openBlock_init; [exact S1|apply H1|discriminate|discriminate|]. intros pos. repeat split; reflexivity. }
        assert (HT : TKL (updCont (openBlock p1 ListKind) (fun b => set_bchar b delim)) ListKind).
        { apply (TKL_openBlock_init HOP); [exact H1|exact S1|exact Hq|discriminate|intros x; destruct x; reflexivity|intros pos; repeat split]. }
        split; [apply HT|]. split; [apply st_open_updCont, L2Kind2.st_open_openBlock, S1|]. split.
        + apply containerKind_of; [apply Hq|apply HT].
        + rewrite contBlock_openBlock_init; [reflexivity|exact S1|apply H1|left; discriminate].
      - apply orb_false_iff in Ec. destruct Ec as [Ec1 Ec2]. apply negb_false_iff in Ec1, Ec2.
        split; [exact H1|]. split; [exact S1|]. split; [apply Z.eqb_eq, Ec1|].
        unfold cdelim in Ec2. rewrite Ec1 in Ec2. cbn [orb] in Ec2. apply Z.eqb_eq, Ec2. }
    destruct H2 as (H2 & S2 & K2 & B2).
    destruct (TI_openItemMarker HOP p2 delim S2 H2 K2 B2) as (H4 & _ & D4).
    set (p4 := openBlock (updCont (openBlock p2 ListItemKind) (fun b => set_bchar b delim)) ListMarkerKind) in *.
    assert (S4 : st_open p4) by (apply L2Kind2.st_open_openBlock, st_open_updCont, L2Kind2.st_open_openBlock, S2).
    set (p5 := advance p4 mend).
    assert (H5 : TKL p5 ListMarkerKind) by (apply TKL_advance; [exact H4|split; discriminate]).
    assert (S5 : st_open p5) by (eapply st_open_sstep; [apply sstep_advance|exact S4]).
    assert (D5 : cdepth p5 = S (S (cdepth p2))) by (unfold p5; rewrite (cd_same _ _ (same_advance p4 mend)); exact D4).
    set (q := endBlock p5).
    assert (HQ : QQ q).
    { assert (HT : TI q).
      { apply TI_endBlock; [apply H5|]. intros E. rewrite D5 in E. discriminate E. }
      assert (HL : LCI q).
      { apply (LCI_step p5); [apply sstep_endBlock|apply fr_endBlock|apply H5|apply H5]. }
      revert HT HL. unfold q, endBlock.
      replace ((state p5 =? stDescending) || (state p5 =? stDescendTerminated)) with false by (destruct S5 as [-> | ->]; reflexivity).
      cbv zeta. set (p0 := if state p5 =? stOpening then withState p5 stOpenMatched else p5).
      assert (E0 : cdepth p0 = cdepth p5 /\ root p0 = root p5) by (unfold p0; destruct (state p5 =? stOpening); split; reflexivity).
      destruct E0 as [E1 E2]. rewrite E1, D5. intros HT HL.
      assert (Hch : exists y, getAt (S (S (cdepth p2))) (root (withCont (closeLastChildAt p0 (S (cdepth p2)) (lineStart p0 + li p0)) (Some (S (cdepth p2))))) = Some y).
      { destruct H5 as ((((_ & _ & (x & Hx)) & _) & _) & _). rewrite D5, <- E2 in Hx. eapply child_after_closeAt. exact Hx. }
      split; [exact HT|]. split; [|split; [exact HL|exact Hch]].
      apply loud_deep; [apply HT| |cbn; lia]. destruct Hch as (y & Hy). eapply getAt_le; [|exact Hy]. lia. }
    destruct (isRestBlank q); [apply QQ_TJ, QQ_consumeLine, QQ_bindent, HQ|].
    destruct (indent q <? 1); [cbv beta iota; apply QQ_TJ, QQ_bindent, HQ|].
    destruct (4 <? indent q); cbv beta iota; apply QQ_TJ, QQ_bindent, QQ_consumeIndent, HQ.
  Qed.

  Lemma blockStarts_okt : Forall startOKt blockStarts.
  Proof.
    unfold blockStarts.
    apply Forall_cons; [apply (sOK_startBlockQuote HOP)|].
    apply Forall_cons; [apply (sOK_startATX HOP)|].
    apply Forall_cons; [apply (sOK_startFenced HOP)|].
    apply Forall_cons; [apply (sOK_startHTML HOP)|].
    apply Forall_cons; [apply (sOK_startSetext HOS)|].
    apply Forall_cons; [apply (sOK_startThematic HOP)|].
    apply Forall_cons; [apply sOK_startListItem|].
    apply Forall_cons; [apply (sOK_startIndented HOP)|].
    apply Forall_nil.
  Qed.

  Lemma TJ_withState p st : TJ p -> TJ (withState p st).
  Proof. intros [A B]. split; [apply TI_withState, A|exact B]. Qed.

  (* tryStarts: the invariant, and a consumed line has the cursor at its end *)
  Lemma TJ_tryStarts : forall fs p, Forall startOKt fs -> TJ p ->
    TJ (snd (tryStarts fs p)) /\ (fst (tryStarts fs p) = true -> LCI (snd (tryStarts fs p))).
  Proof.
    induction fs as [|f r IH]; intros p Hfs H; [split; [exact H|discriminate]|]. cbn [tryStarts]. cbv zeta. inversion Hfs as [|? ? Hf Hr]; subst.
    destruct (Hf (withState p stOpening) eq_refl (TJ_withState p stOpening H)) as [H1 L1].
    destruct (_ || _); [split; [exact H1|intros _; exact L1]|]. apply IH; assumption.
  Qed.

  Lemma TJ_opening_loop : forall fuel p, TJ p ->
    TJ (snd (opening_loop fuel p)) /\ (fst (opening_loop fuel p) = false -> li (snd (opening_loop fuel p)) = len (line (snd (opening_loop fuel p)))).
  Proof.
    induction fuel as [|f IH]; intros p H; [split; [exact H|discriminate]|]. cbn [opening_loop].
    destruct (_ || _); [|split; [exact H|discriminate]].
    destruct (TJ_tryStarts blockStarts p blockStarts_okt H) as [H1 L1]. destruct (tryStarts blockStarts p) as [[|] p1]; cbn [fst snd] in *.
    - destruct (Z.eqb_spec (state p1) stLineConsumed) as [E|N]; [|apply IH; exact H1].
      split; [exact H1|]. intros _. apply (L1 eq_refl E).
    - split; [exact H1|discriminate].
  Qed.
End WithOcp.
