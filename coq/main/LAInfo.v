From Coq Require Import List ZArith Lia Bool.
Import ListNotations.
Require Import Base Tables Utf8 Tree Rdr Link Collect LP Rules Driver Props Rec17 Rec18 LADef LA1 LARpce.
Open Scope Z_scope.

(* ===== the children of an InfoString entry lie in order inside it ===== *)
Definition kidlessI (u : inline) : Prop := ikids u = [].
Lemma leaves_kidless : forall l, Forall kidlessI l -> flat_map leavesI l = map ispan l.
Proof.
  induction l as [|u r IH]; intros H; [reflexivity|]. inversion H as [|? ? Hu Hr]; subst. cbn [flat_map map]. rewrite IH by exact Hr.
  destruct u as [k s e ind rf ks]. unfold kidlessI in Hu. cbn [ikids] in Hu. subst ks. reflexivity.
Qed.
Lemma ordIn_snoc : forall l lo hi s e, ordIn lo hi l -> hi <= s -> s <= e -> ordIn lo e (l ++ [(s, e)]).
Proof. intros l lo hi s e H A B. eapply ordIn_cat; [exact H|]. cbn [ordIn fst snd]. lia. Qed.
Lemma ordIn_snocI l lo hi (k s e : Z) : ordIn lo hi (map ispan l) -> hi <= s -> s <= e -> ordIn lo e (map ispan (l ++ [mkI k s e])).
Proof. intros H A B. rewrite map_app. cbn [map]. change (ispan (mkI k s e)) with (s, e). eapply ordIn_snoc; eassumption. Qed.
Lemma len_sub_le (src : bytes) i e : i <= e -> len (sub src i e) <= e - i.
Proof. intros H. unfold sub, upto, len. rewrite firstn_length. lia. Qed.

Lemma isl_spec src s e : forall fuel i ps acc, s <= ps <= i -> i <= e -> ordIn s ps (map ispan acc) -> Forall kidlessI acc ->
  let res := infoString_loop fuel src i e ps acc in
  snd res <= e /\ ordIn s (snd res) (map ispan (fst res)) /\ Forall kidlessI (fst res).
Proof.
  induction fuel as [|f IH]; intros i ps acc Hps Hie Ho Hk; cbv zeta; cbn [infoString_loop].
  { cbn [fst snd]. split; [lia|split; assumption]. }
  destruct (Z.leb_spec e i) as [L|L]; [cbn [fst snd]; split; [lia|split; assumption]|].
  assert (Hflush : forall p, ps <= p -> ordIn s p (map ispan (if ps <? p then acc ++ [mkI TextKind ps p] else acc)) /\
                               Forall kidlessI (if ps <? p then acc ++ [mkI TextKind ps p] else acc)).
  { intros p Hp. destruct (Z.ltb_spec ps p) as [L1|L1].
    - split; [apply (ordIn_snocI _ _ ps); [exact Ho|lia|lia]|apply Forall_app; split; [exact Hk|constructor; [reflexivity|constructor]]].
    - replace p with ps by lia. split; assumption. }
  destruct (at_ src i =? 92).
  - destruct ((e <=? i + 1) || negb (isASCIIPunctuation (at_ src (i + 1)))) eqn:Ee; [apply IH; [lia|lia|exact Ho|exact Hk]|].
    apply orb_false_iff in Ee. destruct Ee as [Ee _]. apply Z.leb_gt in Ee. destruct (Hflush i ltac:(lia)) as [F1 F2].
    apply IH; [lia|lia| |apply Forall_app; split; [exact F2|constructor; [reflexivity|constructor]]].
    apply (ordIn_snocI _ _ i); [exact F1|lia|lia].
  - destruct (at_ src i =? 38); [|apply IH; [lia|lia|exact Ho|exact Hk]].
    destruct (Z.ltb_spec (parseCharacterEscape (sub src i e)) 0) as [Ln|Ln]; [apply IH; [lia|lia|exact Ho|exact Hk]|].
    destruct (pce_spec _ Ln) as [[P1 P2] _]. pose proof (len_sub_le src i e ltac:(lia)) as Hl. destruct (Hflush i ltac:(lia)) as [F1 F2].
    apply IH; [lia|lia| |apply Forall_app; split; [exact F2|constructor; [reflexivity|constructor]]].
    apply (ordIn_snocI _ _ i); [exact F1|lia|lia].
Qed.

Lemma lvOK_info src s e : s <= e -> lvOK (parseInfoString src s e).
Proof.
  intros Hse. unfold parseInfoString.
  pose proof (isl_spec src s e (S (Z.to_nat (e - s))) s s [] ltac:(lia) Hse ltac:(cbn; lia) ltac:(constructor)) as H. cbv zeta in H.
  destruct (infoString_loop _ src s e s []) as [acc ps]. cbn [fst snd] in H. destruct H as (H1 & H2 & H3).
  unfold lvOK. cbn [istart iend leavesI].
  set (ks := if ps <? e then acc ++ [mkI TextKind ps e] else acc).
  assert (Hks : ordIn s e (map ispan ks) /\ Forall kidlessI ks).
  { unfold ks. destruct (Z.ltb_spec ps e) as [L|L].
    - split; [apply (ordIn_snocI _ _ ps); [exact H2|lia|lia]|apply Forall_app; split; [exact H3|constructor; [reflexivity|constructor]]].
    - replace e with ps by lia. split; assumption. }
  destruct Hks as [K1 K2]. destruct ks as [|k0 kr] eqn:Eks; [cbn [ordIn fst snd]; lia|]. rewrite <- Eks in *. rewrite leaves_kidless by exact K2. exact K1.
Qed.
