From Coq Require Import List ZArith Lia Bool.
Import ListNotations.
Require Import Base Tree Rdr Link Collect Html Recog LP Rules Starts Driver L2Kind L2CC TDefs TOcp StreamFuel GramDefs
  ReparseOpen ReparseFrame ReparseLineB ReparseLineL ReparseShift.
Open Scope Z_scope.

(* T50 continuation: the decomposition of the closing line.
   A line processed with the open root child c, which closes c at its own start T
     = c closed at T (top down), followed by the line processed alone from no children, shifted by T. *)
Lemma map_clr_flagLast K : map clrB (flagLast K) = map clrB K.
Proof.
  unfold flagLast. destruct (rev K) as [|y r] eqn:E; [destruct K; [reflexivity|apply (f_equal (@length block)) in E; rewrite rev_length in E; discriminate]|].
  assert (EK : K = rev r ++ [y]) by (rewrite <- (rev_involutive K), E; reflexivity). rewrite EK, !map_app. cbn [map]. f_equal. destruct y; reflexivity.
Qed.

Theorem line_decomp src T c st : isOpen c = true -> ccF [c] = true -> gbL [c] = true -> 0 <= T -> from_ src T <> [] ->
  Forall closedB (L src T c) ->
  (st = stDescendTerminated -> hasMatch (bkind c) = true) ->
  (bkind c = ParagraphKind -> forall h rest, fst (fst (processLine st [c] T src)) = h :: rest -> bkind h <> LinkReferenceDefinitionKind) ->
  (forall I w, lastBlock c = Some I -> lastBlock I = Some w -> isOpen w = true -> bkind w <> SetextHeadingKind) ->
  closedAt T (processLine st [c] T src) ->
  exists L1, Forall closedB L1 /\ map clrB L1 = map clrB (L src T c) /\
    processLine st [c] T src =
    (L1 ++ map (shiftB T) (fst (fst (processLine 0 [] 0 (from_ src T)))), snd (fst (processLine 0 [] 0 (from_ src T))), snd (processLine 0 [] 0 (from_ src T))).
Proof.
  intros Hop Hcf Hgb HT Hln Lcl Hst Hnr NoSx Hcl.
  destruct (lineB_all src T c st Hop Hcf Hgb HT Hln Lcl Hst Hnr NoSx Hcl) as (L0 & L0cl & EL0 & HB).
  destruct (frame_line L0 T src L0cl Hln) as (L' & HL' & HF).
  exists L'. split; [destruct HL' as [-> | ->]; [exact L0cl|apply flagLast_closed, L0cl]|].
  split; [destruct HL' as [-> | ->]; [exact EL0|rewrite map_clr_flagLast; exact EL0]|].
  rewrite HB, HF, (shift_line src T HT Hln). reflexivity.
Qed.
Print Assumptions line_decomp.
