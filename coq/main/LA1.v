From Coq Require Import List ZArith Lia Bool.
Import ListNotations.
Require Import Base Tree Rdr Link LP Rules Driver Props L2Kind L2CC BSDef BSRdr BSTree LADef.
Open Scope Z_scope.

(* ===== basic facts about the "lines accounted" invariant la (LADef.v) ===== *)

(* ---- NT ---- *)
Lemma NT_empty src a b : b <= a -> NT src a b. Proof. intros H q Hq. lia. Qed.
Lemma NT_app src a b c : NT src a b -> NT src b c -> NT src a c.
Proof. intros H1 H2 q Hq. destruct (Z.lt_ge_cases q b); [apply H1|apply H2]; lia. Qed.
Lemma NT_sub src a b a' b' : a <= a' -> b' <= b -> NT src a b -> NT src a' b'.
Proof. intros H1 H2 H q Hq. apply H. lia. Qed.

(* ---- allQ ---- *)
Lemma allQ_app {A} (P : A -> Prop) a b : allQ P (a ++ b) <-> allQ P a /\ allQ P b.
Proof. induction a as [|x a IH]; cbn [app allQ]; [tauto|]. rewrite IH. tauto. Qed.
Lemma allQ_In {A} (P : A -> Prop) l x : allQ P l -> In x l -> P x.
Proof. induction l as [|y l IH]; [intros _ []|]. intros [HA HB] [->|H]; [exact HA|apply IH; assumption]. Qed.
Lemma allQ_intro {A} (P : A -> Prop) l : (forall x, In x l -> P x) -> allQ P l.
Proof. induction l as [|y l IH]; intros H; [exact I|]. split; [apply H; left; reflexivity|apply IH; intros x Hx; apply H; right; exact Hx]. Qed.
Lemma allQ_impl {A} (P R : A -> Prop) l : (forall x, P x -> R x) -> allQ P l -> allQ R l.
Proof. intros H. induction l as [|y l IH]; [tauto|]. intros [HA HB]. split; [apply H, HA|apply IH, HB]. Qed.
Lemma allQ_map {A B} (P : B -> Prop) (f : A -> B) l : allQ P (map f l) <-> allQ (fun x => P (f x)) l.
Proof. induction l as [|y l IH]; cbn [map allQ]; [tauto|]. rewrite IH. tauto. Qed.

(* ---- ordIn ---- *)
Lemma ordIn_le : forall l lo hi, ordIn lo hi l -> lo <= hi.
Proof. induction l as [|se r IH]; intros lo hi H; [exact H|]. destruct H as (A & B & C). specialize (IH _ _ C). lia. Qed.
Lemma ordIn_cat : forall l1 l2 a b c, ordIn a b l1 -> ordIn b c l2 -> ordIn a c (l1 ++ l2).
Proof.
  induction l1 as [|se r IH]; intros l2 a b c H1 H2; cbn [app].
  - cbn [ordIn] in H1. destruct l2 as [|x l2]; cbn [ordIn] in *; [lia|]. destruct H2 as (A & B & C). split; [lia|split; assumption].
  - destruct H1 as (A & B & C). split; [exact A|]. split; [exact B|]. eapply IH; eassumption.
Qed.
Lemma ordIn_lo l lo lo' hi : ordIn lo hi l -> lo' <= lo -> ordIn lo' hi l.
Proof. destruct l as [|se r]; cbn [ordIn]; intros H A; [lia|]. destruct H as (H1 & H2 & H3). split; [lia|split; assumption]. Qed.
Lemma ordIn_hi : forall l lo hi hi', ordIn lo hi l -> hi <= hi' -> ordIn lo hi' l.
Proof. induction l as [|se r IH]; intros lo hi hi' H A; cbn [ordIn] in *; [lia|]. destruct H as (H1 & H2 & H3). split; [exact H1|]. split; [exact H2|]. eapply IH; eassumption. Qed.
Lemma tileS_ordIn src : forall l lo hi, tileS src lo hi l -> ordIn lo hi l.
Proof. induction l as [|se r IH]; intros lo hi H; cbn [tileS ordIn] in *; [apply H|]. destruct H as (A & _ & B & C). split; [exact A|]. split; [exact B|apply IH, C]. Qed.
Lemma lvOK_kidless u : ikids u = [] -> istart u <= iend u -> lvOK u.
Proof. destruct u as [k s e ind r ks]. cbn [ikids istart iend]. intros -> H. unfold lvOK. cbn [leavesI istart iend ordIn fst snd]. lia. Qed.

(* ---- indOK ---- *)
Lemma indOK_snoc : forall l u, indOK l -> ikind u <> IndentKind -> indOK (l ++ [u]).
Proof.
  induction l as [|a r IH]; intros u H Hu; cbn [app indOK]; [split; [intros E; contradiction|exact I]|].
  destruct H as [H1 H2]. split; [|apply IH; assumption]. intros Ea. specialize (H1 Ea). destruct r as [|b r']; [destruct H1|exact H1].
Qed.
Lemma indOK_snoc2 : forall l u v, indOK l -> ikind v <> IndentKind -> indOK (l ++ [u; v]).
Proof.
  induction l as [|a r IH]; intros u v H Hv; cbn [app indOK]; [split; [intros _; exact Hv|split; [intros E; contradiction|exact I]]|].
  destruct H as [H1 H2]. split; [|apply IH; assumption]. intros Ea. specialize (H1 Ea). destruct r as [|b r']; [destruct H1|exact H1].
Qed.
Lemma indOK_suffix : forall a b, indOK (a ++ b) -> indOK b.
Proof. induction a as [|x a IH]; intros b H; [exact H|]. cbn [app indOK] in H. apply IH, H. Qed.

(* ---- tileS ---- *)
Lemma tileS_le src lo hi l : tileS src lo hi l -> lo <= hi.
Proof. revert lo. induction l as [|se r IH]; intros lo H; [apply H|]. destruct H as (A & _ & B & C). specialize (IH _ C). lia. Qed.
(* the position after the last span *)
Fixpoint sEnd (lo : Z) (l : list (Z * Z)) : Z := match l with [] => lo | se :: r => sEnd (snd se) r end.
Lemma sEnd_app lo a b : sEnd lo (a ++ b) = sEnd (sEnd lo a) b.
Proof. revert lo. induction a as [|se a IH]; intros lo; [reflexivity|apply IH]. Qed.
Lemma tileS_app src lo hi a b : tileS src lo hi (a ++ b) <-> tileS src lo (sEnd lo a) a /\ tileS src (sEnd lo a) hi b.
Proof.
  revert lo. induction a as [|se a IH]; intros lo; cbn [app tileS sEnd].
  - split; [intros H; split; [split; [lia|apply NT_empty; lia]|exact H]|tauto].
  - rewrite IH. tauto.
Qed.
Lemma tileS_end src lo hi l : tileS src lo hi l -> sEnd lo l <= hi /\ NT src (sEnd lo l) hi.
Proof. revert lo. induction l as [|se r IH]; intros lo H; [exact H|]. destruct H as (_ & _ & _ & C). apply IH, C. Qed.
(* change of the upper end *)
Lemma tileS_hi src lo hi hi' l : tileS src lo hi l -> sEnd lo l <= hi' -> NT src (sEnd lo l) hi' -> tileS src lo hi' l.
Proof.
  revert lo. induction l as [|se r IH]; intros lo H A B; cbn [tileS sEnd] in *; [tauto|].
  destruct H as (H1 & H2 & H3 & H4). repeat split; try assumption. apply IH; assumption.
Qed.
Lemma tileS_ext src lo hi hi' l : tileS src lo hi l -> hi <= hi' -> NT src hi hi' -> tileS src lo hi' l.
Proof.
  intros H A B. destruct (tileS_end _ _ _ _ H) as [E1 E2]. eapply tileS_hi; [exact H|lia|eapply NT_app; eassumption].
Qed.
Lemma tileS_snoc src lo hi hi' l s e : tileS src lo hi l -> hi <= s -> NT src hi s -> s <= e -> e <= hi' -> NT src e hi' ->
  tileS src lo hi' (l ++ [(s, e)]).
Proof.
  intros H A B C D E. apply tileS_app. destruct (tileS_end _ _ _ _ H) as [E1 E2]. split.
  - eapply tileS_hi; [exact H|lia|apply NT_empty; lia].
  - cbn [tileS fst snd]. repeat split; try lia; try assumption. eapply NT_app; eassumption.
Qed.
Lemma tileS_lo src lo lo' hi l : tileS src lo hi l -> lo' <= lo -> NT src lo' lo -> tileS src lo' hi l.
Proof.
  destruct l as [|se r]; cbn [tileS]; intros H A B.
  - destruct H. split; [lia|eapply NT_app; eassumption].
  - destruct H as (H1 & H2 & H3). split; [lia|]. split; [eapply NT_app; eassumption|exact H3].
Qed.
(* every span of a tiling lies inside it *)
Lemma tileS_In src lo hi l se : tileS src lo hi l -> In se l -> lo <= fst se /\ fst se <= snd se /\ snd se <= hi.
Proof.
  revert lo. induction l as [|x r IH]; intros lo H Hin; [destruct Hin|]. destruct H as (A & _ & B & C).
  pose proof (tileS_le _ _ _ _ C). destruct Hin as [->|Hin]; [lia|]. specialize (IH _ C Hin). lia.
Qed.

(* ---- tchain ---- *)
Lemma tchain_le src op lo hi l : tchain src op lo hi l -> (forall c, In c l -> 0 <= bend c) -> lo <= hi.
Proof.
  revert lo. induction l as [|c r IH]; intros lo H Hc; [apply H|]. destruct H as (A & _ & B).
  destruct (Z.ltb_spec (bend c) 0) as [L|L]; [specialize (Hc c (or_introl eq_refl)); lia|].
  destruct B as [B1 B2]. specialize (IH _ B2 ltac:(intros x Hx; apply Hc; right; exact Hx)). lia.
Qed.
(* decomposition at a non-empty suffix: the prefix is closed and ends at some position mid *)
Lemma tchain_split src op hi : forall a lo b, b <> [] -> tchain src op lo hi (a ++ b) ->
  exists mid, lo <= mid /\ tchain src op mid hi b /\ (forall op' hi' b', tchain src op' mid hi' b' -> tchain src op' lo hi' (a ++ b')) /\
              (forall c, In c a -> 0 <= bend c /\ bend c <= mid).
Proof.
  induction a as [|c a IH]; intros lo b Hb H.
  - exists lo. split; [lia|]. split; [exact H|]. split; [tauto|intros c []].
  - cbn [app tchain] in H. destruct H as (A & B & C).
    destruct (Z.ltb_spec (bend c) 0) as [L|L].
    + destruct C as [_ C]. destruct a; destruct b; try discriminate; congruence.
    + destruct C as [C1 C2]. destruct (IH _ b Hb C2) as (mid & M1 & M2 & M3 & M4). exists mid. split; [lia|]. split; [exact M2|]. split.
      * intros op' hi' b' Hb'. cbn [app tchain]. split; [exact A|]. split; [exact B|].
        destruct (Z.ltb_spec (bend c) 0); [lia|]. split; [exact C1|apply M3, Hb'].
      * intros x [->|Hx]; [lia|]. apply M4, Hx.
Qed.
Lemma tchain_lo src op lo lo' hi l : tchain src op lo hi l -> lo' <= lo -> NT src lo' lo -> tchain src op lo' hi l.
Proof.
  destruct l as [|c r]; cbn [tchain]; intros H A B.
  - destruct H. split; [lia|eapply NT_app; eassumption].
  - destruct H as (H1 & H2 & H3). split; [lia|]. split; [eapply NT_app; eassumption|exact H3].
Qed.
(* a chain that depends only on the starts and ends of its members *)
Lemma tchain_map src op g lo hi l : (forall x, bstart (g x) = bstart x /\ bend (g x) = bend x) ->
  tchain src op lo hi (map g l) <-> tchain src op lo hi l.
Proof.
  intros Hg. revert lo. induction l as [|c r IH]; intros lo; cbn [map tchain]; [tauto|].
  destruct (Hg c) as [A B]. rewrite A, B. destruct (bend c <? 0).
  - destruct r; cbn [map]; [tauto|]. split; intros (H1 & H2 & H3 & H4); discriminate.
  - rewrite IH. tauto.
Qed.

(* ---- la: unfolding by accessors ---- *)
Definition isContK (k : Z) : bool := negb (isLeafK k) && negb (k =? ListMarkerKind) && negb (k =? LinkReferenceDefinitionKind).
Definition hiOf (M : Z) (b : block) : Z := if bend b <? 0 then M else bend b.
Definition body (src : bytes) (M : Z) (b : block) : Prop :=
  if isLeafK (bkind b) then tileS src (bstart b) (hiOf M b) (map ispan (bik b)) /\ Forall (eok src (bkind b)) (bik b) /\ (isParaK (bkind b) = true -> indOK (bik b))
  else if bkind b =? ListMarkerKind then (bend b < 0 -> NT src (bstart b) (hiOf M b)) /\ bik b = []
  else if bkind b =? LinkReferenceDefinitionKind then tileS src (bstart b) (hiOf M b) (defSpans (bik b)) /\ ordIn (bstart b) (hiOf M b) (flat_map leavesI (bik b))
  else tchain src (bend b <? 0) (bstart b) (hiOf M b) (bkids b) /\ bik b = [].
Lemma la_eq src M b : la src M b <->
  (0 <= bstart b <= M /\ (bend b < 0 \/ (bstart b <= bend b <= M /\ bnd0 src (bend b))) /\ (bend b < 0 -> bkind b <> SetextHeadingKind) /\ body src M b /\ allQ (la src M) (bkids b)).
Proof. destruct b; reflexivity. Qed.
Lemma la_bounds src M b : la src M b -> 0 <= bstart b <= M /\ bend b <= M.
Proof. rewrite la_eq. intros (A & B & _). lia. Qed.
Lemma allQ_la_bounds src M l : allQ (la src M) l -> forall c, In c l -> 0 <= bstart c <= M /\ bend c <= M.
Proof. intros H c Hc. apply (la_bounds src M c (allQ_In _ _ _ H Hc)). Qed.
Lemma hiOf_le M b : bend b <= M -> hiOf M b <= M. Proof. unfold hiOf. destruct (Z.ltb_spec (bend b) 0); lia. Qed.

Lemma body_cont src M b : isContK (bkind b) = true -> body src M b = (tchain src (bend b <? 0) (bstart b) (hiOf M b) (bkids b) /\ bik b = []).
Proof.
  unfold isContK, body. intros H. apply andb_true_iff in H. destruct H as [H H3]. apply andb_true_iff in H. destruct H as [H1 H2].
  apply negb_true_iff in H1, H2, H3. rewrite H1, H2, H3. reflexivity.
Qed.
Lemma body_leaf src M b : isLeafK (bkind b) = true ->
  body src M b = (tileS src (bstart b) (hiOf M b) (map ispan (bik b)) /\ Forall (eok src (bkind b)) (bik b) /\ (isParaK (bkind b) = true -> indOK (bik b))).
Proof. unfold body. intros ->. reflexivity. Qed.

(* kinds *)
Lemma canContain_cont pk ck : canContain pk ck = true -> isContK pk = true.
Proof.
  unfold canContain. destruct (Z.eqb_spec pk documentKind) as [->|N1]; [reflexivity|].
  destruct (Z.eqb_spec pk ListKind) as [->|N2]; [reflexivity|].
  destruct (Z.eqb_spec pk ListItemKind) as [->|N3]; [reflexivity|].
  destruct (Z.eqb_spec pk BlockQuoteKind) as [->|N4]; [reflexivity|discriminate].
Qed.
Lemma leaf_no_kids b : cc b = true -> isContK (bkind b) = false -> bkids b = [].
Proof.
  intros H Hk. apply cc_parts in H. destruct H as [H _]. destruct (bkids b) as [|c r]; [reflexivity|].
  cbn [forallb] in H. apply andb_true_iff in H. destruct H as [H _]. apply canContain_cont in H. congruence.
Qed.

(* ---- monotonicity in M: closed blocks do not depend on M; open blocks extend over bytes that need no cover ---- *)
Lemma tchain_hi_open src lo hi hi' l : tchain src true lo hi l -> hi <= hi' -> NT src hi hi' -> tchain src true lo hi' l.
Proof.
  revert lo. induction l as [|c r IH]; intros lo H A B; cbn [tchain] in *.
  - destruct H. split; [lia|eapply NT_app; eassumption].
  - destruct H as (H1 & H2 & H3). split; [exact H1|]. split; [exact H2|].
    destruct (bend c <? 0); [exact H3|]. destruct H3 as [H3 H4]. split; [exact H3|]. apply IH; assumption.
Qed.
Lemma la_mono src M M' : M <= M' -> NT src M M' -> forall b, la src M b -> la src M' b.
Proof.
  intros Hle Hnt. fix IH 1. intros [K s e bk ik a n c l lb]. cbn [la]. intros (A & B & S4 & C & D).
  split; [lia|]. split; [destruct B as [B|[B Bd]]; [left; exact B|right; split; [lia|exact Bd]]|]. split; [exact S4|]. split.
  - destruct (Z.ltb_spec e 0) as [L|L]; [|exact C].
    destruct (isLeafK K); [destruct C as [C1 C2]; split; [eapply tileS_ext; eassumption|exact C2]|].
    destruct (K =? ListMarkerKind); [destruct C as [C Cik]; split; [intros _; eapply NT_app; [apply C; exact L|exact Hnt]|exact Cik]|].
    destruct (K =? LinkReferenceDefinitionKind); [destruct C as [C Co]; split; [eapply tileS_ext; eassumption|eapply ordIn_hi; eassumption]|].
    destruct C as [C Cik]. split; [eapply tchain_hi_open; eassumption|exact Cik].
  - clear C. induction bk as [|x r IHr]; [exact I|]. destruct D as [D1 D2]. split; [apply IH, D1|apply IHr, D2].
Qed.
Lemma allQ_la_mono src M M' l : M <= M' -> NT src M M' -> allQ (la src M) l -> allQ (la src M') l.
Proof. intros H1 H2. apply allQ_impl. apply la_mono; assumption. Qed.

(* a closed block does not depend on M at all, beyond M being at least its end: all its descendants are closed *)
Lemma tchain_closed_kids src lo hi l : tchain src false lo hi l -> forall c, In c l -> 0 <= bend c.
Proof.
  revert lo. induction l as [|c r IH]; intros lo H x Hx; [destruct Hx|]. destruct H as (_ & _ & H).
  destruct (Z.ltb_spec (bend c) 0) as [L|L]; [destruct H; discriminate|]. destruct Hx as [->|Hx]; [exact L|]. eapply IH; [apply H|exact Hx].
Qed.
Lemma la_closed_any src M M' : forall b, 0 <= bend b -> bend b <= M' -> cc b = true -> la src M b -> la src M' b.
Proof.
  fix IH 1. intros [K s e bk ik a n c l lb] He He' Hcc. cbn [bend] in He, He'. cbn [la]. intros (A & B & S4 & C & D).
  assert (E : (e <? 0) = false) by (apply Z.ltb_ge; exact He). rewrite E in *.
  split; [lia|]. split; [destruct B as [B|[B Bd]]; [lia|right; split; [lia|exact Bd]]|]. split; [exact S4|]. split; [exact C|].
  assert (Hk : forall x, In x bk -> 0 <= bend x /\ bend x <= e).
  { intros x Hx. destruct (isContK K) eqn:Ek.
    - assert (C' : tchain src false s e bk).
      { unfold isContK in Ek. destruct (isLeafK K); [discriminate|]. destruct (K =? ListMarkerKind); [discriminate|].
        destruct (K =? LinkReferenceDefinitionKind); [discriminate|apply C]. }
      split; [eapply tchain_closed_kids; eassumption|].
      clear - C' Hx. revert s C'. induction bk as [|y r IHr]; intros s C; [destruct Hx|]. destruct C as (_ & _ & C).
      destruct (Z.ltb_spec (bend y) 0) as [L|L]; [destruct C; discriminate|]. destruct C as [C1 C2].
      pose proof (tchain_le _ _ _ _ _ C2 (tchain_closed_kids _ _ _ _ C2)) as Hle.
      destruct Hx as [->|Hx]; [lia|]. eapply IHr; eassumption.
    - pose proof (leaf_no_kids _ Hcc Ek) as En. cbn [bkids] in En. subst bk. destruct Hx. }
  apply cc_parts in Hcc. destruct Hcc as [_ Hcc]. cbn [bkids] in Hcc. unfold ccL in Hcc.
  clear C. induction bk as [|x r IHr]; [exact I|]. destruct D as [D1 D2]. cbn [forallb] in Hcc. apply andb_true_iff in Hcc. destruct Hcc as [Hx Hr].
  split.
  - destruct (Hk x (or_introl eq_refl)). apply IH; [assumption|lia|exact Hx|exact D1].
  - apply IHr; [exact Hr|exact D2|intros y Hy; apply Hk; right; exact Hy].
Qed.

(* ---- setters that keep span, kind, entries and children ---- *)
Lemma la_set_bn src M b v : la src M (set_bn b v) <-> la src M b. Proof. destruct b; reflexivity. Qed.
Lemma la_set_bchar src M b v : la src M (set_bchar b v) <-> la src M b. Proof. destruct b; reflexivity. Qed.
Lemma la_set_bindent src M b v : la src M (set_bindent b v) <-> la src M b. Proof. destruct b; reflexivity. Qed.
Lemma la_set_bloose src M b v : la src M (set_bloose b v) <-> la src M b. Proof. destruct b; reflexivity. Qed.
Lemma la_set_blast src M b v : la src M (set_blast b v) <-> la src M b. Proof. destruct b; reflexivity. Qed.

Lemma bik_set_bkids' b v : bik (set_bkids b v) = bik b. Proof. destruct b; reflexivity. Qed.
Lemma body_set_bkids_cont src M b ks : isContK (bkind b) = true ->
  body src M (set_bkids b ks) = (tchain src (bend b <? 0) (bstart b) (hiOf M b) ks /\ bik b = []).
Proof.
  intros H. rewrite body_cont by (rewrite bkind_set_bkids; exact H).
  unfold hiOf. rewrite bend_set_bkids, bstart_set_bkids, bkids_set_bkids, bik_set_bkids'. reflexivity.
Qed.
Lemma body_set_bkids_other src M b ks : isContK (bkind b) = false -> body src M (set_bkids b ks) = body src M b.
Proof.
  intros H. unfold body, hiOf. rewrite bkind_set_bkids, bend_set_bkids, bstart_set_bkids, bik_set_bkids.
  unfold isContK in H. destruct (isLeafK (bkind b)); [reflexivity|]. destruct (bkind b =? ListMarkerKind); [reflexivity|].
  destruct (bkind b =? LinkReferenceDefinitionKind); [reflexivity|discriminate].
Qed.
Lemma la_set_bkids src M b ks : la src M b -> allQ (la src M) ks ->
  (isContK (bkind b) = true -> tchain src (bend b <? 0) (bstart b) (hiOf M b) ks) -> la src M (set_bkids b ks).
Proof.
  rewrite !la_eq. rewrite bstart_set_bkids, bend_set_bkids, bkids_set_bkids, bkind_set_bkids. intros (A & B & S4 & C & D) Hk Hc.
  split; [exact A|]. split; [exact B|]. split; [exact S4|]. split; [|exact Hk].
  destruct (isContK (bkind b)) eqn:Ek; [rewrite body_set_bkids_cont by exact Ek; rewrite body_cont in C by exact Ek; split; [apply Hc; reflexivity|apply C]|rewrite body_set_bkids_other by exact Ek; exact C].
Qed.

Lemma la_lastBlock src M b c : la src M b -> lastBlock b = Some c -> la src M c.
Proof. rewrite la_eq. intros (_ & _ & _ & _ & H) Hl. eapply allQ_In; [exact H|eapply lastBlock_In; exact Hl]. Qed.
Lemma la_getAt src M : forall d b x, la src M b -> getAt d b = Some x -> la src M x.
Proof.
  induction d as [|d IH]; intros b x Hb H; [inversion H; subst; exact Hb|]. cbn [getAt] in H.
  destruct (lastBlock b) as [c|] eqn:El; [|discriminate]. eapply IH; [|exact H]. eapply la_lastBlock; eassumption.
Qed.

(* replace the last child c by a list L: the chain condition transfers from [c] to L *)
Definition repl (src : bytes) (op : bool) (hi : Z) (c : block) (L : list block) : Prop :=
  forall lo, tchain src op lo hi [c] -> tchain src op lo hi L.
Lemma la_set_lastBlocks src M b c L : la src M b -> lastBlock b = Some c -> allQ (la src M) L ->
  (isContK (bkind b) = true -> repl src (bend b <? 0) (hiOf M b) c L) -> la src M (set_lastBlocks b L).
Proof.
  intros Hb Hl HL Hc. unfold set_lastBlocks. pose proof (lastBlock_split b c Hl) as Es.
  pose proof Hb as Hb'. rewrite la_eq in Hb'. destruct Hb' as (_ & _ & _ & C & E).
  apply la_set_bkids; [exact Hb| |].
  - rewrite Es in E. apply allQ_app in E. apply allQ_app. tauto.
  - intros Ek. rewrite body_cont in C by exact Ek. destruct C as [C _]. rewrite Es in C.
    destruct (tchain_split src _ _ _ _ [c] ltac:(discriminate) C) as (mid & _ & M2 & M3 & _). apply M3, Hc; [exact Ek|exact M2].
Qed.
Lemma repl_same src op hi c c' : bstart c' = bstart c -> bend c' = bend c -> repl src op hi c [c'].
Proof. intros A B lo. cbn [tchain]. rewrite A, B. tauto. Qed.

(* right-spine update that keeps start and end of the updated block *)
Lemma la_updAt_at src M f : forall d b, la src M b ->
  (forall x, getAt d b = Some x -> la src M x -> la src M (f x) /\ bstart (f x) = bstart x /\ bend (f x) = bend x) ->
  la src M (updAt d f b) /\ bstart (updAt d f b) = bstart b /\ bend (updAt d f b) = bend b.
Proof.
  induction d as [|d IH]; intros b Hb Hf; [apply Hf; [reflexivity|exact Hb]|]. cbn [updAt].
  destruct (lastBlock b) as [c|] eqn:El; [|tauto].
  destruct (IH c (la_lastBlock src M b c Hb El)) as (A & B & C).
  { intros x Hx. apply Hf. cbn [getAt]. rewrite El. exact Hx. }
  split; [|split; [apply bstart_set_lastBlocks|apply bend_set_lastBlocks]].
  eapply la_set_lastBlocks; [exact Hb|exact El|split; [exact A|exact I]|]. intros _. apply repl_same; assumption.
Qed.

(* the same with a change of the bound M -> M' along the open spine: every block above depth d is open, M <= M' *)
Lemma tchain_last_open src op lo hi a c : bend c < 0 -> tchain src op lo hi (a ++ [c]) ->
  forall hi' c', bstart c' = bstart c -> bend c' < 0 -> tchain src op lo hi' (a ++ [c']).
Proof.
  intros Hc H hi' c' Es He. revert lo H. induction a as [|x a IH]; intros lo H; cbn [app tchain] in *.
  - destruct H as (H1 & H2 & H3). rewrite Es. split; [exact H1|]. split; [exact H2|].
    destruct (Z.ltb_spec (bend c) 0); [|lia]. destruct (Z.ltb_spec (bend c') 0); [exact H3|lia].
  - destruct H as (H1 & H2 & H3). split; [exact H1|]. split; [exact H2|].
    destruct (bend x <? 0).
    + destruct H3 as [_ H3]. destruct a; discriminate.
    + destruct H3 as [H3 H4]. split; [exact H3|apply IH, H4].
Qed.
