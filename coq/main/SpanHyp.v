From Coq Require Import List ZArith Lia Bool.
Import ListNotations.
Require Import Base Tree Rdr Link Collect Html Recog Inl3a Inl3b Inl3c Inl3d Inl3e Driver Props SpanRdr SpanBridge InlineSpans SpanHypDef.
Open Scope Z_scope.

(* The hypothesis of InlineSpans.parseInlines_spans as an executable condition on a whole (pre-inline) block tree
   (SpanHypDef.entriesOKroots), and the theorem lifted from one leaf to everything Rewrite does to a root block.  The check
   evaluates entriesOKroots on the implementation's own pre-inline trees (the dump of NextBlock's result), so the theorem
   applies to each of them. *)

Lemma ordered_inX_eq : forall ks lo hi, ordered_inX lo hi ks = ordered_in lo hi ks.
Proof. induction ks as [|k r IH]; intros lo hi; [reflexivity|]. cbn [ordered_inX ordered_in]. rewrite IH. reflexivity. Qed.
Lemma linesOKX_eq src : forall U, linesOKX src U = linesOK src U.
Proof.
  induction U as [|u r IH]; [reflexivity|]. destruct r as [|v r']; [reflexivity|].
  change (linesOKX src (u :: v :: r')) with ((istart u <? iend u) && (if ikind u =? IndentKind then true else isEOLbX (at_ src (iend u - 1))) && linesOKX src (v :: r')).
  change (linesOK src (u :: v :: r')) with ((istart u <? iend u) && (if ikind u =? IndentKind then true else SpanRdr.isEOLb (at_ src (iend u - 1))) && linesOK src (v :: r')).
  rewrite IH. reflexivity.
Qed.
Theorem entriesOKX_eq src b : entriesOKX src b = entriesOK src b.
Proof.
  unfold entriesOKX, entriesOK, entriesBasicX, entriesBasic. rewrite ordered_inX_eq, linesOKX_eq. reflexivity.
Qed.

Lemma bik_set_bik b ks : bik (set_bik b ks) = ks.
Proof. destruct b; reflexivity. Qed.

Theorem rewriteB_inline_spans : forall fuel src matcher b,
  entriesOKB fuel src b = true -> spansAfter fuel src matcher b = true.
Proof.
  induction fuel as [|f IH]; intros src matcher b H; [reflexivity|].
  cbn [entriesOKB] in H. cbn [spansAfter]. destruct (isLeafU b) eqn:E.
  - cbn [rewriteB]. unfold isLeafU in E. rewrite E. rewrite bik_set_bik. rewrite entriesOKX_eq in H.
    destruct (parseInlines_spans src matcher b H) as [H1 H2]. rewrite ordered_inX_eq, H1, H2. reflexivity.
  - rewrite forallb_forall in H. apply forallb_forall. intros c Hc. apply IH. apply H. exact Hc.
Qed.

Theorem rewrite_roots_inline_spans : forall roots matcher, entriesOKroots roots = true ->
  forallb (fun r => spansAfter (bheight (rb_blk r)) (rb_src r) matcher (rb_blk r)) roots = true.
Proof.
  intros roots matcher H. unfold entriesOKroots in H. rewrite forallb_forall in H. apply forallb_forall.
  intros r Hr. apply rewriteB_inline_spans. apply H. exact Hr.
Qed.

Print Assumptions entriesOKX_eq.
Print Assumptions rewrite_roots_inline_spans.
