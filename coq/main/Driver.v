From Coq Require Import List ZArith Lia Bool.
Import ListNotations.
Require Import Base Tree Rdr Link Collect Html Recog LP Rules Starts.
Open Scope Z_scope.

(* addLineText (parse.go:268) *)
Fixpoint setLastBlankUpTo (d : nat) (v : bool) (rt : block) : block :=
  let rt := updAt d (fun b => set_blast b v) rt in
  match d with O => rt | S d' => setLastBlankUpTo d' v rt end.

Definition addLineText (p : lp) : lp :=
  let isBlank := isRestBlank p in
  let p := if isBlank then updCont p (fun b => match lastBlock b with
                                              | Some c => set_lastBlocks b [set_blast c true]
                                              | None => b end) else p in
  let cb := contBlock p in
  let k := bkind cb in
  let llb := isBlank && negb ((k =? BlockQuoteKind) || (k =? FencedCodeBlockKind) ||
                              ((k =? ListItemKind) && (childCount cb =? 1) && (lineStart p <=? bstart cb))) in
  let p := withRoot p (setLastBlankUpTo (cdepth p) llb (root p)) in
  let go (p : lp) : lp :=
    let k := containerKind p in
    let inlineKind := if isCode k then TextKind else if k =? HTMLBlockKind then RawHTMLKind else UnparsedKind in
    let p := updCont p (fun b => set_bik b (bik b ++ [mkI inlineKind (lineStart p + li p) (lineStart p + len (line p))])) in
    if isCode k && negb (hasByteSuffixEOL (line p)) then
      updCont p (fun b => set_bik b (bik b ++ [mkI SoftLineBreakKind (lineStart p + len (line p)) (lineStart p + len (line p))]))
    else p in
  if acceptsLines k then
    let p :=
      if (li p <? len (line p)) && (at_ (line p) (li p) =? 9) && (0 <? tabRem p) && (tabRem p <? 4) then
        let p := updCont p (fun b => set_bik b (bik b ++ [Inl IndentKind (lineStart p + li p) (lineStart p + li p + 1) (tabRem p) [] []])) in
        consumeIndent p (tabRem p)
      else p in
    go p
  else if negb isBlank then
    let p := openBlock p ParagraphKind in
    let p := consumeIndent p (indent p) in
    go p
  else p.

(* one line: descendOpenBlocks, openNewBlocks, addLineText *)
Definition resetLP (st : Z) (children : list block) (lineStart0 : Z) (src : bytes) : lp :=
  let ln := from_ src lineStart0 in
  {| source := src; root := Blk documentKind 0 (-1) children [] 0 0 0 false false; container := Some O;
     lineStart := lineStart0; line := ln; li := 0; col := 0; tabRem := computeTabRem ln 0 0; state := st; panicked := 0 |}.

Definition processLine (st : Z) (children : list block) (lineStart0 : Z) (src : bytes) : list block * Z * Z :=
  let p := resetLP st children lineStart0 src in
  let '(allMatched, p) := descendOpenBlocks p in
  let '(hasText, p) := if negb (state p =? stDescendTerminated) then openNewBlocks p allMatched else (false, p) in
  let p := if hasText then addLineText p else p in
  (bkids (root p), state p, panicked p).

(* ---- NUL padding, line counting (parse.go:449-537) ---- *)
Definition pad (l : bytes) : bytes := flat_map (fun b => if b =? 0 then [0; 0; 0] else [b]) l.
Fixpoint nullCount (l : bytes) : Z := match l with [] => 0 | b :: r => (if b =? 0 then 1 else 0) + nullCount r end.
Definition unpadded (l : bytes) : Z := len l - nullCount l / 3 * 2.
Fixpoint fill_aux (k : nat) (l : bytes) : bytes :=
  match l with
  | [] => []
  | b :: r =>
    match k with
    | 2%nat => 191 :: fill_aux 1 r
    | 1%nat => 189 :: fill_aux 0 r
    | _ => if b =? 0 then 239 :: fill_aux 2 r else b :: fill_aux 0 r
    end
  end.
Definition fillNulls := fill_aux 0.
Fixpoint lineCount (l : bytes) : Z :=
  match l with
  | [] => 0
  | b :: r =>
    (if b =? 10 then 1
     else if b =? 13 then match r with c :: _ => if c =? 10 then 0 else 1 | [] => 1 end
     else 0) + lineCount r
  end.

(* in-memory readline: end of the line starting at i *)
Fixpoint findEol (l : bytes) (i : Z) : Z :=   (* index of first \r or \n at or after position 0 of l, offset i; -1 if none *)
  match l with [] => -1 | b :: r => if (b =? 10) || (b =? 13) then i else findEol r (i + 1) end.
Definition lineEnd (buf : bytes) (i : Z) : Z :=
  let e := findEol (from_ buf i) i in
  if e <? 0 then len buf
  else if at_ buf e =? 10 then e + 1
  else if e + 1 <? len buf then (if at_ buf (e + 1) =? 10 then e + 2 else e + 1)
  else len buf.

Record rootB := { rb_line : Z; rb_start : Z; rb_end : Z; rb_src : bytes; rb_blk : block }.
Record bpst := { buf : bytes; bi : Z; boff : Z; bline : Z; pending : list block }.

Definition makeRoot (children : list block) (s : bpst) : option (rootB * bpst) :=
  match children with
  | [] => None
  | b :: rest =>
    if isOpen b then None else
    let n := bend b in
    let pre := upto (buf s) n in
    let orig := unpadded pre in
    Some ({| rb_line := bline s; rb_start := boff s; rb_end := boff s + orig; rb_src := fillNulls pre; rb_blk := b |},
          {| buf := from_ (buf s) n; bi := bi s - n; boff := boff s + orig; bline := bline s + lineCount pre;
             pending := map (shiftB (- n)) rest |})
  end.

Inductive nb := NBBlock (r : rootB) (s : bpst) | NBEof (s : bpst) | NBStuck | NBPanic (site : Z).

Fixpoint lineLoop (fuel : nat) (st : Z) (children : list block) (lineStart0 : Z) (s : bpst) : nb :=
  match fuel with
  | O => NBStuck
  | S f =>
    let '(children', st', pn) := processLine st children lineStart0 (upto (buf s) (bi s)) in
    if negb (pn =? 0) then NBPanic pn else
    match makeRoot children' s with
    | Some (r, s') => NBBlock r s'
    | None =>
      let ls := bi s in
      lineLoop f st' children' ls {| buf := buf s; bi := lineEnd (buf s) (bi s); boff := boff s; bline := bline s; pending := pending s |}
    end
  end.

Fixpoint skipLoop (fuel : nat) (s : bpst) : nb :=
  match fuel with
  | O => NBStuck
  | S f =>
    let e := lineEnd (buf s) (bi s) in
    if negb (bi s <? e) then NBEof s else
    let ln := upto (buf s) e in
    if isBlankLine ln then
      skipLoop f {| buf := from_ (buf s) e; bi := 0; boff := boff s + unpadded ln; bline := bline s + 1; pending := pending s |}
    else lineLoop f 0 [] 0 {| buf := buf s; bi := e; boff := boff s; bline := bline s; pending := pending s |}
  end.

Definition nextBlock (fuel : nat) (s : bpst) : nb :=
  match makeRoot (pending s) s with
  | Some (r, s') => NBBlock r s'
  | None =>
    match pending s with
    | _ :: _ =>
      let ls := bi s in
      lineLoop fuel 0 (pending s) ls {| buf := buf s; bi := lineEnd (buf s) (bi s); boff := boff s; bline := bline s; pending := pending s |}
    | [] =>
      let pre := upto (buf s) (bi s) in
      skipLoop fuel {| buf := from_ (buf s) (bi s); bi := 0; boff := boff s + unpadded pre; bline := bline s + lineCount pre; pending := [] |}
    end
  end.

Fixpoint allBlocks (fuel : nat) (s : bpst) (acc : list rootB) : list rootB * Z :=
  match fuel with
  | O => (acc, -1)
  | S f =>
    match nextBlock (3 + length (buf s))%nat s with
    | NBBlock r s' => allBlocks f s' (acc ++ [r])
    | NBEof _ => (acc, 0)
    | NBStuck => (acc, -2)
    | NBPanic site => (acc, site)
    end
  end.

Definition parseBlocks (input : bytes) : list rootB * Z :=
  let b := pad input in
  allBlocks (S (length b)) {| buf := b; bi := 0; boff := 0; bline := 1; pending := [] |} [].
