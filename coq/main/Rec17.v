From Coq Require Import List ZArith Lia Bool.
Import ListNotations.
Require Import Base Recog Rec16.
Open Scope Z_scope.

(* ---------- code fences (spec 4.5), by positions ---------- *)
Definition isWs := isSpaceTabOrLineEnding.

Definition fence_ix (line : bytes) (c n is_ ie : Z) : Prop :=
  (c = 96 \/ c = 126) /\ 3 <= n <= len line /\ (forall i, 0 <= i < n -> at_ line i = c) /\ (n < len line -> at_ line n <> c) /\
  ( (is_ = -1 /\ ie = -1 /\ forall i, n <= i < len line -> isWs (at_ line i) = true)
  \/ (n <= is_ /\ is_ < ie /\ ie <= len line /\ (forall i, n <= i < is_ -> isWs (at_ line i) = true) /\
      isWs (at_ line is_) = false /\ isWs (at_ line (ie - 1)) = false /\
      (forall i, ie <= i < len line -> isWs (at_ line i) = true) /\
      (c = 96 -> forall i, is_ <= i < ie -> at_ line i <> 96)) ).

(* ---- list/index facts ---- *)
Lemma at_cons0 x (l : bytes) : at_ (x :: l) 0 = x. Proof. reflexivity. Qed.
Lemma at_consS x (l : bytes) i : 0 <= i -> at_ (x :: l) (i + 1) = at_ l i.
Proof. intros H. unfold at_. destruct (Z.ltb_spec (i + 1) 0); [lia|]. destruct (Z.ltb_spec i 0); [lia|].
       replace (Z.to_nat (i + 1)) with (S (Z.to_nat i)) by lia. reflexivity. Qed.
Lemma len_cons {A} (x : A) l : len (x :: l) = len l + 1. Proof. unfold len. cbn [length]. lia. Qed.
Lemma len_nonneg {A} (l : list A) : 0 <= len l. Proof. unfold len. lia. Qed.

Lemma at_from (l : bytes) n j : 0 <= n -> 0 <= j -> at_ (from_ l n) j = at_ l (n + j).
Proof.
  intros Hn Hj. unfold at_, from_. destruct (Z.ltb_spec j 0); [lia|]. destruct (Z.ltb_spec (n + j) 0); [lia|].
  replace (Z.to_nat (n + j)) with (Z.to_nat n + Z.to_nat j)%nat by lia.
  generalize (Z.to_nat n) (Z.to_nat j). clear. intros a b. revert l. induction a as [|a IH]; intros l; [reflexivity|].
  destruct l as [|x l]; [destruct b; reflexivity|]. cbn [skipn Nat.add nth]. apply IH.
Qed.
Lemma len_from {A} (l : list A) n : 0 <= n <= len l -> len (from_ l n) = len l - n.
Proof. intros H. unfold len, from_ in *. rewrite skipn_length. lia. Qed.

(* ---- countWhile ---- *)
Lemma countWhile_spec p : forall l, 0 <= countWhile p l <= len l /\
  (forall i, 0 <= i < countWhile p l -> p (at_ l i) = true) /\
  (countWhile p l < len l -> p (at_ l (countWhile p l)) = false).
Proof.
  induction l as [|x l IH]; [cbn; unfold len; cbn; repeat split; lia|].
  cbn [countWhile]. rewrite len_cons. destruct IH as (I1 & I2 & I3). destruct (p x) eqn:Ex.
  - repeat split; try lia.
    + intros i Hi. destruct (Z.eq_dec i 0) as [->|Ni]; [rewrite at_cons0; exact Ex|].
      replace i with ((i - 1) + 1) by lia. rewrite at_consS by lia. apply I2. lia.
    + intros H. replace (1 + countWhile p l) with (countWhile p l + 1) by lia. rewrite at_consS by lia. apply I3. lia.
  - repeat split; try lia. intros _. rewrite at_cons0. exact Ex.
Qed.
Lemma countWhile_unique p : forall l m, 0 <= m <= len l -> (forall i, 0 <= i < m -> p (at_ l i) = true) ->
  (m < len l -> p (at_ l m) = false) -> countWhile p l = m.
Proof.
  induction l as [|x l IH]; intros m Hm H1 H2.
  - unfold len in Hm. cbn in Hm. cbn. lia.
  - rewrite len_cons in *. cbn [countWhile]. destruct (p x) eqn:Ex.
    + destruct (Z.eq_dec m 0) as [->|Nm].
      * specialize (H2 ltac:(pose proof (len_nonneg l); lia)). rewrite at_cons0 in H2. congruence.
      * rewrite (IH (m - 1)); [lia|lia| |].
        -- intros i Hi. specialize (H1 (i + 1) ltac:(lia)). rewrite at_consS in H1 by lia. exact H1.
        -- intros Hl. specialize (H2 ltac:(lia)). replace m with ((m - 1) + 1) in H2 by lia. rewrite at_consS in H2 by lia. exact H2.
    + destruct (Z.eq_dec m 0) as [->|Nm]; [reflexivity|].
      specialize (H1 0 ltac:(lia)). rewrite at_cons0 in H1. congruence.
Qed.

(* ---- firstNonWs ---- *)
Lemma firstNonWs_spec : forall l i0, 0 <= i0 ->
  (firstNonWs l i0 = -1 /\ forall j, 0 <= j < len l -> isWs (at_ l j) = true) \/
  (i0 <= firstNonWs l i0 < i0 + len l /\ (forall j, 0 <= j < firstNonWs l i0 - i0 -> isWs (at_ l j) = true) /\
   isWs (at_ l (firstNonWs l i0 - i0)) = false).
Proof.
  induction l as [|x l IH]; intros i0 H0.
  - left. split; [reflexivity|]. unfold len; cbn. intros; lia.
  - cbn [firstNonWs]. rewrite len_cons. fold isWs. destruct (isWs x) eqn:Ex.
    + destruct (IH (i0 + 1) ltac:(lia)) as [(E & A)|(B & A & N)].
      * left. split; [exact E|]. intros j Hj. destruct (Z.eq_dec j 0) as [->|Nj]; [rewrite at_cons0; exact Ex|].
        replace j with ((j - 1) + 1) by lia. rewrite at_consS by lia. apply A. lia.
      * right. split; [lia|]. split.
        -- intros j Hj. destruct (Z.eq_dec j 0) as [->|Nj]; [rewrite at_cons0; exact Ex|].
           replace j with ((j - 1) + 1) by lia. rewrite at_consS by lia. apply A. lia.
        -- replace (firstNonWs l (i0 + 1) - i0) with ((firstNonWs l (i0 + 1) - (i0 + 1)) + 1) by lia.
           rewrite at_consS by lia. exact N.
    + right. split; [pose proof (len_nonneg l); lia|]. split; [intros; lia|]. replace (i0 - i0) with 0 by lia. rewrite at_cons0. exact Ex.
Qed.
Lemma firstNonWs_all : forall l i0, (forall j, 0 <= j < len l -> isWs (at_ l j) = true) -> firstNonWs l i0 = -1.
Proof.
  induction l as [|x l IH]; intros i0 H; [reflexivity|]. cbn [firstNonWs]. fold isWs.
  rewrite len_cons in H. pose proof (H 0 ltac:(pose proof (len_nonneg l); lia)) as H0. rewrite at_cons0 in H0. rewrite H0.
  apply IH. intros j Hj. specialize (H (j + 1) ltac:(lia)). rewrite at_consS in H by lia. exact H.
Qed.
Lemma firstNonWs_at : forall l i0 k, 0 <= k < len l -> (forall j, 0 <= j < k -> isWs (at_ l j) = true) ->
  isWs (at_ l k) = false -> firstNonWs l i0 = i0 + k.
Proof.
  induction l as [|x l IH]; intros i0 k Hk H1 H2; [unfold len in Hk; cbn in Hk; lia|].
  cbn [firstNonWs]. fold isWs. rewrite len_cons in Hk. destruct (Z.eq_dec k 0) as [->|Nk].
  - rewrite at_cons0 in H2. rewrite H2. lia.
  - pose proof (H1 0 ltac:(lia)) as H0. rewrite at_cons0 in H0. rewrite H0.
    rewrite (IH (i0 + 1) (k - 1)); [lia|lia| |].
    + intros j Hj. specialize (H1 (j + 1) ltac:(lia)). rewrite at_consS in H1 by lia. exact H1.
    + replace k with ((k - 1) + 1) in H2 by lia. rewrite at_consS in H2 by lia. exact H2.
Qed.

(* ---- trimEndWs ---- *)
Lemma trimEndWs_spec line start : forall fuel e, start <= e -> e - start < Z.of_nat fuel ->
  start <= trimEndWs fuel line start e <= e /\
  (forall i, trimEndWs fuel line start e <= i < e -> isWs (at_ line i) = true) /\
  (start < trimEndWs fuel line start e -> isWs (at_ line (trimEndWs fuel line start e - 1)) = false).
Proof.
  induction fuel as [|f IH]; intros e He Hf; [lia|]. cbn [trimEndWs].
  destruct (Z.leb_spec e start) as [L|L]; [repeat split; try lia; intros; lia|].
  fold isWs. destruct (isWs (at_ line (e - 1))) eqn:Ew.
  - destruct (IH (e - 1) ltac:(lia) ltac:(lia)) as (A & B & C). repeat split; try lia.
    + intros i Hi. destruct (Z.eq_dec i (e - 1)) as [->|Ni]; [exact Ew|]. apply B. lia.
    + exact C.
  - repeat split; try lia. intros _. exact Ew.
Qed.
Lemma trimEndWs_at line start : forall fuel e r, start <= r <= e -> e - start < Z.of_nat fuel ->
  (forall i, r <= i < e -> isWs (at_ line i) = true) -> (start < r -> isWs (at_ line (r - 1)) = false) ->
  trimEndWs fuel line start e = r.
Proof.
  induction fuel as [|f IH]; intros e r Hr Hf H1 H2; [lia|]. cbn [trimEndWs].
  destruct (Z.leb_spec e start) as [L|L]; [lia|]. fold isWs.
  destruct (Z.eq_dec r e) as [->|Nr].
  - rewrite (H2 ltac:(lia)). reflexivity.
  - rewrite (H1 (e - 1) ltac:(lia)). apply IH; [lia|lia| |exact H2]. intros i Hi. apply H1. lia.
Qed.

(* ---- membership in a sub-slice ---- *)
Lemma existsb_sub (line : bytes) a b v : 0 <= a -> a <= b <= len line ->
  existsb (fun c => c =? v) (sub line a b) = true <-> exists i, a <= i < b /\ at_ line i = v.
Proof.
  intros Ha Hb. unfold sub, upto. 
  assert (G : forall (l : bytes) k, 0 <= k <= len l ->
            (existsb (fun c => c =? v) (firstn (Z.to_nat k) l) = true <-> exists j, 0 <= j < k /\ at_ l j = v)).
  { induction l as [|x l IH]; intros k Hk.
    - unfold len in Hk. cbn in Hk. replace k with 0 by lia. cbn. split; [discriminate|intros (j & Hj & _); lia].
    - rewrite len_cons in Hk. destruct (Z.eq_dec k 0) as [->|Nk]; [cbn; split; [discriminate|intros (j & Hj & _); lia]|].
      replace (Z.to_nat k) with (S (Z.to_nat (k - 1))) by lia. cbn [firstn existsb]. rewrite orb_true_iff, (IH (k - 1)) by lia.
      split.
      + intros [E|(j & Hj & Ej)]; [exists 0; split; [lia|]; rewrite at_cons0; apply Z.eqb_eq in E; exact E|].
        exists (j + 1). split; [lia|]. rewrite at_consS by lia. exact Ej.
      + intros (j & Hj & Ej). destruct (Z.eq_dec j 0) as [->|Nj]; [left; rewrite at_cons0 in Ej; apply Z.eqb_eq; exact Ej|].
        right. exists (j - 1). split; [lia|]. replace j with ((j - 1) + 1) in Ej by lia. rewrite at_consS in Ej by lia. exact Ej. }
  rewrite (G (from_ line a) (b - a)) by (rewrite len_from; lia).
  split.
  - intros (j & Hj & Ej). exists (a + j). split; [lia|]. rewrite <- at_from by lia. exact Ej.
  - intros (i & Hi & Ei). exists (i - a). split; [lia|]. rewrite at_from by lia. replace (a + (i - a)) with i by lia. exact Ei.
Qed.

Lemma from_ws_iff (L : bytes) n : 0 <= n <= len L ->
  (forall j, 0 <= j < len (from_ L n) -> isWs (at_ (from_ L n) j) = true) <->
  (forall i, n <= i < len L -> isWs (at_ L i) = true).
Proof.
  intros Hn. rewrite len_from by lia. split.
  - intros H i Hi. specialize (H (i - n) ltac:(lia)). rewrite at_from in H by lia. replace (n + (i - n)) with i in H by lia. exact H.
  - intros H j Hj. rewrite at_from by lia. apply H. lia.
Qed.

Theorem parseCodeFence_sound line c n is_ ie : parseCodeFence line = (c, n, is_, ie) -> 0 < n -> fence_ix line c n is_ ie.
Proof.
  intros H Hn. destruct line as [|c0 r]; [cbn in H; inversion H; lia|].
  unfold parseCodeFence in H. set (L := c0 :: r) in *.
  destruct ((len L <? 3) || negb ((c0 =? 96) || (c0 =? 126))) eqn:E0; [inversion H; lia|].
  apply orb_false_iff in E0. destruct E0 as [E1 E2]. apply negb_false_iff in E2.
  assert (Hc0 : c0 = 96 \/ c0 = 126) by (apply orb_true_iff in E2; destruct E2 as [E|E]; apply Z.eqb_eq in E; tauto).
  destruct (countWhile_spec (fun c => c =? c0) L) as (C1 & C2 & C3). set (m := countWhile (fun c => c =? c0) L) in *.
  destruct (m <? 3) eqn:E3; [inversion H; lia|]. apply Z.ltb_ge in E3.
  assert (Hrun : forall i, 0 <= i < m -> at_ L i = c0) by (intros i Hi; apply Z.eqb_eq, C2, Hi).
  assert (Hstop : m < len L -> at_ L m <> c0) by (intros Hl; apply Z.eqb_neq, C3, Hl).
  destruct (firstNonWs_spec (from_ L m) m ltac:(lia)) as [(Ef & Aw)|(Bf & Aw & Nw)].
  - rewrite Ef in H. cbn in H. inversion H; subst.
    unfold fence_ix. refine (conj Hc0 (conj (conj E3 (proj2 C1)) (conj Hrun (conj Hstop _)))). left. refine (conj eq_refl (conj eq_refl _)).
    apply (from_ws_iff L m); [lia|exact Aw].
  - set (s := firstNonWs (from_ L m) m) in *.
    replace (s <? 0) with false in H by (symmetry; apply Z.ltb_ge; lia).
    rewrite len_from in Bf by lia.
    destruct (trimEndWs_spec L s (S (length L)) (len L) ltac:(lia) ltac:(unfold len; lia)) as (T1 & T2 & T3).
    set (t := trimEndWs (S (length L)) L s (len L)) in *.
    assert (Ns : isWs (at_ L s) = false) by (rewrite at_from in Nw by lia; replace (m + (s - m)) with s in Nw by lia; exact Nw).
    assert (Hst : s < t).
    { destruct (Z.lt_ge_cases s t) as [G|G]; [assumption|]. specialize (T2 s ltac:(lia)). congruence. }
    destruct ((c0 =? 96) && existsb (fun c => c =? 96) (sub L s t)) eqn:Eb; [inversion H; lia|].
    inversion H; subst.
    unfold fence_ix. refine (conj Hc0 (conj (conj E3 (proj2 C1)) (conj Hrun (conj Hstop _)))). right.
    refine (conj (proj1 Bf) (conj Hst (conj (proj2 T1) (conj _ (conj Ns (conj _ (conj T2 _))))))).
    + intros i Hi. specialize (Aw (i - m) ltac:(lia)). rewrite at_from in Aw by lia. replace (m + (i - m)) with i in Aw by lia. exact Aw.
    + apply T3. lia.
    + intros Hc i Hi Ei. subst c. rewrite Z.eqb_refl in Eb. cbn [andb] in Eb.
      assert (Ex : existsb (fun c => c =? 96) (sub L s t) = true) by (apply existsb_sub; [lia|lia|exists i; tauto]). congruence.
Qed.

Theorem parseCodeFence_complete line c n is_ ie : fence_ix line c n is_ ie -> parseCodeFence line = (c, n, is_, ie).
Proof.
  intros (Hc & Hn & Hrun & Hstop & Hinfo).
  destruct line as [|c0 r]; [unfold len in Hn; cbn in Hn; lia|].
  assert (E0 : c0 = c) by (specialize (Hrun 0 ltac:(lia)); exact Hrun). subst c0.
  unfold parseCodeFence. set (L := c :: r) in *.
  replace (len L <? 3) with false by (symmetry; apply Z.ltb_ge; lia).
  replace ((c =? 96) || (c =? 126)) with true by (destruct Hc as [-> | ->]; reflexivity). cbn [negb orb].
  assert (Ecw : countWhile (fun x => x =? c) L = n).
  { apply countWhile_unique; [lia|intros i Hi; apply Z.eqb_eq, Hrun, Hi|intros Hl; apply Z.eqb_neq, Hstop, Hl]. }
  rewrite Ecw.
  replace (n <? 3) with false by (symmetry; apply Z.ltb_ge; lia).
  destruct Hinfo as [(-> & -> & Aw)|(H1 & H2 & H3 & Aw & Ns & Ne & At & Hb)].
  - rewrite firstNonWs_all; [reflexivity|]. apply (from_ws_iff L n); [lia|exact Aw].
  - rewrite (firstNonWs_at (from_ L n) n (is_ - n)).
    + replace (n + (is_ - n)) with is_ by lia.
      replace (is_ <? 0) with false by (symmetry; apply Z.ltb_ge; lia).
      assert (Et : trimEndWs (S (length L)) L is_ (len L) = ie).
      { apply trimEndWs_at; [lia|unfold len; lia|exact At|intros _; exact Ne]. }
      rewrite Et.
      destruct (c =? 96) eqn:Ec; [|reflexivity]. apply Z.eqb_eq in Ec. cbn [andb].
      destruct (existsb (fun c0 => c0 =? 96) (sub L is_ ie)) eqn:Ex; [|reflexivity].
      apply existsb_sub in Ex; [|lia|lia]. destruct Ex as (i & Hi & Ei). exfalso. exact (Hb Ec i Hi Ei).
    + rewrite len_from by lia. lia.
    + intros j Hj. rewrite at_from by lia. apply Aw. lia.
    + rewrite at_from by lia. replace (n + (is_ - n)) with is_ by lia. exact Ns.
Qed.

(* a failed parse has exactly one shape *)
Theorem parseCodeFence_none line c n is_ ie : parseCodeFence line = (c, n, is_, ie) -> n <= 0 -> (c, n, is_, ie) = (0, 0, -1, -1).
Proof.
  intros H Hn. destruct line as [|c0 r]; [cbn in H; congruence|]. unfold parseCodeFence in H.
  remember (c0 :: r) as L eqn:EL.
  destruct ((len L <? 3) || negb ((c0 =? 96) || (c0 =? 126))); [congruence|].
  remember (countWhile (fun c1 => c1 =? c0) L) as m eqn:Em.
  destruct (m <? 3) eqn:E3; [congruence|]. apply Z.ltb_ge in E3.
  destruct (firstNonWs (from_ L m) m <? 0); [inversion H; subst n; lia|].
  match type of H with (if ?c then _ else _) = _ => destruct c end; [congruence|]. inversion H; subst n; lia.
Qed.
Print Assumptions parseCodeFence_sound.
Print Assumptions parseCodeFence_complete.
