From Coq Require Import List ZArith Lia Bool.
Import ListNotations.
Require Import LADef LAPad ShDef.
Require BSTree EntTree.
Require Import Base Tree Rdr Link Collect Html Recog LP Rules Starts Driver Rec16 Rec17 Rec18 L2BndS StreamFuel Total
  TilBase TilDefs TilOcp TilStream TilStream2 TilStream3 TilFinal
  EolCRDefs EolCRBytes EolCRLFDefs EolCRLFSimBytes EolCRLFSimTree EolCRLFSimLeDefs EolCRLFSimLe EolCRLFSimStream EolCRLFSimLP EolCRLFSimLine EolCRLFSimRun EolCRLFSimAll L2CC LA11 EolCRLFGenHyp EolCRLFGenLP EolCRLFGenLine EolCRLFGenRun.
Open Scope Z_scope.

(* C14 (ii), CRLF clause, inputs without '[': the whole run. *)

Section AllG.
  Context {O : OcpHyp}.
  Variable SJx : bpst -> list block -> bool -> Prop.
  Variable LEx : Z -> list block -> Z -> bpst -> bool -> Prop.
  Hypothesis LEx_basic : forall st ch ls s ns, LEx st ch ls s ns -> 0 <= ls <= len (buf s) /\ bi s = lineEnd (buf s) ls.
  Hypothesis X_step : forall st ch ls s ns, LEx st ch ls s ns ->
    exists ns', SJx s (fst (fst (processLine st ch ls (upto (buf s) (bi s))))) ns' /\
      (makeRoot (fst (fst (processLine st ch ls (upto (buf s) (bi s))))) s = None ->
       LEx (snd (fst (processLine st ch ls (upto (buf s) (bi s))))) (fst (fst (processLine st ch ls (upto (buf s) (bi s))))) (bi s)
           {| buf := buf s; bi := lineEnd (buf s) (bi s); boff := boff s; bline := bline s; pending := pending s |} ns').
  Hypothesis X_la : forall st ch ls s ns, LEx st ch ls s ns -> BSTree.allP (EntTree.en (buf s) ls) ch /\ ccF ch = true.
  Hypothesis X_le : forall s ch ns, SJx s ch ns -> leL (bi s) ch = true.
  Hypothesis X_make : forall s ch ns r s1, SJx s ch ns -> makeRoot ch s = Some (r, s1) ->
    (forall b rest, ch = b :: rest -> isOpen b = false -> leB (bend b) b = true /\ geL (bend b) rest = true) /\ SJx s1 (pending s1) ns.
  Hypothesis X_nil : forall s, PadF (buf s) -> bi s = lineEnd (buf s) 0 -> LEx 0 [] 0 s true.
  Hypothesis X_next : forall s ns, SJx s (pending s) ns -> 0 <= bi s <= len (buf s) -> pending s <> [] ->
    makeRoot (pending s) s = None ->
    LEx 0 (pending s) (bi s) {| buf := buf s; bi := lineEnd (buf s) (bi s); boff := boff s; bline := bline s; pending := pending s |} ns.
  Hypothesis X_init : forall input, SJx {| buf := pad input; bi := 0; boff := 0; bline := 1; pending := [] |} [] true.

  Variable input : bytes.
  Hypothesis I13 : ~ In 13 input.

  Lemma sim_allBlocks : forall fuel s acc ns pre rest, InvS SJx s -> BK input s pre rest -> NB s ns ->
    allBlocks fuel (stQ s) (map (phiRoot input) acc) = (map (phiRoot input) (fst (allBlocks fuel s acc)), snd (allBlocks fuel s acc)).
  Proof.
    induction fuel as [|f IH]; intros s acc ns pre rest HI HB HN; [reflexivity|]. cbn [allBlocks].
    change (buf (stQ s)) with (crlf (buf s)).
    pose proof HI as (S13 & S91 & Hbi & _).
    assert (HP : PadF (buf s)) by (destruct HB as (_ & E2 & _); rewrite E2; exists rest; reflexivity).
    assert (Hf : (3 + length (buf s) <= 3 + length (crlf (buf s)))%nat).
    { pose proof (len_crlf (buf s)) as Hl. pose proof (count10_nonneg (buf s)). unfold len in Hl. lia. }
    rewrite <- (nextBlock_adequate (3 + length (crlf (buf s))) s Hbi Hf).
    pose proof (sim_nextBlock (O:=O) SJx LEx LEx_basic X_step X_la X_le X_make X_nil X_next (3 + length (crlf (buf s))) s HI HP) as Hp.
    pose proof (nextBlock_ok OcpPara_holds OcpSetext_holds input (3 + length (crlf (buf s))) s ns pre rest HB HN) as Hx.
    destruct (nextBlock (3 + length (crlf (buf s))) s) as [r s1|s1| |site]; cbn [Post] in Hp.
    - destruct Hp as [(B & HPB & Es & ->) HI1].
      destruct Hx as (g & r1 & r2 & Er & Hg & S1 & S2 & S3 & S4 & HB' & (ns' & HN')).
      assert (Ein : input = pre ++ g ++ r1 ++ r2) by (destruct HB as (E1 & _); rewrite E1, Er; reflexivity).
      rewrite (rootQ_phiRoot input pre g r1 r2 B r I13 Ein HPB Es S1 S2 S3 S4).
      replace (map (phiRoot input) acc ++ [phiRoot input r]) with (map (phiRoot input) (acc ++ [r])) by (rewrite map_app; reflexivity).
      apply (IH s1 (acc ++ [r]) ns' _ _ HI1 HB' HN').
    - destruct Hp as [t ->]. reflexivity.
    - rewrite Hp. reflexivity.
    - rewrite Hp. reflexivity.
  Qed.

  Theorem crlf_main : LIM (pad input) ->
    parseBlocks (crlf input) = (map (phiRoot input) (fst (parseBlocks input)), snd (parseBlocks input)).
  Proof.
    intros IL. unfold parseBlocks. cbv zeta. rewrite pad_crlf.
    set (s0 := {| buf := pad input; bi := 0; boff := 0; bline := 1; pending := [] |}).
    assert (Eq : {| buf := crlf (pad input); bi := 0; boff := 0; bline := 1; pending := [] |} = stQ s0)
      by (unfold stQ, s0; cbn [buf bi boff bline pending map]; rewrite phiP_0; reflexivity).
    rewrite Eq.
    pose proof (parseBlocks_total input) as Ht. unfold parseBlocks in Ht. cbv zeta in Ht. fold s0 in Ht.
    assert (Hl : (S (length (pad input)) <= S (length (crlf (pad input))))%nat).
    { pose proof (len_crlf (pad input)) as Hl. pose proof (count10_nonneg (pad input)). unfold len in Hl. lia. }
    rewrite <- (allBlocks_fuel_mono _ _ s0 [] Ht Hl).
    change (@nil rootB) with (map (phiRoot input) []) at 1.
    apply (sim_allBlocks (S (length (crlf (pad input)))) s0 [] true [] input).
    - unfold InvS, s0. cbn [buf bi pending]. pose proof (len_nonneg (pad input)).
      split; [apply pad_no13, I13|]. split; [exact IL|]. split; [lia|]. split; [reflexivity|]. split; [reflexivity|].
      split; [left; reflexivity|]. exists true. apply X_init.
    - unfold BK, s0. cbn [buf boff bline app]. repeat split. apply nosplit_nil_l.
    - unfold NB, s0. cbn [buf bi pending]. pose proof (len_nonneg (pad input)). split; [|split; [reflexivity|split; [left; reflexivity|split]]].
      + split; [|split; [reflexivity|split; exact I]]. unfold SI. cbn [buf bi pending]. repeat split; try lia.
      + apply KS_nil.
      + intros _. apply blankR_empty. lia.
  Qed.
End AllG.
