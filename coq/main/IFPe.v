From Coq Require Import List ZArith Lia Bool.
Import ListNotations.
Require Import Base Tables Utf8 Tree Rdr Link Collect Html Recog Inl3a Inl3b Inl3c Inl3d Driver Inl3e PEProof IFTree.
Open Scope Z_scope.

(* ================================================================ C04 (3): processEmphasis terminates within its measure *)
Definition Hs (st : ist) : list hdr := hdrs (rk st).
Definition W (st : ist) (id : Z) : Z := Wh id (Hs st).
Lemma W_plen st id : plen (nodeOf st id) = W st id. Proof. apply plen_nodeOf. Qed.
Lemma W_nonneg st id : 0 <= W st id. Proof. apply Wh_nonneg. Qed.

Definition startOK (id : Z) (H : list hdr) : Prop := match hfind id H with Some (_, s, _) => 0 <= s | None => True end.

(* the forest / stack invariant *)
Definition TI (st : ist) : Prop :=
  UQh (Hs st) /\ (forall h, In h (Hs st) -> key h < nid st) /\
  (forall d, In d (stk st) -> 0 < d_node d < nid st) /\
  (forall d, In d (stk st) -> startOK (d_node d) (Hs st)).

(* the measure: one unit plus the remaining length, for every delimiter from the current position on *)
Fixpoint phiL (st : ist) (l : list delim) : Z := match l with [] => 0 | d :: r => 1 + W st (d_node d) + phiL st r end.
Definition Phi (st : ist) (cp : Z) : Z := phiL st (from_ (stk st) cp).
Lemma phiL_nonneg st l : 0 <= phiL st l.
Proof. induction l as [|d r IH]; cbn [phiL]; [lia|]. pose proof (W_nonneg st (d_node d)). lia. Qed.

(* ---- the header lists of the modified states ---- *)
Lemma Hs_updN st id g : Hs (updN st id g) = hdrs (updNode (fsize (rk st)) id g (rk st)). Proof. reflexivity. Qed.
Lemma Hs_wrap st kind o endId : Hs (fst (wrap st kind o endId)) =
  hdrs (wrapIn (fsize (rk st)) (nid st) kind o endId (match endId with Some i => Some (ps (nodeOf st i)) | None => None end) (rootEnd st) (rk st)).
Proof. reflexivity. Qed.
Lemma Hs_removeNode st id : Hs (removeNode st id) = hdrs (removeId (fsize (rk st)) id (rk st)). Proof. reflexivity. Qed.
Lemma Hs_setStk st v : Hs (setStk st v) = Hs st. Proof. reflexivity. Qed.

(* ---- shrinking a span ---- *)
Definition Go (k : Z) (h : hdr) : hdr := match h with (i, s, e) => (i, s, e - k) end.
Definition Gc (k : Z) (h : hdr) : hdr := match h with (i, s, e) => (i, s + k, e) end.
Lemma Go_key k h : key (Go k h) = key h. Proof. destruct h as [[i s] e]. reflexivity. Qed.
Lemma Gc_key k h : key (Gc k h) = key h. Proof. destruct h as [[i s] e]. reflexivity. Qed.
Definition wOf (h : hdr) : Z := match h with (_, s, e) => spanLen s e end.
Definition sOf (h : hdr) : Z := snd (fst h).
Lemma Wh_wOf id H : Wh id H = match hfind id H with Some h => wOf h | None => 0 end.
Proof. unfold Wh. destruct (hfind id H) as [[[i s] e]|]; reflexivity. Qed.
Lemma startOK_sOf id H : startOK id H <-> match hfind id H with Some h => 0 <= sOf h | None => True end.
Proof. unfold startOK. destruct (hfind id H) as [[[i s] e]|]; reflexivity. Qed.

Lemma spanLen_eq s e : 0 <= s -> s <= e -> spanLen s e = e - s.
Proof. intros A B. unfold spanLen. destruct (Z.leb_spec 0 s); [|lia]. destruct (Z.leb_spec 0 e); [|lia]. destruct (Z.leb_spec s e); [reflexivity|lia]. Qed.
Lemma spanLen_pos s e : spanLen s e <> 0 -> 0 <= s /\ s < e /\ spanLen s e = e - s.
Proof.
  unfold spanLen. destruct (Z.leb_spec 0 s); cbn [andb]; [|lia]. destruct (Z.leb_spec 0 e); cbn [andb]; [|lia].
  destruct (Z.leb_spec s e); [|lia]. intros. lia.
Qed.
Lemma wOf_Go k h : 0 <= k -> wOf (Go k h) <= wOf h /\ sOf (Go k h) = sOf h.
Proof.
  destruct h as [[i s] e]. cbn [Go wOf sOf fst snd]. intros Hk. split; [|reflexivity].
  destruct (Z.eq_dec (spanLen s (e - k)) 0) as [E|E]; [rewrite E; apply spanLen_nonneg|].
  destruct (spanLen_pos _ _ E) as (A & B & C). rewrite C, spanLen_eq by lia. lia.
Qed.
Lemma wOf_Gc k h : 1 <= k -> 0 <= sOf h -> (wOf (Gc k h) = 0 \/ wOf (Gc k h) < wOf h) /\ 0 <= sOf (Gc k h).
Proof.
  destruct h as [[i s] e]. cbn [Gc wOf sOf fst snd]. intros Hk Hs0. split; [|lia].
  destruct (Z.eq_dec (spanLen (s + k) e) 0) as [E|E]; [left; exact E|right].
  destruct (spanLen_pos _ _ E) as (A & B & C). rewrite C, spanLen_eq by lia. lia.
Qed.

Lemma hd1_Go k n : hd1 (setSpan n (ps n) (pe n - k)) = Go k (hd1 n). Proof. destruct n; reflexivity. Qed.
Lemma hd1_Gc k n : hd1 (setSpan n (ps n + k) (pe n)) = Gc k (hd1 n). Proof. destruct n; reflexivity. Qed.
Lemma pid_setSpan n a b : pid (setSpan n a b) = pid n. Proof. destruct n; reflexivity. Qed.
Lemma pkids_setSpan n a b : pkids (setSpan n a b) = pkids n. Proof. destruct n; reflexivity. Qed.

(* ---- generic facts about the three relations on header lists ---- *)
Lemma rel_keys id G : (forall h, key (G h) = key h) -> forall H H', Forall2 (Rupd id G) H H' -> map key H' = map key H.
Proof.
  intros GK H H' HR. induction HR as [|h h' H H' Hh HR IH]; [reflexivity|]. cbn [map]. rewrite IH. f_equal.
  destruct Hh as [->|(_ & ->)]; [reflexivity|apply GK].
Qed.
Lemma keys_bound_transfer (H H' : list hdr) b : map key H' = map key H -> (forall h, In h H -> key h < b) -> forall h, In h H' -> key h < b.
Proof.
  intros E Hb h Hin. assert (Hk : In (key h) (map key H)) by (rewrite <- E; apply in_map; exact Hin).
  apply in_map_iff in Hk. destruct Hk as (h0 & E0 & Hin0). rewrite <- E0. apply Hb, Hin0.
Qed.
Lemma Ins_In x : forall H H', Ins x H H' -> forall h, In h H' -> In h H \/ key h = x.
Proof.
  intros H H' HI. induction HI as [|h0 a b HI IH|s e a b HI IH]; intros h Hin; [destruct Hin| |].
  - destruct Hin as [->|Hin]; [left; left; reflexivity|]. destruct (IH h Hin) as [A|A]; [left; right; exact A|right; exact A].
  - destruct Hin as [<-|Hin]; [right; reflexivity|apply IH, Hin].
Qed.
Lemma Subseq_In : forall S L, Subseq S L -> forall h, In h S -> In h L.
Proof.
  intros S L HS. induction HS as [|h0 a b HS IH|h0 a b HS IH]; intros h Hin; [destruct Hin| |].
  - destruct Hin as [->|Hin]; [left; reflexivity|right; apply IH, Hin].
  - right. apply IH, Hin.
Qed.
Lemma cnt_zero_bound x H : (forall h, In h H -> key h < x) -> cnt x H = 0.
Proof.
  intros Hb. induction H as [|h H IH]; [reflexivity|]. rewrite cnt_cons, IH by (intros h0 Hh0; apply Hb; right; exact Hh0).
  specialize (Hb h (or_introl eq_refl)). destruct (Z.eqb_spec (key h) x); lia.
Qed.

(* the forest part of the invariant *)
Definition FI (st : ist) : Prop := UQh (Hs st) /\ (forall h, In h (Hs st) -> key h < nid st).

(* what one header can become under the two span updates *)
Lemma two_updates o c k H H1 H2 x : 0 <= k -> 1 <= k ->
  Forall2 (Rupd o (Go k)) H H1 -> Forall2 (Rupd c (Gc k)) H1 H2 ->
  startOK x H -> Wh x H2 <= Wh x H /\ startOK x H2.
Proof.
  intros Hk0 Hk1 R1 R2 Hs0. rewrite !Wh_wOf. rewrite startOK_sOf in *.
  pose proof (rel_hfind_any o (Go k) (Go_key k) x H H1 R1) as A1. pose proof (rel_hfind_any c (Gc k) (Gc_key k) x H1 H2 R2) as A2.
  destruct (hfind x H) as [h|], (hfind x H1) as [h1|], (hfind x H2) as [h2|]; try contradiction; try (split; [lia|exact I]).
  assert (B1 : wOf h1 <= wOf h /\ sOf h1 = sOf h).
  { destruct A1 as [->|(_ & ->)]; [split; [lia|reflexivity]|apply wOf_Go, Hk0]. }
  destruct B1 as [B1 B1'].
  destruct A2 as [->|(_ & ->)]; [split; [lia|lia]|].
  destruct (wOf_Gc k h1 Hk1 ltac:(lia)) as [[C|C] C']; pose proof (spanLen_nonneg 0 0); split; try lia.
  destruct h as [[? ?] ?]. cbn [wOf]. pose proof (spanLen_nonneg z0 z1). lia.
Qed.

Section ATree.
  Variable st : ist.
  Variables o c k kind : Z.
  Hypothesis HF : FI st.
  Hypothesis Ho : 0 < o < nid st.
  Hypothesis Hc : 0 < c < nid st.
  Hypothesis Hk : 1 <= k.
  Let st1 := updN st o (fun n => setSpan n (ps n) (pe n - k)).
  Let stA := updN st1 c (fun n => setSpan n (ps n + k) (pe n)).
  Let stB := fst (wrap stA kind o (Some c)).

  Lemma A_rel1 : Forall2 (Rupd o (Go k)) (Hs st) (Hs st1).
  Proof. unfold st1. rewrite Hs_updN. apply updNode_rel; intros n; [apply pkids_setSpan|apply hd1_Go]. Qed.
  Lemma A_rel2 : Forall2 (Rupd c (Gc k)) (Hs st1) (Hs stA).
  Proof. unfold stA. rewrite Hs_updN. apply updNode_rel; intros n; [apply pkids_setSpan|apply hd1_Gc]. Qed.
  Lemma A_exact : hfind c (Hs stA) = option_map (Gc k) (hfind c (Hs st1)).
  Proof.
    unfold stA. rewrite Hs_updN. apply updNode_hfind; try (intros n; first [apply pkids_setSpan|apply hd1_Gc]); [apply Gc_key|lia].
  Qed.
  Lemma A_ins : Ins (nid st) (Hs stA) (Hs stB) /\ cnt (nid st) (Hs stB) <= cnt (nid st) (Hs stA) + cnt o (Hs stA).
  Proof. unfold stB. rewrite Hs_wrap. apply wrapIn_Ins. Qed.

  Lemma A_cnt x : x <> nid st -> cnt x (Hs stB) = cnt x (Hs st).
  Proof.
    intros Hx. destruct A_ins as [I _]. rewrite (Ins_cnt (nid st) x Hx _ _ I).
    rewrite (rel_cnt c (Gc k) (Gc_key k) x _ _ A_rel2). apply (rel_cnt o (Go k) (Go_key k) x _ _ A_rel1).
  Qed.
  Lemma A_FI : FI stB /\ nid stB = nid st + 1.
  Proof.
    destruct HF as [U B]. split; [|reflexivity]. split.
    - intros x Hx. destruct (Z.eq_dec x (nid st)) as [->|Hne]; [|rewrite A_cnt by exact Hne; apply U, Hx].
      destruct A_ins as [_ C]. rewrite (rel_cnt c (Gc k) (Gc_key k) _ _ _ A_rel2), (rel_cnt o (Go k) (Go_key k) _ _ _ A_rel1) in C.
      rewrite (rel_cnt c (Gc k) (Gc_key k) o _ _ A_rel2), (rel_cnt o (Go k) (Go_key k) o _ _ A_rel1) in C.
      rewrite (cnt_zero_bound (nid st) (Hs st) B) in C. specialize (U o ltac:(lia)). lia.
    - intros h Hin. change (nid stB) with (nid st + 1). destruct A_ins as [I _].
      destruct (Ins_In _ _ _ I h Hin) as [Hin'|E]; [|lia].
      pose proof (rel_keys c (Gc k) (Gc_key k) _ _ A_rel2) as K2. pose proof (rel_keys o (Go k) (Go_key k) _ _ A_rel1) as K1.
      pose proof (keys_bound_transfer (Hs st) (Hs stA) (nid st) ltac:(rewrite K2, K1; reflexivity) B h Hin'). lia.
  Qed.
  Lemma A_mono x : x <> nid st -> startOK x (Hs st) -> Wh x (Hs stB) <= Wh x (Hs st) /\ startOK x (Hs stB).
  Proof.
    intros Hx Hs0. destruct A_ins as [I _]. unfold Wh, startOK. rewrite (Ins_hfind (nid st) x Hx _ _ I).
    apply (two_updates o c k (Hs st) (Hs st1) (Hs stA) x ltac:(lia) Hk A_rel1 A_rel2 Hs0).
  Qed.
  Lemma A_strict : startOK c (Hs st) -> Wh c (Hs stB) = 0 \/ Wh c (Hs stB) < Wh c (Hs st).
  Proof.
    intros Hs0. destruct A_ins as [I _]. rewrite !Wh_wOf. rewrite (Ins_hfind (nid st) c ltac:(lia) _ _ I), A_exact.
    rewrite startOK_sOf in Hs0.
    pose proof (rel_hfind_any o (Go k) (Go_key k) c _ _ A_rel1) as A1.
    destruct (hfind c (Hs st)) as [h|], (hfind c (Hs st1)) as [h1|]; try contradiction; cbn [option_map]; [|left; reflexivity].
    assert (B1 : wOf h1 <= wOf h /\ sOf h1 = sOf h).
    { destruct A1 as [->|(_ & ->)]; [split; [lia|reflexivity]|apply wOf_Go; lia]. }
    destruct (wOf_Gc k h1 Hk ltac:(lia)) as [[C|C] _]; [left; exact C|right; lia].
  Qed.
End ATree.

Lemma R_tree st id : FI st -> FI (removeNode st id) /\
  (forall x, 0 < x -> startOK x (Hs st) -> Wh x (Hs (removeNode st id)) <= Wh x (Hs st) /\ startOK x (Hs (removeNode st id))).
Proof.
  intros [U B]. pose proof (removeId_Subseq id (fsize (rk st)) (rk st)) as HS. rewrite <- Hs_removeNode in HS. fold (Hs st) in HS.
  split; [split|].
  - intros x Hx. pose proof (Subseq_cnt x _ _ HS). specialize (U x Hx). lia.
  - intros h Hin. change (nid (removeNode st id)) with (nid st). apply B. eapply Subseq_In; eassumption.
  - intros x Hx Hs0. unfold Wh, startOK in *. destruct (Subseq_hfind x _ _ HS (U x Hx)) as [E|E]; rewrite E.
    + split; [lia|exact Hs0].
    + split; [|exact I]. destruct (hfind x (Hs st)) as [[[i s] e]|]; [apply spanLen_nonneg|lia].
Qed.

(* ================================================================ one round of pe_loop *)
Definition pe_step (st : ist) (ob : list Z) (cp : Z) : option (ist * list Z * Z) :=
  let stack := stk st in
  let cp := pe_findCloser (S (length stack)) stack cp in
  if cp <? 0 then None else
  let c := nthD stack cp in
  let obi := obIndex c in
  let lo := getOB ob obi in
  let oi := pe_findOpener (S (length stack)) stack (cp - 1) lo c in
  if lo <=? oi then
    let o := nthD stack oi in
    let on := nodeOf st (d_node o) in let cn := nodeOf st (d_node c) in
    let strong := (2 <=? plen on) && (2 <=? plen cn) in
    let k := if strong then 2 else 1 in
    let st := updN st (d_node o) (fun n => setSpan n (ps n) (pe n - k)) in
    let st := updN st (d_node c) (fun n => setSpan n (ps n + k) (pe n)) in
    let '(st, _) := wrap st (if strong then StrongKind else EmphasisKind) (d_node o) (Some (d_node c)) in
    let st := setStk st (delStack (stk st) (oi + 1) cp) in
    let cp := oi + 1 in
    let ob := map (fun b => if oi + 1 <? b then oi + 1 else b) ob in
    let '(st, cp, ob) :=
      if plen (nodeOf st (d_node o)) =? 0 then
        (setStk (removeNode st (d_node o)) (delStack (stk st) oi (oi + 1)), cp - 1,
         map (fun b => if oi <? b then b - 1 else b) ob)
      else (st, cp, ob) in
    let st :=
      if plen (nodeOf st (d_node c)) =? 0 then
        setStk (removeNode st (d_node c)) (delStack (stk st) cp (cp + 1))
      else st in
    Some (st, ob, cp)
  else
    let ob := setOB ob obi cp in
    if negb (hasFlag c fOpener) then Some (setStk st (delStack (stk st) cp (cp + 1)), ob, cp)
    else Some (st, ob, cp + 1).

Lemma pe_loop_step f st ob cp : pe_loop (S f) st ob cp =
  match pe_step st ob cp with None => st | Some (st', ob', cp') => pe_loop f st' ob' cp' end.
Proof.
  cbn [pe_loop]. unfold pe_step. cbv zeta.
  destruct (pe_findCloser _ _ _ <? 0); [reflexivity|].
  destruct (_ <=? _).
  - destruct (wrap _ _ _ _) as [st1 x]. destruct (plen _ =? 0); destruct (plen _ =? 0); reflexivity.
  - destruct (negb _); reflexivity.
Qed.

(* ---- list facts ---- *)
Lemma nthD_In l i : 0 <= i < len l -> In (nthD l i) l.
Proof. intros H. unfold nthD. apply nth_In. unfold len in H. lia. Qed.
Lemma In_upto {A} (l : list A) i x : In x (upto l i) -> In x l.
Proof. unfold upto. intros H. rewrite <- (firstn_skipn (Z.to_nat i) l). apply in_or_app. left. exact H. Qed.
Lemma In_from {A} (l : list A) i x : In x (from_ l i) -> In x l.
Proof. unfold from_. intros H. rewrite <- (firstn_skipn (Z.to_nat i) l). apply in_or_app. right. exact H. Qed.
Lemma In_delStack {A} (l : list A) i j x : In x (delStack l i j) -> In x l.
Proof. unfold delStack. intros H. apply in_app_or in H. destruct H as [H|H]; [eapply In_upto|eapply In_from]; eassumption. Qed.
Lemma from_app_len {A} (a b : list A) : from_ (a ++ b) (len a) = b.
Proof. unfold from_, len. rewrite Nat2Z.id. induction a as [|x a IH]; [reflexivity|exact IH]. Qed.
Lemma from_delStack {A} (l : list A) a b : 0 <= a -> a <= len l -> from_ (delStack l a b) a = from_ l b.
Proof.
  intros H0 H1. unfold delStack. pose proof (from_app_len (upto l a) (from_ l b)) as E. rewrite (len_upto l a) in E by lia. exact E.
Qed.
Lemma from_nthD l i : 0 <= i < len l -> from_ l i = nthD l i :: from_ l (i + 1).
Proof.
  intros H. unfold from_, nthD. replace (Z.to_nat (i + 1)) with (S (Z.to_nat i)) by lia.
  unfold len in H. assert (Hn : (Z.to_nat i < length l)%nat) by lia. revert Hn. generalize (Z.to_nat i). clear H.
  induction l as [|x l IH]; intros n Hn; [cbn in Hn; lia|]. destruct n as [|n]; [reflexivity|]. cbn [skipn nth]. apply IH. cbn in Hn. lia.
Qed.
Lemma skipn_add {A} (l : list A) a b : skipn a (skipn b l) = skipn (a + b) l.
Proof. revert l; induction b as [|b IH]; intros l; [rewrite Nat.add_0_r; reflexivity|]. destruct l as [|x l]; [rewrite !skipn_nil; reflexivity|].
  rewrite Nat.add_succ_r. cbn [skipn]. apply IH. Qed.
Lemma from_split {A} (l : list A) a b : 0 <= a -> a <= b -> exists pre, from_ l a = pre ++ from_ l b.
Proof.
  intros Ha Hab. unfold from_. exists (firstn (Z.to_nat b - Z.to_nat a) (skipn (Z.to_nat a) l)).
  rewrite <- (firstn_skipn (Z.to_nat b - Z.to_nat a) (skipn (Z.to_nat a) l)) at 1. f_equal.
  rewrite skipn_add. f_equal. lia.
Qed.

Lemma phiL_app st a b : phiL st (a ++ b) = phiL st a + phiL st b.
Proof. induction a as [|d a IH]; cbn [app phiL]; [lia|]. rewrite IH. lia. Qed.
Lemma Phi_ge st cp cp' : 0 <= cp -> cp <= cp' -> Phi st cp' <= Phi st cp.
Proof. intros H0 H1. unfold Phi. destruct (from_split (stk st) cp cp' H0 H1) as (pre & ->). rewrite phiL_app. pose proof (phiL_nonneg st pre). lia. Qed.
Lemma phiL_mono st st' l : (forall d, In d l -> W st' (d_node d) <= W st (d_node d)) -> phiL st' l <= phiL st l.
Proof.
  induction l as [|d l IH]; intros H; cbn [phiL]; [lia|]. specialize (IH (fun d0 Hd0 => H d0 (or_intror Hd0))).
  specialize (H d (or_introl eq_refl)). lia.
Qed.
Lemma Phi_at st cp : 0 <= cp < len (stk st) -> Phi st cp = 1 + W st (d_node (nthD (stk st) cp)) + Phi st (cp + 1).
Proof. intros H. unfold Phi. rewrite (from_nthD (stk st) cp H). reflexivity. Qed.

(* sub-sequences of the delimiter stack *)
Inductive Subl {A} : list A -> list A -> Prop :=
| Subl_nil : Subl [] []
| Subl_both x a b : Subl a b -> Subl (x :: a) (x :: b)
| Subl_skip x a b : Subl a b -> Subl a (x :: b).
Lemma Subl_refl {A} (l : list A) : Subl l l. Proof. induction l; constructor; assumption. Qed.
Lemma Subl_nil_l {A} (l : list A) : Subl [] l. Proof. induction l; constructor; assumption. Qed.
Lemma Subl_In {A} (a b : list A) : Subl a b -> forall x, In x a -> In x b.
Proof. intros H. induction H as [|y a b H IH|y a b H IH]; intros x Hx; [destruct Hx| |]; [destruct Hx as [->|Hx]; [left; reflexivity|right; apply IH, Hx]|right; apply IH, Hx]. Qed.
Lemma Subl_trans {A} (a b c : list A) : Subl a b -> Subl b c -> Subl a c.
Proof.
  intros H1 H2. revert a H1. induction H2 as [|y b c H2 IH|y b c H2 IH]; intros a H1; [exact H1| |constructor; apply IH, H1].
  inversion H1; subst; [constructor; apply IH; assumption|apply Subl_skip, IH; assumption].
Qed.
Lemma Subl_app {A} (a a' b b' : list A) : Subl a a' -> Subl b b' -> Subl (a ++ b) (a' ++ b').
Proof. intros H1 H2. induction H1; [exact H2| |]; cbn [app]; constructor; assumption. Qed.
Lemma Subl_firstn {A} n (l : list A) : Subl (firstn n l) l.
Proof. revert l; induction n as [|n IH]; intros l; [apply Subl_nil_l|]. destruct l; [constructor|cbn [firstn]; constructor; apply IH]. Qed.
Lemma Subl_skipn {A} n (l : list A) : Subl (skipn n l) l.
Proof. revert l; induction n as [|n IH]; intros l; [apply Subl_refl|]. destruct l; [constructor|cbn [skipn]; constructor; apply IH]. Qed.
Lemma Subl_delStack {A} (l : list A) i j : i <= j -> Subl (delStack l i j) l.
Proof.
  intros Hij. unfold delStack, upto, from_. rewrite <- (firstn_skipn (Z.to_nat i) l) at 3. apply Subl_app; [apply Subl_refl|].
  replace (Z.to_nat j) with ((Z.to_nat j - Z.to_nat i) + Z.to_nat i)%nat by lia. rewrite <- skipn_add. apply Subl_skipn.
Qed.

Definition Mono (st st' : ist) : Prop :=
  nid st <= nid st' /\ Subl (stk st') (stk st) /\
  (forall x, 0 < x < nid st -> startOK x (Hs st) -> Wh x (Hs st') <= Wh x (Hs st) /\ startOK x (Hs st')).
Lemma Mono_refl st : Mono st st.
Proof. split; [lia|]. split; [apply Subl_refl|]. intros x _ H. split; [lia|exact H]. Qed.
Lemma Mono_trans a b c : Mono a b -> Mono b c -> Mono a c.
Proof.
  intros (A1 & A2 & A3) (B1 & B2 & B3). split; [lia|]. split; [eapply Subl_trans; eassumption|].
  intros x Hx Hs0. destruct (A3 x Hx Hs0) as [P1 P2]. destruct (B3 x ltac:(lia) P2) as [Q1 Q2]. split; [lia|exact Q2].
Qed.

(* TI from its forest part, for a state whose stack is a sub-list of an earlier stack *)
Lemma TI_from st st' : TI st -> FI st' -> Mono st st' -> TI st'.
Proof.
  intros (U & B & S1 & S2) [U' B'] (M1 & M2 & M3). split; [exact U'|]. split; [exact B'|]. split.
  - intros d Hd. specialize (S1 d (Subl_In _ _ M2 d Hd)). lia.
  - intros d Hd. pose proof (Subl_In _ _ M2 d Hd) as Hd0. apply (M3 (d_node d) (S1 d Hd0) (S2 d Hd0)).
Qed.

Lemma FI_setStk st v : FI (setStk st v) <-> FI st. Proof. reflexivity. Qed.

(* the tree surgery of a match, packaged: the forest part of the invariant, monotonicity of all lengths, strict decrease for the closer *)
Lemma A_surgery st oid cid k kind : FI st -> 0 < oid < nid st -> 0 < cid < nid st -> 1 <= k ->
  let stB := fst (wrap (updN (updN st oid (fun n => setSpan n (ps n) (pe n - k))) cid (fun n => setSpan n (ps n + k) (pe n))) kind oid (Some cid)) in
  FI stB /\ nid stB = nid st + 1 /\ stk stB = stk st /\
  (forall x, 0 < x < nid st -> startOK x (Hs st) -> Wh x (Hs stB) <= Wh x (Hs st) /\ startOK x (Hs stB)) /\
  (startOK cid (Hs st) -> Wh cid (Hs stB) = 0 \/ Wh cid (Hs stB) < Wh cid (Hs st)).
Proof.
  intros HF Ho Hc Hk. cbv zeta.
  pose proof (A_FI st oid cid k kind) as X1. pose proof (A_mono st oid cid k kind) as X2. pose proof (A_strict st oid cid k kind) as X3.
  repeat match type of X1 with ?P -> _ => match type of P with Prop => specialize (X1 ltac:(assumption)) end end.
  repeat match type of X2 with ?P -> _ => match type of P with Prop => specialize (X2 ltac:(assumption)) end end.
  repeat match type of X3 with ?P -> _ => match type of P with Prop => specialize (X3 ltac:(assumption)) end end.
  destruct X1 as [F1 F2]. split; [exact F1|]. split; [exact F2|]. split; [reflexivity|]. split.
  - intros x Hx Hs0. apply X2; [lia|exact Hs0].
  - exact X3.
Qed.
(* removing a node, likewise *)
Lemma R_surgery st id v : FI st ->
  let st' := setStk (removeNode st id) v in
  FI st' /\ nid st' = nid st /\
  (forall x, 0 < x -> startOK x (Hs st) -> Wh x (Hs st') <= Wh x (Hs st) /\ startOK x (Hs st')).
Proof. intros HF. cbv zeta. destruct (R_tree st id HF) as [F1 F2]. split; [exact F1|]. split; [reflexivity|exact F2]. Qed.

Lemma assemble st st4 cp cp0 cp4 : TI st -> FI st4 -> nid st <= nid st4 ->
  Subl (stk st4) (stk st) ->
  (forall x, 0 < x < nid st -> startOK x (Hs st) -> Wh x (Hs st4) <= Wh x (Hs st) /\ startOK x (Hs st4)) ->
  0 <= cp -> cp <= cp0 -> cp0 < len (stk st) ->
  (from_ (stk st4) cp4 = from_ (stk st) (cp0 + 1) \/
   (from_ (stk st4) cp4 = from_ (stk st) cp0 /\ W st4 (d_node (nthD (stk st) cp0)) < W st (d_node (nthD (stk st) cp0)))) ->
  TI st4 /\ Mono st st4 /\ Phi st4 cp4 < Phi st cp.
Proof.
  intros HT HF Hn Hsub Hm H0 H1 H2 Hsuf.
  assert (HM : Mono st st4) by (split; [exact Hn|split; [exact Hsub|exact Hm]]).
  split; [eapply TI_from; eassumption|]. split; [exact HM|].
  pose proof HT as (_ & _ & TS1 & TS2).
  assert (Hmono : forall l, (forall d, In d l -> In d (stk st)) -> phiL st4 l <= phiL st l).
  { intros l Hl. apply phiL_mono. intros d Hd. specialize (Hl d Hd). apply (Hm (d_node d) (TS1 d Hl) (TS2 d Hl)). }
  pose proof (Phi_ge st cp cp0 H0 H1) as G1. pose proof (Phi_at st cp0 ltac:(lia)) as G2.
  pose proof (W_nonneg st (d_node (nthD (stk st) cp0))) as G3.
  unfold Phi at 1. destruct Hsuf as [E|[E Hlt]]; rewrite E.
  - pose proof (Hmono (from_ (stk st) (cp0 + 1)) (fun d Hd => In_from _ _ _ Hd)) as G4. unfold Phi in *. lia.
  - rewrite (from_nthD (stk st) cp0 ltac:(lia)). cbn [phiL].
    pose proof (Hmono (from_ (stk st) (cp0 + 1)) (fun d Hd => In_from _ _ _ Hd)) as G4. unfold Phi in *. lia.
Qed.

Lemma pe_step_inv sb st ob cp st' ob' cp' : Inv sb (stk st) ob cp -> TI st ->
  pe_step st ob cp = Some (st', ob', cp') ->
  Inv sb (stk st') ob' cp' /\ TI st' /\ Mono st st' /\ Phi st' cp' < Phi st cp.
Proof.
  intros HI HT E. unfold pe_step in E. cbv zeta in E.
  set (stack := stk st) in *.
  set (cp0 := pe_findCloser (S (length stack)) stack cp) in *.
  destruct (Z.ltb_spec cp0 0) as [|Hcp0]; [discriminate|].
  destruct (findCloser_spec _ _ _ _ eq_refl Hcp0) as (Hcpr & Hcl). fold cp0 in Hcpr, Hcl.
  set (c := nthD stack cp0) in *.
  pose proof HI as (Hsb & Hlen & Hsc & Hob & Hno).
  pose proof (obIndex_range c Hcl) as Hr.
  pose proof HT as (TU & TB & TS1 & TS2).
  assert (Hcin : In c stack) by (apply nthD_In; lia).
  set (lo := getOB ob (obIndex c)) in *.
  set (oi := pe_findOpener (S (length stack)) stack (cp0 - 1) lo c) in *.
  assert (Hlo : sb <= lo <= cp) by (apply Hob; unfold OBN; lia).
  destruct (Z.leb_spec lo oi) as [Hfound|Hnot].
  - (* a match: tree surgery *)
    assert (Hoi : lo <= oi <= cp0 - 1).
    { pose proof (findOpener_spec stack c lo (S (length stack)) (cp0 - 1) ltac:(unfold len in *; lia)) as S2.
      cbn zeta in S2. fold oi in S2. destruct S2 as [(A & _)|(A & _)]; lia. }
    set (o := nthD stack oi) in *.
    assert (Hoin : In o stack) by (apply nthD_In; lia).
    set (strong := (2 <=? plen (nodeOf st (d_node o))) && (2 <=? plen (nodeOf st (d_node c)))) in *.
    set (k := if strong then 2 else 1) in *. assert (Hk : 1 <= k) by (unfold k; destruct strong; lia).
    set (kd := if strong then StrongKind else EmphasisKind) in *.
    destruct (A_surgery st (d_node o) (d_node c) k kd (conj TU TB) (TS1 o Hoin) (TS1 c Hcin) Hk) as (AF & An & As & Am & Ast).
    specialize (Ast (TS2 c Hcin)).
    revert E. destruct (wrap _ kd (d_node o) (Some (d_node c))) as [stB wid] eqn:Ew. cbn [fst] in AF, An, As, Am, Ast.
    rewrite !stk_setStk, As. fold stack.
    set (stack2 := delStack stack (oi + 1) cp0).
    set (ob2 := map (fun b => if oi + 1 <? b then oi + 1 else b) ob).
    assert (L2 : len stack2 = len stack - (cp0 - (oi + 1))) by (unfold stack2; apply len_delStack; lia).
    assert (HI2 : Inv sb stack2 ob2 (oi + 1)).
    { apply (Inv_transfer sb stack ob cp stack2 ob2 (oi + 1) (oi + 1) HI); [unfold ob2; rewrite len_map; assumption|lia| |].
      - intros b Hb. unfold ob2. rewrite getOB_map by lia. specialize (Hob b Hb).
        destruct (Z.ltb_spec (oi + 1) (getOB ob b)); lia.
      - intros j Hj. unfold stack2. rewrite nthD_del by lia. destruct (Z.ltb_spec j (oi + 1)); [reflexivity|lia]. }
    assert (Hsub2 : Subl stack2 stack) by (unfold stack2; apply Subl_delStack; lia).
    assert (Hsuf2 : from_ stack2 (oi + 1) = from_ stack cp0) by (unfold stack2; apply from_delStack; lia).
    (* the state after the opener may have been removed *)
    set (st2 := setStk stB stack2) in *.
    assert (F2 : FI st2) by exact AF.
    destruct (plen (nodeOf st2 (d_node o)) =? 0).
    + (* opener exhausted and removed *)
      rewrite !stk_setStk.
      set (stack3 := delStack stack2 oi (oi + 1)).
      set (ob3 := map (fun b => if oi <? b then b - 1 else b) ob2).
      assert (L3 : len stack3 = len stack2 - 1) by (unfold stack3; rewrite len_delStack by lia; lia).
      assert (HI3 : Inv sb stack3 ob3 (oi + 1 - 1)).
      { apply (Inv_transfer sb stack2 ob2 (oi + 1) stack3 ob3 (oi + 1 - 1) oi HI2); [unfold ob3; rewrite len_map; apply HI2|lia| |].
        - intros b Hb. unfold ob3. rewrite getOB_map by (destruct HI2 as (_ & H & _); lia).
          destruct HI2 as (_ & _ & _ & Hob2 & _). specialize (Hob2 b Hb).
          destruct (Z.ltb_spec oi (getOB ob2 b)); lia.
        - intros j Hj. unfold stack3. rewrite nthD_del by lia. destruct (Z.ltb_spec j oi); [reflexivity|lia]. }
      destruct (R_surgery st2 (d_node o) stack3 F2) as (F3 & N3 & M3).
      set (st3 := setStk (removeNode st2 (d_node o)) stack3) in *. change (Hs st2) with (Hs stB) in *.
      assert (Hsub3 : Subl stack3 stack) by (eapply Subl_trans; [unfold stack3; apply Subl_delStack; lia|exact Hsub2]).
      assert (Hsuf3 : from_ stack3 (oi + 1 - 1) = from_ stack cp0).
      { unfold stack3. replace (oi + 1 - 1) with oi by lia. rewrite from_delStack by lia. exact Hsuf2. }
      assert (Hm3 : forall x, 0 < x < nid st -> startOK x (Hs st) -> Wh x (Hs st3) <= Wh x (Hs st) /\ startOK x (Hs st3)).
      { intros x Hx Hs0. destruct (Am x Hx Hs0) as [P1 P2]. destruct (M3 x ltac:(lia) P2) as [Q1 Q2]. split; [lia|exact Q2]. }
      destruct (Z.eqb_spec (plen (nodeOf st3 (d_node c))) 0) as [Ec0|Ec0].
      * (* closer exhausted too *)
        intros E. inversion E; subst st' ob' cp'. clear E. rewrite stk_setStk.
        destruct (R_surgery st3 (d_node c) (delStack stack3 (oi + 1 - 1) (oi + 1 - 1 + 1)) F3) as (F4 & N4 & M4).
        split.
        { apply (Inv_transfer sb stack3 ob3 (oi + 1 - 1) _ ob3 (oi + 1 - 1) (oi + 1 - 1) HI3); [apply HI3|lia| |].
          - intros b Hb. destruct HI3 as (_ & _ & _ & Hob3 & _). specialize (Hob3 b Hb). lia.
          - intros j Hj. rewrite nthD_del by lia. destruct (Z.ltb_spec j (oi + 1 - 1)); [reflexivity|lia]. }
        apply (assemble st _ cp cp0 (oi + 1 - 1) HT F4); fold stack; try lia.
        -- change (nid st <= nid st3). unfold st3, st2. cbn [nid setStk removeNode setRk]. lia.
        -- rewrite stk_setStk. eapply Subl_trans; [apply Subl_delStack; lia|exact Hsub3].
        -- intros x Hx Hs0. destruct (Hm3 x Hx Hs0) as [P1 P2]. destruct (M4 x ltac:(lia) P2) as [Q1 Q2]. split; [lia|exact Q2].
        -- left. rewrite stk_setStk. rewrite from_delStack by lia.
           assert (Et : from_ stack (cp0 + 1) = tl (from_ stack cp0)) by (rewrite (from_nthD stack cp0) by lia; reflexivity).
           rewrite Et, <- Hsuf3. rewrite (from_nthD stack3 (oi + 1 - 1)) by lia. reflexivity.
      * (* closer survives, strictly shorter *)
        intros E. inversion E; subst st' ob' cp'. clear E.
        split; [exact HI3|].
        apply (assemble st st3 cp cp0 (oi + 1 - 1) HT F3); fold stack; try lia.
        -- unfold st3, st2. cbn [nid setStk removeNode setRk]. lia.
        -- exact Hsub3.
        -- exact Hm3.
        -- right. split; [exact Hsuf3|]. fold c. unfold W.
           destruct (Am (d_node c) (TS1 c Hcin) (TS2 c Hcin)) as [P1 P2]. destruct (M3 (d_node c) ltac:(specialize (TS1 c Hcin); lia) P2) as [Q1 _].
           rewrite W_plen in Ec0. unfold W in Ec0. pose proof (Wh_nonneg (d_node c) (Hs st3)). change (Hs st2) with (Hs stB) in Q1. lia.
    + (* opener survives *)
      destruct (Z.eqb_spec (plen (nodeOf st2 (d_node c))) 0) as [Ec0|Ec0].
      * intros E. inversion E; subst st' ob' cp'. clear E. rewrite !stk_setStk.
        destruct (R_surgery st2 (d_node c) (delStack stack2 (oi + 1) (oi + 1 + 1)) F2) as (F4 & N4 & M4). change (Hs st2) with (Hs stB) in *.
        split.
        { apply (Inv_transfer sb stack2 ob2 (oi + 1) _ ob2 (oi + 1) (oi + 1) HI2); [apply HI2|lia| |].
          - intros b Hb. destruct HI2 as (_ & _ & _ & Hob2 & _). specialize (Hob2 b Hb). lia.
          - intros j Hj. rewrite nthD_del by lia. destruct (Z.ltb_spec j (oi + 1)); [reflexivity|lia]. }
        apply (assemble st _ cp cp0 (oi + 1) HT F4); fold stack; try lia.
        -- unfold st2. cbn [nid setStk removeNode setRk]. lia.
        -- rewrite stk_setStk. eapply Subl_trans; [apply Subl_delStack; lia|exact Hsub2].
        -- intros x Hx Hs0. destruct (Am x Hx Hs0) as [P1 P2]. destruct (M4 x ltac:(lia) P2) as [Q1 Q2]. split; [lia|exact Q2].
        -- left. rewrite stk_setStk. rewrite from_delStack by lia.
           assert (Et : from_ stack (cp0 + 1) = tl (from_ stack cp0)) by (rewrite (from_nthD stack cp0) by lia; reflexivity).
           rewrite Et, <- Hsuf2. rewrite (from_nthD stack2 (oi + 1)) by lia. reflexivity.
      * intros E. inversion E; subst st' ob' cp'. clear E.
        split; [exact HI2|].
        apply (assemble st st2 cp cp0 (oi + 1) HT F2); fold stack; try lia.
        -- unfold st2. cbn [nid setStk]. lia.
        -- exact Hsub2.
        -- exact Am.
        -- right. split; [exact Hsuf2|]. fold c. unfold W.
           rewrite W_plen in Ec0. unfold W in Ec0. pose proof (Wh_nonneg (d_node c) (Hs st2)). change (Hs st2) with (Hs stB) in *. lia.
  - (* no opener for this closer *)
    assert (Hnone : forall j, lo <= j <= cp0 - 1 -> isEmphMatch (nthD stack j) c = false).
    { pose proof (findOpener_spec stack c lo (S (length stack)) (cp0 - 1) ltac:(unfold len in *; lia)) as S2.
      cbn zeta in S2. fold oi in S2. destruct S2 as [(_ & _ & A)|(A & _)]; [exact A|lia]. }
    set (obN := setOB ob (obIndex c) cp0) in *.
    assert (Hlen' : len obN = OBN) by (unfold obN; rewrite len_setOB by (unfold OBN in *; lia); assumption).
    assert (HIn : forall cpN stackN, cp0 <= cpN -> (forall j, 0 <= j < cp0 -> nthD stackN j = nthD stack j) -> Inv sb stackN obN cpN).
    { intros cpN stackN HcpN Hst. unfold Inv. repeat split; try assumption; try lia.
      - unfold obN. rewrite getOB_set by (unfold OBN in *; lia). destruct (b =? obIndex c); [lia|]. apply Hob; assumption.
      - unfold obN. rewrite getOB_set by (unfold OBN in *; lia). destruct (b =? obIndex c); [lia|].
        specialize (Hob b H). lia.
      - intros c2 Hc2 j Hj1 Hj2. pose proof (obIndex_range c2 Hc2) as Hr2.
        unfold obN in Hj2. rewrite getOB_set in Hj2 by (unfold OBN in *; lia).
        destruct (Z.eqb_spec (obIndex c2) (obIndex c)) as [Eb|Eb].
        + rewrite Hst by lia. rewrite (match_bucket _ c2 c Hc2 Hcl Eb).
          destruct (Z.lt_ge_cases j lo) as [Hjl|Hjl]; [apply Hno; [exact Hcl|exact Hj1|exact Hjl]|apply Hnone; lia].
        + assert (j < cp0) by (specialize (Hob (obIndex c2) ltac:(unfold OBN; lia)); lia).
          rewrite Hst by lia. apply Hno; assumption. }
    destruct (negb (hasFlag c fOpener)).
    + inversion E; subst st' ob' cp'. clear E. rewrite stk_setStk. fold stack. split.
      { apply HIn; [lia|]. intros j Hj. rewrite nthD_del by lia. destruct (Z.ltb_spec j cp0); [reflexivity|lia]. }
      apply (assemble st (setStk st (delStack stack cp0 (cp0 + 1))) cp cp0 cp0 HT (conj TU TB : FI (setStk st (delStack stack cp0 (cp0 + 1))))); fold stack; try lia.
      * cbn [nid setStk]. lia.
      * rewrite stk_setStk. apply Subl_delStack; lia.
      * intros x _ Hs0. split; [change (Hs (setStk st (delStack stack cp0 (cp0 + 1)))) with (Hs st); lia|exact Hs0].
      * left. rewrite stk_setStk. apply from_delStack; lia.
    + inversion E; subst st' ob' cp'. clear E. split; [apply HIn; [lia|intros; reflexivity]|].
      apply (assemble st st cp cp0 (cp0 + 1) HT (conj TU TB)); fold stack; try lia; try tauto; try apply Subl_refl.
      intros x _ Hs0. split; [lia|exact Hs0].
Qed.

(* ================================================================ the loop *)
Lemma Phi_nonneg st cp : 0 <= Phi st cp. Proof. apply phiL_nonneg. Qed.

Theorem pe_loop_fuel sb : forall f1 f2 st ob cp, Inv sb (stk st) ob cp -> TI st ->
  Phi st cp < Z.of_nat f1 -> Phi st cp < Z.of_nat f2 -> pe_loop f1 st ob cp = pe_loop f2 st ob cp.
Proof.
  induction f1 as [|f1 IH]; intros f2 st ob cp HI HT H1 H2; [pose proof (Phi_nonneg st cp); lia|].
  destruct f2 as [|f2]; [pose proof (Phi_nonneg st cp); lia|]. rewrite !pe_loop_step.
  destruct (pe_step st ob cp) as [[[st' ob'] cp']|] eqn:E; [|reflexivity].
  destruct (pe_step_inv sb st ob cp st' ob' cp' HI HT E) as (A & B & _ & D). apply IH; [exact A|exact B|lia|lia].
Qed.

Theorem pe_loop_inv sb : forall f st ob cp, Inv sb (stk st) ob cp -> TI st ->
  TI (pe_loop f st ob cp) /\ Mono st (pe_loop f st ob cp).
Proof.
  induction f as [|f IH]; intros st ob cp HI HT; [split; [exact HT|apply Mono_refl]|]. rewrite pe_loop_step.
  destruct (pe_step st ob cp) as [[[st' ob'] cp']|] eqn:E; [|split; [exact HT|apply Mono_refl]].
  destruct (pe_step_inv sb st ob cp st' ob' cp' HI HT E) as (A & B & C & _). destruct (IH st' ob' cp' A B) as [P Q].
  split; [exact P|eapply Mono_trans; eassumption].
Qed.

Lemma Inv_init sb stack : 0 <= sb -> Inv sb stack (repeat sb 14) sb.
Proof.
  intros Hsb. unfold Inv.
  assert (Hg : forall b, 0 <= b < OBN -> getOB (repeat sb 14) b = sb).
  { intros b H. unfold getOB. destruct H as [H0 H1]. unfold OBN in H1.
    assert (Hn : (Z.to_nat b < 14)%nat) by lia. revert Hn. generalize (Z.to_nat b). intros n Hn.
    do 14 (destruct n as [|n]; [reflexivity|]). lia. }
  split; [exact Hsb|]. split; [reflexivity|]. split; [lia|]. split.
  - intros b Hb. rewrite (Hg b Hb). lia.
  - intros c Hc j Hj1 Hj2. pose proof (obIndex_range c Hc) as Hr. rewrite (Hg (obIndex c)) in Hj2 by (unfold OBN; lia). lia.
Qed.

(* processEmphasis with its fuel as a parameter *)
Definition processEmphasisF (pf : nat) (st : ist) (stackBottom : Z) : ist :=
  let st := pe_loop pf st (repeat stackBottom 14) stackBottom in
  setStk st (upto (stk st) stackBottom).
Lemma processEmphasisF_model st sb : processEmphasisF (4 * (length (stk st) + length (isrc st)) + 8) st sb = processEmphasis st sb.
Proof. reflexivity. Qed.

(* (3): processEmphasis does not depend on its fuel once the fuel exceeds the measure Phi *)
Theorem processEmphasis_fuel pf1 pf2 st sb : 0 <= sb -> TI st -> Phi st sb < Z.of_nat pf1 -> Phi st sb < Z.of_nat pf2 ->
  processEmphasisF pf1 st sb = processEmphasisF pf2 st sb.
Proof. intros Hsb HT H1 H2. unfold processEmphasisF. rewrite (pe_loop_fuel sb pf1 pf2 st _ sb (Inv_init sb _ Hsb) HT H1 H2). reflexivity. Qed.

(* the measure is at most (number of delimiters above the bottom) + (their remaining lengths) *)
Fixpoint sumW (st : ist) (l : list delim) : Z := match l with [] => 0 | d :: r => W st (d_node d) + sumW st r end.
Lemma phiL_sumW st l : phiL st l = len l + sumW st l.
Proof. induction l as [|d r IH]; [reflexivity|]. cbn [phiL sumW]. rewrite IH. unfold len. cbn [length]. lia. Qed.
Lemma sumW_nonneg st l : 0 <= sumW st l.
Proof. induction l as [|d r IH]; cbn [sumW]; [lia|]. pose proof (W_nonneg st (d_node d)). lia. Qed.
Lemma sumW_app st a b : sumW st (a ++ b) = sumW st a + sumW st b.
Proof. induction a as [|d a IH]; cbn [app sumW]; [lia|]. rewrite IH. lia. Qed.
Lemma Phi_le st sb : 0 <= sb -> Phi st sb <= len (stk st) + sumW st (stk st).
Proof.
  intros Hsb. unfold Phi. rewrite phiL_sumW.
  assert (H : len (from_ (stk st) sb) <= len (stk st)) by (unfold len, from_; rewrite skipn_length; lia).
  assert (H' : sumW st (from_ (stk st) sb) <= sumW st (stk st)).
  { unfold from_. rewrite <- (firstn_skipn (Z.to_nat sb) (stk st)) at 2. rewrite sumW_app. pose proof (sumW_nonneg st (firstn (Z.to_nat sb) (stk st))). lia. }
  lia.
Qed.

(* so: the model's fuel 4 * (len stack + len src) + 8 is adequate as soon as the remaining delimiter lengths on the stack
   add up to at most 3 * len stack + 4 * len src + 7 -- in particular when they add up to at most len src *)
Corollary processEmphasis_adequate pf st sb : 0 <= sb -> TI st -> sumW st (stk st) <= len (isrc st) ->
  (4 * (length (stk st) + length (isrc st)) + 8 <= pf)%nat -> processEmphasisF pf st sb = processEmphasis st sb.
Proof.
  intros Hsb HT Hs Hpf. rewrite <- processEmphasisF_model. pose proof (Phi_le st sb Hsb). unfold len in *.
  apply processEmphasis_fuel; try assumption; lia.
Qed.
Print Assumptions processEmphasis_fuel.
Print Assumptions processEmphasis_adequate.
