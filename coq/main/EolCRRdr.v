From Coq Require Import List ZArith Lia Bool.
Import ListNotations.
Require Import Base Tree Rdr Link Collect Html Recog TRdr EolCRDefs EolCRBytes.
Open Scope Z_scope.

(* C14 (ii), CR clause: the inline byte reader and everything that runs on it (link parts, HTML tag scanner,
   text collection, label normalisation) computes the same on a source and on its LF -> CR image. *)

Ltac rdsplit H := let Hs := fresh "Hs" in
  match type of H with rdR ?r ?r' =>
    destruct r as [src sp pos vp pv]; destruct r' as [src' sp' pos' vp' pv'];
    unfold rdR in H; cbn [r_src r_spans r_pos r_vpos r_prev] in H; destruct H as (Hs & -> & -> & -> & ->) end.
Lemma rdR_mk src src' sp pos vp pv : crRel src src' ->
  rdR {| r_src := src; r_spans := sp; r_pos := pos; r_vpos := vp; r_prev := pv |}
      {| r_src := src'; r_spans := sp; r_pos := pos; r_vpos := vp; r_prev := pv |}.
Proof. intros H. repeat split. exact H. Qed.

Lemma cr_newReader src src' sp pos : crRel src src' -> rdR (newReader src sp pos) (newReader src' sp pos).
Proof. intros H. unfold newReader. apply rdR_mk, H. Qed.

Lemma cr_curNode r r' : rdR r r' -> fst (curNode r') = fst (curNode r) /\ rdR (snd (curNode r)) (snd (curNode r')).
Proof.
  intros H. rdsplit H. unfold curNode. cbn [r_src r_spans r_pos r_vpos r_prev]. cbv zeta.
  destruct (_ <? 0); cbn [fst snd]; (split; [reflexivity|apply rdR_mk, Hs]).
Qed.

Lemma at0 a b i : crRel a b -> (at_ b i =? 0) = (at_ a i =? 0).
Proof. intros H. apply (bR_eqb _ _ 0 (crRel_at a b i H)); discriminate. Qed.

Lemma bR_const k : k <> 10 -> k <> 13 -> bR k k. Proof. apply bR_other. Qed.
Lemma bR_nullRepl v : bR (nullRepl v) (nullRepl v).
Proof. unfold nullRepl. destruct (v =? 0); [apply bR_const; discriminate|]. destruct (v =? 1); apply bR_const; discriminate. Qed.

Lemma cr_current r r' : rdR r r' -> bR (fst (current r)) (fst (current r')) /\ rdR (snd (current r)) (snd (current r')).
Proof.
  intros H. pose proof (cr_curNode r r' H) as [Hn Hr]. unfold current.
  destruct (curNode r) as [n r1]. destruct (curNode r') as [n' r1']. cbn [fst snd] in Hn, Hr. subst n'.
  pose proof H as H0. rdsplit H. cbn [r_src r_spans r_pos r_vpos r_prev].
  rewrite (crRel_len _ _ Hs). destruct (_ <=? _); [split; [apply bR_0|exact H0]|].
  destruct (okind n =? IndentKind); [split; [apply bR_const; discriminate|exact Hr]|].
  rewrite (at0 _ _ pos Hs). destruct (_ =? 0); cbn [fst snd]; (split; [|exact Hr]); [apply bR_nullRepl|apply crRel_at, Hs].
Qed.
Lemma cr_cur r r' : rdR r r' -> bR (cur r) (cur r').
Proof. intros H. apply cr_current, H. Qed.
Lemma rdR_rdW r r' : rdR r r' -> rdW r r'.
Proof. intros H. apply cr_current, H. Qed.

Lemma cr_nulRunBack a b : crRel a b -> forall fuel start, nulRunBack b start fuel = nulRunBack a start fuel.
Proof.
  intros H. induction fuel as [|f IH]; intros start; [reflexivity|]. cbn [nulRunBack]. rewrite (at0 a b _ H), IH. reflexivity.
Qed.
Lemma cr_cnvp a b pos : crRel a b -> computeNullVirtualPosition b pos = computeNullVirtualPosition a pos.
Proof.
  intros H. unfold computeNullVirtualPosition. rewrite (crRel_len a b H), (at0 a b _ H), (cr_nulRunBack a b H), (crRel_length a b H). reflexivity.
Qed.

Lemma cr_next r r' : rdR r r' -> fst (next r') = fst (next r) /\ rdR (snd (next r)) (snd (next r')).
Proof.
  intros H. pose proof (cr_curNode r r' H) as [Hn Hr]. unfold next.
  destruct (curNode r) as [n r1]. destruct (curNode r') as [n' r1']. cbn [fst snd] in Hn, Hr. subst n'.
  destruct n as [node|]; [|split; [reflexivity|exact Hr]].
  rdsplit Hr. cbn [r_src r_spans r_pos r_vpos r_prev].
  destruct (_ && (_ <? _)); [split; [reflexivity|apply rdR_mk, Hs]|].
  destruct (_ && (_ <? _)).
  { rewrite !(at0 _ _ _ Hs). split; [reflexivity|apply rdR_mk, Hs]. }
  destruct (nextSpan (tl sp)) as [[i sp2]|]; cbn [fst snd]; (split; [reflexivity|]).
  - rewrite (cr_cnvp _ _ _ Hs). apply rdR_mk, Hs.
  - apply rdR_mk, Hs.
Qed.
Lemma cr_jumped r r' : rdR r r' -> jumped r' = jumped r.
Proof. intros (_ & _ & A & _ & B). unfold jumped. rewrite A, B. reflexivity. Qed.
Lemma cr_remainingNodeBytes r r' : rdR r r' ->
  crRel (fst (remainingNodeBytes r)) (fst (remainingNodeBytes r')) /\ rdR (snd (remainingNodeBytes r)) (snd (remainingNodeBytes r')).
Proof.
  intros H. pose proof (cr_curNode r r' H) as [Hn Hr]. unfold remainingNodeBytes.
  destruct (curNode r) as [n r1]. destruct (curNode r') as [n' r1']. cbn [fst snd] in Hn, Hr. subst n'.
  destruct n as [node|]; cbn [fst snd]; (split; [|exact Hr]); [|constructor].
  replace (r_pos r') with (r_pos r) by (symmetry; apply H). apply crRel_sub, H.
Qed.

(* ---- stepping two runs together ---- *)
Ltac bt Hc :=
  match type of Hc with bR ?c ?c' =>
    rewrite ?(cr_isSTLE _ _ Hc), ?(cr_isSpTab _ _ Hc), ?(cr_isASCIILetter _ _ Hc), ?(cr_isASCIIDigit _ _ Hc),
            ?(cr_isASCIIPunctuation _ _ Hc), ?(cr_isASCIIControl _ _ Hc), ?(cr_isHex _ _ Hc);
    repeat match goal with |- context [c' =? ?k] => rewrite (bR_eqb c c' k Hc) by discriminate end
  end.
Tactic Notation "stepc" hyp(Hr) "as" ident(c) ident(c') ident(r1) ident(r1') ident(Hc) ident(Hr1) :=
  match type of Hr with rdR ?r ?r' =>
    pose proof (cr_current r r' Hr) as [Hc Hr1]; destruct (current r) as [c r1]; destruct (current r') as [c' r1'];
    cbn [fst snd] in Hc, Hr1; bt Hc end.
Tactic Notation "stepn" hyp(Hr) "as" ident(ok) ident(r1) ident(r1') ident(Hr1) :=
  match type of Hr with rdR ?r ?r' =>
    let Ho := fresh "Ho" in let ok' := fresh "ok'" in
    pose proof (cr_next r r' Hr) as [Ho Hr1]; destruct (next r) as [ok r1]; destruct (next r') as [ok' r1'];
    cbn [fst snd] in Ho, Hr1; subst ok' end.
Definition Sim {A} (F : reader -> A * reader) : Prop :=
  forall r r', rdR r r' -> fst (F r') = fst (F r) /\ rdR (snd (F r)) (snd (F r')).
Ltac done Hr := cbn [fst snd]; split; [reflexivity|exact Hr].
Ltac posEq Hr := match type of Hr with rdR ?r ?r' => replace (r_pos r') with (r_pos r) by (symmetry; apply Hr) end.
Ltac prevEq Hr := match type of Hr with rdR ?r ?r' => replace (r_prev r') with (r_prev r) by (symmetry; apply Hr) end.

(* ---- Link.v ---- *)
Lemma cr_skipLinkSpace_loop : forall f, Sim (skipLinkSpace_loop f).
Proof.
  induction f as [|f IH]; intros r r' H; [done H|]. cbn [skipLinkSpace_loop]. stepc H as c c' r1 r1' Hc H1.
  destruct (isSpaceTabOrLineEnding c); [|done H1]. stepn H1 as ok r2 r2' H2. destruct ok; [apply IH, H2|done H2].
Qed.
Lemma cr_skipLinkSpace f : Sim (skipLinkSpace f).
Proof. intros r r' H. unfold skipLinkSpace. stepc H as c c' r1 r1' Hc H1. destruct (c =? 0); [done H1|apply cr_skipLinkSpace_loop, H1]. Qed.
Lemma cr_skipSpacesAndTabs : forall f, Sim (skipSpacesAndTabs f).
Proof.
  induction f as [|f IH]; intros r r' H; [done H|]. cbn [skipSpacesAndTabs]. stepc H as c c' r1 r1' Hc H1.
  destruct (isSpTab c); [|done H1]. stepn H1 as ok r2 r2' H2. destruct ok; [apply IH, H2|done H2].
Qed.

Lemma cr_readEOL f r r' : rdR r r' ->
  fst (readEOL f r') = fst (readEOL f r) /\ rdW (snd (readEOL f r)) (snd (readEOL f r')) /\
  r_pos (snd (readEOL f r')) = r_pos (snd (readEOL f r)).
Proof.
  intros H. unfold readEOL. pose proof (cr_skipSpacesAndTabs f r r' H) as [Ho Hr1].
  destruct (skipSpacesAndTabs f r) as [ok r1]. destruct (skipSpacesAndTabs f r') as [ok' r1']. cbn [fst snd] in Ho, Hr1. subst ok'.
  destruct (negb ok).
  { cbn [fst snd]. split; [apply Hr1|]. split; [apply rdR_rdW, Hr1|apply Hr1]. }
  pose proof (cr_current r1 r1' Hr1) as [Hc Hr2]. destruct (current r1) as [c r2]. destruct (current r1') as [c' r2']. cbn [fst snd] in Hc, Hr2.
  destruct (bR_eol _ _ Hc) as (E1 & E2 & E3). rewrite E1, E2, E3.
  destruct (c =? 10) eqn:E10.
  - (* LF on the left, CR on the right *)
    pose proof (cr_next r2 r2' Hr2) as [Ho2 Hr3]. destruct (next r2) as [ok2 r3]. destruct (next r2') as [ok2' r3']. cbn [fst snd] in Ho2, Hr3. subst ok2'.
    assert (Epv : r_prev r3' = r_prev r3) by apply Hr3. assert (Epp : r_pos r3' = r_pos r3) by apply Hr3.
    destruct (negb ok2).
    { cbn [fst snd]. rewrite Epv. split; [reflexivity|]. split; [apply rdR_rdW, Hr3|exact Epp]. }
    pose proof (cr_current r3 r3' Hr3) as [Hc2 Hr4]. destruct (current r3') as [c2' r4'] eqn:Ec. cbn [fst snd] in Hc2, Hr4.
    destruct (bR_eol _ _ Hc2) as (_ & F2 & _). rewrite F2. cbn [fst snd].
    assert (E4 : r4' = snd (current r3')) by (rewrite Ec; reflexivity).
    rewrite E4, current_prev, current_pos, Epv. split; [reflexivity|]. split; [|exact Epp].
    unfold rdW. rewrite current_idem. apply cr_current, Hr3.
  - cbn [fst snd]. split; [reflexivity|]. split; [apply rdR_rdW, Hr2|apply Hr2].
Qed.

Definition SimO {A} (x y : option (reader * A)) : Prop :=
  match x, y with
  | Some (r1, c1), Some (r1', c1') => c1' = c1 /\ rdR r1 r1'
  | None, None => True
  | _, _ => False
  end.
Lemma cr_ll_skip : forall f r r' chars, rdR r r' -> SimO (ll_skip f r chars) (ll_skip f r' chars).
Proof.
  induction f as [|f IH]; intros r r' chars H; [exact I|]. cbn [ll_skip]. stepn H as ok r1 r1' H1.
  destruct (negb ok); [exact I|]. stepc H1 as c c' r2 r2' Hc H2. destruct (_ || _ || _); [exact I|].
  destruct (negb (isSpaceTabOrLineEnding c)); [split; [reflexivity|exact H2]|]. apply IH, H2.
Qed.
Lemma cr_ll_body : forall f r r' chars ie, rdR r r' -> SimO (ll_body f r chars ie) (ll_body f r' chars ie).
Proof.
  induction f as [|f IH]; intros r r' chars ie H; [exact I|]. cbn [ll_body]. stepc H as c c' r1 r1' Hc H1.
  posEq H1. destruct (negb _); [split; [reflexivity|exact H1]|].
  destruct (c =? 92).
  - stepn H1 as ok r2 r2' H2. destruct (negb ok); [exact I|]. stepc H2 as c2 c2' r3 r3' Hc2 H3. posEq H3.
    stepn H3 as ok2 r4 r4' H4. destruct (negb ok2); [exact I|]. apply IH, H4.
  - stepn H1 as ok r2 r2' H2. destruct (negb ok); [exact I|]. apply IH, H2.
Qed.
Lemma cr_parseLinkLabel f : Sim (parseLinkLabel f).
Proof.
  intros r r' H. unfold parseLinkLabel. stepc H as c c' r0 r0' Hc H0. destruct (negb (c =? 91)); [done H0|].
  posEq H0. pose proof (cr_ll_skip f r0 r0' 0 H0) as Hs.
  destruct (ll_skip f r0 0) as [[r1 ch]|]; destruct (ll_skip f r0' 0) as [[r1' ch']|]; cbn [SimO] in Hs; try contradiction; [|done H0].
  destruct Hs as [-> H1]. posEq H1.
  pose proof (cr_ll_body f r1 r1' ch (-1) H1) as Hb.
  destruct (ll_body f r1 ch (-1)) as [[r2 ie]|]; destruct (ll_body f r1' ch (-1)) as [[r2' ie']|]; cbn [SimO] in Hb; try contradiction; [|done H1].
  destruct Hb as [-> H2]. stepc H2 as c2 c2' r3 r3' Hc2 H3. destruct (negb (c2 =? 93)); [done H3|].
  posEq H3. stepn H3 as ok r4 r4' H4. done H4.
Qed.
Lemma parseLinkLabel_cur f r : parseLinkLabel f (snd (current r)) = parseLinkLabel f r.
Proof. unfold parseLinkLabel. rewrite current_idem. reflexivity. Qed.

Lemma cr_ld_angle : forall f start, Sim (fun r => ld_angle f r start).
Proof.
  induction f as [|f IH]; intros start r r' H; [done H|]. cbn [ld_angle]. stepn H as ok r1 r1' H1.
  destruct (negb ok); [done H1|]. stepc H1 as c c' r2 r2' Hc H2. destruct (bR_eol _ _ Hc) as (E1 & E2 & E3). rewrite E1, E2, E3.
  rewrite (orb_comm (c =? 10) false). cbn [orb].
  destruct (c =? 10); [done H2|].
  destruct (c =? 92).
  - stepn H2 as ok2 r3 r3' H3. destruct (negb ok2); [done H3|]. stepc H3 as c3 c3' r4 r4' Hc3 H4.
    destruct (bR_eol _ _ Hc3) as (F1 & F2 & F3). rewrite F1, F2, F3.
    rewrite (orb_comm (c3 =? 10) false). cbn [orb]. destruct (c3 =? 10); [done H4|apply (IH start), H4].
  - destruct (c =? 62); [|apply (IH start), H2]. stepn H2 as ok2 r3 r3' H3. cbn [fst snd]. prevEq H3. split; [reflexivity|exact H3].
Qed.
Lemma cr_ld_bare : forall f paren r r', rdR r r' -> rdR (ld_bare f r paren) (ld_bare f r' paren).
Proof.
  induction f as [|f IH]; intros paren r r' H; [exact H|]. cbn [ld_bare]. stepc H as c c' r1 r1' Hc H1.
  destruct (_ || _); [exact H1|].
  destruct (c =? 92).
  - stepn H1 as ok r2 r2' H2. destruct (negb ok); [exact H2|]. stepc H2 as c2 c2' r3 r3' Hc2 H3. destruct (_ || _); [exact H3|].
    stepn H3 as ok2 r4 r4' H4. destruct ok2; [apply IH, H4|exact H4].
  - destruct (c =? 40); [stepn H1 as ok r2 r2' H2; destruct ok; [apply IH, H2|exact H2]|].
    destruct (c =? 41); [destruct (_ <? 0); [exact H1|]; stepn H1 as ok r2 r2' H2; destruct ok; [apply IH, H2|exact H2]|].
    stepn H1 as ok r2 r2' H2. destruct ok; [apply IH, H2|exact H2].
Qed.
Lemma cr_parseLinkDestination f : Sim (parseLinkDestination f).
Proof.
  intros r r' H. unfold parseLinkDestination. stepc H as c c' r0 r0' Hc H0. posEq H0.
  destruct (c =? 60); [apply (cr_ld_angle f (r_pos r0)), H0|].
  destruct (_ && _ && _); [|done H0]. pose proof (cr_ld_bare f 0 r0 r0' H0) as H1. cbn [fst snd].
  posEq H1. split; [reflexivity|exact H1].
Qed.
Lemma cr_lt_loop : forall f start term, term <> 10 -> term <> 13 -> Sim (fun r => lt_loop f r start term).
Proof.
  induction f as [|f IH]; intros start term T1 T2 r r' H; [done H|]. cbn [lt_loop]. stepn H as ok r1 r1' H1.
  destruct (negb ok); [done H1|]. stepc H1 as c c' r2 r2' Hc H2. rewrite (bR_eqb _ _ term Hc T1 T2).
  destruct (c =? 92); [stepn H2 as ok2 r3 r3' H3; destruct (negb ok2); [done H3|apply (IH start term T1 T2), H3]|].
  destruct (c =? term); [|apply (IH start term T1 T2), H2]. stepn H2 as ok2 r3 r3' H3. cbn [fst snd].
  prevEq H3. split; [reflexivity|exact H3].
Qed.
Lemma cr_parseLinkTitle f : Sim (parseLinkTitle f).
Proof.
  intros r r' H. unfold parseLinkTitle.
  pose proof (cr_current r r' H) as [Hc Hr]. destruct (current r) as [c r0]. destruct (current r') as [c' r0']. cbn [fst snd] in Hc, Hr.
  rewrite !(bR_eqb _ _ _ Hc) by discriminate.
  destruct ((c =? 39) || (c =? 34) || (c =? 40)) eqn:E; cbn [negb]; [|done Hr].
  assert (Ec : c' = c).
  { apply (bR_same_if _ _ Hc). intros E0. subst c. discriminate. }
  subst c'. posEq Hr.
  apply (cr_lt_loop f (r_pos r0) (if c =? 40 then 41 else c)); [| |exact Hr].
  - destruct (c =? 40); [discriminate|]. intros E0. subst c. discriminate.
  - destruct (c =? 40); [discriminate|]. intros E0. subst c. discriminate.
Qed.

(* ---- Html.v: the tag scanner ---- *)
Lemma cr_tagName_loop : forall f r r', rdR r r' -> rdR (tagName_loop f r) (tagName_loop f r').
Proof.
  induction f as [|f IH]; intros r r' H; [exact H|]. cbn [tagName_loop]. stepc H as c c' r1 r1' Hc H1.
  destruct (_ || _ || _); [|exact H1]. stepn H1 as ok r2 r2' H2. destruct ok; [apply IH, H2|exact H2].
Qed.
Lemma cr_parseHTMLTagName f : Sim (parseHTMLTagName f).
Proof.
  intros r r' H. unfold parseHTMLTagName. stepc H as c c' r1 r1' Hc H1. destruct (negb _); [done H1|].
  stepn H1 as ok r2 r2' H2. destruct (negb ok); [done H2|]. cbn [fst snd]. split; [reflexivity|apply cr_tagName_loop, H2].
Qed.
Lemma cr_isUAVC c c' : bR c c' -> isUnquotedAttributeValueChar c' = isUnquotedAttributeValueChar c.
Proof. intros H. unfold isUnquotedAttributeValueChar. bt H. reflexivity. Qed.
Lemma cr_isAttrNameChar c c' : bR c c' -> isAttrNameChar c' = isAttrNameChar c.
Proof. intros H. unfold isAttrNameChar. bt H. reflexivity. Qed.
Lemma cr_attrName_loop : forall f, Sim (attrName_loop f).
Proof.
  induction f as [|f IH]; intros r r' H; [done H|]. cbn [attrName_loop]. stepc H as c c' r1 r1' Hc H1.
  rewrite (cr_isAttrNameChar _ _ Hc). destruct (isAttrNameChar c); [|done H1].
  stepn H1 as ok r2 r2' H2. destruct ok; [apply IH, H2|done H2].
Qed.
Lemma cr_untilQuote : forall f q, q <> 10 -> q <> 13 -> Sim (fun r => untilQuote f r q).
Proof.
  induction f as [|f IH]; intros q Q1 Q2 r r' H; [done H|]. cbn [untilQuote]. stepc H as c c' r1 r1' Hc H1.
  rewrite (bR_eqb _ _ q Hc Q1 Q2). destruct (c =? q).
  - cbn [fst snd]. split; [reflexivity|apply cr_next, H1].
  - stepn H1 as ok r2 r2' H2. destruct ok; [apply (IH q Q1 Q2), H2|done H2].
Qed.
Lemma cr_unquoted_loop : forall f r r', rdR r r' -> rdR (unquoted_loop f r) (unquoted_loop f r').
Proof.
  induction f as [|f IH]; intros r r' H; [exact H|]. cbn [unquoted_loop]. stepn H as ok r1 r1' H1.
  destruct (negb ok); [exact H1|]. stepc H1 as c c' r2 r2' Hc H2. rewrite (cr_isUAVC _ _ Hc).
  destruct (isUnquotedAttributeValueChar c); [apply IH, H2|exact H2].
Qed.
Ltac stepS L Hr ok r1 r1' H1 :=
  match type of Hr with rdR ?r ?r' =>
    let Ho := fresh "Ho" in let ok' := fresh "ok'" in
    pose proof (L r r' Hr) as [Ho H1];
    match type of Ho with fst ?y = fst ?x => destruct x as [ok r1]; destruct y as [ok' r1'] end;
    cbn [fst snd] in Ho, H1; subst ok' end.
Lemma cr_parseHTMLAttribute f : Sim (parseHTMLAttribute f).
Proof.
  intros r r' H. unfold parseHTMLAttribute. stepc H as c c' r1 r1' Hc H1.
  destruct (_ && _ && _); [done H1|]. stepn H1 as ok r2 r2' H2. destruct (negb ok); [done H2|].
  stepS (cr_attrName_loop f) H2 cont r3 r3' H3. destruct (negb cont); [done H3|]. cbv zeta.
  stepS (cr_skipLinkSpace f) H3 ok2 r4 r4' H4. destruct (negb ok2); [done H3|].
  stepc H4 as c2 c2' r5 r5' Hc2 H5. destruct (negb (c2 =? 61)); [done H3|].
  stepn H5 as ok3 r6 r6' H6. destruct (negb ok3); [done H6|].
  stepS (cr_skipLinkSpace f) H6 ok4 r7 r7' H7. destruct (negb ok4); [done H7|].
  pose proof (cr_current r7 r7' H7) as [Hc3 H8]. destruct (current r7) as [c3 r8]. destruct (current r7') as [c3' r8']. cbn [fst snd] in Hc3, H8.
  rewrite !(bR_eqb _ _ _ Hc3) by discriminate. rewrite (cr_isUAVC _ _ Hc3).
  destruct ((c3 =? 39) || (c3 =? 34)) eqn:Eq.
  - assert (Ec : c3' = c3) by (apply (bR_same_if _ _ Hc3); intros E0; subst c3; discriminate). subst c3'.
    stepn H8 as ok5 r9 r9' H9. destruct (negb ok5); [done H9|].
    apply (cr_untilQuote f c3); [intros E0; subst c3; discriminate|intros E0; subst c3; discriminate|exact H9].
  - destruct (isUnquotedAttributeValueChar c3); [|done H8]. cbn [fst snd]. split; [reflexivity|apply cr_unquoted_loop, H8].
Qed.
Lemma cr_openTag_loop : forall f, Sim (openTag_loop f).
Proof.
  induction f as [|f IH]; intros r r' H; [done H|]. cbn [openTag_loop]. cbv zeta. posEq H.
  stepS (cr_skipLinkSpace (S f)) H ok r1 r1' H1. destruct (negb ok); [done H1|].
  stepc H1 as c c' r2 r2' Hc H2. posEq H2.
  destruct (c =? 47).
  - stepn H2 as ok2 r3 r3' H3. rewrite (cr_jumped _ _ H3). destruct (_ || _); [done H3|].
    stepc H3 as c2 c2' r4 r4' Hc2 H4. destruct (negb (c2 =? 62)); [done H4|]. cbn [fst snd]. posEq H4.
    split; [reflexivity|apply cr_next, H4].
  - destruct (c =? 62); [cbn [fst snd]; split; [reflexivity|apply cr_next, H2]|].
    destruct (_ =? _); [done H2|].
    stepS (cr_parseHTMLAttribute (S f)) H2 ok3 r3 r3' H3. destruct (negb ok3); [done H3|apply IH, H3].
Qed.
Lemma cr_parseHTMLOpenTag f : Sim (parseHTMLOpenTag f).
Proof.
  intros r r' H. unfold parseHTMLOpenTag. stepS (cr_parseHTMLTagName f) H ok r1 r1' H1.
  destruct (negb ok); [done H1|apply cr_openTag_loop, H1].
Qed.
Lemma cr_parseHTMLClosingTag f : Sim (parseHTMLClosingTag f).
Proof.
  intros r r' H. unfold parseHTMLClosingTag. stepc H as c c' r1 r1' Hc H1. destruct (negb (c =? 47)); [done H1|].
  stepn H1 as ok r2 r2' H2. rewrite (cr_jumped _ _ H2). destruct (_ || _); [done H2|].
  stepS (cr_parseHTMLTagName f) H2 ok2 r3 r3' H3. destruct (negb ok2); [done H3|].
  stepS (cr_skipLinkSpace f) H3 ok3 r4 r4' H4. destruct (negb ok3); [done H4|].
  stepc H4 as c2 c2' r5 r5' Hc2 H5. destruct (negb (c2 =? 62)); [done H5|]. cbn [fst snd]. posEq H5.
  split; [reflexivity|apply cr_next, H5].
Qed.

(* ---- Html.v: start and end conditions of HTML blocks ---- *)
Definition noEolb (l : bytes) : bool := forallb (fun c => negb (c =? 10) && negb (c =? 13)) l.
Lemma noEolb_spec l : noEolb l = true -> noEolB l.
Proof.
  unfold noEolb, noEolB. rewrite forallb_forall. intros H. apply Forall_forall. intros c Hc. specialize (H c Hc).
  apply andb_true_iff in H. destruct H as [A B]. apply negb_true_iff in A, B. apply Z.eqb_neq in A, B. tauto.
Qed.
Lemma existsb_eq_in {A} (f g : A -> bool) l : (forall x, In x l -> f x = g x) -> existsb f l = existsb g l.
Proof. induction l as [|x l IH]; intros H; [reflexivity|]. cbn [existsb]. rewrite (H x (or_introl eq_refl)), IH; [reflexivity|]. intros y Hy. apply H. right. exact Hy. Qed.
Lemma all_noEol (L : list bytes) : forallb noEolb L = true -> forall st, In st L -> noEolB st.
Proof. intros H st Hs. rewrite forallb_forall in H. apply noEolb_spec, H, Hs. Qed.

Lemma cr_afterStarter a b fl : crRel a b -> afterStarter b fl = afterStarter a fl.
Proof.
  intros H. unfold afterStarter. destruct H as [|x y a b Hxy H]; [reflexivity|]. bt Hxy.
  rewrite (cr_hasBytePrefix (x :: a) (y :: b) [47; 62]); [reflexivity|constructor; assumption|apply noEolb_spec; reflexivity].
Qed.
Lemma cr_startCond1 a b : crRel a b -> startCond1 b = startCond1 a.
Proof.
  intros H. unfold startCond1. apply existsb_eq_in. intros st Hs.
  rewrite (cr_hasCIPrefix a b st H (all_noEol starters1 eq_refl st Hs)), (cr_afterStarter _ _ false (crRel_from a b (len st) H)). reflexivity.
Qed.
Lemma cr_startCond6 a b : crRel a b -> startCond6 b = startCond6 a.
Proof.
  intros H. unfold startCond6.
  rewrite !(cr_hasBytePrefix a b _ H) by (apply noEolb_spec; reflexivity).
  assert (G : forall x y, crRel x y ->
     existsb (fun st => hasCIPrefix y st && afterStarter (from_ y (len st)) true) starters6 =
     existsb (fun st => hasCIPrefix x st && afterStarter (from_ x (len st)) true) starters6).
  { intros x y Hxy. apply existsb_eq_in. intros st Hs.
    rewrite (cr_hasCIPrefix x y st Hxy (all_noEol starters6 eq_refl st Hs)), (cr_afterStarter _ _ true (crRel_from x y (len st) Hxy)). reflexivity. }
  destruct (hasBytePrefix a [60; 47]); [apply G, crRel_from, H|]. destruct (hasBytePrefix a [60]); [apply G, crRel_from, H|reflexivity].
Qed.
Lemma cr_startCond7 a b : crRel a b -> startCond7 b = startCond7 a.
Proof.
  intros H. unfold startCond7. rewrite !(cr_hasBytePrefix a b _ H) by (apply noEolb_spec; reflexivity).
  destruct (negb _); [reflexivity|]. cbv zeta. rewrite (crRel_len a b H), (crRel_length a b H).
  set (fake := Inl UnparsedKind 1 (len a) 0 [] []). set (fuel := (2 * length a + 10)%nat).
  pose proof (cr_newReader a b [fake] 1 H) as H0.
  assert (G : forall (F : reader -> Z * reader), Sim F ->
     (let '(e, r1) := F (newReader b [fake] 1) in if e <? 0 then false else negb (fst (skipLinkSpace fuel r1))) =
     (let '(e, r1) := F (newReader a [fake] 1) in if e <? 0 then false else negb (fst (skipLinkSpace fuel r1)))).
  { intros F HF. destruct (HF _ _ H0) as [E1 E2]. destruct (F (newReader a [fake] 1)) as [e r1]. destruct (F (newReader b [fake] 1)) as [e' r1'].
    cbn [fst snd] in E1, E2. subst e'. destruct (e <? 0); [reflexivity|]. rewrite (proj1 (cr_skipLinkSpace fuel r1 r1' E2)). reflexivity. }
  destruct (hasBytePrefix a [60; 47]); [apply G, cr_parseHTMLClosingTag|apply G, cr_parseHTMLOpenTag].
Qed.
Lemma cr_htmlStart i a b : crRel a b -> htmlStart i b = htmlStart i a.
Proof.
  intros H. unfold htmlStart, hasHTMLDeclarationPrefix.
  rewrite (cr_startCond1 a b H), (cr_startCond6 a b H), (cr_startCond7 a b H), (crRel_len a b H), (cr_isASCIILetter _ _ (crRel_at a b 2 H)).
  rewrite !(cr_hasBytePrefix a b _ H) by (apply noEolb_spec; reflexivity). reflexivity.
Qed.
Lemma cr_htmlEnd i a b : crRel a b -> htmlEnd i b = htmlEnd i a.
Proof.
  intros H. unfold htmlEnd. rewrite (cr_isBlankLine a b H).
  rewrite !(cr_contains a b _ H) by (apply noEolb_spec; reflexivity).
  replace (existsb (containsCI b) enders1) with (existsb (containsCI a) enders1); [reflexivity|].
  apply existsb_eq_in. intros st Hs. symmetry. apply (cr_containsCI a b st H (all_noEol enders1 eq_refl st Hs)).
Qed.

(* ---- Collect.v ---- *)
Lemma cr_skipSameNode : forall f node r r', rdR r r' -> rdR (skipSameNode f r node) (skipSameNode f r' node).
Proof.
  induction f as [|f IH]; intros node r r' H; [exact H|]. cbn [skipSameNode]. stepn H as ok r1 r1' H1.
  destruct (negb ok); [exact H1|]. pose proof (cr_curNode r1 r1' H1) as [En H2].
  destruct (curNode r1) as [n r2]. destruct (curNode r1') as [n' r2']. cbn [fst snd] in En, H2. subst n'.
  destruct n as [m|]; [|exact H2]. destruct (_ && _ && _); [apply IH, H2|exact H2].
Qed.
Lemma cr_nextN : forall n r r', rdR r r' -> rdR (nextN n r) (nextN n r').
Proof. induction n as [|n IH]; intros r r' H; [exact H|]. cbn [nextN]. apply IH, cr_next, H. Qed.

Lemma cr_collect_loop : forall f r r' e tk esc ps acc, rdR r r' ->
  collect_loop f r' e tk esc ps acc = collect_loop f r e tk esc ps acc.
Proof.
  induction f as [|f IH]; intros r r' e tk esc ps acc H; [reflexivity|]. cbn beta iota delta [collect_loop]. posEq H.
  destruct (e <=? r_pos r); [reflexivity|].
  pose proof (cr_curNode r r' H) as [En H0]. destruct (curNode r) as [cn r0]. destruct (curNode r') as [cn' r0']. cbn [fst snd] in En, H0. subst cn'.
  destruct (okind cn =? IndentKind).
  { cbv zeta. posEq H0. prevEq H0.
    match goal with |- context [skipSameNode (S f) r0 ?nd] => pose proof (cr_skipSameNode (S f) nd r0 r0' H0) as H1; set (node := nd) in * end.
    posEq H1. apply IH, H1. }
  match goal with |- context [let tail := ?T in _] => set (TL := T) end. cbv zeta.
  assert (HT : forall x x' ps0 acc0, rdR x x' -> TL x' ps0 acc0 = TL x ps0 acc0).
  { intros x x' ps0 acc0 Hx. unfold TL. posEq Hx. destruct (e <=? r_pos x); [reflexivity|].
    stepn Hx as ok x1 x1' Hx1. destruct (negb ok); [reflexivity|]. rewrite (cr_jumped _ _ Hx1). posEq Hx1. prevEq Hx1.
    destruct (jumped x1); apply IH, Hx1. }
  destruct (esc && (okind cn =? UnparsedKind)); [|apply HT, H0].
  stepc H0 as c c' r1 r1' Hc H1.
  destruct (c =? 92).
  { stepn H1 as ok r2 r2' H2. posEq H2. prevEq H2. rewrite (cr_isASCIIPunctuation _ _ (cr_cur _ _ H2)).
    destruct (ok && _ && _); apply HT, H2. }
  destruct (c =? 38); [|apply HT, H1].
  pose proof (cr_remainingNodeBytes r1 r1' H1) as [Hrem H2].
  destruct (remainingNodeBytes r1) as [rem r2]. destruct (remainingNodeBytes r1') as [rem' r2']. cbn [fst snd] in Hrem, H2.
  rewrite (cr_parseCharacterEscape rem rem' Hrem). destruct (0 <=? parseCharacterEscape rem); [|apply HT, H2].
  posEq H2. pose proof (cr_nextN (Z.to_nat (parseCharacterEscape rem - 1)) r2 r2' H2) as H3.
  stepn H3 as ok r4 r4' H4. destruct (negb ok); [reflexivity|apply IH, H4].
Qed.
Lemma cr_collectTextNodes f r r' e tk esc : rdR r r' -> collectTextNodes f r' e tk esc = collectTextNodes f r e tk esc.
Proof. intros H. unfold collectTextNodes. posEq H. rewrite (cr_collect_loop f r r' e tk esc (r_pos r) [] H). reflexivity. Qed.

Section TlrSkip.
  Variables (T : reader -> bytes) (e : Z) (acc : bytes).
  Fixpoint tlr_skip (k : nat) (r : reader) : bytes :=
    match k with
    | O => acc
    | S k' =>
      if (r_pos r <? e) && isSpaceTabOrLineEnding (cur r) then
        let '(ok, r') := next (snd (current r)) in if ok then tlr_skip k' r' else T r'
      else T r
    end.
End TlrSkip.
Lemma tlr_eq f r e acc : tlr_loop (S f) r e acc =
  if e <=? r_pos r then acc else
  let '(c, r1) := current r in
  if isSpaceTabOrLineEnding c then
    let acc := acc ++ [32] in
    let '(ok, r2) := next r1 in
    if negb ok then acc else tlr_skip (fun x => tlr_loop f x e acc) e acc (S f) r2
  else
    let acc := acc ++ [c] in
    let '(ok, r2) := next r1 in
    if negb ok then acc else tlr_loop f r2 e acc.
Proof. reflexivity. Qed.
Lemma cr_tlr_loop : forall f r r' e acc, rdR r r' -> tlr_loop f r' e acc = tlr_loop f r e acc.
Proof.
  induction f as [|f IH]; intros r r' e acc H; [reflexivity|]. rewrite !tlr_eq. posEq H.
  destruct (e <=? r_pos r); [reflexivity|].
  pose proof (cr_current r r' H) as [Hc H1]. destruct (current r) as [c r1]. destruct (current r') as [c' r1']. cbn [fst snd] in Hc, H1.
  rewrite (cr_isSTLE _ _ Hc). destruct (isSpaceTabOrLineEnding c) eqn:Ews.
  - cbv zeta. stepn H1 as ok r2 r2' H2. destruct (negb ok); [reflexivity|].
    assert (HS : forall k x x', rdR x x' ->
       tlr_skip (fun x0 => tlr_loop f x0 e (acc ++ [32])) e (acc ++ [32]) k x' = tlr_skip (fun x0 => tlr_loop f x0 e (acc ++ [32])) e (acc ++ [32]) k x).
    { induction k as [|k IHk]; intros x x' Hx; [reflexivity|]. cbn [tlr_skip]. posEq Hx.
      rewrite (cr_isSTLE _ _ (cr_cur _ _ Hx)). destruct (_ && _); [|apply IH, Hx].
      pose proof (cr_current x x' Hx) as [_ Hx1]. stepn Hx1 as ok2 x2 x2' Hx2. destruct ok2; [apply IHk, Hx2|apply IH, Hx2]. }
    apply HS, H2.
  - assert (Ec : c' = c) by (apply (bR_same_if _ _ Hc); intros E0; subst c; discriminate). subst c'. cbv zeta.
    stepn H1 as ok r2 r2' H2. destruct (negb ok); [reflexivity|apply IH, H2].
Qed.
Lemma cr_transformLinkReferenceSpan f src src' nodes s e : crRel src src' ->
  transformLinkReferenceSpan f src' nodes s e = transformLinkReferenceSpan f src nodes s e.
Proof. intros H. unfold transformLinkReferenceSpan. rewrite (cr_tlr_loop f _ _ e [] (cr_newReader src src' nodes s H)). reflexivity. Qed.

Print Assumptions cr_readEOL. Print Assumptions cr_htmlStart. Print Assumptions cr_collectTextNodes.
Print Assumptions cr_transformLinkReferenceSpan. Print Assumptions cr_parseLinkLabel.
