From Coq Require Import List ZArith Lia Bool.
Import ListNotations.
Require Import Base Tree Rdr Link Collect Html Recog LP Rules Starts Driver Rec16 Rec17 Rec18 RecBounds Cursor CursorX NoPanic12 NoPanic3
  L2Kind L2CC BSDef BSRdr BSTree BSOrph BSClose BSLine1 BSLine2 BSLine3 BSLine4 BSLine5 BSLine6
  BSLine7 BSLine8 BSErase BSLine9 BSLine10 GramTree LADef LA1 LA2 LA3 LA4 LA5 LARec LA6 LA7 LA8 LA9.
Open Scope Z_scope.

(* ===== addLineText and one whole line (mirrors BSLine10) ===== *)

(* la sees the tree only up to the lastLineBlank flags *)
Lemma la_erase src M : forall b, la src M (eraseB b) <-> la src M b.
Proof.
  fix IH 1. intros [k s e bk ik a n c l lb]. cbn [eraseB la].
  assert (Hc : forall op lo hi, tchain src op lo hi (map eraseB bk) <-> tchain src op lo hi bk).
  { intros op lo hi. apply (tchain_map src op eraseB lo hi bk). intros x. destruct (erase_fields x) as (A & B & _). split; assumption. }
  assert (Ha : allQ (la src M) (map eraseB bk) <-> allQ (la src M) bk).
  { clear Hc. induction bk as [|x r IHr]; [tauto|]. cbn [map allQ]. rewrite (IH x), IHr. tauto. }
  rewrite Ha. destruct (isLeafK k); [tauto|]. destruct (k =? ListMarkerKind); [tauto|]. destruct (k =? LinkReferenceDefinitionKind); [tauto|].
  rewrite Hc. tauto.
Qed.
Lemma la_transfer src M x x' : eraseB x = eraseB x' -> la src M x -> la src M x'.
Proof. intros E H. apply la_erase. rewrite <- E. apply la_erase. exact H. Qed.

Lemma LB_transfer M p p' : eraseB (root p') = eraseB (root p) -> cdepth p' = cdepth p -> li p' = li p -> lineStart p' = lineStart p -> line p' = line p ->
  source p' = source p -> ccP p' -> LB M p -> LB M p'.
Proof.
  intros E E2 E3 E4 E5 E6 Hcc (A & St & B & C & _). split; [unfold curP; rewrite E3, E4, E5; exact A|].
  split; [unfold ST; rewrite E4, E5, E6; exact St|]. split; [rewrite E6; eapply la_transfer; [symmetry; exact E|exact B]|]. split; [|exact Hcc].
  intros j x' Hj Ex'. rewrite E2 in Hj. destruct (getAt_transfer _ _ _ _ E Ex') as (x & Ex & Ee). rewrite (bend_transfer _ _ Ee). apply (C j x Hj Ex).
Qed.
Lemma LC1_transfer p p' : eraseB (root p') = eraseB (root p) -> cdepth p' = cdepth p -> lineStart p' = lineStart p -> source p' = source p -> LC1 p -> LC1 p'.
Proof.
  intros E E2 E4 E6 H c' Ec' Oc'. rewrite E2 in Ec'. destruct (getAt_transfer _ _ _ _ E Ec') as (c & Ec & Ee).
  rewrite E4, E6. eapply la_transfer; [exact Ee|]. apply H; [exact Ec|]. rewrite <- (bend_transfer _ _ Ee). exact Oc'.
Qed.
Lemma LLI_transfer p p' : eraseB (root p') = eraseB (root p) -> cdepth p' = cdepth p -> lineStart p' = lineStart p -> source p' = source p -> LLI p -> LLI p'.
Proof.
  intros E E2 E4 E6 H c' Ec'. rewrite E2 in Ec'. destruct (getAt_transfer _ _ _ _ E Ec') as (c & Ec & Ee).
  rewrite E4, E6, (bkind_transfer _ _ Ee). destruct (H c Ec) as [S0|Wd]; [left; eapply la_transfer; eassumption|right; exact Wd].
Qed.

Lemma LApre_transfer p p' : eraseB (root p') = eraseB (root p) -> cdepth p' = cdepth p -> li p' = li p -> lineStart p' = lineStart p -> line p' = line p ->
  source p' = source p -> col p' = col p -> tabRem p' = tabRem p -> panicked p' = panicked p ->
  ccP p' -> LApre0 p -> LApre0 p' /\ containerKind p' = containerKind p.
Proof.
  intros E E2 E3 E4 E5 E6 E7 E8 E9 Hcc (A & B & C & H3 & HS & Hpb).
  assert (K : containerKind p' = containerKind p) by (apply containerKind_transfer; [exact E|exact E2|apply A|exact Hcc]).
  split; [|exact K]. split; [|split; [|split; [|split; [|split]]]].
  - unfold LBP, Mc. rewrite E3, E4. apply (LB_transfer _ p p'); assumption.
  - eapply LC1_transfer; eassumption.
  - rewrite K. intros Ea. eapply LLI_transfer; try eassumption. apply C, Ea.
  - destruct H3 as [[I0 I1] HP]. unfold N3, Itab. rewrite E3, E5, E7, E8, E9. split; [split; assumption|exact HP].
  - unfold LSp. rewrite E5. exact HS.
  - unfold PB. rewrite K. unfold isRestBlank, rest. rewrite E3, E5. exact Hpb.
Qed.

(* ---- a paragraph line is a well-shaped piece of the line ---- *)
Lemma lineOK_rest p a : curP p -> ST p -> LSp p -> li p <= a -> isBlankLine (from_ (line p) a) = false ->
  lineOK (source p) (lineStart p + a) (lineStart p + len (line p)).
Proof.
  intros C St HS Ha Hb. pose proof C as (C1 & C2).
  assert (Hlt : a < len (line p)).
  { destruct (Z.lt_ge_cases a (len (line p))) as [L|L]; [exact L|]. rewrite from_nil in Hb by lia. discriminate. }
  assert (Hat : forall i, 0 <= i -> at_ (source p) (lineStart p + i) = at_ (line p) i) by (intros i Hi; symmetry; apply line_at; assumption).
  split; [lia|]. split; [|split; [|left; apply ST_len; assumption]].
  - rewrite Hat by lia. destruct (isEOLz (at_ (line p) a)) eqn:Ee; [|reflexivity]. exfalso.
    assert (Hall : isBlankLine (from_ (line p) a) = true).
    { unfold isBlankLine. apply forallb_forall. intros x Hx. apply In_nth with (d := 0) in Hx. destruct Hx as (k & Hk & <-).
      assert (Hk' : Z.of_nat k < len (from_ (line p) a)) by (unfold len; lia). rewrite len_from in Hk' by lia.
      pose proof (at_from (line p) a (Z.of_nat k) ltac:(lia) ltac:(lia)) as Hf. unfold at_ in Hf at 1.
      destruct (Z.ltb_spec (Z.of_nat k) 0); [lia|]. rewrite Nat2Z.id in Hf. rewrite Hf.
      pose proof (eolEnd_tail _ HS a ltac:(lia) Ee (a + Z.of_nat k) ltac:(lia)) as He.
      unfold isEOLz in He. unfold isSpaceTabOrLineEnding. apply orb_true_iff in He. destruct He as [He|He]; rewrite He; rewrite ?orb_true_r; reflexivity. }
    congruence.
  - intros q Hq Eq. replace q with (lineStart p + (q - lineStart p)) in Eq by lia. rewrite Hat in Eq by lia.
    destruct (HS (q - lineStart p) ltac:(lia) Eq) as [E|(E1 & E2 & E3)]; [left; lia|right].
    split; [lia|]. split.
    + replace q with (lineStart p + (q - lineStart p)) by lia. rewrite Hat by lia. exact E2.
    + replace (lineStart p + len (line p) - 1) with (lineStart p + (len (line p) - 1)) by lia. rewrite Hat by lia. exact E3.
Qed.

Lemma acceptsLines_leaf k : acceptsLines k = true -> isLeafK k = true.
Proof.
  unfold acceptsLines. intros H0. rewrite !orb_true_iff in H0. destruct H0 as [[[[H|H]|H]|H]|H]; apply Z.eqb_eq in H; subst k; reflexivity.
Qed.
Lemma isCode_notPara k : isCode k = true -> isParaK k = false.
Proof. unfold isCode. rewrite orb_true_iff. intros [H|H]; apply Z.eqb_eq in H; subst k; reflexivity. Qed.

Lemma LW_go q K : LBP q -> ckind q K -> containerKind q = K -> isLeafK K = true -> LSp q ->
  (isParaK K = true -> isBlankLine (from_ (line q) (li q)) = false) ->
  LW (let k := containerKind q in
      let inlineKind := if isCode k then TextKind else if k =? HTMLBlockKind then RawHTMLKind else UnparsedKind in
      let q' := updCont q (fun b => set_bik b (bik b ++ [mkI inlineKind (lineStart q + li q) (lineStart q + len (line q))])) in
      if isCode k && negb (hasByteSuffixEOL (line q')) then
        updCont q' (fun b => set_bik b (bik b ++ [mkI SoftLineBreakKind (lineStart q' + len (line q')) (lineStart q' + len (line q'))]))
      else q').
Proof.
  intros HB Hk EK Hl HS Hnb. cbv zeta. rewrite EK. pose proof HB as ((A1 & A2) & St & _).
  set (H := lineStart q + len (line q)).
  set (ik := if isCode K then TextKind else if K =? HTMLBlockKind then RawHTMLKind else UnparsedKind).
  set (u := mkI ik (lineStart q + li q) H).
  set (q' := updCont q _).
  assert (Hu : eok (source q) K u).
  { split; [|split; [|apply lvOK_kidless; [reflexivity|unfold u, mkI, H; cbn [istart iend]; lia]]].
    - intros Ei. exfalso. unfold u, mkI, ik in Ei. cbn [ikind] in Ei. destruct (isCode K); [discriminate|]. destruct (K =? HTMLBlockKind); discriminate.
    - intros Ep. right. unfold u, mkI, ik. cbn [ikind istart iend].
      assert (Ec : isCode K = false) by (destruct (isCode K) eqn:Ec; [rewrite (isCode_notPara K Ec) in Ep; discriminate|reflexivity]).
      assert (Eh : (K =? HTMLBlockKind) = false).
      { unfold isParaK in Ep. apply orb_true_iff in Ep. destruct Ep as [Ep|Ep]; apply Z.eqb_eq in Ep; rewrite Ep; reflexivity. }
      rewrite Ec, Eh. split; [reflexivity|]. apply lineOK_rest; [split; assumption|exact St|exact HS|lia|apply Hnb, Ep]. }
  assert (Hni : isParaK K = true -> ikind u <> IndentKind).
  { intros _. unfold u, mkI, ik. cbn [ikind]. destruct (isCode K); [discriminate|]. destruct (K =? HTMLBlockKind); discriminate. }
  assert (Hq' : LB H q').
  { apply (fun h1 h2 h3 h4 h5 => LB_add_entry (Mc q) H q u K HB Hk Hl h1 h2 h3 h4 h5 Hu Hni); unfold u, mkI, Mc, H; cbn [istart iend]; try lia; try (apply NT_empty; lia). }
  assert (Fin : forall r, LB H r -> lineStart r = lineStart q -> line r = line q -> LW r).
  { intros r (Ar & _ & Br & Cr & _) E1 E2. split; [rewrite E1; exact A1|]. split; [rewrite E1, E2; exact Br|left; apply (Cr O); [lia|reflexivity]]. }
  destruct (isCode K && negb (hasByteSuffixEOL (line q'))) eqn:Ecode; [|apply (Fin q' Hq'); reflexivity].
  apply andb_true_iff in Ecode. destruct Ecode as [Ecode _].
  apply (Fin _); [|reflexivity|reflexivity].
  apply (LB_add_entry H H q' _ K Hq'); [apply ckind_updCont; [intros b; apply bkind_set_bik|exact Hk]|exact Hl| | | | | | |];
    unfold mkI, H; cbn [istart iend lineStart line updCont withRoot setLP q']; try lia; try (apply NT_empty; lia).
  - split; [cbn [ikind]; discriminate|split; [rewrite (isCode_notPara K Ecode); discriminate|apply lvOK_kidless; [reflexivity|cbn [istart iend]; lia]]].
  - intros _. cbn [ikind]. discriminate.
Qed.

Lemma blank_trim l : isBlankLine l = false -> isBlankLine (trimLeftSpTab l) = false.
Proof.
  induction l as [|c r IH]; [discriminate|]. cbn [trimLeftSpTab]. destruct (isSpTab c) eqn:Ec; [|tauto].
  intros H. apply IH. unfold isBlankLine in *. cbn [forallb] in H. unfold isSpTab in Ec. unfold isSpaceTabOrLineEnding in H.
  apply orb_true_iff in Ec. destruct Ec as [Ec|Ec]; rewrite Ec in H; rewrite ?orb_true_r in H; exact H.
Qed.

Lemma LW_of_LBP_nt p : LBP p -> NTl p (li p) (len (line p)) -> LW p.
Proof.
  intros (A & St & B & C & _) Hn. split; [apply A|]. split; [|left; apply (C O); [lia|reflexivity]]. destruct A as (A1 & A2).
  eapply la_mono; [| |exact B]; [unfold Mc; lia|]. unfold Mc. apply NTl_NT; [split; assumption|exact St|lia|exact Hn].
Qed.

Lemma li_consume_tab q : curP q -> li q < len (line q) -> at_ (line q) (li q) = 9 -> 0 < tabRem q -> li (consumeIndent q (tabRem q)) = li q + 1.
Proof.
  intros (A & B) Hl H9 Ht. unfold consumeIndent. cbn [consumeIndent_loop].
  destruct (Z.leb_spec (tabRem q) 0); [lia|]. cbv zeta.
  set (p0 := if state q =? stOpening then withState q stOpenMatched else q).
  assert (E : li p0 = li q /\ line p0 = line q /\ tabRem p0 = tabRem q) by (unfold p0; destruct (_ =? _); repeat split).
  destruct E as (E1 & E2 & E3). rewrite E1, E2, E3, H9.
  destruct (Z.ltb_spec (li q) (len (line q))); [|lia]. cbn [andb Z.eqb Pos.eqb]. rewrite Z.ltb_irrefl.
  replace (tabRem q - tabRem q) with 0 by lia.
  destruct (length (line q)); cbn [consumeIndent_loop]; [reflexivity|]. destruct (Z.leb_spec 0 0); [reflexivity|lia].
Qed.

(* a paragraph line that starts inside a tab: the Indent entry and the text entry after it are accounted for together *)
Lemma set_bik_twice b v w : set_bik (set_bik b v) w = set_bik b w. Proof. destruct b; reflexivity. Qed.
Lemma para_leaf K : isParaK K = true -> isLeafK K = true.
Proof. unfold isParaK, isLeafK. intros H. apply orb_true_iff in H. destruct H as [E|E]; rewrite E; rewrite ?orb_true_r; reflexivity. Qed.
Lemma LW_tab_para p2 r : LBP p2 -> isParaK (containerKind p2) = true -> LSp p2 -> li p2 < len (line p2) -> at_ (line p2) (li p2) = 9 ->
  0 < tabRem p2 < 4 -> isBlankLine (from_ (line p2) (li p2 + 1)) = false ->
  root r = updAt (cdepth p2) (fun b => set_bik b (bik b ++ [Inl IndentKind (lineStart p2 + li p2) (lineStart p2 + li p2 + 1) (tabRem p2) [] []])) (root p2) ->
  container r = container p2 -> source r = source p2 -> lineStart r = lineStart p2 -> line r = line p2 -> li r = li p2 + 1 ->
  LW (updCont r (fun b => set_bik b (bik b ++ [mkI UnparsedKind (lineStart r + li r) (lineStart r + len (line r))]))).
Proof.
  intros HB Ep HS T1 T2 T3 Hnb Er Ec Es El Eln Eli. pose proof HB as (A & St & B & C & D). pose proof A as (A1 & A2).
  set (u := Inl IndentKind (lineStart p2 + li p2) (lineStart p2 + li p2 + 1) (tabRem p2) [] []) in *.
  set (H := lineStart p2 + len (line p2)).
  set (v := mkI UnparsedKind (lineStart p2 + li p2 + 1) H).
  assert (Ecd : cdepth r = cdepth p2) by (unfold cdepth; rewrite Ec; reflexivity).
  assert (Hroot : root (updCont r (fun b => set_bik b (bik b ++ [mkI UnparsedKind (lineStart r + li r) (lineStart r + len (line r))]))) =
                  updAt (cdepth p2) (fun b => set_bik b (bik b ++ [u; v])) (root p2)).
  { cbn [root updCont withRoot setLP]. rewrite Ecd, Er, updAt_fuse. apply updAt_ext. intros x.
    rewrite bik_set_bik, set_bik_twice, <- app_assoc. cbn [app]. rewrite El, Eli, Eln. unfold v, H. replace (lineStart p2 + (li p2 + 1)) with (lineStart p2 + li p2 + 1) by lia. reflexivity. }
  assert (Hbyte : NT (source p2) (Mc p2) (Mc p2 + 1)).
  { intros x Hx. unfold Mc in *. replace x with (lineStart p2 + li p2) by lia. rewrite <- line_at by (try assumption; lia). rewrite T2. reflexivity. }
  destruct (la_updAt_at2 (source p2) (Mc p2) H (fun b => set_bik b (bik b ++ [u; v])) ltac:(unfold Mc, H; lia) (cdepth p2) (root p2) ltac:(apply D) B ltac:(apply D)) as (R1 & R2 & R3).
  { intros j y Hj Ey. apply (C j y Hj Ey). }
  { intros x Ex Sx. split; [|split; [apply bstart_set_bik|apply bend_set_bik]].
    pose proof (containerKind_at p2 x Ex) as Kx. rewrite Kx in Ep.
    apply (la_add_ik2 (source p2) (Mc p2) H x u v Sx).
    - apply (C (cdepth p2) x); [lia|exact Ex].
    - apply para_leaf, Ep.
    - apply leaf_no_kids; [eapply cc_getAt; [apply D|exact Ex]|apply leafK_not_cont, para_leaf, Ep].
    - unfold u, Mc. cbn [istart]. lia.
    - unfold u, Mc. cbn [istart]. apply NT_empty. lia.
    - unfold u. cbn [istart iend]. lia.
    - unfold u, v, mkI. cbn [istart iend]. reflexivity.
    - unfold v, mkI, H. cbn [istart iend]. lia.
    - unfold v, mkI. cbn [iend]. lia.
    - unfold v, mkI. cbn [iend]. apply NT_empty. lia.
    - split; [intros _; exact Hbyte|]. split; [|apply lvOK_kidless; [reflexivity|unfold u; cbn [istart iend]; lia]]. intros _. left. unfold u. cbn [ikind istart iend iindent]. split; [reflexivity|split; lia].
    - split; [intros Ei; discriminate Ei|]. split; [|apply lvOK_kidless; [reflexivity|unfold v, mkI, H; cbn [istart iend]; lia]]. intros _. right. split; [reflexivity|]. unfold v, mkI, H. cbn [istart iend].
      replace (lineStart p2 + li p2 + 1) with (lineStart p2 + (li p2 + 1)) by lia. apply lineOK_rest; [exact A|exact St|exact HS|lia|exact Hnb].
    - unfold v, mkI. cbn [ikind]. discriminate. }
  unfold LW. cbn [lineStart source line updCont withRoot setLP]. rewrite Hroot, El, Es, Eln. fold H. split; [exact A1|]. split; [exact R1|].
  left. rewrite R3. apply (C O); [lia|reflexivity].
Qed.

Lemma addLineText_okL p : LApre p -> LW (addLineText p).
Proof.
  intros [HA Hso]. unfold addLineText. cbv zeta.
  set (p1 := if isRestBlank p then _ else p).
  assert (H1 : LApre0 p1 /\ containerKind p1 = containerKind p /\ li p1 = li p /\ line p1 = line p /\ state p1 = state p).
  { unfold p1. destruct (isRestBlank p); [|tauto]. change (updCont p _) with (updCont p fblast).
    destruct (LApre_transfer p (updCont p fblast)) as [T1 T2]; try reflexivity; try tauto.
    - cbn [root updCont withRoot setLP]. apply erase_updAt, erase_fblast.
    - apply ccP_updCont; [apply HA|]. intros b _ Hb. unfold fblast. destruct (lastBlock b) as [c|] eqn:El; [|tauto]. split; [|apply bkind_set_lastBlocks].
      eapply cc_set_lastBlocks; [exact Hb|exact El|]. constructor; [|constructor].
      rewrite cc_set_blast, bkind_set_blast. split; [eapply cc_lastBlock; eassumption|apply compat_refl]. }
  destruct H1 as (H1 & K1 & Li1 & Ln1 & St1).
  set (llb := isRestBlank p && _).
  set (p2 := withRoot p1 (setLastBlankUpTo (cdepth p1) llb (root p1))).
  assert (H2 : LApre0 p2 /\ containerKind p2 = containerKind p1).
  { apply LApre_transfer; try reflexivity.
    - cbn [root withRoot setLP]. apply erase_setLastBlankUpTo.
    - destruct H1 as ((_ & _ & _ & _ & (A & B & C)) & _). unfold p2, ccP, wf, cdepth. cbn [root container withRoot setLP]. fold (cdepth p1).
      destruct (cc_setLastBlankUpTo llb (cdepth p1) (root p1) (cdepth p1) B C) as (A' & B' & C').
      split; [rewrite B'; exact A|split; [exact A'|exact C']].
    - exact H1. }
  destruct H2 as [(HB2 & C12 & L2 & H32 & HS2 & Pb2) K2].
  change (bkind (contBlock p1)) with (containerKind p1).
  pose proof HB2 as (Cp2 & St2 & _). pose proof (proj1 H32) as Hi2.
  assert (Er : isRestBlank p2 = isRestBlank p) by (unfold isRestBlank, rest; change (li p2) with (li p1); change (line p2) with (line p1); rewrite Li1, Ln1; reflexivity).
  destruct (acceptsLines (containerKind p1)) eqn:Ea.
  - pose proof (acceptsLines_leaf _ Ea) as Hleaf.
    assert (Hnb : isParaK (containerKind p2) = true -> isBlankLine (rest p2) = false).
    { intros Ep. apply Pb2. unfold isParaK in Ep. apply orb_true_iff in Ep. destruct Ep as [Ep|Ep]; apply Z.eqb_eq in Ep; [exact Ep|].
      exfalso. rewrite <- K2, Ep in Ea. discriminate. }
    destruct ((li p2 <? len (line p2)) && (at_ (line p2) (li p2) =? 9) && (0 <? tabRem p2) && (tabRem p2 <? 4)) eqn:Et.
    + apply andb_true_iff in Et. destruct Et as [Et T4]. apply andb_true_iff in Et. destruct Et as [Et T3]. apply andb_true_iff in Et. destruct Et as [T1 T2].
      apply Z.ltb_lt in T1. apply Z.eqb_eq in T2. apply Z.ltb_lt in T3. apply Z.ltb_lt in T4.
      set (u := Inl IndentKind (lineStart p2 + li p2) (lineStart p2 + li p2 + 1) (tabRem p2) [] []).
      set (q1 := updCont p2 (fun b => set_bik b (bik b ++ [u]))).
      assert (Hbyte : NT (source p2) (Mc p2) (Mc p2 + 1)).
      { intros x Hx. unfold Mc in *. replace x with (lineStart p2 + li p2) by lia. rewrite <- line_at by (try assumption; apply Cp2). rewrite T2. reflexivity. }
      destruct (isParaK (containerKind p2)) eqn:Epk.
      { (* a paragraph *)
        pose proof (li_consume_tab q1 ltac:(exact Cp2) T1 T2 T3) as Hli. change (tabRem q1) with (tabRem p2) in Hli. change (li q1) with (li p2) in Hli.
        set (r := consumeIndent q1 (tabRem p2)) in *.
        pose proof (cstep_consumeIndent q1 (tabRem p2)) as Hcr. fold r in Hcr. destruct Hcr as ((R1 & R2) & (R3 & R4 & R5) & _).
        assert (Kr : containerKind r = containerKind p2).
        { unfold containerKind, contBlock, cdepth. rewrite R1, R2. change (container q1) with (container p2). cbn [root q1 updCont withRoot setLP]. fold (cdepth p2).
          rewrite getAt_updAt_same. destruct (getAt (cdepth p2) (root p2)); [cbn; apply bkind_set_bik|reflexivity]. }
        cbv zeta. change (consumeIndent q1 (tabRem q1)) with r. rewrite Kr.
        assert (Ec : isCode (containerKind p2) = false) by (destruct (isCode (containerKind p2)) eqn:Ec; [rewrite (isCode_notPara _ Ec) in Epk; discriminate|reflexivity]).
        assert (Eh : (containerKind p2 =? HTMLBlockKind) = false).
        { unfold isParaK in Epk. apply orb_true_iff in Epk. destruct Epk as [E|E]; apply Z.eqb_eq in E; rewrite E; reflexivity. }
        rewrite Ec, Eh. cbn [andb].
        apply (LW_tab_para p2 r HB2 Epk HS2 T1 T2 ltac:(lia)).
        - specialize (Hnb eq_refl). unfold rest in Hnb. rewrite (from_cons (line p2) (li p2)) in Hnb by (try apply Cp2; lia). rewrite T2 in Hnb. exact Hnb.
        - rewrite R1. reflexivity.
        - rewrite R2. reflexivity.
        - rewrite R5. reflexivity.
        - rewrite R3. reflexivity.
        - rewrite R4. reflexivity.
        - exact Hli. }
      assert (Hq1 : LB (Mc p2 + 1) q1).
      { apply (LB_add_entry (Mc p2) (Mc p2 + 1) p2 u (containerKind p2) HB2 (ckind_self p2)); [rewrite K2; exact Hleaf| | | | | | |];
          unfold u, Mc; cbn [istart iend]; try lia; try (apply NT_empty; lia).
        - split; [intros _; exact Hbyte|split; [intros E; rewrite Epk in E; discriminate E|apply lvOK_kidless; [reflexivity|cbn [istart iend]; lia]]].
        - intros E. rewrite Epk in E. discriminate E. }
      pose proof (li_consume_tab q1 ltac:(apply Hq1) T1 T2 T3) as Hli. change (tabRem q1) with (tabRem p2) in Hli. change (li q1) with (li p2) in Hli.
      set (r := consumeIndent q1 (tabRem p2)) in *.
      pose proof (cstep_consumeIndent q1 (tabRem p2)) as Hcr. fold r in Hcr.
      assert (HBr : LBP r).
      { eapply (LB_cstep (Mc p2 + 1) (Mc r)); [exact Hcr|exact Hq1| |].
        - destruct (cstep_Mc q1 r Hcr ltac:(apply Hq1)) as (_ & _ & E4 & _). unfold Mc. rewrite E4, Hli. change (lineStart q1) with (lineStart p2). lia.
        - destruct (cstep_Mc q1 r Hcr ltac:(apply Hq1)) as (_ & _ & E4 & _). unfold Mc. rewrite E4, Hli. change (lineStart q1) with (lineStart p2). apply NT_empty. lia. }
      destruct Hcr as ((R1 & R2) & (R3 & R4 & R5) & _).
      assert (Kr : containerKind r = containerKind p2).
      { unfold containerKind, contBlock, cdepth. rewrite R1, R2. change (container q1) with (container p2). cbn [root q1 updCont withRoot setLP]. fold (cdepth p2).
        rewrite getAt_updAt_same. destruct (getAt (cdepth p2) (root p2)); [cbn; apply bkind_set_bik|reflexivity]. }
      apply (LW_go r (containerKind r)); [exact HBr|apply ckind_self|reflexivity|rewrite Kr, K2; exact Hleaf|apply (LSp_env p2); [exact R4|exact HS2]|].
      rewrite Kr. intros Ep. rewrite Epk in Ep. discriminate Ep.
    + apply (LW_go p2 (containerKind p2)); [exact HB2|apply ckind_self|reflexivity|rewrite K2; exact Hleaf|exact HS2|exact Hnb].
  - destruct (negb (isRestBlank p)) eqn:Enb.
    + apply negb_true_iff in Enb. rewrite <- Er in Enb.
      assert (Lp : LLI p2) by (apply L2; rewrite K2; exact Ea).
      assert (Hs2 : True) by exact I.
      set (q := openBlock p2 ParagraphKind).
      assert (Aq : LOP q) by (apply LOP_openBlock_ns; [split; assumption|discriminate|apply LLI_pre; [apply HB2|exact Lp|discriminate]]).
      pose proof (curE_openBlock p2 ParagraphKind) as Eq. fold q in Eq.
      destruct (curE_facts _ _ Eq) as (F1 & F2 & F3 & F4 & F5 & F6 & F7 & F8 & F9).
      pose proof (curP_curE _ _ Eq Cp2) as Cq. pose proof (Itab_curE _ _ Eq Hi2) as Hiq.
      destruct (consume_ind q Cq Hiq) as (G1 & G2 & G3 & G4 & G5).
      set (r := consumeIndent q (indent q)) in *.
      pose proof (ntstep_consumeIndent q (indent q) Cq) as Nr. fold r in Nr.
      assert (HBr : LBP r) by (eapply LBP_ntstep; [exact Nr|apply Aq]).
      assert (So2 : st_open p2).
      { assert (Es : state p2 = state p) by (change (state p2) with (state p1); exact St1). unfold st_open. rewrite Es. apply Hso. rewrite <- K1. exact Ea. }
      pose proof (ckind_openBlock p2 ParagraphKind So2) as Kq. fold q in Kq.
      destruct Nr as [Hcr Hnr]. destruct Hcr as ((R1 & R2) & (R3 & R4 & R5) & _).
      assert (Kr : ckind r ParagraphKind) by (eapply ckind_same; [split; eassumption|exact Kq]).
      apply (LW_go r ParagraphKind); [exact HBr|exact Kr|apply containerKind_of; [apply HBr|exact Kr]|reflexivity|apply (LSp_env p2); [congruence|exact HS2]|].
      intros _. rewrite G1, G2. rewrite <- (bai_from q Cq). unfold bytesAfterIndent.
      apply blank_trim. rewrite F5. exact Enb.
    + apply negb_false_iff in Enb. rewrite <- Er in Enb.
      apply LW_of_LBP_nt; [exact HB2|apply restBlank_NTl; [exact Cp2|exact Enb]].
Qed.

