(* EmphTok.v -- layer (b) of C11: the tokeniser loop of Inl3e.v on a line made of delimiter runs and text segments produces
   one text node per token and one delimiter-stack entry per run, with the flags and the length that the spec assigns. *)
From Coq Require Import List ZArith Lia Bool.
Import ListNotations.
Require Import Base Tables Utf8 Tree Rdr Link Collect Html Recog LP Rules Starts Driver Inl3a Inl3b Inl3c Inl3d Inl3e Render SliceBase SlicePara SliceText.
Require Import EmphSpec EmphFlags.
Require Emph.
Open Scope Z_scope.

(* ---------------------------------------------------------------------------------------------- *)
(* concrete stack entry of an abstract delimiter; concrete text node of a token                    *)
(* ---------------------------------------------------------------------------------------------- *)
Definition conc (d : Emph.delim) : delim :=
  {| d_typ := if Emph.dstar d then tStar else tUnder;
     d_flags := fActive + ((if Emph.dopen d then fOpener else 0) + (if Emph.dclos d then fCloser else 0));
     d_n := Z.of_nat (Emph.dn d); d_node := Z.of_nat (Emph.did d) + 1 |}.
Definition textPN (id s e : Z) : pn := PN id TextKind s e 0 [] [].
Definition flat (g : list seg) : bytes := flat_map segBytes g.
Fixpoint nodesOf (g : list seg) (id pos : Z) : list pn :=
  match g with
  | [] => []
  | x :: r => textPN id pos (pos + segLen x) :: nodesOf r (id + 1) (pos + segLen x)
  end.

(* well-formed token lists *)
Fixpoint wfSegs (g : list seg) : Prop :=
  match g with
  | [] => True
  | SD ch n :: r => isDelimB ch = true /\ (1 <= n)%nat /\ match r with SD ch' _ :: _ => ch' <> ch | _ => True end /\ wfSegs r
  | ST txt :: r => txt <> [] /\ forallb textA txt = true /\ noDbl txt = true /\ match r with ST _ :: _ => False | _ => True end /\ wfSegs r
  end.

(* ---------------------------------------------------------------------------------------------- *)
(* the tokeniser state on one Unparsed span [0, len L)                                             *)
(* ---------------------------------------------------------------------------------------------- *)
Definition IT (st : ist) (L : bytes) : Prop := isrc st = L /\ unp st = [mkI UnparsedKind 0 (len L)] /\ upos st = 0.
Lemma IT_spanEnd st L : IT st L -> spanEnd st = len L.
Proof. intros (H1 & H2 & H3). unfold spanEnd. rewrite H2, H3. reflexivity. Qed.
Lemma IT_isLast st L : IT st L -> isLastSpan st = true.
Proof. intros (H1 & H2 & H3). unfold isLastSpan. rewrite H2, H3. reflexivity. Qed.
Lemma IT_inspan st L : IT st L -> (upos st <? len (unp st)) = true.
Proof. intros (H1 & H2 & H3). rewrite H2, H3. reflexivity. Qed.
Lemma IT_same st st' L : isrc st' = isrc st -> unp st' = unp st -> upos st' = upos st -> IT st L -> IT st' L.
Proof. intros E1 E2 E3 (H1 & H2 & H3). unfold IT. rewrite E1, E2, E3. tauto. Qed.

Lemma spanLen_pos s e : 0 <= s -> s < e -> spanLen s e = e - s.
Proof.
  intros H0 H1. unfold spanLen. destruct (Z.leb_spec 0 s); [|lia]. destruct (Z.leb_spec 0 e); [|lia].
  destruct (Z.leb_spec s e); [|lia]. reflexivity.
Qed.
Lemma spanLen_self s : spanLen s s = 0.
Proof. unfold spanLen. rewrite Z.sub_diag. destruct ((0 <=? s) && (0 <=? s) && (s <=? s)); reflexivity. Qed.

Lemma addNode_some st k s e kids : 0 <= s -> s < e ->
  addNode st k s e kids = (bumpId (setRk st (rk st ++ [PN (nid st) k s e 0 [] kids])), nid st).
Proof.
  intros H0 H1. unfold addNode. rewrite (spanLen_pos s e H0 H1). destruct (Z.eqb_spec (e - s) 0); [lia|]. reflexivity.
Qed.
Lemma addText_none st s : addText st s s = st.
Proof. unfold addText, addNode. rewrite spanLen_self. reflexivity. Qed.
Lemma addText_some st s e : 0 <= s -> s < e -> addText st s e = bumpId (setRk st (rk st ++ [textPN (nid st) s e])).
Proof. intros H0 H1. unfold addText. rewrite (addNode_some st TextKind s e [] H0 H1). reflexivity. Qed.

(* the pending plain text, as an optional token *)
Definition optST (mid : bytes) : list seg := match mid with [] => [] | _ => [ST mid] end.
Lemma optST_cons c r : optST (c :: r) = [ST (c :: r)]. Proof. reflexivity. Qed.

Lemma addText_mid st L a mid : IT st L -> 0 <= a ->
  let st1 := addText st a (a + len mid) in
  IT st1 L /\ rk st1 = rk st ++ nodesOf (optST mid) (nid st) a /\ nid st1 = nid st + len (optST mid) /\ stk st1 = stk st.
Proof.
  intros HI Ha. destruct mid as [|c r].
  - cbn zeta. rewrite sl_len_nil, Z.add_0_r, addText_none. cbn [optST nodesOf]. rewrite app_nil_r, sl_len_nil, Z.add_0_r. tauto.
  - cbn zeta. pose proof (sl_len_nonneg r). rewrite addText_some by (try rewrite sl_len_cons; lia).
    split; [eapply IT_same; [| | |exact HI]; reflexivity|].
    cbn [rk bumpId setRk nid stk optST nodesOf segLen segBytes]. repeat split.
Qed.

(* ---------------------------------------------------------------------------------------------- *)
(* skipping a text segment                                                                         *)
(* ---------------------------------------------------------------------------------------------- *)
Lemma letter_range c : isLetterB c = true -> (65 <= c <= 90) \/ (97 <= c <= 122).
Proof.
  unfold isLetterB. intros H. apply orb_true_iff in H.
  destruct H as [H|H]; apply andb_true_iff in H; destruct H as [A B]; apply Z.leb_le in A; apply Z.leb_le in B; lia.
Qed.
Lemma slicePunct_cases c : slicePunct c = true -> In c [46; 44; 59; 58; 40; 41; 34; 39].
Proof.
  unfold slicePunct. intros H. apply existsb_exists in H. destruct H as (x & Hx & E). apply Z.eqb_eq in E. subst x. exact Hx.
Qed.
Lemma textA_cases c : textA c = true -> c = 32 \/ (c <> 32 /\ inertByte c = true).
Proof.
  unfold textA. intros H. apply orb_true_iff in H. destruct H as [H|H]; [apply orb_true_iff in H; destruct H as [H|H]|].
  - right. apply letter_range in H. split; [lia|]. unfold inertByte. cbn [existsb].
    repeat match goal with |- context [c =? ?k] => destruct (Z.eqb_spec c k); [exfalso; lia|] end. reflexivity.
  - left. apply Z.eqb_eq. exact H.
  - right. apply slicePunct_cases in H. cbn [In] in H.
    repeat (destruct H as [H|H]; [subst c; split; [lia|reflexivity]|]). contradiction.
Qed.
Lemma textA_range c : textA c = true -> 32 <= c < 128 /\ c <> 42 /\ c <> 95.
Proof.
  unfold textA. intros H. apply orb_true_iff in H. destruct H as [H|H]; [apply orb_true_iff in H; destruct H as [H|H]|].
  - apply letter_range in H. lia.
  - apply Z.eqb_eq in H. lia.
  - apply slicePunct_cases in H. cbn [In] in H. repeat (destruct H as [H|H]; [subst c; lia|]). contradiction.
Qed.

Lemma iloop_skip : forall txt pre rest L fuel st ps,
  forallb textA txt = true -> noDbl txt = true -> hd 0 rest <> 32 -> rest <> [] ->
  L = pre ++ txt ++ rest -> IT st L -> (length txt <= fuel)%nat ->
  iloop fuel st (len pre) ps = iloop (fuel - length txt) st (len pre + len txt) ps.
Proof.
  induction txt as [|c r IH]; intros pre rest L fuel st ps Ht Hd Hr Hne HL HI Hf.
  - cbn [length]. rewrite Nat.sub_0_r, sl_len_nil, Z.add_0_r. reflexivity.
  - cbn [forallb] in Ht. apply andb_true_iff in Ht. destruct Ht as [Hc Ht].
    cbn [noDbl] in Hd. apply andb_true_iff in Hd. destruct Hd as [Hd1 Hd].
    cbn [length] in Hf. destruct fuel as [|f]; [lia|].
    pose proof (sl_len_nonneg pre) as Hp0. pose proof (sl_len_nonneg r) as Hr0. pose proof (sl_len_nonneg rest) as Hrest0.
    assert (Hlen : len L = len pre + (len r + 1) + len rest) by (rewrite HL; rewrite !sl_len_app, sl_len_cons; lia).
    assert (Hrest1 : 0 < len rest) by (destruct rest; [contradiction|rewrite sl_len_cons; pose proof (sl_len_nonneg rest); lia]).
    rewrite iloop_S. rewrite (IT_inspan st L HI), (IT_spanEnd st L HI).
    destruct (Z.ltb_spec (len pre) (len L)); [|lia]. cbn [andb].
    assert (Hat : at_ (isrc st) (len pre) = c).
    { destruct HI as (Hsrc & _). rewrite Hsrc, HL. cbn [app]. apply sl_at_app_len. }
    assert (Hstep : istep st (len pre) ps = (st, len pre + 1, ps)).
    { destruct (textA_cases c Hc) as [->|[N32 Hin]].
      - apply istep_space; [exact Hat|]. rewrite (IT_spanEnd st L HI). destruct HI as (Hsrc & _). rewrite Hsrc.
        assert (Hsub : sub L (len pre) (len L) = 32 :: r ++ rest).
        { rewrite HL. change (pre ++ (32 :: r) ++ rest) with (pre ++ [] ++ ((32 :: r) ++ rest)).
          replace (len pre) with (len pre + len (@nil Z)) at 1 by (rewrite sl_len_nil; lia). apply sub_to_end. }
        rewrite Hsub.
        assert (Hnext : exists x y, r ++ rest = x :: y /\ x <> 32).
        { destruct r as [|x r'].
          - destruct rest as [|x y]; [contradiction|]. exists x, y. split; [reflexivity|exact Hr].
          - exists x, (r' ++ rest). split; [reflexivity|]. cbn [hd] in Hd1. change (32 =? 32) with true in Hd1. cbn [andb] in Hd1.
            apply negb_true_iff in Hd1. apply Z.eqb_neq. exact Hd1. }
        destruct Hnext as (x & y & E & Nx). rewrite E. apply hlbs_single. exact Nx.
      - apply istep_inert. rewrite Hat. exact Hin. }
    rewrite Hstep.
    replace (len pre + 1) with (len (pre ++ [c])) by (rewrite sl_len_app; reflexivity).
    rewrite (IH (pre ++ [c]) rest L f st ps Ht Hd Hr Hne); [| |exact HI|lia].
    + cbn [length]. replace (S f - S (length r))%nat with (f - length r)%nat by lia.
      rewrite sl_len_app. change (len [c]) with 1. rewrite sl_len_cons. f_equal. lia.
    + rewrite HL. rewrite <- app_assoc. reflexivity.
Qed.

(* ---------------------------------------------------------------------------------------------- *)
(* one delimiter run                                                                               *)
(* ---------------------------------------------------------------------------------------------- *)
Lemma runEnd_repeat ch : forall m pre post fuel, hd 0 post <> ch -> post <> [] -> (m < fuel)%nat ->
  runEnd fuel (pre ++ repeat ch m ++ post) (len pre) (len (pre ++ repeat ch m ++ post)) ch = len pre + Z.of_nat m.
Proof.
  induction m as [|m IH]; intros pre post fuel Hp Hne Hf; (destruct fuel as [|f]; [lia|]); cbn [runEnd repeat app].
  - destruct post as [|x y]; [contradiction|]. rewrite sl_at_app_len. cbn [hd] in Hp.
    destruct (Z.eqb_spec x ch); [contradiction|]. rewrite andb_false_r. lia.
  - rewrite sl_at_app_len, Z.eqb_refl.
    pose proof (sl_len_nonneg pre). pose proof (sl_len_nonneg (repeat ch m ++ post)).
    assert (El : len (pre ++ ch :: repeat ch m ++ post) = len pre + (len (repeat ch m ++ post) + 1)) by (rewrite sl_len_app, sl_len_cons; reflexivity).
    destruct (Z.ltb_spec (len pre) (len (pre ++ ch :: repeat ch m ++ post))); [|lia].
    cbn [andb].
    replace (pre ++ ch :: repeat ch m ++ post) with ((pre ++ [ch]) ++ repeat ch m ++ post) by (rewrite <- app_assoc; reflexivity).
    replace (len pre + 1) with (len (pre ++ [ch])) by (rewrite sl_len_app; reflexivity).
    rewrite (IH (pre ++ [ch]) post f Hp Hne) by lia. rewrite sl_len_app. change (len [ch]) with 1. lia.
Qed.

Lemma len_repeat (ch : Z) n : len (repeat ch n) = Z.of_nat n.
Proof. unfold len. rewrite repeat_length. reflexivity. Qed.

Lemma flagWord_lf ch p : flagWord ch p (Some 10) = flagWord ch p None.
Proof. reflexivity. Qed.

Definition okB (l : bytes) : Prop := Forall (fun c => 0 <= c < 128 /\ c <> 12) l.
Lemma okB_lastO l : okB l -> asciiO (lastO l).
Proof.
  intros H. destruct (list_snoc_cases l) as [->|(p & c & ->)]; [exact I|]. rewrite lastO_snoc.
  apply Forall_app in H. destruct H as [_ H]. inversion H; subst. assumption.
Qed.
Lemma okB_headO l : okB l -> asciiO (headO l).
Proof. intros H. destruct l as [|c r]; [exact I|]. inversion H; subst. assumption. Qed.

(* the step of the tokeniser loop at the first byte of a run of m+1 bytes ch, with pending plain text from plainStart *)
Lemma istep_run st L pre m ch post ps nxt :
  IT st L -> L = pre ++ repeat ch (S m) ++ post -> isDelimB ch = true -> hd 0 post <> ch -> post <> [] ->
  okB pre -> asciiO (headO post) -> flagWord ch (lastO pre) (headO post) = flagWord ch (lastO pre) nxt ->
  0 <= ps <= len pre ->
  let st1 := addText st ps (len pre) in
  let e := len pre + Z.of_nat (S m) in
  let d := {| Emph.did := Z.to_nat (nid st1 - 1); Emph.dstar := ch =? 42; Emph.dn := S m; Emph.dcur := S m;
              Emph.dopen := canOpen ch (lastO pre) nxt; Emph.dclos := canClose ch (lastO pre) nxt |} in
  1 <= nid st1 ->
  istep st (len pre) ps =
  (setStk (bumpId (setRk st1 (rk st1 ++ [textPN (nid st1) (len pre) e]))) (stk st1 ++ [conc d]), e, e).
Proof.
  intros HI HL Hd Hp Hne Hpre Hpost Hfw Hps st1 e d Hnid.
  assert (Hat : at_ L (len pre) = ch) by (rewrite HL; cbn [repeat app]; apply sl_at_app_len).
  assert (HI1 : IT st1 L).
  { unfold st1, addText, addNode. destruct (spanLen ps (len pre) =? 0); cbn [fst]; [exact HI|].
    eapply IT_same; [| | |exact HI]; reflexivity. }
  unfold istep. cbv zeta. destruct HI as (Hsrc & Hunp & Hupos). rewrite Hsrc, Hat.
  unfold isDelimB in Hd. rewrite Hd. cbv iota. fold st1.
  unfold parseDelimiterRun. cbv zeta. rewrite (IT_spanEnd st1 L HI1). destruct HI1 as (Hsrc1 & Hunp1 & Hupos1). rewrite Hsrc1, Hat.
  assert (He : runEnd (length L) L (len pre + 1) (len L) ch = e).
  { rewrite HL. cbn [repeat]. change (pre ++ (ch :: repeat ch m) ++ post) with (pre ++ [ch] ++ repeat ch m ++ post).
    rewrite app_assoc. replace (len pre + 1) with (len (pre ++ [ch])) by (rewrite sl_len_app; reflexivity).
    rewrite (runEnd_repeat ch m (pre ++ [ch]) post _ Hp Hne).
    - unfold e. rewrite sl_len_app. change (len [ch]) with 1. lia.
    - rewrite !app_length, repeat_length. cbn [length]. lia. }
  rewrite He.
  pose proof (sl_len_nonneg pre) as Hp0.
  rewrite (addNode_some st1 TextKind (len pre) e []) by (unfold e; lia).
  assert (Hfl : emphasisFlags L (len pre) e = flagWord ch (lastO pre) nxt).
  { rewrite <- Hfw. rewrite HL. unfold e. rewrite <- len_repeat with (ch := ch).
    apply (emphasisFlags_spec pre (repeat ch (S m)) post ch (repeat ch m)); [reflexivity|apply okB_lastO; exact Hpre|exact Hpost]. }
  rewrite Hfl. f_equal. f_equal. cbn [stk bumpId setRk]. f_equal. f_equal.
  unfold conc, d. cbn [Emph.dstar Emph.dopen Emph.dclos Emph.dn Emph.did].
  rewrite (spanLen_pos (len pre) e) by (unfold e; lia).
  unfold flagWord. rewrite Z2Nat.id by lia.
  replace (e - len pre) with (Z.of_nat (S m)) by (unfold e; lia).
  replace (nid st1 - 1 + 1) with (nid st1) by lia. reflexivity.
Qed.

(* ---------------------------------------------------------------------------------------------- *)
(* the whole loop                                                                                  *)
(* ---------------------------------------------------------------------------------------------- *)
Lemma flat_cons x g : flat (x :: g) = segBytes x ++ flat g. Proof. reflexivity. Qed.
Lemma flat_optST mid : flat (optST mid) = mid.
Proof. destruct mid; [reflexivity|]. cbn [optST flat flat_map segBytes]. apply app_nil_r. Qed.
Lemma nodesOf_app : forall a b id pos, nodesOf (a ++ b) id pos = nodesOf a id pos ++ nodesOf b (id + len a) (pos + len (flat a)).
Proof.
  induction a as [|x a IH]; intros b id pos.
  - cbn [app nodesOf flat flat_map]. rewrite !sl_len_nil, !Z.add_0_r. reflexivity.
  - cbn [app nodesOf]. rewrite IH. cbn [app].
    replace (id + len (x :: a)) with (id + 1 + len a) by (rewrite sl_len_cons; lia).
    replace (pos + len (flat (x :: a))) with (pos + segLen x + len (flat a)) by (rewrite flat_cons, sl_len_app; unfold segLen; lia).
    reflexivity.
Qed.
Lemma last_app_ne (a b : bytes) : b <> [] -> last (a ++ b) 0 = last b 0.
Proof.
  intros Hb. destruct (list_snoc_cases b) as [->|(p & c & ->)]; [contradiction|]. rewrite app_assoc, !last_last. reflexivity.
Qed.
Lemma lastO_app_ne (a b : bytes) : b <> [] -> lastO (a ++ b) = Some (last b 0).
Proof.
  intros Hb. unfold lastO. destruct (a ++ b) eqn:E; [destruct a, b; try discriminate; contradiction|].
  rewrite <- E. rewrite last_app_ne by exact Hb. reflexivity.
Qed.
Lemma delimsOf_pend mid g idx pre0 :
  delimsOf (optST mid ++ g) idx (lastO pre0) = delimsOf g (idx + length (optST mid)) (lastO (pre0 ++ mid)).
Proof.
  destruct mid as [|c r].
  - cbn [optST app length]. rewrite Nat.add_0_r, app_nil_r. reflexivity.
  - rewrite optST_cons. cbn [app delimsOf length]. rewrite lastO_app_ne by discriminate.
    replace (idx + 1)%nat with (S idx) by lia. reflexivity.
Qed.
Lemma lastO_repeat (p : bytes) ch m : lastO (p ++ repeat ch (S m)) = Some ch.
Proof. rewrite lastO_app_ne by discriminate. f_equal. change (repeat ch (S m)) with (ch :: repeat ch m). rewrite repeat_cons. apply last_last. Qed.

Lemma isDelimB_cases ch : isDelimB ch = true -> ch = 42 \/ ch = 95.
Proof. unfold isDelimB. intros H. apply orb_true_iff in H. destruct H as [H|H]; apply Z.eqb_eq in H; tauto. Qed.

Lemma post_facts ch n g' : wfSegs (SD ch n :: g') ->
  let post := flat g' ++ [10] in
  hd 0 post <> ch /\ post <> [] /\ asciiO (headO post) /\ forall p, flagWord ch p (headO post) = flagWord ch p (firstByte g').
Proof.
  intros (Hd & Hn & Hnext & Hw). cbn zeta. apply isDelimB_cases in Hd.
  destruct g' as [|[ch' n'|txt] g''].
  - cbn [flat flat_map app hd headO firstByte]. split; [lia|]. split; [discriminate|]. split; [cbn; lia|]. intros p. apply flagWord_lf.
  - destruct Hw as (Hd' & Hn' & _). apply isDelimB_cases in Hd'. destruct n' as [|n']; [lia|].
    rewrite flat_cons. cbn [segBytes repeat app hd headO firstByte]. split; [exact Hnext|]. split; [discriminate|].
    split; [cbn; lia|]. reflexivity.
  - destruct Hw as (Hne & Ht & _). destruct txt as [|c r]; [contradiction|]. cbn [forallb] in Ht. apply andb_true_iff in Ht.
    destruct Ht as [Hc _]. apply textA_range in Hc. rewrite flat_cons. cbn [segBytes app hd headO firstByte].
    split; [lia|]. split; [discriminate|]. split; [cbn; lia|]. reflexivity.
Qed.
Lemma rest_facts g : wfSegs g -> match g with ST _ :: _ => False | _ => True end ->
  hd 0 (flat g ++ [10]) <> 32 /\ flat g ++ [10] <> [].
Proof.
  intros Hw Hg. destruct g as [|[ch n|txt] g']; [cbn; split; [lia|discriminate]| |contradiction].
  destruct Hw as (Hd & Hn & _). apply isDelimB_cases in Hd. destruct n as [|n]; [lia|]. rewrite flat_cons.
  cbn [segBytes repeat app hd]. split; [lia|discriminate].
Qed.
Lemma okB_text l : forallb textA l = true -> okB l.
Proof.
  intros H. unfold okB. apply Forall_forall. intros c Hc. rewrite forallb_forall in H. apply H in Hc. apply textA_range in Hc. lia.
Qed.
Lemma okB_repeat ch n : isDelimB ch = true -> okB (repeat ch n).
Proof.
  intros H. apply isDelimB_cases in H. unfold okB. apply Forall_forall. intros c Hc. apply repeat_spec in Hc. subst c. lia.
Qed.
Lemma okB_app a b : okB a -> okB b -> okB (a ++ b). Proof. intros. apply Forall_app. split; assumption. Qed.

Lemma tok_pend : forall g pre0 mid idx fuel st L,
  wfSegs g -> (mid = [] \/ (forallb textA mid = true /\ noDbl mid = true /\ match g with ST _ :: _ => False | _ => True end)) ->
  L = pre0 ++ mid ++ flat g ++ [10] -> okB pre0 -> IT st L -> nid st = Z.of_nat idx + 1 -> (length (flat g) < fuel)%nat ->
  exists st', iloop fuel st (len pre0 + len mid) (len pre0) = (st', len L) /\ IT st' L /\
    rk st' = rk st ++ nodesOf (optST mid ++ g) (nid st) (len pre0) /\
    stk st' = stk st ++ map conc (delimsOf (optST mid ++ g) idx (lastO pre0)) /\
    nid st' = nid st + len (optST mid ++ g).
Proof.
  induction g as [|x g' IH]; intros pre0 mid idx fuel st L Hw Hpend HL Hok HI Hnid Hfuel.
  - (* the line ending *)
    cbn [flat flat_map app] in HL. destruct fuel as [|f]; [cbn in Hfuel; lia|].
    pose proof (sl_len_nonneg pre0) as Hp0. pose proof (sl_len_nonneg mid) as Hm0.
    assert (Hlen : len L = len pre0 + len mid + 1) by (rewrite HL, !sl_len_app; change (len [10]) with 1; lia).
    rewrite iloop_S. rewrite (IT_inspan st L HI), (IT_spanEnd st L HI).
    destruct (Z.ltb_spec (len pre0 + len mid) (len L)); [|lia]. cbn [andb].
    assert (Hat : at_ (isrc st) (len pre0 + len mid) = 10).
    { destruct HI as (Hsrc & _). rewrite Hsrc, HL. apply at_mid. }
    rewrite (istep_lf st _ _ Hat (IT_isLast st L HI)).
    destruct (addText_mid st L (len pre0) mid HI Hp0) as (HI1 & Hrk1 & Hnid1 & Hstk1).
    exists (addText st (len pre0) (len pre0 + len mid)). split.
    { destruct f as [|f]; [cbn [iloop]; rewrite Hlen; reflexivity|].
      rewrite iloop_S. rewrite (IT_inspan _ L HI1), (IT_spanEnd _ L HI1).
      destruct (Z.ltb_spec (len pre0 + len mid + 1) (len L)); [lia|]. cbn [andb]. rewrite Hlen. reflexivity. }
    split; [exact HI1|]. rewrite app_nil_r. split; [exact Hrk1|]. split; [|exact Hnid1].
    rewrite Hstk1. destruct mid; cbn [optST delimsOf map]; rewrite app_nil_r; reflexivity.
  - destruct x as [ch n|txt].
    + (* a delimiter run *)
      pose proof (post_facts ch n g' Hw) as (Hp & Hne & Hpost & Hfw). destruct Hw as (Hd & Hn & Hnext & Hw').
      destruct n as [|m]; [lia|].
      set (pre := pre0 ++ mid). set (post := flat g' ++ [10]) in *.
      assert (HL' : L = pre ++ repeat ch (S m) ++ post).
      { rewrite HL. unfold pre, post. rewrite flat_cons. cbn [segBytes]. rewrite <- !app_assoc. reflexivity. }
      assert (Hokpre : okB pre).
      { unfold pre. apply okB_app; [exact Hok|]. destruct Hpend as [->|(Ht & _)]; [constructor|apply okB_text; exact Ht]. }
      assert (Hlp : len pre = len pre0 + len mid) by (unfold pre; apply sl_len_app).
      pose proof (sl_len_nonneg pre0) as Hp0. pose proof (sl_len_nonneg mid) as Hm0.
      destruct (addText_mid st L (len pre0) mid HI Hp0) as (HI1 & Hrk1 & Hnid1 & Hstk1).
      rewrite <- Hlp in HI1, Hrk1, Hnid1, Hstk1.
      destruct fuel as [|f]; [lia|].
      assert (HlenL : len L = len pre + Z.of_nat (S m) + len post).
      { rewrite HL', !sl_len_app, len_repeat. lia. }
      assert (Hpost1 : 0 < len post) by (unfold post; rewrite sl_len_app; change (len [10]) with 1; pose proof (sl_len_nonneg (flat g')); lia).
      rewrite iloop_S. rewrite (IT_inspan st L HI), (IT_spanEnd st L HI). rewrite <- Hlp.
      destruct (Z.ltb_spec (len pre) (len L)); [|lia]. cbn [andb].
      pose proof (sl_len_nonneg (optST mid)) as Ho0.
      rewrite (istep_run st L pre m ch post (len pre0) (firstByte g') HI HL' Hd Hp Hne Hokpre Hpost (Hfw _)) by lia.
      set (st1 := addText st (len pre0) (len pre)) in *.
      set (e := len pre + Z.of_nat (S m)).
      set (d := {| Emph.did := Z.to_nat (nid st1 - 1); Emph.dstar := ch =? 42; Emph.dn := S m; Emph.dcur := S m;
                   Emph.dopen := canOpen ch (lastO pre) (firstByte g'); Emph.dclos := canClose ch (lastO pre) (firstByte g') |}).
      set (st2 := setStk (bumpId (setRk st1 (rk st1 ++ [textPN (nid st1) (len pre) e]))) (stk st1 ++ [conc d])).
      assert (HI2 : IT st2 L) by (eapply IT_same; [| | |exact HI1]; reflexivity).
      set (idx2 := (idx + length (optST mid) + 1)%nat).
      destruct (IH (pre ++ repeat ch (S m)) [] idx2 f st2 L Hw' (or_introl eq_refl)) as (st' & Hrun & HI' & Hrk' & Hstk' & Hnid').
      { rewrite HL'. rewrite <- !app_assoc. reflexivity. }
      { apply okB_app; [exact Hokpre|apply okB_repeat; exact Hd]. }
      { exact HI2. }
      { unfold st2. cbn [nid setStk bumpId setRk]. rewrite Hnid1, Hnid. unfold idx2, len. lia. }
      { rewrite flat_cons, app_length in Hfuel. cbn [segBytes] in Hfuel. rewrite repeat_length in Hfuel. lia. }
      exists st'. rewrite sl_len_nil, Z.add_0_r, sl_len_app, len_repeat in Hrun. fold e in Hrun.
      split; [exact Hrun|]. split; [exact HI'|]. cbn [optST app] in Hrk', Hstk', Hnid'.
      split; [|split].
      * rewrite Hrk'. unfold st2. cbn [rk setStk bumpId setRk nid]. rewrite Hrk1. rewrite <- !app_assoc. f_equal.
        rewrite nodesOf_app, flat_optST. f_equal. cbn [nodesOf app]. unfold segLen. cbn [segBytes]. rewrite len_repeat.
        rewrite Hnid1, <- Hlp. fold e. f_equal. rewrite sl_len_app, len_repeat. fold e. reflexivity.
      * rewrite Hstk'. unfold st2. cbn [stk setStk]. rewrite Hstk1. rewrite <- app_assoc. f_equal.
        rewrite delimsOf_pend. fold pre. cbn [delimsOf map app]. f_equal.
        -- unfold d. f_equal. f_equal. rewrite Hnid1, Hnid. unfold len. lia.
        -- rewrite lastO_repeat. unfold idx2. replace (S (idx + length (optST mid))) with (idx + length (optST mid) + 1)%nat by lia. reflexivity.
      * rewrite Hnid'. unfold st2. cbn [nid setStk bumpId setRk]. rewrite Hnid1. rewrite !sl_len_app, sl_len_cons. lia.
    + (* a text segment: nothing is pending *)
      destruct Hw as (Hne & Ht & Hnd & Hnext & Hw').
      destruct Hpend as [->|(_ & _ & [])].
      pose proof (rest_facts g' Hw' Hnext) as (Hr32 & Hrne).
      rewrite sl_len_nil, Z.add_0_r. cbn [app] in HL. rewrite flat_cons in HL. cbn [segBytes] in HL. rewrite <- app_assoc in HL.
      rewrite flat_cons, app_length in Hfuel. cbn [segBytes] in Hfuel.
      rewrite (iloop_skip txt pre0 (flat g' ++ [10]) L fuel st (len pre0) Ht Hnd Hr32 Hrne HL HI) by lia.
      destruct (IH pre0 txt idx (fuel - length txt)%nat st L Hw') as (st' & Hrun & HI' & Hrk' & Hstk' & Hnid').
      { right. split; [exact Ht|]. split; [exact Hnd|exact Hnext]. }
      { exact HL. } { exact Hok. } { exact HI. } { exact Hnid. } { lia. }
      exists st'. split; [exact Hrun|]. split; [exact HI'|].
      destruct txt as [|c r]; [contradiction|]. rewrite optST_cons in *. cbn [optST app] in *. tauto.
Qed.

(* ---------------------------------------------------------------------------------------------- *)
(* segment produces well-formed token lists                                                        *)
(* ---------------------------------------------------------------------------------------------- *)
Lemma segment_flat : forall t, flat (segment t) = t.
Proof.
  induction t as [|c r IH]; [reflexivity|]. cbn [segment].
  destruct (isDelimB c).
  - destruct (segment r) as [|[ch n|txt] g] eqn:E.
    + cbn in IH. subst r. reflexivity.
    + destruct (Z.eqb_spec ch c) as [->|N].
      * rewrite flat_cons in *. cbn [segBytes repeat app] in *. rewrite IH. reflexivity.
      * rewrite flat_cons. cbn [segBytes repeat app]. rewrite IH. reflexivity.
    + rewrite flat_cons. cbn [segBytes repeat app]. rewrite IH. reflexivity.
  - destruct (segment r) as [|[ch n|txt] g] eqn:E.
    + cbn in IH. subst r. reflexivity.
    + rewrite flat_cons. cbn [segBytes app]. rewrite IH. reflexivity.
    + rewrite flat_cons in *. cbn [segBytes app] in *. rewrite IH. reflexivity.
Qed.

Lemma segment_wf : forall t, forallb inA t = true -> noDbl t = true -> wfSegs (segment t).
Proof.
  induction t as [|c r IH]; intros Ha Hd; [exact I|].
  cbn [forallb] in Ha. apply andb_true_iff in Ha. destruct Ha as [Hc Ha].
  cbn [noDbl] in Hd. apply andb_true_iff in Hd. destruct Hd as [Hd1 Hd].
  specialize (IH Ha Hd). pose proof (segment_flat r) as Hfl. cbn [segment].
  destruct (isDelimB c) eqn:Edc.
  - destruct (segment r) as [|[ch n|txt] g] eqn:E.
    + cbn. repeat split; try lia. exact Edc.
    + destruct (Z.eqb_spec ch c) as [->|N].
      * destruct IH as (A & B & C & D). cbn [wfSegs]. repeat split; try assumption. lia.
      * cbn [wfSegs]. split; [exact Edc|]. split; [lia|]. split; [exact N|]. exact IH.
    + cbn [wfSegs]. split; [exact Edc|]. split; [lia|]. split; [exact I|]. exact IH.
  - unfold inA in Hc. rewrite Edc in Hc. cbn [orb] in Hc.
    destruct (segment r) as [|[ch n|txt] g] eqn:E.
    + cbn [wfSegs]. split; [discriminate|]. cbn [forallb noDbl hd]. rewrite Hc. change (0 =? 32) with false.
      rewrite andb_false_r. repeat split.
    + cbn [wfSegs]. split; [discriminate|]. cbn [forallb noDbl hd]. rewrite Hc. change (0 =? 32) with false.
      rewrite andb_false_r. split; [reflexivity|]. split; [reflexivity|]. split; [exact I|]. exact IH.
    + destruct IH as (A & B & C & D & F). cbn [wfSegs]. split; [discriminate|]. cbn [forallb noDbl]. rewrite Hc, B, C.
      assert (Eh : hd 0 txt = hd 0 r).
      { rewrite <- Hfl, flat_cons. cbn [segBytes]. destruct txt; [contradiction|reflexivity]. }
      rewrite Eh, Hd1. repeat split; assumption.
Qed.

(* ---------------------------------------------------------------------------------------------- *)
(* parseInlines up to processEmphasis                                                              *)
(* ---------------------------------------------------------------------------------------------- *)
Lemma okEmph_parts t : okEmph t = true -> exists c r, t = c :: r /\ isLetterB c = true /\ forallb inA t = true /\ noDbl t = true.
Proof.
  destruct t as [|c r]; [discriminate|]. unfold okEmph. intros H. apply andb_true_iff in H. destruct H as [H H3].
  apply andb_true_iff in H. destruct H as [H1 H2]. exists c, r. tauto.
Qed.

Theorem parseInlines_tok t : okEmph t = true ->
  let L := t ++ [10] in
  exists st', parseInlines L [] (paraClosed 0 (len L) (len L)) = map toInline (rk (processEmphasis st' 0)) /\
    isrc st' = L /\ rk st' = nodesOf (segment t) 1 0 /\ stk st' = map conc (delimsOf (segment t) 0 None) /\
    nid st' = 1 + len (segment t).
Proof.
  intros Hok L. destruct (okEmph_parts t Hok) as (c & r & Et & Hc & Ha & Hd).
  unfold parseInlines. cbn [paraClosed bik bend length].
  set (st0 := {| rk := []; isrc := L; unp := [mkI UnparsedKind 0 (len L)]; upos := 0; stk := []; ign := false; nid := 1;
                 rootEnd := len L; matcher := [] |}).
  assert (HI0 : IT (setIgn st0 false) L) by (repeat split).
  destruct (tok_pend (segment t) [] [] 0%nat (S (length L)) (setIgn st0 false) L) as (st' & Hrun & HI' & Hrk' & Hstk' & Hnid').
  { apply segment_wf; assumption. }
  { left. reflexivity. }
  { rewrite segment_flat. reflexivity. }
  { constructor. }
  { exact HI0. }
  { reflexivity. }
  { rewrite segment_flat. unfold L. rewrite app_length. cbn [length]. lia. }
  change (len (@nil Z) + len (@nil Z)) with 0 in Hrun. change (len (@nil Z)) with 0 in Hrun, Hrk'.
  cbn [optST app] in Hrk', Hstk', Hnid'. cbn [rk stk nid setIgn st0 app] in Hrk', Hstk', Hnid'.
  assert (Hout : outer 2 st0 = setUpos st' 1).
  { cbn [outer]. change (len (unp st0) <=? upos st0) with false. cbv iota.
    change (nth (Z.to_nat (upos st0)) (unp st0) (mkI 0 0 0)) with (mkI UnparsedKind 0 (len L)).
    change (ikind (mkI UnparsedKind 0 (len L))) with UnparsedKind.
    change (UnparsedKind =? 0) with false. change (UnparsedKind =? IndentKind) with false. change (UnparsedKind =? UnparsedKind) with true.
    cbv iota. change (ign st0) with false. cbv iota. change (istart (mkI UnparsedKind 0 (len L))) with 0.
    change (isrc (setIgn st0 false)) with L. rewrite Hrun.
    rewrite (IT_spanEnd st' L HI'). rewrite addText_none. destruct HI' as (H1 & H2 & H3).
    change (unp (setUpos st' (upos st' + 1))) with (unp st'). change (upos (setUpos st' (upos st' + 1))) with (upos st' + 1).
    rewrite H2, H3. reflexivity. }
  rewrite Hout. exists (setUpos st' 1). split; [reflexivity|]. destruct HI' as (H1 & H2 & H3).
  cbn [isrc rk stk nid setUpos]. repeat split; assumption.
Qed.
