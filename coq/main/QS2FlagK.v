(* QS2FlagK.v -- T58b part K: line, line start and source are never changed by the block starts / the opening loop /
   deferredClose / the descent (TInv.envS). *)
From Coq Require Import List ZArith Lia Bool.
Import ListNotations.
Require Import Base Tree Rdr Link Collect Html Recog LP Rules Starts Driver L2Kind2 L2CC TDefs TOcp TInv TDesc TStarts.
Open Scope Z_scope.

Lemma eT_advance p q n : envS p q -> envS p (advance q n).
Proof. intros H. eapply envS_trans; [exact H|apply envS_sameT, sameT_advance]. Qed.
Lemma eT_consumeIndent p q n : envS p q -> envS p (consumeIndent q n).
Proof. intros H. eapply envS_trans; [exact H|apply envS_sameT, sameT_consumeIndent]. Qed.
Lemma eT_consumeLine p q : envS p q -> envS p (consumeLine q).
Proof. intros H. eapply envS_trans; [exact H|apply envS_sameT, sameT_consumeLine]. Qed.
Lemma eT_collectInline p q k n : envS p q -> envS p (collectInline q k n).
Proof. intros H. eapply envS_trans; [exact H|apply envS_collectInline]. Qed.
Lemma eT_openBlock p q k : envS p q -> envS p (openBlock q k).
Proof. intros H. eapply envS_trans; [exact H|apply curS_openBlock]. Qed.
Lemma eT_endBlock p q : envS p q -> envS p (endBlock q).
Proof. intros H. eapply envS_trans; [exact H|apply curS_endBlock]. Qed.
Lemma eT_updCont p q f : envS p q -> envS p (updCont q f).
Proof. intros H. eapply envS_trans; [exact H|repeat split]. Qed.

Ltac envT := repeat match goal with
  | |- envS ?p ?p => apply envS_refl
  | |- envS _ (advance _ _) => apply eT_advance
  | |- envS _ (consumeIndent _ _) => apply eT_consumeIndent
  | |- envS _ (consumeLine _) => apply eT_consumeLine
  | |- envS _ (collectInline _ _ _) => apply eT_collectInline
  | |- envS _ (openBlock _ _) => apply eT_openBlock
  | |- envS _ (endBlock _) => apply eT_endBlock
  | |- envS _ (updCont _ _) => apply eT_updCont
  | |- envS _ (if ?c then _ else _) => destruct c
  end.

Definition startEnv (f : lp -> lp) : Prop := forall p, envS p (f p).
Lemma blockStarts_env : Forall startEnv blockStarts.
Proof.
  unfold blockStarts.
  apply Forall_cons. { intros p. unfold startBlockQuote. cbv zeta. envT. }
  apply Forall_cons. { intros p. unfold startATX. cbv zeta. destruct (_ <=? _); [apply envS_refl|]. destruct (parseATXHeading _) as [[level cs] ce]. envT. }
  apply Forall_cons. { intros p. unfold startFenced. cbv zeta. destruct (_ <=? _); [apply envS_refl|]. destruct (parseCodeFence _) as [[[fc fnn] is_] ie]. envT. }
  apply Forall_cons. { intros p. unfold startHTML. cbv zeta. envT. }
  apply Forall_cons. { intros p. unfold startSetext. cbv zeta. envT. }
  apply Forall_cons. { intros p. unfold startThematic. cbv zeta. envT. }
  apply Forall_cons.
  { intros p. unfold startListItem. cbv zeta. destruct (_ <=? _); [apply envS_refl|]. destruct (parseListMarker _) as [[delim n] mend].
    destruct (_ || _); [apply envS_refl|]. destruct (_ && _); [apply envS_refl|].
    match goal with |- context [endBlock ?X] => set (q := endBlock X) end.
    assert (Hq : envS p q) by (unfold q; envT).
    destruct (isRestBlank q); [envT; exact Hq|]. destruct (indent q <? 1); [envT; exact Hq|]. destruct (4 <? indent q); envT; exact Hq. }
  apply Forall_cons. { intros p. unfold startIndented. envT. }
  apply Forall_nil.
Qed.

Lemma envS_withState p s : envS p (withState p s). Proof. repeat split. Qed.
Lemma envS_tryStarts : forall fs p, Forall startEnv fs -> envS p (snd (tryStarts fs p)).
Proof.
  induction fs as [|f r IH]; intros p Hfs; [apply envS_refl|]. cbn [tryStarts]. cbv zeta. inversion Hfs as [|? ? Hf Hr]; subst.
  assert (H1 : envS p (f (withState p stOpening))) by (eapply envS_trans; [apply envS_withState|apply Hf]).
  destruct (_ || _); [exact H1|]. eapply envS_trans; [exact H1|apply IH, Hr].
Qed.
Lemma envS_opening_loop : forall fuel p, envS p (snd (opening_loop fuel p)).
Proof.
  induction fuel as [|f IH]; intros p; [apply envS_refl|]. cbn [opening_loop]. destruct (_ || _); [|apply envS_refl].
  pose proof (envS_tryStarts blockStarts p blockStarts_env) as H1. destruct (tryStarts blockStarts p) as [[|] p1]; cbn [snd] in *; [|exact H1].
  destruct (_ =? stLineConsumed); [exact H1|]. eapply envS_trans; [exact H1|apply IH].
Qed.
Lemma envS_deferredClose p : envS p (deferredClose p).
Proof. unfold deferredClose. cbv zeta. destruct (_ && _); repeat split. Qed.
Lemma li_deferredClose p : li (deferredClose p) = li p.
Proof. unfold deferredClose. cbv zeta. destruct (_ && _); reflexivity. Qed.
