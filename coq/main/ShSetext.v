From Coq Require Import List ZArith Lia Bool.
Import ListNotations.
Require Import Base Tree Recog Driver Props Rec15 Rec16 Rec17 Rec18 RecBounds Cursor CursorX L2BndS BlankPrefix BShDef ShDef ShRecog.
Open Scope Z_scope.

(* ---- a line: bytes without line ending, then one line ending or nothing ---- *)
Definition lineOK (l : bytes) : Prop := exists body eol, l = body ++ eol /\ no_eol body /\ is_eol_seq eol.

Lemma split_eol : forall R : bytes, exists body rest, R = body ++ rest /\ no_eol body /\
  match rest with [] => True | c :: _ => is_eolb c = true end.
Proof.
  induction R as [|x R IH]; [exists [], []; repeat split; constructor|].
  destruct (is_eolb x) eqn:Ex; [exists [], (x :: R); repeat split; [constructor|exact Ex]|].
  destruct IH as (body & rest & E & Hb & Hr). exists (x :: body), rest. rewrite E. repeat split; [constructor; assumption|exact Hr].
Qed.
Lemma no_eol_noEol l : no_eol l -> noEol l.
Proof.
  unfold no_eol, noEol. apply Forall_impl. intros c H. unfold is_eolb in H. apply orb_false_iff in H. destruct H as [A B]. rewrite A, B. reflexivity.
Qed.
Lemma findEol_noeol : forall a i, noEol a -> findEol a i = -1.
Proof. induction a as [|x a IH]; intros i H; [reflexivity|]. inversion H as [|? ? Hx Ha]; subst. cbn [findEol]. rewrite Hx. apply IH, Ha. Qed.

Lemma line_shape buf i : 0 <= i <= len buf -> lineOK (from_ (upto buf (lineEnd buf i)) i).
Proof.
  intros Hi. destruct (lineEnd_spec buf i Hi) as [Hle _].
  rewrite from_upto by lia. set (R := from_ buf i).
  assert (HR : len R = len buf - i) by (apply len_from; lia).
  destruct (split_eol R) as (body & rest & E & Hb & Hr). pose proof (no_eol_noEol _ Hb) as Hb'.
  pose proof (lenA_nonneg body) as Lb.
  assert (Hat : forall j, 0 <= j -> at_ buf (i + j) = at_ R j) by (intros j Hj; unfold R; rewrite at_from by lia; reflexivity).
  unfold lineEnd. fold R. rewrite E. rewrite (findEol_app_noeol body rest i Hb').
  destruct rest as [|c rest'].
  - cbn [findEol]. destruct (Z.ltb_spec (-1) 0); [|lia]. exists body, []. rewrite app_nil_r in *. split; [|split; [exact Hb|left; reflexivity]].
    apply upto_all. rewrite <- E. lia.
  - cbn [findEol]. assert (Hc : (c =? 10) || (c =? 13) = true) by (unfold is_eolb in Hr; rewrite orb_comm; exact Hr). rewrite Hc.
    destruct (Z.ltb_spec (i + len body) 0); [lia|].
    assert (Hac : at_ buf (i + len body) = c) by (rewrite Hat by lia; rewrite E; rewrite at_app_len; reflexivity). rewrite Hac.
    assert (Hlen : len buf = i + len body + 1 + len rest') by (rewrite E, lenA_app, lenA_cons in HR; lia).
    assert (U1 : upto (body ++ c :: rest') (i + len body + 1 - i) = body ++ [c]).
    { replace (body ++ c :: rest') with ((body ++ [c]) ++ rest') by (rewrite <- app_assoc; reflexivity).
      replace (i + len body + 1 - i) with (len (body ++ [c])) by (rewrite lenA_app; unfold len; cbn [length]; lia). apply upto_app_len. }
    assert (Hc2 : c = 10 \/ c = 13) by (apply orb_true_iff in Hc; destruct Hc as [Hc|Hc]; apply Z.eqb_eq in Hc; tauto).
    destruct (Z.eqb_spec c 10) as [E10|N10].
    + exists body, [10]. rewrite U1, E10. split; [reflexivity|split; [exact Hb|right; left; reflexivity]].
    + assert (E13 : c = 13) by (destruct Hc2; [contradiction|assumption]). clear Hc Hc2 Hr Hac. subst c.
      pose proof (lenA_nonneg rest') as Lr.
      destruct (Z.ltb_spec (i + len body + 1) (len buf)) as [L2|L2].
      * destruct rest' as [|d rest'']; [unfold len in Hlen, L2; cbn [length] in *; lia|].
        assert (Had : at_ buf (i + len body + 1) = d).
        { replace (i + len body + 1) with (i + (len body + 1)) by lia. rewrite Hat by lia. rewrite E.
          replace (body ++ 13 :: d :: rest'') with ((body ++ [13]) ++ d :: rest'') by (rewrite <- app_assoc; reflexivity).
          replace (len body + 1) with (len (body ++ [13])) by (rewrite lenA_app; reflexivity). rewrite at_app_len. reflexivity. }
        rewrite Had. clear Had. destruct (Z.eqb_spec d 10) as [Ed|Nd].
        -- exists body, [13; 10]. split; [|split; [exact Hb|right; right; right; reflexivity]]. subst d.
           replace (body ++ 13 :: 10 :: rest'') with ((body ++ [13; 10]) ++ rest'') by (rewrite <- app_assoc; reflexivity).
           replace (i + len body + 2 - i) with (len (body ++ [13; 10])) by (rewrite lenA_app; unfold len; cbn [length]; lia). apply upto_app_len.
        -- exists body, [13]. rewrite U1. split; [reflexivity|split; [exact Hb|right; right; left; reflexivity]].
      * exists body, [13]. assert (rest' = []) by (destruct rest'; [reflexivity|rewrite lenA_cons in Hlen; pose proof (lenA_nonneg rest'); lia]). subst rest'.
        split; [|split; [exact Hb|right; right; left; reflexivity]]. apply upto_all. rewrite lenA_app. unfold len at 2. cbn [length]. lia.
Qed.

(* ---- trimming ---- *)
Definition dropSp := fix f (l : bytes) : bytes := match l with c :: r => if isSpTab c then f r else l | [] => [] end.
Lemma trimRightSpTab_eq t : trimRightSpTab t = rev (dropSp (rev t)). Proof. reflexivity. Qed.
Lemma dropEOL_app : forall w l, forallb (fun c => (c =? 10) || (c =? 13)) w = true -> dropWhileEOL (w ++ l) = dropWhileEOL l.
Proof. induction w as [|x w IH]; intros l H; [reflexivity|]. cbn [forallb] in H. apply andb_true_iff in H. destruct H as [A B]. cbn [app dropWhileEOL]. rewrite A. apply IH, B. Qed.
Lemma dropSp_app : forall w l, forallb isSpTab w = true -> dropSp (w ++ l) = dropSp l.
Proof. induction w as [|x w IH]; intros l H; [reflexivity|]. cbn [forallb] in H. apply andb_true_iff in H. destruct H as [A B]. cbn [app dropSp]. rewrite A. apply IH, B. Qed.
Lemma dropEOL_id x l : (x =? 10) || (x =? 13) = false -> dropWhileEOL (x :: l) = x :: l.
Proof. intros H. cbn [dropWhileEOL]. rewrite H. reflexivity. Qed.
Lemma dropSp_id x l : isSpTab x = false -> dropSp (x :: l) = x :: l.
Proof. intros H. cbn [dropSp]. rewrite H. reflexivity. Qed.
Lemma dropEOL_stop rw c l : forallb isSpTab rw = true -> (c =? 10) || (c =? 13) = false -> dropWhileEOL (rw ++ c :: l) = rw ++ c :: l.
Proof.
  intros Hw Hc. destruct rw as [|x rw]; cbn [app]; [apply dropEOL_id, Hc|]. apply dropEOL_id. cbn [forallb] in Hw. apply andb_true_iff in Hw.
  destruct Hw as [Hx _]. unfold isSpTab in Hx. apply orb_true_iff in Hx. destruct Hx as [Hx|Hx]; apply Z.eqb_eq in Hx; subst x; reflexivity.
Qed.
Lemma forallb_rev {A} (p : A -> bool) l : forallb p (rev l) = forallb p l.
Proof. induction l as [|x l IH]; [reflexivity|]. cbn [rev forallb]. rewrite forallb_app, IH. cbn. rewrite andb_true_r. apply andb_comm. Qed.

Lemma trim_setext (P w eol : bytes) c : (c = 61 \/ c = 45) -> forallb isSpTab w = true -> is_eol_seq eol ->
  trimRightSpTab (trimEOLr (P ++ [c] ++ w ++ eol)) = P ++ [c].
Proof.
  intros Hc Hw He.
  assert (Eeol : forallb (fun c => (c =? 10) || (c =? 13)) (rev eol) = true) by (destruct He as [->|[->|[->| ->]]]; reflexivity).
  assert (E1 : trimEOLr (P ++ [c] ++ w ++ eol) = P ++ [c] ++ w).
  { unfold trimEOLr. rewrite !app_assoc. rewrite rev_app_distr. rewrite dropEOL_app by exact Eeol.
    rewrite <- !app_assoc. rewrite !rev_app_distr. cbn [rev app]. rewrite <- app_assoc. cbn [app].
    rewrite dropEOL_stop; [|rewrite forallb_rev; exact Hw|destruct Hc as [-> | ->]; reflexivity].
    change (c :: rev P) with ([c] ++ rev P). rewrite !rev_app_distr, !rev_involutive. cbn [rev app]. rewrite <- app_assoc. reflexivity. }
  rewrite E1, trimRightSpTab_eq. rewrite !app_assoc, rev_app_distr. rewrite dropSp_app by (rewrite forallb_rev; exact Hw).
  rewrite rev_app_distr. cbn [rev app]. rewrite dropSp_id by (destruct Hc as [-> | ->]; reflexivity).
  change (c :: rev P) with ([c] ++ rev P). rewrite rev_app_distr, rev_involutive. reflexivity.
Qed.

Lemma trimLeft_app a b : (match b with x :: _ => isSpTab x = false | [] => True end) -> trimLeftSpTab (a ++ b) = trimLeftSpTab a ++ b.
Proof.
  intros Hb. induction a as [|x a IH]; [cbn [app trimLeftSpTab]; destruct b as [|y b]; [reflexivity|cbn [trimLeftSpTab]; rewrite Hb; reflexivity]|].
  cbn [app trimLeftSpTab]. destruct (isSpTab x); [exact IH|reflexivity].
Qed.
Lemma trimLeft_split : forall l, exists ws, l = ws ++ trimLeftSpTab l /\ forallb isSpTab ws = true.
Proof.
  induction l as [|x l IH]; [exists []; split; reflexivity|]. cbn [trimLeftSpTab]. destruct (isSpTab x) eqn:Ex; [|exists []; split; reflexivity].
  destruct IH as (ws & E & H). exists (x :: ws). split; [cbn [app]; rewrite <- E; reflexivity|cbn [forallb]; rewrite Ex; exact H].
Qed.
Lemma no_eol_trimLeft l : no_eol l -> no_eol (trimLeftSpTab l).
Proof. induction l as [|x l IH]; intros H; [exact H|]. cbn [trimLeftSpTab]. inversion H; subst. destruct (isSpTab x); [apply IH; assumption|exact H]. Qed.
Lemma allOf_snoc u c : allOf u c = true -> c :: u = u ++ [c].
Proof.
  induction u as [|x u IH]; [reflexivity|]. unfold allOf in *. cbn [forallb]. intros H. apply andb_true_iff in H. destruct H as [A B].
  apply Z.eqb_eq in A. subst x. cbn [app]. rewrite <- IH by exact B. reflexivity.
Qed.

(* the shape of a setext heading whose span ends with the underline line *)
Lemma shape_setext X line level : lineOK line -> parseSetextHeadingUnderline (trimLeftSpTab line) = level -> level <> 0 ->
  shapeKN (X ++ line) SetextHeadingKind level = true.
Proof.
  intros (body & eol & El & Hb & He) Hp Hn.
  assert (Hhd : match eol with x :: _ => isSpTab x = false | [] => True end) by (destruct He as [->|[->|[->| ->]]]; [exact I|reflexivity..]).
  rewrite El, (trimLeft_app body eol Hhd) in Hp.
  rewrite (parseSetext_correct _ eol (no_eol_trimLeft _ Hb) He) in Hp.
  destruct (trimLeft_split body) as (ws & Ews & Hws). destruct (trimLeftSpTab body) as [|c r] eqn:Et; [cbn in Hp; congruence|].
  unfold setext_spec in Hp. destruct (negb ((c =? 61) || (c =? 45))) eqn:Ec; [congruence|]. cbv zeta in Hp.
  set (run := countWhile (fun x => x =? c) r) in *.
  destruct (forallb isSpTab (from_ r run)) eqn:Ew; [|congruence].
  apply negb_false_iff in Ec.
  assert (Hc : c = 61 \/ c = 45) by (apply orb_true_iff in Ec; destruct Ec as [Ec|Ec]; apply Z.eqb_eq in Ec; tauto).
  pose proof (countWhile_spec (fun x => x =? c) r) as (Hr1 & _ & _). fold run in Hr1.
  destruct (split_at r run Hr1) as [Er _].
  assert (Eline : X ++ line = (X ++ ws ++ upto r run) ++ [c] ++ from_ r run ++ eol).
  { rewrite El, Ews. rewrite Er at 1. rewrite (app_comm_cons (upto r run)), (allOf_snoc (upto r run) c) by apply allOf_upto_count.
    rewrite <- !app_assoc. reflexivity. }
  unfold shapeKN, shapeBlock. cbn [bkind bn]. change (SetextHeadingKind =? ListMarkerKind) with false. change (SetextHeadingKind =? ATXHeadingKind) with false.
  change (SetextHeadingKind =? SetextHeadingKind) with true. cbv iota zeta.
  rewrite Eline, (trim_setext _ _ _ c Hc Ew He). rewrite lastZ_snoc.
  assert (Hl : (len ((X ++ ws ++ upto r run) ++ [c]) =? 0) = false).
  { apply Z.eqb_neq. rewrite len_app. unfold len at 2. cbn [length]. pose proof (len_nonneg (X ++ ws ++ upto r run)). lia. }
  rewrite Hl. cbn [negb andb]. rewrite <- Hp. destruct Hc as [-> | ->]; reflexivity.
Qed.
