From Coq Require Import List ZArith Lia Bool.
Import ListNotations.
Require Import Base Tables Utf8 Tree Rdr Link Collect Leaf3e.
Open Scope Z_scope.

(* whatever the flags, collectTextNodes yields freshly made childless nodes without a label, or spans of its reader *)
Definition freshOrSpan (spans : list inline) (x : inline) : Prop :=
  (exists k s e, x = mkI k s e) \/ In x spans.

Lemma collect_any tk esc : forall fuel r e ps acc spans,
  sublist (r_spans r) spans -> Forall (freshOrSpan spans) acc ->
  Forall (freshOrSpan spans) (fst (collect_loop fuel r e tk esc ps acc)).
Proof.
  induction fuel as [|f IH]; intros r e ps acc spans Hs Hacc; [exact Hacc|].
  cbn [collect_loop]. destruct (e <=? r_pos r); [exact Hacc|].
  pose proof (curNode_spans r) as Hc. pose proof (curNode_in r) as Hin.
  destruct (curNode r) as [cn r0]. cbn [fst snd] in Hc, Hin.
  assert (Hs0 : sublist (r_spans r0) spans) by (eapply sublist_trans; eassumption).
  assert (Hfresh : forall k a b, freshOrSpan spans (mkI k a b)) by (intros k a b; left; eauto).
  assert (Hadd : forall (c : bool) l k a b, Forall (freshOrSpan spans) l ->
            Forall (freshOrSpan spans) (if c then l ++ [mkI k a b] else l)).
  { intros c l k a b Hl. destruct c; [apply Forall_app; split; [exact Hl|constructor; [apply Hfresh|constructor]]|exact Hl]. }
  destruct (okind cn =? IndentKind) eqn:Ek.
  - destruct cn as [node|]; [|cbn in Ek; discriminate].
    apply IH.
    + eapply sublist_trans; [apply skipSameNode_spans|exact Hs0].
    + apply Forall_app. split; [apply Hadd; exact Hacc|]. constructor; [right; apply Hs, Hin; reflexivity|constructor].
  - assert (Htail : forall r' ps' acc', sublist (r_spans r') spans -> Forall (freshOrSpan spans) acc' ->
              Forall (freshOrSpan spans) (fst (if e <=? r_pos r' then (acc', ps') else let '(ok, r1) := next r' in
                 if negb ok then (acc', ps') else
                 if jumped r1 then
                   collect_loop f r1 e tk esc (r_pos r1) (if ps' <=? r_prev r1 then acc' ++ [mkI tk ps' (r_prev r1 + 1)] else acc')
                 else collect_loop f r1 e tk esc ps' acc'))).
    { intros r' ps' acc' Hs' Hacc'. destruct (e <=? r_pos r'); [exact Hacc'|]. pose proof (next_spans r') as Hn. destruct (next r') as [ok r1]. cbn [snd] in Hn.
      destruct (negb ok); [exact Hacc'|].
      destruct (jumped r1); apply IH; try (eapply sublist_trans; eassumption); [apply Hadd; exact Hacc'|exact Hacc']. }
    destruct (esc && (okind cn =? UnparsedKind)); [|apply Htail; assumption].
    pose proof (current_spans r0) as Hcur. destruct (current r0) as [c r1]. cbn [snd] in Hcur.
    assert (Hs1 : sublist (r_spans r1) spans) by (eapply sublist_trans; eassumption).
    destruct (c =? 92).
    { pose proof (next_spans r1) as Hn. destruct (next r1) as [ok r2]. cbn [snd] in Hn.
      assert (Hs2 : sublist (r_spans r2) spans) by (eapply sublist_trans; eassumption).
      destruct (ok && _ && _); apply Htail; try assumption. apply Hadd; exact Hacc. }
    destruct (c =? 38); [|apply Htail; assumption].
    pose proof (remaining_spans r1) as Hrem. destruct (remainingNodeBytes r1) as [rem r2]. cbn [snd] in Hrem.
    assert (Hs2 : sublist (r_spans r2) spans) by (eapply sublist_trans; eassumption).
    destruct (0 <=? parseCharacterEscape rem); [|apply Htail; assumption].
    pose proof (nextN_spans (Z.to_nat (parseCharacterEscape rem - 1)) r2) as HnN.
    pose proof (next_spans (nextN (Z.to_nat (parseCharacterEscape rem - 1)) r2)) as Hn.
    destruct (next (nextN (Z.to_nat (parseCharacterEscape rem - 1)) r2)) as [ok r4]. cbn [snd] in Hn.
    assert (Hacc2 : Forall (freshOrSpan spans)
              ((if ps <? r_pos r2 then acc ++ [mkI tk ps (r_pos r2)] else acc) ++
               [mkI CharacterReferenceKind (r_pos r2) (r_pos r2 + parseCharacterEscape rem)])).
    { apply Forall_app. split; [apply Hadd; exact Hacc|constructor; [apply Hfresh|constructor]]. }
    destruct (negb ok); [exact Hacc2|].
    apply IH; [|exact Hacc2]. eapply sublist_trans; [exact Hn|]. eapply sublist_trans; [exact HnN|exact Hs2].
Qed.

Lemma collectTextNodes_any tk esc fuel r e spans : sublist (r_spans r) spans ->
  Forall (freshOrSpan spans) (collectTextNodes fuel r e tk esc).
Proof.
  intros Hs. unfold collectTextNodes.
  pose proof (collect_any tk esc fuel r e (r_pos r) [] spans Hs (Forall_nil _)) as H.
  destruct (collect_loop fuel r e tk esc (r_pos r) []) as [acc ps]. cbn [fst] in H.
  destruct (ps <? e); [|exact H]. apply Forall_app. split; [exact H|]. constructor; [left; eauto|constructor].
Qed.
