From Coq Require Import List ZArith Lia Bool Arith.
Import ListNotations.
Require Import Base Tree Rdr Link Collect Html Recog LP Rules Starts Driver C01a C01b.
Open Scope Z_scope.

(* ====================================================================================================================== *)
(* C14, clause b, on the concrete model: blank lines in front of a document only shift offsets and line numbers.            *)
(* ====================================================================================================================== *)

Definition blankLines (B : bytes) : Prop :=
  Forall (fun c => isSpaceTabOrLineEnding c = true) B /\ (B = [] \/ last B 0 = 10 \/ last B 0 = 13).
Definition noMerge (B s : bytes) : Prop := ~ (last B 0 = 13 /\ hd 0 s = 10).
Definition shiftRoot (db dl : Z) (r : rootB) : rootB :=
  {| rb_line := rb_line r + dl; rb_start := rb_start r + db; rb_end := rb_end r + db; rb_src := rb_src r; rb_blk := rb_blk r |}.

(* the statement asked for *)
Definition parseBlocks_blank_prefix_statement : Prop := forall B s, blankLines B -> noMerge B s ->
  parseBlocks (B ++ s) = (map (shiftRoot (len B) (lineCount B)) (fst (parseBlocks s)), snd (parseBlocks s)).

(* ---------------------------------------------------------------------------------------------------------------------- *)
(* 1. Equivariance: boff and bline are only accumulated, never inspected.                                                  *)
(* ---------------------------------------------------------------------------------------------------------------------- *)
Section Shift.
  Variables db dl : Z.
  Definition shiftSt (s : bpst) : bpst :=
    {| buf := buf s; bi := bi s; boff := boff s + db; bline := bline s + dl; pending := pending s |}.
  Definition shiftNb (x : nb) : nb :=
    match x with
    | NBBlock r s => NBBlock (shiftRoot db dl r) (shiftSt s)
    | NBEof s => NBEof (shiftSt s)
    | NBStuck => NBStuck
    | NBPanic k => NBPanic k
    end.

  Lemma makeRoot_shift ch s :
    makeRoot ch (shiftSt s) = option_map (fun rs => (shiftRoot db dl (fst rs), shiftSt (snd rs))) (makeRoot ch s).
  Proof.
    unfold makeRoot. destruct ch as [|b rest]; [reflexivity|]. destruct (isOpen b); [reflexivity|].
    cbn [option_map fst snd]. unfold shiftRoot, shiftSt.
    cbn [buf bi boff bline pending rb_line rb_start rb_end rb_src rb_blk].
    f_equal. f_equal; f_equal; lia.
  Qed.

  Lemma lineLoop_shift : forall f st ch ls s, lineLoop f st ch ls (shiftSt s) = shiftNb (lineLoop f st ch ls s).
  Proof.
    induction f as [|f IH]; intros st ch ls s; [reflexivity|]. cbn [lineLoop].
    change (buf (shiftSt s)) with (buf s). change (bi (shiftSt s)) with (bi s).
    destruct (processLine st ch ls (upto (buf s) (bi s))) as [[ch' st'] pn].
    destruct (negb (pn =? 0)); [reflexivity|]. rewrite makeRoot_shift.
    destruct (makeRoot ch' s) as [[r s']|]; [reflexivity|]. cbn [option_map].
    exact (IH st' ch' (bi s) {| buf := buf s; bi := lineEnd (buf s) (bi s); boff := boff s; bline := bline s; pending := pending s |}).
  Qed.

  Lemma skipLoop_shift : forall f s, skipLoop f (shiftSt s) = shiftNb (skipLoop f s).
  Proof.
    induction f as [|f IH]; intros s; [reflexivity|]. cbn [skipLoop]. cbv zeta.
    change (buf (shiftSt s)) with (buf s). change (bi (shiftSt s)) with (bi s).
    destruct (negb (bi s <? lineEnd (buf s) (bi s))); [reflexivity|].
    destruct (isBlankLine (upto (buf s) (lineEnd (buf s) (bi s)))).
    - rewrite <- (IH {| buf := from_ (buf s) (lineEnd (buf s) (bi s)); bi := 0;
                        boff := boff s + unpadded (upto (buf s) (lineEnd (buf s) (bi s))); bline := bline s + 1; pending := pending s |}).
      f_equal. unfold shiftSt. cbn [buf bi boff bline pending]. f_equal; lia.
    - exact (lineLoop_shift f 0 [] 0 {| buf := buf s; bi := lineEnd (buf s) (bi s); boff := boff s; bline := bline s; pending := pending s |}).
  Qed.

  Lemma nextBlock_shift f s : nextBlock f (shiftSt s) = shiftNb (nextBlock f s).
  Proof.
    unfold nextBlock. change (pending (shiftSt s)) with (pending s). rewrite makeRoot_shift.
    destruct (makeRoot (pending s) s) as [[r s']|]; [reflexivity|]. cbn [option_map].
    change (buf (shiftSt s)) with (buf s). change (bi (shiftSt s)) with (bi s).
    destruct (pending s) as [|b0 rest] eqn:Ep.
    - rewrite <- (skipLoop_shift f {| buf := from_ (buf s) (bi s); bi := 0; boff := boff s + unpadded (upto (buf s) (bi s));
                                       bline := bline s + lineCount (upto (buf s) (bi s)); pending := [] |}).
      f_equal. unfold shiftSt. cbn [buf bi boff bline pending]. f_equal; lia.
    - rewrite <- Ep.
      exact (lineLoop_shift f 0 (pending s) (bi s)
               {| buf := buf s; bi := lineEnd (buf s) (bi s); boff := boff s; bline := bline s; pending := pending s |}).
  Qed.

  Lemma allBlocks_shift : forall f s acc,
    allBlocks f (shiftSt s) (map (shiftRoot db dl) acc) =
    (map (shiftRoot db dl) (fst (allBlocks f s acc)), snd (allBlocks f s acc)).
  Proof.
    induction f as [|f IH]; intros s acc; [reflexivity|]. cbn [allBlocks].
    change (buf (shiftSt s)) with (buf s). rewrite nextBlock_shift.
    destruct (nextBlock (3 + length (buf s)) s) as [r s'|s'| |k]; cbn [shiftNb fst snd]; try reflexivity.
    rewrite <- IH. rewrite map_app. reflexivity.
  Qed.
End Shift.

(* ---------------------------------------------------------------------------------------------------------------------- *)
(* 2. Surplus fuel does not change a non-stuck answer.                                                                     *)
(* ---------------------------------------------------------------------------------------------------------------------- *)
Lemma lineLoop_mono : forall f st ch ls s, lineLoop f st ch ls s <> NBStuck ->
  forall f', (f <= f')%nat -> lineLoop f' st ch ls s = lineLoop f st ch ls s.
Proof.
  induction f as [|f IH]; intros st ch ls s Hn f' Hf; [cbn [lineLoop] in Hn; congruence|].
  destruct f' as [|f']; [lia|]. cbn [lineLoop] in *.
  destruct (processLine st ch ls (upto (buf s) (bi s))) as [[ch' st'] pn].
  destruct (negb (pn =? 0)); [reflexivity|].
  destruct (makeRoot ch' s) as [[r s']|]; [reflexivity|]. apply IH; [exact Hn|lia].
Qed.

Lemma skipLoop_mono : forall f s, skipLoop f s <> NBStuck -> forall f', (f <= f')%nat -> skipLoop f' s = skipLoop f s.
Proof.
  induction f as [|f IH]; intros s Hn f' Hf; [cbn [skipLoop] in Hn; congruence|].
  destruct f' as [|f']; [lia|]. cbn [skipLoop] in *. cbv zeta in *.
  destruct (negb (bi s <? lineEnd (buf s) (bi s))); [reflexivity|].
  destruct (isBlankLine (upto (buf s) (lineEnd (buf s) (bi s)))).
  - apply IH; [exact Hn|lia].
  - apply lineLoop_mono; [exact Hn|lia].
Qed.

Lemma nextBlock_mono f s : nextBlock f s <> NBStuck -> forall f', (f <= f')%nat -> nextBlock f' s = nextBlock f s.
Proof.
  unfold nextBlock. intros Hn f' Hf. destruct (makeRoot (pending s) s) as [[r s']|]; [reflexivity|].
  destruct (pending s) as [|b0 rest]; [apply skipLoop_mono|apply lineLoop_mono]; assumption.
Qed.

Lemma allBlocks_mono : forall f s acc, snd (allBlocks f s acc) <> -1 ->
  forall f', (f <= f')%nat -> allBlocks f' s acc = allBlocks f s acc.
Proof.
  induction f as [|f IH]; intros s acc Hn f' Hf; [cbn [allBlocks snd] in Hn; congruence|].
  destruct f' as [|f']; [lia|]. cbn [allBlocks] in *.
  destruct (nextBlock (3 + length (buf s)) s) as [r s'|s'| |k]; try reflexivity.
  apply IH; [exact Hn|lia].
Qed.

(* ---------------------------------------------------------------------------------------------------------------------- *)
(* 3. List / line-end bookkeeping.                                                                                          *)
(* ---------------------------------------------------------------------------------------------------------------------- *)
Definition noEol (l : bytes) : Prop := Forall (fun c => (c =? 10) || (c =? 13) = false) l.

Lemma lenA_nonneg {A} (l : list A) : 0 <= len l. Proof. unfold len. lia. Qed.
Lemma lenA_cons {A} (x : A) l : len (x :: l) = len l + 1. Proof. unfold len. cbn [length]. lia. Qed.
Lemma lenA_app {A} (a b : list A) : len (a ++ b) = len a + len b. Proof. unfold len. rewrite app_length. lia. Qed.

Lemma findEol_app_noeol : forall a r i, noEol a -> findEol (a ++ r) i = findEol r (i + len a).
Proof.
  induction a as [|x a IH]; intros r i Ha.
  - cbn [app]. f_equal. unfold len. cbn [length]. lia.
  - inversion Ha as [|? ? Hx Ha']; subst. cbn [app findEol]. rewrite Hx. rewrite (IH r (i + 1) Ha'). f_equal. rewrite lenA_cons. lia.
Qed.

Lemma at_app_len (a x : bytes) : at_ (a ++ x) (len a) = hd 0 x.
Proof.
  unfold at_. destruct (Z.ltb_spec (len a) 0) as [L|L]; [pose proof (lenA_nonneg a); lia|].
  unfold len. rewrite Nat2Z.id. rewrite app_nth2 by lia. rewrite Nat.sub_diag. destruct x; reflexivity.
Qed.

Lemma upto_app_len {A} (l r : list A) : upto (l ++ r) (len l) = l.
Proof. unfold upto, len. rewrite Nat2Z.id. rewrite firstn_app, Nat.sub_diag, firstn_all. cbn [firstn]. apply app_nil_r. Qed.
Lemma from_app_len {A} (l r : list A) : from_ (l ++ r) (len l) = r.
Proof. unfold from_, len. rewrite Nat2Z.id. rewrite skipn_app, Nat.sub_diag, skipn_all. reflexivity. Qed.

(* the end of the first line of a buffer whose first line-ending byte is c *)
Lemma lineEnd_first body c rest : noEol body -> (c =? 10) || (c =? 13) = true ->
  lineEnd (body ++ c :: rest) 0 =
  if c =? 10 then len body + 1
  else match rest with d :: _ => if d =? 10 then len body + 2 else len body + 1 | [] => len body + 1 end.
Proof.
  intros Hb Hc. unfold lineEnd. change (from_ (body ++ c :: rest) 0) with (body ++ c :: rest).
  rewrite (findEol_app_noeol body (c :: rest) 0 Hb). cbn [findEol]. rewrite Hc. cbv zeta.
  pose proof (lenA_nonneg body) as Lb. replace (0 + len body) with (len body) by lia.
  destruct (Z.ltb_spec (len body) 0) as [L|_]; [lia|].
  rewrite at_app_len. cbn [hd]. destruct (c =? 10); [reflexivity|].
  rewrite lenA_app, lenA_cons.
  destruct rest as [|d rest'].
  - destruct (Z.ltb_spec (len body + 1) (len body + (len (@nil Z) + 1))) as [L|L]; [unfold len in L; cbn [length] in L; lia|].
    unfold len. cbn [length]. lia.
  - rewrite lenA_cons. pose proof (lenA_nonneg rest') as Lr.
    destruct (Z.ltb_spec (len body + 1) (len body + (len rest' + 1 + 1))) as [L|L]; [|lia].
    assert (Ha : at_ (body ++ c :: d :: rest') (len body + 1) = d).
    { replace (body ++ c :: d :: rest') with ((body ++ [c]) ++ d :: rest') by (rewrite <- app_assoc; reflexivity).
      replace (len body + 1) with (len (body ++ [c])) by (rewrite lenA_app; reflexivity).
      rewrite at_app_len. reflexivity. }
    rewrite Ha. reflexivity.
Qed.

Lemma blank_nonzero c : isSpaceTabOrLineEnding c = true -> c =? 0 = false.
Proof. intros H. destruct (Z.eqb_spec c 0) as [->|]; [discriminate H|reflexivity]. Qed.

Lemma nullCount_blank l : Forall (fun c => isSpaceTabOrLineEnding c = true) l -> nullCount l = 0.
Proof. induction 1 as [|x l Hx Hl IH]; [reflexivity|]. cbn [nullCount]. rewrite (blank_nonzero x Hx), IH. reflexivity. Qed.
Lemma pad_blank l : Forall (fun c => isSpaceTabOrLineEnding c = true) l -> pad l = l.
Proof.
  induction 1 as [|x l Hx Hl IH]; [reflexivity|]. change (pad (x :: l)) with ((if x =? 0 then [0;0;0] else [x]) ++ pad l).
  rewrite (blank_nonzero x Hx), IH. reflexivity.
Qed.
Lemma unpadded_blank l : Forall (fun c => isSpaceTabOrLineEnding c = true) l -> unpadded l = len l.
Proof. intros H. unfold unpadded. rewrite (nullCount_blank l H). change (0 / 3 * 2) with 0. lia. Qed.
Lemma isBlankLine_Forall l : Forall (fun c => isSpaceTabOrLineEnding c = true) l -> isBlankLine l = true.
Proof. intros H. unfold isBlankLine. apply forallb_forall. apply Forall_forall. exact H. Qed.

Lemma lineCount_noeol_app : forall body x, noEol body -> lineCount (body ++ x) = lineCount x.
Proof.
  induction body as [|b body IH]; intros x Hb; [reflexivity|]. inversion Hb as [|? ? Hx Hb']; subst.
  apply orb_false_iff in Hx. destruct Hx as [H10 H13]. cbn [app lineCount]. rewrite H10, H13. rewrite (IH x Hb'). lia.
Qed.

Lemma last_app_ne {A} (a r : list A) d : r <> [] -> last (a ++ r) d = last r d.
Proof.
  induction a as [|x a IH]; intros Hr; [reflexivity|]. cbn [app].
  rewrite <- (IH Hr). destruct (a ++ r) as [|y t] eqn:E; [|reflexivity].
  apply app_eq_nil in E. destruct E as [_ E]. contradiction.
Qed.

(* the first line-ending byte of a list that contains one *)
Lemma split_first_eol : forall B, Exists (fun c => (c =? 10) || (c =? 13) = true) B ->
  exists body c rest, B = body ++ c :: rest /\ noEol body /\ (c =? 10) || (c =? 13) = true.
Proof.
  induction B as [|x B IH]; intros H; [inversion H|].
  destruct ((x =? 10) || (x =? 13)) eqn:Ex.
  - exists [], x, B. repeat split; [constructor|exact Ex].
  - inversion H as [? ? Hx|? ? Hx]; subst; [congruence|]. destruct (IH Hx) as (body & c & rest & -> & Hb & Hc).
    exists (x :: body), c, rest. repeat split; [constructor; assumption|exact Hc].
Qed.

Lemma last_in_Exists (P : Z -> Prop) : forall B, B <> [] -> P (last B 0) -> Exists P B.
Proof.
  induction B as [|x B IH]; intros Hn Hl; [contradiction|]. destruct B as [|y B'].
  - left. exact Hl.
  - right. apply IH; [discriminate|exact Hl].
Qed.

(* ---------------------------------------------------------------------------------------------------------------------- *)
(* 4. skipLoop eats a blank prefix line by line.                                                                            *)
(* ---------------------------------------------------------------------------------------------------------------------- *)
Definition noMergeT (B t : bytes) : Prop := ~ (last B 0 = 13 /\ hd 0 t = 10).

Lemma skip_one l R f bo bl pd : l <> [] -> Forall (fun c => isSpaceTabOrLineEnding c = true) l -> lineEnd (l ++ R) 0 = len l ->
  skipLoop (S f) {| buf := l ++ R; bi := 0; boff := bo; bline := bl; pending := pd |} =
  skipLoop f {| buf := R; bi := 0; boff := bo + len l; bline := bl + 1; pending := pd |}.
Proof.
  intros Hne Hb He. cbn [skipLoop]. cbv zeta. cbn [buf bi boff bline pending]. rewrite He.
  assert (Hp : 0 < len l) by (destruct l; [contradiction|rewrite lenA_cons; pose proof (lenA_nonneg l); lia]).
  destruct (Z.ltb_spec 0 (len l)) as [_|L]; [|lia]. cbn [negb].
  rewrite upto_app_len, from_app_len. rewrite (isBlankLine_Forall l Hb), (unpadded_blank l Hb). reflexivity.
Qed.

(* decomposition of a non-empty blank prefix into its first line and the rest *)
Lemma first_line B t : blankLines B -> B <> [] -> noMergeT B t ->
  exists l B', B = l ++ B' /\ l <> [] /\ lineEnd (l ++ B' ++ t) 0 = len l /\ lineCount B = 1 + lineCount B' /\
               blankLines B' /\ noMergeT B' t.
Proof.
  intros [HF HL] Hne HM. destruct HL as [HL|HL]; [contradiction|].
  assert (Hex : Exists (fun c => (c =? 10) || (c =? 13) = true) B).
  { apply last_in_Exists; [exact Hne|]. destruct HL as [-> | ->]; reflexivity. }
  destruct (split_first_eol B Hex) as (body & c & rest & EB & Hb & Hc).
  (* facts about the remainder `rest'` (a suffix of B) used in every case *)
  assert (Tail : forall pre R, B = pre ++ R -> blankLines R /\ noMergeT R t).
  { intros pre R E. destruct R as [|y R'].
    - split; [split; [constructor|left; reflexivity]|]. intros [H _]. cbn in H. discriminate.
    - assert (EL : last B 0 = last (y :: R') 0) by (rewrite E; apply last_app_ne; discriminate).
      split; [split|].
      + rewrite E in HF. apply Forall_app in HF. apply HF.
      + right. rewrite <- EL. exact HL.
      + unfold noMergeT. rewrite <- EL. exact HM. }
  destruct (c =? 10) eqn:E10.
  - (* LF *)
    apply Z.eqb_eq in E10. subst c. exists (body ++ [10]), rest.
    assert (EB' : B = (body ++ [10]) ++ rest) by (rewrite <- app_assoc; exact EB).
    destruct (Tail _ _ EB') as [T1 T2].
    refine (conj EB' (conj _ (conj _ (conj _ (conj T1 T2))))).
    + destruct body; discriminate.
    + rewrite <- app_assoc. cbn [app]. rewrite (lineEnd_first body 10 (rest ++ t) Hb eq_refl). rewrite lenA_app. reflexivity.
    + rewrite EB. rewrite (lineCount_noeol_app body _ Hb). reflexivity.
  - assert (E13 : c = 13) by (cbn [orb] in Hc; apply Z.eqb_eq in Hc; exact Hc). subst c.
    destruct rest as [|d rest'].
    + (* CR is the last byte of B *)
      exists (body ++ [13]), [].
      assert (EB' : B = (body ++ [13]) ++ []) by (rewrite app_nil_r; exact EB).
      destruct (Tail _ _ EB') as [T1 T2].
      assert (HL13 : last B 0 = 13) by (rewrite EB; rewrite last_app_ne by discriminate; reflexivity).
      refine (conj EB' (conj _ (conj _ (conj _ (conj T1 T2))))).
      * destruct body; discriminate.
      * rewrite <- app_assoc. cbn [app]. rewrite (lineEnd_first body 13 t Hb eq_refl). cbn [Z.eqb]. rewrite lenA_app.
        destruct t as [|d t']; [reflexivity|]. destruct (Z.eqb_spec d 10) as [->|]; [|reflexivity].
        exfalso. apply HM. split; [exact HL13|reflexivity].
      * rewrite EB. rewrite (lineCount_noeol_app body _ Hb). reflexivity.
    + destruct (d =? 10) eqn:Ed.
      * (* CRLF *)
        apply Z.eqb_eq in Ed. subst d. exists (body ++ [13; 10]), rest'.
        assert (EB' : B = (body ++ [13; 10]) ++ rest') by (rewrite <- app_assoc; exact EB).
        destruct (Tail _ _ EB') as [T1 T2].
        refine (conj EB' (conj _ (conj _ (conj _ (conj T1 T2))))).
        -- destruct body; discriminate.
        -- rewrite <- app_assoc. cbn [app]. rewrite (lineEnd_first body 13 (10 :: rest' ++ t) Hb eq_refl). cbn [Z.eqb].
           rewrite lenA_app. reflexivity.
        -- rewrite EB. rewrite (lineCount_noeol_app body _ Hb).
           change (lineCount (13 :: 10 :: rest')) with (0 + (1 + lineCount rest')). lia.
      * (* CR followed by something else inside B *)
        exists (body ++ [13]), (d :: rest').
        assert (EB' : B = (body ++ [13]) ++ d :: rest') by (rewrite <- app_assoc; exact EB).
        destruct (Tail _ _ EB') as [T1 T2].
        refine (conj EB' (conj _ (conj _ (conj _ (conj T1 T2))))).
        -- destruct body; discriminate.
        -- rewrite <- app_assoc. cbn [app]. rewrite (lineEnd_first body 13 (d :: rest' ++ t) Hb eq_refl). cbn [Z.eqb].
           rewrite Ed. rewrite lenA_app. reflexivity.
        -- rewrite EB. rewrite (lineCount_noeol_app body _ Hb). cbn [lineCount]. rewrite Ed.
           change (13 =? 10) with false. change (13 =? 13) with true. cbv iota. lia.
Qed.

(* k <= length B steps of skipLoop consume B exactly *)
Lemma skip_blank_aux : forall n B, (length B <= n)%nat -> forall t, blankLines B -> noMergeT B t ->
  exists k, (k <= length B)%nat /\ forall f bo bl pd,
    skipLoop (k + f) {| buf := B ++ t; bi := 0; boff := bo; bline := bl; pending := pd |} =
    skipLoop f {| buf := t; bi := 0; boff := bo + len B; bline := bl + lineCount B; pending := pd |}.
Proof.
  induction n as [|n IH]; intros B Hn t HB HM.
  - destruct B; [|cbn [length] in Hn; lia]. exists O. split; [lia|]. intros f bo bl pd. cbn [app Nat.add lineCount].
    f_equal. f_equal; unfold len; cbn [length]; lia.
  - destruct B as [|b0 B0] eqn:EB0.
    { exists O. split; [lia|]. intros f bo bl pd. cbn [app Nat.add lineCount]. f_equal. f_equal; unfold len; cbn [length]; lia. }
    rewrite <- EB0 in *. assert (Hne : B <> []) by (rewrite EB0; discriminate).
    destruct (first_line B t HB Hne HM) as (l & B' & E & Hl & He & Hc & HB' & HM').
    assert (HFl : Forall (fun c => isSpaceTabOrLineEnding c = true) l).
    { destruct HB as [HF _]. rewrite E in HF. apply Forall_app in HF. apply HF. }
    assert (Hlen : (length B = length l + length B')%nat) by (rewrite E; apply app_length).
    assert (Hl1 : (1 <= length l)%nat) by (destruct l; [contradiction|cbn [length]; lia]).
    destruct (IH B' ltac:(lia) t HB' HM') as (k & Hk & Hstep).
    exists (S k). split; [lia|]. intros f bo bl pd.
    rewrite E at 1. rewrite <- app_assoc. cbn [Nat.add].
    rewrite (skip_one l (B' ++ t) (k + f) bo bl pd Hl HFl He). rewrite Hstep.
    assert (HlenZ : len B = len l + len B') by (unfold len; rewrite Hlen; lia).
    f_equal. rewrite Hc, HlenZ. f_equal; lia.
Qed.

Lemma skip_blank B t : blankLines B -> noMergeT B t ->
  exists k, (k <= length B)%nat /\ forall f bo bl pd,
    skipLoop (k + f) {| buf := B ++ t; bi := 0; boff := bo; bline := bl; pending := pd |} =
    skipLoop f {| buf := t; bi := 0; boff := bo + len B; bline := bl + lineCount B; pending := pd |}.
Proof. intros. apply (skip_blank_aux (length B) B (le_n _)); assumption. Qed.

(* ---------------------------------------------------------------------------------------------------------------------- *)
(* 5. The theorem.                                                                                                          *)
(* ---------------------------------------------------------------------------------------------------------------------- *)
Definition st0 (b : bytes) : bpst := {| buf := b; bi := 0; boff := 0; bline := 1; pending := [] |}.

Lemma parseBlocks_st0 input : parseBlocks input = allBlocks (S (length (pad input))) (st0 (pad input)) [].
Proof. reflexivity. Qed.
Lemma nextBlock_st0 f b : nextBlock f (st0 b) = skipLoop f (st0 b).
Proof. reflexivity. Qed.
Lemma allBlocks_S f s acc : allBlocks (S f) s acc =
  match nextBlock (3 + length (buf s)) s with
  | NBBlock r s' => allBlocks f s' (acc ++ [r])
  | NBEof _ => (acc, 0)
  | NBStuck => (acc, -2)
  | NBPanic site => (acc, site)
  end.
Proof. reflexivity. Qed.

Lemma hd_pad_10' s : hd 0 (pad s) = 10 -> hd 0 s = 10.
Proof.
  destruct s as [|c r]; [intros H; exact H|]. change (pad (c :: r)) with ((if c =? 0 then [0;0;0] else [c]) ++ pad r).
  destruct (Z.eqb_spec c 0) as [->|Hc]; cbn [app hd]; intros H; [discriminate H|exact H].
Qed.

(* the first nextBlock call of the run on B ++ s, expressed through the first nextBlock call of the run on s *)
Lemma first_nextBlock_blank_prefix B s : blankLines B -> noMerge B s ->
  nextBlock (3 + length (pad s)) (st0 (pad s)) <> NBStuck ->
  nextBlock (3 + length (pad (B ++ s))) (st0 (pad (B ++ s))) =
  shiftNb (len B) (lineCount B) (nextBlock (3 + length (pad s)) (st0 (pad s))).
Proof.
  intros HB HM Hns. rewrite pad_app, (pad_blank B (proj1 HB)). set (t := pad s) in *.
  assert (HMt : noMergeT B t).
  { intros [Ha Hb]. apply HM. split; [exact Ha|apply hd_pad_10', Hb]. }
  destruct (skip_blank B t HB HMt) as (k & Hk & Hskip).
  rewrite !nextBlock_st0 in *.
  assert (Hf : (3 + length (B ++ t) = k + (3 + length t + (length B - k)))%nat) by (rewrite app_length; lia).
  rewrite Hf. unfold st0 at 1. rewrite Hskip.
  change {| buf := t; bi := 0; boff := 0 + len B; bline := 1 + lineCount B; pending := [] |}
    with (shiftSt (len B) (lineCount B) (st0 t)).
  rewrite skipLoop_shift. f_equal. apply skipLoop_mono; [exact Hns|lia].
Qed.

(* Main result.  The two side conditions say that the run on s itself did not exhaust the fuel Driver.v gives it
   (code -1: allBlocks, code -2: lineLoop/skipLoop). They are needed because the run on B ++ s is given MORE fuel
   (S (length (pad (B ++ s))) outer steps; 3 + length (pad (B ++ s)) - #lines(B) inner steps for the first block), so if the
   run on s stopped for lack of fuel the run on B ++ s could go further. They hold for every input iff the block layer is total
   (task T1, `forall input, snd (parseBlocks input) = 0`); see the corollary below. *)
Theorem parseBlocks_blank_prefix_partial : forall B s, blankLines B -> noMerge B s ->
  snd (parseBlocks s) <> -1 -> snd (parseBlocks s) <> -2 ->
  parseBlocks (B ++ s) = (map (shiftRoot (len B) (lineCount B)) (fst (parseBlocks s)), snd (parseBlocks s)).
Proof.
  intros B s HB HM H1 H2. rewrite !parseBlocks_st0 in *. rewrite !allBlocks_S in *.
  change (buf (st0 (pad s))) with (pad s) in *. change (buf (st0 (pad (B ++ s)))) with (pad (B ++ s)).
  assert (Hns : nextBlock (3 + length (pad s)) (st0 (pad s)) <> NBStuck).
  { intros E. apply H2. rewrite E. reflexivity. }
  rewrite (first_nextBlock_blank_prefix B s HB HM Hns).
  destruct (nextBlock (3 + length (pad s)) (st0 (pad s))) as [r s'|s'| |k0]; cbn [shiftNb].
  - cbn [app] in *. change [shiftRoot (len B) (lineCount B) r] with (map (shiftRoot (len B) (lineCount B)) [r]).
    rewrite allBlocks_shift.
    rewrite (allBlocks_mono (length (pad s)) s' [r] H1 (length (pad (B ++ s)))); [reflexivity|].
    rewrite pad_app, app_length. lia.
  - reflexivity.
  - contradiction.
  - reflexivity.
Qed.
Print Assumptions parseBlocks_blank_prefix_partial.

(* the statement as asked follows from totality of the block layer *)
Theorem parseBlocks_blank_prefix_of_total :
  (forall input, snd (parseBlocks input) = 0) -> parseBlocks_blank_prefix_statement.
Proof.
  intros Htot B s HB HM. apply parseBlocks_blank_prefix_partial; try assumption; rewrite (Htot s); discriminate.
Qed.
Print Assumptions parseBlocks_blank_prefix_of_total.

(* the intermediate result on skipLoop alone (no fuel side condition): the blank prefix costs k <= length B steps and
   leaves the machine in the initial state of the run on the rest, with boff / bline advanced by len B / lineCount B *)
Theorem skipLoop_blank_prefix_partial : forall B t, blankLines B -> ~ (last B 0 = 13 /\ hd 0 t = 10) ->
  exists k, (k <= length B)%nat /\ forall f bo bl pd,
    skipLoop (k + f) {| buf := B ++ t; bi := 0; boff := bo; bline := bl; pending := pd |} =
    skipLoop f {| buf := t; bi := 0; boff := bo + len B; bline := bl + lineCount B; pending := pd |}.
Proof. exact skip_blank. Qed.
Print Assumptions skipLoop_blank_prefix_partial.

(* ---------------------------------------------------------------------------------------------------------------------- *)
(* 6. Sanity checks by computation: the hypotheses are satisfiable, the conclusion is the expected one, and the two side      *)
(*    conditions on B cannot be dropped.                                                                                     *)
(* ---------------------------------------------------------------------------------------------------------------------- *)
Example hyps_satisfiable :
  blankLines [32; 9; 13; 10; 10] /\ noMerge [32; 9; 13; 10; 10] [45; 32; 120; 10] /\ snd (parseBlocks [45; 32; 120; 10]) = 0.
Proof.
  split; [split; [repeat constructor|right; left; reflexivity]|]. split; [intros [H _]; discriminate H|vm_compute; reflexivity].
Qed.
Example instance_computed :
  parseBlocks ([32; 9; 13; 10; 10] ++ [45; 32; 120; 10]) =
  (map (shiftRoot 5 2) (fst (parseBlocks [45; 32; 120; 10])), 0).
Proof. vm_compute. reflexivity. Qed.
(* "\r" ++ "\nb": the CR fuses with the LF, one line instead of two *)
Example noMerge_needed :
  parseBlocks ([13] ++ [10; 98]) <>
  (map (shiftRoot (len [13]) (lineCount [13])) (fst (parseBlocks [10; 98])), snd (parseBlocks [10; 98])).
Proof. vm_compute. discriminate. Qed.
(* " " ++ "a": a blank prefix that is not a sequence of complete lines becomes indentation of the first block *)
Example complete_lines_needed :
  parseBlocks ([32] ++ [97]) <>
  (map (shiftRoot (len [32]) (lineCount [32])) (fst (parseBlocks [97])), snd (parseBlocks [97])).
Proof. vm_compute. discriminate. Qed.
