From Coq Require Import List ZArith Lia Bool String Ascii.
Import ListNotations.
Require Import Base Tree Rdr LP Rules Starts Driver Props BSTest SliceReparse ReparseTest ReparseLocal ReparseEof LADef ReparseSI BlankPrefix.
Open Scope Z_scope.

(* Non-vacuity of Reparse2.lineCut: on concrete documents the first root is cut by the following line; the computable parts of the
   hypotheses (lastLine, the closing line, bend = T, the paragraphs do not begin with '[') hold, and the conclusion is checked. *)
Definition firstRootData (B : bytes) :=
  match lastLine (S (List.length B)) 0 [] 0 B with
  | Some (T, stp, [c]) =>
      let bij := lineEnd B T in
      let '(ch', st', pn) := processLine stp [c] T (upto B bij) in
      match ch' with
      | rb :: rest => Some (T, bij, bkind c, bkind rb, negb (isOpen rb) && (bend rb =? T) && (0 <? T) && (T <? bij) && (pn =? 0))
      | [] => None end
  | _ => None end.
Definition plainFirst (B : bytes) : bool :=
  match lastLine (S (List.length B)) 0 [] 0 B with
  | Some (T, stp, [c]) =>
      let S0 := upto B (lineEnd B T) in
      (fix go (f : nat) (x : block) : bool := match f with O => true | S f' =>
         (if isOpen x && isParaK (bkind x) then match bik x with first :: _ => negb (fst (current (newReader S0 (bik x) (istart first))) =? 91) | [] => true end else true) &&
         match lastBlock x with Some z => go f' z | None => true end end) (bheight c) c
  | _ => false end.
Definition d1 := bs ("para" ++ nl ++ "two" ++ nl ++ nl ++ "next" ++ nl).
Definition d2 := bs ("- a" ++ nl ++ nl ++ "para" ++ nl).
Definition d3 := bs ("> q" ++ nl ++ "lazy" ++ nl ++ "# h" ++ nl).
Definition d4 := bs ("    code" ++ nl ++ nl ++ "x" ++ nl).
Definition d5 := bs ("- a" ++ nl ++ "  - b" ++ nl ++ nl ++ "***" ++ nl).
Eval vm_compute in map (fun d => (firstRootData d, plainFirst d, fst (chk d))) [d1; d2; d3; d4; d5].
