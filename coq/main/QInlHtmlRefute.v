(* QInlHtmlRefute.v -- T64 (html): the fact `InIK (e - 1)` about a valid result of parseHTMLTag does NOT follow from the hypotheses
   named in the task alone (SGood, spW, Forall gsp, RR .. true, position inside a span, adequate fuels): when the last span of IK ends
   inside a line, a reader exhausted there (state ExhMid) still returns the byte behind the span from `current`, and the tag scanner
   accepts a '>' there.  Witness: sD = sQ = "<a>", sg = identity, IK = [ Unparsed [0,2) ], reader at 0: the result is (0, 3) and
   position 2 lies in no span.  Hence the extra hypothesis NoGtBehindLast of QInlHtml.q_parseHTMLTag (true for every leaf that the
   block layer produces: the content of an ATX heading is followed by a space, a tab or a line feed). *)
From Coq Require Import List ZArith Lia Bool.
Import ListNotations.
Require Import Base Tree Rdr Link Inl3d ShapesBase ShapesR IFBase QIRdrBase QInlHtml.
Open Scope Z_scope.

Definition q_parseHTMLTag_facts_without_NoGtBehindLast_statement : Prop :=
  forall sD sQ sg IK f f' r r',
    SGood sD sQ sg -> spW sD IK = true -> Forall (gsp sD sg IK) IK ->
    QIRdrBase.RR sD sQ sg IK true r r' -> InIK IK (r_pos r) ->
    nu sD r < Z.of_nat f -> nu sQ r' < Z.of_nat f' ->
    TagFacts sD IK (r_pos r) (parseHTMLTag f r).

Definition wD : bytes := [60; 97; 62].
Definition wU : inline := Inl UnparsedKind 0 2 0 [] [].
Definition wsg (x : Z) : Z := x.

Lemma w_cases x : 0 <= x < len wD -> x = 0 \/ x = 1 \/ x = 2.
Proof. unfold len, wD. cbn [length]. lia. Qed.
Lemma w_SGood : SGood wD wD wsg.
Proof.
  constructor; unfold wsg.
  - intros; lia.
  - intros; lia.
  - reflexivity.
  - intros; lia.
  - intros; lia.
  - intros x Hx E. exfalso. destruct (w_cases x Hx) as [-> | [-> | ->]]; vm_compute in E; discriminate E.
  - reflexivity.
  - vm_compute. discriminate.
  - intros x Hx E. destruct (w_cases x Hx) as [-> | [-> | ->]]; vm_compute in E; discriminate E.
  - reflexivity.
Qed.
Lemma w_gsp : gsp wD wsg [wU] wU.
Proof.
  unfold gsp, wU, wsg. cbn [istart iend ikind]. split; [lia|]. split; [lia|]. split; [vm_compute; discriminate|]. split; [intros; lia|]. split; [reflexivity|].
  right. right. exists []. reflexivity.
Qed.

Theorem q_parseHTMLTag_facts_without_NoGtBehindLast_refuted : ~ q_parseHTMLTag_facts_without_NoGtBehindLast_statement.
Proof.
  intros St.
  assert (HR : QIRdrBase.RR wD wD wsg [wU] true (newReader wD [wU] 0) (newReader wD (map (mvS wsg) [wU]) (QIRdrBase.sgE wD wsg 0))).
  { apply (bRR_new wD wD wsg [wU] true w_SGood); [constructor; [exact w_gsp|constructor]|reflexivity|vm_compute; split; discriminate|vm_compute; discriminate| |exists []; reflexivity].
    intros _. right. left. exists wU. split; [left; reflexivity|vm_compute; split; [discriminate|reflexivity]]. }
  specialize (St wD wD wsg [wU] 100%nat 100%nat _ _ w_SGood eq_refl (Forall_cons _ w_gsp (Forall_nil _)) HR).
  specialize (St ltac:(exists wU; split; [left; reflexivity|vm_compute; split; [discriminate|reflexivity]]) ltac:(vm_compute; reflexivity) ltac:(vm_compute; reflexivity)).
  assert (E : parseHTMLTag 100 (newReader wD [wU] 0) = (0, 3)) by (vm_compute; reflexivity). rewrite E in St.
  destruct St as [X|(e & X & _ & _ & (u & Hu & Hin) & _)]; [discriminate X|]. inversion X; subst e.
  destruct Hu as [<-|[]]. cbn [wU istart iend] in Hin. lia.
Qed.
Print Assumptions q_parseHTMLTag_facts_without_NoGtBehindLast_refuted.

(* the equation itself holds on the witness (it does not need the extra hypothesis; see the remark in QInlHtml.v) *)
Example w_equation : parseHTMLTag 100 (newReader wD (map (mvS wsg) [wU]) (wsg 0)) = mapSpan wsg (parseHTMLTag 100 (newReader wD [wU] 0)).
Proof. vm_compute. reflexivity. Qed.
