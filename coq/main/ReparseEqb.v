From Coq Require Import List ZArith Lia Bool.
Import ListNotations.
Require Import Base Tree Rdr LADef ReparseSI ReparsePlain.
Open Scope Z_scope.

(* T62: sound boolean equality tests on bytes, inline entries and blocks; a boolean version of plainSpine. *)
Fixpoint zsEqb (a b : list Z) : bool :=
  match a, b with [], [] => true | x :: a', y :: b' => (x =? y) && zsEqb a' b' | _, _ => false end.
Lemma zsEqb_eq : forall a b, zsEqb a b = true -> a = b.
Proof.
  induction a as [|x a IH]; intros [|y b] H; try discriminate; [reflexivity|]. cbn [zsEqb] in H. apply andb_true_iff in H. destruct H as [H1 H2].
  apply Z.eqb_eq in H1. rewrite H1, (IH b H2). reflexivity.
Qed.

Fixpoint inlEqb (a b : inline) : bool :=
  match a, b with
  | Inl k s e i r ks, Inl k' s' e' i' r' ks' =>
    (k =? k') && (s =? s') && (e =? e') && (i =? i') && zsEqb r r' &&
    (fix go (l l' : list inline) : bool := match l, l' with [], [] => true | x :: t, y :: t' => inlEqb x y && go t t' | _, _ => false end) ks ks'
  end.
Lemma inlEqb_eq : forall a b, inlEqb a b = true -> a = b.
Proof.
  fix IH 1. intros [k s e i r ks] [k' s' e' i' r' ks'] H. cbn [inlEqb] in H.
  repeat (apply andb_true_iff in H; destruct H as [H ?]).
  apply Z.eqb_eq in H. match goal with H1 : (s =? s') = true |- _ => apply Z.eqb_eq in H1 end.
  match goal with H1 : (e =? e') = true |- _ => apply Z.eqb_eq in H1 end. match goal with H1 : (i =? i') = true |- _ => apply Z.eqb_eq in H1 end.
  match goal with H1 : zsEqb r r' = true |- _ => apply zsEqb_eq in H1 end. subst.
  f_equal. match goal with H1 : _ ks ks' = true |- _ => revert H1 end. clear -IH. revert ks'.
  induction ks as [|x t IHt]; intros [|y t'] H; try discriminate; [reflexivity|].
  apply andb_true_iff in H. destruct H as [H1 H2]. rewrite (IH x y H1), (IHt t' H2). reflexivity.
Qed.
Fixpoint inlsEqb (l l' : list inline) : bool :=
  match l, l' with [], [] => true | x :: t, y :: t' => inlEqb x y && inlsEqb t t' | _, _ => false end.
Lemma inlsEqb_eq : forall l l', inlsEqb l l' = true -> l = l'.
Proof.
  induction l as [|x t IH]; intros [|y t'] H; try discriminate; [reflexivity|]. cbn [inlsEqb] in H. apply andb_true_iff in H. destruct H as [H1 H2].
  rewrite (inlEqb_eq x y H1), (IH t' H2). reflexivity.
Qed.

Fixpoint blockEqb (a b : block) : bool :=
  match a, b with
  | Blk k s e bk ik ind n ch l lb, Blk k' s' e' bk' ik' ind' n' ch' l' lb' =>
    (k =? k') && (s =? s') && (e =? e') && inlsEqb ik ik' && (ind =? ind') && (n =? n') && (ch =? ch') && Bool.eqb l l' && Bool.eqb lb lb' &&
    (fix go (x y : list block) : bool := match x, y with [], [] => true | u :: t, v :: t' => blockEqb u v && go t t' | _, _ => false end) bk bk'
  end.
Lemma blockEqb_eq : forall a b, blockEqb a b = true -> a = b.
Proof.
  fix IH 1. intros [k s e bk ik ind n ch l lb] [k' s' e' bk' ik' ind' n' ch' l' lb'] H. cbn [blockEqb] in H.
  repeat (apply andb_true_iff in H; destruct H as [H ?]).
  repeat match goal with H1 : (_ =? _) = true |- _ => apply Z.eqb_eq in H1 end.
  repeat match goal with H1 : Bool.eqb _ _ = true |- _ => apply Bool.eqb_prop in H1 end.
  match goal with H1 : inlsEqb ik ik' = true |- _ => apply inlsEqb_eq in H1 end. subst.
  f_equal. match goal with H1 : _ bk bk' = true |- _ => revert H1 end. clear -IH. revert bk'.
  induction bk as [|x t IHt]; intros [|y t'] H; try discriminate; [reflexivity|].
  apply andb_true_iff in H. destruct H as [H1 H2]. rewrite (IH x y H1), (IHt t' H2). reflexivity.
Qed.
Fixpoint blocksEqb (x y : list block) : bool :=
  match x, y with [], [] => true | u :: t, v :: t' => blockEqb u v && blocksEqb t t' | _, _ => false end.
Lemma blocksEqb_eq : forall x y, blocksEqb x y = true -> x = y.
Proof.
  induction x as [|u t IH]; intros [|v t'] H; try discriminate; [reflexivity|]. cbn [blocksEqb] in H. apply andb_true_iff in H. destruct H as [H1 H2].
  rewrite (blockEqb_eq u v H1), (IH t' H2). reflexivity.
Qed.

(* ---- plainSpine, executable ---- *)
Definition plainParab (S : bytes) (y : block) : bool :=
  match bik y with first :: _ => negb (fst (current (newReader S (bik y) (istart first))) =? 91) | [] => true end.
Lemma plainParab_ok S y : plainParab S y = true -> plainPara S y.
Proof. unfold plainParab, plainPara. destruct (bik y); [intros; exact Logic.I|]. intros H E. rewrite E in H. discriminate. Qed.
Fixpoint plainSpineb (f : nat) (S : bytes) (x : block) : bool :=
  (if isOpen x && isParaK (bkind x) then plainParab S x else true) &&
  match f with O => match lastBlock x with Some _ => false | None => true end
  | Datatypes.S f' => match lastBlock x with Some z => plainSpineb f' S z | None => true end end.
Lemma plainSpineb_ok S : forall f x, plainSpineb f S x = true -> plainSpine S x.
Proof.
  induction f as [|f IH]; intros x H d y Hy Ho Hk; cbn [plainSpineb] in H; apply andb_true_iff in H; destruct H as [H1 H2].
  - destruct d as [|d]; [cbn in Hy; inversion Hy; subst; rewrite Ho, Hk in H1; apply plainParab_ok, H1|].
    rewrite L2CC.getAt_S in Hy. destruct (lastBlock x); discriminate.
  - destruct d as [|d]; [cbn in Hy; inversion Hy; subst; rewrite Ho, Hk in H1; apply plainParab_ok, H1|].
    rewrite L2CC.getAt_S in Hy. destruct (lastBlock x) as [z|]; [|discriminate]. apply (IH z H2 d y Hy Ho Hk).
Qed.
