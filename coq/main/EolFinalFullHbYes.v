(* T63-F1, direction D2 (hbTail -> the last Text node of the paragraph at the end is extended), under one block-layer premise
   (paraInk: the paragraph that reaches the end of the last root's source has a last entry that ends there and holds a byte that
   is neither a space nor a tab). *)
From Coq Require Import List ZArith Lia Bool.
Import ListNotations.
Require Import Base Tables Utf8 Tree Rdr Link Collect Html Recog Inl3a Inl3b Inl3c Inl3d Driver Inl3e Props Rules.
Require L2Kind2.
Require Import IFPe IFTokDef IFTk5 IFTokTf L2CC ShapesBase ShapesR ShapesA ShapesCS ShapesComp3 EntBase EntDefs En2Tree ComposeBase ComposeGram SpanHypDef SpanHyp ComposeSpans2 GramInline InlineFuelAll.
Require Import LADef EolFinalDefs EolGenRdrBase EolFinalGenMain EolFinalFullDefs EolFinalFullRdrE EolFinalFullTokB EolFinalFullLeaf EolFinalFullMain EolFinalFullHbS EolFinalFullHbNo.
Open Scope Z_scope.

(* ---------- the start of the trailing run of spaces ---------- *)
Fixpoint cnt32 (l : bytes) : nat := match l with c :: r => if c =? 32 then S (cnt32 r) else O | [] => O end.
Definition tsOf (src : bytes) : Z := len src - Z.of_nat (cnt32 (rev src)).
Lemma cnt32_le l : (cnt32 l <= length l)%nat.
Proof. induction l as [|c r IH]; [cbn; lia|]. cbn [cnt32 length]. destruct (c =? 32); lia. Qed.
Lemma cnt32_at : forall l j, 0 <= j < Z.of_nat (cnt32 l) -> at_ l j = 32.
Proof.
  induction l as [|c r IH]; intros j Hj; [cbn in Hj; lia|]. cbn [cnt32] in Hj. destruct (Z.eqb_spec c 32) as [->|N]; [|cbn in Hj; lia].
  destruct (Z.eq_dec j 0) as [->|Nj]; [reflexivity|]. rewrite SpanSmall.at_consS by lia. apply IH. lia.
Qed.
Lemma cnt32_stop : forall l, at_ l (Z.of_nat (cnt32 l)) <> 32.
Proof.
  induction l as [|c r IH]; [cbn; discriminate|]. cbn [cnt32]. destruct (Z.eqb_spec c 32) as [->|N]; [|cbn; exact N].
  rewrite SpanSmall.at_consS by lia. replace (Z.of_nat (S (cnt32 r)) - 1) with (Z.of_nat (cnt32 r)) by lia. exact IH.
Qed.
Lemma tsOf_facts src : hbTail src = true ->
  0 <= tsOf src /\ tsOf src + 2 <= len src /\ (forall i, tsOf src <= i < len src -> at_ src i = 32) /\ at_ src (tsOf src - 1) <> 32.
Proof.
  intros Hh. unfold tsOf. pose proof (cnt32_le (rev src)) as Hle. rewrite rev_length in Hle.
  assert (H2 : (2 <= cnt32 (rev src))%nat).
  { unfold hbTail in Hh. destruct (rev src) as [|a [|b r]]; try discriminate.
    - destruct a as [|p|p]; try discriminate. do 6 (destruct p as [p|p|]; try discriminate).
    - destruct (Z.eq_dec a 32) as [->|Na]; [|exfalso; destruct a as [|p|p]; try discriminate; do 6 (destruct p as [p|p|]; try discriminate); congruence].
      destruct (Z.eq_dec b 32) as [->|Nb]; [cbn; lia|exfalso; destruct b as [|p|p]; try discriminate; do 6 (destruct p as [p|p|]; try discriminate); congruence]. }
  unfold len. split; [lia|]. split; [lia|]. split.
  - intros i Hi. rewrite <- (rev_involutive src). rewrite at_rev by (unfold len; rewrite rev_length; lia). apply cnt32_at. unfold len. rewrite rev_length. lia.
  - destruct (Nat.eq_dec (cnt32 (rev src)) (length src)) as [E|N].
    + rewrite E. replace (Z.of_nat (length src) - Z.of_nat (length src) - 1) with (-1) by lia. cbn. discriminate.
    + rewrite <- (rev_involutive src) at 1. rewrite at_rev by (unfold len; rewrite rev_length; lia).
      unfold len. rewrite rev_length. replace (Z.of_nat (length src) - 1 - (Z.of_nat (length src) - Z.of_nat (cnt32 (rev src)) - 1)) with (Z.of_nat (cnt32 (rev src))) by lia.
      apply cnt32_stop.
Qed.

Lemma bumpLastText_snoc L X ps : bumpLastText L (X ++ [Inl TextKind ps L 0 [] []]) = X ++ [Inl TextKind ps (L + 1) 0 [] []].
Proof. unfold bumpLastText. rewrite rev_app_distr. cbn [rev app]. rewrite !Z.eqb_refl. cbn [andb]. rewrite rev_involutive. reflexivity. Qed.

Lemma eok_bumpI L x : GI6.eok (bumpI L x) = GI6.eok x.
Proof. destruct x as [k s e i r ks]. unfold bumpI. destruct (k =? IndentKind); reflexivity. Qed.
Lemma forallb_map_eq {A B} (p : B -> bool) (q : A -> bool) (f : A -> B) l : (forall x, p (f x) = q x) -> forallb p (map f l) = forallb q l.
Proof. intros H. induction l as [|x l IH]; [reflexivity|]. cbn [map forallb]. rewrite H, IH. reflexivity. Qed.

Section Yes.
  Variables (s : bytes) (r : rootB) (refs : list bytes).
  Hypothesis Hr : In r (fst (parseBlocks s)).
  Local Notation src := (rb_src r).
  Local Notation L := (len (rb_src r)).
  Hypothesis Hend : 0 < L -> LADef.isEOLz (at_ src (L - 1)) = false /\ at_ src (L - 1) <> 62.
  Hypothesis HqAll : forall d, subB d (rb_blk r) -> hasUnparsed d = true -> forall rf tf pf lf ofu,
     (2 * length (src ++ [10%Z]) + 10 <= rf)%nat -> (2 * length (src ++ [10%Z]) + 10 <= tf)%nat -> (8 * length (src ++ [10%Z]) + 8 <= pf)%nat ->
     (S (length (src ++ [10%Z])) <= lf)%nat -> (S (length (bik (finB L d))) <= ofu)%nat ->
     parseInlinesG rf tf pf lf ofu (src ++ [10]) refs (finB L d) = parseInlines (src ++ [10]) refs (finB L d).
  Hypothesis Hr2 : In (finRoot r) (fst (parseBlocks (s ++ [10]))).
  Hypothesis Hhb : hbTail src = true.
  Hypothesis HinkR : forall d, subB d (rb_blk r) -> bkind d = ParagraphKind -> hasUnparsed d = true -> bend d = L ->
    exists Upre u i0, bik d = Upre ++ [u] /\ iend u = L /\ istart u <= i0 < L /\ isSpTab (at_ src i0) = false.

  Lemma leaf_hb d : subB d (rb_blk r) -> hasUnparsed d = true -> bkind d = ParagraphKind -> bend d = L ->
    parseInlines (src ++ [10]) refs (finB L d) = bumpLastText L (parseInlines src refs d).
  Proof.
    intros Hd Hu HKp Hbe.
    destruct (leaf_final s r d refs Hr Hd Hu Hend (HqAll d Hd Hu)) as [E|(_ & X & ps & _ & P2 & P3 & _)].
    2:{ rewrite P2, P3. unfold txt. rewrite bumpLastText_snoc. reflexivity. }
    exfalso.
    (* run 1 *)
    destruct (root_facts s r Hr) as (B & pre' & M & Hn & Es & Ht & Lp & Hf).
    pose proof (facts_sub B pre' M d _ Hd Hf) as Hfd.
    pose proof (leaf_bikOKw B (upto B (bend (rb_blk r))) src pre' M (bend (rb_blk r)) Hn eq_refl Es Ht Lp d Hfd Hu) as Hw.
    pose proof (src_len B (upto B (bend (rb_blk r))) src (bend (rb_blk r)) Hn eq_refl Es) as Hlen.
    pose proof (src_eol B (upto B (bend (rb_blk r))) src (bend (rb_blk r)) eq_refl Es Ht) as Heol.
    destruct (leaf_cases B pre' M (bend (rb_blk r)) Lp d Hfd Hu) as (Hb0 & Hb1 & Hb2 & [(HPS & HL & _)|(HA & _)]); [|rewrite HA in HKp; discriminate].
    assert (Hok : bikOK src d = true).
    { unfold bikOKw in Hw. apply orb_true_iff in Hw. destruct Hw as [Hw|Hw]; [exact Hw|].
      unfold emptyATX in Hw. apply andb_true_iff in Hw. destruct Hw as [Hk _]. apply Z.eqb_eq in Hk. rewrite HKp in Hk. discriminate. }
    unfold bikOK in Hok. apply andb_true_iff in Hok. destruct Hok as [Hok _]. apply andb_true_iff in Hok. destruct Hok as [H1 H2]. apply Z.leb_le in H2.
    assert (Hne : bik d <> []) by (intros E0; unfold hasUnparsed in Hu; rewrite E0 in Hu; discriminate).
    assert (HL0 : 0 < L).
    { destruct (bik d) as [|u0 r0] eqn:Eik; [congruence|]. destruct (IFTokAux.spOK_In src _ u0 H1 (or_introl eq_refl)) as (A & B' & C). lia. }
    destruct (Hend HL0) as [Hlast H62].
    assert (HM : bend d <= bend (rb_blk r)) by exact Hb2.
    destruct (HinkR d Hd HKp Hu Hbe) as (Upre & u & i0 & EU & Eu1 & Hi0 & Hb0').
    assert (Hfacts := lines_entry_facts B src (bend (rb_blk r)) Hlen (bend d) HM (bik d) HL).
    assert (Hinu : In u (bik d)) by (rewrite EU; apply in_or_app; right; left; reflexivity).
    destruct (Hfacts u Hinu) as (F1 & F2 & F3 & F4 & F5 & F6 & F7).
    assert (Eku : ikind u = UnparsedKind) by (destruct F5 as [X|X]; [exact X|specialize (F4 X); lia]).
    destruct (tsOf_facts src Hhb) as (T1 & T2 & T3 & T4). set (TS := tsOf src) in *.
    assert (Hi0T : i0 < TS). { destruct (Z_lt_le_dec i0 TS) as [X|X]; [exact X|]. rewrite (T3 i0 ltac:(lia)) in Hb0'. discriminate. }
    assert (HT4 : isSpEol (at_ src (TS - 1)) = false).
    { pose proof (lines_noEol B src (bend (rb_blk r)) Hlen Heol (bend d) HM Hlast (bik d) HL u Hinu Eu1 (TS - 1) ltac:(lia)) as Hz.
      unfold LADef.isEOLz in Hz. apply orb_false_iff in Hz. destruct Hz as [Z1 Z2]. unfold isSpEol. rewrite Z1, Z2, !orb_false_r. apply Z.eqb_neq. exact T4. }
    assert (HkU : forall x, In x (bik d) -> ikind x = UnparsedKind \/ ikind x = IndentKind) by (intros x Hx; apply (Hfacts x Hx)).
    destruct (tail_text src (bik d) H1 H2 TS (conj T1 T2) (T3 TS ltac:(lia)) (T3 (TS + 1) ltac:(lia))
                ltac:(intros i Hi; rewrite (T3 i Hi); reflexivity) HT4 Upre u EU Eu1 Eku ltac:(exists i0; split; [lia|exact Hb0']) HkU
                (lines_eok B src (bend (rb_blk r)) Hlen (bend d) HM (bik d) HL) refs d eq_refl) as (Xp & psp & _ & Ep).
    (* run 2 *)
    destruct (root_facts (s ++ [10]) (finRoot r) Hr2) as (B2 & pre2 & M2 & Hn2 & Es2 & Ht2 & Lp2 & Hf2).
    assert (Hd2 : subB (finB L d) (rb_blk (finRoot r))) by (cbn [finRoot rb_blk]; apply subB_F; [exact Hd|apply (root_cc s r Hr)]).
    assert (Hu2 : hasUnparsed (finB L d) = true) by (rewrite hasUnparsed_F; exact Hu).
    pose proof (facts_sub B2 pre2 M2 (finB L d) _ Hd2 Hf2) as Hfd2.
    pose proof (leaf_bikOKw B2 (upto B2 (bend (rb_blk (finRoot r)))) (rb_src (finRoot r)) pre2 M2 (bend (rb_blk (finRoot r))) Hn2 eq_refl Es2 Ht2 Lp2 (finB L d) Hfd2 Hu2) as Hw2.
    cbn [finRoot rb_src] in Hw2.
    destruct d as [K s0 e0 bk ik a0 n0 c0 l0 lb0]. cbn [bkind bik bend bstart] in *. subst K.
    assert (Efin : finB L (Blk ParagraphKind s0 e0 bk ik a0 n0 c0 l0 lb0) = Blk ParagraphKind s0 (bump L e0) (map (finB L) bk) (map (bumpI L) ik) a0 n0 c0 l0 lb0) by reflexivity.
    rewrite Efin in *.
    assert (Hok2 : bikOK (src ++ [10]) (Blk ParagraphKind s0 (bump L e0) (map (finB L) bk) (map (bumpI L) ik) a0 n0 c0 l0 lb0) = true).
    { unfold bikOKw in Hw2. apply orb_true_iff in Hw2. destruct Hw2 as [Hw2|Hw2]; [exact Hw2|]. unfold emptyATX in Hw2. cbn [bkind] in Hw2. discriminate. }
    unfold bikOK in Hok2. cbn [bik] in Hok2. apply andb_true_iff in Hok2. destruct Hok2 as [Hok2 _]. apply andb_true_iff in Hok2. destruct Hok2 as [G1 G2]. apply Z.leb_le in G2.
    assert (Hl2 : len (src ++ [10]) = L + 1) by (rewrite PEProof.len_app; reflexivity).
    assert (Hat2 : forall i, 0 <= i < L -> at_ (src ++ [10]) i = at_ src i) by (intros i Hi; apply (EolFinalFullBytes.at_app10_in src i Hi)).
    assert (HatL : at_ (src ++ [10]) L = 10) by (apply (EolFinalFullBytes.at_app10_end src)).
    assert (Eu2 : iend (bumpI L u) = L + 1).
    { rewrite bumpI_end, Eku. change (UnparsedKind =? IndentKind) with false. cbv iota. unfold bump. rewrite Eu1, Z.eqb_refl. reflexivity. }
    destruct (tail_text (src ++ [10]) (map (bumpI L) ik) G1 G2 TS ltac:(rewrite Hl2; lia) ltac:(rewrite Hat2 by lia; apply T3; lia) ltac:(rewrite Hat2 by lia; apply T3; lia)
                ltac:(intros i Hi; rewrite Hl2 in Hi; destruct (Z.eq_dec i L) as [->|Ni]; [rewrite HatL; reflexivity|rewrite Hat2 by lia; rewrite (T3 i ltac:(lia)); reflexivity])
                ltac:(rewrite Hat2 by lia; exact HT4) (map (bumpI L) Upre) (bumpI L u) ltac:(rewrite EU, map_app; reflexivity) ltac:(rewrite Hl2; exact Eu2)
                ltac:(rewrite bumpI_kind; exact Eku) ltac:(exists i0; rewrite bumpI_start; split; [lia|rewrite Hat2 by lia; exact Hb0'])
                ltac:(intros x Hx; apply in_map_iff in Hx; destruct Hx as (y & <- & Hy); rewrite bumpI_kind; apply HkU, Hy)
                ltac:(rewrite (forallb_map_eq GI6.eok GI6.eok (bumpI L) ik (eok_bumpI L)); exact (lines_eok B src (bend (rb_blk r)) Hlen e0 HM ik HL))
                refs (Blk ParagraphKind s0 (bump L e0) (map (finB L) bk) (map (bumpI L) ik) a0 n0 c0 l0 lb0) eq_refl) as (Xq & psq & _ & Eq).
    rewrite Eq, Ep, Hl2 in E. apply app_inj_tail in E. destruct E as [_ E]. inversion E. lia.
  Qed.
  Lemma rewrite_fun_hb : forall f d, subB d (rb_blk r) -> (bheight d <= f)%nat ->
    rewriteB f (src ++ [10]) refs (finB L d) = finFullB L true (rewriteB f src refs d).
  Proof.
    destruct (root_facts s r Hr) as (B & pre' & M & Hn & Es & Ht & Lp & Hf).
    pose proof (src_len B (upto B (bend (rb_blk r))) src (bend (rb_blk r)) Hn eq_refl Es) as Hlen.
    induction f as [|f IH]; intros d Hd Hh; [destruct d; cbn in Hh; lia|].
    pose proof (facts_sub B pre' M d _ Hd Hf) as Hfd. pose proof (cc_sub d _ Hd (root_cc s r Hr)) as Hcc.
    cbn [rewriteB]. rewrite !cond_hasU, hasUnparsed_F.
    destruct (hasUnparsed d) eqn:Hu.
    - pose proof (leaf_final s r d refs Hr Hd Hu Hend (HqAll d Hd Hu)) as HR.
      destruct (leaf_kind_nokids s r Hr d Hd Hu) as [HKs Hnk].
      destruct (leaf_cases B pre' M (bend (rb_blk r)) Lp d Hfd Hu) as (_ & _ & Hbe & HK). rewrite <- Hlen in Hbe.
      assert (Hq : parseInlines (src ++ [10]) refs (finB L d) =
                   if (bkind d =? ParagraphKind) && (bend d =? L) then bumpLastText L (parseInlines src refs d) else parseInlines src refs d).
      { destruct (Z.eqb_spec (bkind d) ParagraphKind) as [EP|NP]; cbn [andb].
        - destruct (Z.eqb_spec (bend d) L) as [EL|NL]; [apply (leaf_hb d Hd Hu EP EL)|].
          destruct HR as [HR|(HKp & X & ps & _ & _ & _ & _ & u & Hu1 & Hu2)]; [exact HR|]. exfalso.
          destruct HK as [(HPS & HL & _)|(HA & _)]; [|rewrite HA in HKp; discriminate].
          assert (Hle : iend u <= bend d).
          { clear - HL Hu1. induction (bik d) as [|x r0 IHl]; [destruct Hu1|]. destruct HL as (A & _ & A2). destruct Hu1 as [->|Hu1]; [|apply IHl; assumption].
            destruct A as [(_ & _ & _ & _ & U3 & _)|[(K & _ & I1 & I2 & _) Hn]]; [exact U3|].
            destruct r0 as [|v r']; [destruct Hn|]. destruct Hn as [Kv Ev]. destruct A2 as (Av & _).
            destruct Av as [(_ & _ & _ & V2 & V3 & _)|[(Kv' & _) _]]; [lia|rewrite Kv in Kv'; discriminate]. }
          lia.
        - destruct HR as [HR|(HKp & _)]; [exact HR|congruence]. }
      rewrite Hq.
      assert (Hsp : forallb (spansI false src (bstart d) (bend d)) (parseInlines src refs d) = true).
      { pose proof (parseBlocks_inline_spans s refs) as HS. rewrite forallb_forall in HS. apply (spansAfter_sub s r refs Hr d (rb_blk r) Hd (subB_refl _) (bheight (rb_blk r)) (le_n _) (HS r Hr) Hu). }
      destruct d as [K s0 e0 bk ik a0 n0 c0 l0 lb0]. cbn [bkind bkids bik bend bstart] in *. subst bk.
      assert (NK : K <> ListMarkerKind) by (destruct HKs as [[E|E]|E]; rewrite E; discriminate).
      cbn [finB finFullB set_bik]. replace (K =? ListMarkerKind) with false by (symmetry; apply Z.eqb_neq; exact NK). cbn [set_bik map finFullB].
      replace (K =? ListMarkerKind) with false by (symmetry; apply Z.eqb_neq; exact NK). f_equal.
      destruct HKs as [[E|E]|E]; subst K; cbn [Z.eqb orb andb]; change (ParagraphKind =? HTMLBlockKind) with false; change (SetextHeadingKind =? HTMLBlockKind) with false;
        change (ATXHeadingKind =? HTMLBlockKind) with false; change (SetextHeadingKind =? ParagraphKind) with false; change (ATXHeadingKind =? ParagraphKind) with false; cbv iota; try reflexivity.
      rewrite Z.eqb_refl. cbn [andb]. destruct (Z.eqb_spec e0 L) as [EL|NL]; [reflexivity|]. symmetry. apply bumpLastText_noop. intros u Hu'.
      rewrite forallb_forall in Hsp. destruct (spansI_bounds false src s0 e0 u (Hsp u Hu')) as (_ & _ & _ & _ & Hb). lia.
    - destruct d as [K s0 e0 bk ik a0 n0 c0 l0 lb0]. cbn [finB]. destruct (Z.eqb_spec K ListMarkerKind) as [EK|NK].
      + assert (Hk : bkids (Blk K s0 e0 bk ik a0 n0 c0 l0 lb0) = []) by (apply (nokids _ Hcc); intros x; cbn [bkind]; rewrite EK; reflexivity).
        cbn [bkids] in Hk. subst bk. cbn [set_bkids map bkids finFullB]. replace (K =? ListMarkerKind) with true by (symmetry; apply Z.eqb_eq; exact EK). reflexivity.
      + cbn [set_bkids bkids finFullB]. replace (K =? ListMarkerKind) with false by (symmetry; apply Z.eqb_neq; exact NK). f_equal.
        * rewrite !map_map. apply map_ext_in. intros c Hc. cbn [bheight] in Hh. pose proof (bheight_kid c bk Hc).
          apply IH; [apply (subB_kid2 c (Blk K s0 e0 bk ik a0 n0 c0 l0 lb0) _ Hc Hd)|lia].
        * unfold finI. destruct ((K =? IndentedCodeBlockKind) || (K =? FencedCodeBlockKind)) eqn:EC.
          -- destruct (K =? ParagraphKind) eqn:EP; [apply Z.eqb_eq in EP; subst K; discriminate|].
             destruct (K =? HTMLBlockKind) eqn:EH; [apply Z.eqb_eq in EH; subst K; discriminate|]. reflexivity.
          -- destruct (K =? HTMLBlockKind) eqn:EH; [rewrite orb_true_r; reflexivity|].
             destruct (Z.eqb_spec K ParagraphKind) as [EP|NP]; [|reflexivity].
             cbn [orb andb]. destruct Hfd as (He & _ & _). cbn [en] in He. destruct He as ((A & _) & _). destruct (A (or_introl EP)) as (Hl & _).
             unfold hasUnparsed in Hu. cbn [bik] in Hu. rewrite (lines_noU_nil B _ ik Hl Hu). reflexivity.
  Qed.
End Yes.

(* ---------- the block-level premise ---------- *)
(* A paragraph of the last root which reaches the end of the source has a last entry that ends there and contains a byte
   other than space / tab (its last line is not blank). *)
Definition paraInk (s : bytes) : Prop :=
  forall pre r, fst (parseBlocks s) = pre ++ [r] -> rb_end r = len s ->
  forall d, subB d (rb_blk r) -> bkind d = ParagraphKind -> hasUnparsed d = true -> bend d = len (rb_src r) ->
  exists Upre u i0, bik d = Upre ++ [u] /\ iend u = len (rb_src r) /\ istart u <= i0 < len (rb_src r) /\ isSpTab (at_ (rb_src r) i0) = false.

Definition parseFull_final_newline_paraInk_statement : Prop :=
  forall s, s <> [] -> endsEol s = false -> lastByte s <> 62 -> paraInk s ->
    parseFull (s ++ [10]) = (finFullRoots (len s) (fst (parseFull s)), snd (parseFull s)).

Theorem parseFull_final_newline_paraInk : parseFull_final_newline_paraInk_statement.
Proof.
  intros s Hne Hn H62 Hink. rewrite !parseFull_eq. pose proof (parseBlocks_final_newline s Hne Hn H62) as HB. rewrite HB. cbn [fst snd].
  rewrite refs_fin. set (refs := refsOf' (fst (parseBlocks s))). set (roots := fst (parseBlocks s)) in *. f_equal.
  unfold finFullRoots, finRoots. rewrite <- map_rev. destruct (rev roots) as [|r pre] eqn:Er; [reflexivity|].
  cbn [map]. change (rb_end (rw refs r)) with (rb_end r). destruct (Z.eqb_spec (rb_end r) (len s)) as [Ee|Ne]; [|reflexivity].
  assert (E : roots = rev pre ++ [r]) by (rewrite <- (rev_involutive roots), Er; reflexivity).
  rewrite map_app, map_rev. f_equal. cbn [map]. f_equal.
  assert (Hr : In r (fst (parseBlocks s))) by (fold roots; rewrite E; apply in_or_app; right; left; reflexivity).
  assert (Hr2 : In (finRoot r) (fst (parseBlocks (s ++ [10])))).
  { rewrite HB. cbn [fst]. unfold finRoots. fold roots. rewrite Er. replace (rb_end r =? len s) with true by (symmetry; apply Z.eqb_eq; exact Ee). apply in_or_app. right. left. reflexivity. }
  assert (Hend : 0 < len (rb_src r) -> LADef.isEOLz (at_ (rb_src r) (len (rb_src r) - 1)) = false /\ at_ (rb_src r) (len (rb_src r) - 1) <> 62).
  { intros HL. apply (last_src_facts s (rev pre) r); [fold roots; exact E|exact Ee|exact Hn|exact H62|exact HL]. }
  assert (HqAll : forall d, subB d (rb_blk r) -> hasUnparsed d = true -> forall rf tf pf lf ofu,
     (2 * length (rb_src r ++ [10%Z]) + 10 <= rf)%nat -> (2 * length (rb_src r ++ [10%Z]) + 10 <= tf)%nat -> (8 * length (rb_src r ++ [10%Z]) + 8 <= pf)%nat ->
     (S (length (rb_src r ++ [10%Z])) <= lf)%nat -> (S (length (bik (finB (len (rb_src r)) d))) <= ofu)%nat ->
     parseInlinesG rf tf pf lf ofu (rb_src r ++ [10]) refs (finB (len (rb_src r)) d) = parseInlines (rb_src r ++ [10]) refs (finB (len (rb_src r)) d)).
  { intros d Hd Hu rf tf pf lf ofu R T P Lf O.
    apply (parseFull_fuel_adequate (s ++ [10]) (finRoot r) (finB (len (rb_src r)) d)); try assumption.
    + cbn [finRoot rb_blk]. apply subB_F; [exact Hd|apply (root_cc s r Hr)].
    + rewrite hasUnparsed_F. exact Hu. }
  unfold finFullRoot, rw, finRoot. cbn [rb_line rb_start rb_end rb_src rb_blk]. rewrite bheight_F. f_equal.
  destruct (hbTail (rb_src r)) eqn:Hhb.
  - apply (rewrite_fun_hb s r refs Hr Hend HqAll Hr2 Hhb); [|apply subB_refl|apply le_n].
    intros d Hd HK Hu Hbe. apply (Hink (rev pre) r E Ee d Hd HK Hu Hbe).
  - apply (rewrite_fun_nohb s r refs Hr Hend HqAll Hhb); [apply subB_refl|apply le_n].
Qed.
Print Assumptions parseFull_final_newline_paraInk.
