From Coq Require Import List ZArith Lia Bool.
Import ListNotations.
Require Import Base Tables Utf8 Tree Rdr Link Collect Html Recog Inl3a Inl3b Inl3c Inl3d Inl3e Driver Props.
Require Import ShapesR ShapesComp ShapesComp3 GI6 IS2 IS6b InlineShapes SpanHypDef ShapeHypDef ShapeHyp ComposeShapes.
Require EntDefs.
Require Import BndDefs BndRdr BndTok.
Open Scope Z_scope.

(* ================================================================== *)
(* BndCompose: from the block layer to the tree after the inline pass. *)
(* If every span end of the pre-inline tree of a root block is a        *)
(* character boundary of the root's source (bndB), the source has no    *)
(* continuation byte after an ASCII byte (asciiOK) and does not begin   *)
(* with one, then the same holds after Rewrite.                         *)
(* ================================================================== *)

Lemma bndB_eq src b : bndB src b = boundary_ok src (bstart b) && boundary_ok src (bend b) && forallb (bndB src) (bkids b) && forallb (bndI src) (bik b).
Proof. destruct b; reflexivity. Qed.
Lemma bndB_parts src b : bndB src b = true ->
  boundary_ok src (bstart b) = true /\ boundary_ok src (bend b) = true /\ forallb (bndB src) (bkids b) = true /\ forallb (bndI src) (bik b) = true.
Proof.
  rewrite bndB_eq. intros H. apply andb_true_iff in H. destruct H as [H H4]. apply andb_true_iff in H. destruct H as [H H3].
  apply andb_true_iff in H. tauto.
Qed.
Lemma bndB_set_bik src b ks : bndB src b = true -> forallb (bndI src) ks = true -> bndB src (set_bik b ks) = true.
Proof. intros H Hk. destruct (bndB_parts src b H) as (A & B & C & _). destruct b. cbn in *. rewrite A, B, C, Hk. reflexivity. Qed.
Lemma bndB_set_bkids src b ks : bndB src b = true -> forallb (bndB src) ks = true -> bndB src (set_bkids b ks) = true.
Proof. intros H Hk. destruct (bndB_parts src b H) as (A & B & _ & D). destruct b. cbn in *. rewrite A, B, D, Hk. reflexivity. Qed.

Theorem parseInlines_bnd src m b : asciiOK src -> boundary_ok src 0 = true ->
  bikOK' src b = true -> forallb (bndI src) (bik b) = true -> boundary_ok src (bend b) = true ->
  forallb (bndI src) (parseInlines src m b) = true.
Proof.
  intros HV HV0 H HU He. destruct (bikOK'_parts src b H) as (H1 & H2 & H3 & H4).
  apply (parseInlines_bnd_tok src (bik b) H3 H1 H2 H4 HV HV0); [|reflexivity|exact He].
  intros x Hx. unfold gsp. rewrite forallb_forall in HU. apply HU, Hx.
Qed.

Theorem rewriteB_bnd : forall fuel src m b, asciiOK src -> boundary_ok src 0 = true ->
  shapeHypB fuel src b = true -> bndB src b = true -> bndB src (rewriteB fuel src m b) = true.
Proof.
  induction fuel as [|f IH]; intros src m b HV HV0 Hs Hb; [exact Hb|].
  cbn [shapeHypB] in Hs. cbn [rewriteB]. unfold isLeafU in Hs.
  destruct ((0 <? len (bik b)) && hasUnparsed b) eqn:E.
  - destruct (bndB_parts src b Hb) as (A & B & C & D). apply bndB_set_bik; [exact Hb|].
    apply orb_true_iff in Hs. destruct Hs as [Hs|Hs].
    + rewrite bikOKX'_eq in Hs. apply parseInlines_bnd; assumption.
    + change (emptyOneX (bik b)) with (EntDefs.emptyOne (bik b)) in Hs. rewrite (EntDefs.parseInlines_emptyOne src m b Hs). reflexivity.
  - destruct (bndB_parts src b Hb) as (A & B & C & D). apply bndB_set_bkids; [exact Hb|].
    apply forallb_forall. intros y Hy. apply in_map_iff in Hy. destruct Hy as (c & <- & Hc).
    rewrite forallb_forall in Hs, C. apply IH; [exact HV|exact HV0|apply Hs, Hc|apply C, Hc].
Qed.
Print Assumptions rewriteB_bnd.
