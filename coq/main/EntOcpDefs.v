From Coq Require Import List ZArith Lia Bool.
Import ListNotations.
Require Import Base Tree Rdr Link Collect LP.
Require Import ShapesBase EntBase.
Open Scope Z_scope.

(* onCloseParagraph without the setext "orphan" block *)
Definition ocpRun (src : bytes) (orig : block) : list block :=
  match bik orig with
  | [] => [orig]
  | first :: _ =>
    ocp_loop (S (length (bik orig))) (2 * length src + 10)%nat src orig None (newReader src (bik orig) (istart first)) []
  end.

Lemma onCloseParagraph_run src orig : bkind orig <> SetextHeadingKind -> onCloseParagraph src orig = ocpRun src orig.
Proof.
  intros H. unfold onCloseParagraph, ocpRun. destruct (bik orig) as [|f r]; [reflexivity|]. cbv zeta.
  replace (bkind orig =? SetextHeadingKind) with false by (symmetry; apply Z.eqb_neq; exact H). reflexivity.
Qed.

(* a position that cannot fall inside one of the 3-byte NUL runs of a padded buffer: the byte before it is not NUL *)
Definition bdy (src : bytes) (e : Z) : Prop := e <= 0 \/ len src <= e \/ at_ src (e - 1) <> 0.

Definition ocpRun_spec_statement : Prop := forall src orig E,
  lines src E (bik orig) -> E <= len src -> (forall u, In u (bik orig) -> bstart orig <= istart u) ->
  forall y, In y (ocpRun src orig) ->
    (bkind y = LinkReferenceDefinitionKind /\ bdy src (bend y) /\ bend y <= len src)
    \/ (exists pos n, y = set_bik (set_bstart orig pos) (skipn n (bik orig)) /\ (forall u, In u (skipn n (bik orig)) -> pos <= istart u))
    \/ y = orig.
