From Coq Require Import List ZArith Lia Bool.
Import ListNotations.
Require Import Base Tables Utf8 Tree Rdr Link Collect Html Recog Inl3a Inl3b Inl3c Inl3d Inl3e Props PEProof.
Require Import GI0 GI1 GI2 GI3 GI4 ShapesBase IS0 IS2 IS1.
Open Scope Z_scope.

(* ================================================================== *)
(* IS3: the delimiter chain and the state invariant J.                 *)
(* Every entry of the delimiter stack names exactly one node of the    *)
(* forest (at any depth): a childless Text node whose span selects     *)
(* copies of the delimiter byte ( "[" / "![" for brackets ); these     *)
(* spans are non-empty and increase along the stack, below `hi`.       *)
(* ================================================================== *)

Section Chain.
  Variable src : bytes.

  Definition runOf (c s e : Z) : Prop := forall i, s <= i < e -> at_ src i = c.
  Definition dOK (d : delim) (s e : Z) : Prop :=
    (d_typ d = tStar /\ runOf 42 s e) \/ (d_typ d = tUnder /\ runOf 95 s e) \/
    (d_typ d = tLink /\ e = s + 1 /\ at_ src s = 91) \/
    (d_typ d = tImage /\ e = s + 2 /\ at_ src s = 33 /\ at_ src (s + 1) = 91).

  Fixpoint chain (rk : list pn) (lo : Z) (stk : list delim) (hi : Z) : Prop :=
    match stk with
    | [] => lo <= hi
    | d :: r => exists s e, occF (d_node d) rk = [(TextKind, s, e, true)] /\ lo <= s /\ s < e /\ dOK d s e /\ chain rk e r hi
    end.

  Lemma chain_le rk : forall stk lo hi, chain rk lo stk hi -> lo <= hi.
  Proof.
    induction stk as [|d r IH]; intros lo hi H; [exact H|]. destruct H as (s & e & _ & A & B & _ & C). specialize (IH _ _ C). lia.
  Qed.
  Lemma chain_weaken rk : forall stk lo hi lo' hi', lo' <= lo -> hi <= hi' -> chain rk lo stk hi -> chain rk lo' stk hi'.
  Proof.
    induction stk as [|d r IH]; intros lo hi lo' hi' Hl Hh H; [cbn in *; lia|].
    destruct H as (s & e & A & B & C & D & E). exists s, e. repeat split; try assumption; try lia.
    apply (IH e hi e hi'); [lia|exact Hh|exact E].
  Qed.
  Lemma chain_ext rk rk' : forall stk lo hi, (forall d, In d stk -> occF (d_node d) rk' = occF (d_node d) rk) ->
    chain rk lo stk hi -> chain rk' lo stk hi.
  Proof.
    induction stk as [|d r IH]; intros lo hi He H; [exact H|].
    destruct H as (s & e & A & B & C & D & E). exists s, e. split; [rewrite He by (left; reflexivity); exact A|].
    repeat split; try assumption. apply IH; [|exact E]. intros d' Hd'. apply He. right. exact Hd'.
  Qed.
  Lemma chain_app rk : forall a b lo hi, chain rk lo (a ++ b) hi <-> exists m, chain rk lo a m /\ chain rk m b hi.
  Proof.
    induction a as [|d r IH]; intros b lo hi; cbn [app].
    - split.
      + intros H. exists lo. split; [cbn; lia|exact H].
      + intros (m & A & B). cbn in A. apply (chain_weaken rk b m hi lo hi); [exact A|lia|exact B].
    - cbn [chain]. split.
      + intros (s & e & A & B & C & D & E). apply IH in E. destruct E as (m & E1 & E2).
        exists m. split; [|exact E2]. exists s, e. repeat split; assumption.
      + intros (m & (s & e & A & B & C & D & E) & F). exists s, e. repeat split; try assumption. apply IH. exists m. split; assumption.
  Qed.
  Lemma chain_del rk S1 S2 S3 lo hi : chain rk lo (S1 ++ S2 ++ S3) hi -> chain rk lo (S1 ++ S3) hi.
  Proof.
    intros H. apply chain_app in H. destruct H as (m1 & A & B). apply chain_app in B. destruct B as (m2 & B & C).
    apply chain_app. exists m1. split; [exact A|]. apply (chain_weaken rk S3 m2 hi m1 hi); [|lia|exact C].
    apply (chain_le rk S2). exact B.
  Qed.
  Lemma chain_snoc rk stk lo hi d s e : chain rk lo stk hi -> occF (d_node d) rk = [(TextKind, s, e, true)] ->
    hi <= s -> s < e -> dOK d s e -> chain rk lo (stk ++ [d]) e.
  Proof.
    intros H A B C D. apply chain_app. exists hi. split; [exact H|]. exists s, e. repeat split; try assumption. cbn. lia.
  Qed.
  Lemma chain_In rk : forall stk lo hi d, chain rk lo stk hi -> In d stk ->
    exists s e, occF (d_node d) rk = [(TextKind, s, e, true)] /\ lo <= s /\ s < e /\ e <= hi /\ dOK d s e.
  Proof.
    induction stk as [|x r IH]; intros lo hi d H Hd; [contradiction|].
    destruct H as (s & e & A & B & C & D & E). destruct Hd as [->|Hd].
    - exists s, e. repeat split; try assumption. apply (chain_le rk r). exact E.
    - destruct (IH e hi d E Hd) as (s' & e' & A' & B' & C' & D' & E'). exists s', e'. repeat split; try assumption. lia.
  Qed.
  Lemma chain_map rk (f : delim -> delim) : (forall d, d_node (f d) = d_node d /\ d_typ (f d) = d_typ d) ->
    forall stk lo hi, chain rk lo stk hi -> chain rk lo (map f stk) hi.
  Proof.
    intros Hf. induction stk as [|d r IH]; intros lo hi H; [exact H|]. cbn [map chain].
    destruct H as (s & e & A & B & C & D & E). destruct (Hf d) as [F1 F2]. exists s, e. rewrite F1. repeat split; try assumption.
    - unfold dOK in *. rewrite F2. exact D.
    - apply IH, E.
  Qed.
  (* two entries of a chain name different nodes *)
  Lemma chain_two rk S1 o S2 c S3 lo hi : chain rk lo (S1 ++ o :: S2 ++ c :: S3) hi ->
    exists so eo sc ec, occF (d_node o) rk = [(TextKind, so, eo, true)] /\ occF (d_node c) rk = [(TextKind, sc, ec, true)] /\
      lo <= so /\ so < eo /\ eo <= sc /\ sc < ec /\ ec <= hi /\ dOK o so eo /\ dOK c sc ec /\ d_node o <> d_node c.
  Proof.
    intros H. apply chain_app in H. destruct H as (m1 & H1 & H). destruct H as (so & eo & A & B & C & D & H).
    apply chain_app in H. destruct H as (m2 & H2 & H). destruct H as (sc & ec & A' & B' & C' & D' & H).
    pose proof (chain_le rk _ _ _ H1). pose proof (chain_le rk _ _ _ H2). pose proof (chain_le rk _ _ _ H).
    exists so, eo, sc, ec. repeat split; try assumption; try lia.
    intros E. rewrite E in A. rewrite A in A'. inversion A'. lia.
  Qed.
  Lemma dOK_typ d d' s e : d_typ d' = d_typ d -> dOK d s e -> dOK d' s e.
  Proof. unfold dOK. intros ->. tauto. Qed.
End Chain.

(* ---------------------------------------------------------------- the state invariant *)
Section Inv.
  Variable src : bytes.
  Variable U : list inline.

  Record J (hi : Z) (st : ist) : Prop := {
    j_src : isrc st = src;
    j_unp : unp st = U;
    j_nid : 1 <= nid st;
    j_idb : forallb (idb (nid st)) (rk st) = true;
    j_ids : Forall (fun d => 1 <= d_node d < nid st) (stk st);
    j_cok : cokF src (sids (stk st)) (nid st) (rk st) = true;
    j_chain : chain src (rk st) 0 (stk st) hi;
    j_vok : vokF src (rk st) = true
  }.

  Lemma J_same hi st st' : isrc st' = isrc st -> unp st' = unp st -> nid st' = nid st -> rk st' = rk st -> stk st' = stk st ->
    J hi st -> J hi st'.
  Proof. intros E1 E2 E3 E4 E5 [A B C D E F G V]. constructor; rewrite ?E1, ?E2, ?E3, ?E4, ?E5; assumption. Qed.
  Lemma J_setIgn hi st v : J hi st -> J hi (setIgn st v). Proof. apply J_same; reflexivity. Qed.
  Lemma J_setUpos hi st v : J hi st -> J hi (setUpos st v). Proof. apply J_same; reflexivity. Qed.
  Lemma J_advanceTo hi st p : J hi st -> J hi (advanceTo st p).
  Proof. intros H. unfold advanceTo. destruct (0 <=? _); apply J_setUpos, H. Qed.
  Lemma J_hi hi hi' st : hi <= hi' -> J hi st -> J hi' st.
  Proof. intros Hh [A B C D E F G V]. constructor; try assumption. apply (chain_weaken src _ _ 0 hi 0 hi'); [lia|exact Hh|exact G]. Qed.

  Lemma memZ_sids_range st x : Forall (fun d => 1 <= d_node d < nid st) (stk st) -> memZ x (sids (stk st)) = true -> 1 <= x < nid st.
  Proof.
    intros H Hx. apply memZ_In in Hx. unfold sids in Hx. apply in_map_iff in Hx. destruct Hx as (d & <- & Hd).
    rewrite Forall_forall in H. apply H, Hd.
  Qed.
  Lemma sids0 st : Forall (fun d => 1 <= d_node d < nid st) (stk st) -> memZ 0 (sids (stk st)) = false.
  Proof. intros H. destruct (memZ 0 (sids (stk st))) eqn:E; [|reflexivity]. apply (memZ_sids_range st 0 H) in E. lia. Qed.
  Lemma sidsN st : Forall (fun d => 1 <= d_node d < nid st) (stk st) -> memZ (nid st) (sids (stk st)) = false.
  Proof. intros H. destruct (memZ (nid st) (sids (stk st))) eqn:E; [|reflexivity]. apply (memZ_sids_range st _ H) in E. lia. Qed.

  (* ---- appending a node to the root level ---- *)
  Lemma J_append hi st kind s e kids : J hi st -> (isC kind = true -> nOK src kind s e = true) -> forallb (zok src) kids = true ->
    span_valid (len src) s e = true -> vokF src kids = true ->
    J hi (bumpId (setRk st (rk st ++ [PN (nid st) kind s e 0 [] kids]))).
  Proof.
    intros [A B C D E F G V] Hk Hz Hsv Hkv. constructor; cbn [bumpId setRk isrc unp nid rk stk]; try assumption; try lia.
    - rewrite idbF_app. rewrite (idbF_mono (nid st) (nid st + 1)) by (lia || exact D). cbn [forallb idb andb].
      replace (0 <=? nid st) with true by (symmetry; apply Z.leb_le; lia).
      replace (nid st <? nid st + 1) with true by (symmetry; apply Z.ltb_lt; lia). cbn [andb]. rewrite andb_true_r.
      apply zidF_idbF; [lia|]. apply forallb_forall. intros x Hx. rewrite forallb_forall in Hz. apply zok_zid with (src := src), Hz, Hx.
    - eapply Forall_impl; [|exact E]. cbn. intros d Hd. lia.
    - rewrite cokF_app. apply andb_true_iff. split.
      + eapply cokF_mono; [intros x Hx; exact Hx| |exact F]. lia.
      + unfold cokF. cbn [forallb cok]. rewrite andb_true_r. apply andb_true_iff. split.
        * destruct (isC kind); [|reflexivity]. rewrite Hk by reflexivity. rewrite (sidsN st E).
          replace (0 <=? nid st) with true by (symmetry; apply Z.leb_le; lia).
          replace (nid st <? nid st + 1) with true by (symmetry; apply Z.ltb_lt; lia). reflexivity.
        * apply zokF_cokF; [lia|apply sids0, E|exact Hz].
    - apply (chain_ext src (rk st)); [|exact G]. intros d Hd. rewrite occF_app, occF_cons, occF_nil, occS_eq. cbn [pid pkids].
      rewrite Forall_forall in E. specialize (E d Hd). destruct (Z.eqb_spec (nid st) (d_node d)) as [E1|_]; [lia|]. cbn [app].
      rewrite (occF_zid (d_node d) kids), !app_nil_r; [reflexivity| |lia].
      apply forallb_forall. intros x Hx. rewrite forallb_forall in Hz. apply zok_zid with (src := src), Hz, Hx.
    - rewrite vokF_app, V. cbn [andb vokF forallb vok]. rewrite Hsv. fold (vokF src kids). rewrite Hkv. reflexivity.
  Qed.
  Lemma spanLen_valid s e : (spanLen s e =? 0) = false -> e <= len src -> span_valid (len src) s e = true.
  Proof.
    unfold spanLen. intros H He. destruct (Z.leb_spec 0 s); [|discriminate]. destruct (Z.leb_spec 0 e); [|discriminate].
    destruct (Z.leb_spec s e); [|discriminate]. apply span_valid_intro; lia.
  Qed.
  Lemma J_addNode hi st kind s e kids : J hi st -> (isC kind = true -> nOK src kind s e = true) -> forallb (zok src) kids = true ->
    e <= len src -> vokF src kids = true ->
    J hi (fst (addNode st kind s e kids)).
  Proof.
    intros H Hk Hz He Hkv. unfold addNode. destruct (spanLen s e =? 0) eqn:El; [exact H|]. cbn [fst]. apply J_append; try assumption.
    apply spanLen_valid; assumption.
  Qed.
  Lemma J_addText hi st s e : J hi st -> e <= len src -> J hi (addText st s e).
  Proof. intros H He. unfold addText. apply J_addNode; [exact H|discriminate|reflexivity|exact He|reflexivity]. Qed.

  (* ---- pushing a delimiter with its fresh Text node ---- *)
  Lemma J_push hi st s e typ flags n :
    J hi st -> 0 <= s -> hi <= s -> s < e ->
    dOK src {| d_typ := typ; d_flags := flags; d_n := n; d_node := nid st |} s e ->
    let '(st1, id) := addNode st TextKind s e [] in
    J e (setStk st1 (stk st1 ++ [{| d_typ := typ; d_flags := flags; d_n := n; d_node := id |}])).
  Proof.
    intros HJ Hs Hhi He Hd. unfold addNode.
    replace (spanLen s e =? 0) with false.
    2:{ symmetry. unfold spanLen. replace (0 <=? s) with true by (symmetry; apply Z.leb_le; lia).
        replace (0 <=? e) with true by (symmetry; apply Z.leb_le; lia). replace (s <=? e) with true by (symmetry; apply Z.leb_le; lia).
        cbn [andb]. apply Z.eqb_neq. lia. }
    assert (Hel : e <= len src).
    { unfold dOK in Hd. cbn [d_typ] in Hd. destruct Hd as [(_ & R)|[(_ & R)|[(_ & -> & A1)|(_ & -> & _ & A1)]]].
      - pose proof (R (e - 1) ltac:(lia)) as Hr. pose proof (in_src src (e - 1) ltac:(lia)). lia.
      - pose proof (R (e - 1) ltac:(lia)) as Hr. pose proof (in_src src (e - 1) ltac:(lia)). lia.
      - pose proof (in_src src s ltac:(lia)). lia.
      - pose proof (in_src src (s + 1) ltac:(lia)). lia. }
    pose proof (J_append hi st TextKind s e [] HJ ltac:(discriminate) eq_refl ltac:(apply span_valid_intro; lia) eq_refl) as [A B C D E F G V].
    destruct HJ as [A0 B0 C0 D0 E0 F0 G0 V0].
    cbn [bumpId setRk setStk isrc unp nid rk stk] in *. constructor; cbn [bumpId setRk setStk isrc unp nid rk stk]; try assumption.
    - apply Forall_app. split; [exact E|]. constructor; [cbn; lia|constructor].
    - unfold sids. rewrite map_app. cbn [map d_node]. rewrite cokF_app. apply andb_true_iff. split; [|reflexivity].
      unfold cokF in *. rewrite forallb_forall in *. intros x Hx. specialize (F0 x Hx).
      apply (cok_mono src (map d_node (stk st) ++ [nid st]) _ (nid st) (nid st + 1)); [tauto|lia|].
      apply cok_push; [right; lia|exact F0].
    - apply (chain_snoc src _ _ 0 hi _ s e); try assumption.
      cbn [d_node]. rewrite occF_app. rewrite (occF_idb (nid st) (nid st) (rk st) D0) by lia.
      rewrite occF_cons, occF_nil, occS_eq. cbn [pid pkids app sig pkind ps pe nilb]. rewrite Z.eqb_refl. reflexivity.
  Qed.

  (* ---- dropping entries of the stack ---- *)
  Lemma J_stk_sub hi st v : J hi st -> incl v (stk st) -> chain src (rk st) 0 v hi -> J hi (setStk st v).
  Proof.
    intros [A B C D E F G V] Hi Hc. constructor; cbn [setStk isrc unp nid rk stk]; try assumption.
    - apply Forall_forall. intros d Hd. rewrite Forall_forall in E. apply E, Hi, Hd.
    - eapply cokF_mono; [| apply Z.le_refl |exact F]. intros x Hx. apply memZ_In in Hx. apply memZ_In. unfold sids in *.
      apply in_map_iff in Hx. destruct Hx as (d & <- & Hd). apply in_map, Hi, Hd.
  Qed.
  Lemma J_stk_del hi st S1 S2 S3 : J hi st -> stk st = S1 ++ S2 ++ S3 -> J hi (setStk st (S1 ++ S3)).
  Proof.
    intros H Es. apply J_stk_sub; [exact H| |].
    - rewrite Es. intros x Hx. apply in_app_or in Hx. apply in_or_app. destruct Hx; [left; assumption|right; apply in_or_app; right; assumption].
    - apply (chain_del src _ S1 S2 S3). rewrite <- Es. apply (j_chain _ _ H).
  Qed.
  Lemma J_delStack hi st i j : J hi st -> 0 <= i -> i <= j -> j <= len (stk st) -> J hi (setStk st (delStack (stk st) i j)).
  Proof.
    intros H Hi Hij Hj. destruct (delStack_split (stk st) i j Hi Hij Hj) as (S1 & S2 & S3 & E1 & E2 & _).
    rewrite E2. apply (J_stk_del hi st S1 S2 S3); assumption.
  Qed.
  Lemma J_stk_map hi st (f : delim -> delim) : (forall d, d_node (f d) = d_node d /\ d_typ (f d) = d_typ d) ->
    J hi st -> J hi (setStk st (map f (stk st))).
  Proof.
    intros Hf [A B C D E F G V]. constructor; cbn [setStk isrc unp nid rk stk]; try assumption.
    - apply Forall_forall. intros d Hd. apply in_map_iff in Hd. destruct Hd as (d0 & <- & Hd0). rewrite (proj1 (Hf d0)).
      rewrite Forall_forall in E. apply E, Hd0.
    - replace (sids (map f (stk st))) with (sids (stk st)); [exact F|]. unfold sids. rewrite map_map. apply map_ext. intros d. symmetry. apply Hf.
    - apply chain_map; assumption.
  Qed.
End Inv.
