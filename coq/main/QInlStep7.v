(* QInlStep7.v -- T64 (asm): the reference-link pieces of parseEndBracket on the two sides: the label read from the entries
   (transformLinkReferenceSpan), also when it starts outside every entry, and the plain-side facts about the bracket node. *)
From Coq Require Import List ZArith Lia Bool.
Import ListNotations.
Require Import Base Tables Utf8 Tree Rdr Link Collect Html Recog Inl3a Inl3b Inl3c Inl3d Driver Inl3e Props PEProof.
Require Import ShapesBase ShapesR IFBase IFLink IFCollect GI0 GI1 GI2 GI3 GI4 GI6 IS0 IS2 IS1 IS3 IS4 IS5a IS5b IS5 IS6a IS6b IS6 IFTokDef IFTokAux IFTokUm IFFrame IFTokLoop IFTree IFPe IFTk1 IFTk2 IFTk3 IFTk4.
Require Import SpanSmall SpanHypDef.
Require Import QCutsDef QCuts QIRdrBase QIRdrLink QIRdrCollect QInlDefs QInlBytes QInlBytesEmph QInlHtml QInlTree1 QInlTree2 QInlTree3 QInlTree.
Require Import QInlStep0 QInlStep1 QInlStep2 QInlStep3 QInlStep4 QInlStepF QInlStep5 QInlStep6.
Open Scope Z_scope.

Section Step7.
  Variables (sD sQ : bytes) (sg : Z -> Z) (U : list inline).
  Hypothesis SG : SGood sD sQ sg.
  Hypothesis GP : GapSp sD sQ sg.
  Hypothesis HG : Forall (gsp sD sg U) U.
  Hypothesis HOK : spOK sD U = true.
  Hypothesis HKl : forall u, In u U -> ikids u = [].
  Hypothesis HLn : IS6b.linesOK sD U = true.
  Hypothesis HNG : NoGtBehindLast sD U.
  Hypothesis HTl : tailOKX sD U = true.
  Hypothesis HGN : GapNoParen sD sQ sg.
  Set Default Proof Using "All".
  Local Notation Hy l := (l sD sQ sg U SG GP HG HOK HKl HLn HNG) (only parsing).
  Local Notation Hz l := (l sD sQ sg U SG GP HG HOK HKl HLn HNG HTl HGN) (only parsing).
  Notation tr := (QInlBytes.tr sg).
  Notation IR := (QInlDefs.IR sD sQ sg).
  Notation SL := (QInlTree1.SL sD).
  Notation curU := QInlTree3.curU.
  Notation Ctx := (Ctx sD sQ sg U).
  Notation InIK := (QIRdrBase.InIK U).
  Notation sgE := (QIRdrBase.sgE sD sg).
  Notation HWU := (Hy HW).

  (* ---------------------------------------------------------------- a label that starts outside every entry: one byte is read *)
  Lemma tlr_nospan src sp p e f acc : nodeIdx sp p 0 < 0 -> 0 <= p < len src -> at_ src p <> 0 -> p < e ->
    tlr_loop (S f) (newReader src sp p) e acc = acc ++ [if isSpaceTabOrLineEnding (at_ src p) then 32 else at_ src p].
  Proof.
    intros Hn Hp N0 He. cbn [tlr_loop]. cbn [newReader r_pos]. destruct (Z.leb_spec e p); [lia|].
    unfold current. cbn [newReader r_src r_pos r_vpos]. destruct (Z.leb_spec (len src) p); [lia|].
    unfold curNode, nodeIndexForPosition. cbv zeta. cbn [newReader r_src r_pos r_vpos r_spans r_prev].
    destruct (Z.ltb_spec (nodeIdx sp p 0) 0); [|lia]. cbn [okind]. change (0 =? IndentKind) with false. cbv iota.
    destruct (Z.eqb_spec (at_ src p) 0); [contradiction|].
    set (r1 := {| r_src := src; r_spans := []; r_pos := p; r_vpos := 0; r_prev := -1 |}).
    assert (En : next r1 = (false, r1)) by (unfold next; rewrite (curNode_nil r1 eq_refl); reflexivity).
    destruct (isSpaceTabOrLineEnding (at_ src p)); rewrite En; reflexivity.
  Qed.

  Lemma q_tlrs f p e : 0 <= p -> p < e -> InIK e ->
    transformLinkReferenceSpan f sQ (map (mvS sg) U) (sg p) (sg e) = transformLinkReferenceSpan f sD U p e.
  Proof.
    intros Hp Hpe (w & Hw & Hin). pose proof ((Hy U_gsp) w Hw) as (Wa & Wb & Wc & _).
    destruct (nodeIdx_split U p 0 ltac:(lia)) as [Hneg|(_ & pre & n & rest & E1 & _ & E3)].
    - unfold transformLinkReferenceSpan. f_equal. f_equal. destruct f as [|f]; [reflexivity|].
      pose proof (bnodeIdx_mvS sD sQ sg U SG U p 0 HG ltac:(lia)) as En. rewrite (bsgE_in sD sQ sg SG) in En by lia.
      rewrite (tlr_nospan sD U p e f [] Hneg ltac:(lia) ltac:(apply (SG_nonul _ _ _ SG); lia) Hpe).
      rewrite (tlr_nospan sQ (map (mvS sg) U) (sg p) (sg e) f []).
      + rewrite (SG_at _ _ _ SG p) by lia. reflexivity.
      + rewrite En. exact Hneg.
      + split; [apply (SG_nn _ _ _ SG); lia|apply (SG_lt _ _ _ SG); lia].
      + rewrite (SG_at _ _ _ SG p) by lia. apply (SG_nonul _ _ _ SG); lia.
      + apply (SG_mono _ _ _ SG); lia.
    - pose proof (spanHas_range _ _ E3) as (R1 & R2 & R3).
      assert (Hn : In n U) by (rewrite E1; apply in_or_app; right; left; reflexivity).
      rewrite <- (bsgE_in sD sQ sg SG p) by lia.
      apply (q_transformLinkReferenceSpan sD sQ sg SG U HWU HG e (sg e) ltac:(lia) ltac:(right; split; [exists w; split; assumption|reflexivity]) f U p
               ltac:(exists []; reflexivity) ltac:(lia)).
      right. left. exists n. split; [exact Hn|lia].
  Qed.

  (* ---------------------------------------------------------------- the plain side: the opener found by lookForLinkOrImage (IS5.parseEndBracket_J replayed) *)
  Notation J := (IS3.J sD U).
  Lemma HUk : forall u, In u U -> ikids u = []. Proof. exact HKl. Qed.

  Lemma bracket_plain st start hi odi : MI true U st -> J hi st -> hi <= start -> at_ sD start = 93 -> 0 <= odi < len (stk st) ->
    (d_typ (nthD (stk st) odi) = tLink \/ d_typ (nthD (stk st) odi) = tImage) ->
    let od := nthD (stk st) odi in let kind := if d_typ od =? tImage then ImageKind else LinkKind in
    exists low high pre M sb eb s0 e0,
      stk st = low ++ od :: high /\ len low = odi /\ In (d_node od) (ids (rk st)) /\
      rk st = pre ++ M /\ forallb (idb (nid st)) pre = true /\
      LS st pre M kind [] [] s0 e0 (fst (wrap st kind (d_node od) None)) /\
      occF (d_node od) (rk st) = [(TextKind, sb, eb, true)] /\ 0 <= sb /\ sb < eb /\ eb <= hi /\ IS3.dOK sD od sb eb /\
      ps (nodeOf st (d_node od)) = sb /\ pe (nodeOf st (d_node od)) = eb /\ 1 <= d_node od < nid st /\
      (forall T rf E st3, LS st pre M kind T rf sb E st3 -> start + 1 <= E -> (at_ sD (E - 1) = 93 \/ at_ sD (E - 1) = 41) ->
         forallb (zok sD) T = true -> vokF sD T = true -> J hi st3).
  Proof.
    intros HM HJ Hhi H93 Hr Htyp. cbv zeta.
    assert (Hs93 : 0 <= start < len sD) by (apply in_src; rewrite H93; discriminate).
    destruct (split_at1 (stk st) odi Hr) as (low & high & Es & Hlow).
    remember (nthD (stk st) odi) as od eqn:Eod.
    remember (if d_typ od =? tImage then ImageKind else LinkKind) as kind eqn:Ekind.
    pose proof HM as [M1 M2 M3 M4 M5 M6 M7 M8 M9 M10].
    assert (Hod_in : In od (stk st)) by (rewrite Es; apply in_or_app; right; left; reflexivity).
    assert (Hod : In (d_node od) (ids (rk st))).
    { apply (al_In _ _ _ M6). unfold GI3.sids. apply in_map, Hod_in. }
    destruct (splitAtId (d_node od) (rk st)) as [pre M] eqn:Esplit.
    assert (Erk : rk st = pre ++ M) by (pose proof (sAt_app (d_node od) (rk st)) as Happ; rewrite Esplit in Happ; exact Happ).
    assert (Hpre : forallb (idb (nid st)) pre = true).
    { pose proof (j_idb _ _ _ _ HJ) as D. rewrite Erk, idbF_app in D. apply andb_true_iff in D. tauto. }
    destruct (wrap_None_LS st kind (d_node od) pre M Hod Esplit) as (s0 & e0 & LS0).
    destruct (chain_In sD _ _ _ _ od (j_chain _ _ _ _ HJ) Hod_in) as (sb & eb & Ob & Hsb & Hseb & Hebhi & Dob).
    pose proof (nodeOf_occ st _ _ Ob) as Sb.
    assert (Epsb : ps (nodeOf st (d_node od)) = sb) by (unfold sig in Sb; inversion Sb; reflexivity).
    assert (Epeb : pe (nodeOf st (d_node od)) = eb) by (unfold sig in Sb; inversion Sb; reflexivity).
    assert (Hshape : forall E, start + 1 <= E -> (at_ sD (E - 1) = 93 \/ at_ sD (E - 1) = 41) -> isC kind = true -> nOK sD kind sb E = true).
    { intros E HE Hlast _. subst kind. unfold IS3.dOK, tStar, tUnder, tLink, tImage in *.
      destruct Dob as [(T & _)|[(T & _)|[(T & Ee & A1)|(T & Ee & A1 & A2)]]]; try (destruct Htyp as [Ht|Ht]; rewrite Ht in T; discriminate).
      - rewrite T. cbn [Z.eqb]. apply link_shape; try assumption; lia.
      - rewrite T. cbn [Z.eqb]. apply image_shape; try assumption; lia. }
    assert (HkC : isC kind = true) by (subst kind; destruct (_ =? tImage); reflexivity).
    exists low, high, pre, M, sb, eb, s0, e0.
    split; [exact Es|]. split; [exact Hlow|]. split; [exact Hod|]. split; [exact Erk|]. split; [exact Hpre|]. split; [exact LS0|].
    split; [exact Ob|]. split; [lia|]. split; [exact Hseb|]. split; [exact Hebhi|]. split; [exact Dob|]. split; [exact Epsb|]. split; [exact Epeb|].
    split. { pose proof (j_ids _ _ _ _ HJ) as Hids. rewrite Forall_forall in Hids. apply Hids, Hod_in. }
    intros T rf E st3 HLS HE Hlast HT HTv.
    pose proof (Hshape E HE Hlast HkC) as Hn. pose proof Hn as Hn2. unfold nOK in Hn2. apply andb_true_iff in Hn2. destruct Hn2 as [Hsv _].
    apply (J_of_LS sD U hi st pre M kind T rf sb E st3 HJ Erk HLS); [intros _; exact Hn|exact HT|exact Hsv|exact HTv].
  Qed.

  (* ---------------------------------------------------------------- the wrapper node (IS5.LS): SL, the kind of the wrapper *)
  Notation RR := (QIRdrBase.RR sD sQ sg U true).
  Lemma LS_SL st pre M kind T rfv s e st3 : SL (rk st) -> rk st = pre ++ M -> LS st pre M kind T rfv s e st3 -> splitK kind = false ->
    forallb zid T = true -> 1 <= nid st -> SL (rk st3).
  Proof.
    intros HS Er ((ind & Er3) & _) Hk HT Hn. rewrite Er in HS. apply (SL_app sD) in HS. destruct HS as [Sp Sm]. rewrite Er3.
    apply (SL_app sD). split; [exact Sp|]. constructor; [|constructor]. constructor.
    - intros _. apply sgl_nosplit. exact Hk.
    - cbn [pkids]. apply (SL_app sD). split; [exact Sm|]. unfold QInlTree1.SL. apply Forall_forall. intros n Hin. apply SLn_zid.
      rewrite forallb_forall in HT. apply HT, Hin.
  Qed.
  Lemma LS_occ st pre M kind T rfv s e st3 n : forallb (idb (nid st)) (pre ++ M) = true -> LS st pre M kind T rfv s e st3 ->
    forallb zid T = true -> 1 <= nid st -> In (sig n) (occF (nid st) (rk st3)) -> pkind n = kind.
  Proof.
    intros Hb ((ind & Er3) & _) HT Hn Hin. rewrite idbF_app in Hb. apply andb_true_iff in Hb. destruct Hb as [Hp Hm].
    rewrite Er3, occF_app, occF_cons, occF_nil, occS_eq in Hin. cbn [pid pkids] in Hin. rewrite Z.eqb_refl in Hin.
    rewrite (occF_idb (nid st) (nid st) pre Hp ltac:(lia)) in Hin. rewrite occF_app in Hin.
    rewrite (occF_idb (nid st) (nid st) M Hm ltac:(lia)), (occF_zid (nid st) T HT ltac:(lia)) in Hin. cbn [app] in Hin.
    destruct Hin as [Hin|[]]. unfold sig in Hin. cbn [pkind] in Hin. inversion Hin. reflexivity.
  Qed.
  Lemma LS_fields st pre M kind T rfv s e st3 : LS st pre M kind T rfv s e st3 ->
    nid st3 = nid st + 1 /\ stk st3 = stk st /\ unp st3 = unp st /\ isrc st3 = isrc st.
  Proof. intros (_ & A & B & C & D). repeat split; assumption. Qed.

  (* ---------------------------------------------------------------- PosR only reads the entries and the cursor *)
  Notation PosR := (QInlStep1.PosR sg U).
  Lemma PosR_frame a a' b b' p q p' q' : fr a b -> upos b = upos a -> fr a' b' -> upos b' = upos a' ->
    PosR a a' p q p' q' -> PosR b b' p q p' q'.
  Proof.
    intros [E0 E1] E2 [E0' E3] E4 [H1 H2]. unfold QInlStep1.PosR, QInlTree3.curU, spanEnd. rewrite E0, E1, E2, E0', E3, E4. split; [exact H1|exact H2].
  Qed.

  (* ---------------------------------------------------------------- advanceTo (E - 1) in general: the last byte of the construct lies in an
     entry, or behind all entries *)
  Lemma adv_end st st' E : IR st st' -> SL (rk st) -> unp st = U -> 0 <= upos st < len U -> istart (curU st) < E -> E <= len sD ->
    (InIK (E - 1) \/ forall v, In v U -> iend v <= E - 1) ->
    IR (advanceTo st (E - 1)) (advanceTo st' (sg (E - 1))) /\ rk (advanceTo st (E - 1)) = rk st /\ unp (advanceTo st (E - 1)) = U /\
    PosR (advanceTo st (E - 1)) (advanceTo st' (sg (E - 1))) E E (sg (E - 1) + 1) (sg (E - 1) + 1).
  Proof.
    intros HI HS Eu Hu H1 Hle [Hin|Hbeh].
    - destruct ((Hy adv_before) st st' E HI HS Eu Hu H1 Hin) as (A & B & C & D & F & G). cbv zeta in *.
      split; [exact A|]. split; [exact B|]. split; [exact C|]. split; [|intros L; lia].
      intros _. cbv zeta. repeat split; try lia; exact G.
    - assert (Hin : In (curU st) U) by (unfold QInlTree3.curU; rewrite Eu; apply nth_In_Z; exact Hu).
      pose proof ((Hy U_gsp) _ Hin) as (Ua & Ub & Uc & _). pose proof (Hbeh _ Hin) as Hb0.
      pose proof (IR_advanceTo sD sQ sg SG U st st' (E - 1) HI ((Hy unpFrom_gsp) st Eu) ltac:(lia)) as HI2.
      rewrite (bsgE_in sD sQ sg SG) in HI2 by lia.
      assert (Hrk : rk (advanceTo st (E - 1)) = rk st) by (unfold advanceTo; destruct (0 <=? _); reflexivity).
      assert (Hun : unp (advanceTo st (E - 1)) = U) by (destruct (fr_advanceTo st (E - 1)) as [_ ->]; exact Eu).
      assert (Eup : upos (advanceTo st (E - 1)) = len U).
      { unfold advanceTo, nodeIndexForPosition. rewrite (nodeIdx_behind (unpFrom st) (E - 1) 0).
        - cbn [Z.leb Z.compare upos setUpos]. rewrite Eu. reflexivity.
        - intros v Hv. apply Hbeh. destruct ((Hy unpFrom_suffix) st Eu) as (pre & Ep). rewrite Ep. apply in_or_app. right. exact Hv. }
      split; [exact HI2|]. split; [exact Hrk|]. split; [exact Hun|]. split; [intros L; lia|]. intros _.
      destruct (@exists_last _ U ltac:(intros E0; rewrite E0 in Hin; destruct Hin)) as (pre & l & EU).
      assert (Hl : In l U) by (rewrite EU; apply in_or_app; right; left; reflexivity).
      pose proof ((Hy U_gsp) l Hl) as (La & Lb & Lc & T & _). pose proof (Hbeh l Hl) as Hbl.
      destruct (spanEnd_q_last sD sQ sg (advanceTo st (E - 1)) (advanceTo st' (sg (E - 1))) l pre HI2 ltac:(rewrite Hun; lia) ltac:(rewrite Hun; exact EU)) as [S1 S2].
      rewrite S1, S2. split; [lia|]. pose proof (T (iend l - 1) ltac:(lia)) as Tl. pose proof ((Hy sg_le') (iend l - 1) (E - 1) ltac:(lia) ltac:(lia)). lia.
  Qed.

  (* ---------------------------------------------------------------- collectTextNodes with one common fuel *)
  Notation qPs := (QInlDefs.qPs sD sg).
  Notation qI3 := (QInlDefs.qI3 sD sg).
  Lemma q_collectF f st st' tk p e e' esc : len sD < Z.of_nat f -> IR st st' -> unp st = U -> splitK tk = true -> 0 <= e <= len sD ->
    ((InIK (e - 1) /\ e' = sg (e - 1) + 1) \/ (InIK e /\ e' = sg e)) ->
    0 <= p <= len sD -> InE sD sQ sg U (unpFrom st) p ->
    collectTextNodes f (newReader sQ (unpFrom st') (sgE p)) e' tk esc = flat_map qI3 (collectTextNodes f (newReader sD (unpFrom st) p) e tk esc) /\
    Forall (inR sD tk) (collectTextNodes f (newReader sD (unpFrom st) p) e tk esc).
  Proof.
    intros Hf HI Eu Htk He Hok Hp Hin. rewrite (unpFrom_q sD sQ sg st st' HI).
    pose proof ((Hy unpFrom_spW) st Eu) as W. pose proof ((Hy unpFrom_bud) st Eu) as B.
    pose proof (nu_new sD (unpFrom st) p W) as Hnu. rewrite B in Hnu.
    apply (q_collectTextNodes_qI3 sD sQ sg SG U HWU HG tk Htk e e' f (unpFrom st) p esc He Hok ((Hy unpFrom_suffix) st Eu) Hp Hin). lia.
  Qed.

  (* ---------------------------------------------------------------- the label read from the entries, start <= end *)
  Lemma tlrs_empty f src sp p : transformLinkReferenceSpan f src sp p p = transformLinkReferenceSpan 0 src sp p p.
  Proof.
    unfold transformLinkReferenceSpan. f_equal. f_equal. destruct f as [|f]; [reflexivity|]. cbn [tlr_loop newReader r_pos].
    destruct (Z.leb_spec p p); [reflexivity|lia].
  Qed.
  Lemma q_tlrs_le f p e : 0 <= p -> p <= e -> InIK e ->
    transformLinkReferenceSpan f sQ (map (mvS sg) U) (sg p) (sg e) = transformLinkReferenceSpan f sD U p e.
  Proof.
    intros Hp Hpe Hin. destruct (Z.eq_dec p e) as [<-|N]; [|apply q_tlrs; [exact Hp|lia|exact Hin]].
    rewrite (tlrs_empty f sQ), (tlrs_empty f sD). reflexivity.
  Qed.

  (* ---------------------------------------------------------------- where a link label ends *)
  Lemma q_label_end f r r' : RR r r' -> spanValid (fst (fst (parseLinkLabel f r))) = true ->
    InIK (snd (fst (fst (parseLinkLabel f r))) - 1) \/ forall v, In v U -> iend v <= snd (fst (fst (parseLinkLabel f r))) - 1.
  Proof.
    intros H. unfold parseLinkLabel.
    pose proof (bRR_current sD sQ sg U true SG r r' H) as [Ec0 H0]. destruct (current r) as [c r0] eqn:Ec. destruct (current r') as [c' r0'] eqn:Ec'. cbn [fst snd] in Ec0, H0. subst c'.
    destruct (Z.eqb_spec c 91) as [E91|N91]; cbn [negb]; [|cbn; discriminate].
    pose proof (q_ll_skip sD sQ sg U SG HWU f r0 r0' 0 H0) as HS. unfold OptR in HS.
    destruct (ll_skip f r0 0) as [[r1 chars]|]; destruct (ll_skip f r0' 0) as [[r1' chars']|]; try (exfalso; exact HS); [|cbn; discriminate].
    destruct HS as (-> & H1 & P1 & HN1).
    pose proof (q_ll_body sD sQ sg U SG HWU f r1 r1' chars (r_pos r1) (-1) (-1) H1 HN1 ltac:(lia) ltac:(left; split; reflexivity)) as HB. unfold OptR in HB.
    destruct (ll_body f r1 chars (-1)) as [[r2 ie]|]; destruct (ll_body f r1' chars (-1)) as [[r2' ie']|]; try (exfalso; exact HB); [|cbn; discriminate].
    destruct HB as (H2 & Hie & P2).
    pose proof (bRR_current sD sQ sg U true SG r2 r2' H2) as [Ec3 H3]. destruct (current r2) as [c2 r3] eqn:Ec2. destruct (current r2') as [c2' r3'] eqn:Ec2'. cbn [fst snd] in Ec3, H3. subst c2'.
    destruct (QIRdrLink.cur_pos r2 c2 r3 Ec2) as [Q3 _].
    destruct (Z.eqb_spec c2 93) as [E93|N93]; cbn [negb]; [|cbn; discriminate].
    destruct (cur_byte sD sQ sg U SG r2 r2' c2 r3 H2 Ec2 ltac:(lia)) as [L2 A2].
    destruct (next r3) as [ok4 r4]. cbn [fst snd]. intros _. replace (r_pos r3 + 1 - 1) with (r_pos r3) by lia.
    destruct (RR_mid sD sQ sg U SG r3 r3' H3 ltac:(lia)) as [HN|(_ & _ & _ & HX)]; [left; apply (InNode_InIK sD sQ sg U SG r3 r3' H3 HN)|right; exact HX].
  Qed.
End Step7.
