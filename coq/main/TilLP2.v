From Coq Require Import List ZArith Lia Bool.
Import ListNotations.
Require Import Base Tree Rdr Link Collect Html Recog LP Rules Starts Driver Render L2Kind L2CC GramDefs GramTree GramLP GramLP2 GramLP3
  Rec17 Rec18 BSOrph BSClose BSLine1 BSLine2 BSLine3 TilBase TilDefs TilLP1.
Open Scope Z_scope.

(* ================= closing and opening blocks ================= *)

(* what closing an open root child at e must deliver *)
Definition CLok (s : bytes) (e : Z) (L : list block) : Prop :=
  (forall x, In x L -> good s (bend x)) /\
  (forall x, In x L -> isOpen x = false) /\
  (forall x, lastL L = Some x -> blankR s (bend x) e) /\
  L <> [].
(* the paragraph case (link reference definitions are split off): proved in TilOcp.v *)
Definition OcpPara : Prop :=
  forall f s c e m, isOpen c = true -> bkind c = ParagraphKind -> PIk s m (bik c) -> m <= e -> blankR s m e ->
    good s e -> 0 <= e <= len s -> CLok s e (closeBlock (S f) s c e).

Lemma CL_nonpara f s c e : isOpen c = true -> bkind c <> ParagraphKind -> bkind c <> SetextHeadingKind -> 0 <= e -> good s e ->
  CLok s e (closeBlock (S f) s c e).
Proof.
  intros Ho N1 N2 He Hg. unfold isOpen in Ho. apply Z.ltb_lt in Ho.
  assert (Hall : forall y, In y (closeBlock (S f) s c e) -> bend y = e) by (intros y; apply closeBlock_single; assumption).
  split; [|split; [|split]].
  - intros x Hx. rewrite (Hall x Hx). exact Hg.
  - intros x Hx. unfold isOpen. rewrite (Hall x Hx). apply Z.ltb_ge. exact He.
  - intros x Hx. rewrite (Hall x (lastL_In _ _ Hx)). apply blankR_empty. lia.
  - apply closeBlock_nonnil.
Qed.

(* ---- the shape of the root children after an update at the root ---- *)
Lemma kids_closeAt0 p e c : lastBlock (root p) = Some c ->
  bkids (root (closeLastChildAt p O e)) = removelast (bkids (root p)) ++ closeBlock (bheight (root p)) (source p) c e.
Proof. intros El. unfold closeLastChildAt. cbn [root withRoot setLP updAt]. rewrite El. unfold set_lastBlocks. apply bkids_set_bkids. Qed.
Lemma root_closeAt0_none p e : lastBlock (root p) = None -> root (closeLastChildAt p O e) = root p.
Proof. intros El. unfold closeLastChildAt. cbn [root withRoot setLP updAt]. rewrite El. reflexivity. Qed.
Lemma kids_closeAt0_closed p e c : top p = Some c -> isOpen c = false -> bkids (root (closeLastChildAt p O e)) = bkids (root p).
Proof.
  intros Ht Ho. unfold top in Ht. rewrite <- lastBlock_lastL in Ht. rewrite (kids_closeAt0 p e c Ht).
  rewrite closeBlock_closed; [symmetry; apply lastBlock_kids, Ht|]. unfold isOpen in Ho. apply Z.ltb_ge in Ho. exact Ho.
Qed.
Lemma closeAt_fields p d e : source (closeLastChildAt p d e) = source p /\ lineStart (closeLastChildAt p d e) = lineStart p /\
  line (closeLastChildAt p d e) = line p /\ li (closeLastChildAt p d e) = li p /\ cdepth (closeLastChildAt p d e) = cdepth p.
Proof. repeat split. Qed.
Lemma fr_closeAt p d e : fr p (closeLastChildAt p d e). Proof. apply fr_fields; reflexivity. Qed.

(* root children after closing the open last one *)
Lemma removelast_app_nonnil {A} (l l' : list A) : l' <> [] -> removelast (l ++ l') = l ++ removelast l'.
Proof. intros H. apply removelast_app. exact H. Qed.
Lemma T0_close0 p e c : top p = Some c -> isOpen c = true ->
  CLok (source p) e (closeBlock (bheight (root p)) (source p) c e) -> TA p -> TC p -> T0 (closeLastChildAt p O e).
Proof.
  intros Ht Ho (C1 & C2 & C3 & C4) A F.
  assert (El : lastBlock (root p) = Some c) by (rewrite lastBlock_lastL; exact Ht).
  set (L := closeBlock (bheight (root p)) (source p) c e) in *.
  assert (Ek : bkids (root (closeLastChildAt p O e)) = removelast (bkids (root p)) ++ L) by (apply kids_closeAt0, El).
  assert (Etop : top (closeLastChildAt p O e) = lastL L) by (unfold top; rewrite Ek; apply lastL_app, C4).
  unfold T0, TA, TP, TS, TC. rewrite Etop, Ek. change (source (closeLastChildAt p 0 e)) with (source p). repeat split.
  - intros x Hx Hb. apply in_app_or in Hx. destruct Hx as [Hx|Hx]; [apply A; [apply removelast_In, Hx|exact Hb]|apply C1; assumption].
  - intros x Hx Hox Hk. rewrite (C2 x (lastL_In _ _ Hx)) in Hox. discriminate.
  - intros x Hx Hox Hk. rewrite (C2 x (lastL_In _ _ Hx)) in Hox. discriminate.
  - intros x Hx. rewrite removelast_app_nonnil in Hx by exact C4. apply in_app_or in Hx.
    destruct Hx as [Hx|Hx]; [apply F, Hx|apply C2, removelast_In, Hx].
Qed.
(* after closing at the root, the last root child is closed *)
Lemma top_close0 p e c : top p = Some c -> isOpen c = true ->
  CLok (source p) e (closeBlock (bheight (root p)) (source p) c e) ->
  forall x, top (closeLastChildAt p O e) = Some x -> isOpen x = false.
Proof.
  intros Ht Ho (C1 & C2 & C3 & C4) x Hx.
  assert (El : lastBlock (root p) = Some c) by (rewrite lastBlock_lastL; exact Ht).
  unfold top in Hx. rewrite (kids_closeAt0 p e c El), lastL_app in Hx by exact C4. apply C2. eapply lastL_In. exact Hx.
Qed.

Lemma ksim_eq l l' : l' = l -> ksim l l'. Proof. intros ->. apply ksim_refl. Qed.

Section WithOcp.
  Hypothesis HOP : OcpPara.

  (* closing the last root child at the start of the line *)
  Lemma CL_top_ls_fuel p c f : EV p -> T0 p -> top p = Some c -> isOpen c = true ->
    CLok (source p) (lineStart p) (closeBlock (S f) (source p) c (lineStart p)).
  Proof.
    intros (E1 & E2 & E3 & E4) (A & D & E & F) Ht Ho.
    destruct (Z.eq_dec (bkind c) ParagraphKind) as [Ek|Nk].
    - destruct (D c Ht Ho Ek) as (m & P1 & P2 & P3). apply (HOP f (source p) c (lineStart p) m); try assumption; try lia.
    - apply CL_nonpara; [exact Ho|exact Nk|apply (E c Ht Ho)|lia|exact E4].
  Qed.
  Lemma CL_top_ls p c : EV p -> T0 p -> top p = Some c -> isOpen c = true ->
    CLok (source p) (lineStart p) (closeBlock (bheight (root p)) (source p) c (lineStart p)).
  Proof. intros HE H Ht Ho. destruct (bheight_S (root p)) as (n & ->). apply CL_top_ls_fuel; assumption. Qed.

  (* closeLastChildAt at the line start keeps the weak invariant, at every depth *)
  Lemma T0_closeAt_ls p d : EV p -> T0 p -> T0 (closeLastChildAt p d (lineStart p)).
  Proof.
    intros HE H. destruct d as [|d].
    - destruct (top p) as [c|] eqn:Ht.
      + destruct (isOpen c) eqn:Ho.
        * apply (T0_close0 p _ c Ht Ho); [apply CL_top_ls; assumption|apply H|apply H].
        * apply (T0_ksim p); [reflexivity|reflexivity| |exact H]. apply ksim_eq. apply (kids_closeAt0_closed p _ c Ht Ho).
      + apply (T0_same p); [|reflexivity|reflexivity|exact H]. apply root_closeAt0_none. rewrite lastBlock_lastL. exact Ht.
    - apply (T0_ksim p); [reflexivity|reflexivity| |exact H]. unfold closeLastChildAt. cbn [root withRoot setLP].
      apply ksim_updAt. intros _ x _. unfold closeF. destruct (lastBlock x); [apply sameH_set_lastBlocks|apply sameH_refl].
  Qed.

  Definition TI0 (p : lp) : Prop := GI p /\ EV p /\ T0 p.
  Lemma TI_TI0 p : TI p -> TI0 p. Proof. intros (A & B & C). split; [exact A|split; [exact B|apply TT_T0, C]]. Qed.

  Lemma TI0_openBlock_up : forall fuel p K, TI0 p -> TI0 (openBlock_up fuel p K).
  Proof.
    induction fuel as [|f IH]; intros p K H; [exact H|]. cbn [openBlock_up].
    destruct (canContain _ _); [exact H|]. destruct (cdepth p) as [|d] eqn:Ed.
    - destruct H as (A & B & C). split; [apply GI_panic, A|]. split; [eapply EV_fr; [|exact B]; apply fr_fields; reflexivity|].
      apply (T0_same p); [| | |exact C]; reflexivity.
    - apply IH. destruct H as (A & B & C). split; [apply GI_closeAt; [exact A|lia|lia]|].
      split; [eapply EV_fr; [|exact B]; apply fr_fields; reflexivity|].
      apply (T0_same (closeLastChildAt p d (lineStart p))); [| | |apply (T0_closeAt_ls p d B C)]; reflexivity.
  Qed.

  (* after closing the last child of the root, that child is closed *)
  Lemma top_closeAt0_ls p : EV p -> T0 p -> forall x, top (closeLastChildAt p O (lineStart p)) = Some x -> isOpen x = false.
  Proof.
    intros HE H x Hx. destruct (top p) as [c|] eqn:Ht.
    - destruct (isOpen c) eqn:Ho.
      + apply (top_close0 p (lineStart p) c Ht Ho); [apply CL_top_ls; assumption|exact Hx].
      + unfold top in Hx. rewrite (kids_closeAt0_closed p _ c Ht Ho) in Hx. unfold top in Ht. rewrite Ht in Hx. inversion Hx; subst x. exact Ho.
    - exfalso. unfold top in Hx. rewrite root_closeAt0_none in Hx by (rewrite lastBlock_lastL; exact Ht).
      unfold top in Ht. rewrite Ht in Hx. discriminate.
  Qed.

  (* closing the last child of the container at the line start *)
  Lemma TI_closeHere_ls p : TI p -> TI (closeLastChildAt p (cdepth p) (lineStart p)).
  Proof.
    intros (A & B & C). split; [apply GI_closeHere, A|]. split; [eapply EV_fr; [apply fr_closeAt|exact B]|].
    pose proof (T0_closeAt_ls p (cdepth p) B (TT_T0 p C)) as H0.
    destruct (cdepth p) as [|d] eqn:Ed.
    - pose proof (top_closeAt0_ls p B (TT_T0 p C)) as Hcl.
      destruct C as (CA & CB1 & CB2 & CD & CE & CF). destruct H0 as (A' & D' & E' & F').
      set (p' := closeLastChildAt p O (lineStart p)) in *.
      assert (Hq : quiet p) by (left; exact Ed).
      split; [exact A'|]. split; [|split; [|split; [exact D'|split; [exact E'|exact F']]]].
      + (* the consumed part of the line *)
        intros _ Ho'. change (B1 p). destruct (top p) as [c|] eqn:Ht.
        * destruct (isOpen c) eqn:Ho.
          -- apply CB1; [exact Hq|]. intros c0 Hc0. rewrite Ht in Hc0. inversion Hc0; subst c0. exact Ho.
          -- exfalso. assert (Et : top p' = Some c).
             { unfold top, p'. rewrite (kids_closeAt0_closed p _ c Ht Ho). exact Ht. }
             rewrite (Ho' c Et) in Ho. discriminate.
        * apply CB1; [exact Hq|]. intros c0 Hc0. rewrite Ht in Hc0. discriminate.
      + intros _ x Hx Hox. change (blankR (source p) (bend x) (cur p)).
        destruct (top p) as [c|] eqn:Ht.
        * destruct (isOpen c) eqn:Ho.
          -- assert (El : lastBlock (root p) = Some c) by (rewrite lastBlock_lastL; exact Ht).
             pose proof (CL_top_ls p c B (conj CA (conj CD (conj CE CF))) Ht Ho) as (C1 & C2 & C3 & C4).
             assert (Etop : top p' = lastL (closeBlock (bheight (root p)) (source p) c (lineStart p))).
             { unfold top, p'. rewrite (kids_closeAt0 p _ c El). apply lastL_app, C4. }
             rewrite Etop in Hx. eapply blankR_app; [apply (C3 x Hx)|]. apply sptR_blankR.
             apply CB1; [exact Hq|]. intros c0 Hc0. rewrite Ht in Hc0. inversion Hc0; subst c0. exact Ho.
          -- assert (Et : top p' = Some c) by (unfold top, p'; rewrite (kids_closeAt0_closed p _ c Ht Ho); exact Ht).
             rewrite Et in Hx. inversion Hx; subst x. apply (CB2 Ed c Ht Ho).
        * exfalso. unfold top, p' in Hx. rewrite root_closeAt0_none in Hx by (rewrite lastBlock_lastL; exact Ht).
          unfold top in Ht. rewrite Ht in Hx. discriminate.
    - apply (TT_ksim p); [reflexivity|reflexivity|reflexivity|reflexivity| |exact C].
      unfold closeLastChildAt. cbn [root withRoot setLP].
      apply ksim_updAt. intros _ x _. unfold closeF. destruct (lastBlock x); [apply sameH_set_lastBlocks|apply sameH_refl].
  Qed.
End WithOcp.

(* ---- a container at depth >= 2, or at depth 1 with children: loud ---- *)
Lemma getAt2_top p y : getAt 2 (root p) = Some y -> exists c, top p = Some c /\ lastBlock c = Some y.
Proof.
  rewrite getAt_S. rewrite lastBlock_lastL. fold (top p). destruct (top p) as [c|]; [|discriminate].
  cbn [getAt]. destruct (lastBlock c) as [z|] eqn:El; [|discriminate]. intros E. inversion E; subst z. exists c. split; [reflexivity|exact El].
Qed.
Lemma loud_deep p : ccP p -> (exists y, getAt 2 (root p) = Some y) -> (1 <= cdepth p)%nat -> loud p.
Proof.
  intros (A & B & _) (y & Hy) Hd. split; [lia|]. intros c _ Hc Hk.
  destruct (getAt2_top p y Hy) as (c' & Hc' & El). rewrite Hc in Hc'. inversion Hc'; subst c'.
  assert (Hcc : cc c = true).
  { unfold top in Hc. rewrite <- lastBlock_lastL in Hc. destruct (cc_lastBlock _ _ B Hc) as [X _]. exact X. }
  pose proof (para_no_kids c Hcc Hk) as Hn. apply (lastBlock_nonempty c y El Hn).
Qed.
Lemma getAt2_of_deep p d x : (2 <= d)%nat -> getAt d (root p) = Some x -> exists y, getAt 2 (root p) = Some y.
Proof. intros Hd Hx. eapply getAt_le; [exact Hd|exact Hx]. Qed.

(* ---- endBlock ---- *)
Lemma closeUp_deep p d e : GI p -> EV p -> T0 p -> cdepth p = S (S d) ->
  TI (withCont (closeLastChildAt p (S d) e) (Some (S d))).
Proof.
  intros A B C Ed. set (p' := withCont (closeLastChildAt p (S d) e) (Some (S d))).
  assert (A' : GI p') by (apply GI_closeAt; [exact A|lia|lia]).
  split; [exact A'|]. split; [eapply EV_fr; [|exact B]; apply fr_fields; reflexivity|].
  apply TT_loud.
  - apply (T0_ksim p); [reflexivity|reflexivity| |exact C]. unfold p', closeLastChildAt. cbn [root withCont withRoot setLP].
    apply ksim_updAt. intros _ x _. unfold closeF. destruct (lastBlock x); [apply sameH_set_lastBlocks|apply sameH_refl].
  - apply loud_deep; [apply A'| |cbn; lia].
    destruct A as ((_ & _ & (x & Hx)) & _). rewrite Ed in Hx.
    assert (Hy : exists y, getAt (S (S d)) (root p') = Some y).
    { unfold p', closeLastChildAt. cbn [root withCont withRoot setLP]. fold (closeF p e). rewrite getAt_S_updAt.
      destruct (getAt_prefix _ _ _ Hx) as (z & Hz). rewrite Hz. rewrite getAt_S_last, Hz in Hx.
      unfold closeF. rewrite Hx. rewrite lastBlock_lastL. unfold set_lastBlocks. rewrite bkids_set_bkids.
      rewrite lastL_app by apply closeBlock_nonnil.
      destruct (lastL (closeBlock (bheight (root p)) (source p) x e)) as [y0|] eqn:El; [eexists; reflexivity|].
      exfalso. apply lastL_none in El. revert El. apply closeBlock_nonnil. }
    destruct Hy as (y & Hy). eapply getAt_le; [|exact Hy]. lia.
Qed.
