From Coq Require Import List ZArith Lia Bool.
Import ListNotations.
Require Import Base Tables Utf8 Tree Rdr Link Collect Html Recog Inl3a Inl3b Inl3c Inl3d Inl3e Props PEProof.
Require Import Leaf3a Leaf3e Leaf3f Leaf3i Leaf3j GI0 GI1 GI2 GI3 GI4 GI6 GI7.
Require Import ShapesBase ShapesA ShapesR ShapesCS ShapesHT Shapes IS0 IS2 IS1 IS3 IS4 IS5a IS5b IS5 IS6a IS6b IS6c IS6e IS8b IS8c.
Open Scope Z_scope.

(* ================================================================== *)
(* IS6: the tokeniser (istep / iloop / outer) keeps the combined       *)
(* invariant; parseInlines.                                            *)
(* ================================================================== *)

Lemma skipSpTab_ge : forall fuel src pos lim, pos <= skipSpTab fuel src pos lim.
Proof.
  induction fuel as [|f IH]; intros src pos lim; cbn [skipSpTab]; [lia|]. destruct (_ && _); [|lia]. specialize (IH src (pos + 1) lim). lia.
Qed.

Section Tok.
  Variable src : bytes.
  Variable U : list inline.
  Hypothesis HUe : forallb eok U = true.
  Hypothesis HOK : spOK src U = true.
  Hypothesis HBud : ibudget U <= len src + 9.
  Hypothesis HL : linesOK src U = true.

  Notation MI := (MI true U).
  Notation IS := (Leaf3f.InvS src U).
  Notation J := (J src U).
  Notation nthU := (nthU U).

  Lemma HUk : forall u, In u U -> ikids u = [].
  Proof.
    intros u Hu. rewrite forallb_forall in HUe. specialize (HUe u Hu). unfold eok in HUe. apply andb_true_iff in HUe. destruct HUe as [_ Hn].
    apply nilb_true in Hn. exact Hn.
  Qed.
  Lemma HTD : true = true \/ titleNeedsDestFor src U. Proof. left. reflexivity. Qed.

  Record LI (st : ist) (pos : Z) : Prop := {
    li_mi : MI st;
    li_s : IS st;
    li_j : J (Z.min pos (spanEnd st)) st;
    li_up : 0 <= upos st <= len U;
    li_pos : upos st < len U -> istart (nthU (upos st)) <= pos /\ ikind (nthU (upos st)) <> IndentKind
  }.

  (* ---- facts about single entries ---- *)
  Lemma line_facts k : 0 <= k < len U -> ikind (nthU k) <> IndentKind ->
    exists m, lineAt src (nthU k) m /\ (k + 1 < len U -> m < iend (nthU k)).
  Proof.
    intros Hk Hi. destruct (nthU_range src U HOK k Hk) as (R1 & R2 & R3).
    pose proof (linesOK_nth src U (Z.to_nat k) HL ltac:(unfold len in Hk; lia)) as I2. cbv zeta in I2. fold (nthU k) in I2.
    destruct (I2 Hi) as (J1 & J2). exists (istart (nthU k) + len (trimEOLr (sub src (istart (nthU k)) (iend (nthU k))))). split.
    - apply line_of_trim; try lia. exact J1.
    - intros Hn. specialize (J2 ltac:(unfold len in Hn; lia)). rewrite (len_sub_in src (istart (nthU k)) (iend (nthU k))) in J2 by lia. lia.
  Qed.
  Lemma In_nthU x : In x U -> exists k, 0 <= k < len U /\ nthU k = x.
  Proof.
    intros Hx. destruct (In_nth U x (mkI 0 0 0) Hx) as (n & Hn & En). exists (Z.of_nat n). split; [unfold len; lia|].
    unfold IS6a.nthU. rewrite Nat2Z.id. exact En.
  Qed.
  (* an entry followed by another one ends with its line ending *)
  Lemma lastEol n m : In n U -> In m U -> ikind n <> IndentKind -> iend n <= istart m -> isEol (at_ src (iend n - 1)) = true.
  Proof.
    intros Hn Hm Hk Hle. destruct (In_nthU n Hn) as (i & Hi & Ei). destruct (In_nthU m Hm) as (j & Hj & Ej).
    destruct (nthU_range src U HOK i Hi) as (A1 & A2 & A3). destruct (nthU_range src U HOK j Hj) as (B1 & B2 & B3).
    rewrite Ei in *. rewrite Ej in *.
    assert (Hij : i < j).
    { destruct (Z.lt_trichotomy i j) as [L|[L|L]]; [exact L|subst j; rewrite Ei in Ej; subst m; lia|].
      pose proof (nthU_sorted src U HOK j i ltac:(lia) L ltac:(lia)) as Hs. rewrite Ei, Ej in Hs. lia. }
    destruct (line_facts i Hi ltac:(rewrite Ei; exact Hk)) as (ml & (Lm & Lb & Le) & Lnl). rewrite Ei in *.
    specialize (Lnl ltac:(lia)). apply Le. lia.
  Qed.

  (* ---- which entries (from the cursor on) can hold a given position ---- *)
  Definition nonIndentAt (st : ist) (p : Z) : Prop :=
    forall k, 0 <= k -> upos st <= k < len U -> spanHas (nthU k) p = true -> ikind (nthU k) <> IndentKind.
  Lemma nonIndent_byte st p : isSpTab (at_ src p) = false -> nonIndentAt st p.
  Proof.
    intros Hb k Hnn Hk Hh Hi. apply spanHas_range in Hh.
    rewrite (nthU_indent src U HOK k p ltac:(lia) Hi) in Hb by lia. discriminate.
  Qed.
  Lemma unpFrom_in st k : unp st = U -> 0 <= upos st <= k -> k < len U -> In (nthU k) (unpFrom st).
  Proof.
    intros Eu H0 Hk. unfold unpFrom, from_. rewrite Eu. unfold IS6a.nthU.
    replace (Z.to_nat k) with (Z.to_nat (upos st) + (Z.to_nat k - Z.to_nat (upos st)))%nat by lia.
    rewrite <- (nth_skipn_ U (mkI 0 0 0)). apply nth_In. rewrite skipn_length. unfold len in Hk. lia.
  Qed.
  Lemma nonIndent_ge st p : unp st = U -> 0 <= upos st -> at_ src (p - 1) = 62 ->
    (forall I, In I (unpFrom st) -> ikind I = IndentKind -> istart I <> p) -> nonIndentAt st p.
  Proof.
    intros Eu H0 Hb HG k Hnn Hk Hh Hi. apply spanHas_range in Hh.
    destruct (Z.eq_dec p (istart (nthU k))) as [E|E].
    - apply (HG (nthU k)); [apply unpFrom_in; [exact Eu|lia|lia]|exact Hi|symmetry; exact E].
    - pose proof (nthU_indent src U HOK k (p - 1) ltac:(lia) Hi ltac:(lia)) as Hs. rewrite Hb in Hs. discriminate.
  Qed.

  (* ---- re-establishing LI ---- *)
  Lemma LI_same st pos st' pos' h : LI st pos -> sameF st st' -> MI st' -> IS st' -> J h st' ->
    h <= pos' -> h <= spanEnd st -> pos <= pos' -> LI st' pos'.
  Proof.
    intros [A B C D E] HF HM HS HJ H1 H2 H3. pose proof (spanEnd_sameF _ _ HF) as Es. destruct HF as (F1 & F2 & F3).
    constructor; try assumption.
    - apply (J_hi src U h); [rewrite Es; lia|exact HJ].
    - rewrite F1. exact D.
    - rewrite F1. intros Hu. destruct (E Hu). split; [lia|assumption].
  Qed.
  Lemma LI_moved st pos st' pos' h p : LI st pos -> movedTo st p st' -> MI st' -> IS st' -> J h st' ->
    h <= pos' -> h <= spanEnd st -> p <= pos' -> nonIndentAt st p -> LI st' pos'.
  Proof.
    intros [A B C D E] (F1 & F2 & F3) HM HS HJ H1 H2 H3 Hni.
    pose proof (j_unp _ _ _ _ C) as Eu.
    destruct (advanceTo_spec U st p Eu D) as (G1 & G2).
    assert (Hse : spanEnd st <= spanEnd st').
    { apply (spanEnd_mono src U HOK); [exact Eu|congruence|exact F3|lia|]. rewrite F1. lia. }
    constructor; try assumption.
    - apply (J_hi src U h); [lia|exact HJ].
    - rewrite F1. lia.
    - rewrite F1. intros Hu. specialize (G2 Hu). split; [apply spanHas_range in G2; lia|]. apply (Hni (upos (advanceTo st p))); [lia|lia|exact G2].
  Qed.

  (* ---- facts about the current entry ---- *)
  Lemma cur_facts st pos : LI st pos -> upos st < len U -> pos < spanEnd st ->
    let u := nthU (upos st) in
    spanEnd st = iend u /\ 0 <= istart u /\ istart u <= pos /\ iend u <= len src /\ ikind u <> IndentKind /\ J pos st.
  Proof.
    intros [A B C D E] Hu Hp. cbv zeta. pose proof (j_unp _ _ _ _ C) as Eu.
    rewrite (spanEnd_in U st Eu) in * by lia. destruct (nthU_range src U HOK (upos st) ltac:(lia)) as (R1 & R2 & R3).
    destruct (E Hu) as (E1 & E2). split; [reflexivity|]. split; [lia|]. split; [lia|]. split; [lia|]. split; [exact E2|].
    replace pos with (Z.min pos (iend (nthU (upos st)))) by lia. exact C.
  Qed.
  Lemma fuel_ok' st pos : isrc st = src -> unp st = U -> 0 <= pos ->
    spOK (isrc st) (unpFrom st) = true /\ len (isrc st) - pos + ibudget (unpFrom st) < Z.of_nat (rfuelOf st).
  Proof.
    intros E1 E2 Hp. unfold unpFrom. rewrite E1, E2. split; [apply spOK_from, HOK|].
    pose proof (ibudget_skipn (Z.to_nat (upos st)) U) as Hb. unfold from_. unfold rfuelOf. rewrite E1.
    unfold len in *. lia.
  Qed.

  (* ---- hard line breaks ---- *)
  Lemma hard_space st pos e : LI st pos -> upos st < len U -> pos < spanEnd st -> isLastSpan st = false ->
    parseHardLineBreakSpace (sub src pos (spanEnd st)) = (e, true) ->
    nOK src HardLineBreakKind pos (pos + e) = true /\ pos + e = spanEnd st.
  Proof.
    intros HLI Hu Hp Hlast Hh. destruct (cur_facts st pos HLI Hu Hp) as (Es & R1 & R2 & R3 & Hni & _). cbv zeta in *.
    pose proof (li_up _ _ HLI) as Hup. pose proof (j_unp _ _ _ _ (li_j _ _ HLI)) as Eu.
    unfold isLastSpan in Hlast. rewrite Eu in Hlast. apply Z.leb_gt in Hlast.
    destruct (line_facts (upos st) ltac:(lia) Hni) as (m & (Lm & Lb & Le) & Lnl). specialize (Lnl ltac:(lia)).
    rewrite Es in *. set (u := nthU (upos st)) in *.
    destruct (parseHardLineBreakSpace_shape _ _ Hh) as (El & H2 & A0 & A1 & Hall).
    rewrite (len_sub_in src pos (iend u)) in El by lia.
    rewrite at_sub in A0, A1 by lia. replace (pos + 0) with pos in A0 by lia.
    split; [|lia].
    assert (Hm1 : pos + 1 < m).
    { destruct (Z.lt_ge_cases (pos + 1) m) as [L|L]; [exact L|]. specialize (Le (pos + 1) ltac:(lia)). rewrite A1 in Le. discriminate. }
    apply (hardbreak_shape src pos (pos + e) m); try lia.
    - right. split; [lia|]. intros i Hi. specialize (Lb i ltac:(lia)).
      destruct (Z.lt_ge_cases i (pos + 2)) as [L|L]; [destruct (Z.eq_dec i pos) as [->|]; [exact A0|replace i with (pos + 1) by lia; exact A1]|].
      specialize (Hall (i - pos) ltac:(lia)). rewrite at_sub in Hall by lia. replace (pos + (i - pos)) with i in Hall by lia.
      unfold isEol in Lb. apply orb_false_iff in Lb. destruct Lb as [L10 L13]. apply Z.eqb_neq in L10, L13. lia.
    - intros i Hi. apply Le. lia.
  Qed.
  Lemma hard_backslash st pos : LI st pos -> upos st < len U -> pos < spanEnd st -> isLastSpan st = false ->
    at_ src pos = 92 -> (spanEnd st <=? pos + 1) || (at_ src (pos + 1) =? 10) || (at_ src (pos + 1) =? 13) = true ->
    let e := eolRun (length src) src (pos + 1) (spanEnd st) in
    nOK src HardLineBreakKind pos e = true /\ pos < e /\ e <= spanEnd st.
  Proof.
    intros HLI Hu Hp Hlast H92 Hc. destruct (cur_facts st pos HLI Hu Hp) as (Es & R1 & R2 & R3 & Hni & _). cbv zeta in *.
    pose proof (li_up _ _ HLI) as Hup. pose proof (j_unp _ _ _ _ (li_j _ _ HLI)) as Eu.
    unfold isLastSpan in Hlast. rewrite Eu in Hlast. apply Z.leb_gt in Hlast.
    destruct (line_facts (upos st) ltac:(lia) Hni) as (m & (Lm & Lb & Le) & Lnl). specialize (Lnl ltac:(lia)).
    rewrite Es in *. set (u := nthU (upos st)) in *.
    assert (Hnext : pos + 1 < iend u /\ isEol (at_ src (pos + 1)) = true).
    { destruct (Z.leb_spec (iend u) (pos + 1)) as [L|L].
      - exfalso. specialize (Le pos ltac:(lia)). rewrite H92 in Le. discriminate.
      - split; [lia|]. cbn [orb] in Hc. exact Hc. }
    destruct Hnext as (Hn1 & Hn2).
    destruct (eolRun_spec src (iend u) (length src) (pos + 1)) as (G1 & G2 & G3).
    assert (Hstep : pos + 2 <= eolRun (length src) src (pos + 1) (iend u)).
    { destruct (length src) as [|f] eqn:El; [unfold len in R3; rewrite El in R3; lia|]. pose proof (eolRun_step src (iend u) f (pos + 1) Hn1 Hn2). lia. }
    specialize (G3 ltac:(lia)). split; [|lia].
    apply (hardbreak_shape src pos _ (pos + 1)); try lia.
    intros i Hi. apply G2. lia.
  Qed.

  (* ---- nodes copied from the span list ---- *)
  Lemma J_pushU hi st u : J hi st -> In u U -> J hi (setRk st (rk st ++ [ofInline u])).
  Proof.
    intros [A B C D E F G V] Hu. pose proof (HUk u Hu) as Hk. destruct (spOK_all src U HOK u Hu) as (S1 & S2 & S3 & _). rewrite forallb_forall in HUe. pose proof (HUe u Hu) as He.
    destruct u as [k s e ind r ks]. cbn [ikids] in Hk. subst ks. cbn [ofInline map].
    assert (Hc : isC k = false).
    { unfold eok in He. cbn [ikind] in He. apply andb_true_iff in He. destruct He as [He _].
      repeat (apply orb_true_iff in He; destruct He as [He|He]); apply Z.eqb_eq in He; subst k; reflexivity. }
    constructor; cbn [setRk isrc unp nid rk stk]; try assumption.
    - rewrite idbF_app, D. cbn [forallb idb andb]. replace (0 <? nid st) with true by (symmetry; apply Z.ltb_lt; lia). reflexivity.
    - rewrite cokF_app, F. cbn [cokF forallb cok andb]. rewrite Hc. reflexivity.
    - apply (chain_ext src (rk st)); [|exact G]. intros d Hd. rewrite occF_app, occF_cons, occF_nil, occS_eq. cbn [pid pkids].
      rewrite Forall_forall in E. specialize (E d Hd). destruct (Z.eqb_spec 0 (d_node d)) as [E1|_]; [lia|]. cbn [app occF flat_map].
      rewrite app_nil_r. reflexivity.
    - rewrite vokF_app, V. cbn [andb vokF forallb vok]. cbn [istart iend] in S1, S2, S3. rewrite span_valid_intro by lia. reflexivity.
  Qed.

  (* ================================================================ one step of the tokeniser *)
  Lemma istep_LI st pos pl st' pos' pl' : LI st pos -> upos st < len U -> pos < spanEnd st ->
    istep st pos pl = (st', pos', pl') -> LI st' pos'.
  Proof.
    intros HLI Hu Hp E.
    assert (HM' : MI st') by (pose proof (MI_istep true src U HUe HTD st pos pl (li_mi _ _ HLI) (li_s _ _ HLI)) as H; rewrite E in H; exact H).
    assert (HS' : IS st') by (pose proof (S_istep src U (HUg src U HUe) st pos pl (li_s _ _ HLI)) as H; rewrite E in H; exact H).
    destruct (cur_facts st pos HLI Hu Hp) as (Es & R1 & R2 & R3 & Hni & HJ). cbv zeta in *.
    pose proof (j_src _ _ _ _ HJ) as Esrc. pose proof (j_unp _ _ _ _ HJ) as Eunp.
    set (u := nthU (upos st)) in *.
    assert (HJT : forall a, J pos (addText st a pos)) by (intros; apply J_addText; [exact HJ|lia]).
    assert (HFT : forall a b, sameF st (addText st a b)) by (intros; apply addText_sameF).
    assert (Hpos0 : 0 <= pos) by lia.
    assert (Hsame0 : forall p1, pos <= p1 -> LI st p1) by (intros p1 Hp1; apply (LI_same st pos st p1 pos HLI (sameF_refl st) (li_mi _ _ HLI) (li_s _ _ HLI) HJ); lia).
    unfold istep in E. cbv zeta in E. rewrite Esrc in E.
    destruct ((at_ src pos =? 42) || (at_ src pos =? 95)) eqn:E1.
    { (* delimiter run *)
      unfold parseDelimiterRun in E. cbv zeta in E.
      assert (EsT : isrc (addText st pl pos) = src) by (destruct (HFT pl pos) as (_ & _ & ->); exact Esrc).
      assert (EeT : spanEnd (addText st pl pos) = spanEnd st) by (apply spanEnd_sameF, HFT).
      rewrite EsT, EeT in E.
      set (e := runEnd (length src) src (pos + 1) (spanEnd st) (at_ src pos)) in *.
      destruct (runEnd_spec src (spanEnd st) (at_ src pos) (length src) (pos + 1)) as (G1 & G2 & G3). fold e in G1, G2, G3.
      pose proof (J_push src U pos (addText st pl pos) pos e (if at_ src pos =? 42 then tStar else tUnder)
                    (fActive + emphasisFlags src pos e) (spanLen pos e) (HJT pl) Hpos0 ltac:(lia) ltac:(lia)) as HP.
      match type of HP with ?A -> _ => assert (HA : A) end.
      { unfold IS3.dOK. cbn [d_typ]. assert (Hr : runOf src (at_ src pos) pos e).
        { intros i Hi. destruct (Z.eq_dec i pos) as [->|Hne]; [reflexivity|apply G2; lia]. }
        apply orb_true_iff in E1. destruct E1 as [E1|E1]; apply Z.eqb_eq in E1; rewrite E1 in *; cbn [Z.eqb]; [left|right; left]; split; [reflexivity|exact Hr|reflexivity|exact Hr]. }
      specialize (HP HA).
      pose proof (addNode_sameF (addText st pl pos) TextKind pos e []) as HF1.
      destruct (addNode (addText st pl pos) TextKind pos e []) as [st1 id]. cbn [fst] in HF1. inversion E; subst st' pos' pl'. clear E.
      apply (LI_same st pos _ e e HLI); try assumption; try lia.
      apply (sameF_trans st (addText st pl pos)); [apply HFT|exact HF1]. }
    destruct (at_ src pos =? 91) eqn:E2.
    { apply Z.eqb_eq in E2.
      pose proof (J_push src U pos (addText st pl pos) pos (pos + 1) tLink fActive 0 (HJT pl) Hpos0 ltac:(lia) ltac:(lia)) as HP.
      match type of HP with ?A -> _ => assert (HA : A) end.
      { unfold IS3.dOK. cbn [d_typ]. right. right. left. repeat split. exact E2. }
      specialize (HP HA).
      pose proof (addNode_sameF (addText st pl pos) TextKind pos (pos + 1) []) as HF1.
      destruct (addNode (addText st pl pos) TextKind pos (pos + 1) []) as [st1 id]. cbn [fst] in HF1. inversion E; subst st' pos' pl'. clear E.
      apply (LI_same st pos _ (pos + 1) (pos + 1) HLI); try assumption; try lia.
      apply (sameF_trans st (addText st pl pos)); [apply HFT|exact HF1]. }
    destruct (at_ src pos =? 93) eqn:E3.
    { apply Z.eqb_eq in E3.
      assert (HMT : MI (addText st pl pos)) by (apply MI_addText, (li_mi _ _ HLI)).
      pose proof (parseEndBracket_J src U HUk HOK true pos (addText st pl pos) pos HMT (HJT pl) ltac:(lia) E3) as HJ2.
      assert (EsT : isrc (addText st pl pos) = src) by (destruct (HFT pl pos) as (_ & _ & ->); exact Esrc).
      assert (HokT : spOK (isrc (addText st pl pos)) (unpFrom (addText st pl pos)) = true).
      { rewrite EsT, (unpFrom_sameF _ _ (HFT pl pos)). unfold unpFrom. rewrite Eunp. apply spOK_from, HOK. }
      pose proof (peb_frame (addText st pl pos) pos HokT ltac:(rewrite EsT; exact E3)) as HFr. cbv zeta in HFr. rewrite EsT in HFr.
      destruct (parseEndBracket (addText st pl pos) pos) as [st2 e2]. cbn [fst snd] in *. inversion E; subst st' pos' pl'. clear E.
      destruct HFr as [(F1 & F2)|(F1 & F2 & F3)].
      - apply (LI_same st pos st2 e2 pos HLI); try assumption; try lia. eapply sameF_trans; [apply HFT|exact F1].
      - apply (LI_moved st pos st2 e2 pos (e2 - 1) HLI); try assumption; try lia.
        + destruct F1 as (A & B & C). pose proof (HFT pl pos) as HF0. destruct (advanceTo_sameF st _ (e2 - 1) HF0) as (A' & _).
          destruct HF0 as (_ & B0 & C0). repeat split; congruence.
        + apply nonIndent_byte. destruct F3 as [-> | ->]; reflexivity. }
    destruct (at_ src pos =? 33) eqn:E4.
    { apply Z.eqb_eq in E4.
      destruct ((spanEnd st <=? pos + 1) || negb (at_ src (pos + 1) =? 91)) eqn:E4b.
      { inversion E; subst st' pos' pl'. apply Hsame0. lia. }
      apply orb_false_iff in E4b. destruct E4b as [E4c E4d]. apply Z.leb_gt in E4c. apply negb_false_iff in E4d. apply Z.eqb_eq in E4d.
      pose proof (J_push src U pos (addText st pl pos) pos (pos + 2) tImage fActive 0 (HJT pl) Hpos0 ltac:(lia) ltac:(lia)) as HP.
      match type of HP with ?A -> _ => assert (HA : A) end.
      { unfold IS3.dOK. cbn [d_typ]. right. right. right. repeat split; assumption. }
      specialize (HP HA).
      pose proof (addNode_sameF (addText st pl pos) TextKind pos (pos + 2) []) as HF1.
      destruct (addNode (addText st pl pos) TextKind pos (pos + 2) []) as [st1 id]. cbn [fst] in HF1. inversion E; subst st' pos' pl'. clear E.
      apply (LI_same st pos _ (pos + 2) (pos + 2) HLI); try assumption; try lia.
      apply (sameF_trans st (addText st pl pos)); [apply HFT|exact HF1]. }
    destruct (at_ src pos =? 32) eqn:E5.
    { pose proof (hlb_nonneg (sub src pos (spanEnd st))) as Hnn.
      destruct (parseHardLineBreakSpace (sub src pos (spanEnd st))) as [e ok] eqn:Eh. cbn [fst] in Hnn.
      destruct ok; cbn [andb] in E; [|inversion E; subst st' pos' pl'; apply Hsame0; lia].
      destruct (isLastSpan st) eqn:Els; cbn [negb] in E; [inversion E; subst st' pos' pl'; apply Hsame0; lia|].
      destruct (hard_space st pos e HLI Hu Hp Els Eh) as (Hok & Hend).
      inversion E; subst st' pos' pl'. clear E.
      apply (LI_same st pos _ (pos + e) pos HLI); try assumption; try lia.
      - apply (sameF_trans st (addText st pl pos)); [apply HFT|]. exact (addNode_sameF (addText st pl pos) HardLineBreakKind pos (pos + e) []).
      - apply J_setIgn. apply J_addNode; [apply HJT|intros _; exact Hok|reflexivity|lia|reflexivity]. }
    destruct (Z.eqb_spec (at_ src pos) 96) as [E6|E6].
    { destruct (fuel_ok' st pos Esrc Eunp Hpos0) as (Hok & Hfuel).
      destruct (parseCodeSpan (rfuelOf st) st pos) as [[cS cE] sE] eqn:Epc.
      destruct (Z.leb_spec 0 sE) as [Hse|Hse].
      - destruct (parseCodeSpan_shapeInline (rfuelOf st) st pos cS cE sE Hpos0 Hok Hfuel Epc Hse) as (Hsh & Hrng). rewrite Esrc in Hsh, Hrng.
        destruct (parseCodeSpan_in (rfuelOf st) st pos cS cE sE Hok Hfuel Epc Hse) as (Hidx & HcE).
        destruct (parseCodeSpan_shape (rfuelOf st) st pos cS cE sE Hok Hfuel Epc Hse) as (n0 & Hn0 & EcS & HcSE & EsE & _ & _ & Hticks & _).
        inversion E; subst st' pos' pl'. clear E.
        assert (HokN : nOK src CodeSpanKind pos sE = true) by (unfold nOK; rewrite span_valid_intro by lia; exact Hsh).
        pose proof (HFT pl pos) as HF0.
        assert (Hidx' : 0 <= nodeIndexForPosition (unpFrom (addText st pl pos)) cE) by (rewrite (unpFrom_sameF _ _ HF0); exact Hidx).
        pose proof (collectCodeSpan_sameF (addText st pl pos) pos sE cS cE Hidx') as HF2.
        apply (LI_moved st pos _ sE pos cE HLI); try assumption; try lia.
        + destruct (advanceTo_sameF st _ cE HF0) as (A' & (_ & B' & C')). destruct HF2 as (A & B & C). cbn [setUpos unp isrc] in B', C'.
          repeat split; congruence.
        + apply collectCodeSpan_kids; [apply HJT|exact HokN| |lia|lia].
          intros n. destruct (proj2 (proj2 HF0)) as []. destruct HF0 as (_ & -> & _). rewrite Eunp.
          destruct (nth_in_or_default n U (mkI 0 0 0)) as [Hin|Hd]; [|rewrite Hd; cbn; pose proof (ShapesBase.len_nonneg src); lia].
          destruct (spOK_all src U HOK _ Hin) as (S1 & S2 & S3 & _). lia.
        + apply nonIndent_byte. rewrite Esrc in Hticks. rewrite (Hticks cE ltac:(lia)). reflexivity.
      - pose proof (parseCodeSpan_cS_ge (rfuelOf st) st pos cS cE sE Hok Epc) as Hge.
        inversion E; subst st' pos' pl'. apply Hsame0. lia. }
    destruct (at_ src pos =? 60) eqn:E7.
    { apply Z.eqb_eq in E7.
      destruct (Z.leb_spec 0 (parseAutolink (sub src pos (spanEnd st)))) as [Hae|Hae].
      - destruct (parseAutolink_shape _ _ eq_refl Hae) as (A0 & A1 & (A2 & A3) & _).
        rewrite len_sub in A3 by lia. rewrite at_sub in A0, A1 by lia. replace (pos + 0) with pos in A0 by lia.
        set (ae := parseAutolink (sub src pos (spanEnd st))) in *.
        inversion E; subst st' pos' pl'. clear E.
        apply (LI_same st pos _ (ae + pos) pos HLI); try assumption; try lia.
        + eapply sameF_trans; [apply HFT|]. apply addNode_sameF.
        + apply J_addNode; [apply HJT| |reflexivity|lia|].
          * intros _. apply (angle_shape src AutolinkKind); try lia; try tauto.
            replace (ae + pos - 1) with (pos + (ae - 1)) by lia. exact A1.
          * cbn [vokF forallb vok]. rewrite span_valid_intro by lia. reflexivity.
      - destruct (parseHTMLTag (rfuelOf st) (newReader src (unpFrom st) pos)) as [ts te] eqn:Eht.
        destruct (spanValid (ts, te)) eqn:Ev; cbn [negb] in E; [|inversion E; subst st' pos' pl'; apply Hsame0; lia].
        destruct (parseHTMLTag_shape (rfuelOf st) (newReader src (unpFrom st) pos) ts te
                    ltac:(cbn [newReader r_src r_spans]; unfold unpFrom; rewrite Eunp; apply spOK_from, HOK) Eht Ev) as (Ets & B0 & B1 & B2 & B3).
        cbn [newReader r_pos r_src] in Ets, B0, B1, B3. subst ts.
        inversion E; subst st' pos' pl'. clear E.
        pose proof (HFT pl pos) as HF0.
        set (st2 := fst (addNode (addText st pl pos) HTMLTagKind pos te
                      (kidsOf (collectTextNodes (rfuelOf st) (newReader src (unpFrom (addText st pl pos)) pos) te RawHTMLKind false)))) in *.
        assert (HF2 : sameF st st2) by (eapply sameF_trans; [exact HF0|apply addNode_sameF]).
        apply (LI_moved st pos _ te pos te HLI); try assumption; try lia.
        + destruct (advanceTo_sameF st st2 te HF2) as (A' & (_ & B' & C')). cbn [setUpos unp isrc] in B', C'. repeat split; assumption.
        + apply J_advanceTo. apply J_addNode; [apply HJT| | |exact B3|].
          * intros _. apply (angle_shape src HTMLTagKind); try lia; try tauto.
          * unfold kidsOf. apply (kids_zok src U); [exact HUk|reflexivity|reflexivity|].
            cbn [newReader r_spans]. rewrite (unpFrom_sameF _ _ HF0). unfold unpFrom, from_. rewrite Eunp. apply sublist_skipn.
          * apply (kids_valid src U HUk HOK); [destruct HF0 as (_ & _ & ->); exact Esrc|destruct HF0 as (_ & -> & _); exact Eunp|lia|exact B3].
        + apply (nonIndent_ge st te Eunp ltac:(pose proof (li_up _ _ HLI); lia) B1).
          assert (Hsp0 : exists rest, unpFrom st = u :: rest).
          { unfold unpFrom, from_. rewrite Eunp. pose proof (li_up _ _ HLI) as Hup.
            assert (Hlen : (Z.to_nat (upos st) < length U)%nat) by (unfold len in Hu; lia).
            destruct (skipn (Z.to_nat (upos st)) U) as [|x rest] eqn:Esk.
            - pose proof (f_equal (@length inline) Esk) as Hl. rewrite skipn_length in Hl. cbn in Hl. lia.
            - exists rest. f_equal. unfold u, IS6a.nthU. pose proof (nth_skipn_ U (mkI 0 0 0) (Z.to_nat (upos st)) 0) as Hn.
              rewrite Esk in Hn. cbn [nth] in Hn. rewrite Nat.add_0_r in Hn. exact Hn. }
          destruct Hsp0 as (rest0 & Esp0).
          assert (HokF : spOK src (unpFrom st) = true) by (unfold unpFrom; rewrite Eunp; apply spOK_from, HOK).
          assert (HEolF : forall n m, In n (unpFrom st) -> In m (unpFrom st) -> ikind n <> IndentKind -> iend n <= istart m -> isEol (at_ src (iend n - 1)) = true).
          { intros n m Hn Hm. apply lastEol; (unfold unpFrom, from_ in *; rewrite Eunp in *; eapply sublist_skipn; eassumption). }
          pose proof (Qr_init src (unpFrom st) HokF pos u rest0 Esp0 ltac:(apply spanHas_intro; lia)) as HQ0.
          exact (parseHTMLTag_Ge src (unpFrom st) HEolF (rfuelOf st) _ pos te HQ0 Eht Ev). }
    destruct (at_ src pos =? 92) eqn:E8.
    { apply Z.eqb_eq in E8. unfold parseBackslash in E. cbv zeta in E.
      pose proof (HFT pl pos) as HF0.
      assert (EsT : isrc (addText st pl pos) = src) by (destruct HF0 as (_ & _ & ->); exact Esrc).
      rewrite EsT, (spanEnd_sameF _ _ HF0), (isLastSpan_sameF _ _ HF0) in E.
      destruct ((spanEnd st <=? pos + 1) || (at_ src (pos + 1) =? 10) || (at_ src (pos + 1) =? 13)) eqn:Ec.
      - destruct (isLastSpan st) eqn:Els.
        + inversion E; subst st' pos' pl'. clear E. apply (LI_same st pos _ (pos + 1) pos HLI); try assumption; try lia.
          * eapply sameF_trans; [exact HF0|apply addText_sameF].
          * apply J_addText; [apply HJT|lia].
        + destruct (hard_backslash st pos HLI Hu Hp Els E8 Ec) as (Hok & Hlt & Hle). cbv zeta in *.
          set (e := eolRun (length src) src (pos + 1) (spanEnd st)) in *.
          inversion E; subst st' pos' pl'. clear E. apply (LI_same st pos _ e pos HLI); try assumption; try lia.
          * apply (sameF_trans st (addText st pl pos)); [exact HF0|]. exact (addNode_sameF (setIgn (addText st pl pos) true) HardLineBreakKind pos e []).
          * apply J_addNode; [apply J_setIgn, HJT|intros _; exact Hok|reflexivity|lia|reflexivity].
      - apply orb_false_iff in Ec. destruct Ec as [Ec _]. apply orb_false_iff in Ec. destruct Ec as [Ec _]. apply Z.leb_gt in Ec.
        destruct (isASCIIPunctuation (at_ src (pos + 1))); inversion E; subst st' pos' pl'; clear E;
          (apply (LI_same st pos _ _ pos HLI); try assumption; try lia; [eapply sameF_trans; [exact HF0|apply addText_sameF]|apply J_addText; [apply HJT|lia]]). }
    destruct (at_ src pos =? 38) eqn:E9.
    { destruct (Z.ltb_spec (parseCharacterEscape (sub src pos (spanEnd st))) 0) as [Hce|Hce]; [inversion E; subst st' pos' pl'; apply Hsame0; lia|].
      destruct (parseCharacterEscape_shape _ _ eq_refl Hce) as (_ & _ & C2 & C3). rewrite len_sub in C3 by lia.
      set (ce := parseCharacterEscape (sub src pos (spanEnd st))) in *.
      inversion E; subst st' pos' pl'. clear E.
      apply (LI_same st pos _ (pos + ce) pos HLI); try assumption; try lia.
      - eapply sameF_trans; [apply HFT|]. apply addNode_sameF.
      - apply J_addNode; [apply HJT| |reflexivity|lia|reflexivity]. intros _. apply (charref_at src pos (spanEnd st)); [lia|reflexivity|exact Hce]. }
    destruct (at_ src pos =? 10) eqn:E10.
    { inversion E; subst st' pos' pl'. clear E. pose proof (HFT pl pos) as HF0.
      apply (LI_same st pos _ (pos + 1) pos HLI); try assumption; try lia.
      - destruct (negb (isLastSpan (addText st pl pos))); [eapply sameF_trans; [exact HF0|apply addNode_sameF]|exact HF0].
      - destruct (negb (isLastSpan (addText st pl pos))); [apply J_addNode; [apply HJT|discriminate|reflexivity|lia|reflexivity]|apply HJT]. }
    destruct (at_ src pos =? 13) eqn:E11.
    { pose proof (HFT pl pos) as HF0.
      set (w := if (pos + 1 <? spanEnd (addText st pl pos)) && (at_ src (pos + 1) =? 10) then 2 else 1) in *.
      assert (Hw : 1 <= w /\ pos + w <= spanEnd st).
      { unfold w. rewrite (spanEnd_sameF _ _ HF0). destruct (Z.ltb_spec (pos + 1) (spanEnd st)); cbn [andb]; [destruct (at_ src (pos + 1) =? 10)|]; lia. }
      inversion E; subst st' pos' pl'. clear E.
      apply (LI_same st pos _ (pos + w) pos HLI); try assumption; try lia.
      - destruct (negb (isLastSpan (addText st pl pos))); [eapply sameF_trans; [exact HF0|apply addNode_sameF]|exact HF0].
      - destruct (negb (isLastSpan (addText st pl pos))); [apply J_addNode; [apply HJT|discriminate|reflexivity|lia|reflexivity]|apply HJT]. }
    inversion E; subst st' pos' pl'. apply Hsame0. lia.
  Qed.
End Tok.
