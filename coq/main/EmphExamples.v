(* EmphExamples.v -- the SPEC of EmphSpec.v evaluated on the examples of CommonMark 0.30 section 6.2 that lie in the alphabet of
   the slice, and a few variants (the expected HTML is the one of the reference implementation; &quot; is how it writes a double quote).
   In the comments below the star is written # and the double quote is written as two single quotes.
   For the examples that start with a letter the hypothesis okEmph holds, so by EmphSlice.C11_emphasis_slice the model
   produces the same forest; the others only exercise the spec function (the theorem needs a first byte that cannot start
   another block). *)
From Coq Require Import List ZArith Lia Bool.
Import ListNotations.
Require Import Base Tree EmphSpec.
Open Scope Z_scope.

Definition escB (c : Z) : bytes := if c =? 34 then [38;113;117;111;116;59] else [c].
Fixpoint showI (src : bytes) (i : inline) : bytes :=
  match i with Inl k s e _ _ ks =>
    if k =? TextKind then flat_map escB (sub src s e)
    else if k =? StrongKind then [60;115;116;114;111;110;103;62] ++ flat_map (showI src) ks ++ [60;47;115;116;114;111;110;103;62]
    else [60;101;109;62] ++ flat_map (showI src) ks ++ [60;47;101;109;62]
  end.
Definition show (t : bytes) : bytes := flat_map (showI t) (specForest t).
Fixpoint beq (a b : bytes) : bool := match a, b with [], [] => true | x :: a', y :: b' => (x =? y) && beq a' b' | _, _ => false end.
Definition check (t expected : bytes) : bool := beq (show t) expected.

(* #foo bar#   ==>   <em>foo bar</em> *)
Example ex0 : check [42;102;111;111;32;98;97;114;42] [60;101;109;62;102;111;111;32;98;97;114;60;47;101;109;62] = true. Proof. vm_compute. reflexivity. Qed.
(* a # foo bar#   ==>   a # foo bar# *)
Example ex1 : check [97;32;42;32;102;111;111;32;98;97;114;42] [97;32;42;32;102;111;111;32;98;97;114;42] = true. Proof. vm_compute. reflexivity. Qed.
Example ok1 : okEmph [97;32;42;32;102;111;111;32;98;97;114;42] = true. Proof. vm_compute. reflexivity. Qed.
(* a#''foo''#   ==>   a#''foo''# *)
Example ex2 : check [97;42;34;102;111;111;34;42] [97;42;38;113;117;111;116;59;102;111;111;38;113;117;111;116;59;42] = true. Proof. vm_compute. reflexivity. Qed.
Example ok2 : okEmph [97;42;34;102;111;111;34;42] = true. Proof. vm_compute. reflexivity. Qed.
(* foo#bar#   ==>   foo<em>bar</em> *)
Example ex3 : check [102;111;111;42;98;97;114;42] [102;111;111;60;101;109;62;98;97;114;60;47;101;109;62] = true. Proof. vm_compute. reflexivity. Qed.
Example ok3 : okEmph [102;111;111;42;98;97;114;42] = true. Proof. vm_compute. reflexivity. Qed.
(* _foo bar_   ==>   <em>foo bar</em> *)
Example ex4 : check [95;102;111;111;32;98;97;114;95] [60;101;109;62;102;111;111;32;98;97;114;60;47;101;109;62] = true. Proof. vm_compute. reflexivity. Qed.
(* _ foo bar_   ==>   _ foo bar_ *)
Example ex5 : check [95;32;102;111;111;32;98;97;114;95] [95;32;102;111;111;32;98;97;114;95] = true. Proof. vm_compute. reflexivity. Qed.
(* a_''foo''_   ==>   a_''foo''_ *)
Example ex6 : check [97;95;34;102;111;111;34;95] [97;95;38;113;117;111;116;59;102;111;111;38;113;117;111;116;59;95] = true. Proof. vm_compute. reflexivity. Qed.
Example ok6 : okEmph [97;95;34;102;111;111;34;95] = true. Proof. vm_compute. reflexivity. Qed.
(* foo_bar_   ==>   foo_bar_ *)
Example ex7 : check [102;111;111;95;98;97;114;95] [102;111;111;95;98;97;114;95] = true. Proof. vm_compute. reflexivity. Qed.
Example ok7 : okEmph [102;111;111;95;98;97;114;95] = true. Proof. vm_compute. reflexivity. Qed.
(* aa_''bb''_cc   ==>   aa_''bb''_cc *)
Example ex8 : check [97;97;95;34;98;98;34;95;99;99] [97;97;95;38;113;117;111;116;59;98;98;38;113;117;111;116;59;95;99;99] = true. Proof. vm_compute. reflexivity. Qed.
Example ok8 : okEmph [97;97;95;34;98;98;34;95;99;99] = true. Proof. vm_compute. reflexivity. Qed.
(* _foo#   ==>   _foo# *)
Example ex9 : check [95;102;111;111;42] [95;102;111;111;42] = true. Proof. vm_compute. reflexivity. Qed.
(* #foo bar #   ==>   #foo bar # *)
Example ex10 : check [42;102;111;111;32;98;97;114;32;42] [42;102;111;111;32;98;97;114;32;42] = true. Proof. vm_compute. reflexivity. Qed.
(* #(#foo)   ==>   #(#foo) *)
Example ex11 : check [42;40;42;102;111;111;41] [42;40;42;102;111;111;41] = true. Proof. vm_compute. reflexivity. Qed.
(* #(#foo#)#   ==>   <em>(<em>foo</em>)</em> *)
Example ex12 : check [42;40;42;102;111;111;42;41;42] [60;101;109;62;40;60;101;109;62;102;111;111;60;47;101;109;62;41;60;47;101;109;62] = true. Proof. vm_compute. reflexivity. Qed.
(* #foo#bar   ==>   <em>foo</em>bar *)
Example ex13 : check [42;102;111;111;42;98;97;114] [60;101;109;62;102;111;111;60;47;101;109;62;98;97;114] = true. Proof. vm_compute. reflexivity. Qed.
(* _foo bar _   ==>   _foo bar _ *)
Example ex14 : check [95;102;111;111;32;98;97;114;32;95] [95;102;111;111;32;98;97;114;32;95] = true. Proof. vm_compute. reflexivity. Qed.
(* _(_foo)   ==>   _(_foo) *)
Example ex15 : check [95;40;95;102;111;111;41] [95;40;95;102;111;111;41] = true. Proof. vm_compute. reflexivity. Qed.
(* _(_foo_)_   ==>   <em>(<em>foo</em>)</em> *)
Example ex16 : check [95;40;95;102;111;111;95;41;95] [60;101;109;62;40;60;101;109;62;102;111;111;60;47;101;109;62;41;60;47;101;109;62] = true. Proof. vm_compute. reflexivity. Qed.
(* _foo_bar   ==>   _foo_bar *)
Example ex17 : check [95;102;111;111;95;98;97;114] [95;102;111;111;95;98;97;114] = true. Proof. vm_compute. reflexivity. Qed.
(* _foo_bar_baz_   ==>   <em>foo_bar_baz</em> *)
Example ex18 : check [95;102;111;111;95;98;97;114;95;98;97;122;95] [60;101;109;62;102;111;111;95;98;97;114;95;98;97;122;60;47;101;109;62] = true. Proof. vm_compute. reflexivity. Qed.
(* _(bar)_.   ==>   <em>(bar)</em>. *)
Example ex19 : check [95;40;98;97;114;41;95;46] [60;101;109;62;40;98;97;114;41;60;47;101;109;62;46] = true. Proof. vm_compute. reflexivity. Qed.
(* ##foo bar##   ==>   <strong>foo bar</strong> *)
Example ex20 : check [42;42;102;111;111;32;98;97;114;42;42] [60;115;116;114;111;110;103;62;102;111;111;32;98;97;114;60;47;115;116;114;111;110;103;62] = true. Proof. vm_compute. reflexivity. Qed.
(* ## foo bar##   ==>   ## foo bar## *)
Example ex21 : check [42;42;32;102;111;111;32;98;97;114;42;42] [42;42;32;102;111;111;32;98;97;114;42;42] = true. Proof. vm_compute. reflexivity. Qed.
(* a##''foo''##   ==>   a##''foo''## *)
Example ex22 : check [97;42;42;34;102;111;111;34;42;42] [97;42;42;38;113;117;111;116;59;102;111;111;38;113;117;111;116;59;42;42] = true. Proof. vm_compute. reflexivity. Qed.
Example ok22 : okEmph [97;42;42;34;102;111;111;34;42;42] = true. Proof. vm_compute. reflexivity. Qed.
(* foo##bar##   ==>   foo<strong>bar</strong> *)
Example ex23 : check [102;111;111;42;42;98;97;114;42;42] [102;111;111;60;115;116;114;111;110;103;62;98;97;114;60;47;115;116;114;111;110;103;62] = true. Proof. vm_compute. reflexivity. Qed.
Example ok23 : okEmph [102;111;111;42;42;98;97;114;42;42] = true. Proof. vm_compute. reflexivity. Qed.
(* __foo bar__   ==>   <strong>foo bar</strong> *)
Example ex24 : check [95;95;102;111;111;32;98;97;114;95;95] [60;115;116;114;111;110;103;62;102;111;111;32;98;97;114;60;47;115;116;114;111;110;103;62] = true. Proof. vm_compute. reflexivity. Qed.
(* foo__bar__   ==>   foo__bar__ *)
Example ex25 : check [102;111;111;95;95;98;97;114;95;95] [102;111;111;95;95;98;97;114;95;95] = true. Proof. vm_compute. reflexivity. Qed.
Example ok25 : okEmph [102;111;111;95;95;98;97;114;95;95] = true. Proof. vm_compute. reflexivity. Qed.
(* __foo, __bar__, baz__   ==>   <strong>foo, <strong>bar</strong>, baz</strong> *)
Example ex26 : check [95;95;102;111;111;44;32;95;95;98;97;114;95;95;44;32;98;97;122;95;95] [60;115;116;114;111;110;103;62;102;111;111;44;32;60;115;116;114;111;110;103;62;98;97;114;60;47;115;116;114;111;110;103;62;44;32;98;97;122;60;47;115;116;114;111;110;103;62] = true. Proof. vm_compute. reflexivity. Qed.
(* ##foo bar ##   ==>   ##foo bar ## *)
Example ex27 : check [42;42;102;111;111;32;98;97;114;32;42;42] [42;42;102;111;111;32;98;97;114;32;42;42] = true. Proof. vm_compute. reflexivity. Qed.
(* ##(##foo)   ==>   ##(##foo) *)
Example ex28 : check [42;42;40;42;42;102;111;111;41] [42;42;40;42;42;102;111;111;41] = true. Proof. vm_compute. reflexivity. Qed.
(* #(##foo##)#   ==>   <em>(<strong>foo</strong>)</em> *)
Example ex29 : check [42;40;42;42;102;111;111;42;42;41;42] [60;101;109;62;40;60;115;116;114;111;110;103;62;102;111;111;60;47;115;116;114;111;110;103;62;41;60;47;101;109;62] = true. Proof. vm_compute. reflexivity. Qed.
(* ##foo ''#bar#'' foo##   ==>   <strong>foo ''<em>bar</em>'' foo</strong> *)
Example ex30 : check [42;42;102;111;111;32;34;42;98;97;114;42;34;32;102;111;111;42;42] [60;115;116;114;111;110;103;62;102;111;111;32;38;113;117;111;116;59;60;101;109;62;98;97;114;60;47;101;109;62;38;113;117;111;116;59;32;102;111;111;60;47;115;116;114;111;110;103;62] = true. Proof. vm_compute. reflexivity. Qed.
(* ##foo##bar   ==>   <strong>foo</strong>bar *)
Example ex31 : check [42;42;102;111;111;42;42;98;97;114] [60;115;116;114;111;110;103;62;102;111;111;60;47;115;116;114;111;110;103;62;98;97;114] = true. Proof. vm_compute. reflexivity. Qed.
(* __foo bar __   ==>   __foo bar __ *)
Example ex32 : check [95;95;102;111;111;32;98;97;114;32;95;95] [95;95;102;111;111;32;98;97;114;32;95;95] = true. Proof. vm_compute. reflexivity. Qed.
(* _(__foo__)_   ==>   <em>(<strong>foo</strong>)</em> *)
Example ex33 : check [95;40;95;95;102;111;111;95;95;41;95] [60;101;109;62;40;60;115;116;114;111;110;103;62;102;111;111;60;47;115;116;114;111;110;103;62;41;60;47;101;109;62] = true. Proof. vm_compute. reflexivity. Qed.
(* __foo__bar   ==>   __foo__bar *)
Example ex34 : check [95;95;102;111;111;95;95;98;97;114] [95;95;102;111;111;95;95;98;97;114] = true. Proof. vm_compute. reflexivity. Qed.
(* __foo__bar__baz__   ==>   <strong>foo__bar__baz</strong> *)
Example ex35 : check [95;95;102;111;111;95;95;98;97;114;95;95;98;97;122;95;95] [60;115;116;114;111;110;103;62;102;111;111;95;95;98;97;114;95;95;98;97;122;60;47;115;116;114;111;110;103;62] = true. Proof. vm_compute. reflexivity. Qed.
(* __(bar)__.   ==>   <strong>(bar)</strong>. *)
Example ex36 : check [95;95;40;98;97;114;41;95;95;46] [60;115;116;114;111;110;103;62;40;98;97;114;41;60;47;115;116;114;111;110;103;62;46] = true. Proof. vm_compute. reflexivity. Qed.
(* _foo __bar__ baz_   ==>   <em>foo <strong>bar</strong> baz</em> *)
Example ex37 : check [95;102;111;111;32;95;95;98;97;114;95;95;32;98;97;122;95] [60;101;109;62;102;111;111;32;60;115;116;114;111;110;103;62;98;97;114;60;47;115;116;114;111;110;103;62;32;98;97;122;60;47;101;109;62] = true. Proof. vm_compute. reflexivity. Qed.
(* _foo _bar_ baz_   ==>   <em>foo <em>bar</em> baz</em> *)
Example ex38 : check [95;102;111;111;32;95;98;97;114;95;32;98;97;122;95] [60;101;109;62;102;111;111;32;60;101;109;62;98;97;114;60;47;101;109;62;32;98;97;122;60;47;101;109;62] = true. Proof. vm_compute. reflexivity. Qed.
(* __foo_ bar_   ==>   <em><em>foo</em> bar</em> *)
Example ex39 : check [95;95;102;111;111;95;32;98;97;114;95] [60;101;109;62;60;101;109;62;102;111;111;60;47;101;109;62;32;98;97;114;60;47;101;109;62] = true. Proof. vm_compute. reflexivity. Qed.
(* #foo #bar##   ==>   <em>foo <em>bar</em></em> *)
Example ex40 : check [42;102;111;111;32;42;98;97;114;42;42] [60;101;109;62;102;111;111;32;60;101;109;62;98;97;114;60;47;101;109;62;60;47;101;109;62] = true. Proof. vm_compute. reflexivity. Qed.
(* #foo ##bar## baz#   ==>   <em>foo <strong>bar</strong> baz</em> *)
Example ex41 : check [42;102;111;111;32;42;42;98;97;114;42;42;32;98;97;122;42] [60;101;109;62;102;111;111;32;60;115;116;114;111;110;103;62;98;97;114;60;47;115;116;114;111;110;103;62;32;98;97;122;60;47;101;109;62] = true. Proof. vm_compute. reflexivity. Qed.
(* #foo##bar##baz#   ==>   <em>foo<strong>bar</strong>baz</em> *)
Example ex42 : check [42;102;111;111;42;42;98;97;114;42;42;98;97;122;42] [60;101;109;62;102;111;111;60;115;116;114;111;110;103;62;98;97;114;60;47;115;116;114;111;110;103;62;98;97;122;60;47;101;109;62] = true. Proof. vm_compute. reflexivity. Qed.
(* #foo##bar#   ==>   <em>foo##bar</em> *)
Example ex43 : check [42;102;111;111;42;42;98;97;114;42] [60;101;109;62;102;111;111;42;42;98;97;114;60;47;101;109;62] = true. Proof. vm_compute. reflexivity. Qed.
(* ###foo## bar#   ==>   <em><strong>foo</strong> bar</em> *)
Example ex44 : check [42;42;42;102;111;111;42;42;32;98;97;114;42] [60;101;109;62;60;115;116;114;111;110;103;62;102;111;111;60;47;115;116;114;111;110;103;62;32;98;97;114;60;47;101;109;62] = true. Proof. vm_compute. reflexivity. Qed.
(* #foo ##bar###   ==>   <em>foo <strong>bar</strong></em> *)
Example ex45 : check [42;102;111;111;32;42;42;98;97;114;42;42;42] [60;101;109;62;102;111;111;32;60;115;116;114;111;110;103;62;98;97;114;60;47;115;116;114;111;110;103;62;60;47;101;109;62] = true. Proof. vm_compute. reflexivity. Qed.
(* #foo##bar###   ==>   <em>foo<strong>bar</strong></em> *)
Example ex46 : check [42;102;111;111;42;42;98;97;114;42;42;42] [60;101;109;62;102;111;111;60;115;116;114;111;110;103;62;98;97;114;60;47;115;116;114;111;110;103;62;60;47;101;109;62] = true. Proof. vm_compute. reflexivity. Qed.
(* foo###bar###baz   ==>   foo<em><strong>bar</strong></em>baz *)
Example ex47 : check [102;111;111;42;42;42;98;97;114;42;42;42;98;97;122] [102;111;111;60;101;109;62;60;115;116;114;111;110;103;62;98;97;114;60;47;115;116;114;111;110;103;62;60;47;101;109;62;98;97;122] = true. Proof. vm_compute. reflexivity. Qed.
Example ok47 : okEmph [102;111;111;42;42;42;98;97;114;42;42;42;98;97;122] = true. Proof. vm_compute. reflexivity. Qed.
(* foo######bar#########baz   ==>   foo<strong><strong><strong>bar</strong></strong></strong>###baz *)
Example ex48 : check [102;111;111;42;42;42;42;42;42;98;97;114;42;42;42;42;42;42;42;42;42;98;97;122] [102;111;111;60;115;116;114;111;110;103;62;60;115;116;114;111;110;103;62;60;115;116;114;111;110;103;62;98;97;114;60;47;115;116;114;111;110;103;62;60;47;115;116;114;111;110;103;62;60;47;115;116;114;111;110;103;62;42;42;42;98;97;122] = true. Proof. vm_compute. reflexivity. Qed.
Example ok48 : okEmph [102;111;111;42;42;42;42;42;42;98;97;114;42;42;42;42;42;42;42;42;42;98;97;122] = true. Proof. vm_compute. reflexivity. Qed.
(* #foo ##bar #baz# bim## bop#   ==>   <em>foo <strong>bar <em>baz</em> bim</strong> bop</em> *)
Example ex49 : check [42;102;111;111;32;42;42;98;97;114;32;42;98;97;122;42;32;98;105;109;42;42;32;98;111;112;42] [60;101;109;62;102;111;111;32;60;115;116;114;111;110;103;62;98;97;114;32;60;101;109;62;98;97;122;60;47;101;109;62;32;98;105;109;60;47;115;116;114;111;110;103;62;32;98;111;112;60;47;101;109;62] = true. Proof. vm_compute. reflexivity. Qed.
(* ## is not an empty emphasis   ==>   ## is not an empty emphasis *)
Example ex50 : check [42;42;32;105;115;32;110;111;116;32;97;110;32;101;109;112;116;121;32;101;109;112;104;97;115;105;115] [42;42;32;105;115;32;110;111;116;32;97;110;32;101;109;112;116;121;32;101;109;112;104;97;115;105;115] = true. Proof. vm_compute. reflexivity. Qed.
(* #### is not an empty strong emphasis   ==>   #### is not an empty strong emphasis *)
Example ex51 : check [42;42;42;42;32;105;115;32;110;111;116;32;97;110;32;101;109;112;116;121;32;115;116;114;111;110;103;32;101;109;112;104;97;115;105;115] [42;42;42;42;32;105;115;32;110;111;116;32;97;110;32;101;109;112;116;121;32;115;116;114;111;110;103;32;101;109;112;104;97;115;105;115] = true. Proof. vm_compute. reflexivity. Qed.
(* __foo _bar_ baz__   ==>   <strong>foo <em>bar</em> baz</strong> *)
Example ex52 : check [95;95;102;111;111;32;95;98;97;114;95;32;98;97;122;95;95] [60;115;116;114;111;110;103;62;102;111;111;32;60;101;109;62;98;97;114;60;47;101;109;62;32;98;97;122;60;47;115;116;114;111;110;103;62] = true. Proof. vm_compute. reflexivity. Qed.
(* __foo __bar__ baz__   ==>   <strong>foo <strong>bar</strong> baz</strong> *)
Example ex53 : check [95;95;102;111;111;32;95;95;98;97;114;95;95;32;98;97;122;95;95] [60;115;116;114;111;110;103;62;102;111;111;32;60;115;116;114;111;110;103;62;98;97;114;60;47;115;116;114;111;110;103;62;32;98;97;122;60;47;115;116;114;111;110;103;62] = true. Proof. vm_compute. reflexivity. Qed.
(* ____foo__ bar__   ==>   <strong><strong>foo</strong> bar</strong> *)
Example ex54 : check [95;95;95;95;102;111;111;95;95;32;98;97;114;95;95] [60;115;116;114;111;110;103;62;60;115;116;114;111;110;103;62;102;111;111;60;47;115;116;114;111;110;103;62;32;98;97;114;60;47;115;116;114;111;110;103;62] = true. Proof. vm_compute. reflexivity. Qed.
(* ##foo ##bar####   ==>   <strong>foo <strong>bar</strong></strong> *)
Example ex55 : check [42;42;102;111;111;32;42;42;98;97;114;42;42;42;42] [60;115;116;114;111;110;103;62;102;111;111;32;60;115;116;114;111;110;103;62;98;97;114;60;47;115;116;114;111;110;103;62;60;47;115;116;114;111;110;103;62] = true. Proof. vm_compute. reflexivity. Qed.
(* ##foo #bar# baz##   ==>   <strong>foo <em>bar</em> baz</strong> *)
Example ex56 : check [42;42;102;111;111;32;42;98;97;114;42;32;98;97;122;42;42] [60;115;116;114;111;110;103;62;102;111;111;32;60;101;109;62;98;97;114;60;47;101;109;62;32;98;97;122;60;47;115;116;114;111;110;103;62] = true. Proof. vm_compute. reflexivity. Qed.
(* ##foo#bar#baz##   ==>   <strong>foo<em>bar</em>baz</strong> *)
Example ex57 : check [42;42;102;111;111;42;98;97;114;42;98;97;122;42;42] [60;115;116;114;111;110;103;62;102;111;111;60;101;109;62;98;97;114;60;47;101;109;62;98;97;122;60;47;115;116;114;111;110;103;62] = true. Proof. vm_compute. reflexivity. Qed.
(* ###foo# bar##   ==>   <strong><em>foo</em> bar</strong> *)
Example ex58 : check [42;42;42;102;111;111;42;32;98;97;114;42;42] [60;115;116;114;111;110;103;62;60;101;109;62;102;111;111;60;47;101;109;62;32;98;97;114;60;47;115;116;114;111;110;103;62] = true. Proof. vm_compute. reflexivity. Qed.
(* ##foo #bar###   ==>   <strong>foo <em>bar</em></strong> *)
Example ex59 : check [42;42;102;111;111;32;42;98;97;114;42;42;42] [60;115;116;114;111;110;103;62;102;111;111;32;60;101;109;62;98;97;114;60;47;101;109;62;60;47;115;116;114;111;110;103;62] = true. Proof. vm_compute. reflexivity. Qed.
(* __ is not an empty emphasis   ==>   __ is not an empty emphasis *)
Example ex60 : check [95;95;32;105;115;32;110;111;116;32;97;110;32;101;109;112;116;121;32;101;109;112;104;97;115;105;115] [95;95;32;105;115;32;110;111;116;32;97;110;32;101;109;112;116;121;32;101;109;112;104;97;115;105;115] = true. Proof. vm_compute. reflexivity. Qed.
(* ____ is not an empty strong emphasis   ==>   ____ is not an empty strong emphasis *)
Example ex61 : check [95;95;95;95;32;105;115;32;110;111;116;32;97;110;32;101;109;112;116;121;32;115;116;114;111;110;103;32;101;109;112;104;97;115;105;115] [95;95;95;95;32;105;115;32;110;111;116;32;97;110;32;101;109;112;116;121;32;115;116;114;111;110;103;32;101;109;112;104;97;115;105;115] = true. Proof. vm_compute. reflexivity. Qed.
(* foo ###   ==>   foo ### *)
Example ex62 : check [102;111;111;32;42;42;42] [102;111;111;32;42;42;42] = true. Proof. vm_compute. reflexivity. Qed.
Example ok62 : okEmph [102;111;111;32;42;42;42] = true. Proof. vm_compute. reflexivity. Qed.
(* foo #_#   ==>   foo <em>_</em> *)
Example ex63 : check [102;111;111;32;42;95;42] [102;111;111;32;60;101;109;62;95;60;47;101;109;62] = true. Proof. vm_compute. reflexivity. Qed.
Example ok63 : okEmph [102;111;111;32;42;95;42] = true. Proof. vm_compute. reflexivity. Qed.
(* foo #####   ==>   foo ##### *)
Example ex64 : check [102;111;111;32;42;42;42;42;42] [102;111;111;32;42;42;42;42;42] = true. Proof. vm_compute. reflexivity. Qed.
Example ok64 : okEmph [102;111;111;32;42;42;42;42;42] = true. Proof. vm_compute. reflexivity. Qed.
(* foo ##_##   ==>   foo <strong>_</strong> *)
Example ex65 : check [102;111;111;32;42;42;95;42;42] [102;111;111;32;60;115;116;114;111;110;103;62;95;60;47;115;116;114;111;110;103;62] = true. Proof. vm_compute. reflexivity. Qed.
Example ok65 : okEmph [102;111;111;32;42;42;95;42;42] = true. Proof. vm_compute. reflexivity. Qed.
(* ##foo#   ==>   #<em>foo</em> *)
Example ex66 : check [42;42;102;111;111;42] [42;60;101;109;62;102;111;111;60;47;101;109;62] = true. Proof. vm_compute. reflexivity. Qed.
(* #foo##   ==>   <em>foo</em># *)
Example ex67 : check [42;102;111;111;42;42] [60;101;109;62;102;111;111;60;47;101;109;62;42] = true. Proof. vm_compute. reflexivity. Qed.
(* ###foo##   ==>   #<strong>foo</strong> *)
Example ex68 : check [42;42;42;102;111;111;42;42] [42;60;115;116;114;111;110;103;62;102;111;111;60;47;115;116;114;111;110;103;62] = true. Proof. vm_compute. reflexivity. Qed.
(* ####foo#   ==>   ###<em>foo</em> *)
Example ex69 : check [42;42;42;42;102;111;111;42] [42;42;42;60;101;109;62;102;111;111;60;47;101;109;62] = true. Proof. vm_compute. reflexivity. Qed.
(* ##foo###   ==>   <strong>foo</strong># *)
Example ex70 : check [42;42;102;111;111;42;42;42] [60;115;116;114;111;110;103;62;102;111;111;60;47;115;116;114;111;110;103;62;42] = true. Proof. vm_compute. reflexivity. Qed.
(* #foo####   ==>   <em>foo</em>### *)
Example ex71 : check [42;102;111;111;42;42;42;42] [60;101;109;62;102;111;111;60;47;101;109;62;42;42;42] = true. Proof. vm_compute. reflexivity. Qed.
(* foo ___   ==>   foo ___ *)
Example ex72 : check [102;111;111;32;95;95;95] [102;111;111;32;95;95;95] = true. Proof. vm_compute. reflexivity. Qed.
Example ok72 : okEmph [102;111;111;32;95;95;95] = true. Proof. vm_compute. reflexivity. Qed.
(* foo _#_   ==>   foo <em>#</em> *)
Example ex73 : check [102;111;111;32;95;42;95] [102;111;111;32;60;101;109;62;42;60;47;101;109;62] = true. Proof. vm_compute. reflexivity. Qed.
Example ok73 : okEmph [102;111;111;32;95;42;95] = true. Proof. vm_compute. reflexivity. Qed.
(* foo _____   ==>   foo _____ *)
Example ex74 : check [102;111;111;32;95;95;95;95;95] [102;111;111;32;95;95;95;95;95] = true. Proof. vm_compute. reflexivity. Qed.
Example ok74 : okEmph [102;111;111;32;95;95;95;95;95] = true. Proof. vm_compute. reflexivity. Qed.
(* foo __#__   ==>   foo <strong>#</strong> *)
Example ex75 : check [102;111;111;32;95;95;42;95;95] [102;111;111;32;60;115;116;114;111;110;103;62;42;60;47;115;116;114;111;110;103;62] = true. Proof. vm_compute. reflexivity. Qed.
Example ok75 : okEmph [102;111;111;32;95;95;42;95;95] = true. Proof. vm_compute. reflexivity. Qed.
(* __foo_   ==>   _<em>foo</em> *)
Example ex76 : check [95;95;102;111;111;95] [95;60;101;109;62;102;111;111;60;47;101;109;62] = true. Proof. vm_compute. reflexivity. Qed.
(* _foo__   ==>   <em>foo</em>_ *)
Example ex77 : check [95;102;111;111;95;95] [60;101;109;62;102;111;111;60;47;101;109;62;95] = true. Proof. vm_compute. reflexivity. Qed.
(* ___foo__   ==>   _<strong>foo</strong> *)
Example ex78 : check [95;95;95;102;111;111;95;95] [95;60;115;116;114;111;110;103;62;102;111;111;60;47;115;116;114;111;110;103;62] = true. Proof. vm_compute. reflexivity. Qed.
(* ____foo_   ==>   ___<em>foo</em> *)
Example ex79 : check [95;95;95;95;102;111;111;95] [95;95;95;60;101;109;62;102;111;111;60;47;101;109;62] = true. Proof. vm_compute. reflexivity. Qed.
(* __foo___   ==>   <strong>foo</strong>_ *)
Example ex80 : check [95;95;102;111;111;95;95;95] [60;115;116;114;111;110;103;62;102;111;111;60;47;115;116;114;111;110;103;62;95] = true. Proof. vm_compute. reflexivity. Qed.
(* _foo____   ==>   <em>foo</em>___ *)
Example ex81 : check [95;102;111;111;95;95;95;95] [60;101;109;62;102;111;111;60;47;101;109;62;95;95;95] = true. Proof. vm_compute. reflexivity. Qed.
(* ##foo##   ==>   <strong>foo</strong> *)
Example ex82 : check [42;42;102;111;111;42;42] [60;115;116;114;111;110;103;62;102;111;111;60;47;115;116;114;111;110;103;62] = true. Proof. vm_compute. reflexivity. Qed.
(* #_foo_#   ==>   <em><em>foo</em></em> *)
Example ex83 : check [42;95;102;111;111;95;42] [60;101;109;62;60;101;109;62;102;111;111;60;47;101;109;62;60;47;101;109;62] = true. Proof. vm_compute. reflexivity. Qed.
(* __foo__   ==>   <strong>foo</strong> *)
Example ex84 : check [95;95;102;111;111;95;95] [60;115;116;114;111;110;103;62;102;111;111;60;47;115;116;114;111;110;103;62] = true. Proof. vm_compute. reflexivity. Qed.
(* _#foo#_   ==>   <em><em>foo</em></em> *)
Example ex85 : check [95;42;102;111;111;42;95] [60;101;109;62;60;101;109;62;102;111;111;60;47;101;109;62;60;47;101;109;62] = true. Proof. vm_compute. reflexivity. Qed.
(* ####foo####   ==>   <strong><strong>foo</strong></strong> *)
Example ex86 : check [42;42;42;42;102;111;111;42;42;42;42] [60;115;116;114;111;110;103;62;60;115;116;114;111;110;103;62;102;111;111;60;47;115;116;114;111;110;103;62;60;47;115;116;114;111;110;103;62] = true. Proof. vm_compute. reflexivity. Qed.
(* ____foo____   ==>   <strong><strong>foo</strong></strong> *)
Example ex87 : check [95;95;95;95;102;111;111;95;95;95;95] [60;115;116;114;111;110;103;62;60;115;116;114;111;110;103;62;102;111;111;60;47;115;116;114;111;110;103;62;60;47;115;116;114;111;110;103;62] = true. Proof. vm_compute. reflexivity. Qed.
(* ######foo######   ==>   <strong><strong><strong>foo</strong></strong></strong> *)
Example ex88 : check [42;42;42;42;42;42;102;111;111;42;42;42;42;42;42] [60;115;116;114;111;110;103;62;60;115;116;114;111;110;103;62;60;115;116;114;111;110;103;62;102;111;111;60;47;115;116;114;111;110;103;62;60;47;115;116;114;111;110;103;62;60;47;115;116;114;111;110;103;62] = true. Proof. vm_compute. reflexivity. Qed.
(* ###foo###   ==>   <em><strong>foo</strong></em> *)
Example ex89 : check [42;42;42;102;111;111;42;42;42] [60;101;109;62;60;115;116;114;111;110;103;62;102;111;111;60;47;115;116;114;111;110;103;62;60;47;101;109;62] = true. Proof. vm_compute. reflexivity. Qed.
(* _____foo_____   ==>   <em><strong><strong>foo</strong></strong></em> *)
Example ex90 : check [95;95;95;95;95;102;111;111;95;95;95;95;95] [60;101;109;62;60;115;116;114;111;110;103;62;60;115;116;114;111;110;103;62;102;111;111;60;47;115;116;114;111;110;103;62;60;47;115;116;114;111;110;103;62;60;47;101;109;62] = true. Proof. vm_compute. reflexivity. Qed.
(* #foo _bar# baz_   ==>   <em>foo _bar</em> baz_ *)
Example ex91 : check [42;102;111;111;32;95;98;97;114;42;32;98;97;122;95] [60;101;109;62;102;111;111;32;95;98;97;114;60;47;101;109;62;32;98;97;122;95] = true. Proof. vm_compute. reflexivity. Qed.
(* #foo __bar #baz bim__ bam#   ==>   <em>foo <strong>bar #baz bim</strong> bam</em> *)
Example ex92 : check [42;102;111;111;32;95;95;98;97;114;32;42;98;97;122;32;98;105;109;95;95;32;98;97;109;42] [60;101;109;62;102;111;111;32;60;115;116;114;111;110;103;62;98;97;114;32;42;98;97;122;32;98;105;109;60;47;115;116;114;111;110;103;62;32;98;97;109;60;47;101;109;62] = true. Proof. vm_compute. reflexivity. Qed.
