From Coq Require Import List ZArith Lia Bool.
Import ListNotations.
Require Import Base Tree Rdr Link Collect Html Recog LP Rules Starts Driver Rec16 Rec17 Rec18 L2Kind L2CC L2Bnd L2BndS StreamFuel
  EolInv EolCRBytes EolCRLFSimTree Props LADef EolFinalDefs EolFinalSimBytes EolFinalSimTree EolFinalGenOcp EolFinalGenTree EolFinalGenClose.
Open Scope Z_scope.

Section GenEof.
Context {HO : OcpFinC}.

(* C14 (i), final newline: the step at end of input (the line machine on the empty line closes the document). *)

Lemma root0_cc K : ccF K = true -> cc (root0 K) = true.
Proof. intros H. unfold ccF in H. unfold root0. cbn [cc]. exact H. Qed.
Lemma F_root0' L K : 0 <= L -> finB L (root0 K) = root0 (map (finB L) K).
Proof. intros L0. unfold root0. cbn [finB]. change (documentKind =? ListMarkerKind) with false. cbv iota. rewrite (bump_neg L L0) by lia. reflexivity. Qed.
Lemma bheight_root0_F L K : bheight (root0 (map (finB L) K)) = bheight (root0 K).
Proof.
  unfold root0. cbn [bheight]. f_equal. induction K as [|x r IH]; [reflexivity|]. cbn [map fold_right]. rewrite bheight_F, IH. reflexivity.
Qed.
Lemma descState_F L st K : 0 <= L -> descState st (root0 (map (finB L) K)) = descState st (root0 K).
Proof.
  intros L0. unfold descState, lastBlock, root0. cbn [bkids]. rewrite map_rev'. destruct (rev K) as [|c r]; [reflexivity|].
  cbn [map]. rewrite (isOpen_F L L0), bkind_F. reflexivity.
Qed.

Theorem fin_eof L SS st K src : EV src SS L -> len src = L -> ccF K = true -> forallb (scB L) K = true -> forallb lmB K = true ->
  forallb (peB SS) K = true -> forallb sxB K = true ->
  processLine st (map (finB L) K) (L + 1) (src ++ [10]) =
    (map (finB L) (fst (fst (processLine st K L src))), snd (fst (processLine st K L src)), snd (processLine st K L src)).
Proof.
  intros N EL Hc Hs Hl Hpe Hsx. assert (L0 : 0 <= L) by (rewrite <- EL; apply len_nonneg).
  rewrite (processLine_eof st K L src) by (rewrite <- EL; apply from_all).
  rewrite (processLine_eof st (map (finB L) K) (L + 1) (src ++ [10])) by (apply Rec16.from_nil; rewrite fs_len_app, fs_len1; lia).
  cbn [fst snd]. unfold eofSt, eofK. rewrite (descState_F L st K L0). f_equal. f_equal.
  unfold eofSt. rewrite (descState_F L st K L0). destruct (descState st (root0 K) =? stDescendTerminated); [reflexivity|].
  rewrite bheight_root0_F, <- (F_root0' L K L0). subst L.
  pose proof (root0_cc K Hc) as Hcc.
  assert (Hsc : scB (len src) (root0 K) = true) by (unfold scB, root0; cbn [allB]; fold (scB (len src)); rewrite Hs; reflexivity).
  assert (Hlm : lmB (root0 K) = true) by (unfold lmB, root0; cbn [allB]; fold lmB; rewrite Hl; reflexivity).
  assert (Hpe0 : peB SS (root0 K) = true) by (unfold peB, root0; cbn [allB]; fold (peB SS); rewrite Hpe; reflexivity).
  assert (Hsx0 : sxB (root0 K) = true) by (unfold sxB, root0; cbn [allB]; fold sxB; rewrite Hsx; reflexivity).
  rewrite (closeBlock_F src SS (len src) (len src) (len src + 1) N (bheight (root0 K)) (root0 K) Hcc Hsc Hpe0 (or_intror Hsx0)) by (try (right; split; [reflexivity|split; [reflexivity|exact Hlm]]); apply len_nonneg).
  destruct (closeBlock_doc src (len src) (bheight (root0 K)) (root0 K) Hcc eq_refl) as (x & -> & Hx & _).
  cbn [map]. apply bkids_F, Hx.
Qed.
Print Assumptions fin_eof.
End GenEof.
