From Coq Require Import List ZArith Lia Bool.
Import ListNotations.
Require Import LAPad BlockShapesNul.
Require Import Base Tree Rdr Link Collect Html Recog LP Rules Starts Driver L2CC L2Bnd L2BndS BSDef BSTree BlockSpans EntBase EntTree EntLP8 EntDrv
  EolCRLFSimLeDefs EolCRLFSimStream EolGenCtStream EolGenCt.
Open Scope Z_scope.

(* the containment/account interface of EolGenCt.v extended by T28's entry invariant `en` (EntTree.v), which knows that an
   Indent entry sits on a tab byte -- needed by the CRLF commutation of the link-reference-definition parser *)
Definition SJ2 (s : bpst) (ch : list block) (ns : bool) : Prop :=
  SJx s ch ns /\ allP (en (buf s) (bi s)) ch /\ prevOK (buf s) (bi s) /\ tri (buf s).
Definition LE2 (st : Z) (ch : list block) (ls : Z) (s : bpst) (ns : bool) : Prop :=
  LEy st ch ls s ns /\ allP (en (buf s) ls) ch /\ prevOK (buf s) ls /\ tri (buf s).

Lemma LE2_basic : forall st ch ls s ns, LE2 st ch ls s ns -> 0 <= ls <= len (buf s) /\ bi s = lineEnd (buf s) ls.
Proof. intros st ch ls s ns [H _]. apply (LEy_basic _ _ _ _ _ H). Qed.
Lemma LE2_en : forall st ch ls s ns, LE2 st ch ls s ns -> allP (en (buf s) ls) ch /\ ccF ch = true.
Proof. intros st ch ls s ns [H [He _]]. split; [exact He|]. unfold LEy, LEx in H. destruct H as (_ & _ & _ & _ & Hcc & _). exact Hcc. Qed.
Lemma SJ2_le : forall s ch ns, SJ2 s ch ns -> leL (bi s) ch = true.
Proof. intros s ch ns [H _]. apply (SJx_le _ _ _ H). Qed.

Lemma X2_step : forall st ch ls s ns, LE2 st ch ls s ns ->
  exists ns', SJ2 s (fst (fst (processLine st ch ls (upto (buf s) (bi s))))) ns' /\
    (makeRoot (fst (fst (processLine st ch ls (upto (buf s) (bi s))))) s = None ->
     LE2 (snd (fst (processLine st ch ls (upto (buf s) (bi s))))) (fst (fst (processLine st ch ls (upto (buf s) (bi s))))) (bi s)
         {| buf := buf s; bi := lineEnd (buf s) (bi s); boff := boff s; bline := bline s; pending := pending s |} ns').
Proof.
  intros st ch ls s ns (HL & He & Hp & Ht).
  destruct (LEy_basic _ _ _ _ _ HL) as [Hls Hbi].
  destruct (lineEnd_spec (buf s) ls Hls) as [A B]. rewrite <- Hbi in A, B.
  pose proof HL as HL0. unfold LEy, LEx in HL0. destruct HL0 as (_ & _ & _ & _ & Hcc & Hk & _).
  pose proof (ent_processLine (buf s) (bi s) st ch ls ltac:(lia) ltac:(lia) ltac:(lia) Hp
                ltac:(rewrite Hbi; apply lineEnd_lineOK, Hls) Hcc Hk He) as H4.
  destruct (X_step _ _ _ _ _ HL) as (ns' & HS & HN). exists ns'.
  assert (Hp' : prevOK (buf s) (bi s)).
  { destruct (Z.lt_ge_cases (bi s) (len (buf s))) as [Lt|Ge]; [|right; right; lia]. destruct (B Lt) as [_ D]. right. left. apply isEOLb_z, D. }
  split; [split; [exact HS|split; [exact H4|split; [exact Hp'|exact Ht]]]|].
  intros Em. split; [apply HN, Em|]. cbn [buf bi]. split; [exact H4|split; [exact Hp'|exact Ht]].
Qed.

Lemma X2_make : forall s ch ns r s1, SJ2 s ch ns -> makeRoot ch s = Some (r, s1) ->
  (forall b rest, ch = b :: rest -> isOpen b = false -> leB (bend b) b = true /\ geL (bend b) rest = true) /\ SJ2 s1 (pending s1) ns.
Proof.
  intros s ch ns r s1 (HS & He & Hp & Ht) Hm. destruct (X_make _ _ _ _ _ HS Hm) as [HUL HS1]. split; [exact HUL|].
  assert (HSJ : SJ s ch ns) by apply HS.
  destruct (EJ_makeRoot s ch ns r s1 HSJ (conj He (conj Hp Ht)) Hm) as [_ (He1 & Hp1 & Ht1)].
  split; [exact HS1|split; [exact He1|split; [exact Hp1|exact Ht1]]].
Qed.

Lemma PadF_tri B : PadF B -> tri B.
Proof. intros (t & ->). apply tri_pad. Qed.
Lemma X2_nil : forall s, PadF (buf s) -> bi s = lineEnd (buf s) 0 -> LE2 0 [] 0 s true.
Proof. intros s HP Hb. split; [apply X_nil; assumption|]. split; [exact I|]. split; [left; reflexivity|apply PadF_tri, HP]. Qed.
Lemma X2_next : forall s ns, SJ2 s (pending s) ns -> 0 <= bi s <= len (buf s) -> pending s <> [] -> makeRoot (pending s) s = None ->
  LE2 0 (pending s) (bi s) {| buf := buf s; bi := lineEnd (buf s) (bi s); boff := boff s; bline := bline s; pending := pending s |} ns.
Proof.
  intros s ns (HS & He & Hp & Ht) Hb Hn Hm. split; [apply X_next; assumption|]. cbn [buf]. split; [exact He|split; [exact Hp|exact Ht]].
Qed.
Lemma X2_init : forall input, SJ2 {| buf := pad input; bi := 0; boff := 0; bline := 1; pending := [] |} [] true.
Proof. intros input. split; [apply X_init|]. cbn [buf bi]. split; [exact I|]. split; [left; reflexivity|apply tri_pad]. Qed.
Print Assumptions X2_step. Print Assumptions X2_make.
