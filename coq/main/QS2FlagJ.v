(* QS2FlagJ.v -- T58b part J: addLineText and the last entry of a top-level open paragraph. *)
From Coq Require Import List ZArith Lia Bool.
Import ListNotations.
Require Import Base Tree Rdr Link Collect Html Recog LP Rules Starts Driver Rec17 L2Kind2 L2CC TDefs TOcp TInv TDesc TStarts TLine NoPanic47 BSOrph
  QS2FlagA QS2FlagB QS2FlagC QS2FlagD QS2FlagH QS2FlagI.
Open Scope Z_scope.

Definition nonblankAt (src : bytes) (s e : Z) : Prop := exists q, s <= q < e /\ isSpaceTabOrLineEnding (at_ src q) = false.
Definition LastOK (src : bytes) (M : Z) (c : block) : Prop :=
  exists preL ul, bik c = preL ++ [ul] /\ ikind ul = UnparsedKind /\ iend ul = M /\ nonblankAt src (istart ul) (iend ul).
Definition TopP (src : bytes) (M : Z) (r : block) : Prop :=
  forall c, lastBlock r = Some c -> isOpen c = true -> bkind c = ParagraphKind -> LastOK src M c.

Lemma TopP_NP src M r : TopNP r -> TopP src M r.
Proof. intros H c Hl Ho Hk. exfalso. exact (H c Hl Ho Hk). Qed.

(* ---- a line that is not blank has a byte that is not white space ---- *)
Lemma nonblank_witness (l : bytes) : isBlankLine l = false -> exists j, 0 <= j < len l /\ isSpaceTabOrLineEnding (at_ l j) = false.
Proof.
  induction l as [|c l IH]; [discriminate|]. unfold isBlankLine. cbn [forallb]. intros H. apply andb_false_iff in H. destruct H as [H|H].
  - exists 0. split; [unfold len; cbn [length]; lia|exact H].
  - destruct (IH H) as (j & Hj & Hw). exists (j + 1). split; [unfold len in *; cbn [length]; lia|].
    unfold at_ in *. destruct (Z.ltb_spec j 0); [lia|]. destruct (Z.ltb_spec (j + 1) 0); [lia|].
    replace (Z.to_nat (j + 1)) with (S (Z.to_nat j)) by lia. exact Hw.
Qed.
Lemma rest_witness p : 0 <= li p -> isRestBlank p = false -> exists j, li p <= j < len (line p) /\ isSpaceTabOrLineEnding (at_ (line p) j) = false.
Proof.
  intros H0 H. unfold isRestBlank, rest in H. destruct (nonblank_witness _ H) as (j & Hj & Hw).
  destruct (Z.le_gt_cases (li p) (len (line p))) as [L|L].
  - rewrite len_from in Hj by lia. rewrite at_from in Hw by lia. exists (li p + j). split; [lia|exact Hw].
  - exfalso. assert (E : from_ (line p) (li p) = []) by (unfold from_, len in *; apply skipn_all2; lia). rewrite E in Hj. unfold len in Hj. cbn in Hj. lia.
Qed.

(* consumeIndent moves the cursor over spaces and tabs only *)
Lemma isSpTab_ws c : isSpTab c = true -> isSpaceTabOrLineEnding c = true.
Proof. unfold isSpTab, isSpaceTabOrLineEnding. intros H. apply orb_true_iff in H. destruct H as [H|H]; rewrite H; rewrite ?orb_true_r; reflexivity. Qed.
Lemma ci_skip : forall fuel p n j, li p <= j < li (consumeIndent_loop fuel p n) -> isSpTab (at_ (line p) j) = true.
Proof.
  induction fuel as [|f IH]; intros p n j Hj; [cbn in Hj; lia|]. cbn [consumeIndent_loop] in Hj.
  destruct (n <=? 0); [lia|]. cbv zeta in Hj.
  set (q := if state p =? stOpening then withState p stOpenMatched else p) in *.
  assert (Eq : li q = li p /\ line q = line p) by (unfold q; destruct (_ =? _); split; reflexivity). destruct Eq as [E1 E2]. rewrite E1, E2 in Hj.
  destruct ((li p <? len (line p)) && (at_ (line p) (li p) =? 32)) eqn:E32.
  - apply andb_true_iff in E32. destruct E32 as [_ E32]. apply Z.eqb_eq in E32.
    destruct (Z.eq_dec j (li p)) as [->|N]; [rewrite E32; reflexivity|].
    match type of Hj with _ <= _ < li (consumeIndent_loop f ?q1 ?n1) => specialize (IH q1 n1 j) end. cbn [li line withCursor setLP] in IH. rewrite E2 in IH. apply IH. lia.
  - destruct ((li p <? len (line p)) && (at_ (line p) (li p) =? 9)) eqn:E9; [|change (li (panic q 3)) with (li q) in Hj; rewrite E1 in Hj; lia].
    apply andb_true_iff in E9. destruct E9 as [_ E9]. apply Z.eqb_eq in E9.
    destruct (n <? tabRem q); [cbn [li withCursor setLP] in Hj; lia|].
    destruct (Z.eq_dec j (li p)) as [->|N]; [rewrite E9; reflexivity|].
    match type of Hj with _ <= _ < li (consumeIndent_loop f ?q1 ?n1) => specialize (IH q1 n1 j) end. cbn [li line withCursor setLP] in IH. rewrite E2 in IH. apply IH. lia.
Qed.
Lemma ci_witness p n j : li p <= j -> isSpaceTabOrLineEnding (at_ (line p) j) = false -> li (consumeIndent p n) <= j.
Proof.
  intros Hj Hw. destruct (Z.le_gt_cases (li (consumeIndent p n)) j) as [L|L]; [exact L|]. exfalso.
  unfold consumeIndent in L. rewrite (isSpTab_ws _ (ci_skip (S (length (line p))) p n j (conj Hj L))) in Hw. discriminate.
Qed.

(* ---- appending the text of the line to the container at depth 1 ---- *)
Lemma top_after_append p u c' : cdepth p = 1%nat -> lastBlock (root (updCont p (fun b => set_bik b (bik b ++ [u])))) = Some c' ->
  exists c0, getAt 1 (root p) = Some c0 /\ c' = set_bik c0 (bik c0 ++ [u]).
Proof.
  intros Hd H. unfold updCont in H. cbn [root withRoot setLP] in H. rewrite Hd in H. rewrite <- getAt_1, getAt_updAt_same in H.
  destruct (getAt 1 (root p)) as [c0|]; [|discriminate]. cbn [option_map] in H. inversion H. exists c0. split; reflexivity.
Qed.
Lemma LastOK_append src M c0 s : nonblankAt src s M -> LastOK src M (set_bik c0 (bik c0 ++ [mkI UnparsedKind s M])).
Proof. intros H. exists (bik c0), (mkI UnparsedKind s M). split; [destruct c0; reflexivity|]. split; [reflexivity|]. split; [reflexivity|exact H]. Qed.

Lemma goF_para q : containerKind q = ParagraphKind ->
  goF q = updCont q (fun b => set_bik b (bik b ++ [mkI UnparsedKind (lineStart q + li q) (lineStart q + len (line q))])).
Proof. intros E. unfold goF. cbv zeta. rewrite E. reflexivity. Qed.
Lemma containerKind_goF q : containerKind (goF q) = containerKind q.
Proof.
  unfold goF. cbv zeta. destruct (_ && _); rewrite !containerKind_updCont by (intros b; apply bkind_set_bik); reflexivity.
Qed.

(* the common end of the two branches that add text: the container q (depth >= 1) receives the line *)
Lemma TopP_goF src M q : ccP (goF q) -> (1 <= cdepth q)%nat -> 0 <= lineStart q -> line q = from_ src (lineStart q) -> Mp q = M ->
  (containerKind q = ParagraphKind -> exists j, li q <= j < len (line q) /\ isSpaceTabOrLineEnding (at_ (line q) j) = false) ->
  0 <= li q -> TopP src M (root (goF q)).
Proof.
  intros Hfin Hd H0 Hline HM Hnb Hli. pose proof (cdepth_goF q) as Ecd.
  destruct (Nat.eq_dec (cdepth q) 1) as [E1|N1].
  2:{ apply TopP_NP. apply (TopNP_deep (goF q) Hfin). lia. }
  destruct (Z.eq_dec (containerKind q) ParagraphKind) as [Ek|Nk].
  2:{ apply TopP_NP. apply (TopNP_cont (goF q) Hfin); [lia|rewrite containerKind_goF; exact Nk]. }
  rewrite (goF_para q Ek). intros c' Hl _ _. destruct (top_after_append q _ c' E1 Hl) as (c0 & _ & ->).
  unfold Mp in HM. rewrite <- HM. apply LastOK_append.
  destruct (Hnb Ek) as (j & Hj & Hw). exists (lineStart q + j). split; [lia|]. rewrite Hline in Hw. rewrite at_from in Hw by lia. exact Hw.
Qed.

Lemma TopP_addLineText src M p : ccP p -> CU p -> goodSt p -> line p = from_ src (lineStart p) -> Mp p = M ->
  (containerKind p = ParagraphKind -> isRestBlank p = false) -> (cdepth p = O -> TopNP (root p)) ->
  TopP src M (root (addLineText p)).
Proof.
  intros Hc HC HG Hline HM HP1 HP2. destruct HC as [H0 Hli].
  pose proof (ccP_addLineText p Hc) as Hfin. revert Hfin.
  unfold addLineText. cbv zeta.
  change (fun b : block => match lastBlock b with Some c => set_lastBlocks b [set_blast c true] | None => b end) with blankF.
  set (pa := if isRestBlank p then updCont p blankF else p).
  assert (Ea : cdepth pa = cdepth p /\ state pa = state p /\ lineStart pa = lineStart p /\ li pa = li p /\ line pa = line p /\ tabRem pa = tabRem p)
    by (unfold pa; destruct (isRestBlank p); repeat split; reflexivity).
  destruct Ea as (Ea1 & Ea2 & Ea3 & Ea4 & Ea5 & Ea6).
  assert (Ka : containerKind pa = containerKind p) by (unfold pa; destruct (isRestBlank p); [apply containerKind_updCont, bkind_blankF|reflexivity]).
  assert (Ca : ccP pa).
  { unfold pa. destruct (isRestBlank p); [|exact Hc]. apply ccP_updCont; [exact Hc|].
    intros x _ Hx. unfold blankF. destruct (lastBlock x) as [c|] eqn:El; [|tauto]. split; [|apply bkind_set_lastBlocks].
    eapply cc_set_lastBlocks; [exact Hx|exact El|]. constructor; [|constructor].
    rewrite cc_set_blast, bkind_set_blast. split; [eapply cc_lastBlock; eassumption|apply compat_refl]. }
  fold (containerKind pa). rewrite Ka.
  match goal with |- context [setLastBlankUpTo (cdepth pa) ?v (root pa)] => set (llb := v) end.
  set (pb := withRoot pa (setLastBlankUpTo (cdepth pa) llb (root pa))).
  assert (Eb : cdepth pb = cdepth p /\ state pb = state p /\ lineStart pb = lineStart p /\ li pb = li p /\ line pb = line p /\ tabRem pb = tabRem p).
  { unfold pb. cbn [cdepth container state lineStart li line tabRem withRoot setLP]. fold (cdepth pa). tauto. }
  destruct Eb as (Eb1 & Eb2 & Eb3 & Eb4 & Eb5 & Eb6).
  assert (Kb : containerKind pb = containerKind p).
  { rewrite <- Ka. rewrite !containerKind_kindAt. unfold pb. cbn [root cdepth container withRoot setLP]. fold (cdepth pa). rewrite kindAt_setLB. reflexivity. }
  assert (Cb : ccP pb).
  { destruct Ca as (A & B & C). unfold pb, ccP, wf, cdepth. cbn [root container withRoot setLP]. fold (cdepth pa).
    match goal with |- context [setLastBlankUpTo ?d ?v ?r] => destruct (cc_setLastBlankUpTo v d r (cdepth pa) B C) as (A' & B' & C') end.
    split; [rewrite B'; exact A|split; [exact A'|exact C']]. }
  destruct (acceptsLines (containerKind p)) eqn:Eacc.
  - (* the container takes the line *)
    assert (Hd : (1 <= cdepth p)%nat).
    { destruct (cdepth p) eqn:Ed; [|lia]. exfalso. rewrite (containerKind_root p Ed) in Eacc. destruct Hc as (A & _). rewrite A in Eacc. discriminate. }
    fold (goF pb).
    match goal with |- context [if ?c then consumeIndent ?x ?n else pb] => set (cnd := c); set (pi := x) end.
    set (pc := if cnd then consumeIndent pi (tabRem pi) else pb).
    fold (goF pc). intros Hfin.
    assert (Epi : cdepth pi = cdepth p /\ lineStart pi = lineStart p /\ li pi = li p /\ line pi = line p /\ tabRem pi = tabRem p /\ containerKind pi = containerKind p).
    { unfold pi. cbn [cdepth container lineStart li line tabRem updCont withRoot setLP]. fold (cdepth pb).
      split; [exact Eb1|]. split; [exact Eb3|]. split; [exact Eb4|]. split; [exact Eb5|]. split; [exact Eb6|].
      rewrite <- Kb. apply (containerKind_updCont pb). intros b. apply bkind_set_bik. }
    destruct Epi as (Ei1 & Ei2 & Ei3 & Ei4 & Ei5 & Ei6).
    assert (Epc : cdepth pc = cdepth p /\ lineStart pc = lineStart p /\ line pc = line p /\ containerKind pc = containerKind p /\ li p <= li pc /\
                  (forall j, li p <= j -> isSpaceTabOrLineEnding (at_ (line p) j) = false -> li pc <= j)).
    { unfold pc. destruct cnd eqn:Ecnd.
      - pose proof (sameT_consumeIndent pi (tabRem pi)) as (T1 & T2 & T3 & T4 & _).
        split; [rewrite cd_consumeIndent; exact Ei1|]. split; [rewrite T3; exact Ei2|]. split; [rewrite T4; exact Ei4|].
        split; [rewrite (containerKind_same pi); [exact Ei6|apply same_consumeIndent]|].
        unfold cnd in Ecnd. rewrite !andb_true_iff in Ecnd. destruct Ecnd as (((C1 & C2) & C3) & C4).
        apply Z.ltb_lt in C1. apply Z.eqb_eq in C2. apply Z.ltb_lt in C3.
        assert (Eli : li (consumeIndent pi (tabRem pi)) = li pi + 1) by (apply (li_consumeIndent_tab pi); [rewrite Ei3, Ei4, <- Eb4, <- Eb5; exact C1|rewrite Ei3, Ei4, <- Eb4, <- Eb5; exact C2|rewrite Ei5, <- Eb6; exact C3]).
        rewrite Eli, Ei3. split; [lia|]. intros j Hj Hw. destruct (Z.eq_dec j (li p)) as [->|N]; [|lia]. exfalso.
        rewrite <- Eb4, <- Eb5, C2 in Hw. discriminate.
      - split; [exact Eb1|]. split; [exact Eb3|]. split; [exact Eb5|]. split; [exact Kb|]. rewrite Eb4. split; [lia|]. intros j Hj _. exact Hj. }
    destruct Epc as (Ec1 & Ec2 & Ec3 & Ec4 & Ec5 & Ec6).
    apply (TopP_goF src M pc Hfin); [lia|lia|rewrite Ec3, Ec2; exact Hline|unfold Mp in *; rewrite Ec2, Ec3; exact HM| |lia].
    intros Ek. rewrite Ec4 in Ek. destruct (rest_witness p ltac:(lia) (HP1 Ek)) as (j & Hj & Hw). exists j. rewrite Ec3. split; [|exact Hw].
    split; [apply Ec6; [lia|exact Hw]|lia].
  - destruct (negb (isRestBlank p)) eqn:Ebl.
    + (* a new paragraph *)
      fold (goF (consumeIndent (openBlock pb ParagraphKind) (indent (openBlock pb ParagraphKind)))).
      set (po := openBlock pb ParagraphKind). set (pq := consumeIndent po (indent po)). intros Hfin.
      assert (Sb : st_open pb) by (destruct (HG Eacc) as [E0|E0]; [left|right]; rewrite Eb2; exact E0).
      assert (Do : (1 <= cdepth po)%nat) by (apply cdepth_openBlock; apply st_open_notdesc, Sb).
      pose proof (curS_openBlock pb ParagraphKind) as [(Eo1 & Eo2 & Eo3) Eo4]. fold po in Eo1, Eo2, Eo3, Eo4.
      assert (Co : ccP po) by (apply ccP_openBlock; [exact Cb|left; discriminate]).
      assert (Ko : containerKind po = ParagraphKind) by (apply containerKind_of; [exact Co|apply ckind_openBlock, Sb]).
      pose proof (sameT_consumeIndent po (indent po)) as (T1 & T2 & T3 & T4 & _). fold pq in T1, T2, T3, T4.
      apply negb_true_iff in Ebl.
      destruct (rest_witness p ltac:(lia) Ebl) as (j & Hj & Hw).
      apply (TopP_goF src M pq Hfin).
      * unfold pq. rewrite cd_consumeIndent. exact Do.
      * rewrite T3, Eo1, Eb3. exact H0.
      * rewrite T4, T3, Eo1, Eo2, Eb3, Eb5. exact Hline.
      * unfold Mp in *. rewrite T3, T4, Eo1, Eo2, Eb3, Eb5. exact HM.
      * intros _. exists j. rewrite T4, Eo2, Eb5. split; [|exact Hw]. split; [|lia].
        apply (ci_witness po (indent po) j); [rewrite Eo4, Eb4; lia|rewrite Eo2, Eb5; exact Hw].
      * pose proof (CU_consumeIndent po (indent po) ltac:(unfold CU; rewrite Eo1, Eo2, Eo4, Eb3, Eb4, Eb5; split; [exact H0|exact Hli])) as [_ [L2 _]]. exact L2.
    + (* a blank line that the container does not take *)
      intros Hfin. apply TopP_NP. apply negb_false_iff in Ebl.
      destruct (cdepth p) as [|[|d]] eqn:Ed.
      * (* the document: the last child is flagged *)
        specialize (HP2 eq_refl). unfold pb. rewrite Ea1. cbn [setLastBlankUpTo updAt root withRoot setLP].
        intros c Hl Ho. rewrite (lastBlock_kids _ _ (bkids_set_blast (root pa) llb)) in Hl.
        unfold pa in Hl. rewrite Ebl in Hl. unfold updCont in Hl. cbn [root withRoot setLP] in Hl. rewrite Ed in Hl. cbn [updAt] in Hl. unfold blankF in Hl.
        destruct (lastBlock (root p)) as [c0|] eqn:El; [|rewrite El in Hl; discriminate].
        rewrite (lastBlock_set_lastBlocks_one (root p) (set_blast c0 true)) in Hl. inversion Hl; subst c.
        rewrite bkind_set_blast. apply (HP2 c0 El). destruct c0; exact Ho.
      * apply (TopNP_cont pb Hfin); [exact Eb1|]. rewrite Kb. intros E0. rewrite E0 in Eacc. discriminate.
      * apply (TopNP_deep pb Hfin). rewrite Eb1. lia.
Qed.
