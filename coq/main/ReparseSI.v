From Coq Require Import List ZArith Lia Bool.
Import ListNotations.
Require Import Base Tree Rdr Link Collect Html Recog LP Rules Starts Driver L2Kind L2CC TDefs TOcp StreamFuel LADef LA1 ReparseFrame.
Open Scope Z_scope.

(* T50 continuation: closing a block at T does not look at the bytes of the source from T on, provided every entry of the open
   blocks lies in [0, T] (the invariant la) and the open paragraph, if any, is handled the same way by both sources. *)
Lemma sub_upto_le (S : bytes) T s e : 0 <= s -> e <= T -> sub (upto S T) s e = sub S s e.
Proof.
  intros Hs He. unfold sub, upto, from_.
  destruct (Z.le_gt_cases e s) as [L|L]; [replace (Z.to_nat (e - s)) with O by lia; reflexivity|].
  rewrite skipn_firstn_comm, firstn_firstn. f_equal. lia.
Qed.

Definition entIn (T : Z) (ik : list inline) : Prop := forall u, In u ik -> 0 <= istart u /\ iend u <= T.

Lemma trimBlankTail_SI S T : forall rk, entIn T rk -> trimBlankTail (upto S T) rk = trimBlankTail S rk.
Proof.
  induction rk as [|c r IH]; intros H; [reflexivity|]. cbn [trimBlankTail].
  destruct (H c (or_introl eq_refl)) as [A B]. rewrite (sub_upto_le S T _ _ A B).
  destruct (_ && _); [|reflexivity]. apply IH. intros u Hu. apply H. right. exact Hu.
Qed.
Lemma onCloseIndented_SI S T b : entIn T (bik b) -> onCloseIndented (upto S T) b = onCloseIndented S b.
Proof.
  intros H. unfold onCloseIndented. cbv zeta.
  assert (E1 : (match rev (bik b) with
          | last :: prev :: r => if (ikind last =? SoftLineBreakKind) && (iend last - istart last =? 0) && (ikind prev =? TextKind) && isBlankLine (sub (upto S T) (istart prev) (iend prev)) then rev (prev :: r) else bik b
          | _ => bik b end) =
          (match rev (bik b) with
          | last :: prev :: r => if (ikind last =? SoftLineBreakKind) && (iend last - istart last =? 0) && (ikind prev =? TextKind) && isBlankLine (sub S (istart prev) (iend prev)) then rev (prev :: r) else bik b
          | _ => bik b end)).
  { destruct (rev (bik b)) as [|last [|prev r]] eqn:Er; [reflexivity|reflexivity|].
    assert (Hin : In prev (bik b)) by (apply in_rev; rewrite Er; right; left; reflexivity).
    destruct (H prev Hin) as [A B]. rewrite (sub_upto_le S T _ _ A B). reflexivity. }
  rewrite E1. set (ik' := match rev (bik b) with | last :: prev :: r => _ | _ => bik b end).
  assert (Hik' : entIn T (rev ik')).
  { unfold ik'. destruct (rev (bik b)) as [|last [|prev r]] eqn:Er.
    - intros u Hu. apply in_rev in Hu. apply H, Hu.
    - intros u Hu. apply in_rev in Hu. apply H, Hu.
    - match goal with |- entIn T (rev (if ?c then _ else _)) => destruct c end.
      + intros u Hu. rewrite rev_involutive in Hu. apply H. apply in_rev. rewrite Er. right. exact Hu.
      + intros u Hu. apply in_rev in Hu. apply H, Hu. }
  rewrite (trimBlankTail_SI S T _ Hik'). reflexivity.
Qed.

Lemma tile_entIn S s T ik : 0 <= s -> tileS S s T (map ispan ik) -> entIn T ik.
Proof.
  intros Hs Ht u Hu. destruct (tileS_In S s T _ (ispan u) Ht (in_map ispan _ _ Hu)) as (A & B & C). unfold ispan in *. cbn [fst snd] in *. lia.
Qed.

(* the paragraphs on the open spine of x are closed the same way *)
Definition ocpEq (S : bytes) (T : Z) (y : block) : Prop :=
  onCloseParagraph (upto S T) (set_bend y T) = onCloseParagraph S (set_bend y T).
Definition spineEq (S : bytes) (T : Z) (x : block) : Prop :=
  forall d y, getAt d x = Some y -> isOpen y = true -> isParaK (bkind y) = true -> ocpEq S T y.

Lemma spineEq_last S T x z : spineEq S T x -> lastBlock x = Some z -> spineEq S T z.
Proof. intros H El d y Hy. apply (H (Datatypes.S d) y). rewrite getAt_S, El. exact Hy. Qed.

Lemma cc_nokids b : cc b = true -> (forall K, canContain (bkind b) K = false) -> bkids b = [].
Proof.
  intros H Hk. apply cc_parts in H. destruct H as [H _]. destruct (bkids b) as [|x r]; [reflexivity|].
  cbn [forallb] in H. rewrite Hk in H. discriminate.
Qed.
Lemma bkids_set_bend b e : bkids (set_bend b e) = bkids b. Proof. destruct b; reflexivity. Qed.
Lemma lastBlock_set_bend b e : lastBlock (set_bend b e) = lastBlock b. Proof. destruct b; reflexivity. Qed.
Lemma lastBlock_set_bloose b v : lastBlock (set_bloose b v) = lastBlock b. Proof. destruct b; reflexivity. Qed.
Lemma isOpen_set_bloose b v : isOpen (set_bloose b v) = isOpen b. Proof. destruct b; reflexivity. Qed.
Lemma bkind_set_bloose' b v : bkind (set_bloose b v) = bkind b. Proof. destruct b; reflexivity. Qed.

Lemma lastBlock_onCloseList b c0 : lastBlock (onCloseList b) = Some c0 ->
  exists z, lastBlock b = Some z /\ (c0 = z \/ c0 = set_bloose z true).
Proof.
  unfold onCloseList. cbv zeta. destruct (bloose b || _); [|intros H; exists c0; tauto].
  unfold lastBlock. destruct b as [k s e bk ik a n ch l lb]. cbn [set_bloose set_bkids bkids].
  rewrite <- map_rev. destruct (rev bk) as [|z r]; [discriminate|]. cbn [map]. intros H. inversion H. exists z. tauto.
Qed.

Section SI.
  Variables (S : bytes) (T : Z).

  Definition SIat (f : nat) : Prop :=
    forall x, la S T x -> cc x = true -> spineEq S T x -> closeBlock f (upto S T) x T = closeBlock f S x T.

  Lemma SI_step f : (forall g, (g < f)%nat -> SIat g) -> SIat f.
  Proof.
    intros IH x Hla Hcc Hsp. destruct f as [|f]; [reflexivity|]. cbn [closeBlock].
    destruct (isOpen x) eqn:Ho; cbn [negb]; [|reflexivity]. cbv zeta.
    apply la_eq in Hla. destruct Hla as (Hs & He & Hns & Hbody & Hkids).
    assert (HIH : forall z, lastBlock x = Some z -> closeBlock f (upto S T) z T = closeBlock f S z T).
    { intros z El. apply (IH f (Nat.lt_succ_diag_r f)); [apply (allQ_In _ _ _ Hkids), lastBlock_In, El|apply (cc_lastBlock x z Hcc El)|eapply spineEq_last; eassumption]. }
    assert (Hb1 : bkind (set_bend x T) = bkind x) by (destruct x; reflexivity). rewrite Hb1.
    destruct (Z.eqb_spec (bkind x) ListKind) as [Ek|Nk].
    - (* list: the last child of onCloseList b1 is the last item, possibly marked loose *)
      destruct (lastBlock (onCloseList (set_bend x T))) as [c0|] eqn:El; [|reflexivity].
      destruct (lastBlock_onCloseList _ c0 El) as (z & Ez & Ec0). rewrite lastBlock_set_bend in Ez.
      assert (Hz : la S T z) by (apply (allQ_In _ _ _ Hkids), lastBlock_In, Ez).
      destruct (cc_lastBlock x z Hcc Ez) as [Hcz Hcan]. rewrite Ek in Hcan. unfold canContain in Hcan. cbn in Hcan. apply Z.eqb_eq in Hcan.
      assert (Hi : forall v, closeBlock f (upto S T) (set_bloose z v) T = closeBlock f S (set_bloose z v) T).
      { intros v. destruct f as [|f']; [reflexivity|]. cbn [closeBlock]. rewrite isOpen_set_bloose. destruct (isOpen z); cbn [negb]; [|reflexivity]. cbv zeta.
        assert (Ekz : bkind (set_bend (set_bloose z v) T) = ListItemKind) by (destruct z; exact Hcan). rewrite Ekz.
        change (ListItemKind =? ListKind) with false. change (ListItemKind =? IndentedCodeBlockKind) with false.
        change ((ListItemKind =? ParagraphKind) || (ListItemKind =? SetextHeadingKind)) with false. cbv iota.
        rewrite lastBlock_set_bend, lastBlock_set_bloose. destruct (lastBlock z) as [w|] eqn:Ew; [|reflexivity].
        assert (Hw : closeBlock f' (upto S T) w T = closeBlock f' S w T).
        { apply (IH f' ltac:(lia)); [apply la_eq in Hz; destruct Hz as (_ & _ & _ & _ & Hk); apply (allQ_In _ _ _ Hk), lastBlock_In, Ew
                                    |apply (cc_lastBlock z w Hcz Ew)|]. eapply spineEq_last; [|exact Ew]. eapply spineEq_last; eassumption. }
        rewrite Hw. reflexivity. }
      destruct Ec0 as [-> | ->]; [|rewrite Hi; reflexivity].
      pose proof (Hi (bloose z)) as Hz'. replace (set_bloose z (bloose z)) with z in Hz' by (destruct z; reflexivity). rewrite Hz'. reflexivity.
    - destruct (Z.eqb_spec (bkind x) IndentedCodeBlockKind) as [Ei|Ni].
      + (* indented code: a leaf *)
        assert (Hnk : bkids x = []) by (apply cc_nokids; [exact Hcc|intros K; rewrite Ei; reflexivity]).
        assert (Hent : entIn T (bik (set_bend x T))).
        { unfold body in Hbody. rewrite Ei in Hbody. cbn [isLeafK] in Hbody. change (isLeafK IndentedCodeBlockKind) with true in Hbody. cbv iota in Hbody.
          destruct Hbody as (Ht & _). unfold hiOf in Ht. unfold isOpen in Ho. rewrite Ho in Ht.
          replace (bik (set_bend x T)) with (bik x) by (destruct x; reflexivity). apply (tile_entIn S (bstart x) T); [lia|exact Ht]. }
        rewrite (onCloseIndented_SI S T _ Hent).
        assert (El : lastBlock (onCloseIndented S (set_bend x T)) = None).
        { unfold lastBlock, onCloseIndented. cbv zeta. destruct x. cbn in *. subst. reflexivity. }
        rewrite El. reflexivity.
      + destruct ((bkind x =? ParagraphKind) || (bkind x =? SetextHeadingKind)) eqn:Ep.
        * apply (Hsp O x eq_refl Ho). unfold isParaK. exact Ep.
        * rewrite lastBlock_set_bend. destruct (lastBlock x) as [z|] eqn:El; [|reflexivity]. rewrite (HIH z eq_refl). reflexivity.
  Qed.

  Theorem closeBlock_SI : forall f, SIat f.
  Proof.
    assert (G : forall n f, (f <= n)%nat -> SIat f).
    { induction n as [|n IHn]; intros f Hf; apply SI_step; intros g Hg; [lia|apply IHn; lia]. }
    intros f. apply (G f f (Nat.le_refl f)).
  Qed.
End SI.

(* a paragraph whose first byte is not '[' holds no link reference definition *)
Definition plainPara (S : bytes) (y : block) : Prop :=
  match bik y with first :: _ => fst (current (newReader S (bik y) (istart first))) <> 91 | [] => True end.
Lemma ocp_plain S y : plainPara S y -> onCloseParagraph S y = [y].
Proof.
  unfold plainPara, onCloseParagraph. destruct (bik y) as [|first rest] eqn:Eb; [reflexivity|]. cbv zeta. intros H.
  cbn [ocp_loop]. cbv zeta. unfold parseLinkLabel.
  destruct (current (newReader S (first :: rest) (istart first))) as [c0 r0]. cbn [fst] in H.
  replace (c0 =? 91) with false by (symmetry; apply Z.eqb_neq; exact H). reflexivity.
Qed.
