From Coq Require Import List ZArith Lia Bool.
Import ListNotations.
Require Import Base Tables Utf8 Tree Rdr Link Collect Html Recog LP Rules Starts Driver Props.
Require Import Leaf3e RdrBound BSRdr BSOrph GI0 SpanHypDef LADef LA1 LA2 LARec LAR1 LAR2 LAR4 ExOcp.
Open Scope Z_scope.

(* ================================================================================================
   T56 (a), part 1 (DefSpansOcp): the invariant that gives Props' span structure of link reference definition blocks, and
   its proof for the loop of onCloseParagraph, from the scanner specifications of LAR2.
     locD b : a definition block with a non-negative start has start <= end, its entries are ordered inside it
              (SpanHypDef.ordered_inX) and each entry has start <= end and its children ordered inside the entry.
     locQ3   : an open paragraph either has no entries or its (start, entries) is one of the pairs `mem` accepts: the
               pairs for which the scanner specifications of LAR2 are available (GoodP below); an open setext heading keeps
               paragraph content (ExOcp.lpok), as in ExOcp.
   ================================================================================================ *)

Definition vkid (k : inline) : bool := istart k <=? iend k.
Definition entD (u : inline) : bool :=
  (istart u <=? iend u) && ordered_inX (istart u) (iend u) (ikids u) && forallb vkid (ikids u).
Definition locD (b : block) : bool :=
  negb (bkind b =? LinkReferenceDefinitionKind) || negb (0 <=? bstart b) ||
  ((bstart b <=? bend b) && ordered_inX (bstart b) (bend b) (bik b) && forallb entD (bik b)).

Section Defs.
  Variable mem : Z -> list inline -> bool.
  Variable src : bytes.
  Definition locQ3 (b : block) : bool :=
    negb ((bend b <? 0) && isPSb (bkind b)) ||
    ((nilb (bik b) || mem (bstart b) (bik b)) && (negb (bkind b =? SetextHeadingKind) || lpok src (bik b))).
  Fixpoint inv3 (b : block) : bool :=
    match b with Blk K s e bk ik a n c l lb =>
      locQ3 (Blk K s e bk ik a n c l lb) && locD (Blk K s e bk ik a n c l lb) && forallb inv3 bk end.
  Definition inv3L (l : list block) : bool := forallb inv3 l.
  Lemma inv3_eq b : inv3 b = locQ3 b && locD b && inv3L (bkids b). Proof. destruct b; reflexivity. Qed.
  Lemma inv3_parts b : inv3 b = true -> locQ3 b = true /\ locD b = true /\ inv3L (bkids b) = true.
  Proof. rewrite inv3_eq. intros H. apply andb_true_iff in H. destruct H as [H C]. apply andb_true_iff in H. tauto. Qed.
  Lemma inv3_mk b : locQ3 b = true -> locD b = true -> inv3L (bkids b) = true -> inv3 b = true.
  Proof. intros A B C. rewrite inv3_eq, A, B, C. reflexivity. Qed.
  Lemma inv3L_app a b : inv3L (a ++ b) = inv3L a && inv3L b. Proof. apply forallb_app. Qed.
  Lemma inv3L_snoc l x : inv3L l = true -> inv3 x = true -> inv3L (l ++ [x]) = true.
  Proof. intros A B. rewrite inv3L_app, A. cbn. rewrite B. reflexivity. Qed.

  Lemma inv3_closedPS b : 0 <= bend b -> isPSb (bkind b) = true -> inv3L (bkids b) = true -> inv3 b = true.
  Proof.
    intros He Hk Hc. apply inv3_mk; [| |exact Hc].
    - unfold locQ3. destruct (Z.ltb_spec (bend b) 0); [lia|reflexivity].
    - unfold locD. rewrite (isPS_notref _ Hk). reflexivity.
  Qed.
  Lemma inv3_cut orig pos ik : 0 <= bend orig -> isPSb (bkind orig) = true -> inv3L (bkids orig) = true ->
    inv3 (set_bik (set_bstart orig pos) ik) = true.
  Proof.
    intros A B C. destruct (cut_fields orig pos ik) as (E1 & E2 & E3). apply inv3_closedPS; [rewrite E2; exact A|rewrite E3; exact B|rewrite E1; exact C].
  Qed.
  Lemma inv3_refDef s d kids : (0 <= s -> s <= d /\ ordered_inX s d kids = true /\ forallb entD kids = true) -> inv3 (refDefBlock s d kids) = true.
  Proof.
    intros H. unfold refDefBlock. apply inv3_mk; [unfold locQ3; cbn [bkind]; change (isPSb LinkReferenceDefinitionKind) with false; rewrite andb_false_r; reflexivity| |reflexivity].
    unfold locD. cbn [bkind bstart bend bik]. change (LinkReferenceDefinitionKind =? LinkReferenceDefinitionKind) with true. cbn [negb orb].
    destruct (Z.leb_spec 0 s) as [L|L]; [|reflexivity]. destruct (H L) as (A & B & C). cbn [negb orb]. rewrite B, C, !andb_true_r. apply Z.leb_le, A.
  Qed.
End Defs.

(* ---- ordered_inX ---- *)
Lemma ordX_widen : forall l lo hi lo' hi', lo' <= lo -> hi <= hi' -> ordered_inX lo hi l = true -> ordered_inX lo' hi' l = true.
Proof.
  induction l as [|k r IH]; intros lo hi lo' hi' A B H; [reflexivity|]. cbn [ordered_inX] in *.
  apply andb_true_iff in H. destruct H as [H Hr]. apply andb_true_iff in H. destruct H as [H1 H2]. apply Z.leb_le in H1, H2.
  rewrite (IH (iend k) hi (iend k) hi' (Z.le_refl _) B Hr), andb_true_r. apply andb_true_iff. split; apply Z.leb_le; lia.
Qed.
Lemma tile_ordX src : forall l a e, tileS src a e (map ispan l) -> ordered_inX a e l = true /\ forallb vkid l = true.
Proof.
  induction l as [|k r IH]; intros a e H; [split; reflexivity|]. cbn [map tileS ispan fst snd] in H. destruct H as (A & _ & B & C).
  pose proof (tileS_le _ _ _ _ C) as Hle. destruct (IH _ _ C) as [I1 I2]. cbn [ordered_inX forallb]. rewrite I1, I2, !andb_true_r. split.
  - apply andb_true_iff. split; apply Z.leb_le; lia.
  - unfold vkid. apply Z.leb_le. exact B.
Qed.

(* the pairs (start, entries) of open paragraphs on which the scanner specifications are available: the facts LinesAccounted
   keeps about an open paragraph at the start of a line (position ls) *)
Definition GoodP (src : bytes) (ls s : Z) (ik : list inline) : Prop :=
  0 <= s /\ ls <= len src /\ tileS src s ls (map ispan ik) /\ ENT src ik /\ indOK ik.

Section Ocp.
  Variable mem : Z -> list inline -> bool.
  Variable src : bytes.
  Variable ik : list inline.
  Variables lo hi : Z.
  Hypothesis HG : GoodP src hi lo ik.
  Notation inv3 := (inv3 mem src).
  Notation inv3L := (inv3L mem src).
  Let He : ENT src ik := proj1 (proj2 (proj2 (proj2 HG))).
  Let Hlo : 0 <= lo := proj1 HG.
  Let Hhi : hi <= len src := proj1 (proj2 HG).
  Let Ht : tileS src lo hi (map ispan ik) := proj1 (proj2 (proj2 HG)).
  Let Hio : indOK ik := proj2 (proj2 (proj2 (proj2 HG))).
  Let rfuel : nat := (2 * length src + 10)%nat.
  Let Mn := LAR4.mu_next src ik He Hio.
  Let Mc := LAR4.mu_current src ik He.
  Let Mf := LAR4.mu_fuel src ik He.

  Definition DI (orig : block) (r : reader) (u : inline) (t : list inline) : Prop :=
    (exists pre, ik = pre ++ u :: t) /\ bik orig = u :: t /\ InS src ik r u t /\ r_pos r = istart u.

  Lemma entD_intro k s e ind rf ks a b : s <= a -> b <= e -> s <= e -> tileS src a b (map ispan ks) -> entD (Inl k s e ind rf ks) = true.
  Proof.
    intros A B C T. destruct (tile_ordX src ks a b T) as [O V]. unfold entD. cbn [istart iend ikids]. rewrite V, andb_true_r.
    rewrite (ordX_widen ks a b s e A B O), andb_true_r. apply Z.leb_le, C.
  Qed.

  Lemma D_ocp : forall fuel orig r u t result, DI orig r u t -> 0 <= bend orig -> isPSb (bkind orig) = true ->
    inv3L (bkids orig) = true -> inv3L result = true -> inv3L (ocp_loop fuel rfuel src orig None r result) = true.
  Proof.
    induction fuel as [|f IH]; intros orig r u t result HI Hbe Hk Hc Hres.
    { cbn [ocp_loop]. apply inv3L_snoc; [exact Hres|apply inv3_closedPS; assumption]. }
    assert (Hexit : inv3L (result ++ [orig]) = true) by (apply inv3L_snoc; [exact Hres|apply inv3_closedPS; assumption]).
    pose proof HI as ((pre & Ei) & Eb & Hi & Ep).
    assert (Hr : RS src ik r) by (left; eauto). pose proof (rfuel_pos src ik (mu src) rfuel Mf r Hr) as Hfu.
    pose proof (InS_In src ik r u t Hi) as Hu. pose proof (In_lo src ik lo hi Ht u Hu) as Hlu.
    cbn [ocp_loop]. cbv zeta.
    (* the label *)
    pose proof (parseLinkLabel_spec src ik He lo hi Hhi Ht (mu src) Mn Mc rfuel r Hr) as PL. cbv zeta in PL.
    destruct (parseLinkLabel rfuel r) as [[lspan linner] r1]. cbn [fst snd] in PL.
    destruct (spanValid lspan) eqn:Evl; cbn [negb]; [|exact Hexit].
    destruct (PL eq_refl) as (_ & Hr1 & L1 & L2 & L3 & L4 & L5 & L6 & L7 & L8). clear PL.
    destruct lspan as [ls le]. destruct linner as [is ie]. cbn [fst snd] in *.
    (* the colon *)
    destruct (RS_current src ik He r1 Hr1) as (c & r2 & Ec & Hr2 & Ep2 & Ev2 & Hm2). rewrite Ec.
    destruct (Z.eqb_spec c 58) as [E58|N58]; cbn [negb]; [|exact Hexit].
    assert (Htx58 : tx c = false) by (rewrite E58; reflexivity).
    pose proof (step_NX src ik He ie r1 c r2 Hr1 Ec Htx58 ltac:(lia) L7) as (Hr3 & C2 & C3 & _).
    destruct (next r2) as [ok3 r3]. cbn [fst snd] in *.
    (* white space *)
    pose proof (sls_spec src ik He rfuel r3 Hr3) as (Hr4 & W2 & W3 & _).
    destruct (skipLinkSpace rfuel r3) as [ok4 r4]. cbn [fst snd] in *. destruct ok4; cbn [negb]; [|exact Hexit].
    (* the destination *)
    destruct Hr4 as [Hin4|Ho4].
    2:{ destruct (pld_Out src ik rfuel r4 Hfu Ho4) as (c4 & Ec4 & [E|(E & H1 & H2)]); rewrite E; cbv beta iota.
        - rewrite spanValid_null. cbn [negb]. exact Hexit.
        - pose proof (RS_pos0 src ik He r4 (or_intror Ho4)) as H0.
          assert (Ev : spanValid (r_pos r4, r_pos r4) = true).
          { unfold spanValid. cbn [fst snd]. rewrite !andb_true_iff, !Z.leb_le. lia. }
          rewrite Ev. cbn [negb]. rewrite (readEOL_Out src ik rfuel r4 c4 Hfu Ho4 Ec4 H1 H2). cbv beta iota. rewrite Ec4.
          assert (N0 : (c4 =? 0) = false).
          { apply Z.eqb_neq. intros ->. discriminate H1. }
          rewrite N0, Z.eqb_refl. cbn [Z.ltb Z.compare andb negb]. exact Hexit. }
    pose proof (parseLinkDestination_spec src ik He lo hi Hhi Ht (mu src) Mn Mc rfuel Mf r4 (or_introl Hin4) Hin4) as PD. cbv zeta in PD.
    destruct (parseLinkDestination rfuel r4) as [[dspan dtext] r5]. cbn [fst snd] in PD.
    destruct (spanValid dspan) eqn:Evd; cbn [negb]; [|exact Hexit].
    destruct (PD eq_refl) as (D1 & D2 & D3 & D4 & D5 & D6 & Hr5 & D8 & D9 & D10 & D11 & D12). clear PD.
    destruct dspan as [ds de]. destruct dtext as [ts te]. cbn [fst snd] in *.
    (* the line ending after the destination *)
    pose proof (readEOL_spec src ik He lo hi Hhi Ht (mu src) Mn Mc rfuel Mf r5 Hr5) as (Hr6 & Q2 & Q3 & Q4).
    pose proof (readEOL_neg src ik He lo hi Hhi Ht (mu src) Mn Mc rfuel r5 Hr5) as Qn.
    destruct (readEOL rfuel r5) as [destEOL r6]. cbn [fst snd] in *.
    destruct (RS_current src ik He r6 Hr6) as (c6 & r7 & Ec6 & Hr7 & Ep7 & Ev7 & Hm7). rewrite Ec6.
    destruct ((destEOL <? 0) && (r_pos r6 =? r_pos r5) && negb (c6 =? 0)) eqn:Econd; [exact Hexit|].
    rewrite Eb. subst ls. rewrite Ep in *.
    set (Lk := collectTextNodes rfuel (newReader src (u :: t) is) ie TextKind false).
    set (Dk := collectTextNodes rfuel (newReader src (u :: t) ts) te TextKind true).
    set (LI := Inl LinkLabelKind is ie 0 (transformLinkReferenceSpan rfuel src (u :: t) is ie) Lk).
    set (DI' := Inl LinkDestinationKind ds de 0 [] Dk).
    (* the children of the label and of the destination *)
    assert (TL0 : tileS src is ie (map ispan Lk)).
    { destruct (newReader_In src ik He pre u t is Ei L8 ltac:(lia)) as (x & tx & Hix).
      assert (Hst0 : false = true -> forall u0, In u0 ik -> ikind u0 = UnparsedKind -> istart u0 <= ie < iend u0 -> LARpce.isEntCh (at_ src ie) = false) by discriminate.
      apply (collectTextNodes_spec src ik He lo hi Hlo Ht (mu src) Mn Mc rfuel Mf is ie TextKind false ltac:(lia) Hst0 (newReader src (u :: t) is) (or_introl (ex_intro _ x (ex_intro _ tx Hix))) ltac:(lia) eq_refl). }
    assert (TE0 : tileS src ts te (map ispan Dk)).
    { destruct (newReader_In src ik He pre u t ts Ei D5 ltac:(lia)) as (x & tx & Hix).
      apply (collectTextNodes_spec src ik He lo hi Hlo Ht (mu src) Mn Mc rfuel Mf ts te TextKind true ltac:(lia) (fun _ => D6) (newReader src (u :: t) ts) (or_introl (ex_intro _ x (ex_intro _ tx Hix))) D4 eq_refl). }
    assert (EL : entD LI = true) by (unfold LI; apply (entD_intro _ _ _ _ _ _ is ie); [lia|lia|lia|exact TL0]).
    assert (ED : entD DI' = true) by (unfold DI'; apply (entD_intro _ _ _ _ _ _ ts te); [lia|lia|lia|exact TE0]).
    assert (HD : 0 <= destEOL -> de <= destEOL /\ destEOL <= r_pos r6 /\ (forall u' t', InS src ik r6 u' t' -> r_pos r6 = istart u')).
    { intros L. destruct (Q3 L) as ((O1a & O1b) & _ & _ & _ & O5). split; [lia|]. split; [lia|exact O5]. }
    assert (H2 : 0 <= destEOL -> inv3L (result ++ [refDefBlock (istart u) destEOL [LI; DI']]) = true).
    { intros L. destruct (HD L) as (P1 & _). apply inv3L_snoc; [exact Hres|]. apply inv3_refDef. intros _. split; [lia|]. split.
      - unfold LI, DI'. cbn [ordered_inX istart iend]. repeat (apply andb_true_iff; split); try reflexivity; apply Z.leb_le; lia.
      - cbn [forallb]. rewrite EL, ED. reflexivity. }
    (* white space after it *)
    pose proof (current_idem src ik He lo hi Hhi Ht r6 c6 r7 Hr6 Ec6) as Eid7.
    pose proof (sls_spec src ik He rfuel r7 Hr7) as (Hr8 & X2 & X3 & X4).
    pose proof (LAR2.sls_true rfuel r7 c6 Eid7) as Hst.
    destruct (skipLinkSpace rfuel r7) as [ok2 r8]. cbn [fst snd] in *.
    assert (Hneg : destEOL < 0 -> ok2 = true).
    { intros L. destruct (Qn L) as (c' & Ec' & Hw & N0). rewrite Ec6 in Ec'. inversion Ec'; subst c'. specialize (Hst N0 Hw). inversion Hst. reflexivity. }
    destruct ok2; cbn [negb].
    2:{ apply H2. destruct (Z.lt_ge_cases destEOL 0) as [L|L]; [specialize (Hneg L); discriminate Hneg|exact L]. }
    (* the cut after a definition ending at eol, read up to r' *)
    assert (Hcut : forall r' res', RS src ik r' -> istart u <= r_pos r' -> (forall u' t', InS src ik r' u' t' -> r_pos r' = istart u') ->
              inv3L res' = true ->
              forall (k : block -> list block),
              (forall orig' u' t', DI orig' r' u' t' -> 0 <= bend orig' -> isPSb (bkind orig') = true -> inv3L (bkids orig') = true -> inv3L (k orig') = true) ->
              inv3L (if nodeIndexForPosition (u :: t) (r_pos r') <? 0 then res'
                     else k (set_bik (set_bstart orig (r_pos r')) (from_ (u :: t) (nodeIndexForPosition (u :: t) (r_pos r'))))) = true).
    { intros r' res' Hr' Hle Hst' Hres' k Hkk. destruct Hr' as [(u' & t' & Hi')|Ho'].
      - destruct (cut_in src ik He pre u t r' u' t' Ei Hi' Hle) as [K1 K2]. rewrite K1, K2.
        destruct (cut_fields orig (r_pos r') (u' :: t')) as (F1 & F2 & F3).
        apply (Hkk _ u' t'); [|rewrite F2; exact Hbe|rewrite F3; exact Hk|rewrite F1; exact Hc].
        split; [destruct Hi' as (_ & (p1 & p2 & Ei' & _) & _); exists (p1 ++ p2); rewrite <- app_assoc; exact Ei'|].
        split; [destruct orig; reflexivity|]. split; [exact Hi'|apply (Hst' u' t' Hi')].
      - rewrite (cut_out src ik pre u t r' Ei Ho'). exact Hres'. }
    (* the title *)
    pose proof (parseLinkTitle_spec src ik He (mu src) Mn Mc rfuel r8 Hr8) as PT. cbv zeta in PT.
    destruct (parseLinkTitle rfuel r8) as [[tspan ttext] r9]. cbn [fst snd] in PT.
    destruct (spanValid tspan) eqn:Evt; cbn [negb].
    2:{ destruct (Z.ltb_spec destEOL 0) as [L|L]; [exact Hexit|]. destruct (HD L) as (P1 & P2 & P3).
        apply (Hcut r6 _ Hr6 ltac:(lia) P3 (H2 L) (fun orig' => ocp_loop f rfuel src orig' None r6 (result ++ [refDefBlock (istart u) destEOL [LI; DI']]))).
        intros orig' u' t' HI' B1 B2 B3. apply (IH orig' r6 u' t' _ HI' B1 B2 B3 (H2 L)). }
    destruct (PT eq_refl) as (P1 & P2 & P3 & P4 & P5 & P6 & P7 & Hr9 & P9 & P10 & P11). clear PT.
    destruct tspan as [tss tse]. destruct ttext as [tts tte]. cbn [fst snd] in *.
    pose proof (readEOL_spec src ik He lo hi Hhi Ht (mu src) Mn Mc rfuel Mf r9 Hr9) as (Hr10 & Y2 & Y3 & _).
    destruct (readEOL rfuel r9) as [titleEOL r10]. cbn [fst snd] in *.
    destruct (Z.ltb_spec titleEOL 0) as [Lt|Lt].
    { destruct (Z.ltb_spec destEOL 0) as [L|L]; [exact Hexit|]. destruct (HD L) as (B1 & B2 & B3).
      apply (Hcut r6 _ Hr6 ltac:(lia) B3 (H2 L) (fun orig' => result ++ [refDefBlock (istart u) destEOL [LI; DI']] ++ [orig'])).
      intros orig' u' t' HI' A1 A2 A3. rewrite app_assoc. apply inv3L_snoc; [exact (H2 L)|apply inv3_closedPS; assumption]. }
    set (Tk := collectTextNodes rfuel (newReader src (u :: t) tts) tte TextKind true).
    set (TI := Inl LinkTitleKind tss tse 0 [] Tk).
    destruct (Y3 Lt) as ((O1a & O1b) & _ & _ & _ & O5).
    assert (TT0 : tileS src tts tte (map ispan Tk)).
    { destruct (newReader_In src ik He pre u t tts Ei P5 ltac:(lia)) as (x & tx & Hix).
      apply (collectTextNodes_spec src ik He lo hi Hlo Ht (mu src) Mn Mc rfuel Mf tts tte TextKind true ltac:(lia) (fun _ => P6) (newReader src (u :: t) tts) (or_introl (ex_intro _ x (ex_intro _ tx Hix))) P4 eq_refl). }
    assert (ET : entD TI = true) by (unfold TI; apply (entD_intro _ _ _ _ _ _ tts tte); [lia|lia|lia|exact TT0]).
    assert (H3 : inv3L (result ++ [refDefBlock (istart u) titleEOL [LI; DI'; TI]]) = true).
    { apply inv3L_snoc; [exact Hres|]. apply inv3_refDef. intros _. split; [lia|]. split.
      - unfold LI, DI', TI. cbn [ordered_inX istart iend]. repeat (apply andb_true_iff; split); try reflexivity; apply Z.leb_le; lia.
      - cbn [forallb]. rewrite EL, ED, ET. reflexivity. }
    apply (Hcut r10 _ Hr10 ltac:(lia) O5 H3 (fun orig' => ocp_loop f rfuel src orig' None r10 (result ++ [refDefBlock (istart u) titleEOL [LI; DI'; TI]]))).
    intros orig' u' t' HI' A1 A2 A3. apply (IH orig' r10 u' t' _ HI' A1 A2 A3 H3).
  Qed.
End Ocp.

Print Assumptions D_ocp.
