(* C04: the one entry list of the block layer that ShapesR.spOK rejects -- the single EMPTY Unparsed entry of an empty ATX heading: every fuel will do *)
From Coq Require Import List ZArith Lia Bool.
Import ListNotations.
Require Import Base Tables Utf8 Tree Rdr Link Collect Html Recog Inl3a Inl3b Inl3c Inl3d Inl3e Driver IFTokDef IFFrame IFTokAux IFPe IFTk5.
Open Scope Z_scope.
Lemma pe_loop_empty : forall f st ob cp, stk st = [] -> pe_loop f st ob cp = st.
Proof.
  destruct f as [|f]; intros st ob cp E; [reflexivity|]. cbn [pe_loop]. rewrite E.
  assert (H : pe_findCloser (S (length (@nil delim))) [] cp = -1).
  { cbn [length pe_findCloser]. destruct (_ <=? _); [reflexivity|]. unfold nthD. destruct (Z.to_nat cp); reflexivity. }
  rewrite H. reflexivity.
Qed.
Theorem empty_entry src matcher b s rf tf pf lf ofu : bik b = [mkI UnparsedKind s s] -> (1 <= ofu)%nat ->
  parseInlinesG rf tf pf lf ofu src matcher b = parseInlines src matcher b.
Proof.
  intros E Ho. unfold parseInlinesG, parseInlines, st0. rewrite E. cbv zeta.
  assert (Hil : forall f, iloopG rf tf pf f (setIgn {| rk := []; isrc := src; unp := [mkI UnparsedKind s s]; upos := 0; stk := []; ign := false; nid := 1; rootEnd := bend b; matcher := matcher |} false) s s
                 = (setIgn {| rk := []; isrc := src; unp := [mkI UnparsedKind s s]; upos := 0; stk := []; ign := false; nid := 1; rootEnd := bend b; matcher := matcher |} false, s)).
  { destruct f as [|f]; [reflexivity|]. cbn [iloopG]. unfold spanEnd. cbn [unp upos setIgn len length nth Z.to_nat mkI iend].
    change (Z.of_nat 1 <=? 0) with false. cbv iota. rewrite Z.ltb_irrefl, andb_false_r. reflexivity. }
  assert (Hil' : forall f, iloop f (setIgn {| rk := []; isrc := src; unp := [mkI UnparsedKind s s]; upos := 0; stk := []; ign := false; nid := 1; rootEnd := bend b; matcher := matcher |} false) s s
                 = (setIgn {| rk := []; isrc := src; unp := [mkI UnparsedKind s s]; upos := 0; stk := []; ign := false; nid := 1; rootEnd := bend b; matcher := matcher |} false, s)).
  { destruct f as [|f]; [reflexivity|]. cbn [iloop]. unfold spanEnd. cbn [unp upos setIgn len length nth Z.to_nat mkI iend].
    change (Z.of_nat 1 <=? 0) with false. cbv iota. rewrite Z.ltb_irrefl, andb_false_r. reflexivity. }
  destruct ofu as [|ofu]; [lia|]. cbn [outerG outer length]. cbn [unp upos len length]. change (Z.of_nat 1 <=? 0) with false. cbv iota.
  cbn [nth Z.to_nat mkI ikind istart ign]. change (UnparsedKind =? 0) with false. change (UnparsedKind =? IndentKind) with false.
  change (UnparsedKind =? UnparsedKind) with true. cbv iota. rewrite Hil, Hil'.
  set (stX := setUpos _ _).
  assert (Hup : (len (unp stX) <=? upos stX) = true).
  { unfold stX. cbn [unp upos setUpos]. rewrite (ux_addText _ _ _). destruct (fr_addText (setIgn {| rk := []; isrc := src; unp := [mkI UnparsedKind s s]; upos := 0; stk := []; ign := false; nid := 1; rootEnd := bend b; matcher := matcher |} false) s
       (spanEnd (setIgn {| rk := []; isrc := src; unp := [mkI UnparsedKind s s]; upos := 0; stk := []; ign := false; nid := 1; rootEnd := bend b; matcher := matcher |} false))) as [_ Fu].
    rewrite Fu. reflexivity. }
  assert (EG : forall f, outerG rf tf pf lf f stX = stX) by (destruct f; [reflexivity|]; cbn [outerG]; rewrite Hup; reflexivity).
  assert (EM : forall f, outer f stX = stX) by (destruct f; [reflexivity|]; cbn [outer]; rewrite Hup; reflexivity).
  rewrite EG. rewrite ?EM, ?Hup. replace (len [mkI UnparsedKind s s] <=? 0) with false by reflexivity. cbv iota. unfold processEmphasisF, processEmphasis. rewrite !pe_loop_empty; try reflexivity.
  all: unfold stX, addText, addNode; destruct (spanLen _ _ =? 0); reflexivity.
Qed.
Print Assumptions empty_entry.
