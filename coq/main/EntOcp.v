From Coq Require Import List ZArith Lia Bool.
Import ListNotations.
Require Import Base Tree Rdr Link Collect LP.
Require Import ShapesR EntBase EntOcpDefs EntRdr1 EntRdr2 EntRdr3 ShapesBase.
Open Scope Z_scope.

(* ================================================================================================
   The link-reference-definition stripping loop of onCloseParagraph over well-formed paragraph entries:
   every cut position is the start of the first remaining entry, every definition ends at a boundary.
   ================================================================================================ *)

Section Loop.
  Variables (src : bytes) (E : Z) (orig0 : block).
  Let ik0 := bik orig0.
  Hypothesis HL : lines src E ik0.
  Hypothesis HE : E <= len src.
  Let rfuel := (2 * length src + 10)%nat.

  Notation T := (T src ik0).

  Definition D (y : block) : Prop :=
    bkind y = LinkReferenceDefinitionKind /\ bkids y = [] /\ bdy src (bend y) /\ bend y <= len src.
  Definition G (o : block) : Prop :=
    (exists pos n, o = set_bik (set_bstart orig0 pos) (skipn n ik0) /\ (forall u, In u (skipn n ik0) -> pos <= istart u))
    \/ o = orig0.
  Definition Post (l : list block) : Prop := forall y, In y l -> D y \/ G y.
  Definition AllD (l : list block) : Prop := forall y, In y l -> D y.

  Lemma bik_set o pos l : bik (set_bik (set_bstart o pos) l) = l.
  Proof. destruct o; reflexivity. Qed.
  Lemma set_set o pos l pos' l' : set_bik (set_bstart (set_bik (set_bstart o pos) l) pos') l' = set_bik (set_bstart o pos') l'.
  Proof. destruct o; reflexivity. Qed.

  Lemma G_suf o : G o -> suf ik0 (bik o).
  Proof.
    intros [(pos & n & -> & _)| -> ]; [rewrite bik_set; exists n; reflexivity|exists O; reflexivity].
  Qed.

  Lemma G_cut o pos : G o -> (forall u, In u ik0 -> spanHas u pos = true -> istart u = pos) ->
    0 <= nodeIndexForPosition (bik o) pos ->
    G (set_bik (set_bstart o pos) (from_ (bik o) (nodeIndexForPosition (bik o) pos))).
  Proof.
    intros Hg Hat Hfc. destruct (G_suf o Hg) as (n & Hn). unfold nodeIndexForPosition in *.
    destruct (nodeIdx_split (bik o) pos 0 ltac:(lia)) as [Q|(_ & pre & nd & rest & E1 & E2 & E3)]; [lia|].
    replace (nodeIdx (bik o) pos 0 - 0) with (nodeIdx (bik o) pos 0) in E2 by lia.
    unfold from_. set (k := Z.to_nat (nodeIdx (bik o) pos 0)) in *.
    assert (Hk : skipn k (bik o) = skipn (k + n) ik0) by (rewrite Hn; apply skipn_skipn').
    left. exists pos, (k + n)%nat. split.
    - rewrite Hk. destruct Hg as [(pos' & n' & -> & _)| -> ]; [apply set_set|reflexivity].
    - rewrite <- Hk, E2. intros u Hu.
      assert (Hl : lines src E (nd :: rest)).
      { rewrite <- E2, Hk. apply lines_skipn, HL. }
      assert (Hnd : In nd ik0).
      { apply (In_skipn' (k + n)). rewrite <- Hk, E2. left; reflexivity. }
      pose proof (Hat nd Hnd E3) as Hs. destruct Hu as [<-|Hu]; [lia|].
      pose proof (lines_sorted _ _ _ _ Hl u Hu). pose proof (spanHas_range _ _ E3). lia.
  Qed.

  Lemma D_refDef s e kids : bdy src e -> e <= len src -> D (refDefBlock s e kids).
  Proof. intros A B. unfold D, refDefBlock. cbn [bkind bkids bend]. tauto. Qed.

  Lemma AllD_snoc l y : AllD l -> D y -> AllD (l ++ [y]).
  Proof. intros A B z Hz. apply in_app_or in Hz. destruct Hz as [Hz|[<-|[]]]; [apply A, Hz|exact B]. Qed.
  Lemma Post_snocG l o : AllD l -> G o -> Post (l ++ [o]).
  Proof. intros A B z Hz. apply in_app_or in Hz. destruct Hz as [Hz|[<-|[]]]; [left; apply A, Hz|right; exact B]. Qed.
  Lemma Post_AllD l : AllD l -> Post l.
  Proof. intros A z Hz. left. apply A, Hz. Qed.

  Lemma loop : forall f orig r result, G orig -> T r -> AllD result ->
    Post (ocp_loop f rfuel src orig None r result).
  Proof.
    induction f as [|f IH]; intros orig r result Hg HT HD.
    - cbn [ocp_loop]. apply Post_snocG; assumption.
    - cbn [ocp_loop].
      pose proof (Q_parseLinkLabel src E ik0 HL HE rfuel r HT) as HT1.
      destruct (parseLinkLabel rfuel r) as [[lspan linner] r1] eqn:E1. cbn [snd] in HT1.
      destruct (negb (spanValid lspan)); [apply Post_snocG; assumption|].
      pose proof (T_current src ik0 r1 HT1) as HT2.
      destruct (current r1) as [c r2] eqn:E2. cbn [snd] in HT2.
      destruct (negb (c =? 58)); [apply Post_snocG; assumption|].
      pose proof (T_next src E ik0 HL HE r2 HT2) as HT3.
      destruct (next r2) as [ok3 r3] eqn:E3. cbn [snd] in HT3.
      pose proof (Q_skipLinkSpace src E ik0 HL HE rfuel r3 HT3) as HT4.
      destruct (skipLinkSpace rfuel r3) as [ok r4] eqn:E4. cbn [snd] in HT4.
      destruct (negb ok); [apply Post_snocG; assumption|].
      pose proof (Q_parseLinkDestination src E ik0 HL HE rfuel r4 HT4) as HT5.
      destruct (parseLinkDestination rfuel r4) as [[dspan dtext] r5] eqn:E5. cbn [snd] in HT5.
      destruct (negb (spanValid dspan)); [apply Post_snocG; assumption|].
      destruct (readEOL rfuel r5) as [destEOL r6] eqn:E6.
      pose proof (readEOL_post src E ik0 HL HE r5 destEOL r6 HT5 E6) as (HT6 & Hb6 & Hl6 & Ha6).
      pose proof (T_current src ik0 r6 HT6) as HT7.
      destruct (current r6) as [c6 r7] eqn:E7. cbn [snd] in HT7.
      destruct ((destEOL <? 0) && (r_pos r6 =? r_pos r5) && negb (c6 =? 0)); [apply Post_snocG; assumption|].
      pose proof (Q_skipLinkSpace src E ik0 HL HE rfuel r7 HT7) as HT8.
      destruct (skipLinkSpace rfuel r7) as [ok2 r8] eqn:E8. cbn [snd] in HT8.
      match goal with |- context [refDefBlock (fst lspan) destEOL ?k] => set (kids := k) end.
      assert (HD1 : AllD (result ++ [refDefBlock (fst lspan) destEOL kids])).
      { apply AllD_snoc; [exact HD|apply D_refDef; assumption]. }
      destruct (negb ok2); [apply Post_AllD; exact HD1|].
      pose proof (Q_parseLinkTitle src E ik0 HL HE rfuel r8 HT8) as HT9.
      destruct (parseLinkTitle rfuel r8) as [[tspan ttext] r9] eqn:E9. cbn [snd] in HT9.
      assert (Hcut : 0 <= destEOL -> 0 <= nodeIndexForPosition (bik orig) (r_pos r6) ->
                G (set_bik (set_bstart orig (r_pos r6)) (from_ (bik orig) (nodeIndexForPosition (bik orig) (r_pos r6))))).
      { intros Hd Hfc. apply G_cut; [exact Hg|apply Ha6, Hd|exact Hfc]. }
      destruct (negb (spanValid tspan)).
      + destruct (Z.ltb_spec destEOL 0) as [Ld|Ld]; [apply Post_snocG; assumption|].
        destruct (Z.ltb_spec (nodeIndexForPosition (bik orig) (r_pos r6)) 0) as [Lf|Lf]; [apply Post_AllD; exact HD1|].
        apply IH; [apply Hcut; assumption|exact HT6|exact HD1].
      + destruct (readEOL rfuel r9) as [titleEOL r10] eqn:E10.
        pose proof (readEOL_post src E ik0 HL HE r9 titleEOL r10 HT9 E10) as (HT10 & Hb10 & Hl10 & Ha10).
        destruct (Z.ltb_spec titleEOL 0) as [Lt|Lt].
        * destruct (Z.ltb_spec destEOL 0) as [Ld|Ld]; [apply Post_snocG; assumption|].
          destruct (Z.ltb_spec (nodeIndexForPosition (bik orig) (r_pos r6)) 0) as [Lf|Lf]; [apply Post_AllD; exact HD1|].
          rewrite app_assoc. apply Post_snocG; [exact HD1|apply Hcut; assumption].
        * match goal with |- context [refDefBlock (fst lspan) titleEOL ?k] => set (kids2 := k) end.
          assert (HD2 : AllD (result ++ [refDefBlock (fst lspan) titleEOL kids2])).
          { apply AllD_snoc; [exact HD|apply D_refDef; assumption]. }
          destruct (Z.ltb_spec (nodeIndexForPosition (bik orig) (r_pos r10)) 0) as [Lf|Lf]; [apply Post_AllD; exact HD2|].
          apply IH; [|exact HT10|exact HD2].
          apply G_cut; [exact Hg|apply Ha10, Lt|exact Lf].
  Qed.

  Lemma T_init first rest : ik0 = first :: rest -> T (newReader src ik0 (istart first)).
  Proof.
    intros Hik. assert (Hin : In first ik0) by (rewrite Hik; left; reflexivity).
    pose proof (mem_entry src E ik0 HL HE first Hin) as (A & B & C).
    split; [split; [reflexivity|apply (lines_spOK src E); assumption]|].
    split; [exists O; reflexivity|]. split; [cbn; lia|]. left. exists first.
    rewrite (curNode_head first rest); [reflexivity|cbn [newReader r_spans]; exact Hik|].
    cbn [newReader r_pos]. apply spanHas_intro; lia.
  Qed.
End Loop.

Definition ocpRun_spec2_statement : Prop := forall src orig E,
  lines src E (bik orig) -> E <= len src -> (forall u, In u (bik orig) -> bstart orig <= istart u) ->
  forall y, In y (ocpRun src orig) ->
    (bkind y = LinkReferenceDefinitionKind /\ bkids y = [] /\ bdy src (bend y) /\ bend y <= len src)
    \/ (exists pos n, y = set_bik (set_bstart orig pos) (skipn n (bik orig)) /\ (forall u, In u (skipn n (bik orig)) -> pos <= istart u))
    \/ y = orig.

Theorem ocpRun_spec2 : ocpRun_spec2_statement.
Proof.
  intros src orig E HL HE _ y Hy. unfold ocpRun in Hy.
  destruct (bik orig) as [|first rest] eqn:Hik.
  - destruct Hy as [<-|[]]. right. right. reflexivity.
  - rewrite <- Hik in *.
    assert (HT : T src (bik orig) (newReader src (bik orig) (istart first))) by (eapply T_init; eassumption).
    pose proof (loop src E orig HL HE (S (length (bik orig))) orig _ [] (or_intror eq_refl) HT ltac:(intros z []) y Hy) as [Hd|Hg].
    + left. exact Hd.
    + right. exact Hg.
Qed.
Print Assumptions ocpRun_spec2.

Theorem ocpRun_spec : ocpRun_spec_statement.
Proof.
  intros src orig E HL HE Hst y Hy.
  destruct (ocpRun_spec2 src orig E HL HE Hst y Hy) as [(A & _ & B & C)|H]; [left; tauto|right; exact H].
Qed.
Print Assumptions ocpRun_spec.
