From Coq Require Import List ZArith Lia Bool.
Import ListNotations.
Require Import Base Tree Rdr Link Collect Html Recog LP Rules Starts Driver L2Kind L2CC.
Open Scope Z_scope.

(* ---- spine existence of the container (L2CC.wf) alone, without the containment invariant cc ---- *)
Lemma wf_same p p' : same_tree p p' -> wf p -> wf p'.
Proof. intros [E1 E2] H. unfold wf, cdepth in *. rewrite E1, E2. exact H. Qed.
Lemma wf_opened p : wf p -> wf (if state p =? stOpening then withState p stOpenMatched else p).
Proof. apply wf_same, same_opened. Qed.
Lemma wf_advance p n : wf p -> wf (advance p n). Proof. apply wf_same, same_advance. Qed.
Lemma wf_consumeLine p : wf p -> wf (consumeLine p). Proof. apply wf_same, same_consumeLine. Qed.
Lemma wf_consumeIndent p n : wf p -> wf (consumeIndent p n). Proof. apply wf_same, same_consumeIndent. Qed.
Lemma wf_updCont p f : wf p -> wf (updCont p f).
Proof.
  intros (x & Hx). unfold wf, updCont, cdepth. cbn [root container withRoot setLP]. fold (cdepth p).
  eapply getAt_updAt_exists. exact Hx.
Qed.
Lemma wf_closeAt p d e d' : (d' <= d)%nat -> (exists x, getAt d' (root p) = Some x) -> wf (withCont (closeLastChildAt p d e) (Some d')).
Proof.
  intros Hle (x & Hx). unfold wf, closeLastChildAt, cdepth. cbn [root container withCont withRoot setLP].
  eapply getAt_updAt_below; eassumption.
Qed.
Lemma wf_closeHere p e : wf p -> wf (closeLastChildAt p (cdepth p) e).
Proof.
  intros (x & Hx). unfold wf, closeLastChildAt. unfold cdepth at 1. cbn [root container withCont withRoot setLP]. fold (cdepth p).
  eapply getAt_updAt_below; [apply Nat.le_refl|exact Hx].
Qed.
Lemma wf_openBlock_up : forall fuel p kind, wf p -> wf (openBlock_up fuel p kind).
Proof.
  induction fuel as [|f IH]; intros p kind H; [exact H|]. cbn [openBlock_up].
  destruct (canContain _ _); [exact H|]. destruct (cdepth p) as [|d] eqn:Ed; [exact H|].
  apply IH. destruct H as (x & Hx). rewrite Ed in Hx. apply wf_closeAt; [lia|]. eapply getAt_prefix. exact Hx.
Qed.
Lemma wf_openBlock p kind : wf p -> wf (openBlock p kind).
Proof.
  intros H. unfold openBlock. destruct (_ || _); [exact H|]. cbv zeta.
  set (p0 := if state p =? stOpening then withState p stOpenMatched else p).
  set (q := openBlock_up (S (cdepth p0)) p0 kind).
  assert (Hq : wf q) by (apply wf_openBlock_up, wf_opened, H).
  destruct (wf_closeHere q (lineStart q) Hq) as (y & Hy).
  unfold wf, cdepth, updCont. cbn [root container withCont withRoot setLP].
  match goal with |- exists _, getAt (S ?d) (updAt (cdepth ?qq) _ _) = _ => change (cdepth qq) with d end.
  eexists. eapply getAt_S_append_some. exact Hy.
Qed.
Lemma wf_endBlock p : wf p -> wf (endBlock p).
Proof.
  intros H. unfold endBlock. destruct (_ || _); [exact H|]. cbv zeta.
  pose proof (wf_opened p H) as H0. set (p0 := if state p =? stOpening then withState p stOpenMatched else p) in *.
  destruct (cdepth p0) as [|d] eqn:Ed; [exact H0|].
  destruct H0 as (x & Hx). rewrite Ed in Hx. apply wf_closeAt; [lia|]. eapply getAt_prefix. exact Hx.
Qed.
Lemma wf_collectInline p kind n : wf p -> wf (collectInline p kind n).
Proof.
  intros H. unfold collectInline. destruct (_ =? stDescendTerminated); [exact H|]. cbv zeta.
  apply wf_updCont, wf_advance. destruct (0 <? _); [apply wf_updCont, wf_advance|]; apply wf_opened, H.
Qed.
Lemma wf_matchRule p : wf p -> wf (snd (matchRule p)).
Proof.
  intros H. unfold matchRule. cbv zeta.
  destruct (_ || _); [exact H|].
  destruct (_ =? ListItemKind).
  { unfold matchListItem. destruct (isRestBlank p); [destruct (negb _); [exact H|apply wf_consumeIndent, H]|].
    destruct (_ <=? _); [apply wf_consumeIndent, H|exact H]. }
  destruct (_ =? BlockQuoteKind).
  { unfold matchBlockQuote. cbv zeta. destruct (_ <=? _); [exact H|]. destruct (negb _); [exact H|]. cbn [snd].
    unfold eatQuoteMarker. cbv zeta. destruct (0 <? _); [apply wf_consumeIndent|]; apply wf_advance, wf_consumeIndent, H. }
  destruct (_ =? FencedCodeBlockKind).
  { unfold matchFenced. cbv zeta. destruct (if _ <? _ then _ else false); cbn [snd]; [apply wf_consumeLine|apply wf_consumeIndent]; exact H. }
  destruct (_ =? IndentedCodeBlockKind).
  { unfold matchIndented. cbv zeta. destruct (_ <? _); [destruct (negb _)|]; cbn [snd]; try apply wf_consumeIndent; exact H. }
  destruct (_ =? HTMLBlockKind).
  { unfold matchHTML. destruct (htmlEnd _ _); [|exact H]. destruct (isRestBlank _); [exact H|]. cbn [snd]. apply wf_consumeLine.
    apply wf_collectInline; exact H. }
  exact H.
Qed.
(* the container after the descent exists on the spine: no hypothesis on the tree at all *)
Lemma wf_descend_loop : forall fuel p d, (exists x, getAt d (root p) = Some x) -> wf (snd (descend_loop fuel p d)).
Proof.
  induction fuel as [|f IH]; intros p d Hd; [exact Hd|]. cbn [descend_loop]. cbv zeta.
  destruct (getAt (S d) (root p)) as [c|] eqn:Ec; [|exact Hd].
  destruct (negb (isOpen c)); [exact Hd|].
  destruct (negb (hasMatch _)); [exact Hd|].
  set (q := withState (withCont p (Some (S d))) stDescending).
  assert (Hc : wf q) by (exists c; exact Ec).
  pose proof (wf_matchRule q Hc) as H2. pose proof (cdepth_matchRule q) as Ecd.
  destruct (matchRule q) as [ok p2]. cbn [snd] in H2, Ecd. change (cdepth q) with (S d) in Ecd.
  pose proof H2 as (x & Hx). rewrite Ecd in Hx.
  assert (Hd2 : exists y, getAt d (root p2) = Some y) by (eapply getAt_prefix; exact Hx).
  destruct (state p2 =? stDescendTerminated); [cbn [snd]; apply wf_closeAt; [lia|exact Hd2]|].
  destruct (negb ok); [exact Hd2|]. apply IH. eauto.
Qed.

(* the new container after openBlock really is the new block *)
Lemma containerKind_of_wf p K : wf p -> ckind p K -> containerKind p = K.
Proof. intros (x & Hx) Hc. unfold containerKind, contBlock. rewrite Hx. apply Hc, Hx. Qed.
Lemma containerKind_openBlock p K : wf p -> st_open p -> containerKind (openBlock p K) = K.
Proof. intros H Hs. apply containerKind_of_wf; [apply wf_openBlock, H|apply ckind_openBlock, Hs]. Qed.

(* ---- state bookkeeping ---- *)
Definition sM (p : lp) : Prop := state p = stOpenMatched.
Definition sC (p : lp) : Prop := state p = stLineConsumed.
Lemma sM_open p : sM p -> st_open p. Proof. intros E. right. exact E. Qed.
Lemma opened_M p : sM p -> (if state p =? stOpening then withState p stOpenMatched else p) = p.
Proof. unfold sM. intros E. rewrite E. reflexivity. Qed.
Lemma sM_opened p : st_open p -> sM (if state p =? stOpening then withState p stOpenMatched else p).
Proof. intros [E|E]; rewrite E; [reflexivity|exact E]. Qed.
Lemma sM_advance p n : sM p -> sM (advance p n).
Proof.
  intros H. unfold advance. destruct (n <? 0); [exact H|]. destruct (n =? 0); [exact H|]. cbv zeta.
  rewrite (opened_M p H). destruct (_ <? _); exact H.
Qed.
Lemma sM_consumeIndent_loop : forall fuel p n, sM p -> sM (consumeIndent_loop fuel p n).
Proof.
  induction fuel as [|f IH]; intros p n H; [exact H|]. cbn [consumeIndent_loop].
  destruct (n <=? 0); [exact H|]. cbv zeta. rewrite (opened_M p H).
  destruct (_ && (_ =? 32)); [apply IH; exact H|].
  destruct (_ && (_ =? 9)); [|exact H].
  destruct (n <? _); [exact H|]. apply IH. exact H.
Qed.
Lemma sM_consumeIndent p n : sM p -> sM (consumeIndent p n). Proof. apply sM_consumeIndent_loop. Qed.
Lemma state_openBlock_up K : forall fuel q, state (openBlock_up fuel q K) = state q.
Proof.
  induction fuel as [|f IH]; intros q; [reflexivity|]. cbn [openBlock_up]. destruct (canContain _ _); [reflexivity|].
  destruct (cdepth q); [reflexivity|]. rewrite IH. reflexivity.
Qed.
Lemma sM_openBlock p K : st_open p -> sM (openBlock p K).
Proof.
  intros H. unfold openBlock.
  replace ((state p =? stDescending) || (state p =? stDescendTerminated)) with false by (destruct H as [E|E]; rewrite E; reflexivity).
  cbv zeta. unfold sM. cbn [state withCont updCont withRoot closeLastChildAt setLP]. rewrite state_openBlock_up. apply sM_opened, H.
Qed.
Lemma state_endBlock p : state p <> stOpening -> state (endBlock p) = state p.
Proof.
  intros H. unfold endBlock. destruct (_ || _); [reflexivity|]. cbv zeta.
  replace (state p =? stOpening) with false by (symmetry; apply Z.eqb_neq; exact H).
  destruct (cdepth p); reflexivity.
Qed.
Lemma sM_endBlock p : sM p -> sM (endBlock p).
Proof. intros H. unfold sM. rewrite state_endBlock; [exact H|]. rewrite H. discriminate. Qed.
Lemma sC_endBlock p : sC p -> sC (endBlock p).
Proof. intros H. unfold sC. rewrite state_endBlock; [exact H|]. rewrite H. discriminate. Qed.
Lemma sM_updCont p f : sM p -> sM (updCont p f). Proof. exact (fun H => H). Qed.
Lemma sM_collectInline p kind n : sM p -> sM (collectInline p kind n).
Proof.
  intros H. unfold collectInline. replace (state p =? stDescendTerminated) with false by (rewrite H; reflexivity). cbv zeta.
  rewrite (opened_M p H). apply sM_updCont, sM_advance. destruct (0 <? _); [apply sM_updCont, sM_advance|]; exact H.
Qed.
Lemma st_open_advance p n : st_open p -> st_open (advance p n).
Proof. intros H. unfold advance. destruct (n <? 0); [exact H|]. destruct (n =? 0); [exact H|]. cbv zeta.
       pose proof (st_open_opened p H) as H1. destruct (_ <? _); exact H1. Qed.
Lemma sC_consumeLine p : st_open p -> sC (consumeLine p).
Proof.
  intros H. unfold consumeLine. cbv zeta. pose proof (st_open_advance p (len (line p) - li p) H) as H1.
  replace ((state (advance p (len (line p) - li p)) =? stOpening) || (state (advance p (len (line p) - li p)) =? stOpenMatched)) with true
    by (destruct H1 as [E|E]; rewrite E; reflexivity).
  reflexivity.
Qed.

(* ---- the cursor never moves backwards in ConsumeIndent ---- *)
Lemma consumeIndent_loop_mono : forall fuel p n, li p <= li (consumeIndent_loop fuel p n) /\ line (consumeIndent_loop fuel p n) = line p.
Proof.
  induction fuel as [|f IH]; intros p n; [cbn [consumeIndent_loop]; split; [lia|reflexivity]|]. cbn [consumeIndent_loop].
  destruct (n <=? 0); [split; [lia|reflexivity]|]. cbv zeta.
  set (p0 := if state p =? stOpening then withState p stOpenMatched else p).
  assert (E0 : li p0 = li p /\ line p0 = line p) by (unfold p0; destruct (_ =? _); split; reflexivity). destruct E0 as [El Eln].
  destruct (_ && (_ =? 32)).
  { match goal with |- context [consumeIndent_loop f ?q ?m] => destruct (IH q m) as [A B] end.
    cbn [li line withCursor setLP] in A, B. split; [lia|congruence]. }
  destruct (_ && (_ =? 9)); [|split; [cbn [li panic setLP]; lia|exact Eln]].
  destruct (n <? _); [split; [cbn [li withCursor setLP]; lia|exact Eln]|].
  match goal with |- context [consumeIndent_loop f ?q ?m] => destruct (IH q m) as [A B] end.
  cbn [li line withCursor setLP] in A, B. split; [lia|congruence].
Qed.
Lemma consumeIndent_mono p n : li p <= li (consumeIndent p n) /\ line (consumeIndent p n) = line p.
Proof. apply consumeIndent_loop_mono. Qed.
