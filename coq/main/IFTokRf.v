From Coq Require Import List ZArith Lia Bool.
Import ListNotations.
Require Import Base Tables Utf8 Tree Rdr Link Collect Html Recog Inl3a Inl3b Inl3c Inl3d Inl3e Driver.
Require Import ShapesBase ShapesR IFBase IFLink IFHtml IFCode IFCollect IFTitle IFTokDef IFFrame.
Open Scope Z_scope.

(* ================================================================ C04 (4): the tokeniser does not depend on the reader fuel rf *)
Section Rf.
  Variable src : bytes.
  Variable U : list inline.
  Hypothesis HW : spW src U = true.
  Variables rf1 rf2 : nat.
  Hypothesis H1 : len src + ibudget U < Z.of_nat rf1.
  Hypothesis H2 : len src + ibudget U < Z.of_nat rf2.

  Definition good (st : ist) : Prop := isrc st = src /\ unp st = U.
  Lemma good_fr st st' : good st -> fr st st' -> good st'.
  Proof. intros [A B] [C D]. split; congruence. Qed.

  Lemma side_ok X : unp X = U ->
    spW src (unpFrom X) = true /\ len src + ibudget (unpFrom X) < Z.of_nat rf1 /\ len src + ibudget (unpFrom X) < Z.of_nat rf2.
  Proof.
    intros E. unfold unpFrom. rewrite E. split; [apply spW_from, HW|].
    pose proof (ibudget_skipn (Z.to_nat (upos X)) U) as Hb. unfold from_. lia.
  Qed.

  Lemma collect_rf X p e k b : unp X = U ->
    collectTextNodes rf1 (newReader src (unpFrom X) p) e k b = collectTextNodes rf2 (newReader src (unpFrom X) p) e k b.
  Proof. intros E. destruct (side_ok X E) as (A & B & C). apply collectTextNodes_new_fuel; assumption. Qed.
  Lemma label_rf X p : unp X = U ->
    parseLinkLabel rf1 (newReader src (unpFrom X) p) = parseLinkLabel rf2 (newReader src (unpFrom X) p).
  Proof.
    intros E. destruct (side_ok X E) as (A & B & C). pose proof (nu_new src (unpFrom X) p A).
    apply (parseLinkLabel_fuel src); [apply PL_new; exact A|lia|lia].
  Qed.
  Lemma htmltag_rf X p : unp X = U ->
    parseHTMLTag rf1 (newReader src (unpFrom X) p) = parseHTMLTag rf2 (newReader src (unpFrom X) p).
  Proof.
    intros E. destruct (side_ok X E) as (A & B & C). pose proof (nu_new src (unpFrom X) p A).
    apply (parseHTMLTag_fuel src); [apply PL_new; exact A|lia|lia].
  Qed.
  Lemma tlrs_rf X s e : unp X = U ->
    transformLinkReferenceSpan rf1 src (unp X) s e = transformLinkReferenceSpan rf2 src (unp X) s e.
  Proof. intros E. rewrite E. apply transformLinkReferenceSpan_fuel; assumption. Qed.
  Lemma pil_rf X p : isrc X = src -> unp X = U -> parseInlineLink rf1 X p = parseInlineLink rf2 X p.
  Proof. intros E0 E. destruct (side_ok X E) as (A & B & C). apply (parseInlineLink_fuel src); assumption. Qed.
  Lemma codespan_rf X p : isrc X = src -> unp X = U -> parseCodeSpan rf1 X p = parseCodeSpan rf2 X p.
  Proof. intros E0 E. destruct (side_ok X E) as (A & B & C). apply (parseCodeSpan_fuel src); assumption. Qed.

  Ltac rwall :=
    repeat match goal with
    | |- context [collectTextNodes rf1 (newReader src (unpFrom ?X) ?p) ?e ?k ?b] => rewrite (collect_rf X p e k b) by assumption
    | |- context [parseLinkLabel rf1 (newReader src (unpFrom ?X) ?p)] => rewrite (label_rf X p) by assumption
    | |- context [parseHTMLTag rf1 (newReader src (unpFrom ?X) ?p)] => rewrite (htmltag_rf X p) by assumption
    | |- context [transformLinkReferenceSpan rf1 src (unp ?X) ?s ?e] => rewrite (tlrs_rf X s e) by assumption
    | |- context [parseInlineLink rf1 ?X ?p] => rewrite (pil_rf X p) by assumption
    | |- context [parseCodeSpan rf1 ?X ?p] => rewrite (codespan_rf X p) by assumption
    end.

  Lemma parseEndBracketF_rf tf st start : good st -> parseEndBracketF rf1 tf st start = parseEndBracketF rf2 tf st start.
  Proof.
    intros [Es Eu]. unfold parseEndBracketF. cbv zeta. rewrite Es.
    pose proof (fr_lookFor st) as [F1 F2]. destruct (lookForLinkOrImage st) as [st1 odi]. cbn [fst] in F1, F2.
    assert (Es1 : isrc st1 = src) by congruence. assert (Eu1 : unp st1 = U) by congruence.
    destruct (odi <? 0); [reflexivity|]. rwall.
    match goal with |- context [match ?X with Some _ => _ | None => _ end] => destruct X as [[[[[ispan dspan] dtext] tspan] ttext]|] end.
    - match goal with |- context [wrap ?s ?k ?a ?b] => pose proof (fr_wrap s k a b) as [W1 W2]; destruct (wrap s k a b) as [st2 lid]; cbn [fst] in W1, W2 end.
      assert (Eu2 : unp st2 = U) by congruence.
      destruct (spanValid dspan); destruct (spanValid tspan); rwall; reflexivity.
    - match goal with |- context [match ?X with pair _ _ => _ end] => destruct X as [lspan linner] end.
      rwall. reflexivity.
  Qed.

  Lemma istepF_rf tf st pos ps : good st -> istepF rf1 tf st pos ps = istepF rf2 tf st pos ps.
  Proof.
    intros [Es Eu]. unfold istepF. cbv zeta. rewrite Es.
    assert (Ga : good (addText st ps pos)) by (apply (good_fr st); [split; assumption|apply fr_addText]).
    rewrite (parseEndBracketF_rf tf (addText st ps pos) pos Ga).
    pose proof (fr_addText st ps pos) as [A1 A2]. assert (Eu1 : unp (addText st ps pos) = U) by congruence.
    rwall.
    destruct (_ || _); [reflexivity|]. destruct (_ =? 91); [reflexivity|]. destruct (_ =? 93); [reflexivity|].
    destruct (_ =? 33); [reflexivity|]. destruct (_ =? 32); [reflexivity|]. destruct (_ =? 96); [reflexivity|].
    destruct (_ =? 60); [|reflexivity]. destruct (0 <=? _); [reflexivity|].
    destruct (parseHTMLTag _ _) as [ts te]. destruct (negb _); [reflexivity|].
    pose proof (fr_addText st ps ts) as [B1 B2]. assert (Eu2 : unp (addText st ps ts) = U) by congruence.
    rwall. reflexivity.
  Qed.

  Lemma iloopF_rf tf : forall fuel st pos ps, good st -> iloopF rf1 tf fuel st pos ps = iloopF rf2 tf fuel st pos ps.
  Proof.
    induction fuel as [|f IH]; intros st pos ps G; [reflexivity|]. cbn [iloopF]. destruct (_ && _); [|reflexivity].
    rewrite (istepF_rf tf st pos ps G). pose proof (fr_istepF rf2 tf st pos ps) as F.
    destruct (istepF rf2 tf st pos ps) as [[st1 p1] ps1]. cbn [fst] in F. apply IH. eapply good_fr; eassumption.
  Qed.

  Lemma outerF_rf tf lf : forall fuel st, good st -> outerF rf1 tf lf fuel st = outerF rf2 tf lf fuel st.
  Proof.
    induction fuel as [|f IH]; intros st G; [reflexivity|]. cbn [outerF]. destruct (_ <=? _); [reflexivity|].
    assert (Gi : good (setIgn st false)) by (eapply good_fr; [exact G|apply fr_setIgn]).
    rewrite (iloopF_rf tf lf (setIgn st false) _ _ Gi).
    match goal with |- outerF rf1 tf lf f ?X = _ => assert (GX : good X) end.
    { eapply good_fr; [exact G|]. eapply fr_trans; [|apply fr_setUpos].
      destruct (_ =? 0); [apply fr_setIgn|]. destruct (_ =? IndentKind); [destruct (negb _); [apply fr_setRk|apply fr_refl]|].
      destruct (_ =? UnparsedKind); [|eapply fr_trans; [apply fr_setIgn|apply fr_setRk]].
      match goal with |- context [iloopF ?a ?b ?c ?d ?e ?g] => pose proof (fr_iloopF a b c d e g) as F; destruct (iloopF a b c d e g) as [st1 ps1]; cbn [fst] in F end.
      eapply fr_trans; [apply (fr_setIgn st false)|]. eapply fr_trans; [exact F|apply fr_addText]. }
    apply IH. exact GX.
  Qed.

  Theorem parseInlinesF_rf tf lf ofu matcher b : bik b = U ->
    parseInlinesF rf1 tf lf ofu src matcher b = parseInlinesF rf2 tf lf ofu src matcher b.
  Proof. intros E. unfold parseInlinesF. rewrite (outerF_rf tf lf ofu (st0 src matcher b)); [reflexivity|]. split; [reflexivity|exact E]. Qed.
End Rf.
