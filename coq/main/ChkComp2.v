(* ChkComp2.v -- T30: the closed-leaf invariant through processEmphasis, finishLink, the delimiter pushes, and the
   children collected from the source (after ShapesComp2.v). *)
From Coq Require Import List ZArith Lia Bool.
Import ListNotations.
Require Import Base Tables Utf8 Tree Rdr Link Collect Html Recog Inl3a Inl3b Inl3c Inl3d Inl3e Driver Render Safe MainTok.
Require Import Leaf3b Leaf3e Leaf3n ShapesBase ShapesR C17bytes C17chk C17tags C17local ChkA ChkCollect ChkComp1.
Open Scope Z_scope.

Section St2.
  Variable src : bytes.
  Variable U : list inline.
  (* what is assumed of the container's inline list *)
  Definition QU (u : inline) : Prop := iClosed false src u = true /\ 0 <= istart u.
  Hypothesis HU : Forall QU U.
  Hypothesis HSep : sepEndsb src U = true.
  Notation Inv := (Inv src U).
  Notation InvS := (InvS src U).

  Ltac ichain :=
    repeat match goal with
    | |- Inv _ (setStk _ (delStack _ _ _)) => apply I_setStk_incl; [|apply delStack_incl]
    | |- Inv _ (removeNode _ _) => apply I_remove
    end; try assumption.

  Lemma good_span_fn ids b (s e : pn -> Z) : forall n, prot (pkind n) = false ->
    gok src ids b n = true -> gok src ids b (setSpan n (s n) (e n)) = true.
  Proof. intros n. apply good_setSpan. Qed.

  Lemma I_pe_loop : forall fuel b st ob cp, Inv b st -> Inv b (pe_loop fuel st ob cp).
  Proof.
    induction fuel as [|f IH]; intros b st ob cp H; [assumption|]. cbn [pe_loop].
    destruct (_ <? 0); [assumption|].
    destruct (_ <=? _).
    - match goal with |- context [wrap ?A ?K ?X ?Y] =>
        assert (HA : Inv b A);
        [| assert (HK : prot K = false);
           [| destruct (I_wrap src U b A K X Y HA HK) as (HB & _ & _ & Hstk); destruct (wrap A K X Y) as [stB wid]]] end.
      + apply I_updN; [apply I_updN; [assumption| |]| |].
        * destruct (nthD_mem (stk st) (pe_findOpener (S (length (stk st))) (stk st)
                     (pe_findCloser (S (length (stk st))) (stk st) cp - 1)
                     (getOB ob (obIndex (nthD (stk st) (pe_findCloser (S (length (stk st))) (stk st) cp))))
                     (nthD (stk st) (pe_findCloser (S (length (stk st))) (stk st) cp)))) as [Hm|Hm];
            [left; exact Hm|right; left; exact Hm].
        * intros n. apply (good_span_fn (sids st) b (fun n => ps n) (fun n => pe n - _)).
        * destruct (nthD_mem (stk st) (pe_findCloser (S (length (stk st))) (stk st) cp)) as [Hm|Hm];
            [left; exact Hm|right; left; exact Hm].
        * intros n. apply (good_span_fn _ b (fun n => ps n + _) (fun n => pe n)).
      + destruct (_ && _); reflexivity.
      + cbn [fst] in HB.
        destruct (plen _ =? 0); destruct (plen _ =? 0); apply IH; ichain.
    - destruct (negb _); apply IH; ichain.
  Qed.
  Lemma I_processEmphasis b st sb : Inv b st -> Inv b (processEmphasis st sb).
  Proof. intros H. unfold processEmphasis. apply I_setStk_incl; [apply I_pe_loop, H|apply upto_incl]. Qed.

  Lemma I_finishLink b st kind odi : Inv b st -> Inv b (finishLink st kind odi).
  Proof.
    intros H. unfold finishLink.
    assert (H1 : Inv b (setStk (removeNode (processEmphasis st (odi + 1)) (d_node (nthD (stk st) odi)))
                          (delStack (stk (removeNode (processEmphasis st (odi + 1)) (d_node (nthD (stk st) odi)))) odi (odi + 1)))).
    { ichain. apply I_processEmphasis, H. }
    destruct (kind =? LinkKind); [|exact H1].
    apply I_setStk; [exact H1|]. intros d Hd. apply in_map_iff in Hd. destruct Hd as ([i d0] & Ed & Hin).
    apply in_combine_r in Hin. exists d0. split; [exact Hin|].
    subst d. destruct (_ && _); [|reflexivity]. unfold clearFlag. destruct (hasFlag d0 fActive); reflexivity.
  Qed.

  Lemma I_lfl : forall fuel b st i, Inv b st -> Inv b (fst (lfl fuel st i)).
  Proof.
    induction fuel as [|f IH]; intros b st i H; [assumption|]. cbn [lfl].
    destruct (i <? 0); [assumption|]. destruct (_ || _); [|apply IH; assumption].
    destruct (negb _); cbn [fst]; [ichain|assumption].
  Qed.

  Lemma addNode_id st kind s e kids :
    (addNode st kind s e kids = (st, -1)) \/
    (snd (addNode st kind s e kids) = nid st /\ nid (fst (addNode st kind s e kids)) = nid st + 1).
  Proof. unfold addNode. destruct (spanLen s e =? 0); [left; reflexivity|right; split; reflexivity]. Qed.
  Lemma stk_addNode st kind s e kids : stk (fst (addNode st kind s e kids)) = stk st.
  Proof. unfold addNode. destruct (spanLen s e =? 0); reflexivity. Qed.
  Lemma stk_addText st s e : stk (addText st s e) = stk st.
  Proof. apply stk_addNode. Qed.

  Lemma I_addNode_push b st kind s e kids (mk : Z -> delim) : Inv b st -> prot kind = false ->
    forallb (kgood src) kids = true -> (forall id, d_node (mk id) = id) ->
    Inv b (setStk (fst (addNode st kind s e kids))
                  (stk (fst (addNode st kind s e kids)) ++ [mk (snd (addNode st kind s e kids))])).
  Proof.
    intros H Hk Hkids Hmk. pose proof (I_addNode_plain src U b st kind s e kids H Hk Hkids) as H1.
    destruct H as (_ & _ & Hb & _). destruct H1 as (A1 & A2 & Hb1 & A4 & A5).
    apply I_push; [exact (conj A1 (conj A2 (conj Hb1 (conj A4 A5))))| |]; rewrite Hmk.
    - destruct (addNode_id st kind s e kids) as [E|(E1 & E2)]; [rewrite E; cbn; left; lia|right; lia].
    - destruct (addNode_id st kind s e kids) as [E|(E1 & E2)]; [rewrite E; cbn; lia|lia].
  Qed.

  Lemma S_addText st s e : InvS st -> InvS (addText st s e).
  Proof. intros H. apply (Inv_S src U (nid st)). apply I_addText. exact H. Qed.

  Lemma S_parseDelimiterRun st pos : InvS st -> InvS (fst (parseDelimiterRun st pos)).
  Proof.
    intros H. unfold parseDelimiterRun. cbv zeta.
    match goal with |- context [addNode ?a ?b ?c ?d ?e] =>
      pose proof (fun mk => I_addNode_push (nid st) a b c d e mk H eq_refl eq_refl) as H1;
      destruct (addNode a b c d e) as [st1 id] end.
    cbn [fst snd] in *. apply (Inv_S src U (nid st)).
    apply (H1 (fun id => {| d_typ := _; d_flags := _; d_n := _; d_node := id |})). reflexivity.
  Qed.

  Lemma S_parseBackslash st pos : InvS st -> InvS (fst (parseBackslash st pos)).
  Proof.
    intros H. unfold parseBackslash. cbv zeta.
    destruct (_ || _ || _).
    - destruct (isLastSpan st); cbn [fst]; [apply S_addText; assumption|].
      apply (Inv_S src U (nid st)). apply I_addNode_plain; [exact H|reflexivity|reflexivity].
    - destruct (isASCIIPunctuation _); cbn [fst]; apply S_addText; assumption.
  Qed.

  (* ---- children collected from the source ---- *)
  Lemma QU0 u : QU u -> 0 <= istart u. Proof. intros [_ H]. exact H. Qed.

  Lemma closedRaw_piece s e E : 0 <= s -> (e <= s \/ okEnd src e \/ e = E) -> at_ src (E - 1) = 62 -> closedRaw (sub src s e) = true.
  Proof.
    intros Hs Hc HE. apply endsOK_closedRaw.
    destruct Hc as [Hc|[Hc| ->]].
    - unfold sub, upto. replace (Z.to_nat (e - s)) with O by lia. reflexivity.
    - apply span_endsOK; [exact Hs|apply sepByte_okLast, Hc|apply sepByte_nonzero, Hc].
    - apply span_endsOK; [exact Hs|rewrite HE; reflexivity|rewrite HE; discriminate].
  Qed.

  Lemma RK_newReader w b st pos : Inv b st -> (w = true -> 0 <= pos) -> RK src QU w (newReader src (unpFrom st) pos).
  Proof.
    intros (_ & E & _) Hp. unfold RK, newReader, unpFrom. cbn [r_src r_spans r_pos]. rewrite E.
    split; [reflexivity|]. split; [apply sepEndsb_from, HSep|]. split; [|exact Hp].
    unfold from_. rewrite <- (firstn_skipn (Z.to_nat (upos st)) U) in HU. apply Forall_app in HU. tauto.
  Qed.

  (* children of an unprotected text kind (Text) *)
  Lemma kids_kgood_plain tk esc fuel b st pos e : Inv b st -> prot tk = false ->
    forallb (kgood src) (kidsOf (collectTextNodes fuel (newReader src (unpFrom st) pos) e tk esc)) = true.
  Proof.
    intros H Hk. unfold kidsOf. apply forallb_forall. intros x Hx. apply in_map_iff in Hx. destruct Hx as (i & <- & Hi).
    pose proof (collectTextNodes_ok src QU QU0 false tk esc fuel (newReader src (unpFrom st) pos) e ltac:(discriminate)
                  (RK_newReader false b st pos H ltac:(discriminate))) as HF.
    rewrite Forall_forall in HF. destruct (HF i Hi) as [(s & e' & -> & _)|[(s & en & -> & Hn)|(Hq & _)]].
    - cbn [ofInline mkI map kgood forallb]. rewrite Hk. reflexivity.
    - cbn [ofInline mkI map kgood forallb]. change (prot CharacterReferenceKind) with true. cbv iota. rewrite andb_true_r.
      unfold nodeOK. change (CharacterReferenceKind =? CharacterReferenceKind) with true.
      change (CharacterReferenceKind =? SoftLineBreakKind) with false. change (CharacterReferenceKind =? RawHTMLKind) with false.
      cbv iota. rewrite !andb_true_r. apply nolt_vsafe, Hn.
    - apply iClosed_ofInline, Hq.
  Qed.

  (* the children of an HTML tag *)
  Lemma kids_kgood_raw fuel b st pos e : Inv b st -> 0 <= pos -> at_ src (e - 1) = 62 ->
    forallb (kgood src) (kidsOf (collectTextNodes fuel (newReader src (unpFrom st) pos) e RawHTMLKind false)) = true.
  Proof.
    intros H Hp He. unfold kidsOf. apply forallb_forall. intros x Hx. apply in_map_iff in Hx. destruct Hx as (i & <- & Hi).
    pose proof (collectTextNodes_ok src QU QU0 true RawHTMLKind false fuel (newReader src (unpFrom st) pos) e ltac:(reflexivity)
                  (RK_newReader true b st pos H ltac:(intros _; exact Hp))) as HF.
    rewrite Forall_forall in HF. destruct (HF i Hi) as [(s & e' & -> & Hf)|[(s & en & -> & Hn)|(Hq & _)]].
    - cbn [ofInline mkI map kgood forallb]. change (prot RawHTMLKind) with true. cbv iota. rewrite andb_true_r.
      unfold nodeOK. change (RawHTMLKind =? CharacterReferenceKind) with false. change (RawHTMLKind =? SoftLineBreakKind) with false.
      change (RawHTMLKind =? RawHTMLKind) with true. cbv iota. cbn [andb].
      destruct (Hf eq_refl) as (H0 & Hc). rewrite andb_true_r. apply (closedRaw_piece s e' e); assumption.
    - cbn [ofInline mkI map kgood forallb]. change (prot CharacterReferenceKind) with true. cbv iota. rewrite andb_true_r.
      unfold nodeOK. change (CharacterReferenceKind =? CharacterReferenceKind) with true.
      change (CharacterReferenceKind =? SoftLineBreakKind) with false. change (CharacterReferenceKind =? RawHTMLKind) with false.
      cbv iota. rewrite !andb_true_r. apply nolt_vsafe, Hn.
    - apply iClosed_ofInline, Hq.
  Qed.

  Lemma I_appendKid b st id kd s e rf kids : Inv b st -> b <= id -> prot kd = false ->
    (Inv b st -> forallb (kgood src) kids = true) -> Inv b (appendKid st id (PN 0 kd s e 0 rf kids)).
  Proof.
    intros H Hid Hk Hkids. unfold appendKid. apply I_updN; [exact H|right; right; exact Hid|].
    intros n. apply good_appendKid. apply kgood_gok; [eapply Inv_no0; exact H|destruct H as (_ & _ & Hb & _); lia|].
    cbn [kgood]. rewrite Hk. cbn [andb]. apply Hkids, H.
  Qed.
  Lemma I_updSpan b st id s e : Inv b st -> b <= id -> Inv b (updN st id (fun n => setSpan n s e)).
  Proof.
    intros H Hid. apply I_updN; [exact H|right; right; exact Hid|]. intros n. apply (good_span_fn _ b (fun _ => s) (fun _ => e)).
  Qed.
  Lemma I_updSpanRef b st id s e rf : Inv b st -> b <= id -> Inv b (updN st id (fun n => setRef (setSpan n s e) rf)).
  Proof.
    intros H Hid. apply I_updN; [exact H|right; right; exact Hid|]. intros n Hk Hn.
    apply good_setRef; [destruct n; exact Hk|]. apply (good_span_fn _ b (fun _ => s) (fun _ => e)); assumption.
  Qed.
End St2.
