From Coq Require Import List ZArith Lia Bool.
Import ListNotations.
Require Import Base Tables Utf8 Tree Rdr Link Collect Html Recog Inl3a Inl3b Inl3c Inl3d Inl3e Leaf3a Leaf3e RdrBound.
Require Import SpanForest SpanIds SpanStack SpanEmph SpanSmall SpanTok SpanRdr SpanCollect.
Open Scope Z_scope.

(* ================================================================================================
   Layer 4, part 3: the link scanners (label, destination, title, inline link).
   ================================================================================================ *)
Section Scan.
  Variables (src : bytes) (U : list inline) (lo hi : Z).
  Hypothesis HEC : EC src U lo hi.
  Notation nU := (nthU U).
  Notation P := (SpanRdr.P src U).
  Notation AliveAt := (SpanRdr.AliveAt src U).
  Notation Off := (SpanRdr.Off src U).
  Notation RS := (SpanRdr.RS src U).

  (* destructuring one reader operation, with the facts of SpanRdr *)
  Ltac stepc :=
    match goal with
    | H : SpanRdr.RS src U ?s ?r |- context [current ?r] =>
      let Hc := fresh "Hc" in let Hp := fresh "Hp" in let Hv := fresh "Hv" in let H41 := fresh "H41" in let Hs := fresh "Hs" in let Hcc := fresh "Hcc" in
      destruct (RS_current src U lo hi HEC s r H) as (Hc & Hp & Hv & H41 & Hs & Hcc);
      let c := fresh "c" in let r' := fresh "r" in
      destruct (current r) as [c r']; cbn [fst snd] in Hc, Hp, Hv, H41, Hs, Hcc
    end.
  Ltac stepn :=
    match goal with
    | H : SpanRdr.RS src U ?s ?r |- context [next ?r] =>
      let Hn := fresh "Hn" in let Hm := fresh "Hm" in let Hok := fresh "Hok" in let Hfl := fresh "Hfl" in
      destruct (RS_next src U lo hi HEC s r H) as (Hn & Hm & Hok & Hfl);
      let ok := fresh "ok" in let r' := fresh "r" in
      destruct (next r) as [ok r']; cbn [fst snd] in Hn, Hm, Hok, Hfl
    end.

  Lemma notws_91 c : (c =? 91) = true -> isSpaceTabOrLineEnding c = false /\ c <> 0.
  Proof. intros H. apply Z.eqb_eq in H. subst c. split; [reflexivity|discriminate]. Qed.

  (* ll_skip: skips blanks; the reader it returns has made at least one step *)
  Lemma ll_skip_spec : forall fuel s r chars r' chars', RS s r -> ll_skip fuel r chars = Some (r', chars') ->
    RS true r' /\ r_pos r <= r_pos r'.
  Proof.
    induction fuel as [|f IH]; intros s r chars r' chars' HR E; [discriminate|]. cbn [ll_skip] in E. revert E.
    stepn. destruct ok; cbn [negb]; [|discriminate]. destruct (Hok eq_refl) as (Hr0 & Hpv & _). stepc.
    destruct (_ || _ || _); [discriminate|]. destruct (negb _).
    - intros E. inversion E; subst. split; [exact Hc|lia].
    - intros E. destruct (IH true r1 _ _ _ Hc E) as (I1 & I2). split; [exact I1|lia].
  Qed.

  Lemma ll_body_spec : forall fuel r chars ie r' ie', RS true r -> ie <= r_pos r -> ll_body fuel r chars ie = Some (r', ie') ->
    RS true r' /\ r_pos r <= r_pos r' /\ ie' <= r_pos r'.
  Proof.
    induction fuel as [|f IH]; intros r chars ie r' ie' HR Hie E; [discriminate|]. cbn [ll_body] in E. revert E.
    stepc. destruct (negb _).
    { intros E. inversion E; subst. split; [exact Hc|]. lia. }
    destruct (Z.eqb_spec c 92) as [E92|N92].
    - stepn. destruct ok; cbn [negb]; [|discriminate]. destruct (Hok eq_refl) as (Hr1 & Hpv1 & _ & Hst1).
      rewrite Hcc, E92 in Hst1. specialize (Hst1 eq_refl).
      stepc. stepn. destruct ok; cbn [negb]; [|discriminate]. destruct (Hok0 eq_refl) as (Hr3 & Hpv3 & _ & Hst3). rewrite Hcc0 in Hst3.
      intros E. destruct (isSpaceTabOrLineEnding c0) eqn:Ew; cbn [negb] in E; cbv iota in E.
      + eapply IH in E as (I1 & I2 & I3); [|exact Hr3|lia]. split; [exact I1|lia].
      + specialize (Hst3 eq_refl). eapply IH in E as (I1 & I2 & I3); [|exact Hr3|lia]. split; [exact I1|lia].
    - stepn. destruct ok; cbn [negb]; [|discriminate]. destruct (Hok eq_refl) as (Hr1 & Hpv1 & _ & Hst1). rewrite Hcc in Hst1.
      intros E. destruct (isSpaceTabOrLineEnding c) eqn:Ew; cbn [negb] in E; cbv iota in E.
      + eapply IH in E as (I1 & I2 & I3); [|exact Hr1|lia]. split; [exact I1|lia].
      + specialize (Hst1 eq_refl). eapply IH in E as (I1 & I2 & I3); [|exact Hr1|lia]. split; [exact I1|lia].
  Qed.

  Lemma parseLinkLabel_spec fuel r : RS true r ->
    let '(lspan, linner, _) := parseLinkLabel fuel r in
    spanValid lspan = true ->
    fst lspan = r_pos r /\ snd lspan <= P /\ r_pos r <= fst linner /\ snd linner <= snd lspan /\ fst lspan <= snd lspan /\
    exists r1, RS true r1 /\ r_pos r1 = fst linner.
  Proof.
    intros HR. unfold parseLinkLabel. stepc. destruct (negb (c =? 91)); [cbn; discriminate|].
    destruct (ll_skip fuel r0 0) as [[r1 chars]|] eqn:E1; [|cbn; discriminate].
    destruct (ll_skip_spec _ _ _ _ _ _ Hc E1) as (S1 & S2).
    destruct (ll_body fuel r1 chars (-1)) as [[r2 ie]|] eqn:E2; [|cbn; discriminate].
    pose proof (RS_pos0 src U lo hi HEC _ _ S1) as P1.
    eapply ll_body_spec in E2 as (B1 & B2 & B3); [|exact S1|lia].
    stepc. destruct (Z.eqb_spec c0 93) as [E93|N93]; cbn [negb]; [|cbn; discriminate].
    stepn. intros _. cbn [fst snd].
    destruct (Hs0 eq_refl ltac:(lia) ltac:(rewrite E93; reflexivity)) as (k & A).
    pose proof (alive_pos src U lo hi HEC _ _ A) as (_ & _ & A3 & _).
    repeat split; try lia. exists r1. split; [exact S1|reflexivity].
  Qed.

  (* restarting a reader at a position already visited *)
  Lemma nodeIdx_none : forall d i pos c, d = Z.to_nat (len U - i) -> 0 <= i -> (forall k, i <= k < len U -> iend (nU k) <= pos) ->
    nodeIdx (from_ U i) pos c = -1.
  Proof.
    induction d as [|d IH]; intros i pos c Hd Hi Hall.
    - assert (Hl : len U <= i) by lia. rewrite (from_nil src U i Hl). reflexivity.
    - rewrite (from_cons src U i) by lia. cbn [nodeIdx]. destruct (eb src U lo hi HEC i ltac:(lia)) as (B1 & B2 & B3).
      pose proof (Hall i ltac:(lia)) as Hi2.
      destruct (Z.ltb_spec pos (istart (nU i))); [lia|].
      destruct (spanHas (nU i) pos) eqn:Eh; [apply (has_nU src U lo hi HEC i pos ltac:(lia)) in Eh; lia|].
      apply IH; [lia|lia|]. intros k Hk. apply Hall. lia.
  Qed.
  Lemma alive_index_ge j r k : 0 <= j < len U -> istart (nU j) <= r_pos r -> AliveAt r k -> j <= k.
  Proof.
    intros Hj Hp A. pose proof (alive_pos src U lo hi HEC r k A) as (A1 & A2 & _).
    destruct (Z.le_gt_cases j k) as [L|L]; [exact L|]. pose proof (eo src U lo hi HEC k j ltac:(lia) L ltac:(lia)). lia.
  Qed.
  Lemma RS_at_P j : 0 <= j -> 0 <= P -> RS false (newReader src (from_ U j) P).
  Proof.
    intros Hj HP. split; [right; split; [|discriminate]|cbn [r_prev newReader]; lia].
    split; [reflexivity|]. split; [reflexivity|]. cbn [r_spans r_pos newReader]. unfold nodeIndexForPosition.
    rewrite (nodeIdx_none (Z.to_nat (len U - j)) j P 0 eq_refl Hj); [lia|]. intros k Hk. apply (P_ge src U lo hi HEC). lia.
  Qed.
  Lemma RS_restart j s r : 0 <= j < len U -> istart (nU j) <= r_pos r -> RS s r -> RS false (newReader src (from_ U j) (r_pos r)).
  Proof.
    intros Hj Hp ([(k & A)|[A _]] & B1 & B2).
    - pose proof (alive_index_ge j r k Hj Hp A) as Hk. pose proof (alive_pos src U lo hi HEC r k A) as (A1 & A2 & _).
      apply (RS_new src U lo hi HEC false (r_pos r) k j); lia.
    - destruct A as (_ & -> & _). apply RS_at_P; lia.
  Qed.

  (* fuel of the scanners started by the tokeniser *)
  Lemma U_ne j : 0 <= j < len U -> U <> [].
  Proof. intros H E. rewrite E in H. cbn in H. lia. Qed.
  Lemma fuel_ok st j : isrc st = src -> 0 <= j < len U -> (Z.to_nat P + 4 <= rfuelOf st)%nat.
  Proof.
    intros Es Hj. unfold rfuelOf. rewrite Es. pose proof (P_hi src U lo hi HEC (U_ne j Hj)) as H1. pose proof (ec_hi _ _ _ _ HEC) as H2.
    unfold len in H2. lia.
  Qed.
  Lemma inEntry_reader st pos : inEntry src U st pos ->
    unpFrom st = from_ U (upos st) /\ isrc st = src /\ 0 <= upos st < len U /\ istart (nU (upos st)) <= pos < iend (nU (upos st)) /\
    spanEnd st = iend (nU (upos st)).
  Proof.
    intros (E1 & E2 & E3 & E4). unfold unpFrom. rewrite E1. split; [reflexivity|]. split; [exact E2|]. split; [exact E3|]. split; [exact E4|].
    apply (spanEnd_in U st E1 E3).
  Qed.

  Theorem SpecLabel_holds : SpecLabel src U.
  Proof.
    intros st s HE Hs. destruct (inEntry_reader st (s - 1) HE) as (Eu & Es & Hj & Hp & Hse). rewrite Eu. rewrite Hse in Hs.
    pose proof (RS_new src U lo hi HEC true s (upos st) (upos st) ltac:(lia) ltac:(lia) ltac:(lia)) as HR.
    pose proof (parseLinkLabel_spec (rfuelOf st) _ HR) as H.
    destruct (parseLinkLabel (rfuelOf st) (newReader src (from_ U (upos st)) s)) as [[lspan linner] rl].
    intros Hv. destruct (H Hv) as (H1 & H2 & H3 & H4 & H5 & r1 & R1 & R2). cbn [r_pos newReader] in H1, H3.
    split; [lia|]. split; [exact H2|].
    rewrite <- R2. apply (collect_new_okF src U lo hi HEC).
    - rewrite R2. rewrite <- R2. apply (RS_restart (upos st) true r1); [lia|lia|exact R1].
    - apply (fuel_ok st (upos st)); assumption.
    - discriminate.
    - lia.
    - exact H4.
    - exact H5.
  Qed.

  (* ---- more facts about what an alive reader reads ---- *)
  Lemma cur_src r k c : AliveAt r k -> fst (current r) = c -> c <> 32 -> c < 128 -> at_ src (r_pos r) = c /\ ikind (nU k) <> IndentKind.
  Proof.
    intros A Ec N32 L. rewrite (current_alive src U lo hi HEC r k A) in Ec. cbn [fst] in Ec. unfold SpanRdr.byteAt in Ec.
    destruct (Z.eqb_spec (ikind (nU k)) IndentKind) as [Ei|Ei]; [congruence|]. split; [|exact Ei].
    destruct (at_ src (r_pos r) =? 0); [|exact Ec]. unfold nullRepl in Ec. destruct (_ =? 0); [lia|]. destruct (_ =? 1); lia.
  Qed.
  Lemma next_prev_alive r k : AliveAt r k -> r_prev (snd (next r)) = r_pos r.
  Proof. intros A. destruct (next_alive src U lo hi HEC r k A) as (_ & E & _). exact E. Qed.
  Lemma next_strict_any r k : AliveAt r k -> ikind (nU k) <> IndentKind -> r_pos r + 1 <= r_pos (snd (next r)).
  Proof.
    intros A Ni. pose proof (alive_pos src U lo hi HEC r k A) as (A1 & A2 & _).
    destruct (next_alive src U lo hi HEC r k A) as (_ & _ & [(_ & _ & [[Z _]|[_ Z]])|[(_ & Hk & Ep & _)|(_ & _ & _ & Ep & _)]]); [contradiction|lia| |lia].
    pose proof (eo src U lo hi HEC k (k + 1) ltac:(lia) ltac:(lia) Hk). lia.
  Qed.
  Lemma RS_after j r k c : AliveAt r k -> fst (current r) = c -> c <> 32 -> isEOLb c = false -> 0 <= j <= k ->
    RS false (newReader src (from_ U j) (r_pos r + 1)).
  Proof.
    intros A Ec N32 Ne Hj. pose proof (alive_pos src U lo hi HEC r k A) as (A1 & A2 & A3 & A4 & A5).
    rewrite (current_alive src U lo hi HEC r k A) in Ec. cbn [fst] in Ec. unfold SpanRdr.byteAt in Ec.
    destruct (Z.eqb_spec (ikind (nU k)) IndentKind) as [Ei|Ei]; [congruence|].
    destruct (Z.lt_ge_cases (r_pos r + 1) (iend (nU k))) as [L|L].
    - apply (RS_new src U lo hi HEC false (r_pos r + 1) k j); lia.
    - assert (Hlast : k + 1 = len U).
      { destruct (Z.eq_dec (k + 1) (len U)) as [X|X]; [exact X|]. exfalso.
        destruct (ec_eol _ _ _ _ HEC k ltac:(lia) ltac:(lia)) as (_ & He). specialize (He Ei).
        replace (iend (nU k) - 1) with (r_pos r) in He by lia.
        destruct (Z.eqb_spec (at_ src (r_pos r)) 0) as [E0|E0]; [rewrite E0 in He; discriminate|]. rewrite Ec in He. congruence. }
      assert (HN : U <> []) by (apply (U_ne k); lia).
      replace (r_pos r + 1) with P by (rewrite (P_last src U lo hi HEC HN); replace (len U - 1) with k by lia; lia).
      apply RS_at_P; lia.
  Qed.

  (* ---- skipLinkSpace ---- *)
  Lemma skipLinkSpace_loop_spec : forall fuel s r, RS s r ->
    RS false (snd (skipLinkSpace_loop fuel r)) /\ r_pos r <= r_pos (snd (skipLinkSpace_loop fuel r)) /\
    (fst (skipLinkSpace_loop fuel r) = true -> RS s (snd (skipLinkSpace_loop fuel r))).
  Proof.
    induction fuel as [|f IH]; intros s r HR; cbn [skipLinkSpace_loop].
    - cbn [fst snd]. split; [apply (RS_weaken src U s); exact HR|]. split; [lia|intros _; exact HR].
    - stepc. destruct (isSpaceTabOrLineEnding c).
      + stepn. destruct ok.
        * destruct (Hok eq_refl) as (Hr1 & _). destruct (IH true r1 Hr1) as (I1 & I2 & I3).
          split; [exact I1|]. split; [lia|]. intros X. specialize (I3 X). destruct s; [exact I3|apply (RS_weaken src U true); exact I3].
        * cbn [fst snd]. split; [exact Hn|]. split; [lia|discriminate].
      + cbn [fst snd]. split; [apply (RS_weaken src U s); exact Hc|]. split; [lia|intros _; exact Hc].
  Qed.
  Lemma skipLinkSpace_spec fuel s r : RS s r ->
    RS false (snd (skipLinkSpace fuel r)) /\ r_pos r <= r_pos (snd (skipLinkSpace fuel r)) /\
    (fst (skipLinkSpace fuel r) = true -> RS s (snd (skipLinkSpace fuel r))).
  Proof.
    intros HR. unfold skipLinkSpace. stepc. destruct (c =? 0).
    - cbn [fst snd]. split; [apply (RS_weaken src U s); exact Hc|]. split; [lia|discriminate].
    - destruct (skipLinkSpace_loop_spec fuel s r0 Hc) as (I1 & I2 & I3). split; [exact I1|]. split; [lia|exact I3].
  Qed.

  (* ---- destination and title ---- *)
  Definition NoEnt (e : Z) : Prop :=
    forall k, 0 <= k < len U -> ikind (nU k) <> IndentKind -> istart (nU k) <= e < iend (nU k) -> entChar (at_ src e) = false.
  Lemma entry_unique k k' e : 0 <= k < len U -> 0 <= k' < len U -> istart (nU k) <= e < iend (nU k) -> istart (nU k') <= e < iend (nU k') -> k = k'.
  Proof.
    intros H1 H2 H3 H4. destruct (Z.lt_trichotomy k k') as [L|[L|L]]; [|exact L|].
    - pose proof (eo src U lo hi HEC k k' ltac:(lia) L ltac:(lia)). lia.
    - pose proof (eo src U lo hi HEC k' k ltac:(lia) L ltac:(lia)). lia.
  Qed.
  Lemma NoEnt_P : NoEnt P.
  Proof. intros k Hk _ H. pose proof (P_ge src U lo hi HEC k Hk). lia. Qed.
  Lemma NoEnt_read s r c : RS s r -> fst (current r) = c -> entChar c = false -> c < 128 -> NoEnt (r_pos r).
  Proof.
    intros ([(k & A)|[A _]] & _) Ec He L.
    - pose proof (alive_pos src U lo hi HEC r k A) as (A1 & A2 & _). intros k' Hk' Ni Hin.
      assert (k = k') by (apply (entry_unique k k' (r_pos r)); assumption). subst k'.
      rewrite (current_alive src U lo hi HEC r k A) in Ec. cbn [fst] in Ec. unfold SpanRdr.byteAt in Ec.
      apply Z.eqb_neq in Ni. rewrite Ni in Ec.
      destruct (Z.eqb_spec (at_ src (r_pos r)) 0) as [E0|E0]; [rewrite E0; reflexivity|]. rewrite Ec. exact He.
    - destruct A as (_ & -> & _). apply NoEnt_P.
  Qed.

  Definition DT (r0 : reader) (span text : Z * Z) (r' : reader) : Prop :=
    RS false r' /\ r_pos r0 <= r_pos r' /\
    (spanValid span = true ->
       r_pos r0 <= fst span /\ fst span <= snd span /\ snd span <= r_pos r' /\ snd span <= P /\
       fst span <= fst text /\ snd text <= snd span /\ NoEnt (snd text)).

  Lemma spanValid_null : spanValid nullSpan = false. Proof. reflexivity. Qed.

  Lemma ld_angle_spec : forall fuel s r start, RS s r -> start <= r_pos r ->
    let '(dspan, dtext, r') := ld_angle fuel r start in
    RS false r' /\ r_pos r <= r_pos r' /\
    (spanValid dspan = true -> (exists k, AliveAt r k) /\ fst dspan = start /\ start <= snd dspan /\ snd dspan <= r_pos r' /\ snd dspan <= P /\
        dtext = (start + 1, snd dspan - 1) /\ NoEnt (snd dspan - 1)).
  Proof.
    induction fuel as [|f IH]; intros s r start HR Hst; cbn [ld_angle].
    - split; [apply (RS_weaken src U s); exact HR|]. split; [lia|rewrite spanValid_null; discriminate].
    - stepn. destruct ok; cbn [negb]; [|split; [exact Hn|split; [lia|rewrite spanValid_null; discriminate]]].
      destruct (Hok eq_refl) as (Hr0 & Hpv & Hal & _). stepc.
      destruct ((c =? 13) || (c =? 10)); [split; [apply (RS_weaken src U true); exact Hc|split; [lia|rewrite spanValid_null; discriminate]]|].
      destruct (Z.eqb_spec c 92) as [E92|N92].
      + stepn. destruct ok; cbn [negb]; [|split; [exact Hn0|split; [lia|rewrite spanValid_null; discriminate]]].
        destruct (Hok0 eq_refl) as (Hr2 & _). stepc.
        destruct ((c0 =? 10) || (c0 =? 13)); [split; [apply (RS_weaken src U true); exact Hc0|split; [lia|rewrite spanValid_null; discriminate]]|].
        match goal with |- context [ld_angle f ?rr start] =>
          pose proof (IH true rr start ltac:(assumption) ltac:(lia)) as HI; destruct (ld_angle f rr start) as [[dspan dtext] r'] end.
        destruct HI as (I1 & I2 & I3).
        split; [exact I1|]. split; [lia|]. intros Hvalid. destruct (I3 Hvalid) as (_ & J). split; [exact Hal|exact J].
      + destruct (Z.eqb_spec c 62) as [E62|N62].
        * destruct (Hs eq_refl ltac:(lia) ltac:(rewrite E62; reflexivity)) as (k & A).
          pose proof (alive_pos src U lo hi HEC r1 k A) as (A1 & A2 & A3 & _).
          destruct (cur_src r1 k c A Hcc ltac:(lia) ltac:(lia)) as (Esrc & Ni).
          pose proof (next_prev_alive r1 k A) as Epv. pose proof (next_strict_any r1 k A Ni) as Est.
          stepn. cbn [fst snd] in *. split; [exact Hn0|]. split; [lia|]. intros _. split; [exact Hal|].
          rewrite Epv. split; [reflexivity|]. split; [lia|]. split; [lia|]. split; [lia|]. split; [f_equal; lia|].
          replace (r_pos r1 + 1 - 1) with (r_pos r1) by lia.
          apply (NoEnt_read true r1 c Hc Hcc); [rewrite E62; reflexivity|lia].
        * match goal with |- context [ld_angle f ?rr start] =>
            pose proof (IH true rr start ltac:(assumption) ltac:(lia)) as HI; destruct (ld_angle f rr start) as [[dspan dtext] r'] end.
          destruct HI as (I1 & I2 & I3).
          split; [exact I1|]. split; [lia|]. intros Hvalid. destruct (I3 Hvalid) as (_ & J). split; [exact Hal|exact J].
  Qed.

  Lemma next_fail_P s r : RS s r -> fst (next r) = false -> r_pos (snd (next r)) = P.
  Proof.
    intros ([(k & A)|[A _]] & _) Hf.
    - destruct (next_alive src U lo hi HEC r k A) as (_ & _ & [(X & _)|[(X & _)|(_ & _ & _ & Ep & EP & _)]]); try congruence.
    - destruct (next_off src U r A) as (_ & _ & E & _). rewrite E. destruct A as (_ & A & _). exact A.
  Qed.
  Lemma ctrl_notent c : isASCIIControl c || (c =? 32) = true -> entChar c = false /\ c < 128 /\ True.
  Proof.
    unfold isASCIIControl, entChar, isASCIILetter, isASCIIDigit. intros H.
    assert (Hc : c <= 32 \/ c = 127).
    { apply orb_true_iff in H. destruct H as [H|H]; [apply orb_true_iff in H; destruct H as [H|H]; [apply Z.leb_le in H; lia|apply Z.eqb_eq in H; lia]|apply Z.eqb_eq in H; lia]. }
    split; [|lia].
    destruct Hc as [Hc| ->]; [|reflexivity].
    replace (65 <=? c) with false by (symmetry; apply Z.leb_gt; lia). replace (97 <=? c) with false by (symmetry; apply Z.leb_gt; lia).
    replace (48 <=? c) with false by (symmetry; apply Z.leb_gt; lia). cbn [andb orb].
    replace (c =? 35) with false by (symmetry; apply Z.eqb_neq; lia). replace (c =? 59) with false by (symmetry; apply Z.eqb_neq; lia). reflexivity.
  Qed.
  Lemma notctrl_notws c : isASCIIControl c || (c =? 32) = false -> isSpaceTabOrLineEnding c = false.
  Proof.
    unfold isASCIIControl, isSpaceTabOrLineEnding. intros H. apply orb_false_iff in H. destruct H as [H H32]. apply orb_false_iff in H. destruct H as [H _].
    apply Z.leb_gt in H. rewrite H32. replace (c =? 9) with false by (symmetry; apply Z.eqb_neq; lia).
    replace (c =? 10) with false by (symmetry; apply Z.eqb_neq; lia). replace (c =? 13) with false by (symmetry; apply Z.eqb_neq; lia). reflexivity.
  Qed.

  Lemma ld_bare_spec : forall fuel s r paren, RS s r -> (Z.to_nat (P - r_pos r) < fuel)%nat ->
    RS false (ld_bare fuel r paren) /\ r_pos r <= r_pos (ld_bare fuel r paren) /\ NoEnt (r_pos (ld_bare fuel r paren)).
  Proof.
    induction fuel as [|f IH]; intros s r paren HR Hf; [lia|]. cbn [ld_bare].
    stepc. destruct (isASCIIControl c || (c =? 32)) eqn:Ectl.
    { destruct (ctrl_notent c Ectl) as (E1 & E2 & _). split; [apply (RS_weaken src U s); exact Hc|]. split; [lia|].
      apply (NoEnt_read s _ c Hc Hcc E1 E2). }
    pose proof (notctrl_notws c Ectl) as Nws.
    (* one successful step from a non-blank byte, then the recursive call or the exhausted reader *)
    assert (Hstep : forall rr paren', RS s rr -> r_pos rr = r_pos r -> fst (current rr) = c ->
              let '(ok, r2) := next rr in
              RS false (if ok then ld_bare f r2 paren' else r2) /\ r_pos r <= r_pos (if ok then ld_bare f r2 paren' else r2) /\
              NoEnt (r_pos (if ok then ld_bare f r2 paren' else r2))).
    { intros rr paren' HRr Epr Ecr.
      destruct (RS_next src U lo hi HEC s rr HRr) as (Hn & Hm & Hok & Hfl). pose proof (next_fail_P s rr HRr) as HfP.
      destruct (next rr) as [ok r2]. cbn [fst snd] in *. destruct ok.
      - destruct (Hok eq_refl) as (Hr2 & _ & (k & Ak) & Hst). rewrite Ecr in Hst. specialize (Hst Nws).
        pose proof (alive_pos src U lo hi HEC rr k Ak) as (_ & _ & AP & _).
        destruct (IH true r2 paren' Hr2 ltac:(lia)) as (I1 & I2 & I3). split; [exact I1|]. split; [lia|exact I3].
      - split; [exact Hn|]. split; [lia|]. rewrite (HfP eq_refl). apply NoEnt_P. }
    destruct (Z.eqb_spec c 92) as [E92|N92].
    - destruct (RS_next src U lo hi HEC s r0 Hc) as (Hn & Hm & Hok & Hfl). pose proof (next_fail_P s r0 Hc) as HfP.
      destruct (next r0) as [ok r2]. cbn [fst snd] in *. destruct ok; cbn [negb].
      + destruct (Hok eq_refl) as (Hr2 & _ & (k & Ak) & Hst). rewrite Hcc in Hst. specialize (Hst Nws).
        pose proof (alive_pos src U lo hi HEC r0 k Ak) as (_ & _ & AP & _).
        destruct (RS_current src U lo hi HEC true r2 Hr2) as (Hc2 & Hp2 & Hv2 & _ & _ & Hcc2).
        destruct (current r2) as [c2 r3]. cbn [fst snd] in *.
        destruct (isASCIIControl c2 || (c2 =? 32)) eqn:Ectl2.
        { destruct (ctrl_notent c2 Ectl2) as (E1 & E2 & _). split; [apply (RS_weaken src U true); exact Hc2|]. split; [lia|].
          apply (NoEnt_read true _ c2 Hc2 Hcc2 E1 E2). }
        pose proof (notctrl_notws c2 Ectl2) as Nws2.
        destruct (RS_next src U lo hi HEC true r3 Hc2) as (Hn3 & Hm3 & Hok3 & Hfl3). pose proof (next_fail_P true r3 Hc2) as HfP3.
        destruct (next r3) as [ok3 r4]. cbn [fst snd] in *. destruct ok3.
        * destruct (Hok3 eq_refl) as (Hr4 & _ & (k3 & Ak3) & Hst3). rewrite Hcc2 in Hst3. specialize (Hst3 Nws2).
          pose proof (alive_pos src U lo hi HEC r3 k3 Ak3) as (_ & _ & AP3 & _).
          destruct (IH true r4 paren Hr4 ltac:(lia)) as (I1 & I2 & I3). split; [exact I1|]. split; [lia|exact I3].
        * split; [exact Hn3|]. split; [lia|]. rewrite (HfP3 eq_refl). apply NoEnt_P.
      + split; [exact Hn|]. split; [lia|]. rewrite (HfP eq_refl). apply NoEnt_P.
    - destruct (c =? 40).
      { pose proof (Hstep r0 (paren + 1) Hc Hp Hcc) as H. destruct (next r0) as [ok r2]. destruct ok; exact H. }
      destruct (Z.eqb_spec c 41) as [E41|N41].
      { destruct (paren - 1 <? 0).
        - split; [apply (RS_weaken src U s); exact Hc|]. split; [lia|]. apply (NoEnt_read s _ c Hc Hcc); [rewrite E41; reflexivity|lia].
        - pose proof (Hstep r0 (paren - 1) Hc Hp Hcc) as H. destruct (next r0) as [ok r2]. destruct ok; exact H. }
      pose proof (Hstep r0 paren Hc Hp Hcc) as H. destruct (next r0) as [ok r2]. destruct ok; exact H.
  Qed.

  Definition Restart (r0 : reader) (a : Z) : Prop :=
    forall j, 0 <= j < len U -> istart (nU j) <= r_pos r0 -> RS false (newReader src (from_ U j) a).

  Lemma parseLinkDestination_spec fuel s r : RS s r -> (Z.to_nat P < fuel)%nat ->
    let '(dspan, dtext, r') := parseLinkDestination fuel r in
    DT r dspan dtext r' /\ (spanValid dspan = true -> Restart r (fst dtext)).
  Proof.
    intros HR Hf. unfold parseLinkDestination. pose proof (RS_pos0 src U lo hi HEC s r HR) as Hp0. stepc.
    destruct (Z.eqb_spec c 60) as [E60|N60].
    - pose proof (ld_angle_spec fuel s r0 (r_pos r0) Hc ltac:(lia)) as H. destruct (ld_angle fuel r0 (r_pos r0)) as [[dspan dtext] r'].
      destruct H as (H1 & H2 & H3). split.
      + split; [exact H1|]. split; [lia|]. intros Hvalid. destruct (H3 Hvalid) as ((k & A) & J1 & J2 & J3 & J4 & J5 & J6). rewrite J5. cbn [fst snd].
        repeat split; try lia. exact J6.
      + intros Hvalid. destruct (H3 Hvalid) as ((k & A) & J1 & J2 & J3 & J4 & J5 & J6). rewrite J5. cbn [fst].
        intros j Hj Hjp. pose proof (alive_index_ge j r0 k Hj ltac:(lia) A) as Hk.
        apply (RS_after j r0 k c A Hcc); [lia|rewrite E60; reflexivity|lia].
    - destruct (negb (isASCIIControl c) && negb (c =? 32) && negb (c =? 41)).
      + destruct (ld_bare_spec fuel s r0 0 Hc ltac:(lia)) as (B1 & B2 & B3). cbn [fst snd].
        pose proof (RS_pos src U lo hi HEC false _ B1) as HP1. split.
        * split; [exact B1|]. split; [lia|]. intros _. cbn [fst snd]. repeat split; try lia. exact B3.
        * intros _ j Hj Hjp. cbn [fst]. apply (RS_restart j s r0 Hj ltac:(lia) Hc).
      + split; [split; [apply (RS_weaken src U s); exact Hc|split; [lia|rewrite spanValid_null; discriminate]]|rewrite spanValid_null; discriminate].
  Qed.

  Lemma lt_loop_spec term : entChar term = false -> term < 128 -> term <> 32 -> isSpaceTabOrLineEnding term = false -> term <> 0 ->
    forall fuel s r start, RS s r -> start <= r_pos r ->
    let '(tspan, ttext, r') := lt_loop fuel r start term in
    RS false r' /\ r_pos r <= r_pos r' /\
    (spanValid tspan = true -> (exists k, AliveAt r k) /\ fst tspan = start /\ start <= snd tspan /\ snd tspan <= r_pos r' /\ snd tspan <= P /\
        ttext = (start + 1, snd tspan - 1) /\ NoEnt (snd tspan - 1)).
  Proof.
    intros Ht1 Ht2 Ht3 Ht4 Ht5. induction fuel as [|f IH]; intros s r start HR Hst; cbn [lt_loop].
    - split; [apply (RS_weaken src U s); exact HR|]. split; [lia|rewrite spanValid_null; discriminate].
    - stepn. destruct ok; cbn [negb]; [|split; [exact Hn|split; [lia|rewrite spanValid_null; discriminate]]].
      destruct (Hok eq_refl) as (Hr0 & Hpv & Hal & _). stepc.
      destruct (Z.eqb_spec c 92) as [E92|N92].
      + stepn. destruct ok; cbn [negb]; [|split; [exact Hn0|split; [lia|rewrite spanValid_null; discriminate]]].
        destruct (Hok0 eq_refl) as (Hr2 & _).
        match goal with |- context [lt_loop f ?rr start term] =>
          pose proof (IH true rr start ltac:(assumption) ltac:(lia)) as HI; destruct (lt_loop f rr start term) as [[tspan ttext] r'] end.
        destruct HI as (I1 & I2 & I3).
        split; [exact I1|]. split; [lia|]. intros Hvalid. destruct (I3 Hvalid) as (_ & J). split; [exact Hal|exact J].
      + destruct (Z.eqb_spec c term) as [Et|Nt].
        * destruct (Hs eq_refl ltac:(rewrite Et; exact Ht5) ltac:(rewrite Et; exact Ht4)) as (k & A).
          pose proof (alive_pos src U lo hi HEC r1 k A) as (A1 & A2 & A3 & _).
          destruct (cur_src r1 k c A Hcc ltac:(lia) ltac:(lia)) as (Esrc & Ni).
          pose proof (next_prev_alive r1 k A) as Epv. pose proof (next_strict_any r1 k A Ni) as Est.
          stepn. cbn [fst snd] in *. split; [exact Hn0|]. split; [lia|]. intros _. split; [exact Hal|].
          rewrite Epv. split; [reflexivity|]. split; [lia|]. split; [lia|]. split; [lia|]. split; [f_equal; lia|].
          replace (r_pos r1 + 1 - 1) with (r_pos r1) by lia.
          apply (NoEnt_read true r1 c Hc Hcc); [rewrite Et; exact Ht1|lia].
        * match goal with |- context [lt_loop f ?rr start term] =>
            pose proof (IH true rr start ltac:(assumption) ltac:(lia)) as HI; destruct (lt_loop f rr start term) as [[tspan ttext] r'] end.
          destruct HI as (I1 & I2 & I3).
          split; [exact I1|]. split; [lia|]. intros Hvalid. destruct (I3 Hvalid) as (_ & J). split; [exact Hal|exact J].
  Qed.

  Lemma parseLinkTitle_spec fuel s r : RS s r ->
    let '(tspan, ttext, r') := parseLinkTitle fuel r in
    DT r tspan ttext r' /\ (spanValid tspan = true -> Restart r (fst ttext)).
  Proof.
    intros HR. unfold parseLinkTitle. pose proof (RS_pos0 src U lo hi HEC s r HR) as Hp0. stepc.
    destruct ((c =? 39) || (c =? 34) || (c =? 40)) eqn:Eq; cbn [negb].
    2:{ split; [split; [apply (RS_weaken src U s); exact Hc|split; [lia|rewrite spanValid_null; discriminate]]|rewrite spanValid_null; discriminate]. }
    set (term := if c =? 40 then 41 else c).
    assert (Hterm : entChar term = false /\ term < 128 /\ term <> 32 /\ isSpaceTabOrLineEnding term = false /\ c <> 32 /\ isEOLb c = false /\ term <> 0).
    { unfold term. destruct (Z.eqb_spec c 40) as [->|N40]; [repeat split; discriminate|].
      destruct (Z.eqb_spec c 39) as [->|N39]; [repeat split; discriminate|]. destruct (Z.eqb_spec c 34) as [->|N34]; [repeat split; discriminate|]. discriminate. }
    destruct Hterm as (T1 & T2 & T3 & T4 & T5 & T6 & T7).
    pose proof (lt_loop_spec term T1 T2 T3 T4 T7 fuel s r0 (r_pos r0) Hc ltac:(lia)) as H.
    destruct (lt_loop fuel r0 (r_pos r0) term) as [[tspan ttext] r']. destruct H as (H1 & H2 & H3). split.
    - split; [exact H1|]. split; [lia|]. intros Hvalid. destruct (H3 Hvalid) as ((k & A) & J1 & J2 & J3 & J4 & J5 & J6). rewrite J5. cbn [fst snd].
      repeat split; try lia. exact J6.
    - intros Hvalid. destruct (H3 Hvalid) as ((k & A) & J1 & J2 & J3 & J4 & J5 & J6). rewrite J5. cbn [fst].
      intros j Hj Hjp. pose proof (alive_index_ge j r0 k Hj ltac:(lia) A) as Hk.
      apply (RS_after j r0 k c A Hcc); [exact T5|exact T6|lia].
  Qed.

  Lemma textKids_okF fuel j (text : Z * Z) lo2 hi2 : RS false (newReader src (from_ U j) (fst text)) -> (Z.to_nat P + 4 <= fuel)%nat -> NoEnt (snd text) ->
    lo2 <= fst text -> snd text <= hi2 -> lo2 <= hi2 ->
    okF lo2 hi2 (if spanValid text then kidsOf (collectTextNodes fuel (newReader src (from_ U j) (fst text)) (snd text) TextKind true) else []).
  Proof.
    intros HR Hf Hne H1 H2 H3. destruct (spanValid text); [|cbn; exact H3].
    apply (collect_new_okF src U lo hi HEC); try assumption. intros _. exact Hne.
  Qed.

  Lemma optSkip_spec fuel (b : bool) r : RS false r ->
    RS false (snd (if b then skipLinkSpace fuel r else (true, r))) /\ r_pos r <= r_pos (snd (if b then skipLinkSpace fuel r else (true, r))).
  Proof.
    intros HR. destruct b; [|cbn [snd]; split; [exact HR|lia]].
    destruct (skipLinkSpace_spec fuel false r HR) as (A & B & _). split; assumption.
  Qed.

  Theorem SpecInline_holds : SpecInline src U.
  Proof.
    intros st s HE Hs H40. destruct (inEntry_reader st (s - 1) HE) as (Eu & Es & Hj & Hp & Hse). rewrite Hse in Hs.
    unfold parseInlineLink. rewrite Es, Eu.
    set (j := upos st) in *. set (fuel := rfuelOf st).
    assert (Hfuel : (Z.to_nat P + 4 <= fuel)%nat) by (apply (fuel_ok st j); assumption).
    destruct (eb src U lo hi HEC j Hj) as (Bj1 & Bj2 & Bj3). pose proof (ec_lo _ _ _ _ HEC) as Hlo.
    assert (HR0 : RS false (newReader src (from_ U j) (s + 1))).
    { destruct (Z.lt_ge_cases (s + 1) (iend (nU j))) as [L|L]; [apply (RS_new src U lo hi HEC false (s + 1) j j); lia|].
      assert (Ni : ikind (nU j) <> IndentKind) by (intros Ei; pose proof (ec_width _ _ _ _ HEC j Hj Ei); lia).
      assert (Hlast : j + 1 = len U).
      { destruct (Z.eq_dec (j + 1) (len U)) as [X|X]; [exact X|]. exfalso. destruct (ec_eol _ _ _ _ HEC j ltac:(lia) ltac:(lia)) as (_ & He). specialize (He Ni).
        replace (iend (nU j) - 1) with s in He by lia. rewrite H40 in He. discriminate. }
      assert (HN : U <> []) by (apply (U_ne j); lia).
      replace (s + 1) with P by (rewrite (P_last src U lo hi HEC HN); replace (len U - 1) with j by lia; lia).
      pose proof (P_ge src U lo hi HEC j Hj) as Pg. apply RS_at_P; lia. }
    destruct (skipLinkSpace_spec fuel false _ HR0) as (K1 & K2 & _). cbn [r_pos newReader] in K2.
    destruct (skipLinkSpace fuel (newReader src (from_ U j) (s + 1))) as [ok r1]. cbn [fst snd] in *.
    destruct ok; cbn [negb]; [|cbn; discriminate].
    pose proof (parseLinkDestination_spec fuel false r1 K1 ltac:(lia)) as HD.
    destruct (parseLinkDestination fuel r1) as [[dspan dtext] r2]. destruct HD as ((D1 & D2 & D3) & D4).
    destruct (optSkip_spec fuel (spanValid dspan) r2 D1) as (O1 & O2).
    destruct (if spanValid dspan then skipLinkSpace fuel r2 else (true, r2)) as [ok2 r3]. cbn [fst snd] in *.
    destruct ok2; cbn [negb]; [|cbn; discriminate].
    pose proof (parseLinkTitle_spec fuel false r3 O1) as HTt.
    destruct (parseLinkTitle fuel r3) as [[tspan ttext] r4]. destruct HTt as ((T1 & T2 & T3) & T4).
    destruct (optSkip_spec fuel (spanValid tspan) r4 T1) as (Q1 & Q2).
    destruct (if spanValid tspan then skipLinkSpace fuel r4 else (true, r4)) as [ok3 r5]. cbn [fst snd] in *.
    destruct ok3; cbn [negb]; [|cbn; discriminate].
    destruct (RS_current src U lo hi HEC false r5 Q1) as (_ & Ep5 & _ & H41 & _). unfold cur.
    destruct (Z.eqb_spec (fst (current r5)) 41) as [E41|N41]; cbn [negb]; [|cbn; discriminate].
    destruct (H41 E41) as (k5 & A5). pose proof (alive_pos src U lo hi HEC _ _ A5) as (_ & _ & AP5 & _). rewrite Ep5 in AP5.
    intros _. cbn [fst snd]. split; [lia|]. split; [unfold SpanRdr.P in AP5; lia|].
    (* the extra children *)
    unfold linkExtras.
    assert (HDn : spanValid dspan = true -> okN (destNode src fuel (from_ U j) dspan dtext) /\ s <= fst dspan /\ snd dspan <= r_pos r2).
    { intros Hv. destruct (D3 Hv) as (E1 & E2 & E3 & E4 & E5 & E6 & E7). split; [|lia]. unfold destNode. apply okN_eq.
      split; [lia|]. split; [lia|]. apply textKids_okF; try assumption; try lia. apply (D4 Hv j Hj). cbn [r_pos newReader] in *. lia. }
    assert (HTn : spanValid tspan = true -> okN (titleNode src fuel (from_ U j) tspan ttext) /\ r_pos r3 <= fst tspan /\ snd tspan <= r_pos r4).
    { intros Hv. destruct (T3 Hv) as (E1 & E2 & E3 & E4 & E5 & E6 & E7). split; [|lia]. unfold titleNode.
      pose proof (RS_pos0 src U lo hi HEC false r3 O1). apply okN_eq.
      split; [lia|]. split; [lia|]. apply textKids_okF; try assumption; try lia. apply (T4 Hv j Hj). lia. }
    assert (Epd : forall a b, pe (destNode src fuel (from_ U j) a b) = snd a /\ ps (destNode src fuel (from_ U j) a b) = fst a) by (intros; split; reflexivity).
    assert (Ept : forall a b, pe (titleNode src fuel (from_ U j) a b) = snd a /\ ps (titleNode src fuel (from_ U j) a b) = fst a) by (intros; split; reflexivity).
    destruct (spanValid dspan) eqn:Ed; destruct (spanValid tspan) eqn:Et; cbn [app okF].
    - destruct (HDn eq_refl) as (N1 & N2 & N3). destruct (HTn eq_refl) as (M1 & M2 & M3).
      destruct (Epd dspan dtext) as [-> ->]. destruct (Ept tspan ttext) as [-> ->].
      split; [lia|]. split; [exact N1|]. split; [lia|]. split; [exact M1|lia].
    - destruct (HDn eq_refl) as (N1 & N2 & N3). destruct (Epd dspan dtext) as [-> ->].
      split; [lia|]. split; [exact N1|lia].
    - destruct (HTn eq_refl) as (M1 & M2 & M3). destruct (Ept tspan ttext) as [-> ->].
      split; [lia|]. split; [exact M1|lia].
    - lia.
  Qed.
End Scan.
