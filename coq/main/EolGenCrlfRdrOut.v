From Coq Require Import List ZArith Lia Bool.
Import ListNotations.
Require Import Base Tree Rdr Link Collect LP Leaf3e RdrBound BSDef BSRdr BSRdr2 ShRdr ShapesBase ShapesR IFBase IFLink LADef
  EolCRLFDefs EolCRLFSimBytes EolCRLFSimTree EolGenCrlfRdrDefs EolGenCrlfRdrTlr EolGenCrlfRdrOcp EolGenCrlfRdrMain.
Open Scope Z_scope.

(* C14 (ii): what onCloseParagraph returns, on ONE run, for an arbitrary orphan argument:
   every definition block is closed and its three entries start at non-negative offsets. *)

Lemma spW_sortedS src : forall sp, spW src sp = true -> sortedS sp.
Proof.
  induction sp as [|u sp IH]; intros H; [exact I|]. pose proof (spW_cons _ _ _ H) as (_ & _ & _ & D & G). split; [exact D|apply IH, G].
Qed.

(* the label: the inner span starts after the opening bracket *)
Lemma parseLinkLabel_inner src f r : PL src r -> spanValid (fst (fst (parseLinkLabel f r))) = true ->
  fst (fst (fst (parseLinkLabel f r))) <= fst (snd (fst (parseLinkLabel f r))).
Proof.
  intros H. unfold parseLinkLabel. destruct (current r) as [c r0] eqn:Ec.
  assert (H0 : PL src r0) by (replace r0 with (snd (current r)) by (rewrite Ec; reflexivity); apply PL_current, H).
  destruct (negb (c =? 91)); [cbn; discriminate|].
  destruct (ll_skip f r0 0) as [[r1 ch]|] eqn:E1; [|cbn; discriminate].
  destruct (ll_skip_prog src f r0 0 r1 ch H0 E1) as (_ & Hp & _).
  destruct (ll_body f r1 ch (-1)) as [[r2 ie]|]; [|cbn; discriminate].
  destruct (current r2) as [c2 r3]. destruct (negb (c2 =? 93)); [cbn; discriminate|]. destruct (next r3) as [ok r4]. cbn [fst snd]. intros _. exact Hp.
Qed.

Section OutAll.
  Variable Q : block -> Prop.
  Variable O : block -> Prop.
  Hypothesis Q_def : forall s e kids, 0 <= e -> Forall (fun u => 0 <= istart u) kids -> Q (refDefBlock s e kids).
  Hypothesis O_Q : forall o, O o -> Q o.
  Hypothesis O_cut : forall o pos fc, O o -> O (set_bik (set_bstart o pos) (from_ (bik o) fc)).

  Lemma Forall_snocQ l x : Forall Q l -> Q x -> Forall Q (l ++ [x]).
  Proof. intros A B. apply Forall_app. split; [exact A|constructor; [exact B|constructor]]. Qed.

  Lemma ocp_loop_out : forall fuel rf src orig orphan r result,
    O orig -> (forall o, orphan = Some o -> Q o) -> Forall Q result -> good r -> PL src r -> LB 0 r ->
    Forall Q (ocp_loop fuel rf src orig orphan r result).
  Proof.
    induction fuel as [|f IH]; intros rf src orig orphan r result Ho Horph Hr Hg HPL HLB; [apply Forall_snocQ; [exact Hr|apply O_Q, Ho]|].
    rewrite ocp_loop_S.
    assert (H0 : Forall Q (result ++ [orig])) by (apply Forall_snocQ; [exact Hr|apply O_Q, Ho]).
    assert (HWO : forall res, Forall Q res -> Forall Q (withOrph orphan res)).
    { intros res Hres. unfold withOrph. destruct orphan as [o|]; [apply Forall_snocQ; [exact Hres|apply Horph; reflexivity]|exact Hres]. }
    destruct (parseLinkLabel_spec rf r Hg) as (Hg1 & Ha1 & Hv1). pose proof (parseLinkLabel_inner src rf r HPL) as Hin.
    destruct (parseLinkLabel_prog src rf r HPL) as (HPL1 & _).
    destruct (parseLinkLabel rf r) as [[lspan linner] r1]. cbn [fst snd] in Hg1, Ha1, Hv1, Hin, HPL1.
    destruct (negb (spanValid lspan)) eqn:Ev; [exact H0|]. apply negb_false_iff in Ev. destruct (Hv1 Ev) as [Es L1]. specialize (Hin Ev).
    assert (Hs0 : 0 <= fst lspan) by (rewrite Es; apply HLB).
    assert (L1' : LB 0 r1) by (eapply LB_adv; [exact HLB|exact Ha1]).
    destruct (good_current' r1 Hg1) as [Hg2 Ha2]. pose proof (PL_current src r1 HPL1) as HPL2.
    destruct (current r1) as [c r2]. cbn [snd] in Hg2, Ha2, HPL2. destruct (negb (c =? 58)); [exact H0|].
    destruct (good_next' r2 Hg2) as [Hg3 Ha3]. destruct (next_W src r2 HPL2) as (HPL3 & _).
    destruct (next r2) as [? r3]. cbn [snd] in Hg3, Ha3, HPL3.
    destruct (good_skipLinkSpace rf r3 Hg3) as [Hg4 Ha4]. destruct (skipLinkSpace_prog src rf r3 HPL3) as (HPL4 & _).
    destruct (skipLinkSpace rf r3) as [ok1 r4]. cbn [snd] in Hg4, Ha4, HPL4. destruct (negb ok1); [exact H0|].
    destruct (good_parseLinkDestination rf r4 Hg4) as [Hg5 Ha5]. destruct (parseLinkDestination_prog src rf r4 HPL4) as (HPL5 & _).
    destruct (parseLinkDestination rf r4) as [[dspan dtext] r5]. cbn [snd] in Hg5, Ha5, HPL5.
    destruct (negb (spanValid dspan)) eqn:Evd; [exact H0|]. apply negb_false_iff in Evd.
    assert (Hd0s : 0 <= fst dspan).
    { unfold spanValid in Evd. apply andb_true_iff in Evd. destruct Evd as [Evd _]. apply andb_true_iff in Evd. destruct Evd as [Evd _]. apply Z.leb_le in Evd. exact Evd. }
    assert (L5 : LB 0 r5).
    { eapply LB_adv; [|exact Ha5]. eapply LB_adv; [|exact Ha4]. eapply LB_adv; [|exact Ha3]. eapply LB_adv; [|exact Ha2]. exact L1'. }
    destruct (readEOL_spec rf r5 Hg5) as (Hg6 & Ha6 & _). destruct (readEOL_prog src rf r5 HPL5) as (HPL6 & _).
    pose proof (readEOL_shape rf r5) as Hsh.
    destruct (readEOL rf r5) as [destEOL r6]. cbn [fst snd] in Hg6, Ha6, HPL6, Hsh.
    assert (L6 : LB 0 r6) by (eapply LB_adv; eassumption).
    destruct (good_current' r6 Hg6) as [Hg7 Ha7]. pose proof (PL_current src r6 HPL6) as HPL7. pose proof (current_idem r6) as Hi6.
    destruct (current r6) as [c6 r7]. cbn [fst snd] in Hg7, Ha7, HPL7, Hi6, Hsh.
    destruct (_ && _ && _); [exact H0|]. cbv zeta.
    set (lab := ocpLabel rf src (bik orig) linner). set (dst := ocpPart LinkDestinationKind rf src (bik orig) dspan dtext).
    assert (Hk2 : Forall (fun u => 0 <= istart u) [lab; dst]).
    { constructor; [unfold lab, ocpLabel; cbn [istart]; lia|]. constructor; [unfold dst, ocpPart; cbn [istart]; exact Hd0s|constructor]. }
    destruct (good_skipLinkSpace rf r7 Hg7) as [Hg8 Ha8]. destruct (skipLinkSpace_prog src rf r7 HPL7) as (HPL8 & _).
    pose proof (skipLinkSpace_true rf r7) as Hsl. rewrite Hi6 in Hsl.
    destruct (skipLinkSpace rf r7) as [ok2 r8]. cbn [fst snd] in Hg8, Ha8, HPL8, Hsl.
    assert (Hd0 : ok2 = false \/ (destEOL <? 0) = false -> 0 <= destEOL).
    { intros Hc. destruct Hsh as [(E1 & N0 & Nw)|[E1|E1]]; [|destruct L6; lia|destruct L6; lia].
      destruct Hc as [Hc|Hc]; [rewrite (Hsl N0 Nw) in Hc; discriminate|apply Z.ltb_ge in Hc; exact Hc]. }
    assert (H1 : ok2 = false \/ (destEOL <? 0) = false -> Forall Q (result ++ [refDefBlock (fst lspan) destEOL [lab; dst]])).
    { intros Hc. apply Forall_snocQ; [exact Hr|apply Q_def; [apply Hd0, Hc|exact Hk2]]. }
    destruct ok2; cbn [negb]; [|apply HWO, H1; left; reflexivity].
    destruct (good_parseLinkTitle rf r8 Hg8) as [Hg9 Ha9]. destruct (parseLinkTitle_prog src rf r8 HPL8) as (HPL9 & _).
    destruct (parseLinkTitle rf r8) as [[tspan ttext] r9]. cbn [snd] in Hg9, Ha9, HPL9.
    destruct (negb (spanValid tspan)) eqn:Evt.
    { destruct (destEOL <? 0) eqn:Ed; [exact H0|]. unfold ocpCut. cbv zeta. destruct (nodeIndexForPosition (bik orig) (r_pos r6) <? 0); [apply HWO, H1; right; reflexivity|].
      apply IH; try assumption; [apply O_cut, Ho|apply H1; right; reflexivity]. }
    apply negb_false_iff in Evt.
    assert (Ht0s : 0 <= fst tspan).
    { unfold spanValid in Evt. apply andb_true_iff in Evt. destruct Evt as [Evt _]. apply andb_true_iff in Evt. destruct Evt as [Evt _]. apply Z.leb_le in Evt. exact Evt. }
    assert (L9 : LB 0 r9).
    { eapply LB_adv; [|exact Ha9]. eapply LB_adv; [|exact Ha8]. eapply LB_adv; [|exact Ha7]. exact L6. }
    destruct (readEOL_spec rf r9 Hg9) as (Hg10 & Ha10 & _). destruct (readEOL_prog src rf r9 HPL9) as (HPL10 & _).
    destruct (readEOL rf r9) as [titleEOL r10]. cbn [fst snd] in Hg10, Ha10, HPL10.
    assert (L10 : LB 0 r10) by (eapply LB_adv; eassumption).
    destruct (titleEOL <? 0) eqn:Et.
    { destruct (destEOL <? 0) eqn:Ed; [exact H0|]. unfold ocpCut. cbv zeta. destruct (nodeIndexForPosition (bik orig) (r_pos r6) <? 0); [apply HWO, H1; right; reflexivity|].
      rewrite app_assoc. apply Forall_snocQ; [apply H1; right; reflexivity|apply O_Q, O_cut, Ho]. }
    apply Z.ltb_ge in Et.
    set (ttl := ocpPart LinkTitleKind rf src (bik orig) tspan ttext).
    assert (H3 : Forall Q (result ++ [refDefBlock (fst lspan) titleEOL [lab; dst; ttl]])).
    { apply Forall_snocQ; [exact Hr|apply Q_def; [exact Et|]]. inversion Hk2 as [|? ? A1 A2]; subst. inversion A2 as [|? ? A3 _]; subst.
      constructor; [exact A1|]. constructor; [exact A3|]. constructor; [unfold ttl, ocpPart; cbn [istart]; exact Ht0s|constructor]. }
    destruct (nodeIndexForPosition (bik orig) (r_pos r10) <? 0); [apply HWO, H3|]. apply IH; try assumption. apply O_cut, Ho.
  Qed.
End OutAll.

(* ---------------------------------------------------------------- instances *)
Lemma skipSpTabIdx_bounds src : forall f i, i <= skipSpTabIdx f src i /\ (i <= len src -> skipSpTabIdx f src i <= len src).
Proof.
  induction f as [|f IH]; intros i; cbn [skipSpTabIdx]; [lia|]. destruct (isSpTab (at_ src i)) eqn:Es; [|lia].
  assert (Hlt : i < len src).
  { destruct (Z.lt_ge_cases i (len src)) as [L|L]; [exact L|]. rewrite at_beyond in Es by lia. discriminate Es. }
  destruct (IH (i + 1)) as [A B]. split; [lia|intros _; apply B; lia].
Qed.
Lemma PL_good_new src ik first rest : spW src ik = true -> ik = first :: rest ->
  good (newReader src ik (istart first)) /\ PL src (newReader src ik (istart first)) /\ LB 0 (newReader src ik (istart first)).
Proof.
  intros A E. assert (H0 : 0 <= istart first) by (subst ik; pose proof (spW_cons _ _ _ A) as (Q & _); exact Q).
  split; [split; [apply (spW_sortedS src), A|left; cbn [newReader r_prev r_pos]; lia]|]. split; [apply PL_new, A|]. split; cbn [newReader r_prev r_pos]; lia.
Qed.
Lemma last_rev_iend (ik : list inline) : match rev ik with l :: _ => iend l | [] => 0 end = match ik with [] => 0 | _ => endOf ik end.
Proof.
  destruct ik as [|u r]; [reflexivity|]. destruct (exists_last (l := u :: r) ltac:(discriminate)) as (l' & x & E). rewrite E.
  rewrite rev_app_distr. cbn [rev app]. unfold endOf. rewrite last_last. destruct (l' ++ [x]) eqn:E2; [destruct l'; discriminate E2|reflexivity].
Qed.

(* (b) every entry start in the outputs is >= 0 *)
Theorem onCloseParagraph_nn R b : PEc R (bik b) -> nnB b = true -> forallb nnB (onCloseParagraph R b) = true.
Proof.
  intros HP Hn.
  assert (H1 : forallb nnB [b] = true) by (cbn [forallb]; rewrite Hn; reflexivity).
  destruct HP as [HP|(a & Ea & Ha)]; [|rewrite (EolGenCrlfRdrMain.ocp_single_empty R b a Ea); exact H1].
  destruct HP as (A & _). unfold onCloseParagraph. destruct (bik b) as [|first rest] eqn:Eik; [exact H1|]. cbv zeta. rewrite <- Eik in *.
  apply forallb_forall. apply Forall_forall.
  destruct (PL_good_new R (bik b) first rest A Eik) as (G1 & G2 & G3).
  apply (ocp_loop_out (fun y => nnB y = true) (fun o => nnB o = true)); try assumption; try constructor.
  - intros s e kids _ Hk. unfold refDefBlock. cbn [nnB forallb]. rewrite andb_true_r. apply forallb_forall. intros u Hu. rewrite Forall_forall in Hk. apply Z.leb_le, Hk, Hu.
  - intros o Ho. exact Ho.
  - intros o pos fc Ho. rewrite nnB_eq in Ho |- *. apply andb_true_iff in Ho. destruct Ho as [Ho1 Ho2].
    replace (bik (set_bik (set_bstart o pos) (from_ (bik o) fc))) with (from_ (bik o) fc) by (destruct o; reflexivity).
    replace (bkids (set_bik (set_bstart o pos) (from_ (bik o) fc))) with (bkids o) by (destruct o; reflexivity).
    rewrite Ho2, andb_true_r. apply forallb_forall. intros u Hu. rewrite forallb_forall in Ho1. apply Ho1.
    unfold from_ in Hu. rewrite <- (firstn_skipn (Z.to_nat fc) (bik o)). apply in_or_app. right. exact Hu.
  - intros o Eo. destruct (bkind b =? SetextHeadingKind); [|discriminate Eo]. inversion Eo; subst o. cbn [nnB forallb]. rewrite !andb_true_r.
    unfold nnI, mkI. cbn [istart]. apply Z.leb_le. rewrite last_rev_iend, Eik. rewrite <- Eik.
    assert (Hin : In (last (bik b) (mkI 0 0 0)) (bik b)).
    { destruct (exists_last (l := bik b) ltac:(rewrite Eik; discriminate)) as (l' & x & E). rewrite E, last_last. apply in_or_app. right. left. reflexivity. }
    destruct (spW_in R _ _ A Hin) as (E1 & E2 & _). destruct (skipSpTabIdx_bounds R (length R) (endOf (bik b))) as [Q _]. unfold endOf in *. lia.
Qed.
Print Assumptions onCloseParagraph_nn.

(* the shape of the setext orphan (same text as EolCRLFGenHyp.orphanShape) *)
Definition orphanShape' (R : bytes) (b y : block) : Prop :=
  bkind b = SetextHeadingKind /\ bkind y = ParagraphKind /\ bend y < 0 /\ bkids y = [] /\
  exists a, bik y = [mkI UnparsedKind a (bend b)] /\ 0 <= a <= len R.

(* (3) every output is closed, except the setext orphan; children are kept or absent; a closed paragraph-kind output
   (the rest of the paragraph / setext heading) has again acceptable entries; kinds *)
Theorem onCloseParagraph_out R b y : PEc R (bik b) -> 0 <= bend b -> In y (onCloseParagraph R b) ->
  (bkids y = bkids b \/ bkids y = []) /\
  ((0 <= bend y /\ (isParaK (bkind y) = true -> PEc R (bik y))) \/ orphanShape' R b y) /\
  (bkind y = LinkReferenceDefinitionKind \/ bkind y = bkind b \/ orphanShape' R b y).
Proof.
  intros HP He.
  set (Q := fun y => (bkids y = bkids b \/ bkids y = []) /\
                     ((0 <= bend y /\ (isParaK (bkind y) = true -> PEc R (bik y))) \/ orphanShape' R b y) /\
                     (bkind y = LinkReferenceDefinitionKind \/ bkind y = bkind b \/ orphanShape' R b y)).
  assert (Hb : Q b) by (split; [left; reflexivity|split; [left; split; [exact He|intros _; exact HP]|right; left; reflexivity]]).
  assert (H1 : Forall Q [b]) by (constructor; [exact Hb|constructor]).
  cut (Forall Q (onCloseParagraph R b)); [intros HF Hy; rewrite Forall_forall in HF; exact (HF y Hy)|].
  pose proof HP as HP0.
  destruct HP as [HP|(a & Ea & Ha)]; [|rewrite (EolGenCrlfRdrMain.ocp_single_empty R b a Ea); exact H1].
  destruct HP as (A & _). unfold onCloseParagraph. destruct (bik b) as [|first rest] eqn:Eik; [exact H1|]. cbv zeta. rewrite <- Eik in *.
  destruct (PL_good_new R (bik b) first rest A Eik) as (G1 & G2 & G3).
  apply (ocp_loop_out Q (fun o => bkids o = bkids b /\ bend o = bend b /\ bkind o = bkind b /\ PEc R (bik o))); [| | |repeat split; try reflexivity; exact HP0| |constructor|exact G1|exact G2|exact G3].
  - intros s e kids H0 _. split; [right; reflexivity|]. split; [left; split; [exact H0|intros X; discriminate X]|left; reflexivity].
  - intros o (O1 & O2 & O3 & O4). split; [left; exact O1|]. split; [left; split; [rewrite O2; exact He|intros _; exact O4]|right; left; exact O3].
  - intros o pos fc (O1 & O2 & O3 & O4). pose proof (PEc_from R (bik o) fc O4) as O5. destruct o; exact (conj O1 (conj O2 (conj O3 O5))).
  - intros o Eo. destruct (Z.eqb_spec (bkind b) SetextHeadingKind) as [Ks|Ks]; [|discriminate Eo]. inversion Eo; subst o.
    assert (OS : orphanShape' R b (Blk ParagraphKind match rev (bik b) with l :: _ => iend l | [] => 0 end (-1) []
                    [mkI UnparsedKind (skipSpTabIdx (length R) R match rev (bik b) with l :: _ => iend l | [] => 0 end) (bend b)] 0 0 0 false false)).
    { split; [exact Ks|]. split; [reflexivity|]. split; [cbn [bend]; lia|]. split; [reflexivity|]. eexists. split; [reflexivity|].
      rewrite last_rev_iend, Eik. rewrite <- Eik.
      assert (Hin : In (last (bik b) (mkI 0 0 0)) (bik b)).
      { destruct (exists_last (l := bik b) ltac:(rewrite Eik; discriminate)) as (l' & x & E). rewrite E, last_last. apply in_or_app. right. left. reflexivity. }
      destruct (spW_in R _ _ A Hin) as (E1 & E2 & E3). destruct (skipSpTabIdx_bounds R (length R) (endOf (bik b))) as [Q1 Q2]. unfold endOf in *. specialize (Q2 E3). lia. }
    split; [right; reflexivity|]. split; right; [exact OS|right; exact OS].
Qed.
Print Assumptions onCloseParagraph_out.
