From Coq Require Import List ZArith Lia Bool.
Import ListNotations.
Require Import Base Tables Utf8 Tree Rdr Link Collect Html Recog LP Rules Starts Driver Inl3a Inl3b Inl3c Inl3d Inl3e Props.
Require L2Kind2.
Require Import ShapesBase ShapesR ShapesComp3 GramInline EntBase EntDefs En2Tree EntriesOK ComposeBase IFBase IFTitle IFTokDef IFTokTf IFPe IFTk5 IFEmpty IFTokAux InlineFuel InlineFuelAll.
Require Import EolCRLFDefs EolCRLFSimBytes EolCRLFSimStream EolCRLFGen EolGenCrlfRdrDefs EolGenCrlfRdrStep EolCRLFFullNode EolCRLFFullSt EolCRLFFullTok2.
Open Scope Z_scope.

(* ====================================================================================================
   C14 (ii), CRLF clause on the whole parse: for an input without CR (under the label-limit condition of
   the block layer), replacing every LF by CR LF maps what parseFull returns -- block trees AFTER the
   inline pass -- by the position map: parseFull (crlf s) = map (phiRoot s) (parseFull s).
   ==================================================================================================== *)

(* ---- every root's Source is a NUL-filled piece of the padded input ---- *)
Section Pieces.
  Variable B0 : bytes.
  Definition piece (l : bytes) : Prop := exists k n, l = firstn n (skipn k B0).
  Definition sufB (s : bpst) : Prop := exists k, buf s = skipn k B0.
  Definition nbS (x : nb) : Prop :=
    match x with NBBlock r s' => (exists l, piece l /\ rb_src r = fillNulls l) /\ sufB s' | _ => True end.
  Lemma sufB_from s n v1 v2 v3 v4 : sufB s -> sufB {| buf := from_ (buf s) n; bi := v1; boff := v2; bline := v3; pending := v4 |}.
  Proof. intros (k & E). exists (Z.to_nat n + k)%nat. cbn [buf]. unfold from_. rewrite E, skipn_skipn. reflexivity. Qed.
  Lemma makeRoot_piece ch s r s' : sufB s -> makeRoot ch s = Some (r, s') -> (exists l, piece l /\ rb_src r = fillNulls l) /\ sufB s'.
  Proof.
    intros HS. unfold makeRoot. destruct ch as [|b rest]; [discriminate|]. destruct (isOpen b); [discriminate|]. intros E. inversion E; subst. cbn [rb_src].
    split; [|apply sufB_from, HS]. destruct HS as (k & Ek). exists (upto (buf s) (bend b)). split; [|reflexivity]. exists k, (Z.to_nat (bend b)). unfold upto. rewrite Ek. reflexivity.
  Qed.
  Lemma lineLoop_piece : forall fuel st ch ls s, sufB s -> nbS (lineLoop fuel st ch ls s).
  Proof.
    induction fuel as [|f IH]; intros st ch ls s HS; [exact I|]. cbn [lineLoop].
    destruct (processLine st ch ls (upto (buf s) (bi s))) as [[ch' st'] pn]. destruct (negb (pn =? 0)); [exact I|].
    destruct (makeRoot ch' s) as [[r s']|] eqn:Em; [exact (makeRoot_piece _ _ _ _ HS Em)|]. apply IH. exact HS.
  Qed.
  Lemma skipLoop_piece : forall fuel s, sufB s -> nbS (skipLoop fuel s).
  Proof.
    induction fuel as [|f IH]; intros s HS; [exact I|]. cbn [skipLoop]. cbv zeta. destruct (negb _); [exact I|]. destruct (isBlankLine _).
    - apply IH, sufB_from, HS.
    - apply lineLoop_piece. exact HS.
  Qed.
  Lemma nextBlock_piece fuel s : sufB s -> nbS (nextBlock fuel s).
  Proof.
    intros HS. unfold nextBlock. destruct (makeRoot (pending s) s) as [[r s']|] eqn:Em; [exact (makeRoot_piece _ _ _ _ HS Em)|].
    destruct (pending s); [apply skipLoop_piece, sufB_from, HS|apply lineLoop_piece; exact HS].
  Qed.
  Lemma allBlocks_piece : forall fuel s acc, sufB s -> Forall (fun r => exists l, piece l /\ rb_src r = fillNulls l) acc ->
    Forall (fun r => exists l, piece l /\ rb_src r = fillNulls l) (fst (allBlocks fuel s acc)).
  Proof.
    induction fuel as [|f IH]; intros s acc HS Ha; [exact Ha|]. cbn [allBlocks]. pose proof (nextBlock_piece (3 + length (buf s)) s HS) as Hn.
    destruct (nextBlock _ s) as [r s'| | |]; try exact Ha. destruct Hn as [Hr Hs']. apply IH; [exact Hs'|]. apply Forall_app. split; [exact Ha|constructor; [exact Hr|constructor]].
  Qed.
End Pieces.
Theorem roots_pieces input : Forall (fun r => exists l, piece (pad input) l /\ rb_src r = fillNulls l) (fst (parseBlocks input)).
Proof. unfold parseBlocks. apply allBlocks_piece; [exists O; reflexivity|constructor]. Qed.

Lemma In_fill_aux x : forall l k, In x (fill_aux k l) -> In x l \/ x = 239 \/ x = 191 \/ x = 189.
Proof.
  induction l as [|b l IH]; intros k H; [destruct k; destruct H|].
  assert (D : In x (if b =? 0 then 239 :: fill_aux 2 l else b :: fill_aux 0 l) -> In x (b :: l) \/ x = 239 \/ x = 191 \/ x = 189).
  { destruct (b =? 0); intros [E|E]; try (destruct (IH _ E) as [G|G]; [left; right; exact G|right; exact G]); [right; left; congruence|left; left; exact E]. }
  destruct k as [|[|[|k]]]; cbn [fill_aux] in H; try (apply D, H).
  - destruct H as [E|E]; [right; right; right; congruence|]. destruct (IH _ E) as [G|G]; [left; right; exact G|right; exact G].
  - destruct H as [E|E]; [right; right; left; congruence|]. destruct (IH _ E) as [G|G]; [left; right; exact G|right; exact G].
Qed.
Lemma count10_firstn n : forall l, count10 (firstn n l) <= count10 l.
Proof.
  induction n as [|n IH]; intros l; [cbn; apply count10_nonneg|]. destruct l as [|c l]; [cbn; lia|]. cbn [firstn count10]. specialize (IH l). lia.
Qed.
Lemma count10_skipn n : forall l, count10 (skipn n l) <= count10 l.
Proof.
  induction n as [|n IH]; intros l; [cbn [skipn]; lia|]. destruct l as [|c l]; [cbn; lia|]. cbn [skipn count10]. specialize (IH l). destruct (c =? 10); lia.
Qed.
Lemma In_firstn' {A} (x : A) n : forall l, In x (firstn n l) -> In x l.
Proof. induction n as [|n IH]; intros l H; [destruct H|]. destruct l as [|c l]; [destruct H|]. destruct H as [E|H]; [left; exact E|right; apply IH, H]. Qed.
Lemma In_skipn' {A} (x : A) n : forall l, In x (skipn n l) -> In x l.
Proof. induction n as [|n IH]; intros l H; [exact H|]. destruct l as [|c l]; [destruct H|]. right. apply IH, H. Qed.
Lemma piece_facts B0 l : piece B0 l -> (forall x, In x l -> In x B0) /\ len l <= len B0 /\ count10 l <= count10 B0.
Proof.
  intros (k & n & ->). split; [intros x Hx; eapply In_skipn', In_firstn', Hx|]. split.
  - unfold len. rewrite firstn_length, skipn_length. lia.
  - pose proof (count10_firstn n (skipn k B0)). pose proof (count10_skipn k B0). lia.
Qed.

Lemma src_facts s r : ~ In 13 s -> In r (fst (parseBlocks s)) -> ~ In 13 (rb_src r) /\ len (crlf (rb_src r)) <= len (crlf (pad s)).
Proof.
  intros S13 Hr. pose proof (roots_pieces s) as HP. rewrite Forall_forall in HP. destruct (HP r Hr) as (l & Hl & E).
  destruct (piece_facts _ _ Hl) as (A & B & C). rewrite E. split.
  - intros H. unfold fillNulls in H. destruct (In_fill_aux 13 l 0 H) as [G|[G|[G|G]]]; try discriminate G. apply S13, In_pad, A, G.
  - rewrite !len_crlf. unfold fillNulls. rewrite EolCRLFSimStream.len_fill_aux. pose proof (count10_fill_le l 0). lia.
Qed.

(* ---- from the block layer's entry conditions to the reader invariant SPI ---- *)
Lemma SPI_of R : forall U, spOK R U = true -> ind1 U = true -> forallb readableK U = true -> SPI R (len R) U.
Proof.
  intros U H1 H2 H3. split; [apply spOK_spW, H1|]. split; [exact H3|].
  assert (G : forall u, In u U -> neSp u = true /\ indOK1 R u = true /\ (iend u <=? len R) = true).
  { intros u Hu. destruct (spOK_In R U u H1 Hu) as (A & B & C). split; [apply Z.ltb_lt, B|]. split; [|apply Z.leb_le, C].
    unfold indOK1. destruct (Z.eqb_spec (ikind u) IndentKind) as [K|K]; [|reflexivity]. cbn [negb orb].
    pose proof (ind1_In U u H2 Hu K) as E. rewrite E, Z.eqb_refl. cbn [andb]. apply negb_true_iff, Z.eqb_neq.
    clear H2 H3. revert Hu. induction U as [|x r IH]; intros Hu; [destruct Hu|].
    pose proof (spOK_cons _ _ _ H1) as (_ & _ & _ & S4 & _ & S6). destruct Hu as [->|Hu]; [|apply IH; assumption].
    specialize (S4 K). rewrite E in S4. unfold sub in S4. replace (istart u + 1 - istart u) with 1 in S4 by lia.
    rewrite (at_as_from R (istart u) A). destruct (from_ R (istart u)) as [|c t].
    - unfold from_ in *. intros Q. discriminate Q.
    - unfold upto in S4. change (Z.to_nat 1) with 1%nat in S4. cbn [firstn forallb] in S4. change (at_ (c :: t) 0) with c.
      intros ->. discriminate S4. }
  split; [apply forallb_forall; intros u Hu; apply (G u Hu)|]. split; apply forallb_forall; intros u Hu; apply (G u Hu).
Qed.
Lemma lines_readableK B M : forall ik, lines B M ik -> forallb readableK ik = true.
Proof.
  induction ik as [|u r IH]; intros H; [reflexivity|]. destruct H as (A & _ & A2). cbn [forallb]. rewrite (IH A2), andb_true_r.
  unfold readableK. destruct A as [(K & _)|[(K & _) _]]; rewrite K; reflexivity.
Qed.

(* what the block layer guarantees for a leaf on which the inline parser runs *)
Lemma leaf_conditions input r d : In r (fst (parseBlocks input)) -> subB d (rb_blk r) -> hasUnparsed d = true ->
  emptyOne (bik d) = true \/
  (spOK (rb_src r) (bik d) = true /\ ind1 (bik d) = true /\ forallb readableK (bik d) = true /\ ibudget (bik d) <= len (rb_src r) + 9).
Proof.
  intros Hr Hd Hu. destruct (root_facts input r Hr) as (B & pre' & M & Hn & Es & Ht & Lp & Hf).
  pose proof (facts_sub B pre' M d _ Hd Hf) as Hfd.
  pose proof (leaf_bikOKw B (upto B (bend (rb_blk r))) (rb_src r) pre' M (bend (rb_blk r)) Hn eq_refl Es Ht Lp d Hfd Hu) as Hw.
  unfold bikOKw in Hw. apply orb_true_iff in Hw. destruct Hw as [Hok|He]; [|left; unfold emptyATX in He; apply andb_true_iff in He; apply He].
  right. unfold bikOK in Hok. apply andb_true_iff in Hok. destruct Hok as [Hok _]. apply andb_true_iff in Hok. destruct Hok as [H1 H2]. apply Z.leb_le in H2.
  split; [exact H1|]. 
  destruct (leaf_cases B pre' M (bend (rb_blk r)) Lp d Hfd Hu) as (_ & _ & _ & [(HPS & HL & _)|(HA & a & t & Eb & _)]).
  - split; [eapply lines_ind1; exact HL|]. split; [eapply lines_readableK; exact HL|exact H2].
  - rewrite Eb. split; [reflexivity|]. split; [reflexivity|]. rewrite Eb in H2. exact H2.
Qed.

(* ---- the position map on block trees: structure ---- *)
Lemma bkids_phiB R b : bkids (phiB R b) = map (phiB R) (bkids b). Proof. destruct b; reflexivity. Qed.
Lemma bkind_phiB R b : bkind (phiB R b) = bkind b. Proof. destruct b; reflexivity. Qed.
Lemma hasUnparsed_phiB R b : hasUnparsed (phiB R b) = hasUnparsed b.
Proof.
  unfold hasUnparsed. rewrite bik_phiB. induction (bik b) as [|u l IH]; [reflexivity|]. cbn [map existsb]. rewrite ikind_phiI, IH. reflexivity.
Qed.
Lemma subB_phiB R d b : subB d b -> subB (phiB R d) (phiB R b).
Proof.
  induction 1 as [b|d c b Hin Hs IH]; [apply subB_refl|]. eapply subB_kid; [|exact IH]. rewrite bkids_phiB. apply in_map, Hin.
Qed.
Lemma bheight_phiB R : forall b, bheight (phiB R b) = bheight b.
Proof.
  fix IH 1. intros [K s e bk ik a n c l lb]. cbn [phiB bheight]. f_equal.
  induction bk as [|x bk IHk]; [reflexivity|]. cbn [map fold_right]. rewrite IH, IHk. reflexivity.
Qed.
Lemma iref_phiI R u : iref (phiI R u) = iref u. Proof. destruct u; reflexivity. Qed.
Lemma extractB_phiB R : forall f b acc, extractB f (phiB R b) acc = extractB f b acc.
Proof.
  induction f as [|f IH]; intros b acc; [reflexivity|]. cbn [extractB]. rewrite bkind_phiB, bik_phiB, bkids_phiB.
  destruct (bkind b =? LinkReferenceDefinitionKind).
  - destruct (bik b) as [|l0 r0]; [reflexivity|]. cbn [map]. rewrite iref_phiI. reflexivity.
  - generalize acc. induction (bkids b) as [|x xs IHx]; intros acc0; [reflexivity|]. cbn [map fold_left]. rewrite IH. apply IHx.
Qed.
Lemma emptyOne_F R ik : emptyOne (map (phiI R) ik) = emptyOne ik.
Proof.
  destruct ik as [|u [|v r]]; [reflexivity| |reflexivity]. cbn [map emptyOne]. rewrite ikind_phiI, istart_phiI, iend_phiI, P_eqb.
  destruct u as [k s e i rf ks]. cbn [phiI ikids]. destruct ks; reflexivity.
Qed.

(* ---- one leaf ---- *)
Theorem leaf_crlf s r d : ~ In 13 s -> 2 * len (crlf (pad s)) + 9 < 999 -> In r (fst (parseBlocks s)) -> subB d (rb_blk r) -> hasUnparsed d = true ->
  forall m, parseInlines (crlf (rb_src r)) m (phiB (rb_src r) d) = map (phiI (rb_src r)) (parseInlines (rb_src r) m d).
Proof.
  intros S13 HL Hr Hd Hu m. destruct (src_facts s r S13 Hr) as [R13 HLr]. set (R := rb_src r) in *.
  destruct (leaf_conditions s r d Hr Hd Hu) as [He|(H1 & H2 & H3 & H4)].
  { rewrite (parseInlines_emptyOne R m d He), (parseInlines_emptyOne (crlf R) m (phiB R d)) by (rewrite bik_phiB, emptyOne_F; exact He). reflexivity. }
  fold R in H1, H4.
  (* the root and the leaf of the CR LF run *)
  assert (Hr' : In (phiRoot s r) (fst (parseBlocks (crlf s)))) by (rewrite (parseBlocks_crlf_limit s S13 HL); cbn [fst]; apply in_map, Hr).
  assert (Hd' : subB (phiB R d) (rb_blk (phiRoot s r))) by (cbn [phiRoot rb_blk]; apply subB_phiB, Hd).
  assert (Hu' : hasUnparsed (phiB R d) = true) by (rewrite hasUnparsed_phiB; exact Hu).
  assert (Hle : len R <= len (crlf R)) by (rewrite len_crlf; pose proof (count10_nonneg R); lia).
  pose proof (ibudget_nonneg (bik d)) as Hib.
  set (rf := (2 * length (crlf R) + 10)%nat). set (pf := (8 * length (crlf R) + 8)%nat). set (lf := S (length (crlf R))). set (ofu := S (length (bik d))).
  assert (HlR : (length R <= length (crlf R))%nat) by (unfold len in Hle; lia).
  pose proof (parseFull_fuel_adequate s r d Hr Hd Hu m rf rf pf lf ofu) as E. fold R in E.
  rewrite <- E by (unfold rf, pf, lf, ofu; lia).
  pose proof (parseFull_fuel_adequate (crlf s) (phiRoot s r) (phiB R d) Hr' Hd' Hu' m rf rf pf lf ofu) as E'. cbn [phiRoot rb_src] in E'. fold R in E'.
  rewrite <- E' by (unfold rf, pf, lf, ofu; rewrite ?bik_phiB, ?map_length; lia).
  apply (parseInlinesG_sim R (bik d) R13 H1 (SPI_of R (bik d) H1 H2 H3)); unfold rf, pf; unfold len in *; try lia. reflexivity.
Qed.
Print Assumptions leaf_crlf.

(* ---- Rewrite ---- *)
Lemma set_bik_phiB R b ik : set_bik (phiB R b) (map (phiI R) ik) = phiB R (set_bik b ik). Proof. destruct b; reflexivity. Qed.
Lemma set_bkids_phiB R b ks : set_bkids (phiB R b) (map (phiB R) ks) = phiB R (set_bkids b ks). Proof. destruct b; reflexivity. Qed.
Lemma subB_kid' c b d : In c (bkids b) -> subB b d -> subB c d.
Proof. intros Hc Hs. induction Hs as [b0|b0 c0 d0 Hin Hs IH]; [eapply subB_kid; [exact Hc|apply subB_refl]|eapply subB_kid; [exact Hin|apply IH, Hc]]. Qed.
Lemma rewriteB_crlf s r refs : ~ In 13 s -> 2 * len (crlf (pad s)) + 9 < 999 -> In r (fst (parseBlocks s)) ->
  forall fuel b, subB b (rb_blk r) -> rewriteB fuel (crlf (rb_src r)) refs (phiB (rb_src r) b) = phiB (rb_src r) (rewriteB fuel (rb_src r) refs b).
Proof.
  intros S13 HL Hr. induction fuel as [|f IH]; intros b Hs; [reflexivity|]. cbn [rewriteB].
  rewrite hasUnparsed_phiB, bik_phiB. unfold len at 1. rewrite map_length. fold (len (bik b)).
  destruct ((0 <? len (bik b)) && hasUnparsed b) eqn:Ec.
  - apply andb_true_iff in Ec. destruct Ec as [_ Hu]. rewrite (leaf_crlf s r b S13 HL Hr Hs Hu refs). apply set_bik_phiB.
  - rewrite bkids_phiB, map_map. rewrite <- set_bkids_phiB. f_equal. rewrite map_map. apply map_ext_in. intros c Hc. apply IH. eapply subB_kid'; eassumption.
Qed.

(* ---- the whole parse ---- *)
Lemma refs_crlf s roots : forall acc,
  fold_left (fun a r => extractB (bheight (rb_blk r)) (rb_blk r) a) (map (phiRoot s) roots) acc =
  fold_left (fun a r => extractB (bheight (rb_blk r)) (rb_blk r) a) roots acc.
Proof. induction roots as [|r l IH]; intros acc; [reflexivity|]. cbn [map fold_left phiRoot rb_blk]. rewrite bheight_phiB, extractB_phiB. apply IH. Qed.

Theorem parseFull_crlf_limit : forall s, ~ In 13 s -> 2 * len (crlf (pad s)) + 9 < 999 ->
  parseFull (crlf s) = (map (phiRoot s) (fst (parseFull s)), snd (parseFull s)).
Proof.
  intros s S13 HL. unfold parseFull. rewrite (parseBlocks_crlf_limit s S13 HL).
  assert (Hrw := fun r refs (Hr : In r (fst (parseBlocks s))) => rewriteB_crlf s r refs S13 HL Hr (bheight (rb_blk r)) (rb_blk r) (subB_refl _)).
  destruct (parseBlocks s) as [roots code]. cbn [fst snd] in *. rewrite refs_crlf. f_equal. rewrite !map_map. apply map_ext_in. intros r Hr.
  unfold phiRoot at 1 2 3 4 5 6. cbn [rb_line rb_start rb_end rb_src rb_blk]. rewrite bheight_phiB, (Hrw r _ Hr). reflexivity.
Qed.
Print Assumptions parseFull_crlf_limit.
