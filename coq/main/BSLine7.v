From Coq Require Import List ZArith Lia Bool.
Import ListNotations.
Require Import Base Tree Rdr Link Collect Html Recog LP Rules Starts Driver L2Kind L2CC BSDef BSRdr BSTree BSOcp BSOrph BSClose BSLine1 BSLine2 BSLine3 BSLine4 BSLine5.
Open Scope Z_scope.

(* ---- the setext heading start: the paragraph becomes a heading and is closed at the end of the underline ---- *)
Definition lastBend (e : Z) (l : list block) : Prop := match rev l with y :: _ => bend y = e | [] => False end.
Lemma lastBend_snoc e l x : lastBend e (l ++ [x]) <-> bend x = e.
Proof. unfold lastBend. rewrite rev_app_distr. reflexivity. Qed.
Lemma cut_bend o pos ik : bend (set_bik (set_bstart o pos) ik) = bend o. Proof. destruct o; reflexivity. Qed.

Lemma ocp_last_bend : forall fuel rfuel src o1 o2 r res1 res2,
  bik o1 = bik o2 -> lastIsPara (ocp_loop fuel rfuel src o1 None r res1) = true ->
  lastBend (bend o2) (ocp_loop fuel rfuel src o2 None r res2).
Proof.
  induction fuel as [|f IH]; intros rfuel src o1 o2 r res1 res2 Hik H; [apply lastBend_snoc; reflexivity|].
  revert H. cbn [ocp_loop]. cbv zeta. rewrite <- Hik.
  assert (Keep : lastBend (bend o2) (res2 ++ [o2])) by (apply lastBend_snoc; reflexivity).
  destruct (parseLinkLabel rfuel r) as [[lspan linner] r1].
  destruct (negb (spanValid lspan)); [intros _; exact Keep|].
  destruct (current r1) as [c r2]. destruct (negb (c =? 58)); [intros _; exact Keep|].
  destruct (next r2) as [? r3]. destruct (skipLinkSpace rfuel r3) as [ok r4]. destruct (negb ok); [intros _; exact Keep|].
  destruct (parseLinkDestination rfuel r4) as [[dspan dtext] r5]. destruct (negb (spanValid dspan)); [intros _; exact Keep|].
  destruct (readEOL rfuel r5) as [destEOL r6]. destruct (current r6) as [c6 r7].
  destruct (_ && _ && _); [intros _; exact Keep|].
  set (labelInline := Inl LinkLabelKind _ _ 0 _ _). set (destInline := Inl LinkDestinationKind _ _ 0 [] _).
  destruct (skipLinkSpace rfuel r7) as [ok2 r8].
  destruct (negb ok2); [rewrite lastIsPara_snoc; discriminate|].
  destruct (parseLinkTitle rfuel r8) as [[tspan ttext] r9].
  destruct (negb (spanValid tspan)).
  { destruct (destEOL <? 0); [intros _; exact Keep|].
    destruct (nodeIndexForPosition (bik o1) (r_pos r6) <? 0); [rewrite lastIsPara_snoc; discriminate|].
    intros H. rewrite <- (cut_bend o2 (r_pos r6) (from_ (bik o1) (nodeIndexForPosition (bik o1) (r_pos r6)))).
    eapply IH; [|exact H]. rewrite !cut_bik. reflexivity. }
  destruct (readEOL rfuel r9) as [titleEOL r10].
  destruct (titleEOL <? 0).
  { destruct (destEOL <? 0); [intros _; exact Keep|].
    destruct (nodeIndexForPosition (bik o1) (r_pos r6) <? 0); [rewrite lastIsPara_snoc; discriminate|].
    intros _. rewrite app_assoc. apply lastBend_snoc. apply cut_bend. }
  set (titleInline := Inl LinkTitleKind _ _ 0 [] _).
  destruct (nodeIndexForPosition (bik o1) (r_pos r10) <? 0); [rewrite lastIsPara_snoc; discriminate|].
  intros H. rewrite <- (cut_bend o2 (r_pos r10) (from_ (bik o1) (nodeIndexForPosition (bik o1) (r_pos r10)))).
  eapply IH; [|exact H]. rewrite !cut_bik. reflexivity.
Qed.

(* tree surgery: an update at depth S d followed by closing the last child at depth d *)
Lemma set_bkids_twice r a b : set_bkids (set_bkids r a) b = set_bkids r b. Proof. destruct r; reflexivity. Qed.
Lemma set_lastBlocks_twice r a L : set_lastBlocks (set_lastBlocks r [a]) L = set_lastBlocks r L.
Proof. unfold set_lastBlocks. rewrite bkids_set_bkids, removelast_last, set_bkids_twice. reflexivity. Qed.
Lemma lastBlock_nonnil r c : lastBlock r = Some c -> bkids r <> [].
Proof. intros H N. unfold lastBlock in H. rewrite N in H. discriminate. Qed.

Section Fuse.
  Variable CB : block -> list block.
  Variable g : block -> block.
  Definition clF (y : block) : block := match lastBlock y with Some c => set_lastBlocks y (CB c) | None => y end.
  Definition clG (y : block) : block := match lastBlock y with Some c => set_lastBlocks y (CB (g c)) | None => y end.
  Lemma fuse : forall d r, updAt d clF (updAt (S d) g r) = updAt d clG r.
  Proof.
    induction d as [|d IH]; intros r.
    - cbn [updAt]. unfold clG. destruct (lastBlock r) as [c|] eqn:El.
      + unfold clF. rewrite (lastBlock_set_last r (g c) (lastBlock_nonnil r c El)). apply set_lastBlocks_twice.
      + unfold clF. rewrite El. reflexivity.
    - change (updAt (S (S d)) g r) with (match lastBlock r with Some c => set_lastBlocks r [updAt (S d) g c] | None => r end).
      destruct (lastBlock r) as [c|] eqn:El.
      + cbn [updAt]. rewrite (lastBlock_set_last r _ (lastBlock_nonnil r c El)), El.
        change (updAt d clF (match lastBlock c with Some c0 => set_lastBlocks c [updAt d g c0] | None => c end)) with (updAt d clF (updAt (S d) g c)).
        rewrite IH. apply set_lastBlocks_twice.
      + cbn [updAt]. rewrite El. reflexivity.
  Qed.
End Fuse.

Lemma lastBlock_of_list b L : L <> [] -> lastBlock (set_lastBlocks b L) = match rev L with z :: _ => Some z | [] => None end.
Proof.
  intros HL. unfold lastBlock, set_lastBlocks. rewrite bkids_set_bkids, rev_app_distr.
  destruct (rev L) as [|z t] eqn:Er; [exfalso; apply HL; rewrite <- (rev_involutive L), Er; reflexivity|reflexivity].
Qed.

(* closing the heading made from the paragraph x *)
Lemma setext_close n src x level e pe : (pe < 0 \/ e <= pe) ->
  cc x = true -> bkind x = ParagraphKind -> bend x < 0 -> 0 <= bstart x <= e -> ascI (bstart x) e (bik x) ->
  lastIsPara (onCloseParagraph src x) = true ->
  let L := closeBlock (S n) src (set_bn (set_bkind x SetextHeadingKind) level) e in
  allP (sp e) L /\ chain (bstart x) pe L /\ lastBend e L.
Proof.
  intros Hpe Hc HK Ho H0 Ha HP L.
  set (gx := set_bn (set_bkind x SetextHeadingKind) level).
  assert (F : bkids gx = bkids x /\ bik gx = bik x /\ bstart gx = bstart x /\ bend gx = bend x /\ bkind gx = SetextHeadingKind) by (destruct x; repeat split).
  destruct F as (F1 & F2 & F3 & F4 & F5).
  pose proof (para_no_kids x Hc HK) as Hk.
  set (b1 := set_bend gx e).
  assert (G : bkids b1 = [] /\ bik b1 = bik x /\ bstart b1 = bstart x /\ bend b1 = e /\ bkind b1 = SetextHeadingKind).
  { unfold b1. rewrite bk_set_bend, bik_set_bend, bstart_set_bend, bend_set_bend, bkind_set_bend. rewrite F1, Hk. tauto. }
  destruct G as (G1 & G2 & G3 & G4 & G5).
  assert (EL : L = onCloseParagraph src b1).
  { unfold L. fold gx. cbn [closeBlock]. unfold isOpen. rewrite F4. destruct (Z.ltb_spec (bend x) 0); [|lia]. cbn [negb]. cbv zeta. fold b1.
    rewrite G5. reflexivity. }
  rewrite EL. unfold onCloseParagraph in *. destruct (bik x) as [|first rest] eqn:Eb.
  - rewrite G2. split; [split; [apply sp_leaf_closed; [exact G1|lia|lia|lia]|exact I]|]. split; [|apply (lastBend_snoc e [] b1); exact G4].
    cbn [chain]. rewrite G3, G4. repeat split; [lia|exact Hpe].
  - cbv zeta in *. rewrite HK in HP. change (ParagraphKind =? SetextHeadingKind) with false in HP. cbv iota in HP.
    assert (Eik : bik x = bik b1) by (rewrite Eb, G2; reflexivity).
    assert (Ha' : ascI (bstart b1) e (bik b1)) by (rewrite G3, G2; exact Ha).
    pose proof (sp_ocp_start e pe (2 * length src + 10) src b1 Hpe G1 G4 ltac:(rewrite G3; lia) Ha' first rest G2) as [P1 P2].
    rewrite G5. change (SetextHeadingKind =? SetextHeadingKind) with true. cbv iota.
    rewrite G2 in P1, P2 |- *. rewrite G3 in P2.
    rewrite (ocp_orphan_irrel _ _ src x b1 _ _ [] [] Eik HP).
    pose proof (ocp_last_bend _ _ src x b1 _ [] [] Eik HP) as HLb. rewrite G4 in HLb.
    split; [exact P1|split; [exact P2|exact HLb]].
Qed.
