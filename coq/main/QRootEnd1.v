(* QRootEnd1.v -- t64-rootend, part 1: line boundaries, readEOL, onCloseParagraph, closeBlock.
   LB src e: e is a line boundary of src (not positive, the end of src, or just behind a line ending).
   Every end reported by readEOL over the entries of a paragraph (entries as the invariant la describes them: ENT, indOK) is a
   line boundary; hence every block that onCloseParagraph / closeBlock produce ends at a line boundary when the end given to
   closeBlock is one. *)
From Coq Require Import List ZArith Lia Bool.
Import ListNotations.
Require Import Base Tree Rdr Link Collect LP Driver Rec17 Rec18 BSRdr LADef LA1 LA2 LARec LAR1 LAR2 LAR4 LAOcp TRdr BSOrph L2CC.
Open Scope Z_scope.

Definition LB (src : bytes) (e : Z) : Prop := e <= 0 \/ e = len src \/ isEOLz (at_ src (e - 1)) = true.
Lemma LB_neg src e : e <= 0 -> LB src e. Proof. intros H. left. exact H. Qed.
Lemma LB_end src : LB src (len src). Proof. right; left. reflexivity. Qed.
Lemma LB_eol src e c : at_ src (e - 1) = c -> c = 10 \/ c = 13 -> LB src e.
Proof. intros E H. right; right. rewrite E. destruct H as [-> | ->]; reflexivity. Qed.

(* ---- two facts about the reader that need no invariant ---- *)
Lemma next_prev r r' : next r = (true, r') -> r_prev r' = r_pos r.
Proof.
  unfold next. destruct (curNode_cases r) as [[E _]|(n & rest & E & _ & _)]; rewrite E; [discriminate|].
  cbn [setSp r_src r_spans r_pos r_vpos r_prev].
  destruct (_ && _); [intros H; inversion H; reflexivity|].
  destruct (_ && _); [intros H; inversion H; reflexivity|].
  destruct (nextSpan _) as [[i sp]|]; [intros H; inversion H; reflexivity|discriminate].
Qed.
Lemma nullRepl_vals v : nullRepl v = 239 \/ nullRepl v = 191 \/ nullRepl v = 189.
Proof. unfold nullRepl. destruct (v =? 0); [left; reflexivity|]. destruct (v =? 1); [right; left; reflexivity|right; right; reflexivity]. Qed.
Lemma current_eol r c r2 : current r = (c, r2) -> c = 10 \/ c = 13 -> at_ (r_src r) (r_pos r) = c.
Proof.
  unfold current. destruct (_ <=? _); [intros H; inversion H; lia|]. destruct (curNode r) as [n r']. cbv beta iota.
  destruct (okind n =? IndentKind); [intros H; inversion H; lia|].
  destruct (at_ (r_src r) (r_pos r) =? 0).
  - intros H Hc. inversion H as [[E1 E2]]. destruct (nullRepl_vals (r_vpos r)) as [X|[X|X]]; rewrite X in E1; lia.
  - intros H _. inversion H. reflexivity.
Qed.

(* ---- the entries of a paragraph, as the invariant la describes them ---- *)
Definition PK (src : bytes) (ik : list inline) : Prop :=
  ENT src ik /\ indOK ik /\ exists lo hi, hi <= len src /\ tileS src lo hi (map ispan ik).

Section Rd.
  Variable src : bytes.
  Variable ik : list inline.
  Hypothesis He : ENT src ik.
  Hypothesis Hio : indOK ik.
  Variables lo hi : Z.
  Hypothesis Hhi : hi <= len src.
  Hypothesis Ht : tileS src lo hi (map ispan ik).

  Let rfuel := (2 * length src + 10)%nat.
  Let Hmn := LAR4.mu_next src ik He Hio.
  Let Hmc := LAR4.mu_current src ik He.
  Let Hmf := LAR4.mu_fuel src ik He.

  Lemma RS_src r : RS src ik r -> r_src r = src.
  Proof. intros [(u & t & (E & _))|(E & _)]; exact E. Qed.

  Lemma Out_LB r : OutS src ik r -> LB src (r_pos r).
  Proof.
    intros (_ & _ & _ & (pre & u & Ei & Ep) & _). rewrite Ep.
    assert (Hu : In u ik) by (rewrite Ei; apply in_or_app; right; left; reflexivity).
    destruct (In_entOK src ik He u Hu) as (U1 & U2 & U3 & [(K1 & _)|(K1 & (_ & _ & _ & L4))]).
    - exfalso. pose proof Hio as Hio'. rewrite Ei in Hio'. apply indOK_suffix in Hio'. cbn [indOK] in Hio'. destruct Hio' as [H _]. exact (H K1).
    - destruct L4 as [L4|L4]; [right; left; exact L4|right; right; exact L4].
  Qed.
  Lemma Out_LB_prev r : OutS src ik r -> LB src (r_prev r + 1).
  Proof. intros Ho. pose proof (Out_LB r Ho) as H. destruct Ho as (_ & _ & _ & _ & E). rewrite E. exact H. Qed.

  (* one step over a line ending: the end reported is a line boundary *)
  Lemma eol_next_LB r c r2 : RS src ik r -> current r = (c, r2) -> c = 10 \/ c = 13 ->
    RS src ik (snd (next r2)) /\ LB src (r_prev (snd (next r2)) + 1) /\
    (fst (next r2) = true -> r_prev (snd (next r2)) = r_pos r /\ at_ src (r_pos r) = c).
  Proof.
    intros Hr Ec Hc.
    assert (Htx : tx c = false) by (destruct Hc as [-> | ->]; reflexivity).
    pose proof (step_NX src ik He (r_pos r) r c r2 Hr Ec Htx ltac:(lia) ltac:(apply NX_empty; lia)) as (S1 & _ & _ & S4 & _).
    pose proof (current_eol r c r2 Ec Hc) as Hat. rewrite (RS_src r Hr) in Hat.
    destruct (RS_current src ik He r Hr) as (c' & r2' & Ec' & _ & Ep2 & _ & _). rewrite Ec in Ec'. inversion Ec'; subst c' r2'.
    split; [exact S1|]. destruct (next r2) as [ok r3] eqn:En. cbn [fst snd] in *. destruct ok.
    - pose proof (next_prev r2 r3 En) as Epv. rewrite Ep2 in Epv. split; [|intros _; split; assumption].
      rewrite Epv. apply (LB_eol src _ c); [replace (r_pos r + 1 - 1) with (r_pos r) by lia; exact Hat|exact Hc].
    - split; [apply Out_LB_prev, S4; reflexivity|discriminate].
  Qed.

  Lemma readEOL_LB r : RS src ik r -> LB src (fst (readEOL rfuel r)).
  Proof.
    intros Hr. unfold readEOL.
    pose proof (sst_spec src ik He lo hi Hhi Ht rfuel r Hr) as (S1 & _ & _ & _).
    pose proof (HF src ik He (LAR4.mu src) Hmn Hmc rfuel Hmf r Hr) as HF1.
    destruct (skipSpacesAndTabs rfuel r) as [ok r1]. cbn [fst snd] in *.
    destruct ok; cbn [negb]; [|cbn [fst]; apply Out_LB, HF1; reflexivity].
    destruct (current r1) as [c r2] eqn:Ec.
    destruct (Z.eqb_spec c 13) as [E13|N13]; [|destruct (Z.eqb_spec c 10) as [E10|N10]].
    - pose proof (eol_next_LB r1 c r2 S1 Ec ltac:(right; exact E13)) as (Hr3 & L3 & F3).
      destruct (next r2) as [ok2 r3]. cbn [fst snd] in *. destruct ok2; cbn [negb]; [|exact L3].
      destruct (current r3) as [c2 r4] eqn:Ec2.
      destruct (RS_current src ik He r3 Hr3) as (c' & r4' & Ec' & _ & _ & Epv4 & _). rewrite Ec2 in Ec'. inversion Ec'; subst c' r4'.
      destruct (Z.eqb_spec c2 10) as [E2|N2].
      + pose proof (eol_next_LB r3 c2 r4 Hr3 Ec2 ltac:(left; exact E2)) as (_ & L5 & _).
        destruct (next r4) as [ok5 r5]. cbn [fst snd] in *. exact L5.
      + cbn [fst]. rewrite Epv4. exact L3.
    - pose proof (eol_next_LB r1 c r2 S1 Ec ltac:(left; exact E10)) as (_ & L3 & _).
      destruct (next r2) as [ok2 r3]. cbn [fst snd] in *. exact L3.
    - cbn [fst]. apply LB_neg. lia.
  Qed.

  (* ---- the loop of onCloseParagraph ---- *)
  Definition LBl (l : list block) : Prop := Forall (fun x => LB src (bend x)) l.
  Lemma LBl_snoc l x : LBl l -> LB src (bend x) -> LBl (l ++ [x]).
  Proof. intros A B. apply Forall_app. split; [exact A|constructor; [exact B|constructor]]. Qed.
  Lemma LBl_orphan orphan l : (forall o, orphan = Some o -> LB src (bend o)) -> LBl l ->
    LBl (match orphan with Some o => l ++ [o] | None => l end).
  Proof. intros Ho Hl. destruct orphan as [o|]; [apply LBl_snoc; [exact Hl|apply Ho; reflexivity]|exact Hl]. Qed.
  Lemma bend_cut o pos k : bend (set_bik (set_bstart o pos) k) = bend o. Proof. destruct o; reflexivity. Qed.

  Lemma ocp_loop_LB : forall fuel orig orphan r result, RS src ik r -> LB src (bend orig) -> LBl result ->
    (forall o, orphan = Some o -> LB src (bend o)) -> LBl (ocp_loop fuel rfuel src orig orphan r result).
  Proof.
    induction fuel as [|f IH]; intros orig orphan r result Hr Ho Hres Horph; [cbn [ocp_loop]; apply LBl_snoc; assumption|].
    assert (Hexit : LBl (result ++ [orig])) by (apply LBl_snoc; assumption).
    assert (Hfu : (0 < rfuel)%nat) by (unfold rfuel; lia).
    cbn [ocp_loop]. cbv zeta.
    pose proof (parseLinkLabel_spec src ik He lo hi Hhi Ht (LAR4.mu src) Hmn Hmc rfuel r Hr) as PL. cbv zeta in PL.
    destruct (parseLinkLabel rfuel r) as [[lspan linner] r1]. cbn [fst snd] in PL.
    destruct (spanValid lspan) eqn:Evl; cbn [negb]; [|exact Hexit].
    destruct (PL eq_refl) as (_ & Hr1 & _). clear PL.
    destruct (RS_current src ik He r1 Hr1) as (c & r2 & Ec & Hr2 & _). rewrite Ec.
    destruct (Z.eqb_spec c 58) as [E58|N58]; cbn [negb]; [|exact Hexit].
    assert (Htx58 : tx c = false) by (rewrite E58; reflexivity).
    pose proof (step_NX src ik He (r_pos r1) r1 c r2 Hr1 Ec Htx58 ltac:(lia) ltac:(apply NX_empty; lia)) as (Hr3 & _).
    destruct (next r2) as [ok3 r3]. cbn [fst snd] in *.
    pose proof (sls_spec src ik He rfuel r3 Hr3) as (Hr4 & _).
    destruct (skipLinkSpace rfuel r3) as [ok4 r4]. cbn [fst snd] in *. destruct ok4; cbn [negb]; [|exact Hexit].
    assert (Hr5g : forall dspan dtext r5, parseLinkDestination rfuel r4 = (dspan, dtext, r5) -> spanValid dspan = true ->
                   RS src ik r5 \/ (exists c4, r5 = r4 /\ OutS src ik r4 /\ current r4 = (c4, r4) /\ isASCIIControl c4 = false /\ c4 <> 32 /\ fst dspan = r_pos r4)).
    { intros dspan dtext r5 Epd Evd. destruct Hr4 as [Hin4|Ho4].
      - left. pose proof (parseLinkDestination_spec src ik He lo hi Hhi Ht (LAR4.mu src) Hmn Hmc rfuel Hmf r4 (or_introl Hin4) Hin4) as PD.
        cbv zeta in PD. rewrite Epd in PD. cbn [fst snd] in PD. destruct (PD Evd) as (_ & _ & _ & _ & _ & _ & H & _). exact H.
      - right. destruct (pld_Out src ik rfuel r4 Hfu Ho4) as (c4 & Ec4 & [E|(E & H1 & H2)]); rewrite E in Epd; inversion Epd; subst.
        + discriminate Evd.
        + exists c4. split; [reflexivity|]. split; [exact Ho4|]. split; [exact Ec4|]. split; [exact H1|]. split; [exact H2|reflexivity]. }
    destruct (parseLinkDestination rfuel r4) as [[dspan dtext] r5] eqn:Epd.
    destruct (spanValid dspan) eqn:Evd; cbn [negb]; [|exact Hexit].
    destruct (Hr5g dspan dtext r5 eq_refl Evd) as [Hr5|(c4 & -> & Ho4 & Ec4 & H1 & H2 & _)].
    2:{ rewrite (readEOL_Out src ik rfuel r4 c4 Hfu Ho4 Ec4 H1 H2). cbv beta iota. rewrite Ec4.
        assert (N0 : (c4 =? 0) = false) by (apply Z.eqb_neq; intros ->; discriminate H1).
        rewrite N0, Z.eqb_refl. cbn [Z.ltb Z.compare andb negb]. exact Hexit. }
    pose proof (readEOL_spec src ik He lo hi Hhi Ht (LAR4.mu src) Hmn Hmc rfuel Hmf r5 Hr5) as (Hr6 & _).
    pose proof (readEOL_LB r5 Hr5) as Ld.
    destruct (readEOL rfuel r5) as [destEOL r6]. cbn [fst snd] in *.
    destruct (RS_current src ik He r6 Hr6) as (c6 & r7 & Ec6 & Hr7 & _). rewrite Ec6.
    destruct ((destEOL <? 0) && (r_pos r6 =? r_pos r5) && negb (c6 =? 0)); [exact Hexit|].
    set (LI := Inl LinkLabelKind _ _ 0 _ _). set (DI := Inl LinkDestinationKind _ _ 0 [] _).
    assert (Hdef : LBl (result ++ [refDefBlock (fst lspan) destEOL [LI; DI]])) by (apply LBl_snoc; [exact Hres|exact Ld]).
    pose proof (sls_spec src ik He rfuel r7 Hr7) as (Hr8 & _).
    destruct (skipLinkSpace rfuel r7) as [ok2 r8]. cbn [fst snd] in *.
    destruct ok2; cbn [negb]; [|apply LBl_orphan; assumption].
    pose proof (parseLinkTitle_spec src ik He (LAR4.mu src) Hmn Hmc rfuel r8 Hr8) as PT. cbv zeta in PT.
    destruct (parseLinkTitle rfuel r8) as [[tspan ttext] r9]. cbn [fst snd] in PT.
    destruct (spanValid tspan) eqn:Evt; cbn [negb].
    2:{ destruct (destEOL <? 0); [exact Hexit|].
        destruct (nodeIndexForPosition (bik orig) (r_pos r6) <? 0); [apply LBl_orphan; assumption|].
        apply IH; [exact Hr6|rewrite bend_cut; exact Ho|exact Hdef|exact Horph]. }
    destruct (PT eq_refl) as (_ & _ & _ & _ & _ & _ & _ & Hr9 & _). clear PT.
    pose proof (readEOL_spec src ik He lo hi Hhi Ht (LAR4.mu src) Hmn Hmc rfuel Hmf r9 Hr9) as (Hr10 & _).
    pose proof (readEOL_LB r9 Hr9) as Lt.
    destruct (readEOL rfuel r9) as [titleEOL r10]. cbn [fst snd] in *.
    destruct (titleEOL <? 0).
    { destruct (destEOL <? 0); [exact Hexit|].
      destruct (nodeIndexForPosition (bik orig) (r_pos r6) <? 0); [apply LBl_orphan; assumption|].
      rewrite app_assoc. apply LBl_snoc; [exact Hdef|rewrite bend_cut; exact Ho]. }
    set (TI := Inl LinkTitleKind _ _ 0 [] _).
    assert (Hdef3 : LBl (result ++ [refDefBlock (fst lspan) titleEOL [LI; DI; TI]])) by (apply LBl_snoc; [exact Hres|exact Lt]).
    destruct (nodeIndexForPosition (bik orig) (r_pos r10) <? 0); [apply LBl_orphan; assumption|].
    apply IH; [exact Hr10|rewrite bend_cut; exact Ho|exact Hdef3|exact Horph].
  Qed.
End Rd.

Lemma onCloseParagraph_LB src orig : PK src (bik orig) -> LB src (bend orig) ->
  Forall (fun x => LB src (bend x)) (onCloseParagraph src orig).
Proof.
  intros (He & Hio & lo & hi & Hhi & Ht) Ho. unfold onCloseParagraph.
  destruct (bik orig) as [|first rest] eqn:Eb; [constructor; [exact Ho|constructor]|]. cbv zeta.
  rewrite <- Eb in *.
  apply (ocp_loop_LB src (bik orig) He Hio lo hi Hhi Ht).
  - left. exists first, rest. split; [reflexivity|]. split; [exists [], []; split; [exact Eb|rewrite Eb; reflexivity]|].
    cbn [r_pos r_vpos newReader].
    destruct (In_entOK src (bik orig) He first ltac:(rewrite Eb; left; reflexivity)) as (U1 & U2 & _). lia.
  - exact Ho.
  - constructor.
  - intros o. destruct (bkind orig =? SetextHeadingKind); [|discriminate]. intros E. inversion E. cbn [bend]. apply LB_neg. lia.
Qed.

(* ---- closeBlock ---- *)
Lemma bend_closeLast (g : block -> list block) x :
  bend (match lastBlock x with Some c => set_lastBlocks x (g c) | None => x end) = bend x.
Proof. destruct (lastBlock x); [destruct x; reflexivity|reflexivity]. Qed.
Lemma bkind_closeLast (g : block -> list block) x :
  bkind (match lastBlock x with Some c => set_lastBlocks x (g c) | None => x end) = bkind x.
Proof. destruct (lastBlock x); [destruct x; reflexivity|reflexivity]. Qed.
Lemma bend_set_bend' b e : bend (set_bend b e) = e. Proof. destruct b; reflexivity. Qed.
Lemma bik_set_bend' b e : bik (set_bend b e) = bik b. Proof. destruct b; reflexivity. Qed.
Lemma bend_onCloseList' b : bend (onCloseList b) = bend b.
Proof. unfold onCloseList. cbv zeta. destruct (_ || _); [destruct b; reflexivity|reflexivity]. Qed.
Lemma bkind_onCloseList' b : bkind (onCloseList b) = bkind b.
Proof. unfold onCloseList. cbv zeta. destruct (_ || _); [destruct b; reflexivity|reflexivity]. Qed.
Lemma bend_onCloseIndented' src b : bend (onCloseIndented src b) = bend b. Proof. destruct b; reflexivity. Qed.
Lemma bkind_onCloseIndented' src b : bkind (onCloseIndented src b) = bkind b. Proof. destruct b; reflexivity. Qed.

Definition isParaKd (k : Z) : bool := (k =? ParagraphKind) || (k =? SetextHeadingKind).

(* closing a block that is not a paragraph: one block of the same kind with the end given *)
Lemma closeBlock_nonpara fuel src c e : isOpen c = true -> isParaKd (bkind c) = false ->
  exists x, closeBlock (S fuel) src c e = [x] /\ bend x = e /\ bkind x = bkind c.
Proof.
  intros Ho Hk. cbn [closeBlock]. rewrite Ho. cbn [negb]. cbv zeta. rewrite !bkind_set_bend.
  destruct (bkind c =? ListKind).
  { eexists. split; [reflexivity|]. rewrite bend_closeLast, bkind_closeLast, bend_onCloseList', bkind_onCloseList', bend_set_bend', bkind_set_bend. tauto. }
  destruct (bkind c =? IndentedCodeBlockKind).
  { eexists. split; [reflexivity|]. rewrite bend_closeLast, bkind_closeLast, bend_onCloseIndented', bkind_onCloseIndented', bend_set_bend', bkind_set_bend. tauto. }
  unfold isParaKd in Hk. rewrite Hk.
  eexists. split; [reflexivity|]. rewrite bend_closeLast, bkind_closeLast, bend_set_bend', bkind_set_bend. tauto.
Qed.

Lemma closeBlock_LB fuel src c e : LB src e -> LB src (bend c) ->
  (isOpen c = true -> isParaKd (bkind c) = true -> PK src (bik c)) ->
  Forall (fun x => LB src (bend x)) (closeBlock fuel src c e).
Proof.
  intros He Hc Hp. destruct fuel as [|f]; [constructor; [exact Hc|constructor]|].
  destruct (isOpen c) eqn:Eo.
  2:{ cbn [closeBlock]. rewrite Eo. cbn [negb]. constructor; [exact Hc|constructor]. }
  destruct (isParaKd (bkind c)) eqn:Ek.
  - cbn [closeBlock]. rewrite Eo. cbn [negb]. cbv zeta. rewrite !bkind_set_bend.
    assert (N1 : (bkind c =? ListKind) = false).
    { unfold isParaKd in Ek. apply orb_true_iff in Ek. destruct Ek as [E|E]; apply Z.eqb_eq in E; rewrite E; reflexivity. }
    assert (N2 : (bkind c =? IndentedCodeBlockKind) = false).
    { unfold isParaKd in Ek. apply orb_true_iff in Ek. destruct Ek as [E|E]; apply Z.eqb_eq in E; rewrite E; reflexivity. }
    rewrite N1, N2. unfold isParaKd in Ek. rewrite Ek.
    apply onCloseParagraph_LB; [rewrite bik_set_bend'; apply Hp; reflexivity|rewrite bend_set_bend'; exact He].
  - destruct (closeBlock_nonpara f src c e Eo Ek) as (x & E & Hb & _). rewrite E. constructor; [rewrite Hb; exact He|constructor].
Qed.

(* ---- without the orphan, every paragraph-like block of the result is closed ---- *)
Definition pcl (x : block) : Prop := isParaKd (bkind x) = true -> isOpen x = false.
Lemma pcl_refDef s e k : pcl (refDefBlock s e k). Proof. intros H. discriminate H. Qed.
Lemma ocp_loop_pcl : forall fuel rfuel src orig r result, 0 <= bend orig -> Forall pcl result ->
  Forall pcl (ocp_loop fuel rfuel src orig None r result).
Proof.
  induction fuel as [|f IH]; intros rfuel src orig r result Ho Hres.
  { cbn [ocp_loop]. apply Forall_app. split; [exact Hres|constructor; [intros _; unfold isOpen; apply Z.ltb_ge; exact Ho|constructor]]. }
  assert (Hcl : forall o, 0 <= bend o -> pcl o) by (intros o H _; unfold isOpen; apply Z.ltb_ge; exact H).
  assert (Hexit : Forall pcl (result ++ [orig])) by (apply Forall_app; split; [exact Hres|constructor; [apply Hcl, Ho|constructor]]).
  assert (Hsn : forall s e k, Forall pcl (result ++ [refDefBlock s e k])) by (intros; apply Forall_app; split; [exact Hres|constructor; [apply pcl_refDef|constructor]]).
  cbn [ocp_loop]. cbv zeta.
  destruct (parseLinkLabel rfuel r) as [[lspan linner] r1].
  destruct (negb (spanValid lspan)); [exact Hexit|].
  destruct (current r1) as [c r2]. destruct (negb (c =? 58)); [exact Hexit|].
  destruct (next r2) as [? r3]. destruct (skipLinkSpace rfuel r3) as [ok r4]. destruct (negb ok); [exact Hexit|].
  destruct (parseLinkDestination rfuel r4) as [[dspan dtext] r5]. destruct (negb (spanValid dspan)); [exact Hexit|].
  destruct (readEOL rfuel r5) as [destEOL r6]. destruct (current r6) as [c6 r7].
  destruct (_ && _ && _); [exact Hexit|].
  set (LI := Inl LinkLabelKind _ _ 0 _ _). set (DI := Inl LinkDestinationKind _ _ 0 [] _).
  destruct (skipLinkSpace rfuel r7) as [ok2 r8].
  destruct (negb ok2); [apply Hsn|].
  destruct (parseLinkTitle rfuel r8) as [[tspan ttext] r9].
  destruct (negb (spanValid tspan)).
  { destruct (destEOL <? 0); [exact Hexit|].
    destruct (nodeIndexForPosition (bik orig) (r_pos r6) <? 0); [apply Hsn|].
    apply IH; [rewrite bend_cut; exact Ho|apply Hsn]. }
  destruct (readEOL rfuel r9) as [titleEOL r10].
  destruct (titleEOL <? 0).
  { destruct (destEOL <? 0); [exact Hexit|].
    destruct (nodeIndexForPosition (bik orig) (r_pos r6) <? 0); [apply Hsn|].
    rewrite app_assoc. apply Forall_app. split; [apply Hsn|constructor; [apply Hcl; rewrite bend_cut; exact Ho|constructor]]. }
  set (TI := Inl LinkTitleKind _ _ 0 [] _).
  destruct (nodeIndexForPosition (bik orig) (r_pos r10) <? 0); [apply Hsn|].
  apply IH; [rewrite bend_cut; exact Ho|apply Hsn].
Qed.

Lemma onCloseParagraph_pcl src orig : bkind orig <> SetextHeadingKind -> 0 <= bend orig -> Forall pcl (onCloseParagraph src orig).
Proof.
  intros Nk Ho. unfold onCloseParagraph.
  destruct (bik orig) as [|first rest]; [constructor; [intros _; unfold isOpen; apply Z.ltb_ge; exact Ho|constructor]|]. cbv zeta.
  replace (bkind orig =? SetextHeadingKind) with false by (symmetry; apply Z.eqb_neq; exact Nk).
  apply ocp_loop_pcl; [exact Ho|constructor].
Qed.

(* a setext heading made from a paragraph whose run leaves paragraph content: the orphan is not used *)
Lemma onCloseParagraph_setext_pcl src c0 c : bik c = bik c0 -> bkind c0 <> SetextHeadingKind ->
  lastIsPara (onCloseParagraph src c0) = true -> 0 <= bend c -> Forall pcl (onCloseParagraph src c).
Proof.
  intros Hik Nk Hl Ho. unfold onCloseParagraph in *. rewrite Hik. destruct (bik c0) as [|first rest] eqn:Eb.
  { constructor; [intros _; unfold isOpen; apply Z.ltb_ge; exact Ho|constructor]. }
  cbv zeta in *. replace (bkind c0 =? SetextHeadingKind) with false in Hl by (symmetry; apply Z.eqb_neq; exact Nk).
  rewrite (ocp_orphan_irrel _ _ src c0 c _ _ [] [] ltac:(rewrite Eb; symmetry; exact Hik) Hl).
  apply ocp_loop_pcl; [exact Ho|constructor].
Qed.

Lemma closeBlock_pcl fuel src c e : 0 <= e -> bkind c <> SetextHeadingKind -> Forall pcl (closeBlock fuel src c e) \/ fuel = O.
Proof.
  intros He Nk. destruct fuel as [|f]; [right; reflexivity|left].
  destruct (isOpen c) eqn:Eo.
  2:{ cbn [closeBlock]. rewrite Eo. cbn [negb]. constructor; [intros _; exact Eo|constructor]. }
  destruct (isParaKd (bkind c)) eqn:Ek.
  - cbn [closeBlock]. rewrite Eo. cbn [negb]. cbv zeta. rewrite !bkind_set_bend.
    assert (N1 : (bkind c =? ListKind) = false).
    { unfold isParaKd in Ek. apply orb_true_iff in Ek. destruct Ek as [E|E]; apply Z.eqb_eq in E; rewrite E; reflexivity. }
    assert (N2 : (bkind c =? IndentedCodeBlockKind) = false).
    { unfold isParaKd in Ek. apply orb_true_iff in Ek. destruct Ek as [E|E]; apply Z.eqb_eq in E; rewrite E; reflexivity. }
    rewrite N1, N2. unfold isParaKd in Ek. rewrite Ek.
    apply onCloseParagraph_pcl; [rewrite bkind_set_bend; exact Nk|rewrite bend_set_bend'; exact He].
  - destruct (closeBlock_nonpara f src c e Eo Ek) as (x & E & Hb & Hk). rewrite E. constructor; [|constructor].
    intros H. rewrite Hk, Ek in H. discriminate H.
Qed.

Lemma closeBlock_setext_pcl f src c0 c e : isOpen c = true -> bkind c = SetextHeadingKind -> bik c = bik c0 ->
  bkind c0 <> SetextHeadingKind -> lastIsPara (onCloseParagraph src c0) = true -> 0 <= e ->
  Forall pcl (closeBlock (S f) src c e).
Proof.
  intros Eo Hk Hik Nk Hl He. cbn [closeBlock]. rewrite Eo. cbn [negb]. cbv zeta. rewrite !bkind_set_bend, Hk.
  change (SetextHeadingKind =? ListKind) with false. change (SetextHeadingKind =? IndentedCodeBlockKind) with false.
  change ((SetextHeadingKind =? ParagraphKind) || (SetextHeadingKind =? SetextHeadingKind)) with true. cbv iota.
  apply (onCloseParagraph_setext_pcl src c0); [rewrite bik_set_bend'; exact Hik|exact Nk|exact Hl|rewrite bend_set_bend'; exact He].
Qed.
