(* QS2FlagN.v -- T58b part N: why the end-of-input case needs a run invariant.
   processLine_gap_flag_statement is the statement with the hypotheses listed in the task (those that lineLoop_sim has; the
   conclusions of processLine_good / bnd_processLine / la_processLine / processLine_no_panic follow from these and add nothing).
   It is FALSE: the state below satisfies all of them, but it is not reachable (the paragraph "[a]: b" is still open although a
   blank line has been read); closing it at the end of input leaves the definition [0,7) as last block, not flagged, and 7 < 8.
   The reachable states satisfy QS2FlagG.TopPara, which excludes it. *)
From Coq Require Import List ZArith Lia Bool.
Import ListNotations.
Require Import Base Tree LP Driver L2CC L2Bnd TRdr TDefs TDesc Props LADef LA11 SliceBase QS2FlagA QS2FlagG.
Open Scope Z_scope.

Definition processLine_gap_flag_statement : Prop :=
  forall st ks ls src ns,
    0 <= ls <= len src -> ccF ks = true -> GoodL 0 ks -> (ks = [] \/ (0 < ls /\ exists c, ks = [c])) -> lastOpen ks ->
    (st = stDescendTerminated -> HM ks) ->
    (ks = [] -> isBlankLine (from_ src ls) = false /\ (st = stOpening \/ st = stOpenMatched)) ->
    L2Bnd.bndL ls ns ks = true -> la src ls (docRoot ks) -> noNul src ->
    forall pre b, fst (fst (processLine st ks ls src)) = pre ++ [b] -> isOpen b = false -> bend b < ls + len (from_ src ls) ->
    blastOf b = true.

Definition xsrc : bytes := [91; 97; 93; 58; 32; 98; 10; 10].   (* "[a]: b\n\n" *)
Definition xu : inline := mkI UnparsedKind 0 7.
Definition xc : block := Blk ParagraphKind 0 (-1) [] [xu] 0 0 0 false false.

Lemma xsrc_at q : 0 <= q < 8 -> q = 0 \/ q = 1 \/ q = 2 \/ q = 3 \/ q = 4 \/ q = 5 \/ q = 6 \/ q = 7. Proof. lia. Qed.

Lemma x_la : la xsrc 8 (docRoot [xc]).
Proof.
  unfold docRoot, xc. cbn [la]. change (-1 <? 0) with true. change (isLeafK documentKind) with false.
  change (documentKind =? ListMarkerKind) with false. change (documentKind =? LinkReferenceDefinitionKind) with false.
  change (isLeafK ParagraphKind) with true. cbv iota.
  split; [lia|]. split; [left; lia|]. split; [intros _; discriminate|]. split.
  { split; [|reflexivity]. cbn [tchain bstart bend]. split; [lia|]. split; [intros q Hq; lia|]. change (-1 <? 0) with true. cbv iota. split; reflexivity. }
  cbn [allQ]. split; [|exact I].
  split; [lia|]. split; [left; lia|]. split; [intros _; discriminate|]. split; [|exact I].
  split; [|split].
  - cbn [map tileS ispan xu mkI istart iend fst snd]. change (-1 <? 0) with true. cbv iota. split; [lia|]. split; [intros q Hq; lia|]. split; [lia|]. split; [lia|].
    intros q Hq. assert (q = 7) by lia. subst q. reflexivity.
  - constructor; [|constructor]. split; [intros E; discriminate E|]. split.
    + intros _. right. split; [reflexivity|]. unfold lineOK, xu, mkI. cbn [istart iend]. split; [lia|]. split; [reflexivity|]. split.
      * intros q Hq He. destruct (xsrc_at q ltac:(lia)) as [->|[->|[->|[->|[->|[->|[->| ->]]]]]]]; try (vm_compute in He; discriminate He); [left; reflexivity|lia].
      * right. reflexivity.
    + unfold lvOK, xu, mkI. cbn [istart iend leavesI ordIn fst snd]. lia.
  - intros _. cbn [indOK xu mkI ikind]. split; [intros E; discriminate E|exact I].
Qed.

Theorem gap_flag_eof_needs_invariant : ~ processLine_gap_flag_statement.
Proof.
  intros H.
  assert (Hc : blastOf (Blk LinkReferenceDefinitionKind 0 7 [] [Inl LinkLabelKind 1 2 0 [97] [Inl TextKind 1 2 0 [] []]; Inl LinkDestinationKind 5 6 0 [] [Inl TextKind 5 6 0 [] []]] 0 0 0 false false) = true).
  { apply (H stLineConsumed [xc] 8 xsrc true) with (pre := []).
    - vm_compute. split; discriminate.
    - reflexivity.
    - cbn [GoodL xc isOpen bend]. change (-1 <? 0) with true. cbv iota. split; [reflexivity|]. split; [discriminate|]. intros _. split; [cbn [srt bik]; split; [constructor|exact I]|].
      constructor; [cbn; lia|constructor].
    - right. split; [lia|exists xc; reflexivity].
    - intros pre c E. destruct pre as [|x pre]; [inversion E; subst; reflexivity|]. inversion E as [[E1 E2]]. destruct pre; discriminate.
    - discriminate.
    - discriminate.
    - reflexivity.
    - exact x_la.
    - unfold noNul, xsrc. repeat (constructor; [discriminate|]). constructor.
    - vm_compute. reflexivity.
    - reflexivity.
    - vm_compute. reflexivity. }
  discriminate Hc.
Qed.
Print Assumptions gap_flag_eof_needs_invariant.
