From Coq Require Import List ZArith Lia Bool.
Import ListNotations.
Require Import Filter.
Open Scope Z_scope.

(* WHATWG tokenizer, the states reachable in the data content model, reduced to what decides
   which start tags are emitted.  Input is after newline normalisation (CR counts as white space). *)
Definition is_ws (c : Z) := (c =? 9) || (c =? 10) || (c =? 12) || (c =? 13) || (c =? 32).
Definition GT : Z := 62.
Definition SOL : Z := 47.
Definition is_delim (c : Z) := is_ws c || (c =? SOL) || (c =? GT).
Definition lower_nul (c : Z) : bytes := if c =? 0 then [239; 191; 189] else [lower c].

Inductive cst := CStart | CStartDash | CMain | CLT | CLTBang | CLTBangDash | CLTBangDashDash | CEndDash | CEnd | CEndBang.

Inductive tstate :=
| SData | STagOpen | SEndTagOpen
| STagName (start : bool) (acc : bytes)
| SBeforeAttrName (start : bool) (name : bytes)
| SAttrName (start : bool) (name : bytes)
| SAfterAttrName (start : bool) (name : bytes)
| SBeforeAttrValue (start : bool) (name : bytes)
| SAttrValDQ (start : bool) (name : bytes)
| SAttrValSQ (start : bool) (name : bytes)
| SAttrValUnq (start : bool) (name : bytes)
| SAfterAttrValQ (start : bool) (name : bytes)
| SSelfClosing (start : bool) (name : bytes)
| SBogus
| SMarkupDecl (seen : bytes)
| SComment (c : cst)
| SDoctype.

Definition emit (start : bool) (name : bytes) : list bytes := if start then [name] else [].

Definition data_step (c : Z) : tstate := if c =? LT then STagOpen else SData.

Definition before_attr_name (s : bool) (n : bytes) (c : Z) : tstate * list bytes :=
  if is_ws c then (SBeforeAttrName s n, [])
  else if c =? SOL then (SSelfClosing s n, [])
  else if c =? GT then (SData, emit s n)
  else (SAttrName s n, []).

(* comment sub-machine; "reconsume" is resolved by calling the target state's handler *)
Definition c_main (c : Z) : tstate :=
  if c =? LT then SComment CLT else if c =? 45 then SComment CEndDash else SComment CMain.
Definition c_enddash (c : Z) : tstate := if c =? 45 then SComment CEnd else c_main c.
Definition c_end (c : Z) : tstate :=
  if c =? GT then SData else if c =? 33 then SComment CEndBang else if c =? 45 then SComment CEnd else c_main c.
Definition comment_step (s : cst) (c : Z) : tstate :=
  match s with
  | CStart => if c =? 45 then SComment CStartDash else if c =? GT then SData else c_main c
  | CStartDash => if c =? 45 then SComment CEnd else if c =? GT then SData else c_main c
  | CMain => c_main c
  | CLT => if c =? 33 then SComment CLTBang else if c =? LT then SComment CLT else c_main c
  | CLTBang => if c =? 45 then SComment CLTBangDash else c_main c
  | CLTBangDash => if c =? 45 then SComment CLTBangDashDash else c_enddash c
  | CLTBangDashDash => c_end c
  | CEndDash => c_enddash c
  | CEnd => c_end c
  | CEndBang => if c =? 45 then SComment CEndDash else if c =? GT then SData else c_main c
  end.

Fixpoint is_prefix_by (eq : Z -> Z -> bool) (a b : bytes) : bool :=
  match a, b with
  | [], _ => true
  | x :: a', y :: b' => eq x y && is_prefix_by eq a' b'
  | _ :: _, [] => false
  end.
Definition kw_doctype : bytes := [100; 111; 99; 116; 121; 112; 101].       (* "doctype" *)
Definition kw_cdata : bytes := [91; 67; 68; 65; 84; 65; 91].                (* "[CDATA[" *)
Definition eq_ci (x y : Z) := lower x =? y.

Definition markup_step (seen : bytes) (c : Z) : tstate :=
  let seen' := seen ++ [c] in
  if is_prefix_by Z.eqb seen' [45; 45] then (if (length seen' =? 2)%nat then SComment CStart else SMarkupDecl seen')
  else if is_prefix_by eq_ci seen' kw_doctype then (if (length seen' =? 7)%nat then SDoctype else SMarkupDecl seen')
  else if is_prefix_by Z.eqb seen' kw_cdata then (if (length seen' =? 7)%nat then SBogus else SMarkupDecl seen')
  else if c =? GT then SData else SBogus.

Definition step (st : tstate) (c : Z) : tstate * list bytes :=
  match st with
  | SData => (data_step c, [])
  | STagOpen =>
    if c =? 33 then (SMarkupDecl [], [])
    else if c =? SOL then (SEndTagOpen, [])
    else if is_alpha c then (STagName true (lower_nul c), [])
    else if c =? 63 then (SBogus, [])
    else (data_step c, [])
  | SEndTagOpen =>
    if is_alpha c then (STagName false (lower_nul c), [])
    else if c =? GT then (SData, [])
    else (SBogus, [])
  | STagName s acc =>
    if is_ws c then (SBeforeAttrName s acc, [])
    else if c =? SOL then (SSelfClosing s acc, [])
    else if c =? GT then (SData, emit s acc)
    else (STagName s (acc ++ lower_nul c), [])
  | SBeforeAttrName s n => before_attr_name s n c
  | SAttrName s n =>
    if is_ws c then (SAfterAttrName s n, [])
    else if c =? SOL then (SSelfClosing s n, [])
    else if c =? GT then (SData, emit s n)
    else if c =? 61 then (SBeforeAttrValue s n, [])
    else (SAttrName s n, [])
  | SAfterAttrName s n =>
    if is_ws c then (SAfterAttrName s n, [])
    else if c =? SOL then (SSelfClosing s n, [])
    else if c =? 61 then (SBeforeAttrValue s n, [])
    else if c =? GT then (SData, emit s n)
    else (SAttrName s n, [])
  | SBeforeAttrValue s n =>
    if is_ws c then (SBeforeAttrValue s n, [])
    else if c =? 34 then (SAttrValDQ s n, [])
    else if c =? 39 then (SAttrValSQ s n, [])
    else if c =? GT then (SData, emit s n)
    else (SAttrValUnq s n, [])
  | SAttrValDQ s n => if c =? 34 then (SAfterAttrValQ s n, []) else (SAttrValDQ s n, [])
  | SAttrValSQ s n => if c =? 39 then (SAfterAttrValQ s n, []) else (SAttrValSQ s n, [])
  | SAttrValUnq s n =>
    if is_ws c then (SBeforeAttrName s n, [])
    else if c =? GT then (SData, emit s n)
    else (SAttrValUnq s n, [])
  | SAfterAttrValQ s n => before_attr_name s n c
  | SSelfClosing s n => if c =? GT then (SData, emit s n) else before_attr_name s n c
  | SBogus => ((if c =? GT then SData else SBogus), [])
  | SMarkupDecl seen => (markup_step seen c, [])
  | SComment s => (comment_step s c, [])
  | SDoctype => ((if c =? GT then SData else SDoctype), [])
  end.

(* start-tag names emitted while reading l from state st *)
Fixpoint run (st : tstate) (l : bytes) : list bytes :=
  match l with
  | [] => []
  | c :: r => let '(st', e) := step st c in e ++ run st' r
  end.
Definition start_tags (l : bytes) : list bytes := run SData l.

(* the name a tag opened at the head of r will have *)
Definition tokrest (r : bytes) : bytes := flat_map lower_nul (take_while (fun c => negb (is_delim c)) r).
Definition pend_open (r : bytes) : list bytes :=
  match r with c :: _ => if is_alpha c then [tokrest r] else [] | [] => [] end.
(* all names a '<'+letter in l could give rise to *)
Fixpoint cands (l : bytes) : list bytes :=
  match l with
  | [] => []
  | c :: r => (if c =? LT then pend_open r else []) ++ cands r
  end.
