From Coq Require Import List ZArith Lia Bool.
Import ListNotations.
Open Scope Z_scope.

Definition bytes := list Z.

Definition is_upper (c : Z) := (65 <=? c) && (c <=? 90).
Definition is_alpha (c : Z) := ((65 <=? c) && (c <=? 90)) || ((97 <=? c) && (c <=? 122)).
Definition is_digit (c : Z) := (48 <=? c) && (c <=? 57).
Definition is_name_char (c : Z) := is_alpha c || is_digit c || (c =? 45).
Definition lower (c : Z) := if is_upper c then c + 32 else c.

Fixpoint take_while (f : Z -> bool) (l : bytes) : bytes :=
  match l with [] => [] | c :: r => if f c then c :: take_while f r else [] end.
Fixpoint drop_while (f : Z -> bool) (l : bytes) : bytes :=
  match l with [] => [] | c :: r => if f c then drop_while f r else l end.

(* htmlTagNameEnd: the CommonMark tag name at the head of l (empty unless it starts with a letter) *)
Definition cm_name (l : bytes) : bytes :=
  match l with
  | c :: _ => if is_alpha c then take_while is_name_char l else []
  | [] => []
  end.

Definition LT : Z := 60.
Definition amp_lt : bytes := [38; 108; 116; 59].

(* The repaired filterRaw, as the function it computes: every '<' is judged on its own. *)
Fixpoint filter (p : bytes -> bool) (raw : bytes) : bytes :=
  match raw with
  | [] => []
  | c :: r =>
    if c =? LT
    then (if p (map lower (cm_name r)) then amp_lt else [LT]) ++ filter p r
    else c :: filter p r
  end.

(* out is inp with some '<' replaced by "&lt;" *)
Inductive lt_relaxed : bytes -> bytes -> Prop :=
| LR_nil : lt_relaxed [] []
| LR_keep c out inp : lt_relaxed out inp -> lt_relaxed (c :: out) (c :: inp)
| LR_esc out inp : lt_relaxed out inp -> lt_relaxed (amp_lt ++ out) (LT :: inp).

Theorem filter_relaxed p raw : lt_relaxed (filter p raw) raw.
Proof.
  induction raw as [|c r IH]; cbn [filter]; [constructor|].
  destruct (Z.eqb_spec c LT) as [->|]; [|constructor; assumption].
  destruct (p _); [apply LR_esc | apply (LR_keep LT)]; assumption.
Qed.

Theorem filter_none_id p raw : (forall n, p n = false) -> filter p raw = raw.
Proof.
  intros Hp. induction raw as [|c r IH]; cbn [filter]; [reflexivity|].
  rewrite Hp. destruct (Z.eqb_spec c LT) as [->|]; cbn [app]; rewrite IH; reflexivity.
Qed.

(* The name an observer reads after a '<' of the output is the name the filter judged. *)
Lemma is_name_char_not_lt c : is_name_char c = true -> c <> LT.
Proof. unfold is_name_char, is_alpha, is_digit, LT. intros H ->. cbn in H. discriminate. Qed.

Lemma take_while_filter p r : take_while is_name_char (filter p r) = take_while is_name_char r.
Proof.
  induction r as [|c r IH]; [reflexivity|]. cbn [filter].
  destruct (Z.eqb_spec c LT) as [->|Hne].
  - destruct (p _); reflexivity.
  - cbn [take_while]. destruct (is_name_char c); [f_equal; exact IH | reflexivity].
Qed.

Lemma cm_name_filter p r : cm_name (filter p r) = cm_name r.
Proof.
  destruct r as [|c r]; [reflexivity|].
  unfold cm_name at 2. destruct (is_alpha c) eqn:Ea.
  - assert (Hne : c <> LT) by (apply is_name_char_not_lt; unfold is_name_char; rewrite Ea; reflexivity).
    rewrite <- (take_while_filter p (c :: r)).
    cbn [filter]. destruct (Z.eqb_spec c LT); [contradiction|].
    unfold cm_name. rewrite Ea. reflexivity.
  - cbn [filter]. destruct (Z.eqb_spec c LT) as [->|].
    + destruct (p _); reflexivity.
    + unfold cm_name. rewrite Ea. reflexivity.
Qed.

(* Every '<' that survives in the output is followed by a name the predicate accepts. *)
Theorem filter_lt_ok p raw pre post :
  filter p raw = pre ++ LT :: post -> p (map lower (cm_name post)) = false.
Proof.
  revert pre. induction raw as [|c r IH]; intros pre H; cbn [filter] in H.
  - destruct pre; discriminate.
  - destruct (Z.eqb_spec c LT) as [->|Hne].
    + destruct (p (map lower (cm_name r))) eqn:Ep.
      * (* "&lt;" emitted: the '<' we are looking at is further right *)
        unfold amp_lt in H. cbn [app] in H.
        destruct pre as [|a [|b [|c' [|d pre']]]]; inversion H; subst; try discriminate.
        apply (IH pre'). assumption.
      * cbn [app] in H. destruct pre as [|a pre']; inversion H; subst.
        -- rewrite cm_name_filter. exact Ep.
        -- apply (IH pre'). assumption.
    + destruct pre as [|a pre']; inversion H; subst; [contradiction|]. apply (IH pre'). assumption.
Qed.
