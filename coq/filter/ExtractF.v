From Coq Require Import ExtrOcamlBasic.
Require Import Filter Tokenizer.
Extraction "filtermodel.ml" Filter.filter Tokenizer.start_tags.
