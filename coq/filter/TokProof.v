From Coq Require Import List ZArith Lia Bool.
Import ListNotations.
Require Import Filter Tokenizer.
Open Scope Z_scope.

Definition pend (st : tstate) (r : bytes) : list bytes :=
  match st with
  | STagOpen => pend_open r
  | STagName true acc => [acc ++ tokrest r]
  | SBeforeAttrName true n | SAttrName true n | SAfterAttrName true n | SBeforeAttrValue true n
  | SAttrValDQ true n | SAttrValSQ true n | SAttrValUnq true n | SAfterAttrValQ true n
  | SSelfClosing true n => [n]
  | _ => []
  end.

Lemma delim_cases c : is_delim c = true ->
  c = 9 \/ c = 10 \/ c = 12 \/ c = 13 \/ c = 32 \/ c = 47 \/ c = 62.
Proof.
  unfold is_delim, is_ws, SOL, GT. rewrite !orb_true_iff, !Z.eqb_eq. tauto.
Qed.

Lemma alpha_not_delim c : is_alpha c = true -> is_delim c = false.
Proof.
  intros Ha. destruct (is_delim c) eqn:E; [|reflexivity].
  apply delim_cases in E. destruct E as [->|[->|[->|[->|[->|[->| ->]]]]]]; discriminate.
Qed.

Lemma alpha_not_lt c : is_alpha c = true -> (c =? LT) = false.
Proof. intros Ha. destruct (Z.eqb_spec c LT) as [->|]; [discriminate|reflexivity]. Qed.

Lemma tokrest_delim c r : is_delim c = true -> tokrest (c :: r) = [].
Proof. intros H. unfold tokrest. cbn [take_while]. rewrite H. reflexivity. Qed.

Lemma tokrest_nondelim c r : is_delim c = false -> tokrest (c :: r) = lower_nul c ++ tokrest r.
Proof. intros H. unfold tokrest. cbn [take_while]. rewrite H. reflexivity. Qed.

Lemma incl_nil_l' {A} (l : list A) : incl [] l. Proof. intros x []. Qed.

Ltac triv := first [ apply incl_nil_l' | apply incl_refl | (apply incl_appl; apply incl_refl) | (apply incl_appr; apply incl_refl)
                   | (let x := fresh in let H := fresh in intros x H; cbn [In app] in *; rewrite ?in_app_iff in *; cbn [In] in *; tauto) ].

(* in-tag states after the name: the pending name is carried unchanged or emitted *)
Lemma before_attr_ok s n c r X :
  let '(st', e) := before_attr_name s n c in incl (e ++ pend st' r) (emit s n ++ X).
Proof.
  unfold before_attr_name.
  destruct (is_ws c); [|destruct (c =? SOL); [|destruct (c =? GT)]];
    destruct s; cbn [emit pend app]; triv.
Qed.

Lemma emit_pend_in_tag s n : forall X : list bytes, incl (emit s n) (emit s n ++ X).
Proof. intros; apply incl_appl, incl_refl. Qed.

Lemma step_ok st c r :
  let '(st', e) := step st c in
  incl (e ++ pend st' r) (pend st (c :: r) ++ (if c =? LT then pend_open r else [])).
Proof.
  destruct st; cbn [step].
  - (* Data *) unfold data_step. destruct (c =? LT); cbn [pend app]; triv.
  - (* TagOpen *)
    cbn [pend]. change (pend_open (c :: r)) with (if is_alpha c then [tokrest (c :: r)] else []).
    destruct (c =? 33); [cbn [pend app]; triv|].
    destruct (c =? SOL); [cbn [pend app]; triv|].
    destruct (is_alpha c) eqn:Ea.
    + cbn [pend app]. rewrite (tokrest_nondelim c r (alpha_not_delim c Ea)). triv.
    + destruct (c =? 63); [cbn [pend app]; triv|].
      unfold data_step. destruct (c =? LT); cbn [pend app]; triv.
  - (* EndTagOpen *)
    destruct (is_alpha c); [cbn [pend app]; triv|]. destruct (c =? GT); cbn [pend app]; triv.
  - (* TagName *)
    destruct (is_ws c) eqn:E1.
    { destruct start; cbn [pend app]; [|triv].
      rewrite tokrest_delim by (unfold is_delim; rewrite E1; reflexivity). rewrite app_nil_r. triv. }
    destruct (c =? SOL) eqn:E2.
    { destruct start; cbn [pend app]; [|triv].
      rewrite tokrest_delim by (unfold is_delim; rewrite E1, E2; reflexivity). rewrite app_nil_r. triv. }
    destruct (c =? GT) eqn:E3.
    { destruct start; cbn [pend emit app]; [|triv].
      rewrite tokrest_delim by (unfold is_delim; rewrite E1, E2, E3; reflexivity). rewrite app_nil_r. triv. }
    destruct start; cbn [pend app]; [|triv].
    rewrite tokrest_nondelim by (unfold is_delim; rewrite E1, E2, E3; reflexivity).
    rewrite app_assoc. triv.
  - (* BeforeAttrName *)
    pose proof (before_attr_ok start name c r (if c =? LT then pend_open r else [])) as H.
    destruct (before_attr_name start name c) as [st' e]. destruct start; cbn [pend emit app] in *; exact H.
  - (* AttrName *)
    destruct (is_ws c); [|destruct (c =? SOL); [|destruct (c =? GT); [|destruct (c =? 61)]]];
      destruct start; cbn [pend emit app]; triv.
  - (* AfterAttrName *)
    destruct (is_ws c); [|destruct (c =? SOL); [|destruct (c =? 61); [|destruct (c =? GT)]]];
      destruct start; cbn [pend emit app]; triv.
  - (* BeforeAttrValue *)
    destruct (is_ws c); [|destruct (c =? 34); [|destruct (c =? 39); [|destruct (c =? GT)]]];
      destruct start; cbn [pend emit app]; triv.
  - destruct (c =? 34); destruct start; cbn [pend app]; triv.
  - destruct (c =? 39); destruct start; cbn [pend app]; triv.
  - (* AttrValUnq *)
    destruct (is_ws c); [|destruct (c =? GT)]; destruct start; cbn [pend emit app]; triv.
  - (* AfterAttrValQ *)
    pose proof (before_attr_ok start name c r (if c =? LT then pend_open r else [])) as H.
    destruct (before_attr_name start name c) as [st' e]. destruct start; cbn [pend emit app] in *; exact H.
  - (* SelfClosing *)
    destruct (c =? GT) eqn:E.
    { destruct start; cbn [pend emit app]; triv. }
    pose proof (before_attr_ok start name c r (if c =? LT then pend_open r else [])) as H.
    destruct (before_attr_name start name c) as [st' e]. destruct start; cbn [pend emit app] in *; exact H.
  - (* Bogus *) destruct (c =? GT); cbn [pend app]; triv.
  - (* MarkupDecl: never inside a tag *)
    unfold markup_step.
    repeat match goal with |- context [if ?b then _ else _] => destruct b end; cbn [pend app]; triv.
  - (* Comment *)
    destruct c0; cbn [comment_step]; unfold c_end, c_enddash, c_main;
      repeat match goal with |- context [if ?b then _ else _] => destruct b end; cbn [pend app]; triv.
  - (* Doctype *) destruct (c =? GT); cbn [pend app]; triv.
Qed.

Theorem run_incl : forall l st, incl (run st l) (pend st l ++ cands l).
Proof.
  induction l as [|c r IH]; intros st; cbn [run]; [apply incl_nil_l'|].
  pose proof (step_ok st c r) as Hs. destruct (step st c) as [st' e].
  cbn [cands].
  intros x Hx. apply in_app_or in Hx. destruct Hx as [Hx|Hx].
  - specialize (Hs x (in_or_app _ _ _ (or_introl Hx))).
    apply in_app_or in Hs. destruct Hs as [Hs|Hs]; apply in_or_app; [left; assumption|].
    right. apply in_or_app. left. assumption.
  - apply IH in Hx. apply in_app_or in Hx. destruct Hx as [Hx|Hx].
    + specialize (Hs x (in_or_app _ _ _ (or_intror Hx))).
      apply in_app_or in Hs. destruct Hs as [Hs|Hs]; apply in_or_app; [left; assumption|].
      right. apply in_or_app. left. assumption.
    + apply in_or_app. right. apply in_or_app. right. assumption.
Qed.

(* Every start tag the tokenizer emits was opened by a '<' followed by a letter. *)
Lemma cands_in l n : In n (cands l) ->
  exists pre c post, l = pre ++ LT :: c :: post /\ is_alpha c = true /\ n = tokrest (c :: post).
Proof.
  induction l as [|a r IH]; cbn [cands]; [intros []|].
  intros H. apply in_app_or in H. destruct H as [H|H].
  - destruct (Z.eqb_spec a LT) as [->|]; [|destruct H].
    unfold pend_open in H. destruct r as [|c post]; [destruct H|].
    destruct (is_alpha c) eqn:Ea; [|destruct H]. destruct H as [<-|[]].
    exists [], c, post. repeat split; assumption.
  - destruct (IH H) as (pre & c & post & -> & Ha & Hn). exists (a :: pre), c, post. repeat split; assumption.
Qed.

Corollary start_tag_origin l n : In n (start_tags l) ->
  exists pre c post, l = pre ++ LT :: c :: post /\ is_alpha c = true /\ n = tokrest (c :: post).
Proof. intros H. apply run_incl in H. cbn [pend app] in H. apply cands_in. exact H. Qed.

(* The tokenizer's name extends the CommonMark tag name the filter judged. *)
Lemma name_char_facts c : is_name_char c = true ->
  is_delim c = false /\ lower_nul c = [lower c] /\ is_name_char (lower c) = true.
Proof.
  intros H. split; [|split].
  - destruct (is_delim c) eqn:E; [|reflexivity]. apply delim_cases in E.
    destruct E as [->|[->|[->|[->|[->|[->| ->]]]]]]; discriminate.
  - unfold lower_nul. destruct (Z.eqb_spec c 0) as [->|]; [discriminate|reflexivity].
  - unfold lower. destruct (is_upper c) eqn:Eu; [|assumption].
    unfold is_upper in Eu. apply andb_true_iff in Eu. destruct Eu as [E1 E2].
    apply Z.leb_le in E1, E2. unfold is_name_char, is_alpha.
    replace (97 <=? c + 32) with true by (symmetry; apply Z.leb_le; lia).
    replace (c + 32 <=? 122) with true by (symmetry; apply Z.leb_le; lia).
    rewrite orb_true_r. reflexivity.
Qed.

Lemma non_name_head c : is_name_char c = false -> is_delim c = false ->
  match lower_nul c with x :: _ => is_name_char x = false | [] => True end.
Proof.
  intros Hn Hd. unfold lower_nul. destruct (Z.eqb_spec c 0); [reflexivity|].
  unfold lower. destruct (is_upper c) eqn:Eu; [|assumption].
  unfold is_name_char, is_alpha in Hn. unfold is_upper in Eu. rewrite Eu in Hn. discriminate.
Qed.

Lemma take_name_tokrest l :
  take_while is_name_char (tokrest l) = map lower (take_while is_name_char l).
Proof.
  induction l as [|c r IH]; [reflexivity|].
  destruct (is_name_char c) eqn:En.
  - destruct (name_char_facts c En) as (Hd & Hl & Hnl).
    rewrite (tokrest_nondelim c r Hd), Hl. cbn [app take_while map]. rewrite Hnl, En. cbn [map]. f_equal. exact IH.
  - cbn [take_while]. rewrite En. cbn [map].
    destruct (is_delim c) eqn:Ed.
    + rewrite (tokrest_delim c r Ed). reflexivity.
    + rewrite (tokrest_nondelim c r Ed). pose proof (non_name_head c En Ed) as H.
      destruct (lower_nul c) as [|x xs] eqn:El; [|cbn [app take_while]; rewrite H; reflexivity].
      unfold lower_nul in El. destruct (c =? 0); discriminate.
Qed.

Definition prefix_closed (p : bytes -> bool) : Prop :=
  forall n, p n = true -> p (take_while is_name_char n) = true.

(* C17, third clause, for one raw fragment: after filtering, no start tag with a rejected name. *)
Theorem no_rejected_start p raw : prefix_closed p ->
  forall n, In n (start_tags (filter p raw)) -> p n = false.
Proof.
  intros Hpc n Hn. destruct (p n) eqn:Ep; [|reflexivity]. exfalso.
  destruct (start_tag_origin _ _ Hn) as (pre & c & post & Hl & Ha & ->).
  pose proof (filter_lt_ok p raw pre (c :: post) Hl) as Hok.
  apply Hpc in Ep. rewrite take_name_tokrest in Ep.
  unfold cm_name in Hok. rewrite Ha in Hok. congruence.
Qed.

(* Instances of the side condition. *)
Lemma prefix_closed_all : prefix_closed (fun _ => true). Proof. intros n _. reflexivity. Qed.
Lemma prefix_closed_none : prefix_closed (fun _ => false). Proof. intros n H. discriminate. Qed.
Lemma take_while_all f l : forallb f l = true -> take_while f l = l.
Proof. induction l as [|c r IH]; [reflexivity|]. cbn. destruct (f c); [cbn; intros H; f_equal; auto | discriminate]. Qed.
Lemma prefix_closed_names (names : list bytes) :
  Forall (fun n => forallb is_name_char n = true) names ->
  prefix_closed (fun n => existsb (fun m => if list_eq_dec Z.eq_dec m n then true else false) names).
Proof.
  intros HF n H. apply existsb_exists in H. destruct H as (m & Hin & Hm).
  destruct (list_eq_dec Z.eq_dec m n) as [->|]; [|discriminate].
  rewrite Forall_forall in HF. rewrite (take_while_all _ _ (HF _ Hin)).
  apply existsb_exists. exists n. split; [assumption|]. destruct (list_eq_dec Z.eq_dec n n); [reflexivity|contradiction].
Qed.
Print Assumptions no_rejected_start.
