From Coq Require Import List Arith ZArith Lia Bool.
Import ListNotations.
Require Import Reader ReaderProof BP.

(* C14, padding clause: blank lines in front of a document only shift offsets and line numbers. *)
Definition no_eolb (l : bytes) : Prop := Forall (fun b => is_eol b = false) l.
Definition is_blank_body (l : bytes) : Prop := Forall (fun b => b = 32%Z \/ b = 9%Z) l.

(* a complete blank line, together with what follows it (so that CR is not glued to a following LF) *)
Inductive blank_line (rest : bytes) : bytes -> Prop :=
| BL_lf body : is_blank_body body -> blank_line rest (body ++ [10%Z])
| BL_crlf body : is_blank_body body -> blank_line rest (body ++ [13%Z; 10%Z])
| BL_cr body : is_blank_body body -> (match rest with 10%Z :: _ => False | _ => True end) -> blank_line rest (body ++ [13%Z]).

Lemma blank_no_eol body : is_blank_body body -> no_eolb body.
Proof. intros H. eapply Forall_impl; [|exact H]. intros a [->| ->]; reflexivity. Qed.

Lemma find_eol_app_none a b : no_eolb a -> find_eol (a ++ b) = option_map (fun k => length a + k) (find_eol b).
Proof.
  induction a as [|x a IH]; intros H.
  - cbn. destruct (find_eol b); reflexivity.
  - inversion H; subst. cbn [app find_eol length]. rewrite H2, IH by assumption.
    destruct (find_eol b); reflexivity.
Qed.

Lemma nth_app_r (a b : bytes) : nth (length a) (a ++ b) 0%Z = nth 0 b 0%Z.
Proof. rewrite app_nth2 by lia. rewrite Nat.sub_diag. reflexivity. Qed.

Lemma find_eol_at (body : bytes) c t : no_eolb body -> is_eol c = true -> find_eol (body ++ c :: t) = Some (length body).
Proof. intros Hb Hc. rewrite (find_eol_app_none _ _ Hb). cbn [find_eol]. rewrite Hc. cbn. f_equal. lia. Qed.

Lemma nth_at (body : bytes) c t : nth (length body) (body ++ c :: t) 0%Z = c.
Proof. rewrite nth_app_r. reflexivity. Qed.
Lemma nth_at1 (body : bytes) c d t : nth (length body + 1) (body ++ c :: d :: t) 0%Z = d.
Proof.
  replace (body ++ c :: d :: t) with ((body ++ [c]) ++ d :: t) by (rewrite <- app_assoc; reflexivity).
  replace (length body + 1) with (length (body ++ [c])) by (rewrite app_length; cbn; lia). apply nth_at.
Qed.

(* the in-memory line decision on a buffer that starts with a complete line *)
Lemma decide_line rest l : blank_line rest l -> decide (l ++ rest) 0 true = Some (length l).
Proof.
  intros H. unfold decide. cbn [skipn].
  destruct H as [body Hb|body Hb|body Hb Hr]; rewrite <- app_assoc; cbn [app].
  - rewrite (find_eol_at body 10%Z rest (blank_no_eol _ Hb) eq_refl). cbn zeta. rewrite Nat.add_0_l, nth_at.
    rewrite Z.eqb_refl. rewrite app_length. reflexivity.
  - rewrite (find_eol_at body 13%Z (10%Z :: rest) (blank_no_eol _ Hb) eq_refl). cbn zeta. rewrite Nat.add_0_l, nth_at.
    replace (Z.eqb 13 10) with false by reflexivity.
    rewrite !app_length. cbn [length].
    destruct (Nat.ltb_spec (length body + 1) (length body + S (S (length rest)))); [|lia].
    rewrite nth_at1. rewrite Z.eqb_refl. reflexivity || (f_equal; lia).
  - rewrite (find_eol_at body 13%Z rest (blank_no_eol _ Hb) eq_refl). cbn zeta. rewrite Nat.add_0_l, nth_at.
    replace (Z.eqb 13 10) with false by reflexivity.
    rewrite !app_length. cbn [length].
    destruct rest as [|r0 rest'].
    + cbn [length]. destruct (Nat.ltb_spec (length body + 1) (length body + 1)); [lia|]. f_equal.
    + cbn [length]. destruct (Nat.ltb_spec (length body + 1) (length body + S (S (length rest')))); [|lia].
      rewrite nth_at1. destruct (Z.eqb_spec r0 10) as [->|]; [contradiction|]. reflexivity.
Qed.

Lemma pad_blank body : is_blank_body body -> pad body = body.
Proof.
  induction 1 as [|x l Hx Hl IH]; [reflexivity|]. unfold pad in *. cbn [flat_map]. rewrite IH.
  destruct Hx as [->| ->]; reflexivity.
Qed.
Lemma blank_line_facts rest l : blank_line rest l ->
  pad l = l /\ isBlankLine l = true /\ nullCount l = 0 /\ lineCount l = 1 - 1 + (if true then 1 else 0) - 0 * 0 /\ True.
Proof. Abort.

Lemma nullCount_blank body t : is_blank_body body -> nullCount (body ++ t) = nullCount t.
Proof. induction 1 as [|x l Hx Hl IH]; [reflexivity|]. cbn [app nullCount]. destruct Hx as [->| ->]; cbn; exact IH. Qed.
Lemma isBlank_blank body t : is_blank_body body -> isBlankLine (body ++ t) = isBlankLine t.
Proof. induction 1 as [|x l Hx Hl IH]; [reflexivity|]. unfold isBlankLine in *. cbn [app forallb]. destruct Hx as [->| ->]; cbn; exact IH. Qed.

Lemma blank_line_props rest l : blank_line rest l -> isBlankLine l = true /\ unpadded l = length l /\ pad l = l.
Proof.
  intros [body Hb|body Hb|body Hb _].
  - repeat split.
    + rewrite isBlank_blank by assumption. reflexivity.
    + unfold unpadded. rewrite nullCount_blank by assumption. cbn. lia.
    + unfold pad. rewrite flat_map_app. fold (pad body). rewrite pad_blank by assumption. reflexivity.
  - repeat split.
    + rewrite isBlank_blank by assumption. reflexivity.
    + unfold unpadded. rewrite nullCount_blank by assumption. cbn. lia.
    + unfold pad. rewrite flat_map_app. fold (pad body). rewrite pad_blank by assumption. reflexivity.
  - repeat split.
    + rewrite isBlank_blank by assumption. reflexivity.
    + unfold unpadded. rewrite nullCount_blank by assumption. cbn. lia.
    + unfold pad. rewrite flat_map_app. fold (pad body). rewrite pad_blank by assumption. reflexivity.
Qed.

(* a sequence of blank lines in front of rest *)
Inductive blank_lines (rest : bytes) : list bytes -> Prop :=
| BLs_nil : blank_lines rest []
| BLs_cons l ls : blank_line (concat ls ++ rest) l -> blank_lines rest ls -> blank_lines rest (l :: ls).

Section Skip.
  Variable errT : Type.
  Variables chunkSize maxBlockSize : nat.
  Variable tooLarge : errT.
  Variable rf : nat.
  Hypothesis rf_pos : 1 <= rf.
  Variable blockT : Type.
  Variable is_open : blockT -> bool.
  Variable end_of : blockT -> nat.
  Variable shift : nat -> blockT -> blockT.
  Variable process_line : list blockT -> nat -> bytes -> list blockT.
  Variable fin : errT.
  Variable r0 : reader errT.

  Notation sl := (skip_loop errT chunkSize maxBlockSize tooLarge rf blockT is_open end_of shift process_line).
  Definition memst (b : bytes) (o ln : nat) : bps errT blockT :=
    {| io := {| buf := b; pos := 0; err := Some fin; rd := r0 |}; offset := o; lineno := ln; blocks := [] |}.

  Lemma rl_line rest l : blank_line rest l ->
    rl errT chunkSize maxBlockSize tooLarge rf {| buf := l ++ rest; pos := 0; err := Some fin; rd := r0 |} =
    Some ({| buf := l ++ rest; pos := length l; err := Some fin; rd := r0 |}, true).
  Proof.
    intros Hl. unfold rl. destruct rf as [|k]; [lia|]. cbn [readline has_err err buf pos].
    rewrite (decide_line rest l Hl). cbn [rd].
    assert (0 <? length l = true).
    { apply Nat.ltb_lt. destruct Hl; rewrite app_length; cbn; lia. }
    rewrite H. reflexivity.
  Qed.

  (* the skipping loop eats the blank lines one by one, adding their length and one line each *)
  Theorem skip_blank_lines ls : forall rest fuel o ln, blank_lines rest ls ->
    sl (length ls + fuel) (memst (concat ls ++ rest) o ln) = sl fuel (memst rest (o + length (concat ls)) (ln + length ls)).
  Proof.
    induction ls as [|l ls IH]; intros rest fuel o ln H.
    - cbn. rewrite !Nat.add_0_r. reflexivity.
    - inversion H as [|? ? Hl Hls]; subst. cbn [length Nat.add concat skip_loop].
      unfold memst at 1. cbn [io]. rewrite <- app_assoc. rewrite (rl_line _ l Hl). cbn [negb].
      cbn [pos buf]. rewrite firstn_app, Nat.sub_diag, firstn_all. cbn [firstn]. rewrite app_nil_r.
      destruct (blank_line_props _ _ Hl) as (Hb & Hu & _). rewrite Hb, Hu.
      unfold adv. cbn [buf pos err rd]. rewrite skipn_app, Nat.sub_diag, skipn_all. cbn [skipn app].
      rewrite ?Nat.sub_diag.
      cbn [offset lineno blocks memst].
      change ({| io := {| buf := concat ls ++ rest; pos := 0; err := Some fin; rd := r0 |};
                 offset := o + length l; lineno := ln + 1; blocks := [] |}) with (memst (concat ls ++ rest) (o + length l) (ln + 1)).
      rewrite IH by assumption. rewrite app_length. f_equal. unfold memst. f_equal; lia.
  Qed.
End Skip.
Print Assumptions skip_blank_lines.

(* offsets and line numbers are only accumulated: shifting the start shifts every report *)
Section Equivariance.
  Variable errT : Type.
  Variables chunkSize maxBlockSize : nat.
  Variable tooLarge : errT.
  Variable rf : nat.
  Variable blockT : Type.
  Variable is_open : blockT -> bool.
  Variable end_of : blockT -> nat.
  Variable shift : nat -> blockT -> blockT.
  Variable process_line : list blockT -> nat -> bytes -> list blockT.
  Variables dOff dLine : nat.

  Notation bps := (bps errT blockT).
  Definition shiftS (s : bps) : bps :=
    {| io := io _ _ s; offset := offset _ _ s + dOff; lineno := lineno _ _ s + dLine; blocks := blocks _ _ s |}.
  Definition shiftR (r : root blockT) : root blockT :=
    {| r_source := r_source _ r; r_line := r_line _ r + dLine; r_start := r_start _ r + dOff; r_end := r_end _ r + dOff; r_blk := r_blk _ r |}.
  Definition shiftRes (x : nb_result errT blockT) : nb_result errT blockT :=
    match x with
    | NBBlock _ _ r s => NBBlock _ _ (shiftR r) (shiftS s)
    | NBErr _ _ e s => NBErr _ _ e (shiftS s)
    | NBStuck _ _ => NBStuck _ _
    end.

  Notation mk := (make_root errT blockT is_open end_of shift).
  Notation ll := (line_loop errT chunkSize maxBlockSize tooLarge rf blockT is_open end_of shift process_line).
  Notation sl := (skip_loop errT chunkSize maxBlockSize tooLarge rf blockT is_open end_of shift process_line).
  Notation nb := (next_block errT chunkSize maxBlockSize tooLarge rf blockT is_open end_of shift process_line).

  Lemma mk_shift ch s : mk ch (shiftS s) = option_map (fun rs => (shiftR (fst rs), shiftS (snd rs))) (mk ch s).
  Proof.
    unfold make_root. destruct ch as [|b rest]; [reflexivity|]. destruct (is_open b); [reflexivity|].
    cbn [option_map fst snd shiftS shiftR io offset lineno blocks r_source r_line r_start r_end r_blk].
    unfold shiftR, shiftS. cbn [io offset lineno blocks r_source r_line r_start r_end r_blk].
    f_equal. f_equal; (f_equal; lia).
  Qed.

  Lemma with_io_shift s p : with_io _ _ (shiftS s) p = shiftS (with_io _ _ s p).
  Proof. reflexivity. Qed.

  Lemma ll_shift : forall fuel ch ls s, ll fuel ch ls (shiftS s) = shiftRes (ll fuel ch ls s).
  Proof.
    induction fuel as [|f IH]; intros ch ls s; [reflexivity|]. cbn [line_loop].
    change (io errT blockT (shiftS s)) with (io errT blockT s).
    rewrite mk_shift. destruct (mk _ s) as [[r s']|]; [reflexivity|]. cbn [option_map].
    destruct (rl _ _ _ _ _ _) as [[p1 ok]|]; [|reflexivity]. rewrite with_io_shift. apply IH.
  Qed.

  Lemma sl_shift : forall fuel s, sl fuel (shiftS s) = shiftRes (sl fuel s).
  Proof.
    induction fuel as [|f IH]; intros s; [reflexivity|]. cbn [skip_loop].
    change (io errT blockT (shiftS s)) with (io errT blockT s).
    destruct (rl _ _ _ _ _ _) as [[p1 ok]|]; [|reflexivity].
    destruct (negb ok); [reflexivity|].
    destruct (isBlankLine _).
    - change (blocks errT blockT (shiftS s)) with (blocks errT blockT s).
      cbn [shiftS offset lineno].
      replace {| io := adv errT p1 (pos p1); offset := offset errT blockT s + dOff + unpadded (firstn (pos p1) (buf p1));
                 lineno := lineno errT blockT s + dLine + 1; blocks := blocks errT blockT s |}
        with (shiftS {| io := adv errT p1 (pos p1); offset := offset errT blockT s + unpadded (firstn (pos p1) (buf p1));
                        lineno := lineno errT blockT s + 1; blocks := blocks errT blockT s |})
        by (unfold shiftS; cbn [io offset lineno blocks]; f_equal; lia).
      apply IH.
    - rewrite with_io_shift. apply ll_shift.
  Qed.

  Theorem nb_shift fuel s : nb fuel (shiftS s) = shiftRes (nb fuel s).
  Proof.
    unfold next_block. change (blocks errT blockT (shiftS s)) with (blocks errT blockT s).
    rewrite mk_shift. destruct (mk _ s) as [[r s']|]; [reflexivity|]. cbn [option_map].
    change (io errT blockT (shiftS s)) with (io errT blockT s).
    destruct (blocks errT blockT s) as [|b0 rest].
    - cbn [shiftS offset lineno].
      replace {| io := adv errT (io errT blockT s) (pos (io errT blockT s));
                 offset := offset errT blockT s + dOff + unpadded (firstn (pos (io errT blockT s)) (buf (io errT blockT s)));
                 lineno := lineno errT blockT s + dLine + lineCount (firstn (pos (io errT blockT s)) (buf (io errT blockT s)));
                 blocks := [] |}
        with (shiftS {| io := adv errT (io errT blockT s) (pos (io errT blockT s));
                        offset := offset errT blockT s + unpadded (firstn (pos (io errT blockT s)) (buf (io errT blockT s)));
                        lineno := lineno errT blockT s + lineCount (firstn (pos (io errT blockT s)) (buf (io errT blockT s)));
                        blocks := [] |})
        by (unfold shiftS; cbn [io offset lineno blocks]; f_equal; lia).
      apply sl_shift.
    - destruct (rl _ _ _ _ _ _) as [[p1 ok]|]; [|reflexivity]. rewrite with_io_shift. apply ll_shift.
  Qed.
End Equivariance.
Print Assumptions nb_shift.
