From Coq Require Import List Arith ZArith Lia Bool.
Import ListNotations.
Require Import Reader.

Lemma pad_app a b : pad (a ++ b) = pad a ++ pad b.
Proof. unfold pad. apply flat_map_app. Qed.

Lemma find_eol_lt l k : find_eol l = Some k -> k < length l.
Proof.
  revert k; induction l as [|b r IH]; intros k H; cbn in *; [discriminate|].
  destruct (is_eol b); [inversion H; lia|].
  destruct (find_eol r) as [k'|]; cbn in H; [|discriminate]. inversion H. specialize (IH k' eq_refl). lia.
Qed.

Lemma find_eol_app_some a b k : find_eol a = Some k -> find_eol (a ++ b) = Some k.
Proof.
  revert k; induction a as [|x a IH]; intros k H; cbn in *; [discriminate|].
  destruct (is_eol x); [assumption|].
  destruct (find_eol a) as [k'|]; cbn in H; [|discriminate]. rewrite (IH k' eq_refl). assumption.
Qed.

Section P.
  Variable errT : Type.
  Variables chunkSize maxBlockSize : nat.
  Hypothesis chunk_pos : 0 < chunkSize.

  Notation reader := (reader errT).
  Notation bp := (bp errT).
  Notation readline := (readline chunkSize maxBlockSize).

  Lemma decide_true b i : exists x, decide b i true = Some x.
  Proof.
    unfold decide. destruct (find_eol (skipn i b)); [|eauto].
    destruct (Z.eqb _ 10); [eauto|]. destruct (_ <? _); eauto.
  Qed.

  (* A decision taken on a shorter buffer is the decision on any extension of it;
     a decision taken at end of input (haserr) is only used when nothing is appended. *)
  Lemma decide_ext bs ext i h x : i <= length bs -> (h = true -> ext = []) ->
    decide bs i h = Some x -> decide (bs ++ ext) i true = Some x.
  Proof.
    intros Hi Hh Hd. unfold decide in *.
    rewrite skipn_app. replace (i - length bs) with 0 by lia. rewrite skipn_O.
    destruct (find_eol (skipn i bs)) as [k|] eqn:Ek.
    - rewrite (find_eol_app_some _ ext _ Ek).
      pose proof (find_eol_lt _ _ Ek) as Hk. rewrite skipn_length in Hk.
      rewrite app_nth1 by lia.
      destruct (Z.eqb (nth (i + k) bs 0%Z) 10); [assumption|].
      destruct (Nat.ltb_spec (i + k + 1) (length bs)) as [H1|H1].
      + rewrite app_length. destruct (Nat.ltb_spec (i + k + 1) (length bs + length ext)); [|lia].
        rewrite app_nth1 by lia. assumption.
      + destruct h; [|discriminate]. rewrite (Hh eq_refl), app_nil_r.
        destruct (Nat.ltb_spec (i + k + 1) (length bs)); [lia|]. assumption.
    - destruct h; [|discriminate]. rewrite (Hh eq_refl), !app_nil_r, Ek. assumption.
  Qed.

  Lemma read_spec (r : reader) cap chunk e (r' : reader) : read r cap = (chunk, e, r') ->
    rem r = chunk ++ rem r' /\ final r' = final r /\
    (forall x, e = Some x -> x = final r /\ rem r' = []) /\
    (0 < cap -> length (script r') + length (rem r') < length (script r) + length (rem r)
                \/ (e <> None) \/ False) /\
    length (script r') + length (rem r') <= length (script r) + length (rem r).
  Proof.
    unfold read. intros H.
    destruct (script r) as [|[n eg] sc] eqn:Es.
    - inversion H; subst; clear H; cbn [rem final script].
      split; [symmetry; apply firstn_skipn|]. split; [reflexivity|].
      split.
      + intros x Hx. destruct (skipn _ _) eqn:E; inversion Hx. auto.
      + split.
        * intros Hc. destruct (rem r) as [|b l] eqn:Er.
          -- right; left. rewrite skipn_nil. discriminate.
          -- left. rewrite skipn_length. cbn [length]. lia.
        * rewrite skipn_length. cbn [length]. lia.
    - inversion H; subst; clear H; cbn [rem final script].
      split; [symmetry; apply firstn_skipn|]. split; [reflexivity|].
      split.
      + intros x Hx. destruct (skipn _ _) eqn:E; [|discriminate]. destruct eg; inversion Hx. auto.
      + split; [intros _; left|]; rewrite skipn_length; cbn [length]; lia.
  Qed.

  Lemma new_size_gt len : len + 3 <= maxBlockSize -> len < new_size chunkSize maxBlockSize len.
  Proof.
    intros H. unfold new_size. destruct (_ <? _); [|lia].
    assert (1 <= (maxBlockSize - len) / 3) by (apply Nat.div_le_lower_bound; lia). lia.
  Qed.

  Definition R (fin : errT) (pm ps : bp) : Prop :=
    pos pm = pos ps /\ err pm = Some fin /\ pos ps <= length (buf ps) /\
    buf pm = buf ps ++ pad (rem (rd ps)) /\ final (rd ps) = fin /\
    (err ps = None \/ (err ps = Some fin /\ rem (rd ps) = [])).

  Definition fuel_ok (fuel : nat) (ps : bp) : Prop :=
    match err ps with
    | None => length (script (rd ps)) + length (rem (rd ps)) + 2 <= fuel
    | Some _ => 1 <= fuel
    end.

  Lemma decide_bounds b i h x : i <= length b -> decide b i h = Some x ->
    i <= x <= length b /\ (h = false -> i < x).
  Proof.
    intros Hi Hd. unfold decide in Hd.
    destruct (find_eol (skipn i b)) as [k|] eqn:Ek.
    - pose proof (find_eol_lt _ _ Ek) as Hk. rewrite skipn_length in Hk.
      destruct (Z.eqb _ 10); [inversion Hd; lia|].
      destruct (Nat.ltb_spec (i + k + 1) (length b)).
      + destruct (Z.eqb _ 10); inversion Hd; lia.
      + destruct h; inversion Hd; subst. split; [lia|discriminate].
    - destruct h; inversion Hd; subst. split; [lia|discriminate].
  Qed.

  Theorem readline_sim fin : forall fuel pm ps,
    R fin pm ps -> length (buf pm) + 3 <= maxBlockSize -> fuel_ok fuel ps ->
    exists e ps',
      readline 1 pm = RLLine {| buf := buf pm; pos := e; err := err pm; rd := rd pm |} (pos pm <? e) /\
      readline fuel ps = RLLine ps' (pos pm <? e) /\
      R fin {| buf := buf pm; pos := e; err := err pm; rd := rd pm |} ps' /\
      pos ps <= pos ps' /\ ((pos pm <? e) = false -> err ps' <> None) /\
      length (script (rd ps')) + length (rem (rd ps')) <= length (script (rd ps)) + length (rem (rd ps)).
  Proof.
    induction fuel as [|f IH]; intros pm ps HR Hsmall Hfuel.
    { unfold fuel_ok in Hfuel. destruct (err ps); lia. }
    destruct HR as (Hpos & Herrm & Hle & Hbuf & Hfin & Herrs).
    cbn [Reader.readline].
    unfold has_err at 1. rewrite Herrm.
    destruct (decide (buf ps) (pos ps) (has_err ps)) as [x|] eqn:Ed.
    - (* streaming side decides now *)
      assert (Hx : decide (buf pm) (pos pm) true = Some x).
      { rewrite Hbuf, Hpos. eapply decide_ext; [exact Hle | | exact Ed].
        unfold has_err. destruct Herrs as [E|[E Hr]]; rewrite E; [discriminate|]. intros _. rewrite Hr. reflexivity. }
      rewrite Hx. exists x, {| buf := buf ps; pos := x; err := err ps; rd := rd ps |}.
      rewrite Hpos. split; [reflexivity|]. split; [reflexivity|].
      destruct (decide_bounds _ _ _ _ Hle Ed) as ((Hx1 & Hx2) & Hx3).
      split; [|split; [|split]]; cbn [pos err buf rd].
      + unfold R. refine (conj _ (conj _ (conj _ (conj _ (conj _ _))))); cbn [pos err buf rd]; auto.
      + assumption.
      + intros Hok. apply Nat.ltb_ge in Hok. unfold has_err in Hx3. destruct (err ps); [discriminate|].
        specialize (Hx3 eq_refl). lia.
      + lia.
    - (* streaming side needs more data: it cannot have latched an error *)
      assert (Herr : err ps = None).
      { destruct Herrs as [E|[E _]]; [assumption|]. unfold has_err in Ed. rewrite E in Ed.
        destruct (decide_true (buf ps) (pos ps)) as (y & Hy). congruence. }
      assert (Hlen : length (buf ps) + 3 <= maxBlockSize).
      { rewrite Hbuf, app_length in Hsmall. lia. }
      pose proof (new_size_gt _ Hlen) as Hns.
      destruct (Nat.leb_spec (new_size chunkSize maxBlockSize (length (buf ps))) (length (buf ps))); [lia|].
      destruct (read (rd ps) (new_size chunkSize maxBlockSize (length (buf ps)) - length (buf ps)))
        as [[chunk e] r'] eqn:Er.
      apply read_spec in Er. destruct Er as (Hrem & Hfinal & Herr' & Hprog & Hmono).
      set (ps1 := {| buf := buf ps ++ pad chunk; pos := pos ps; err := e; rd := r' |}).
      assert (HR1 : R fin pm ps1).
      { unfold R, ps1. refine (conj _ (conj _ (conj _ (conj _ (conj _ _))))); cbn [pos err buf rd]; auto.
        - rewrite app_length. lia.
        - rewrite Hbuf, Hrem, pad_app, app_assoc. reflexivity.
        - congruence.
        - destruct e as [x|]; [right|left; reflexivity].
          destruct (Herr' x eq_refl) as (-> & Hr). split; [congruence|assumption]. }
      assert (Hf1 : fuel_ok f ps1).
      { unfold fuel_ok in *. rewrite Herr in Hfuel. cbn [err rd ps1].
        destruct e as [x|]; [lia|].
        destruct Hprog as [Hp|[Hp|[]]]; [lia | lia | congruence]. }
      destruct (IH pm ps1 HR1 Hsmall Hf1) as (x & ps' & H1 & H2 & H3 & H4 & H5 & H6).
      exists x, ps'. rewrite Herrm in H3.
      split; [|split; [exact H2|split; [exact H3|split; [exact H4|split; [exact H5|]]]]].
      + cbn [Reader.readline] in H1. unfold has_err in H1 at 1. rewrite Herrm in H1. exact H1.
      + cbn [rd ps1] in H6. lia.
  Qed.
End P.
Print Assumptions readline_sim.
