From Coq Require Import List Arith ZArith Lia Bool.
Import ListNotations.
Require Import Reader.

(* L0 helpers, transcribed *)
Fixpoint nullCount (l : bytes) : nat :=
  match l with [] => 0 | b :: r => (if Z.eqb b 0 then 1 else 0) + nullCount r end.
Definition unpadded (l : bytes) : nat := length l - nullCount l / 3 * 2.
Fixpoint fill_aux (k : nat) (l : bytes) : bytes :=
  match l with
  | [] => []
  | b :: r =>
    match k with
    | 2 => 191%Z :: fill_aux 1 r
    | 1 => 189%Z :: fill_aux 0 r
    | _ => if Z.eqb b 0 then 239%Z :: fill_aux 2 r else b :: fill_aux 0 r
    end
  end.
Definition fill := fill_aux 0.
Fixpoint lineCount (l : bytes) : nat :=
  match l with
  | [] => 0
  | b :: r =>
    (if Z.eqb b 10 then 1
     else if Z.eqb b 13 then match r with c :: _ => if Z.eqb c 10 then 0 else 1 | [] => 1 end
     else 0) + lineCount r
  end.
Definition is_blank_byte (b : Z) : bool := Z.eqb b 32 || Z.eqb b 9 || Z.eqb b 10 || Z.eqb b 13.
Definition isBlankLine (l : bytes) : bool := forallb is_blank_byte l.

Section BP.
  Variable errT : Type.
  Variables chunkSize maxBlockSize : nat.
  Variable tooLarge : errT.
  Variable rf : nat.                       (* fuel handed to each readline *)

  (* The per-line block machine (L2), abstract. *)
  Variable blockT : Type.
  Variable is_open : blockT -> bool.
  Variable end_of : blockT -> nat.
  Variable shift : nat -> blockT -> blockT.
  Variable process_line : list blockT -> nat -> bytes -> list blockT.

  Record root := { r_source : bytes; r_line : nat; r_start : nat; r_end : nat; r_blk : blockT }.
  Record bps := { io : bp errT; offset : nat; lineno : nat; blocks : list blockT }.

  Definition adv (p : bp errT) (n : nat) : bp errT :=
    {| buf := skipn n (buf p); pos := pos p - n; err := err p; rd := rd p |}.

  Definition make_root (children : list blockT) (s : bps) : option (root * bps) :=
    match children with
    | [] => None
    | b :: rest =>
      if is_open b then None else
      let n := end_of b in
      let pre := firstn n (buf (io s)) in
      let orig := unpadded pre in
      Some ({| r_source := fill pre; r_line := lineno s; r_start := offset s; r_end := offset s + orig; r_blk := b |},
            {| io := adv (io s) n; offset := offset s + orig; lineno := lineno s + lineCount pre;
               blocks := map (shift n) rest |})
    end.

  Definition rl (p : bp errT) : option (bp errT * bool) :=
    match readline chunkSize maxBlockSize rf p with
    | RLLine p' ok => Some (p', ok)
    | RLTooLarge p' => Some ({| buf := firstn (pos p') (buf p'); pos := pos p'; err := Some tooLarge; rd := rd p' |}, false)
    | RLFuel => None
    end.

  Inductive nb_result := NBBlock (r : root) (s : bps) | NBErr (e : option errT) (s : bps) | NBStuck.

  Definition with_io (s : bps) (p : bp errT) : bps :=
    {| io := p; offset := offset s; lineno := lineno s; blocks := blocks s |}.

  Fixpoint line_loop (fuel : nat) (children : list blockT) (lineStart : nat) (s : bps) : nb_result :=
    match fuel with
    | 0 => NBStuck
    | S f =>
      let children' := process_line children lineStart (firstn (pos (io s)) (buf (io s))) in
      match make_root children' s with
      | Some (r, s') => NBBlock r s'
      | None =>
        match rl (io s) with
        | Some (p1, _) => line_loop f children' (pos (io s)) (with_io s p1)
        | None => NBStuck
        end
      end
    end.

  Fixpoint skip_loop (fuel : nat) (s : bps) : nb_result :=
    match fuel with
    | 0 => NBStuck
    | S f =>
      match rl (io s) with
      | None => NBStuck
      | Some (p1, ok) =>
        if negb ok then NBErr (err p1) (with_io s p1)
        else
          let line := firstn (pos p1) (buf p1) in
          if isBlankLine line
          then skip_loop f {| io := adv p1 (pos p1); offset := offset s + unpadded line; lineno := lineno s + 1; blocks := blocks s |}
          else line_loop f [] 0 (with_io s p1)
      end
    end.

  Definition next_block (fuel : nat) (s : bps) : nb_result :=
    match make_root (blocks s) s with
    | Some (r, s') => NBBlock r s'
    | None =>
      match blocks s with
      | _ :: _ =>
        match rl (io s) with
        | Some (p1, _) => line_loop fuel (blocks s) (pos (io s)) (with_io s p1)
        | None => NBStuck
        end
      | [] =>
        let pre := firstn (pos (io s)) (buf (io s)) in
        skip_loop fuel {| io := adv (io s) (pos (io s)); offset := offset s + unpadded pre;
                          lineno := lineno s + lineCount pre; blocks := [] |}
      end
    end.
End BP.
