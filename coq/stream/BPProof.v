From Coq Require Import List Arith ZArith Lia Bool.
Import ListNotations.
Require Import Reader ReaderProof BP.

Section S.
  Variable errT : Type.
  Variables chunkSize maxBlockSize : nat.
  Hypothesis chunk_pos : 0 < chunkSize.
  Variable tooLarge : errT.
  Variable blockT : Type.
  Variable is_open : blockT -> bool.
  Variable end_of : blockT -> nat.
  Variable shift : nat -> blockT -> blockT.
  Variable process_line : list blockT -> nat -> bytes -> list blockT.

  (* The only things the stream layer needs from the block machine. *)
  Hypothesis shift_open : forall n b, is_open (shift n b) = is_open b.
  Hypothesis shift_end : forall n b, end_of (shift n b) = end_of b - n.
  Hypothesis pl_cut : forall ch ls src b,
    In b (process_line ch ls src) -> is_open b = false -> end_of b <= length src.

  Variables rfm rfs : nat.
  Hypothesis rfm_pos : 1 <= rfm.

  Notation bps := (bps errT blockT).
  Notation mkroot := (make_root errT blockT is_open end_of shift).
  Notation rlm := (rl errT chunkSize maxBlockSize tooLarge rfm).
  Notation rls := (rl errT chunkSize maxBlockSize tooLarge rfs).
  Notation llm := (line_loop errT chunkSize maxBlockSize tooLarge rfm blockT is_open end_of shift process_line).
  Notation lls := (line_loop errT chunkSize maxBlockSize tooLarge rfs blockT is_open end_of shift process_line).
  Notation slm := (skip_loop errT chunkSize maxBlockSize tooLarge rfm blockT is_open end_of shift process_line).
  Notation sls := (skip_loop errT chunkSize maxBlockSize tooLarge rfs blockT is_open end_of shift process_line).
  Notation nbm := (next_block errT chunkSize maxBlockSize tooLarge rfm blockT is_open end_of shift process_line).
  Notation nbs := (next_block errT chunkSize maxBlockSize tooLarge rfs blockT is_open end_of shift process_line).

  Definition cut_ok (l : list blockT) (n : nat) : Prop :=
    forall b, In b l -> is_open b = false -> end_of b <= n.

  Definition I (fin : errT) (sm ss : bps) : Prop :=
    R errT fin (io _ _ sm) (io _ _ ss) /\
    offset _ _ sm = offset _ _ ss /\ lineno _ _ sm = lineno _ _ ss /\ blocks _ _ sm = blocks _ _ ss /\
    length (buf (io _ _ sm)) + 3 <= maxBlockSize /\
    length (script (rd (io _ _ ss))) + length (rem (rd (io _ _ ss))) + 2 <= rfs.

  Lemma firstn_prefix (a e : bytes) n : n <= length a -> firstn n (a ++ e) = firstn n a.
  Proof. intros. rewrite firstn_app. replace (n - length a) with 0 by lia. rewrite firstn_O, app_nil_r. reflexivity. Qed.
  Lemma skipn_prefix (a e : bytes) n : n <= length a -> skipn n (a ++ e) = skipn n a ++ e.
  Proof. intros. rewrite skipn_app. replace (n - length a) with 0 by lia. rewrite skipn_O. reflexivity. Qed.

  Lemma R_adv fin pm ps n : R errT fin pm ps -> n <= pos ps -> R errT fin (adv errT pm n) (adv errT ps n).
  Proof.
    intros (Hpos & Herrm & Hle & Hbuf & Hfin & Herrs) Hn. unfold R, adv; cbn [pos err buf rd].
    refine (conj _ (conj _ (conj _ (conj _ (conj _ _))))); auto;
      try (rewrite skipn_length; lia); try lia.
    rewrite Hbuf. apply skipn_prefix. lia.
  Qed.

  Lemma R_firstn fin pm ps n : R errT fin pm ps -> n <= pos ps -> firstn n (buf pm) = firstn n (buf ps).
  Proof. intros (_ & _ & Hle & Hbuf & _) Hn. rewrite Hbuf. apply firstn_prefix. lia. Qed.

  Lemma readline_mem k (pm : bp errT) : has_err pm = true -> 1 <= k ->
    readline chunkSize maxBlockSize k pm = readline chunkSize maxBlockSize 1 pm.
  Proof.
    intros He Hk. destruct k as [|k]; [lia|]. cbn [Reader.readline]. rewrite He.
    destruct (decide_true (buf pm) (pos pm)) as (x & ->). reflexivity.
  Qed.

  Lemma rl_sim fin sm ss : I fin sm ss ->
    exists pm' ps' ok,
      rlm (io _ _ sm) = Some (pm', ok) /\ rls (io _ _ ss) = Some (ps', ok) /\
      I fin (with_io _ _ sm pm') (with_io _ _ ss ps') /\
      pos (io _ _ ss) <= pos ps' /\ (ok = false -> err pm' = err ps').
  Proof.
    intros (HR & Ho & Hl & Hb & Hsmall & Hmeas).
    assert (Hf : fuel_ok errT rfs (io _ _ ss)).
    { unfold fuel_ok. destruct (err (io _ _ ss)); lia. }
    destruct (readline_sim errT chunkSize maxBlockSize chunk_pos fin rfs _ _ HR Hsmall Hf)
      as (e & ps' & H1 & H2 & H3 & H4 & H5 & H6).
    pose proof HR as (Hpos & Herrm & _).
    assert (Hh : has_err (io _ _ sm) = true) by (unfold has_err; rewrite Herrm; reflexivity).
    unfold rl. rewrite (readline_mem _ _ Hh rfm_pos), H1, H2.
    eexists _, ps', _. split; [reflexivity|]. split; [reflexivity|].
    split; [|split; [assumption|]].
    - unfold I, with_io; cbn [io offset lineno blocks buf rd]. repeat (split; try assumption). lia.
    - intros Hok. specialize (H5 Hok). cbn [err]. destruct H3 as (_ & _ & _ & _ & _ & [E|[E _]]); congruence.
  Qed.

  Definition res_rel (fin : errT) (rm rs : nb_result errT blockT) : Prop :=
    match rm, rs with
    | NBBlock _ _ r1 sm', NBBlock _ _ r2 ss' =>
        r1 = r2 /\ I fin sm' ss' /\ cut_ok (blocks _ _ ss') (pos (io _ _ ss'))
    | NBErr _ _ e1 sm', NBErr _ _ e2 ss' =>
        e1 = e2 /\ I fin sm' ss' /\ cut_ok (blocks _ _ ss') (pos (io _ _ ss'))
    | NBStuck _ _, NBStuck _ _ => True
    | _, _ => False
    end.

  Lemma make_root_sim fin children sm ss : I fin sm ss -> cut_ok children (pos (io _ _ ss)) ->
    match mkroot children sm, mkroot children ss with
    | None, None => True
    | Some (r1, sm'), Some (r2, ss') =>
        r1 = r2 /\ I fin sm' ss' /\ cut_ok (blocks _ _ ss') (pos (io _ _ ss'))
    | _, _ => False
    end.
  Proof.
    intros (HR & Ho & Hl & Hb & Hsmall & Hmeas) Hcut. unfold make_root.
    destruct children as [|b rest]; [exact Logic.I|].
    destruct (is_open b) eqn:Eo; [exact Logic.I|].
    assert (Hn : end_of b <= pos (io _ _ ss)) by (apply Hcut; [left; reflexivity|assumption]).
    rewrite (R_firstn fin _ _ _ HR Hn), Ho, Hl.
    split; [reflexivity|]. split.
    - unfold I; cbn [io offset lineno blocks].
      split; [apply R_adv; assumption|]. repeat (split; try reflexivity).
      + unfold adv; cbn [buf]. rewrite skipn_length. lia.
      + unfold adv; cbn [rd]. assumption.
    - cbn [blocks io]. unfold adv; cbn [pos]. intros b' Hin Hop.
      apply in_map_iff in Hin. destruct Hin as (b0 & <- & Hin0).
      rewrite shift_open in Hop. rewrite shift_end.
      assert (end_of b0 <= pos (io _ _ ss)) by (apply Hcut; [right; assumption|assumption]). lia.
  Qed.

  Lemma line_loop_sim fin : forall fuel children ls sm ss,
    I fin sm ss -> res_rel fin (llm fuel children ls sm) (lls fuel children ls ss).
  Proof.
    induction fuel as [|f IH]; intros children ls sm ss HI; [exact Logic.I|].
    cbn [line_loop].
    pose proof HI as (HR & _).
    pose proof HR as (Hpos & _ & Hle & _).
    rewrite Hpos, (R_firstn fin _ _ _ HR (le_n _)).
    set (children' := process_line children ls (firstn (pos (io _ _ ss)) (buf (io _ _ ss)))).
    assert (Hcut : cut_ok children' (pos (io _ _ ss))).
    { intros b Hin Hop. pose proof (pl_cut _ _ _ _ Hin Hop) as H. rewrite firstn_length in H. lia. }
    pose proof (make_root_sim fin children' sm ss HI Hcut) as Hmr.
    destruct (mkroot children' sm) as [[r1 sm']|], (mkroot children' ss) as [[r2 ss']|]; try contradiction.
    - exact Hmr.
    - destruct (rl_sim fin sm ss HI) as (pm' & ps' & ok & E1 & E2 & HI' & _).
      rewrite E1, E2. apply IH. exact HI'.
  Qed.

  Lemma skip_loop_sim fin : forall fuel sm ss,
    I fin sm ss -> blocks _ _ ss = [] -> res_rel fin (slm fuel sm) (sls fuel ss).
  Proof.
    induction fuel as [|f IH]; intros sm ss HI Hnil; [exact Logic.I|].
    cbn [skip_loop].
    destruct (rl_sim fin sm ss HI) as (pm' & ps' & ok & E1 & E2 & HI' & _ & Herr).
    rewrite E1, E2. destruct ok; cbn [negb].
    - pose proof HI' as (HR' & Ho & Hl & Hb & Hsmall & Hmeas). cbn [with_io io] in HR'.
      pose proof HR' as (Hpos' & _).
      rewrite Hpos', (R_firstn fin _ _ _ HR' (le_n _)).
      destruct (isBlankLine (firstn (pos ps') (buf ps'))).
      + apply IH; [|cbn [blocks]; assumption].
        unfold I; cbn [io offset lineno blocks].
        pose proof HI as (_ & Ho0 & Hl0 & Hb0 & _).
        split; [apply R_adv; [assumption|lia]|].
        repeat (split; try congruence).
        * unfold adv; cbn [buf]. cbn [with_io io] in Hsmall. rewrite skipn_length. lia.
        * unfold adv; cbn [rd]. cbn [with_io io] in Hmeas. assumption.
      + apply line_loop_sim. exact HI'.
    - cbn [res_rel]. split; [apply Herr; reflexivity|]. split; [exact HI'|].
      cbn [with_io blocks]. rewrite Hnil. intros b [].
  Qed.

  Theorem next_block_sim fin fuel sm ss :
    I fin sm ss -> cut_ok (blocks _ _ ss) (pos (io _ _ ss)) ->
    res_rel fin (nbm fuel sm) (nbs fuel ss).
  Proof.
    intros HI Hcut. unfold next_block.
    pose proof (make_root_sim fin _ sm ss HI Hcut) as Hmr.
    pose proof HI as (HR & Ho & Hl & Hb & Hsmall & Hmeas).
    rewrite Hb in *.
    destruct (mkroot (blocks _ _ ss) sm) as [[r1 sm']|], (mkroot (blocks _ _ ss) ss) as [[r2 ss']|]; try contradiction.
    - exact Hmr.
    - destruct (blocks _ _ ss) as [|b0 rest] eqn:Eb.
      + pose proof HR as (Hpos & _).
        rewrite Hpos, (R_firstn fin _ _ _ HR (le_n _)), Ho, Hl.
        apply skip_loop_sim; [|reflexivity].
        unfold I; cbn [io offset lineno blocks].
        split; [apply R_adv; [assumption|lia]|].
        repeat (split; try reflexivity).
        * unfold adv; cbn [buf]. rewrite skipn_length. lia.
        * unfold adv; cbn [rd]. assumption.
      + destruct (rl_sim fin sm ss HI) as (pm' & ps' & ok & E1 & E2 & HI' & _).
        rewrite E1, E2. pose proof HR as (Hpos & _). rewrite Hpos.
        apply line_loop_sim. exact HI'.
  Qed.
End S.
Print Assumptions next_block_sim.
