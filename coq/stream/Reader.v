From Coq Require Import List Arith ZArith Lia Bool.
Import ListNotations.

(* bytes are Z, indices are nat *)
Definition bytes := list Z.

Definition padb (b : Z) : bytes := if Z.eqb b 0 then [0; 0; 0]%Z else [b].
Definition pad (l : bytes) : bytes := flat_map padb l.

Definition is_eol (b : Z) : bool := Z.eqb b 10 || Z.eqb b 13.
Fixpoint find_eol (l : bytes) : option nat :=
  match l with
  | [] => None
  | b :: r => if is_eol b then Some 0 else option_map S (find_eol r)
  end.

Section Reader.
  Variable errT : Type.
  Variables chunkSize maxBlockSize : nat.

  (* A reader: undelivered bytes, a script of (size cap, report the final error with the data that
     exhausts the input), the error reported at end of data (EOF or a fault). *)
  Record reader := { rem : bytes; script : list (nat * bool); final : errT }.

  Definition read (r : reader) (cap : nat) : bytes * option errT * reader :=
    let '(want, eager, script') :=
      match script r with
      | [] => (cap, true, [])
      | (n, e) :: sc => (Nat.min n cap, e, sc)
      end in
    let k := Nat.min want (length (rem r)) in
    let rem' := skipn k (rem r) in
    let e := match rem' with [] => if eager then Some (final r) else None | _ => None end in
    (firstn k (rem r), e, {| rem := rem'; script := script'; final := final r |}).

  Record bp := { buf : bytes; pos : nat; err : option errT; rd : reader }.

  (* One pass of the loop body up to the point where more data is needed. *)
  Definition decide (b : bytes) (i : nat) (haserr : bool) : option nat :=
    match find_eol (skipn i b) with
    | Some k =>
      let e := i + k in
      if Z.eqb (nth e b 0%Z) 10 then Some (e + 1)
      else if e + 1 <? length b then Some (if Z.eqb (nth (e + 1) b 0%Z) 10 then e + 2 else e + 1)
      else if haserr then Some (length b) else None
    | None => if haserr then Some (length b) else None
    end.

  Definition has_err (p : bp) : bool := match err p with Some _ => true | None => false end.

  Definition new_size (len : nat) : nat :=
    if maxBlockSize <? len + chunkSize * 3 then len + (maxBlockSize - len) / 3 else len + chunkSize.

  Inductive rl_result := RLLine (p : bp) (ok : bool) | RLTooLarge (p : bp) | RLFuel.

  Fixpoint readline (fuel : nat) (p : bp) : rl_result :=
    match fuel with
    | 0 => RLFuel
    | S f =>
      match decide (buf p) (pos p) (has_err p) with
      | Some e => RLLine {| buf := buf p; pos := e; err := err p; rd := rd p |} (pos p <? e)
      | None =>
        let ns := new_size (length (buf p)) in
        if ns <=? length (buf p) then RLTooLarge p
        else
          let '(chunk, e, r') := read (rd p) (ns - length (buf p)) in
          readline f {| buf := buf p ++ pad chunk; pos := pos p; err := e; rd := r' |}
      end
    end.
End Reader.
Arguments rem {errT}. Arguments script {errT}. Arguments final {errT}.
Arguments buf {errT}. Arguments pos {errT}. Arguments err {errT}. Arguments rd {errT}.
Arguments has_err {errT}. Arguments read {errT}. Arguments readline {errT}.
Arguments RLLine {errT}. Arguments RLTooLarge {errT}. Arguments RLFuel {errT}.
Arguments Build_bp {errT}. Arguments Build_reader {errT}.
