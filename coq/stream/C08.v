From Coq Require Import List Arith ZArith Lia Bool.
Import ListNotations.
Require Import Reader ReaderProof BP BPProof.

(* C08 over whole runs: call NextBlock until it reports an error, then a few more times. *)
Section Run.
  Variable errT : Type.
  Variables chunkSize maxBlockSize : nat.
  Hypothesis chunk_pos : 0 < chunkSize.
  Variable tooLarge : errT.
  Variable blockT : Type.
  Variable is_open : blockT -> bool.
  Variable end_of : blockT -> nat.
  Variable shift : nat -> blockT -> blockT.
  Variable process_line : list blockT -> nat -> bytes -> list blockT.
  Hypothesis shift_open : forall n b, is_open (shift n b) = is_open b.
  Hypothesis shift_end : forall n b, end_of (shift n b) = end_of b - n.
  Hypothesis pl_cut : forall ch ls src b,
    In b (process_line ch ls src) -> is_open b = false -> end_of b <= length src.

  Notation bps := (bps errT blockT).
  Notation nb rf := (next_block errT chunkSize maxBlockSize tooLarge rf blockT is_open end_of shift process_line).

  (* what a caller observes from n successive calls: each call's block or error *)
  Inductive obs := OBlock (r : root blockT) | OErr (e : option errT) | OStuck.
  Fixpoint calls (rf fuel n : nat) (s : bps) : list obs :=
    match n with
    | O => []
    | S n' =>
      match nb rf fuel s with
      | NBBlock _ _ r s' => OBlock r :: calls rf fuel n' s'
      | NBErr _ _ e s' => OErr e :: calls rf fuel n' s'
      | NBStuck _ _ => [OStuck]
      end
    end.

  Variables rfm rfs : nat.
  Hypothesis rfm_pos : 1 <= rfm.

  Theorem calls_sim fin fuel : forall n sm ss,
    I errT maxBlockSize blockT rfs fin sm ss ->
    cut_ok blockT is_open end_of (blocks _ _ ss) (pos (io _ _ ss)) ->
    calls rfm fuel n sm = calls rfs fuel n ss.
  Proof.
    induction n as [|n IH]; intros sm ss HI Hcut; [reflexivity|]. cbn [calls].
    pose proof (next_block_sim errT chunkSize maxBlockSize chunk_pos tooLarge blockT is_open end_of shift process_line
                  shift_open shift_end pl_cut rfm rfs rfm_pos fin fuel sm ss HI Hcut) as H.
    unfold res_rel in H.
    destruct (nb rfm fuel sm) as [r1 sm'|e1 sm'|], (nb rfs fuel ss) as [r2 ss'|e2 ss'|]; try contradiction.
    - destruct H as (-> & HI' & Hc'). f_equal. apply IH; assumption.
    - destruct H as (-> & HI' & Hc'). f_equal. apply IH; assumption.
    - reflexivity.
  Qed.

  (* initial states: Parse pre-fills the buffer and latches the final error; NewBlockParser starts empty *)
  Definition init_mem (fin : errT) (input : bytes) : bps :=
    {| io := {| buf := pad input; pos := 0; err := Some fin; rd := {| rem := []; script := []; final := fin |} |};
       offset := 0; lineno := 1; blocks := [] |}.
  Definition init_stream (fin : errT) (input : bytes) (sc : list (nat * bool)) : bps :=
    {| io := {| buf := []; pos := 0; err := None; rd := {| rem := input; script := sc; final := fin |} |};
       offset := 0; lineno := 1; blocks := [] |}.

  (* C08: any read schedule, any number of calls (so also the repeated end-of-input report) *)
  Theorem C08_stream_eq fin input sc fuel n :
    length (pad input) + 3 <= maxBlockSize ->
    length sc + length input + 2 <= rfs ->
    calls rfm fuel n (init_mem fin input) = calls rfs fuel n (init_stream fin input sc).
  Proof.
    intros Hsmall Hrf. apply (calls_sim fin).
    - unfold I, init_mem, init_stream; cbn [io offset lineno blocks buf rd rem script pos err].
      repeat split; try reflexivity; try assumption.
      + left. reflexivity.
    - intros b [].
  Qed.

  (* C08, fault clause: a reader that fails with e after k bytes behaves as the in-memory parse of the first k bytes
     that ends in e instead of EOF.  It is the same theorem: the stream's data is the prefix, its final error is e. *)
  Corollary C08_fault e input k sc fuel n :
    length (pad (firstn k input)) + 3 <= maxBlockSize ->
    length sc + length (firstn k input) + 2 <= rfs ->
    calls rfm fuel n (init_mem e (firstn k input)) = calls rfs fuel n (init_stream e (firstn k input) sc).
  Proof. apply C08_stream_eq. Qed.
End Run.
Print Assumptions C08_stream_eq.
