From Coq Require Import List ZArith Lia Bool.
Import ListNotations.

Inductive tree := T (label : nat) (isBlock : bool) (kids : forest)
with forest := FNil | FCons (t : tree) (f : forest).

Definition kids_of t := match t with T _ _ k => k end.
Definition is_block t := match t with T _ b _ => b end.
Record cursor := { c_node : tree; c_parent : option tree; c_block : option tree; c_index : Z }.
Inductive event := EPre (c : cursor) | EPost (c : cursor).
Record frame := { f_cur : cursor; f_post : bool }.

Fixpoint frames_from (p : tree) (blk : option tree) (i : Z) (ks : forest) : list frame :=
  match ks with
  | FNil => []
  | FCons k ks' => {| f_cur := {| c_node := k; c_parent := Some p; c_block := blk; c_index := i |}; f_post := false |}
                   :: frames_from p blk (i + 1) ks'
  end.
Definition blk_of (c : cursor) := if is_block (c_node c) then Some (c_node c) else c_block c.
Definition child_frames (c : cursor) := frames_from (c_node c) (blk_of c) 0 (kids_of (c_node c)).

Section Walk.
  Variable St : Type.
  Variable pre post : option (St -> cursor -> St * bool).

  Definition call (cb : option (St -> cursor -> St * bool)) (mk : cursor -> event) s c tr : St * list event * bool :=
    match cb with
    | None => (s, tr, true)
    | Some p => let '(s', ok) := p s c in (s', tr ++ [mk c], ok)
    end.

  Fixpoint run (fuel : nat) (stack : list frame) (s : St) (tr : list event) : option (St * list event) :=
    match fuel with
    | O => None
    | S fuel' =>
      match stack with
      | [] => Some (s, tr)
      | fr :: rest =>
        if f_post fr then
          let '(s', tr', ok) := call post EPost s (f_cur fr) tr in
          if ok then run fuel' rest s' tr' else Some (s', tr')
        else
          let '(s', tr', ok) := call pre EPre s (f_cur fr) tr in
          if ok then run fuel' (child_frames (f_cur fr) ++ {| f_cur := f_cur fr; f_post := true |} :: rest) s' tr'
          else run fuel' rest s' tr'
      end
    end.

  Fixpoint spec (t : tree) (parent blk : option tree) (idx : Z) (s : St) (tr : list event) {struct t} : St * list event * bool :=
    let c := {| c_node := t; c_parent := parent; c_block := blk; c_index := idx |} in
    let '(s1, tr1, ok) := call pre EPre s c tr in
    if ok then
      let '(s2, tr2, cont) := spec_kids t (blk_of c) (kids_of t) 0 s1 tr1 in
      if cont then call post EPost s2 c tr2 else (s2, tr2, false)
    else (s1, tr1, true)
  with spec_kids (p : tree) (blk : option tree) (ks : forest) (i : Z) (s : St) (tr : list event) {struct ks} : St * list event * bool :=
    match ks with
    | FNil => (s, tr, true)
    | FCons k ks' => let '(s', tr', cont) := spec k (Some p) blk i s tr in
                     if cont then spec_kids p blk ks' (i + 1) s' tr' else (s', tr', false)
    end.
End Walk.
