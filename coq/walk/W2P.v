From Coq Require Import List ZArith Lia Bool.
Import ListNotations.
Require Import W2.

Fixpoint size (t : tree) : nat := match t with T _ _ ks => 1 + fsize ks end
with fsize (f : forest) : nat := match f with FNil => 0 | FCons t f' => size t + fsize f' end.

Section P.
  Variable St : Type.
  Variable pre post : option (St -> cursor -> St * bool).
  Notation run := (run St pre post).
  Notation spec := (spec St pre post).
  Notation spec_kids := (spec_kids St pre post).

  Definition spec_frame (fr : frame) s tr :=
    let c := f_cur fr in
    if f_post fr then call St post EPost s c tr
    else spec (c_node c) (c_parent c) (c_block c) (c_index c) s tr.

  Fixpoint spec_stack (st : list frame) s tr : St * list event :=
    match st with
    | [] => (s, tr)
    | fr :: rest => let '(s', tr', cont) := spec_frame fr s tr in
                    if cont then spec_stack rest s' tr' else (s', tr')
    end.

  Definition weight (fr : frame) := if f_post fr then 1 else 2 * size (c_node (f_cur fr)).
  Fixpoint weights (st : list frame) := match st with [] => 0 | fr :: r => weight fr + weights r end.

  Lemma weights_app a b : weights (a ++ b) = weights a + weights b.
  Proof. induction a as [|x a IH]; cbn; lia. Qed.

  Lemma weights_frames p blk i ks : weights (frames_from p blk i ks) = 2 * fsize ks.
  Proof. revert i; induction ks as [|k ks IH]; intros i; cbn [frames_from weights fsize]; [reflexivity|].
         rewrite IH. unfold weight; cbn. lia. Qed.

  Lemma spec_stack_frames p blk ks : forall i more s tr,
    spec_stack (frames_from p blk i ks ++ more) s tr =
    let '(s2, tr2, cont) := spec_kids p blk ks i s tr in
    if cont then spec_stack more s2 tr2 else (s2, tr2).
  Proof.
    induction ks as [|k ks IH]; intros i more s tr.
    - reflexivity.
    - change (frames_from p blk i (FCons k ks) ++ more) with
        ({| f_cur := {| c_node := k; c_parent := Some p; c_block := blk; c_index := i |}; f_post := false |}
           :: (frames_from p blk (i + 1) ks ++ more)).
      change (spec_kids p blk (FCons k ks) i s tr) with
        (let '(s', tr', cont) := spec k (Some p) blk i s tr in
         if cont then spec_kids p blk ks (i + 1) s' tr' else (s', tr', false)).
      cbn [spec_stack]. unfold spec_frame at 1; cbn [f_post f_cur c_node c_parent c_block c_index].
      destruct (spec k (Some p) blk i s tr) as [[s1 tr1] [|]]; [apply IH | reflexivity].
  Qed.

  Lemma spec_eq t parent blk idx s tr :
    spec t parent blk idx s tr =
    let c := {| c_node := t; c_parent := parent; c_block := blk; c_index := idx |} in
    let '(s1, tr1, ok) := call St pre EPre s c tr in
    if ok then
      let '(s2, tr2, cont) := spec_kids t (blk_of c) (kids_of t) 0 s1 tr1 in
      if cont then call St post EPost s2 c tr2 else (s2, tr2, false)
    else (s1, tr1, true).
  Proof. destruct t; reflexivity. Qed.

  Theorem run_refines_spec : forall fuel st s tr,
    weights st < fuel -> run fuel st s tr = Some (spec_stack st s tr).
  Proof.
    induction fuel as [|fuel IH]; intros st s tr Hf; [lia|].
    destruct st as [|fr rest]; [reflexivity|].
    cbn [W2.run spec_stack]. unfold spec_frame.
    cbn [weights] in Hf. unfold weight in Hf.
    destruct fr as [c isPost]; cbn [f_post f_cur] in *.
    destruct isPost.
    - destruct (call St post EPost s c tr) as [[s1 tr1] [|]]; [apply IH; lia | reflexivity].
    - destruct c as [t parent blk idx]; cbn [c_node c_parent c_block c_index] in *.
      rewrite spec_eq. cbn zeta.
      destruct (call St pre EPre s _ tr) as [[s1 tr1] [|]].
      + rewrite IH.
        * unfold child_frames; cbn [c_node]. rewrite spec_stack_frames.
          destruct (spec_kids _ _ _ _ _ _) as [[s2 tr2] [|]]; [|reflexivity].
          cbn [spec_stack]. unfold spec_frame; cbn [f_post f_cur].
          reflexivity.
        * rewrite weights_app. unfold child_frames; cbn [c_node].
          rewrite weights_frames. cbn [weights]. unfold weight at 1; cbn [f_post].
          destruct t as [l b ks]; simpl in *. lia.
      + apply IH. destruct t; simpl in *; lia.
  Qed.
End P.
Print Assumptions run_refines_spec.
