From Coq Require Import List ZArith Lia Bool.
Import ListNotations.
Require Import W2 W2P.
Open Scope Z_scope.

Scheme tree_mind := Induction for tree Sort Prop with forest_mind := Induction for forest Sort Prop.
Combined Scheme tree_forest_ind from tree_mind, forest_mind.

(* visit-once: when no callback ever returns false, the trace is the Euler tour of the tree:
   one Pre and one Post per node, Pre in document order, Post after the children. *)
Section V.
  Variable St : Type.
  Variable pre post : option (St -> cursor -> St * bool).
  Hypothesis pre_true : forall p s c, pre = Some p -> snd (p s c) = true.
  Hypothesis post_true : forall p s c, post = Some p -> snd (p s c) = true.

  Definition ev (cb : option (St -> cursor -> St * bool)) (mk : cursor -> event) (c : cursor) : list event :=
    match cb with Some _ => [mk c] | None => [] end.

  Fixpoint tour (t : tree) (parent blk : option tree) (idx : Z) {struct t} : list event :=
    let c := {| c_node := t; c_parent := parent; c_block := blk; c_index := idx |} in
    ev pre EPre c ++ tour_kids t (blk_of c) (kids_of t) 0 ++ ev post EPost c
  with tour_kids (p : tree) (blk : option tree) (ks : forest) (i : Z) {struct ks} : list event :=
    match ks with
    | FNil => []
    | FCons k ks' => tour k (Some p) blk i ++ tour_kids p blk ks' (i + 1)
    end.

  Lemma call_pre s c tr : exists s', call St pre EPre s c tr = (s', tr ++ ev pre EPre c, true).
  Proof.
    unfold call, ev. destruct pre as [p|] eqn:E; [|exists s; rewrite app_nil_r; reflexivity].
    pose proof (pre_true p s c eq_refl) as H. destruct (p s c) as [s' ok]. cbn in H. subst ok. exists s'. reflexivity.
  Qed.
  Lemma call_post s c tr : exists s', call St post EPost s c tr = (s', tr ++ ev post EPost c, true).
  Proof.
    unfold call, ev. destruct post as [p|] eqn:E; [|exists s; rewrite app_nil_r; reflexivity].
    pose proof (post_true p s c eq_refl) as H. destruct (p s c) as [s' ok]. cbn in H. subst ok. exists s'. reflexivity.
  Qed.

  Lemma tour_eq t parent blk idx :
    tour t parent blk idx =
    let c := {| c_node := t; c_parent := parent; c_block := blk; c_index := idx |} in
    ev pre EPre c ++ tour_kids t (blk_of c) (kids_of t) 0 ++ ev post EPost c.
  Proof. destruct t; reflexivity. Qed.

  Theorem visit_once :
    (forall t parent blk idx s tr, exists s', spec St pre post t parent blk idx s tr = (s', tr ++ tour t parent blk idx, true)) /\
    (forall ks p blk i s tr, exists s', spec_kids St pre post p blk ks i s tr = (s', tr ++ tour_kids p blk ks i, true)).
  Proof.
    apply (tree_forest_ind
      (fun t => forall parent blk idx s tr, exists s', spec St pre post t parent blk idx s tr = (s', tr ++ tour t parent blk idx, true))
      (fun ks => forall p blk i s tr, exists s', spec_kids St pre post p blk ks i s tr = (s', tr ++ tour_kids p blk ks i, true))).
    - intros l b ks IH parent blk idx s tr. rewrite spec_eq, tour_eq. cbn zeta.
      destruct (call_pre s {| c_node := T l b ks; c_parent := parent; c_block := blk; c_index := idx |} tr) as (s1 & E1). rewrite E1.
      destruct (IH (T l b ks) (blk_of {| c_node := T l b ks; c_parent := parent; c_block := blk; c_index := idx |}) 0 s1
                   (tr ++ ev pre EPre {| c_node := T l b ks; c_parent := parent; c_block := blk; c_index := idx |})) as (s2 & E2).
      cbn [kids_of]. rewrite E2.
      destruct (call_post s2 {| c_node := T l b ks; c_parent := parent; c_block := blk; c_index := idx |}
                  ((tr ++ ev pre EPre {| c_node := T l b ks; c_parent := parent; c_block := blk; c_index := idx |}) ++
                   tour_kids (T l b ks) (blk_of {| c_node := T l b ks; c_parent := parent; c_block := blk; c_index := idx |}) ks 0)) as (s3 & E3).
      rewrite E3. exists s3. rewrite <- !app_assoc. reflexivity.
    - intros p blk i s tr. exists s. cbn. rewrite app_nil_r. reflexivity.
    - intros k IHk ks IHks p blk i s tr.
      change (spec_kids St pre post p blk (FCons k ks) i s tr) with
        (let '(s', tr', cont) := spec St pre post k (Some p) blk i s tr in
         if cont then spec_kids St pre post p blk ks (i + 1) s' tr' else (s', tr', false)).
      change (tour_kids p blk (FCons k ks) i) with (tour k (Some p) blk i ++ tour_kids p blk ks (i + 1)).
      destruct (IHk (Some p) blk i s tr) as (s1 & E1). rewrite E1.
      destruct (IHks p blk (i + 1) s1 (tr ++ tour k (Some p) blk i)) as (s2 & E2). rewrite E2.
      exists s2. rewrite <- app_assoc. reflexivity.
  Qed.

  (* the number of events: one per callback present, per node *)
  Definition per_node : nat := ((match pre with Some _ => 1 | None => 0 end) + (match post with Some _ => 1 | None => 0 end))%nat.
  Lemma tour_length :
    (forall t parent blk idx, length (tour t parent blk idx) = (per_node * size t)%nat) /\
    (forall ks p blk i, length (tour_kids p blk ks i) = (per_node * fsize ks)%nat).
  Proof.
    apply (tree_forest_ind
      (fun t => forall parent blk idx, length (tour t parent blk idx) = (per_node * size t)%nat)
      (fun ks => forall p blk i, length (tour_kids p blk ks i) = (per_node * fsize ks)%nat)).
    - intros l b ks IH parent blk idx. rewrite tour_eq. cbn zeta. rewrite !app_length. cbn [kids_of]. rewrite IH.
      unfold ev, per_node. cbn [size]. destruct pre, post; cbn [length]; lia.
    - intros. cbn. lia.
    - intros k IHk ks IHks p blk i.
      change (tour_kids p blk (FCons k ks) i) with (tour k (Some p) blk i ++ tour_kids p blk ks (i + 1)).
      cbn [fsize]. rewrite app_length, IHk, IHks. lia.
  Qed.
End V.
Print Assumptions visit_once.
