From Coq Require Import ExtrOcamlBasic.
Require Import W2.
Extraction "walkmodel.ml" run spec.
