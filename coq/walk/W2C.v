From Coq Require Import List ZArith Lia Bool.
Import ListNotations.
Require Import W2.

(* i-th tree of a forest *)
Fixpoint fnth (f : forest) (i : nat) : option tree :=
  match f, i with
  | FNil, _ => None
  | FCons t _, O => Some t
  | FCons _ f', S i' => fnth f' i'
  end.

(* anc is the list of proper ancestors of the node, root first *)
Definition last_block (anc : list tree) : option tree :=
  fold_left (fun acc t => if is_block t then Some t else acc) anc None.

Definition cursor_ok (anc : list tree) (c : cursor) : Prop :=
  c_parent c = last (map Some anc) None /\
  c_block c = last_block anc /\
  match c_parent c with
  | None => c_index c = (-1)%Z
  | Some p => (0 <= c_index c)%Z /\ fnth (kids_of p) (Z.to_nat (c_index c)) = Some (c_node c)
  end.

Definition ev_cursor (e : event) := match e with EPre c => c | EPost c => c end.

(* every event appended to the trace carries a cursor consistent with some ancestor chain *)
Definition all_ok (tr0 tr : list event) : Prop :=
  exists new, tr = tr0 ++ new /\ Forall (fun e => exists anc, cursor_ok anc (ev_cursor e)) new.

Lemma all_ok_refl tr : all_ok tr tr.
Proof. exists []. rewrite app_nil_r. split; [reflexivity|constructor]. Qed.

Lemma all_ok_trans a b c : all_ok a b -> all_ok b c -> all_ok a c.
Proof.
  intros (n1 & -> & F1) (n2 & -> & F2). exists (n1 ++ n2). rewrite app_assoc. split; [reflexivity|].
  apply Forall_app; split; assumption.
Qed.

Section C.
  Variable St : Type.
  Variable pre post : option (St -> cursor -> St * bool).

  Lemma call_ok cb mk s c tr s' tr' ok anc :
    (forall c, ev_cursor (mk c) = c) -> cursor_ok anc c ->
    call St cb mk s c tr = (s', tr', ok) -> all_ok tr tr'.
  Proof.
    intros Hmk Hc. unfold call. destruct cb as [p|].
    - destruct (p s c) as [s1 ok1]. intros H; inversion H; subst.
      exists [mk c]. split; [reflexivity|]. constructor; [|constructor]. exists anc. rewrite Hmk. assumption.
    - intros H; inversion H; subst. apply all_ok_refl.
  Qed.

  Lemma last_block_snoc (anc : list tree) t : last_block (anc ++ [t]) = if is_block t then Some t else last_block anc.
  Proof. unfold last_block. rewrite fold_left_app. reflexivity. Qed.

  Lemma last_snoc (anc : list tree) (t : tree) : last (map Some (anc ++ [t])) None = Some t.
  Proof. rewrite map_app. cbn. induction (map Some anc) as [|x l IH]; [reflexivity|].
         cbn. destruct (l ++ [Some t]) eqn:E; [destruct l; discriminate|]. exact IH. Qed.

  Lemma spec_eq t parent blk idx s tr :
    spec St pre post t parent blk idx s tr =
    let c := {| c_node := t; c_parent := parent; c_block := blk; c_index := idx |} in
    let '(s1, tr1, ok) := call St pre EPre s c tr in
    if ok then
      let '(s2, tr2, cont) := spec_kids St pre post t (blk_of c) (kids_of t) 0 s1 tr1 in
      if cont then call St post EPost s2 c tr2 else (s2, tr2, false)
    else (s1, tr1, true).
  Proof. destruct t; reflexivity. Qed.

  Lemma spec_kids_cons p blk k ks' i s tr :
    spec_kids St pre post p blk (FCons k ks') i s tr =
    let '(s', tr', cont) := spec St pre post k (Some p) blk i s tr in
    if cont then spec_kids St pre post p blk ks' (i + 1) s' tr' else (s', tr', false).
  Proof. reflexivity. Qed.

  Fixpoint spec_ok (t : tree) :
    forall anc parent blk idx s tr s' tr' cont,
      cursor_ok anc {| c_node := t; c_parent := parent; c_block := blk; c_index := idx |} ->
      spec St pre post t parent blk idx s tr = (s', tr', cont) -> all_ok tr tr'
  with kids_ok (ks : forest) :
    forall anc p blk (i : nat) s tr s' tr' cont,
      blk = last_block (anc ++ [p]) ->
      (forall j k, fnth ks j = Some k -> fnth (kids_of p) (i + j) = Some k) ->
      spec_kids St pre post p blk ks (Z.of_nat i) s tr = (s', tr', cont) -> all_ok tr tr'.
  Proof.
    - intros anc parent blk idx s tr s' tr' cont Hc Hs.
      rewrite spec_eq in Hs. cbn zeta in Hs.
      destruct t as [l b ks].
      set (c := {| c_node := T l b ks; c_parent := parent; c_block := blk; c_index := idx |}) in *.
      destruct (call St pre EPre s c tr) as [[s1 tr1] ok1] eqn:E1.
      pose proof (call_ok _ EPre _ _ _ _ _ _ anc (fun _ => eq_refl) Hc E1) as H1.
      destruct ok1; [|inversion Hs; subst; assumption].
      destruct (spec_kids St pre post (T l b ks) (blk_of c) (kids_of (T l b ks)) 0 s1 tr1) as [[s2 tr2] cont2] eqn:E2.
      assert (H2 : all_ok tr1 tr2).
      { apply (kids_ok ks anc (T l b ks) (blk_of c) 0 s1 tr1 s2 tr2 cont2); [| |exact E2].
        - rewrite last_block_snoc. unfold blk_of. cbn [c_node c is_block]. destruct b; [reflexivity|].
          destruct Hc as (_ & Hb & _). exact Hb.
        - intros j k Hk. exact Hk. }
      destruct cont2.
      + pose proof (call_ok _ EPost _ _ _ _ _ _ anc (fun _ => eq_refl) Hc Hs) as H3.
        eapply all_ok_trans; [exact H1|]. eapply all_ok_trans; [exact H2|exact H3].
      + inversion Hs; subst. eapply all_ok_trans; eassumption.
    - intros anc p blk i s tr s' tr' cont Hblk Hidx Hs.
      destruct ks as [|k ks'].
      + cbn in Hs. inversion Hs; subst. apply all_ok_refl.
      + rewrite spec_kids_cons in Hs.
        destruct (spec St pre post k (Some p) blk (Z.of_nat i) s tr) as [[s1 tr1] c1] eqn:E1.
        assert (H1 : all_ok tr tr1).
        { apply (spec_ok k (anc ++ [p]) (Some p) blk (Z.of_nat i) s tr s1 tr1 c1); [|exact E1].
          unfold cursor_ok; cbn [c_parent c_block c_index c_node].
          split; [symmetry; apply last_snoc|]. split; [assumption|].
          split; [lia|]. rewrite Nat2Z.id. specialize (Hidx 0 k eq_refl). rewrite Nat.add_0_r in Hidx. exact Hidx. }
        destruct c1; [|inversion Hs; subst; assumption].
        replace (Z.of_nat i + 1)%Z with (Z.of_nat (S i)) in Hs by lia.
        eapply all_ok_trans; [exact H1|].
        apply (kids_ok ks' anc p blk (S i) s1 tr1 s' tr' cont Hblk); [|exact Hs].
        intros j k' Hk'. replace (S i + j) with (i + S j) by lia. apply Hidx. exact Hk'.
  Qed.

  (* The walk of a root: no parent, index -1, and every callback sees a consistent cursor. *)
  Theorem walk_cursors_ok root s s' tr' cont :
    spec St pre post root None None (-1) s [] = (s', tr', cont) ->
    Forall (fun e => exists anc, cursor_ok anc (ev_cursor e)) tr'.
  Proof.
    intros H. destruct (spec_ok root [] None None (-1)%Z s [] s' tr' cont) as (new & -> & F); [|exact H|exact F].
    repeat split.
  Qed.
End C.
Print Assumptions walk_cursors_ok.
