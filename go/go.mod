module verifgo

go 1.20

require (
	go4.org v0.0.0-20230225012048-214862532bf5
	golang.org/x/text v0.9.0
	zombiezen.com/go/commonmark v0.0.0
)

require golang.org/x/net v0.8.0

replace zombiezen.com/go/commonmark => /repo
