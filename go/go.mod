module verifgo

go 1.20

require (
	golang.org/x/text v0.9.0
	zombiezen.com/go/commonmark v0.0.0
)

require golang.org/x/net v0.8.0 // indirect

replace zombiezen.com/go/commonmark => /repo
