package main

// Translator from /repo's Go source to Gallina, for what is data or a closed expression:
//   GenConsts.v   every constant declaration (top-level and function-local; iota blocks evaluated) and every
//                 package-level []string literal
//   GenClassify.v the bodies of the expression-only byte classifiers, translated structurally
// A function that stops being expression-only makes the generator fail, which the checks report as a broken tie.

import (
	"fmt"
	"go/ast"
	"go/constant"
	"go/parser"
	"go/token"
	"os"
	"path/filepath"
	"sort"
	"strconv"
	"strings"

	"golang.org/x/net/html/atom"
)

// atomString gives the string of the x/net/html/atom constant named id (as linked into this generator, which is
// the version /repo's go.sum pins). The atom package derives a constant's name from its string by upper-casing
// the first letter (and dropping hyphens), so for a name whose lower-casing is an atom string with the same
// derived identifier the answer is exact; anything else is refused rather than guessed.
func atomString(id string) (string, error) {
	lower := strings.ToLower(id)
	a := atom.Lookup([]byte(lower))
	if a == 0 || a.String() != lower || id != strings.ToUpper(lower[:1])+lower[1:] {
		return "", fmt.Errorf("cannot resolve atom.%s", id)
	}
	return lower, nil
}

// atomSel recognises the expression atom.X and returns X.
func atomSel(e ast.Expr) (string, bool) {
	se, ok := e.(*ast.SelectorExpr)
	if !ok {
		return "", false
	}
	pk, ok := se.X.(*ast.Ident)
	if !ok || pk.Name != "atom" || se.Sel.Name == "Atom" || se.Sel.Name == "Lookup" || se.Sel.Name == "String" {
		return "", false
	}
	return se.Sel.Name, true
}

// translateAtoms lists, per function, the atom.X constants its body mentions (source order, duplicates dropped):
// the tag vocabulary of the renderer's pre/post functions and the list of FilterTagGFM.
func translateAtoms(files map[string]*ast.File) ([]decl, error) {
	var out []decl
	names := make([]string, 0, len(files))
	for n := range files {
		names = append(names, n)
	}
	sort.Strings(names)
	for _, n := range names {
		for _, d := range files[n].Decls {
			fd, ok := d.(*ast.FuncDecl)
			if !ok || fd.Body == nil {
				continue
			}
			var items []string
			seen := map[string]bool{}
			var ferr error
			ast.Inspect(fd.Body, func(nd ast.Node) bool {
				e, ok := nd.(ast.Expr)
				if !ok {
					return true
				}
				if id, ok := atomSel(e); ok && !seen[id] {
					seen[id] = true
					s, err := atomString(id)
					if err != nil {
						ferr = err
						return false
					}
					items = append(items, zbytes(s))
				}
				return true
			})
			if ferr != nil {
				return nil, fmt.Errorf("%s: %v", fd.Name.Name, ferr)
			}
			if len(items) > 0 {
				out = append(out, decl{"a_" + fd.Name.Name, fmt.Sprintf("Definition a_%s : list (list Z) := [%s].", fd.Name.Name, strings.Join(items, "; "))})
			}
		}
	}
	return out, nil
}

type constEnv map[string]constant.Value

func evalConst(e ast.Expr, env constEnv, iota int64) (constant.Value, error) {
	switch x := e.(type) {
	case *ast.BasicLit:
		v := constant.MakeFromLiteral(x.Value, x.Kind, 0)
		if v.Kind() == constant.Unknown {
			return nil, fmt.Errorf("bad literal %s", x.Value)
		}
		return v, nil
	case *ast.Ident:
		if x.Name == "iota" {
			return constant.MakeInt64(iota), nil
		}
		if v, ok := env[x.Name]; ok {
			return v, nil
		}
		return nil, fmt.Errorf("unknown identifier %s", x.Name)
	case *ast.ParenExpr:
		return evalConst(x.X, env, iota)
	case *ast.BinaryExpr:
		a, err := evalConst(x.X, env, iota)
		if err != nil {
			return nil, err
		}
		b, err := evalConst(x.Y, env, iota)
		if err != nil {
			return nil, err
		}
		if x.Op == token.SHL || x.Op == token.SHR {
			n, _ := constant.Uint64Val(b)
			return constant.Shift(a, x.Op, uint(n)), nil
		}
		if x.Op == token.QUO && a.Kind() == constant.Int {
			return constant.BinaryOp(a, token.QUO_ASSIGN, b), nil
		}
		return constant.BinaryOp(a, x.Op, b), nil
	case *ast.CallExpr:
		// atom.X.String()
		if se, ok := x.Fun.(*ast.SelectorExpr); ok && len(x.Args) == 0 && se.Sel.Name == "String" {
			if id, ok := atomSel(se.X); ok {
				s, err := atomString(id)
				if err != nil {
					return nil, err
				}
				return constant.MakeString(s), nil
			}
		}
		// conversions such as BlockKind(1), int8(3)
		if len(x.Args) == 1 {
			return evalConst(x.Args[0], env, iota)
		}
	}
	return nil, fmt.Errorf("unsupported constant expression %T", e)
}

func zbytes(s string) string {
	parts := make([]string, len(s))
	for i := 0; i < len(s); i++ {
		parts[i] = strconv.Itoa(int(s[i]))
	}
	return "[" + strings.Join(parts, ";") + "]"
}

func coqName(s string) string {
	switch s {
	case "_":
		return ""
	}
	return "c_" + s
}

type decl struct{ name, body string }

func translateConsts(files map[string]*ast.File) ([]decl, error) {
	var out []decl
	seen := map[string]bool{}
	env := constEnv{}
	names := make([]string, 0, len(files))
	for n := range files {
		names = append(names, n)
	}
	sort.Strings(names)
	emit := func(name string, v constant.Value) {
		cn := coqName(name)
		if cn == "" || seen[cn] {
			return
		}
		seen[cn] = true
		switch v.Kind() {
		case constant.Int:
			out = append(out, decl{cn, fmt.Sprintf("Definition %s : Z := %s.", cn, parenNeg(v.ExactString()))})
		case constant.String:
			out = append(out, decl{cn, fmt.Sprintf("Definition %s : list Z := %s.", cn, zbytes(constant.StringVal(v)))})
		}
	}
	handleGen := func(gd *ast.GenDecl, prefix string) error {
		var lastValues []ast.Expr
		for i, sp := range gd.Specs {
			vs := sp.(*ast.ValueSpec)
			values := vs.Values
			if len(values) == 0 {
				values = lastValues
			} else {
				lastValues = values
			}
			for j, id := range vs.Names {
				if j >= len(values) {
					continue
				}
				v, err := evalConst(values[j], env, int64(i))
				if err != nil {
					// constants the translator cannot evaluate are skipped, not guessed
					continue
				}
				env[id.Name] = v
				emit(prefix+id.Name, v)
			}
		}
		return nil
	}
	for _, n := range names {
		f := files[n]
		for _, d := range f.Decls {
			switch d := d.(type) {
			case *ast.GenDecl:
				if d.Tok == token.CONST {
					handleGen(d, "")
				}
				if d.Tok == token.VAR {
					for _, sp := range d.Specs {
						vs := sp.(*ast.ValueSpec)
						for j, id := range vs.Names {
							if j >= len(vs.Values) {
								continue
							}
							cl, ok := vs.Values[j].(*ast.CompositeLit)
							if !ok {
								continue
							}
							at, ok := cl.Type.(*ast.ArrayType)
							if !ok {
								continue
							}
							if el, ok := at.Elt.(*ast.Ident); !ok || el.Name != "string" {
								continue
							}
							var items []string
							good := true
							for _, e := range cl.Elts {
								v, err := evalConst(e, env, 0)
								if err != nil || v.Kind() != constant.String {
									good = false
									break
								}
								items = append(items, zbytes(constant.StringVal(v)))
							}
							if good {
								cn := coqName(id.Name)
								if !seen[cn] {
									seen[cn] = true
									out = append(out, decl{cn, fmt.Sprintf("Definition %s : list (list Z) := [%s].", cn, strings.Join(items, "; "))})
								}
							}
						}
					}
				}
			case *ast.FuncDecl:
				if d.Body == nil {
					continue
				}
				fn := d.Name.Name
				ast.Inspect(d.Body, func(n ast.Node) bool {
					if gd, ok := n.(*ast.GenDecl); ok && gd.Tok == token.CONST {
						handleGen(gd, fn+"_")
					}
					return true
				})
			}
		}
	}
	return out, nil
}

func parenNeg(s string) string {
	if strings.HasPrefix(s, "-") {
		return "(" + s + ")"
	}
	return s
}

// ---- expression-only functions ----

var classifierFuncs = []string{"isSpaceTabOrLineEnding", "isASCIILetter", "isASCIIDigit", "isASCIIPunctuation", "isASCIIControl",
	"isHex", "toLowerASCII", "urlHexDigit", "isUnquotedAttributeValueChar"}

type tr struct {
	param string
	funcs map[string]bool
}

func (t *tr) intExpr(e ast.Expr) (string, error) {
	switch x := e.(type) {
	case *ast.BasicLit:
		v := constant.MakeFromLiteral(x.Value, x.Kind, 0)
		if v.Kind() == constant.Int {
			return v.ExactString(), nil
		}
		return "", fmt.Errorf("non-integer literal %s", x.Value)
	case *ast.Ident:
		if x.Name == t.param {
			return t.param, nil
		}
		return "", fmt.Errorf("free identifier %s", x.Name)
	case *ast.ParenExpr:
		s, err := t.intExpr(x.X)
		return "(" + s + ")", err
	case *ast.BinaryExpr:
		if x.Op == token.ADD || x.Op == token.SUB {
			a, err := t.intExpr(x.X)
			if err != nil {
				return "", err
			}
			b, err := t.intExpr(x.Y)
			if err != nil {
				return "", err
			}
			return "(" + a + " " + x.Op.String() + " " + b + ")", nil
		}
	case *ast.CallExpr:
		if id, ok := x.Fun.(*ast.Ident); ok && len(x.Args) == 1 {
			if id.Name == "byte" || id.Name == "int" || id.Name == "rune" {
				return t.intExpr(x.Args[0])
			}
			if t.funcs[id.Name] {
				a, err := t.intExpr(x.Args[0])
				return "(" + id.Name + " " + a + ")", err
			}
		}
	}
	return "", fmt.Errorf("unsupported integer expression %T", e)
}

func (t *tr) boolExpr(e ast.Expr) (string, error) {
	switch x := e.(type) {
	case *ast.ParenExpr:
		s, err := t.boolExpr(x.X)
		return "(" + s + ")", err
	case *ast.UnaryExpr:
		if x.Op == token.NOT {
			s, err := t.boolExpr(x.X)
			return "(negb " + s + ")", err
		}
	case *ast.BinaryExpr:
		switch x.Op {
		case token.LOR, token.LAND:
			a, err := t.boolExpr(x.X)
			if err != nil {
				return "", err
			}
			b, err := t.boolExpr(x.Y)
			if err != nil {
				return "", err
			}
			op := "||"
			if x.Op == token.LAND {
				op = "&&"
			}
			return "(" + a + " " + op + " " + b + ")", nil
		case token.EQL, token.NEQ, token.LSS, token.LEQ, token.GTR, token.GEQ:
			// strings.IndexByte(lit, c) < 0  /  >= 0
			if call, ok := x.X.(*ast.CallExpr); ok {
				if sel, ok := call.Fun.(*ast.SelectorExpr); ok && sel.Sel.Name == "IndexByte" && len(call.Args) == 2 {
					lit, ok1 := call.Args[0].(*ast.BasicLit)
					arg, err := t.intExpr(call.Args[1])
					zero, ok2 := x.Y.(*ast.BasicLit)
					if ok1 && ok2 && err == nil && zero.Value == "0" && lit.Kind == token.STRING {
						s, _ := strconv.Unquote(lit.Value)
						mem := "(existsb (Z.eqb " + arg + ") " + zbytes(s) + ")"
						switch x.Op {
						case token.LSS:
							return "(negb " + mem + ")", nil
						case token.GEQ:
							return mem, nil
						}
					}
				}
			}
			a, err := t.intExpr(x.X)
			if err != nil {
				return "", err
			}
			b, err := t.intExpr(x.Y)
			if err != nil {
				return "", err
			}
			switch x.Op {
			case token.EQL:
				return "(" + a + " =? " + b + ")", nil
			case token.NEQ:
				return "(negb (" + a + " =? " + b + "))", nil
			case token.LSS:
				return "(" + a + " <? " + b + ")", nil
			case token.LEQ:
				return "(" + a + " <=? " + b + ")", nil
			case token.GTR:
				return "(" + b + " <? " + a + ")", nil
			case token.GEQ:
				return "(" + b + " <=? " + a + ")", nil
			}
		}
	case *ast.CallExpr:
		if id, ok := x.Fun.(*ast.Ident); ok && len(x.Args) == 1 && t.funcs[id.Name] {
			a, err := t.intExpr(x.Args[0])
			return "(" + id.Name + " " + a + ")", err
		}
	}
	return "", fmt.Errorf("unsupported boolean expression %T", e)
}

// body translates "return e", "if c { return a }; return b" and "switch { case c: return a ... default: panic }".
func (t *tr) body(stmts []ast.Stmt, isBool bool) (string, error) {
	expr := func(e ast.Expr) (string, error) {
		if isBool {
			return t.boolExpr(e)
		}
		return t.intExpr(e)
	}
	if len(stmts) == 0 {
		return "", fmt.Errorf("function does not end in return")
	}
	switch s := stmts[0].(type) {
	case *ast.ReturnStmt:
		if len(s.Results) != 1 {
			return "", fmt.Errorf("return arity")
		}
		return expr(s.Results[0])
	case *ast.IfStmt:
		if s.Init != nil || s.Else != nil {
			return "", fmt.Errorf("unsupported if form")
		}
		c, err := t.boolExpr(s.Cond)
		if err != nil {
			return "", err
		}
		a, err := t.body(s.Body.List, isBool)
		if err != nil {
			return "", err
		}
		b, err := t.body(stmts[1:], isBool)
		if err != nil {
			return "", err
		}
		return "(if " + c + " then " + a + " else " + b + ")", nil
	case *ast.SwitchStmt:
		if s.Tag != nil || s.Init != nil {
			return "", fmt.Errorf("unsupported switch form")
		}
		res := "0" // default: panic("out of bounds") -- the callers never reach it; value irrelevant
		if isBool {
			res = "false"
		}
		clauses := s.Body.List
		for i := len(clauses) - 1; i >= 0; i-- {
			cc := clauses[i].(*ast.CaseClause)
			if cc.List == nil {
				continue
			}
			if len(cc.List) != 1 {
				return "", fmt.Errorf("multi-expression case")
			}
			c, err := t.boolExpr(cc.List[0])
			if err != nil {
				return "", err
			}
			a, err := t.body(cc.Body, isBool)
			if err != nil {
				return "", err
			}
			res = "(if " + c + " then " + a + " else " + res + ")"
		}
		return res, nil
	}
	return "", fmt.Errorf("unsupported statement %T", stmts[0])
}

func translateClassifiers(files map[string]*ast.File) ([]decl, error) {
	funcs := map[string]*ast.FuncDecl{}
	for _, f := range files {
		for _, d := range f.Decls {
			if fd, ok := d.(*ast.FuncDecl); ok && fd.Recv == nil {
				funcs[fd.Name.Name] = fd
			}
		}
	}
	known := map[string]bool{}
	var out []decl
	for _, name := range classifierFuncs {
		fd := funcs[name]
		if fd == nil {
			return nil, fmt.Errorf("function %s not found in the package", name)
		}
		if len(fd.Type.Params.List) != 1 || len(fd.Type.Params.List[0].Names) != 1 || fd.Type.Results == nil || len(fd.Type.Results.List) != 1 {
			return nil, fmt.Errorf("function %s: unexpected signature", name)
		}
		rt, _ := fd.Type.Results.List[0].Type.(*ast.Ident)
		isBool := rt != nil && rt.Name == "bool"
		t := &tr{param: fd.Type.Params.List[0].Names[0].Name, funcs: known}
		if t.param == "x" || t.param == "c" || t.param == "b" {
			// fine: plain Gallina identifiers
		}
		b, err := t.body(fd.Body.List, isBool)
		if err != nil {
			return nil, fmt.Errorf("function %s is no longer expression-only: %v", name, err)
		}
		ty := "Z"
		if isBool {
			ty = "bool"
		}
		out = append(out, decl{name, fmt.Sprintf("Definition %s (%s : Z) : %s := %s.", name, t.param, ty, b)})
		known[name] = true
	}
	return out, nil
}

func loadPackage(dir string) (map[string]*ast.File, *token.FileSet, error) {
	fset := token.NewFileSet()
	files := map[string]*ast.File{}
	ents, err := os.ReadDir(dir)
	if err != nil {
		return nil, nil, err
	}
	for _, e := range ents {
		n := e.Name()
		if !strings.HasSuffix(n, ".go") || strings.HasSuffix(n, "_test.go") || n == "export_verif.go" {
			continue
		}
		f, err := parser.ParseFile(fset, filepath.Join(dir, n), nil, 0)
		if err != nil {
			return nil, nil, err
		}
		files[n] = f
	}
	return files, fset, nil
}

func writeGen(repo, outdir string) error {
	files, _, err := loadPackage(repo)
	if err != nil {
		return err
	}
	cs, err := translateConsts(files)
	if err != nil {
		return err
	}
	var sb strings.Builder
	sb.WriteString("From Coq Require Import ZArith List. Import ListNotations. Open Scope Z_scope.\n(* GENERATED from /repo's source by go/gen: every constant declaration and package-level string table *)\n")
	for _, d := range cs {
		sb.WriteString(d.body + "\n")
	}
	as, err := translateAtoms(files)
	if err != nil {
		return err
	}
	sb.WriteString("(* per function: the x/net/html/atom constants its body mentions, as strings *)\n")
	for _, d := range as {
		sb.WriteString(d.body + "\n")
	}
	if err := os.WriteFile(filepath.Join(outdir, "GenConsts.v"), []byte(sb.String()), 0o644); err != nil {
		return err
	}
	fs, err := translateClassifiers(files)
	if err != nil {
		return err
	}
	sb.Reset()
	sb.WriteString("From Coq Require Import ZArith List Bool. Import ListNotations. Open Scope Z_scope.\n(* GENERATED from /repo's source by go/gen: bodies of the expression-only byte classifiers *)\n")
	for _, d := range fs {
		sb.WriteString(d.body + "\n")
	}
	return os.WriteFile(filepath.Join(outdir, "GenClassify.v"), []byte(sb.String()), 0o644)
}
