package main

import (
	"fmt"
	"html"
	"go/ast"
	"go/parser"
	"go/token"
	"os"
	"path/filepath"
	"runtime"
	"sort"
	"strconv"
	"strings"
	"unicode"

	"golang.org/x/text/cases"
)

func zl(s string) string {
	var sb strings.Builder
	sb.WriteString("[")
	for i := 0; i < len(s); i++ {
		if i > 0 {
			sb.WriteString(";")
		}
		fmt.Fprintf(&sb, "%d", s[i])
	}
	sb.WriteString("]")
	return sb.String()
}

func ranges(pred func(r rune) bool) string {
	var parts []string
	lo := rune(-1)
	for r := rune(0); r <= unicode.MaxRune+1; r++ {
		in := r <= unicode.MaxRune && pred(r)
		if in && lo < 0 {
			lo = r
		}
		if !in && lo >= 0 {
			parts = append(parts, fmt.Sprintf("(%d,%d)", lo, r-1))
			lo = -1
		}
	}
	return "[" + strings.Join(parts, ";") + "]"
}

func main() {
	fset := token.NewFileSet()
	f, err := parser.ParseFile(fset, filepath.Join(runtime.GOROOT(), "src/html/entity.go"), nil, 0)
	if err != nil {
		panic(err)
	}
	var semi, legacy []string
	ast.Inspect(f, func(n ast.Node) bool {
		if kv, ok := n.(*ast.KeyValueExpr); ok {
			if bl, ok := kv.Key.(*ast.BasicLit); ok && bl.Kind == token.STRING {
				s, _ := strconv.Unquote(bl.Value)
				if strings.HasSuffix(s, ";") {
					semi = append(semi, strings.TrimSuffix(s, ";"))
				} else {
					legacy = append(legacy, s)
				}
			}
		}
		return true
	})
	sort.Strings(semi)
	sort.Strings(legacy)
	out, _ := os.Create(os.Args[1])
	defer out.Close()
	fmt.Fprintln(out, "From Coq Require Import ZArith List. Import ListNotations. Open Scope Z_scope.")
	fmt.Fprintln(out, "(* GENERATED from the Go toolchain and x/text in use *)")
	w := func(name string, l []string) {
		fmt.Fprintf(out, "Definition %s : list (list Z) := [\n", name)
		for i, n := range l {
			sep := ";"
			if i == len(l)-1 {
				sep = ""
			}
			fmt.Fprintf(out, "%s%s\n", zl(n), sep)
		}
		fmt.Fprintln(out, "].")
	}
	w("entityNamesSemi", semi)
	w("entityNamesLegacy", legacy)
	wv := func(name string, l []string, suffix string) {
		fmt.Fprintf(out, "Definition %s : list (list Z * list Z) := [\n", name)
		for i, n := range l {
			sep := ";"
			if i == len(l)-1 {
				sep = ""
			}
			fmt.Fprintf(out, "(%s,%s)%s\n", zl(n), zl(html.UnescapeString("&"+n+suffix)), sep)
		}
		fmt.Fprintln(out, "].")
	}
	wv("entityValuesSemi", semi, ";")
	wv("entityValuesLegacy", legacy, "")
	fmt.Fprint(out, "Definition numericReplacement : list (list Z) := [")
	for x := 0x80; x <= 0x9F; x++ {
		if x > 0x80 {
			fmt.Fprint(out, ";")
		}
		fmt.Fprint(out, zl(html.UnescapeString(fmt.Sprintf("&#%d;", x))))
	}
	fmt.Fprintln(out, "].")
	fmt.Fprintf(out, "Definition rangesSpace : list (Z * Z) := %s.\n", ranges(unicode.IsSpace))
	fmt.Fprintf(out, "Definition rangesZs : list (Z * Z) := %s.\n", ranges(func(r rune) bool { return unicode.Is(unicode.Zs, r) }))
	fmt.Fprintf(out, "Definition rangesP : list (Z * Z) := %s.\n", ranges(func(r rune) bool {
		return unicode.In(r, unicode.Pc, unicode.Pd, unicode.Pe, unicode.Pf, unicode.Pi, unicode.Po, unicode.Ps)
	}))
	folder := cases.Fold()
	fmt.Fprintln(out, "Definition foldTable : list (Z * list Z) := [")
	first := true
	for r := rune(0); r <= unicode.MaxRune; r++ {
		if r >= 0xD800 && r <= 0xDFFF {
			continue
		}
		s := string(r)
		t := folder.String(s)
		if s != t {
			if !first {
				fmt.Fprint(out, ";")
			}
			first = false
			fmt.Fprintf(out, "(%d,%s)\n", r, zl(t))
		}
	}
	fmt.Fprintln(out, "].")
	fmt.Println(len(semi), len(legacy))
	if len(os.Args) > 3 {
		if err := writeGen(os.Args[2], os.Args[3]); err != nil {
			fmt.Println("TRANSLATOR ERROR:", err)
			os.Exit(3)
		}
	}
}
