package main

import (
	"fmt"

	cm "zombiezen.com/go/commonmark"
)

// classTable prints, for every byte, the classifier bit mask, toLowerASCII and urlHexDigit.
func classTable() {
	for c := 0; c < 256; c++ {
		fmt.Printf("%d %d %d %d\n", c, cm.VerifClass(byte(c)), cm.VerifToLowerASCII(byte(c)), cm.VerifURLHexDigit(byte(c)&15))
	}
}
