// Command harness drives zombiezen.com/go/commonmark (built from /repo's working tree with
// -tags verif) on hex-encoded cases read from stdin and prints one canonical observation
// per case.  Usage: harness <mode> [args].  Each input line is "hex[\tparam]".
package main

import (
	"bufio"
	"encoding/hex"
	"fmt"
	"os"
	"strings"
	"time"
)

type modeFn func(in []byte, param string, idx int) string

var modes = map[string]modeFn{}

// guarded runs f under recover and a watchdog; a panic or a hang is an observation.
func guarded(f modeFn, in []byte, param string, idx int) string {
	done := make(chan string, 1)
	go func() {
		defer func() {
			if r := recover(); r != nil {
				done <- "PANIC " + strings.ReplaceAll(fmt.Sprint(r), "\n", " ")
			}
		}()
		done <- f(in, param, idx)
	}()
	select {
	case s := <-done:
		return s
	case <-time.After(20 * time.Second):
		return "HANG"
	}
}

func main() {
	if len(os.Args) < 2 {
		fmt.Fprintln(os.Stderr, "usage: harness <mode>")
		os.Exit(2)
	}
	mode := os.Args[1]
	if mode == "class" {
		classTable()
		return
	}
	if mode == "race" {
		raceMain(os.Args[2:])
		return
	}
	f, ok := modes[mode]
	if !ok {
		fmt.Fprintln(os.Stderr, "unknown mode", mode)
		os.Exit(2)
	}
	sc := bufio.NewScanner(os.Stdin)
	sc.Buffer(make([]byte, 1<<20), 1<<28)
	w := bufio.NewWriterSize(os.Stdout, 1<<20)
	defer w.Flush()
	for i := 0; sc.Scan(); i++ {
		line := sc.Text()
		param := ""
		if t := strings.IndexByte(line, '\t'); t >= 0 {
			param = line[t+1:]
			line = line[:t]
		}
		in, err := hex.DecodeString(strings.TrimSpace(line))
		if err != nil {
			fmt.Fprintln(w, "BADHEX")
			continue
		}
		fmt.Fprintln(w, guarded(f, in, param, i))
	}
}

func hx(b []byte) string { return hex.EncodeToString(b) }
