package main

func raceMain(args []string) {}
