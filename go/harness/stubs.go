package main

// race: the concurrent workload of C19.  Built with -race by the check; reads hex documents from stdin.
//   phase 1: all documents parsed concurrently (16 at a time), each result compared with the sequential parse
//   phase 2: for each of the first n documents, one parsed tree shared by goroutines that render it under all 30
//            configurations (two goroutines per shared *HTMLRenderer value), format it twice and walk it twice;
//            every output compared with the sequentially computed one
// exit status 1 on a differing result; the race detector itself exits with status 66 (GORACE=halt_on_error=1).

import (
	"bufio"
	"bytes"
	"encoding/hex"
	"fmt"
	"os"
	"strconv"
	"strings"
	"sync"

	cm "zombiezen.com/go/commonmark"
	"zombiezen.com/go/commonmark/format"
)

func raceMain(args []string) {
	n := 40
	if len(args) > 1 {
		n, _ = strconv.Atoi(args[1])
	}
	var docs [][]byte
	sc := bufio.NewScanner(os.Stdin)
	sc.Buffer(make([]byte, 1<<20), 1<<26)
	for sc.Scan() {
		b, err := hex.DecodeString(strings.TrimSpace(sc.Text()))
		if err == nil {
			docs = append(docs, b)
		}
	}
	parseDump := func(in []byte) string {
		blocks, refs := cm.Parse(append([]byte(nil), in...))
		return dumpAll(blocks, refs)
	}
	// the concurrent parses read their inputs from ONE arena, as adjacent sub-slices whose capacity is not clamped:
	// a parser that writes into its caller's buffer would write into its neighbours' inputs
	var arena []byte
	offs := make([]int, len(docs)+1)
	for i, d := range docs {
		offs[i] = len(arena)
		arena = append(arena, d...)
	}
	offs[len(docs)] = len(arena)
	arena = append(arena, make([]byte, 64)...)
	arenaCopy := append([]byte(nil), arena...)
	// phase 1
	seq := make([]string, len(docs))
	for i, d := range docs {
		seq[i] = parseDump(d)
	}
	bad := 0
	var mu sync.Mutex
	sem := make(chan struct{}, 16)
	var wg sync.WaitGroup
	for i, d := range docs {
		wg.Add(1)
		sem <- struct{}{}
		go func(i int, d []byte) {
			defer wg.Done()
			defer func() { <-sem }()
			// streaming entry point on odd indices
			var got string
			if i%2 == 1 {
				blocks := streamBlocks(d)
				refs := make(cm.ReferenceMap)
				for _, b := range blocks {
					refs.Extract(b.Source, b.AsNode())
				}
				ip := &cm.InlineParser{ReferenceMatcher: refs}
				for _, b := range blocks {
					ip.Rewrite(b)
				}
				got = dumpAll(blocks, refs)
			} else {
				blocks, refs := cm.Parse(arena[offs[i]:offs[i+1]])
				got = dumpAll(blocks, refs)
			}
			if got != seq[i] {
				mu.Lock()
				bad++
				fmt.Printf("DIFF concurrent parse of document %d differs from sequential parse\n", i)
				mu.Unlock()
			}
		}(i, d)
	}
	wg.Wait()
	if !bytes.Equal(arena, arenaCopy) {
		bad++
		fmt.Println("DIFF the input arena shared by the concurrent parses was modified")
	}
	// phase 2
	evals := len(docs)
	if n > len(docs) {
		n = len(docs)
	}
	for di := 0; di < n; di++ {
		blocks, refs := cm.Parse(append([]byte(nil), docs[di]...))
		want := make([]string, 30)
		rs := make([]*cm.HTMLRenderer, 30)
		for k := 0; k < 30; k++ {
			rs[k] = cfgOf(k)
			rs[k].ReferenceMap = refs
			var buf bytes.Buffer
			rs[k].Render(&buf, blocks)
			want[k] = buf.String()
		}
		var fb bytes.Buffer
		format.Format(&fb, blocks)
		wantFmt := fb.String()
		walkCount := func() int {
			c := 0
			for _, b := range blocks {
				cm.Walk(b.AsNode(), &cm.WalkOptions{Pre: func(cur *cm.Cursor) bool {
					c++
					if i := cur.Node().Inline(); i != nil {
						_ = i.LinkReference()
						_ = i.Text(b.Source)
					}
					return true
				}, Post: func(*cm.Cursor) bool { c++; return true }})
			}
			return c
		}
		wantWalk := walkCount()
		var wg2 sync.WaitGroup
		fail := func(what string) {
			mu.Lock()
			bad++
			fmt.Printf("DIFF %s of shared tree of document %d differs from sequential result\n", what, di)
			mu.Unlock()
		}
		for k := 0; k < 30; k++ {
			for rep := 0; rep < 2; rep++ {
				wg2.Add(1)
				go func(k int) {
					defer wg2.Done()
					var buf bytes.Buffer
					rs[k].Render(&buf, blocks)
					if buf.String() != want[k] {
						fail(fmt.Sprintf("rendering (cfg %d)", k))
					}
				}(k)
			}
		}
		for rep := 0; rep < 2; rep++ {
			wg2.Add(2)
			go func() {
				defer wg2.Done()
				var b bytes.Buffer
				format.Format(&b, blocks)
				if b.String() != wantFmt {
					fail("formatting")
				}
			}()
			go func() {
				defer wg2.Done()
				if walkCount() != wantWalk {
					fail("walking")
				}
			}()
		}
		wg2.Wait()
		evals += 64
	}
	fmt.Printf("race workload: %d documents parsed concurrently, %d shared trees x 64 concurrent readers, %d differing results, evaluations %d\n", len(docs), n, bad, evals)
	if bad > 0 {
		os.Exit(1)
	}
}
