package main

// Oracles on rendered HTML: C07 (safe-HTML grammar), C17 (relaxed '<' + tokenizer), C11 (reference emphasis procedure).

import (
	"bytes"
	"fmt"
	"strings"
	"unicode"
	"unicode/utf8"

	"golang.org/x/net/html"
	cm "zombiezen.com/go/commonmark"
)

// ---- C07 ----

var safeElems = map[string]bool{"p": true, "h1": true, "h2": true, "h3": true, "h4": true, "h5": true, "h6": true, "blockquote": true,
	"ul": true, "ol": true, "li": true, "pre": true, "code": true, "em": true, "strong": true, "a": true, "img": true, "br": true, "hr": true}
var voidElems = map[string]bool{"img": true, "br": true, "hr": true}
var safeAttrs = map[string]bool{"href": true, "title": true, "src": true, "alt": true, "class": true, "start": true}

func isAlnum(c byte) bool {
	return c >= '0' && c <= '9' || c >= 'a' && c <= 'z' || c >= 'A' && c <= 'Z'
}

// ampOK: '&' at position i of s heads a character reference "&[A-Za-z0-9#]+;"
func ampOK(s []byte, i int) bool {
	j := i + 1
	for j < len(s) && (isAlnum(s[j]) || s[j] == '#') {
		j++
	}
	return j > i+1 && j < len(s) && s[j] == ';'
}

func safeHTML(out []byte) string {
	var stack []string
	i := 0
	for i < len(out) {
		c := out[i]
		switch c {
		case '>', '"':
			return fmt.Sprintf("C07-bare-%q-in-text at %d", c, i)
		case '&':
			if !ampOK(out, i) {
				return fmt.Sprintf("C07-bare-amp at %d", i)
			}
			i++
		case '<':
			j := i + 1
			closing := false
			if j < len(out) && out[j] == '/' {
				closing = true
				j++
			}
			k := j
			for k < len(out) && isAlnum(out[k]) {
				k++
			}
			name := string(out[j:k])
			if !safeElems[name] {
				return fmt.Sprintf("C07-element %q at %d", name, i)
			}
			if closing {
				if k >= len(out) || out[k] != '>' {
					return fmt.Sprintf("C07-malformed-end-tag at %d", i)
				}
				if len(stack) == 0 || stack[len(stack)-1] != name {
					return fmt.Sprintf("C07-nesting end %q at %d", name, i)
				}
				stack = stack[:len(stack)-1]
				i = k + 1
				continue
			}
			// attributes
			for {
				if k < len(out) && out[k] == '>' {
					k++
					break
				}
				if k+1 < len(out) && out[k] == ' ' && out[k+1] == '/' && k+2 < len(out) && out[k+2] == '>' && voidElems[name] {
					k += 3
					break
				}
				if k >= len(out) || out[k] != ' ' {
					return fmt.Sprintf("C07-malformed-tag %q at %d", name, i)
				}
				k++
				a := k
				for k < len(out) && out[k] >= 'a' && out[k] <= 'z' {
					k++
				}
				if !safeAttrs[string(out[a:k])] {
					return fmt.Sprintf("C07-attribute %q at %d", out[a:k], a)
				}
				if k+1 >= len(out) || out[k] != '=' || out[k+1] != '"' {
					return fmt.Sprintf("C07-attribute-syntax at %d", k)
				}
				k += 2
				for k < len(out) && out[k] != '"' {
					if out[k] == '<' || out[k] == '>' {
						return fmt.Sprintf("C07-attribute-value-char %q at %d", out[k], k)
					}
					if out[k] == '&' && !ampOK(out, k) {
						return fmt.Sprintf("C07-attribute-value-amp at %d", k)
					}
					k++
				}
				if k >= len(out) {
					return "C07-unterminated-attribute"
				}
				k++
			}
			if !voidElems[name] {
				stack = append(stack, name)
			}
			i = k
		default:
			i++
		}
	}
	if len(stack) != 0 {
		return "C07-unclosed " + strings.Join(stack, ",")
	}
	return ""
}

func hasRawHTML(blocks []*cm.RootBlock) bool {
	found := false
	for _, b := range blocks {
		cm.Walk(b.AsNode(), &cm.WalkOptions{Pre: func(c *cm.Cursor) bool {
			if i := c.Node().Inline(); i != nil && (i.Kind() == cm.RawHTMLKind || i.Kind() == cm.HTMLTagKind) {
				found = true
			}
			if bl := c.Node().Block(); bl != nil && bl.Kind() == cm.HTMLBlockKind {
				found = true
			}
			return true
		}})
	}
	return found
}

func judgeC07(in []byte, _ string, _ int) string {
	blocks, refs := cm.Parse(append([]byte(nil), in...))
	raw := hasRawHTML(blocks)
	for soft := 0; soft < 3; soft++ {
		for _, ign := range []bool{true, false} {
			if !ign && raw {
				continue
			}
			r := &cm.HTMLRenderer{ReferenceMap: refs, SoftBreakBehavior: cm.SoftBreakBehavior(soft), IgnoreRaw: ign}
			var buf bytes.Buffer
			r.Render(&buf, blocks)
			if s := safeHTML(buf.Bytes()); s != "" {
				return fmt.Sprintf("%s (soft %d ignoreRaw %v)", s, soft, ign)
			}
		}
	}
	return ""
}

// ---- C17 ----

func ltRelaxed(filtered, plain []byte) bool {
	i, j := 0, 0
	for j < len(plain) {
		if i < len(filtered) && filtered[i] == plain[j] {
			i++
			j++
			continue
		}
		if plain[j] == '<' && bytes.HasPrefix(filtered[i:], []byte("&lt;")) {
			i += 4
			j++
			continue
		}
		return false
	}
	return i == len(filtered)
}

var predSets = map[string]func([]byte) bool{
	"gfm":  cm.FilterTagGFM,
	"all":  func([]byte) bool { return true },
	"none": func([]byte) bool { return false },
	"set1": func(t []byte) bool {
		switch string(t) {
		case "script", "style", "title", "textarea", "xmp", "iframe", "noembed", "noframes", "plaintext", "b", "div", "a":
			return true
		}
		return false
	},
	"set2": func(t []byte) bool {
		switch string(t) {
		case "script", "style", "title", "textarea", "xmp", "iframe", "noembed", "noframes", "plaintext", "em", "p", "pre", "code":
			return true
		}
		return false
	},
}

func startTags(out []byte) []string {
	var names []string
	z := html.NewTokenizer(bytes.NewReader(out))
	for {
		tt := z.Next()
		if tt == html.ErrorToken {
			return names
		}
		if tt == html.StartTagToken || tt == html.SelfClosingTagToken {
			n, _ := z.TagName()
			names = append(names, strings.ToLower(string(n)))
		}
	}
}

func judgeC17(in []byte, param string, _ int) string {
	blocks, refs := cm.Parse(append([]byte(nil), in...))
	for soft := 0; soft < 3; soft += 2 {
		plainR := &cm.HTMLRenderer{ReferenceMap: refs, SoftBreakBehavior: cm.SoftBreakBehavior(soft)}
		var plain bytes.Buffer
		plainR.Render(&plain, blocks)
		for _, name := range []string{"gfm", "all", "none", "set1", "set2"} {
			if param != "" && param != name {
				continue
			}
			pred := predSets[name]
			r := &cm.HTMLRenderer{ReferenceMap: refs, SoftBreakBehavior: cm.SoftBreakBehavior(soft), FilterTag: pred}
			var buf bytes.Buffer
			r.Render(&buf, blocks)
			if !ltRelaxed(buf.Bytes(), plain.Bytes()) {
				return "C17-not-lt-relaxed pred " + name
			}
			if name == "none" && !bytes.Equal(buf.Bytes(), plain.Bytes()) {
				return "C17-none-changes"
			}
			for _, t := range startTags(buf.Bytes()) {
				if pred([]byte(t)) {
					return fmt.Sprintf("C17-rejected-start-tag %q pred %s", t, name)
				}
			}
		}
	}
	return ""
}

// ---- C11 ----

type etok struct {
	text              string
	isDelim           bool
	ch                byte
	n, cur            int
	canOpen, canClose bool
}

func specWS(r rune) bool {
	return r == ' ' || r == '\t' || r == '\n' || r == '\f' || r == '\r' || unicode.Is(unicode.Zs, r)
}
func specP(r rune) bool {
	if r < 0x80 {
		return strings.ContainsRune("!\"#$%&'()*+,-./:;<=>?@[\\]^_`{|}~", r)
	}
	return unicode.In(r, unicode.Pc, unicode.Pd, unicode.Pe, unicode.Pf, unicode.Pi, unicode.Po, unicode.Ps)
}

type enode struct {
	tag  string
	text string
	kids []*enode
}

// refEmphasis renders the paragraph s by the spec's delimiter-run rules and process-emphasis procedure
// searching down to the stack bottom every time (no openers_bottom).
func refEmphasis(s string) string {
	var toks []*etok
	for i := 0; i < len(s); {
		if s[i] == '*' || s[i] == '_' {
			j := i
			for j < len(s) && s[j] == s[i] {
				j++
			}
			prev, next := ' ', ' '
			if i > 0 {
				prev, _ = utf8.DecodeLastRuneInString(s[:i])
			}
			if j < len(s) {
				next, _ = utf8.DecodeRuneInString(s[j:])
			}
			lf := !specWS(next) && (!specP(next) || specWS(prev) || specP(prev))
			rf := !specWS(prev) && (!specP(prev) || specWS(next) || specP(next))
			t := &etok{isDelim: true, ch: s[i], n: j - i, cur: j - i}
			if s[i] == '*' {
				t.canOpen, t.canClose = lf, rf
			} else {
				t.canOpen = lf && (!rf || specP(prev))
				t.canClose = rf && (!lf || specP(next))
			}
			toks = append(toks, t)
			i = j
		} else {
			j := i
			for j < len(s) && s[j] != '*' && s[j] != '_' {
				j++
			}
			toks = append(toks, &etok{text: s[i:j]})
			i = j
		}
	}
	type ent struct {
		t *etok
		n *enode
	}
	seq := make([]ent, len(toks))
	onStack := map[*etok]bool{}
	for i, t := range toks {
		if t.isDelim {
			seq[i] = ent{t, &enode{text: strings.Repeat(string(t.ch), t.n)}}
			onStack[t] = true
		} else {
			seq[i] = ent{t, &enode{text: t.text}}
		}
	}
	cp := 0
	for {
		for cp < len(seq) && !(seq[cp].t != nil && seq[cp].t.isDelim && onStack[seq[cp].t] && seq[cp].t.canClose) {
			cp++
		}
		if cp >= len(seq) {
			break
		}
		c := seq[cp].t
		oi := cp - 1
		for oi >= 0 {
			o := seq[oi].t
			if o != nil && o.isDelim && onStack[o] && o.ch == c.ch && o.canOpen &&
				(!(o.canClose || c.canOpen) || (o.n+c.n)%3 != 0 || (o.n%3 == 0 && c.n%3 == 0)) {
				break
			}
			oi--
		}
		if oi >= 0 {
			o := seq[oi].t
			k := 1
			tag := "em"
			if o.cur >= 2 && c.cur >= 2 {
				k, tag = 2, "strong"
			}
			o.cur -= k
			c.cur -= k
			seq[oi].n.text = strings.Repeat(string(o.ch), o.cur)
			seq[cp].n.text = strings.Repeat(string(c.ch), c.cur)
			w := &enode{tag: tag}
			for _, e := range seq[oi+1 : cp] {
				w.kids = append(w.kids, e.n)
				if e.t != nil {
					delete(onStack, e.t)
				}
			}
			ns := append([]ent{}, seq[:oi+1]...)
			ns = append(ns, ent{nil, w})
			ns = append(ns, seq[cp:]...)
			seq = ns
			cp = oi + 2
			if o.cur == 0 {
				delete(onStack, o)
				seq = append(seq[:oi:oi], seq[oi+1:]...)
				cp--
			}
			if c.cur == 0 {
				delete(onStack, c)
				seq = append(seq[:cp:cp], seq[cp+1:]...)
			}
		} else {
			if !c.canOpen {
				delete(onStack, c)
			}
			cp++
		}
	}
	var sb strings.Builder
	var rec func(n *enode)
	rec = func(n *enode) {
		if n.tag != "" {
			sb.WriteString("<" + n.tag + ">")
			for _, k := range n.kids {
				rec(k)
			}
			sb.WriteString("</" + n.tag + ">")
		} else {
			sb.WriteString(n.text)
		}
	}
	sb.WriteString("<p>")
	for _, e := range seq {
		rec(e.n)
	}
	sb.WriteString("</p>")
	return sb.String()
}

// emphasisCase reports whether s is a one-paragraph document in the scope of C11.
func emphasisCase(s string) bool {
	if s == "" || strings.HasPrefix(s, " ") || strings.HasSuffix(s, " ") || strings.HasPrefix(s, "* ") || s == "*" {
		return false
	}
	t := strings.ReplaceAll(s, " ", "")
	if len(t) >= 3 && (strings.Trim(t, "*") == "" || strings.Trim(t, "_") == "") {
		return false
	}
	return true
}

func judgeC11(in []byte, _ string, _ int) string {
	s := string(in)
	if !emphasisCase(s) {
		return ""
	}
	blocks, refs := cm.Parse(append([]byte(nil), in...))
	var buf bytes.Buffer
	cm.RenderHTML(&buf, blocks, refs)
	if got, want := buf.String(), refEmphasis(s); got != want {
		return fmt.Sprintf("C11-structure got %q want %q", got, want)
	}
	return ""
}

func init() {
	modes["judge:C07"] = wrapJudge(judgeC07)
	modes["judge:C17"] = wrapJudge(judgeC17)
	modes["judge:C11"] = wrapJudge(judgeC11)
}
