package main

import (
	"encoding/hex"
	"fmt"
	"strings"
)

// judge:C06 — param is the hex of the HTML that the CommonMark 0.30 mapping assigns to the document
// (computed by the generator's own denotation); compared up to insignificant inter-block whitespace.
func judgeC06(in []byte, param string, _ int) string {
	want, err := hex.DecodeString(param)
	if err != nil {
		return "C06-bad-param"
	}
	got := strings.TrimSpace(norm(render(in, false)))
	exp := strings.TrimSpace(norm(string(want)))
	if got != exp {
		return fmt.Sprintf("C06-html got %q want %q", got, exp)
	}
	return ""
}

func init() { modes["judge:C06"] = wrapJudge(judgeC06) }
