package main

import (
	"bytes"
	"fmt"
	"sort"
	"strconv"
	"strings"

	cm "zombiezen.com/go/commonmark"
	"zombiezen.com/go/commonmark/format"
)

func b2i(b bool) int {
	if b {
		return 1
	}
	return 0
}

func dumpNode(sb *strings.Builder, src []byte, n cm.Node) {
	if b := n.Block(); b != nil {
		fmt.Fprintf(sb, "(B %d %d %d %d %d %d %d", int(b.Kind()), b.Span().Start, b.Span().End,
			b.HeadingLevel(), b2i(b.IsOrderedList()), b2i(b.IsTightList()), b.ListItemNumber(src))
	} else if i := n.Inline(); i != nil {
		fmt.Fprintf(sb, "(I %d %d %d %d %s", int(i.Kind()), i.Span().Start, i.Span().End, i.IndentWidth(),
			hx([]byte(i.LinkReference())))
	}
	for k := 0; k < n.ChildCount(); k++ {
		dumpNode(sb, src, n.Child(k))
	}
	sb.WriteString(")")
}

func dumpRoots(sb *strings.Builder, blocks []*cm.RootBlock) {
	for _, b := range blocks {
		fmt.Fprintf(sb, "(R %d %d %d %s ", b.StartLine, b.StartOffset, b.EndOffset, hx(b.Source))
		dumpNode(sb, b.Source, b.AsNode())
		sb.WriteString(")")
	}
}

func dumpRefs(sb *strings.Builder, refs cm.ReferenceMap) {
	keys := make([]string, 0, len(refs))
	for k := range refs {
		keys = append(keys, k)
	}
	sort.Strings(keys)
	sb.WriteString(" M")
	for _, k := range keys {
		d := refs[k]
		fmt.Fprintf(sb, "(%s %s %s %d)", hx([]byte(k)), hx([]byte(d.Destination)), hx([]byte(d.Title)), b2i(d.TitlePresent))
	}
}

// streamBlocks reads all blocks through NewBlockParser/NextBlock.
func streamBlocks(in []byte) []*cm.RootBlock {
	p := cm.NewBlockParser(bytes.NewReader(in))
	var blocks []*cm.RootBlock
	for {
		b, err := p.NextBlock()
		if err != nil {
			break
		}
		blocks = append(blocks, b)
	}
	return blocks
}

func cfgOf(k int) *cm.HTMLRenderer {
	r := &cm.HTMLRenderer{SoftBreakBehavior: cm.SoftBreakBehavior(k % 3), IgnoreRaw: (k/3)%2 == 1}
	switch (k / 6) % 5 {
	case 1:
		r.FilterTag = cm.FilterTagGFM
	case 2:
		r.FilterTag = func([]byte) bool { return true }
	case 3:
		r.FilterTag = func([]byte) bool { return false }
	case 4:
		r.FilterTag = func(t []byte) bool {
			s := string(t)
			return s == "p" || s == "em" || s == "script" || s == "/li"
		}
	}
	return r
}

func cfgIndex(param string, idx int) int {
	if param != "" {
		if k, err := strconv.Atoi(param); err == nil {
			return k
		}
	}
	return idx % 30
}

func init() {
	// block structure only (no inline rewriting), through the streaming entry point
	modes["blocks"] = func(in []byte, _ string, _ int) string {
		sb := new(strings.Builder)
		dumpRoots(sb, streamBlocks(in))
		return sb.String()
	}
	// complete trees and reference map through Parse
	modes["full"] = func(in []byte, _ string, _ int) string {
		sb := new(strings.Builder)
		blocks, refs := cm.Parse(append([]byte(nil), in...))
		dumpRoots(sb, blocks)
		dumpRefs(sb, refs)
		return sb.String()
	}
	// complete trees through NextBlock + Extract + Rewrite
	modes["fullstream"] = func(in []byte, _ string, _ int) string {
		sb := new(strings.Builder)
		blocks := streamBlocks(in)
		refs := make(cm.ReferenceMap)
		for _, b := range blocks {
			refs.Extract(b.Source, b.AsNode())
		}
		ip := &cm.InlineParser{ReferenceMatcher: refs}
		for _, b := range blocks {
			ip.Rewrite(b)
		}
		dumpRoots(sb, blocks)
		dumpRefs(sb, refs)
		return sb.String()
	}
	modes["html"] = func(in []byte, param string, idx int) string {
		blocks, refs := cm.Parse(append([]byte(nil), in...))
		r := cfgOf(cfgIndex(param, idx))
		r.ReferenceMap = refs
		var buf bytes.Buffer
		if err := r.Render(&buf, blocks); err != nil {
			return "ERR " + err.Error()
		}
		return hx(buf.Bytes())
	}
	// tree dump and HTML under one configuration, from the same parse: "dump<TAB>html"
	modes["treehtml"] = func(in []byte, param string, idx int) string {
		blocks, refs := cm.Parse(append([]byte(nil), in...))
		sb := new(strings.Builder)
		dumpRoots(sb, blocks)
		dumpRefs(sb, refs)
		r := cfgOf(cfgIndex(param, idx))
		r.ReferenceMap = refs
		var buf bytes.Buffer
		if err := r.Render(&buf, blocks); err != nil {
			return "ERR " + err.Error()
		}
		var fb bytes.Buffer
		ferr := format.Format(&fb, blocks)
		fs := hx(fb.Bytes())
		if ferr != nil {
			fs = "ERR"
		}
		return sb.String() + "\t" + hx(buf.Bytes()) + "\t" + fs
	}
	modes["fmt"] = func(in []byte, _ string, _ int) string {
		blocks, _ := cm.Parse(append([]byte(nil), in...))
		var buf bytes.Buffer
		if err := format.Format(&buf, blocks); err != nil {
			return "ERR " + err.Error()
		}
		return hx(buf.Bytes())
	}
}
