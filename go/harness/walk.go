package main

// Walk: event traces under callback policies (C18).
//
// A policy is "prune=3.9;abort=14;nopre;nopost;virt=root|rev;hide=K" :
//   prune: Pre returns false at these pre-visit numbers (0-based count of Pre calls)
//   abort: Post returns false at this post-visit number
//   nopre / nopost: the callback is nil
//   virt=root: custom ChildCount/Child present one virtual root (the zero Node) whose children are the root blocks
//   virt=rev : custom functions present every node's children in reverse order
//   virt=childonly / virt=countonly : only Child (reversed order) or only ChildCount (at most two children) is supplied
// Trace events: "pre:<label>:<parentlabel>:<blocklabel>:<index>" with labels = pre-order numbers in the (virtual) tree,
// -1 for "none".

import (
	"fmt"
	"strconv"
	"strings"

	cm "zombiezen.com/go/commonmark"
)

type policy struct {
	prune  map[int]bool
	abort  int
	nopre  bool
	nopost bool
	virt   string
}

func parsePolicy(param string) policy {
	p := policy{prune: map[int]bool{}, abort: -1}
	for _, kv := range strings.Split(param, ";") {
		switch {
		case kv == "nopre":
			p.nopre = true
		case kv == "nopost":
			p.nopost = true
		case strings.HasPrefix(kv, "prune="):
			for _, x := range strings.Split(kv[6:], ".") {
				if n, err := strconv.Atoi(x); err == nil {
					p.prune[n] = true
				}
			}
		case strings.HasPrefix(kv, "abort="):
			p.abort, _ = strconv.Atoi(kv[6:])
		case strings.HasPrefix(kv, "virt="):
			p.virt = kv[5:]
		}
	}
	return p
}

type vtree struct {
	node cm.Node
	kids []*vtree
	lab  int
}

// buildVTree builds the tree that the (custom or default) child functions present, labelled in pre-order.
func buildVTree(root cm.Node, cc func(cm.Node) int, ch func(cm.Node, int) cm.Node, next *int) *vtree {
	t := &vtree{node: root, lab: *next}
	*next++
	n := cc(root)
	for i := 0; i < n; i++ {
		t.kids = append(t.kids, buildVTree(ch(root, i), cc, ch, next))
	}
	return t
}

func dumpVTree(sb *strings.Builder, t *vtree) {
	isb := 0
	if t.node.Block() != nil {
		isb = 1
	}
	fmt.Fprintf(sb, "(%d %d", t.lab, isb)
	for _, k := range t.kids {
		dumpVTree(sb, k)
	}
	sb.WriteString(")")
}

func walkTrace(in []byte, param string) (tree string, trace []string, sig string) {
	blocks, _ := cm.Parse(append([]byte(nil), in...))
	pol := parsePolicy(param)
	var cc func(cm.Node) int
	var ch func(cm.Node, int) cm.Node
	roots := []cm.Node{}
	for _, b := range blocks {
		roots = append(roots, b.AsNode())
	}
	switch pol.virt {
	case "root":
		cc = func(n cm.Node) int {
			if n == (cm.Node{}) {
				return len(roots)
			}
			return n.ChildCount()
		}
		ch = func(n cm.Node, i int) cm.Node {
			if n == (cm.Node{}) {
				return roots[i]
			}
			return n.Child(i)
		}
		roots2 := []cm.Node{{}}
		defer func() { _ = roots2 }()
	case "rev":
		cc = func(n cm.Node) int { return n.ChildCount() }
		ch = func(n cm.Node, i int) cm.Node { return n.Child(n.ChildCount() - 1 - i) }
	case "childonly":
		// only Child supplied: children in reverse order, default count
		ch = func(n cm.Node, i int) cm.Node { return n.Child(n.ChildCount() - 1 - i) }
	case "countonly":
		// only ChildCount supplied: at most the first two children are presented, default Child
		cc = func(n cm.Node) int {
			if c := n.ChildCount(); c < 2 {
				return c
			}
			return 2
		}
	}
	ecc, ech := cc, ch
	if ecc == nil {
		ecc = cm.Node.ChildCount
	}
	if ech == nil {
		ech = cm.Node.Child
	}
	walkRoots := roots
	if pol.virt == "root" {
		walkRoots = []cm.Node{{}}
	}
	var tsb strings.Builder
	for _, root := range walkRoots {
		next := 0
		vt := buildVTree(root, ecc, ech, &next)
		dumpVTree(&tsb, vt)
		labels := map[cm.Node]int{}
		var fill func(t *vtree)
		fill = func(t *vtree) {
			labels[t.node] = t.lab
			for _, k := range t.kids {
				fill(k)
			}
		}
		fill(vt)
		lab := func(n cm.Node) int {
			if l, ok := labels[n]; ok {
				return l
			}
			return -1
		}
		npre, npost := 0, 0
		ev := func(kind string, c *cm.Cursor) {
			pl := -1
			if c.Parent() != (cm.Node{}) || (pol.virt == "root" && c.Node() != (cm.Node{})) {
				pl = lab(c.Parent())
			}
			bl := -1
			if c.ParentBlock() != nil {
				bl = lab(c.ParentBlock().AsNode())
			}
			trace = append(trace, fmt.Sprintf("%s:%d:%d:%d:%d", kind, lab(c.Node()), pl, bl, c.Index()))
			// cursor invariant checked on the implementation directly
			if pl >= 0 || (pol.virt == "root" && c.Node() != (cm.Node{})) {
				if c.Index() < 0 || c.Index() >= ecc(c.Parent()) || ech(c.Parent(), c.Index()) != c.Node() {
					sig = "C18-cursor-parent-child"
				}
			} else if c.Index() >= 0 {
				sig = "C18-root-index"
			}
		}
		opts := &cm.WalkOptions{ChildCount: cc, Child: ch}
		if !pol.nopre {
			opts.Pre = func(c *cm.Cursor) bool {
				ev("pre", c)
				k := npre
				npre++
				return !pol.prune[k]
			}
		}
		if !pol.nopost {
			opts.Post = func(c *cm.Cursor) bool {
				ev("post", c)
				k := npost
				npost++
				return k != pol.abort
			}
		}
		trace = append(trace, "walk")
		cm.Walk(root, opts)
		tsb.WriteString("|")
	}
	return tsb.String(), trace, sig
}

// refTrace: the recursive traversal the property describes, computed independently on the labelled tree
func refTrace(t *vtree, pol policy, parent, blk *vtree, idx int, npre, npost *int, out *[]string) bool {
	pl, bl := -1, -1
	if parent != nil {
		pl = parent.lab
	}
	if blk != nil {
		bl = blk.lab
	}
	e := fmt.Sprintf("%d:%d:%d:%d", t.lab, pl, bl, idx)
	descend := true
	if !pol.nopre {
		*out = append(*out, "pre:"+e)
		k := *npre
		*npre++
		descend = !pol.prune[k]
	}
	if !descend {
		return true
	}
	nb := blk
	if t.node.Block() != nil {
		nb = t
	}
	for i, k := range t.kids {
		if !refTrace(k, pol, t, nb, i, npre, npost, out) {
			return false
		}
	}
	if !pol.nopost {
		*out = append(*out, "post:"+e)
		k := *npost
		*npost++
		if k == pol.abort {
			return false
		}
	}
	return true
}

func judgeC18(in []byte, param string, _ int) string {
	_, trace, sig := walkTrace(in, param)
	if sig != "" {
		return sig
	}
	// recompute the reference per root
	blocks, _ := cm.Parse(append([]byte(nil), in...))
	pol := parsePolicy(param)
	ecc, ech := cm.Node.ChildCount, cm.Node.Child
	var roots []cm.Node
	for _, b := range blocks {
		roots = append(roots, b.AsNode())
	}
	walkRoots := roots
	switch pol.virt {
	case "root":
		ecc = func(n cm.Node) int {
			if n == (cm.Node{}) {
				return len(roots)
			}
			return n.ChildCount()
		}
		ech = func(n cm.Node, i int) cm.Node {
			if n == (cm.Node{}) {
				return roots[i]
			}
			return n.Child(i)
		}
		walkRoots = []cm.Node{{}}
	case "rev", "childonly":
		ech = func(n cm.Node, i int) cm.Node { return n.Child(n.ChildCount() - 1 - i) }
	case "countonly":
		ecc = func(n cm.Node) int {
			if c := n.ChildCount(); c < 2 {
				return c
			}
			return 2
		}
	}
	var want []string
	for _, root := range walkRoots {
		next := 0
		vt := buildVTree(root, ecc, ech, &next)
		want = append(want, "walk")
		npre, npost := 0, 0
		refTrace(vt, pol, nil, nil, -1, &npre, &npost, &want)
	}
	if strings.Join(trace, " ") != strings.Join(want, " ") {
		return "C18-trace"
	}
	return ""
}

func init() {
	modes["walk"] = func(in []byte, param string, _ int) string {
		tree, trace, sig := walkTrace(in, param)
		return tree + "\t" + strings.Join(trace, " ") + "\t" + sig
	}
	modes["judge:C18"] = wrapJudge(judgeC18)
}
