package main

// C15: line recognizers and classifiers against definitions read off the CommonMark 0.30 text
// (written with regular expressions, independent of the implementation's scanners).

import (
	"bytes"
	"fmt"
	"regexp"
	"strconv"
	"strings"

	cm "zombiezen.com/go/commonmark"
)

func stripEOL(l []byte) []byte {
	if bytes.HasSuffix(l, []byte("\r\n")) {
		return l[:len(l)-2]
	}
	if len(l) > 0 && (l[len(l)-1] == '\n' || l[len(l)-1] == '\r') {
		return l[:len(l)-1]
	}
	return l
}

// isLine: line endings occur only at the very end
func isLine(l []byte) bool {
	b := stripEOL(l)
	return bytes.IndexByte(b, '\n') < 0 && bytes.IndexByte(b, '\r') < 0
}

var (
	reTB     = regexp.MustCompile(`^(?:(?:\*[ \t]*){3,}|(?:-[ \t]*){3,}|(?:_[ \t]*){3,})$`)
	reATX    = regexp.MustCompile(`^(#{1,6})(?:[ \t]+(.*))?$`)
	reSetext = regexp.MustCompile(`^(=+|-+)[ \t]*$`)
	reFence  = regexp.MustCompile("^(`{3,}|~{3,})(.*)$")
	reBullet = regexp.MustCompile(`^([-+*])(?:[ \t]|$)`)
	reOrd    = regexp.MustCompile(`^([0-9]{1,9})([.)])(?:[ \t]|$)`)
	reEmail  = regexp.MustCompile("^[a-zA-Z0-9.!#$%&'*+/=?^_`{|}~-]+@[a-zA-Z0-9](?:[a-zA-Z0-9-]{0,61}[a-zA-Z0-9])?(?:\\.[a-zA-Z0-9](?:[a-zA-Z0-9-]{0,61}[a-zA-Z0-9])?)*$")
)

func recogLine(l []byte) string {
	lvl, content := cm.VerifATXHeading(l)
	ch, n, info := cm.VerifCodeFence(l)
	d, num, end := cm.VerifListMarker(l)
	return fmt.Sprintf("tb=%d atx=%d:%d:%d setext=%d fence=%d:%d:%d:%d lm=%d:%d:%d", cm.VerifThematicBreak(l), lvl, content.Start, content.End,
		cm.VerifSetextUnderline(l), ch, n, info.Start, info.End, d, num, end)
}

func judgeC15line(l []byte, _ string, _ int) string {
	// the recognizers are specified for lines whose leading indentation the caller has stripped
	if !isLine(l) || (len(l) > 0 && (l[0] == ' ' || l[0] == '\t')) {
		return ""
	}
	body := stripEOL(l)
	// thematic break
	tb := cm.VerifThematicBreak(l)
	if want := reTB.Match(body); want != (tb >= 0) {
		return fmt.Sprintf("C15-thematic got %d want %v", tb, want)
	} else if want {
		last := bytes.LastIndexAny(body, "-_*") + 1
		if tb != last {
			return fmt.Sprintf("C15-thematic-end got %d want %d", tb, last)
		}
	}
	// ATX heading
	lvl, content := cm.VerifATXHeading(l)
	if m := reATX.FindSubmatch(body); m == nil {
		if lvl != 0 {
			return fmt.Sprintf("C15-atx got level %d want none", lvl)
		}
	} else {
		raw := bytes.Trim(m[2], " \t")
		// optional closing sequence: a run of # at the end preceded by space/tab or making up the whole content
		t := bytes.TrimRight(raw, "#")
		if len(t) < len(raw) && (len(t) == 0 || t[len(t)-1] == ' ' || t[len(t)-1] == '\t') {
			raw = bytes.TrimRight(t, " \t")
		}
		if lvl != len(m[1]) {
			return fmt.Sprintf("C15-atx-level got %d want %d", lvl, len(m[1]))
		}
		if !content.IsValid() || content.End > len(l) {
			return "C15-atx-span"
		}
		if got := l[content.Start:content.End]; !bytes.Equal(got, raw) {
			if bytes.Equal(bytes.TrimRight(got, " \t"), raw) && bytes.HasSuffix(bytes.TrimRight(got, " \t"), []byte("\\")) {
				return fmt.Sprintf("C15-atx-escaped-space got %q want %q", got, raw)
			}
			return fmt.Sprintf("C15-atx-content got %q want %q", got, raw)
		}
	}
	// setext underline
	sl := cm.VerifSetextUnderline(l)
	wantS := 0
	if m := reSetext.FindSubmatch(body); m != nil {
		if m[1][0] == '=' {
			wantS = 1
		} else {
			wantS = 2
		}
	}
	if sl != wantS {
		return fmt.Sprintf("C15-setext got %d want %d", sl, wantS)
	}
	// code fence
	ch, n, info := cm.VerifCodeFence(l)
	if m := reFence.FindSubmatch(body); m == nil || (m[1][0] == '`' && bytes.IndexByte(m[2], '`') >= 0) {
		if n != 0 {
			return fmt.Sprintf("C15-fence got n %d want none", n)
		}
	} else {
		if n != len(m[1]) || ch != m[1][0] {
			return fmt.Sprintf("C15-fence-run got %c x %d want %c x %d", ch, n, m[1][0], len(m[1]))
		}
		wantInfo := bytes.Trim(m[2], " \t")
		var got []byte
		if info.IsValid() {
			if info.End > len(l) {
				return "C15-fence-span"
			}
			got = l[info.Start:info.End]
		}
		if !bytes.Equal(got, wantInfo) {
			return fmt.Sprintf("C15-fence-info got %q want %q", got, wantInfo)
		}
	}
	// list marker
	d, num, end := cm.VerifListMarker(l)
	if m := reBullet.FindSubmatch(body); m != nil {
		if end != 1 || d != m[1][0] {
			return fmt.Sprintf("C15-bullet got %c end %d", d, end)
		}
	} else if m := reOrd.FindSubmatch(body); m != nil {
		want, _ := strconv.Atoi(string(m[1]))
		if end != len(m[1])+1 || d != m[2][0] || num != want {
			return fmt.Sprintf("C15-ordered got %c %d end %d want %c %d end %d", d, num, end, m[2][0], want, len(m[1])+1)
		}
	} else if end >= 0 {
		return fmt.Sprintf("C15-listmarker got end %d want none", end)
	}
	return ""
}

func judgeC15class(_ []byte, _ string, _ int) string {
	for c := 0; c < 256; c++ {
		b := byte(c)
		m := cm.VerifClass(b)
		want := uint16(0)
		if b == ' ' || b == '\t' || b == '\n' || b == '\r' {
			want |= 1
		}
		if b >= 'A' && b <= 'Z' || b >= 'a' && b <= 'z' {
			want |= 2
		}
		if b >= '0' && b <= '9' {
			want |= 4
		}
		if strings.IndexByte("!\"#$%&'()*+,-./:;<=>?@[\\]^_`{|}~", b) >= 0 {
			want |= 8
		}
		if b < 0x20 || b == 0x7f {
			want |= 16
		}
		if strings.IndexByte("0123456789abcdefABCDEF", b) >= 0 {
			want |= 32
		}
		if m&63 != want {
			return fmt.Sprintf("C15-class byte %d got %06b want %06b", c, m&63, want)
		}
	}
	return ""
}

const uriOK = "ABCDEFGHIJKLMNOPQRSTUVWXYZabcdefghijklmnopqrstuvwxyz0123456789-._~:/?#[]@!$&'()*+,;=%"

func judgeC15uri(in []byte, _ string, _ int) string {
	out := cm.NormalizeURI(string(in))
	for i := 0; i < len(out); i++ {
		if strings.IndexByte(uriOK, out[i]) < 0 {
			return fmt.Sprintf("C15-uri-alphabet byte %q", out[i])
		}
		if out[i] == '%' {
			if i+2 >= len(out) || strings.IndexByte("0123456789abcdefABCDEF", out[i+1]) < 0 || strings.IndexByte("0123456789abcdefABCDEF", out[i+2]) < 0 {
				return "C15-uri-escape-malformed"
			}
		}
	}
	if cm.NormalizeURI(out) != out {
		return "C15-uri-not-idempotent"
	}
	return ""
}

func judgeC15email(in []byte, _ string, _ int) string {
	if got, want := cm.IsEmailAddress(string(in)), reEmail.Match(in); got != want {
		return fmt.Sprintf("C15-email got %v want %v", got, want)
	}
	return ""
}

func init() {
	modes["recog"] = func(in []byte, _ string, _ int) string { return recogLine(in) }
	modes["uri"] = func(in []byte, _ string, _ int) string { return hx([]byte(cm.NormalizeURI(string(in)))) }
	modes["email"] = func(in []byte, _ string, _ int) string {
		return fmt.Sprintf("%d %v", cm.VerifEmail(in), cm.IsEmailAddress(string(in)))
	}
	modes["filterraw"] = func(in []byte, param string, _ int) string {
		pred := predSets[param]
		if pred == nil {
			pred = predSets["gfm"]
		}
		return hx(cm.VerifFilterRaw(in, pred))
	}
	modes["judge:C15"] = wrapJudge(judgeC15line)
	modes["judge:C15class"] = wrapJudge(judgeC15class)
	modes["judge:C15uri"] = wrapJudge(judgeC15uri)
	modes["judge:C15email"] = wrapJudge(judgeC15email)
}
